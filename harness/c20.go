package main

// C20: natsort.Less is a strict total order comparing digit runs by value; printed modules list
// type definitions, comdats and named metadata in that order, attribute groups and metadata
// definitions by ascending ID, globals/aliases/ifuncs/functions in textual order.

import (
	"fmt"
	"math/big"
	"regexp"
	"strconv"
	"strings"

	"github.com/llir/llvm/asm"
	"github.com/llir/llvm/ir"
	"github.com/llir/llvm/ir/enum"
	"github.com/llir/llvm/ir/metadata"
	"github.com/llir/llvm/ir/types"
	"github.com/llir/llvm/verifhook"
)

func init() { props["C20"] = runC20 }

// digit-heavy strings over a small alphabet incl. bytes >= 0x80 and leading-zero runs
func c20String(r *rng, maxlen int) string {
	n := r.intn(maxlen + 1)
	var b []byte
	for len(b) < n {
		switch r.intn(10) {
		case 0, 1, 2: // digit run, maybe with leading zeros
			for k := r.intn(3); k > 0; k-- {
				b = append(b, '0')
			}
			for k := 1 + r.intn(4); k > 0; k-- {
				b = append(b, byte('0'+r.intn(10)))
			}
		case 3:
			b = append(b, r.pick("09"))
		case 4:
			b = append(b, byte(0x80+r.intn(0x80)))
		case 5:
			b = append(b, r.pick("/:-.$_ "))
		default:
			b = append(b, r.pick("abAB"))
		}
	}
	if len(b) > maxlen {
		b = b[:maxlen]
	}
	return string(b)
}

func less(a, b string) bool { return verifhook.NatsortLess(a, b) }

func c20Axioms(c *config, strs []string, label string) {
	o := c.out
	n := len(strs)
	for i := 0; i < n; i++ {
		a := strs[i]
		if less(a, a) {
			o.Fail("irreflexive", "", "less(a,a)", map[string]string{"a": hx(a)})
		} else {
			o.Pass("irreflexive")
		}
		for j := 0; j < n; j++ {
			b := strs[j]
			ab, ba := less(a, b), less(b, a)
			if ab && ba {
				o.Fail("asymmetric", "", "less(a,b)&&less(b,a)", map[string]string{"a": hx(a), "b": hx(b)})
			} else {
				o.Pass("asymmetric")
			}
			if a != b && !ab && !ba {
				o.Fail("total", "", "neither", map[string]string{"a": hx(a), "b": hx(b)})
			} else {
				o.Pass("total")
			}
		}
	}
	// transitivity: all triples when small, sampled otherwise
	r := newRng(c.seed, "c20-triples-"+label)
	triples := n * n * n
	limit := 40000 * c.scale
	for t := 0; t < triples && t < limit; t++ {
		var i, j, k int
		if triples <= limit {
			i, j, k = t/(n*n), (t/n)%n, t%n
		} else {
			i, j, k = r.intn(n), r.intn(n), r.intn(n)
		}
		if less(strs[i], strs[j]) && less(strs[j], strs[k]) {
			if !less(strs[i], strs[k]) {
				o.Fail("transitive", "", "a<b<c but not a<c", map[string]string{"a": hx(strs[i]), "b": hx(strs[j]), "c": hx(strs[k])})
			} else {
				o.Pass("transitive")
			}
		}
	}
}

// all strings of length <= n over the alphabet
func allStrings(alpha string, n int) []string {
	res := []string{""}
	prev := []string{""}
	for l := 1; l <= n; l++ {
		var cur []string
		for _, p := range prev {
			for i := 0; i < len(alpha); i++ {
				cur = append(cur, p+string(alpha[i]))
			}
		}
		res = append(res, cur...)
		prev = cur
	}
	return res
}

func runC20(c *config) {
	o := c.out
	if c.replay != "" {
		if !c20MDZerosReplay(c) {
			c20Replay(c)
		}
		return
	}
	r := newRng(c.seed, "c20")

	// 1. Less on an exhaustive small universe (sampled pairs quick, all pairs thorough) -> correspondence
	univ := allStrings("019a-", 5) // 3906 strings
	npairs := 20000
	if c.tier == "thorough" {
		npairs = 0
		step := 1
		for i := 0; i < len(univ); i += step {
			for j := 0; j < len(univ); j++ {
				o.Case("less", []string{hx(univ[i]), hx(univ[j])}, []string{b2s(less(univ[i], univ[j]))})
			}
		}
		o.StatN("less.pairs.exhaustive_len5", len(univ)*len(univ))
	}
	for i := 0; i < npairs; i++ {
		a, b := univ[r.intn(len(univ))], univ[r.intn(len(univ))]
		o.Case("less", []string{hx(a), hx(b)}, []string{b2s(less(a, b))})
		o.Stat("less.pairs.small_universe")
		o.Nontrivial("less:" + a + "|" + b)
	}
	// 2. random pairs of length <= 24, half of them sharing a prefix so the comparison goes deep
	for i := 0; i < 5000*c.scale; i++ {
		a, b := c20String(r, 24), c20String(r, 24)
		if r.coin() {
			p := c20String(r, 12)
			a, b = p+a, p+b
		}
		if r.chance(10) {
			b = a
		}
		res := less(a, b)
		o.Case("less", []string{hx(a), hx(b)}, []string{b2s(res)})
		o.Stat("less.pairs.random")
		o.Stat(fmt.Sprintf("less.result.%v", res))
		o.Nontrivial("less:" + a + "|" + b)
		if i < 3 {
			o.Sample(map[string]interface{}{"kind": "less", "a": a, "b": b, "impl": res})
		}
	}
	// 3. Strings on random slices (distinct elements: the result is then unique)
	for i := 0; i < 300*c.scale; i++ {
		n := r.intn(12)
		seen := map[string]bool{}
		var ss []string
		for len(ss) < n {
			s := c20String(r, 8)
			if !seen[s] {
				seen[s] = true
				ss = append(ss, s)
			}
		}
		in := append([]string(nil), ss...)
		verifhook.NatsortStrings(ss)
		o.Case("sort", []string{hxs(in)}, []string{hxs(ss)})
		o.Stat("sort.slices")
		if i < 2 {
			o.Sample(map[string]interface{}{"kind": "sort", "in": in, "impl": ss})
		}
	}

	// 4. property oracle on the implementation alone: order axioms
	ax := allStrings("09a", 3) // 40 strings: all pairs, all triples
	c20Axioms(c, ax, "small")
	var rs []string
	for i := 0; i < 60; i++ {
		rs = append(rs, c20String(r, 10))
	}
	c20Axioms(c, rs, "random")
	// one prefix, numbers that share leading digits and differ in their zeros (1002 / 103 / 200, 1001 / 102): where
	// a common prefix of two names ends inside a digit run
	var zs []string
	for _, n := range []int{1, 2, 9, 10, 11, 19, 20, 99, 100, 101, 102, 103, 110, 199, 200, 206, 999, 1000, 1001, 1002, 1010, 1100, 2005, 2050, 10000, 10002} {
		zs = append(zs, fmt.Sprintf("s%d", n), fmt.Sprintf("x.%d.y", n))
	}
	zs = append(zs, "s", "s0", "s00", "s01", "s010", "s0100")
	c20Axioms(c, zs, "shared_digit_prefix")

	// 5. numeric value of digit runs: value(a) < value(b) => p+a+r < p+b+r'
	for i := 0; i < 3000*c.scale; i++ {
		p := c20String(r, 6)
		if len(p) > 0 && p[len(p)-1] >= '0' && p[len(p)-1] <= '9' {
			p += "x"
		}
		a, b := c20Digits(r), c20Digits(r)
		va, _ := new(big.Int).SetString(a, 10)
		vb, _ := new(big.Int).SetString(b, 10)
		ra, rb := "", ""
		if r.coin() {
			ra = string(r.pick("ab-.")) + c20String(r, 4)
		}
		if r.coin() {
			rb = string(r.pick("ab-.")) + c20String(r, 4)
		}
		s, t := p+a+ra, p+b+rb
		switch va.Cmp(vb) {
		case -1:
			if !less(s, t) || less(t, s) {
				o.Fail("numeric", "", "smaller value not less", map[string]string{"s": hx(s), "t": hx(t)})
			} else {
				o.Pass("numeric")
			}
		case 1:
			if !less(t, s) || less(s, t) {
				o.Fail("numeric", "", "smaller value not less", map[string]string{"s": hx(t), "t": hx(s)})
			} else {
				o.Pass("numeric")
			}
		}
		o.Case("less", []string{hx(s), hx(t)}, []string{b2s(less(s, t))})
		o.Stat("less.pairs.numeric")
	}

	// 5b. a constructed module: type definitions and comdats appended out of order
	{
		m := ir.NewModule()
		m.NewTypeDef("b10", types.NewStruct(types.I32))
		m.NewTypeDef("b9", types.NewStruct(types.I8))
		m.ComdatDefs = append(m.ComdatDefs, &ir.ComdatDef{Name: "z", Kind: enum.SelectionKindAny}, &ir.ComdatDef{Name: "a", Kind: enum.SelectionKindAny})
		m.NamedMetadataDefs["n10"] = &metadata.NamedDef{Name: "n10"}
		m.NamedMetadataDefs["n9"] = &metadata.NamedDef{Name: "n9"}
		ord := c20Orders(m.String())
		if strings.Join(ord["type"], ",") != "b9,b10" || strings.Join(ord["comdat"], ",") != "a,z" {
			o.Fail("constructed_module_order", "constructed_typedef_order", "a constructed module prints type definitions / comdats in insertion order, not in natural order", map[string]interface{}{"printed": m.String()})
		} else {
			o.Pass("constructed_module_order")
		}
		if strings.Join(ord["named"], ",") != "n9,n10" {
			o.Fail("constructed_module_order", "", "named metadata of a constructed module not in natural order", map[string]interface{}{"printed": m.String()})
		} else {
			o.Pass("constructed_module_order")
		}
	}

	// 6. modules: permutations of the top-level definitions
	nmod := 60 * c.scale
	if nmod > 400 {
		nmod = 400
	}
	for i := 0; i < nmod; i++ {
		m := c20GenModule(r)
		c20CheckModule(c, r, m, i < 1)
	}
	c20Escaped(c, r)
	c20MDZeros(c, newRng(c.seed, "c20mdzeros")) // metadata / attribute group IDs written with leading zeros, every permutation (c20mdzeros.go)
	c20Bytes(c, newRng(c.seed, "c20bytes"))     // one-byte differences over the whole byte range, independent reference order (c20bytes.go)
}

func c20Digits(r *rng) string {
	var b []byte
	for k := r.intn(3); k > 0; k-- {
		b = append(b, '0')
	}
	for k := 1 + r.intn(24); k > 0; k-- {
		b = append(b, byte('0'+r.intn(10)))
	}
	return string(b)
}

// ---- module level

type c20Def struct {
	cat  string // type comdat global alias ifunc func attr md named
	name string // name or decimal ID
	text string
}

func c20Name(r *rng, seen map[string]bool) string {
	for {
		var b []byte
		b = append(b, r.pick("abcxyz"))
		for k := r.intn(6); k > 0; k-- {
			if r.chance(60) {
				b = append(b, byte('0'+r.intn(10)))
			} else {
				b = append(b, r.pick("ab.0_"))
			}
		}
		s := string(b)
		if !seen[s] {
			seen[s] = true
			return s
		}
	}
}

func c20GenModule(r *rng) []c20Def {
	var defs []c20Def
	seenT, seenC, seenG, seenM := map[string]bool{}, map[string]bool{}, map[string]bool{}, map[string]bool{}
	for k := 2 + r.intn(5); k > 0; k-- {
		n := c20Name(r, seenT)
		// type names also start with the punctuation an identifier may start with (bytes below '0' and above), and
		// may be plain numbers (%0, %12): all of it is ordered by the one natural order
		switch x := r.intn(10); {
		case x < 3:
			n = string(r.pick("$._")) + n
		case x < 4:
			n = "-" + n
		case x < 6:
			n = fmt.Sprint(r.intn(40))
		}
		if seenT[n] {
			continue
		}
		seenT[n] = true
		defs = append(defs, c20Def{"type", n, fmt.Sprintf("%%%s = type { i32, i%d }", n, 1+r.intn(64))})
	}
	for k := 2 + r.intn(5); k > 0; k-- {
		n := c20Name(r, seenC)
		defs = append(defs, c20Def{"comdat", n, fmt.Sprintf("$%s = comdat any", n)})
	}
	defs = append(defs, c20Def{"func", "res", "declare void @res()"})
	seenG["res"] = true
	var globals []string
	for k := 2 + r.intn(5); k > 0; k-- {
		n := c20Name(r, seenG)
		globals = append(globals, n)
		defs = append(defs, c20Def{"global", n, fmt.Sprintf("@%s = global i32 %d", n, r.intn(100))})
	}
	for k := 1 + r.intn(4); k > 0; k-- {
		n := c20Name(r, seenG)
		defs = append(defs, c20Def{"alias", n, fmt.Sprintf("@%s = alias i32, i32* @%s", n, globals[r.intn(len(globals))])})
	}
	for k := 1 + r.intn(3); k > 0; k-- {
		n := c20Name(r, seenG)
		defs = append(defs, c20Def{"ifunc", n, fmt.Sprintf("@%s = ifunc void (), void ()* @res", n)})
	}
	for k := 2 + r.intn(4); k > 0; k-- {
		n := c20Name(r, seenG)
		if r.coin() {
			defs = append(defs, c20Def{"func", n, fmt.Sprintf("declare void @%s()", n)})
		} else {
			defs = append(defs, c20Def{"func", n, fmt.Sprintf("define void @%s() {\n\tret void\n}", n)})
		}
	}
	seenID := map[int]bool{}
	for k := 2 + r.intn(4); k > 0; k-- {
		id := r.intn(40)
		if seenID[id] {
			continue
		}
		seenID[id] = true
		defs = append(defs, c20Def{"attr", strconv.Itoa(id), fmt.Sprintf("attributes #%d = { nounwind }", id)})
	}
	seenMD := map[int]bool{}
	var mdids []int
	for k := 2 + r.intn(5); k > 0; k-- {
		id := r.intn(60)
		if seenMD[id] {
			continue
		}
		seenMD[id] = true
		mdids = append(mdids, id)
		defs = append(defs, c20Def{"md", strconv.Itoa(id), fmt.Sprintf("!%d = !{i32 %d}", id, id)})
	}
	for k := 2 + r.intn(4); k > 0; k-- {
		n := c20Name(r, seenM)
		defs = append(defs, c20Def{"named", n, fmt.Sprintf("!%s = !{!%d}", n, mdids[r.intn(len(mdids))])})
	}
	return defs
}

var (
	reType   = regexp.MustCompile(`^%([^ ]+) = type `)
	reComdat = regexp.MustCompile(`^\$([^ ]+) = comdat `)
	reGlobal = regexp.MustCompile(`^@([^ ]+) = (?:[a-z_]+ )*?(global|constant|alias|ifunc) `)
	reFunc   = regexp.MustCompile(`^(?:declare|define) .*@([^ (]+)\(`)
	reAttr   = regexp.MustCompile(`^attributes #([0-9]+) = `)
	reMD     = regexp.MustCompile(`^!([0-9]+) = `)
	reNamed  = regexp.MustCompile(`^!([^ 0-9][^ ]*) = `)
)

// printed order of each category
func c20Orders(text string) map[string][]string {
	res := map[string][]string{}
	for _, line := range strings.Split(text, "\n") {
		if m := reType.FindStringSubmatch(line); m != nil {
			res["type"] = append(res["type"], m[1])
		} else if m := reComdat.FindStringSubmatch(line); m != nil {
			res["comdat"] = append(res["comdat"], m[1])
		} else if m := reGlobal.FindStringSubmatch(line); m != nil {
			cat := m[2]
			if cat == "constant" {
				cat = "global"
			}
			res[cat] = append(res[cat], m[1])
		} else if m := reFunc.FindStringSubmatch(line); m != nil {
			res["func"] = append(res["func"], m[1])
		} else if m := reAttr.FindStringSubmatch(line); m != nil {
			res["attr"] = append(res["attr"], m[1])
		} else if m := reMD.FindStringSubmatch(line); m != nil {
			res["md"] = append(res["md"], m[1])
		} else if m := reNamed.FindStringSubmatch(line); m != nil {
			res["named"] = append(res["named"], m[1])
		}
	}
	return res
}

func c20Render(defs []c20Def, perm []int) string {
	var b strings.Builder
	for _, i := range perm {
		b.WriteString(defs[i].text)
		b.WriteString("\n")
	}
	return b.String()
}

var c20Sorted = []string{"type", "comdat", "named"}
var c20ByID = []string{"attr", "md"}
var c20Textual = []string{"global", "alias", "ifunc", "func"}

func c20CheckModule(c *config, r *rng, defs []c20Def, sample bool) {
	o := c.out
	n := len(defs)
	var first map[string][]string
	var firstText string
	for p := 0; p < 3; p++ {
		perm := r.perm(n)
		if p == 0 {
			for i := range perm {
				perm[i] = i
			}
		}
		src := c20Render(defs, perm)
		var text string
		oc, msg := guard(func() error {
			m, err := asm.ParseString("c20.ll", src)
			if err != nil {
				return err
			}
			text = m.String()
			return nil
		})
		if oc != ocOk {
			o.Fail("module_permutation", "", "parse/print "+oc.String(), map[string]string{"src": src, "msg": msg})
			return
		}
		ord := c20Orders(text)
		// correspondence: printed order of the sorted categories = model sort of the textual order
		textual := map[string][]string{}
		for _, i := range perm {
			textual[defs[i].cat] = append(textual[defs[i].cat], defs[i].name)
		}
		for _, cat := range c20Sorted {
			o.Case("sort", []string{hxs(textual[cat])}, []string{hxs(ord[cat])})
			o.Stat("modorder." + cat)
		}
		for _, cat := range c20ByID {
			o.Case("idsort", []string{strings.Join(textual[cat], ",")}, []string{strings.Join(ord[cat], ",")})
			o.Stat("modorder." + cat)
		}
		// the printed order of the sorted categories is ascending under the library's own natural comparison
		// (whose agreement with the model is leg C), by ID for the rest
		for _, cat := range c20Sorted {
			okc := true
			for i := 0; i+1 < len(ord[cat]); i++ {
				if !less(ord[cat][i], ord[cat][i+1]) {
					okc = false
				}
			}
			if !okc {
				o.Fail("canonical_order", "", cat+" definitions of a parsed module are not printed in natural order", map[string]interface{}{"src": src, "printed": ord[cat]})
			} else {
				o.Pass("canonical_order")
			}
		}
		for _, cat := range c20ByID {
			okc := true
			for i := 0; i+1 < len(ord[cat]); i++ {
				a, _ := new(big.Int).SetString(ord[cat][i], 10)
				b, _ := new(big.Int).SetString(ord[cat][i+1], 10)
				if a == nil || b == nil || a.Cmp(b) >= 0 {
					okc = false
				}
			}
			if !okc {
				o.Fail("canonical_order", "", cat+" definitions of a parsed module are not printed by ascending ID", map[string]interface{}{"src": src, "printed": ord[cat]})
			} else {
				o.Pass("canonical_order")
			}
		}
		for _, cat := range c20Textual {
			if strings.Join(textual[cat], ",") != strings.Join(ord[cat], ",") {
				o.Fail("textual_order_kept", "", cat, map[string]interface{}{"src": src, "printed": ord[cat], "textual": textual[cat]})
			} else {
				o.Pass("textual_order_kept")
			}
		}
		if p == 0 {
			first, firstText = ord, text
			if sample {
				o.Sample(map[string]interface{}{"kind": "module", "src": src, "printed_orders": ord})
			}
			o.Nontrivial("module:" + src)
			continue
		}
		for _, cat := range append(append([]string{}, c20Sorted...), c20ByID...) {
			if strings.Join(first[cat], ",") != strings.Join(ord[cat], ",") {
				o.Fail("module_permutation", "", cat+" order depends on input order", map[string]interface{}{"src": src, "first": first[cat], "now": ord[cat]})
			} else {
				o.Pass("module_permutation")
			}
		}
		// a permutation that keeps each textual kind in order must give identical text
		_ = firstText
	}
	// permutation that keeps the relative order of globals/aliases/ifuncs/funcs: text must be byte-identical.
	// Half of the modules also get unnamed globals, aliases and functions that refer to each other by number
	// (their numbers are their positions among the unnamed entities, which such a permutation keeps; the
	// definitions of the other namespaces that move in between take no number)
	if r.coin() {
		defs = append([]c20Def{}, defs...)
		nu := 0
		var unnamedGlobals []int
		for k := 2 + r.intn(5); k > 0; k-- {
			switch {
			case len(unnamedGlobals) == 0 || r.intn(3) == 0:
				defs = append(defs, c20Def{"global", "", fmt.Sprintf("@%d = global i32 %d", nu, r.intn(100))})
				unnamedGlobals = append(unnamedGlobals, nu)
			case r.coin():
				defs = append(defs, c20Def{"global", "", fmt.Sprintf("@%d = global i32* @%d", nu, unnamedGlobals[r.intn(len(unnamedGlobals))])})
			case r.coin():
				defs = append(defs, c20Def{"alias", "", fmt.Sprintf("@%d = alias i32, i32* @%d", nu, unnamedGlobals[r.intn(len(unnamedGlobals))])})
			default:
				defs = append(defs, c20Def{"func", "", fmt.Sprintf("define i32* @%d() {\n\tret i32* @%d\n}", nu, unnamedGlobals[r.intn(len(unnamedGlobals))])})
			}
			nu++
		}
		// the unnamed entities are spread among the named ones of the textual kinds, keeping their own order
		var named, unnamed []c20Def
		for _, d := range defs {
			if d.name == "" {
				unnamed = append(unnamed, d)
			} else {
				named = append(named, d)
			}
		}
		defs = defs[:0]
		for len(named) > 0 || len(unnamed) > 0 {
			if len(unnamed) > 0 && (len(named) == 0 || r.intn(4) == 0) {
				defs, unnamed = append(defs, unnamed[0]), unnamed[1:]
			} else {
				defs, named = append(defs, named[0]), named[1:]
			}
		}
		id := make([]int, len(defs))
		for i := range id {
			id[i] = i
		}
		src := c20Render(defs, id)
		oc, msg := guard(func() error {
			m, err := asm.ParseString("c20.ll", src)
			if err != nil {
				return err
			}
			firstText = m.String()
			return nil
		})
		o.Stat("modules_with_unnamed_entities")
		if oc != ocOk {
			o.Fail("module_permutation", "", "parse/print "+oc.String(), map[string]string{"src": src, "msg": msg})
			return
		}
	}
	var keep, free []int
	for i, d := range defs {
		switch d.cat {
		case "global", "alias", "ifunc", "func":
			keep = append(keep, i)
		default:
			free = append(free, i)
		}
	}
	fp := r.perm(len(free))
	var perm []int
	ki, fi := 0, 0
	for ki < len(keep) || fi < len(free) {
		if fi < len(free) && (ki >= len(keep) || r.coin()) {
			perm = append(perm, free[fp[fi]])
			fi++
		} else {
			perm = append(perm, keep[ki])
			ki++
		}
	}
	src := c20Render(defs, perm)
	var text string
	oc, msg := guard(func() error {
		m, err := asm.ParseString("c20.ll", src)
		if err != nil {
			return err
		}
		text = m.String()
		return nil
	})
	if oc != ocOk {
		o.Fail("module_permutation", "", "parse/print "+oc.String(), map[string]string{"src": src, "msg": msg})
	} else if text != firstText {
		o.Fail("module_permutation", "", "text differs under an order-preserving permutation", map[string]string{"src": src, "a": firstText, "b": text})
	} else {
		o.Pass("module_permutation_text")
	}
}

func c20Replay(c *config) {
	// a replay file holds one oracle failure; re-run the order axioms / the module on it
	rp := readReplay(c.replay)
	d := rp.Detail
	get := func(k string) string {
		if s, ok := d[k].(string); ok {
			if strings.HasPrefix(s, "x") {
				return unhx(s)
			}
			return s
		}
		return ""
	}
	o := c.out
	switch rp.Oracle {
	case "bytewise_outside_digits", "reference_order":
		a, b := get("a"), get("b")
		gen := 0
		if !c20HasDigit(a) && !c20HasDigit(b) {
			gen = strings.Compare(a, b)
		}
		c20Pair(c, a, b, gen)
	case "irreflexive", "asymmetric", "total", "transitive", "numeric":
		var ss []string
		for _, k := range []string{"a", "b", "c", "s", "t"} {
			if _, ok := d[k]; ok {
				ss = append(ss, get(k))
			}
		}
		c20Axioms(c, ss, "replay")
		if rp.Oracle == "numeric" && len(ss) == 2 {
			if !less(ss[0], ss[1]) {
				o.Fail("numeric", "", "smaller value not less", d)
			}
		}
	default:
		src := get("src")
		m, err := asm.ParseString("replay.ll", src)
		if err != nil {
			o.Fail(rp.Oracle, "", "parse error", d)
			return
		}
		fmt.Println(m.String())
	}
}

// c20Escaped: names that the printer has to escape or quote (spaces, non-ASCII bytes, backslashes).  The order
// is the natural order of the names themselves, not of their escaped spellings.
var (
	reTypeQ   = regexp.MustCompile(`^%("(?:[^"])*"|[^ ]+) = type `)
	reComdatQ = regexp.MustCompile(`^\$("(?:[^"])*"|[^ ]+) = comdat `)
)

func c20Escaped(c *config, r *rng) {
	o := c.out
	pool := []string{"a b", "a.c", "aXb", "nz", "n\xc3\xa9", "a\\b", "a b2", "a b10", "A", "a", "b c", "a-b", "a\x7fz", "a!", "a#", "z 9", "z 10"}
	for i := 0; i < 60*c.scale; i++ {
		var names []string
		seen := map[string]bool{}
		for len(names) < 3+r.intn(5) {
			n := pool[r.intn(len(pool))]
			if !seen[n] {
				seen[n] = true
				names = append(names, n)
			}
		}
		var b strings.Builder
		for _, n := range names {
			fmt.Fprintf(&b, "%s = type { i32 }\n", verifhook.TypeName(n))
		}
		for _, n := range names {
			fmt.Fprintf(&b, "%s = comdat any\n", verifhook.ComdatName(n))
		}
		for _, n := range names {
			fmt.Fprintf(&b, "%s = !{}\n", verifhook.MetadataName(n))
		}
		src := b.String()
		var text string
		oc, msg := guard(func() error {
			m, err := asm.ParseString("c20e.ll", src)
			if err != nil {
				return err
			}
			text = m.String()
			return nil
		})
		o.Stat("escaped_name_modules")
		if oc != ocOk {
			o.Fail("canonical_order", "", "a module with names that need escaping is rejected: "+oc.String(), map[string]interface{}{"src": src, "msg": msg})
			continue
		}
		ord := map[string][]string{}
		for _, line := range strings.Split(text, "\n") {
			if m := reTypeQ.FindStringSubmatch(line); m != nil {
				ord["type"] = append(ord["type"], m[1])
			} else if m := reComdatQ.FindStringSubmatch(line); m != nil {
				ord["comdat"] = append(ord["comdat"], m[1])
			} else if m := reNamed.FindStringSubmatch(line); m != nil {
				ord["named"] = append(ord["named"], m[1])
			}
		}
		bad := ""
		for _, cat := range c20Sorted {
			var raw []string
			for _, tok := range ord[cat] {
				// undo the printer's spelling: quotes and \XX escapes
				if strings.HasPrefix(tok, "\"") {
					raw = append(raw, string(verifhook.Unquote(tok)))
				} else {
					raw = append(raw, string(verifhook.Unescape(tok)))
				}
			}
			if len(raw) != len(names) {
				bad = fmt.Sprintf("%s: %d definitions printed, %d written", cat, len(raw), len(names))
			}
			for k := 0; k+1 < len(raw); k++ {
				if !less(raw[k], raw[k+1]) {
					bad = fmt.Sprintf("%s definitions are not in the natural order of their names: %q before %q", cat, raw[k], raw[k+1])
				}
			}
		}
		if bad != "" {
			o.Fail("canonical_order", "", bad, map[string]interface{}{"src": src, "printed": text})
		} else {
			o.Pass("canonical_order")
		}
	}
}
