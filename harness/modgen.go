package main

// A generator of well-formed LLVM modules (as text) in which every kind of reference site of the
// grammar occurs: forward, mutual and self references between types, globals, functions, blocks,
// instruction results, comdats, attribute groups and metadata, blockaddress of blocks of other
// functions, the same local names in different functions.  Every USE of a name goes through
// (*modGen).use, so that a single-point naming fault can be injected: generating the same module
// (same seed) with fault = k redirects the k-th use site to an undefined name; dup = k defines the
// k-th definition twice.

import (
	"fmt"
	"strings"
)

type mgSite struct {
	ns    string // type global local label comdat attr metadata blockaddr_func blockaddr_block uselistorder
	name  string
	where string
}

// skeleton of one top-level entity, for the model (Model/Skeleton.v)
type mgTop struct {
	ns     string   // type comdat global attr metadata
	id     string   // token of the definition (%T0, @g0, $c0, #0, !0)
	kind   string   // plain opaque alias:<target>
	uses   []string // ns=token
	blocks []string
	baddrs []string // @f=%b
}

type modGen struct {
	tops   []*mgTop
	cur    *mgTop
	skip   bool // the module contains something the skeleton does not model at the fault site
	r      *rng
	b      strings.Builder
	sites  []mgSite
	fault  int      // index of the use site to redirect (-1: none)
	defs   []string // definitions (ns:name) in textual order
	dup    int      // index of the definition to duplicate (-1: none)
	dupOut []string // text of the duplicated definition
	curFn  string
}

func (g *modGen) use(ns, tok, where string) string {
	idx := len(g.sites)
	g.sites = append(g.sites, mgSite{ns: ns, name: tok, where: where})
	defer func() {}()
	rec := func(t string) string {
		if g.cur != nil {
			switch ns {
			case "type", "global", "comdat", "attr", "metadata":
				g.cur.uses = append(g.cur.uses, ns+"="+t)
			case "blockaddr_func":
				g.cur.baddrs = append(g.cur.baddrs, t+"=")
			case "blockaddr_block":
				if n := len(g.cur.baddrs); n > 0 {
					g.cur.baddrs[n-1] += t
				}
			}
		} else if idx == g.fault {
			g.skip = true
		}
		return t
	}
	if idx == g.fault {
		if ns == "local" || ns == "label" {
			g.skip = true
		}
		switch ns {
		case "type":
			return rec("%undefined.type")
		case "global":
			return rec("@undefined.global")
		case "local":
			return "%undefined.local"
		case "label":
			return "%undefined.label"
		case "comdat":
			return rec("$undefined.comdat")
		case "attr":
			return rec("#987")
		case "metadata":
			return rec("!987")
		case "blockaddr_func":
			return rec("@undefined.func")
		case "blockaddr_block":
			return rec("%undefined.block")
		}
	}
	return rec(tok)
}

// begin starts a top-level entity of the skeleton (twice when the definition is duplicated)
func (g *modGen) begin(ns, id, kind string, twice bool) {
	g.cur = &mgTop{ns: ns, id: id, kind: kind}
	g.tops = append(g.tops, g.cur)
	if twice {
		g.tops = append(g.tops, g.cur)
	}
}

// def records a definition; returns true when this definition is to be emitted twice
func (g *modGen) def(ns, name string) bool {
	idx := len(g.defs)
	g.defs = append(g.defs, ns+":"+name)
	return idx == g.dup
}

func (g *modGen) line(format string, a ...interface{}) { fmt.Fprintf(&g.b, format+"\n", a...) }

// genModule returns the text of the module for the given seed stream, the use sites and definitions.
func genModule(seed uint64, stream string, fault, dup int) (string, []mgSite, []string) {
	src, g := genModuleG(seed, stream, fault, dup)
	return src, g.sites, g.defs
}

func genModuleG(seed uint64, stream string, fault, dup int) (string, *modGen) {
	g := &modGen{r: newRng(seed, stream), fault: fault, dup: dup}
	r := g.r
	nT := 2 + r.intn(3)
	nG := 2 + r.intn(4)
	nF := 2 + r.intn(3)
	nMD := 3 + r.intn(4)
	nAttr := 1 + r.intn(2)
	nCom := 1 + r.intn(2)
	tname := func(i int) string { return fmt.Sprintf("%%T%d", i) }
	gname := func(i int) string { return fmt.Sprintf("@g%d", i) }
	fname := func(i int) string { return fmt.Sprintf("@f%d", i) }
	md := func() string { return g.use("metadata", fmt.Sprintf("!%d", r.intn(nMD)), "md") }
	unnamedGlobal := r.chance(40)

	// ---- types: recursive and mutually recursive, one opaque, textual order shuffled
	order := r.perm(nT)
	for _, i := range order {
		j := (i + 1) % nT
		dup := g.def("type", tname(i))
		g.begin("type", tname(i), "plain", dup)
		body := fmt.Sprintf("{ i32, %s*, [2 x %s*] }", g.use("type", tname(j), "type body"), g.use("type", tname(i), "type body"))
		if dup {
			g.line("%s = type %s", tname(i), body)
		}
		g.line("%s = type %s", tname(i), body)
	}
	if r.coin() {
		g.def("type", "%Opq")
		g.begin("type", "%Opq", "opaque", false)
		g.line("%%Opq = type opaque")
	}
	// ---- comdats
	for i := 0; i < nCom; i++ {
		dup := g.def("comdat", fmt.Sprintf("$c%d", i))
		g.begin("comdat", fmt.Sprintf("$c%d", i), "plain", dup)
		if dup {
			g.line("$c%d = comdat any", i)
		}
		g.line("$c%d = comdat any", i)
	}
	// ---- globals: addresses of each other (forward and backward), typed with the named types
	gorder := r.perm(nG)
	gkind := make([]int, nG)
	gtype := make([]string, nG) // content type of each global, so that references are well typed
	for i := range gkind {
		gkind[i] = r.intn(4)
		switch gkind[i] {
		case 0:
			gtype[i] = "i32"
		case 2:
			gtype[i] = tname(r.intn(nT))
		default:
			gtype[i] = "i8*"
		}
	}
	gkind[0], gtype[0] = 0, "i32" // @g0 is always an i32: loads go through it
	for _, i := range gorder {
		dup := g.def("global", gname(i))
		g.begin("global", gname(i), "plain", dup)
		var init string
		switch gkind[i] {
		case 0:
			init = fmt.Sprintf("i32 %d", i)
		case 1:
			j := r.intn(nG)
			init = fmt.Sprintf("i8* bitcast (%s* %s to i8*)", gtype[j], g.use("global", gname(j), "global init"))
		case 2:
			t := g.use("type", gtype[i], "global type")
			init = fmt.Sprintf("%s zeroinitializer", t)
		default:
			init = fmt.Sprintf("i8* bitcast (i32 (i32, i32)* %s to i8*)", g.use("global", fname(r.intn(nF)), "global init"))
		}
		extra := ""
		if r.chance(30) {
			extra += fmt.Sprintf(", comdat(%s)", g.use("comdat", fmt.Sprintf("$c%d", r.intn(nCom)), "global comdat"))
		}
		if r.chance(30) {
			extra += fmt.Sprintf(", !dbg %s", md())
		}
		l := fmt.Sprintf("%s = global %s%s", gname(i), init, extra)
		if dup {
			g.line("%s", l)
		}
		g.line("%s", l)
	}
	if unnamedGlobal {
		g.begin("global", "@0", "plain", false)
		g.line("@0 = global i32 7")
	}
	// mutual pair
	g.def("global", "@pp")
	g.begin("global", "@pp", "plain", false)
	g.line("@pp = global i8* bitcast (i8** %s to i8*)", g.use("global", "@qq", "global init"))
	g.def("global", "@qq")
	g.begin("global", "@qq", "plain", false)
	g.line("@qq = global i8* bitcast (i8** %s to i8*)", g.use("global", "@pp", "global init"))
	// alias and ifunc
	g.def("global", "@al")
	g.begin("global", "@al", "plain", false)
	g.line("@al = alias i8*, i8** %s", g.use("global", "@pp", "alias target"))
	g.def("global", "@ifn")
	g.begin("global", "@ifn", "plain", false)
	g.line("@ifn = ifunc i32 (i32, i32), i32 (i32, i32)* %s", g.use("global", fname(0), "ifunc resolver"))
	// ---- functions
	g.begin("global", "@ext", "plain", false)
	g.line("declare i32 @ext(i32) %s", g.use("attr", fmt.Sprintf("#%d", r.intn(nAttr)), "func attr"))
	g.begin("global", "@pers", "plain", false)
	g.line("declare i32 @pers(...)")
	nblocks := make([]int, nF)
	for i := range nblocks {
		nblocks[i] = 3 + r.intn(3)
	}
	forder := r.perm(nF)
	for _, i := range forder {
		g.genFunc(i, nF, nG, nT, nblocks, fname, gname, tname, md, unnamedGlobal, nAttr)
	}
	// ---- a function with the remaining label use sites of the grammar: catchswitch handlers and unwind target,
	//      catchret target, cleanupret unwind target, callbr normal and other targets
	g.genEHFunc()
	// ---- blockaddress constants outside function bodies: in a module-level use-list order directive and
	//      inside a numbered metadata definition (both are translated after the function bodies)
	if r.chance(70) {
		k := r.intn(nF)
		g.begin("metadata", fmt.Sprintf("!%d", 900+k), "plain", false) // carrier of the site in the skeleton only
		g.line("uselistorder i8* blockaddress(%s, %s), { 1, 0 }", g.use("blockaddr_func", fname(k), "uselistorder blockaddress function"), g.use("blockaddr_block", "%b1", "uselistorder blockaddress block"))
	}
	mdBA := -1
	if r.chance(70) {
		mdBA = r.intn(nF)
	}
	// ---- attribute groups
	for i := 0; i < nAttr; i++ {
		g.def("attr", fmt.Sprintf("#%d", i))
		g.begin("attr", fmt.Sprintf("#%d", i), "plain", false)
		g.line("attributes #%d = { nounwind }", i)
	}
	// ---- metadata: cycles, forward references, named metadata (repeated)
	mdorder := r.perm(nMD)
	for _, i := range mdorder {
		dup := g.def("metadata", fmt.Sprintf("!%d", i))
		g.begin("metadata", fmt.Sprintf("!%d", i), "plain", dup)
		var l string
		if !(mdBA >= 0 && i == 0) {
			l = fmt.Sprintf("!%d = !{%s, %s, i32 %d}", i, md(), md(), i)
		} else {
			l = fmt.Sprintf("!%d = !{%s, i8* blockaddress(%s, %s), i32 %d}", i, md(), g.use("blockaddr_func", fname(mdBA), "metadata blockaddress function"), g.use("blockaddr_block", "%b2", "metadata blockaddress block"), i)
		}
		if dup {
			g.line("%s", l)
		}
		g.line("%s", l)
		if r.chance(40) {
			g.cur = nil // named metadata is not part of the skeleton
			g.line("!named = !{%s}", md())
		}
	}
	return g.b.String(), g
}

func c_gref(g *modGen, r *rng, nG int, gname func(int) string) string {
	return "i32* " + g.use("global", gname(r.intn(nG)), "global init") // only well-typed when the target is an i32 global; the parser does not check
}

func (g *modGen) genFunc(i, nF, nG, nT int, nblocks []int, fname, gname, tname func(int) string, md func() string, unnamedGlobal bool, nAttr int) {
	r := g.r
	nb := nblocks[i]
	// the same local names are used in every function: %a, %x, %v<k>, labels b0..bn; one unnamed parameter and unnamed results
	dupF := g.def("global", fname(i))
	g.begin("global", fname(i), "plain", dupF)
	for k := 0; k < nb; k++ {
		g.cur.blocks = append(g.cur.blocks, fmt.Sprintf("%%b%d", k))
	}
	g.cur.blocks = append(g.cur.blocks, "%exit", "%ok", "%lp")
	var body strings.Builder
	lbl := func(k int) string { return fmt.Sprintf("%%b%d", k) }
	emit := func(format string, a ...interface{}) { fmt.Fprintf(&body, format+"\n", a...) }
	// parameters: %a named, one unnamed (%0)
	second := "i32"
	unnamedParam := "%0"
	dupParam := g.def("local", fname(i)+":param %a")
	if dupParam {
		second = "i32 %a" // a second parameter with the name of the first; nothing else changes in meaning
		unnamedParam = "%a"
	}
	hdr := fmt.Sprintf("define i32 %s(i32 %%a, %s) %s personality i32 (...)* %s", fname(i), second, g.use("attr", fmt.Sprintf("#%d", r.intn(nAttr)), "func attr"), g.use("global", "@pers", "personality"))
	if r.chance(30) {
		hdr += fmt.Sprintf(" !dbg %s", md())
	}
	emit("%s {", hdr)
	next := 1 // next unnamed local ID (the unnamed parameter is %0)
	if dupParam {
		next = 0
	}
	emit("b0:")
	next++ // none: b0 is named; placeholder to keep numbering simple
	next--
	xl := fmt.Sprintf("\t%%x = add i32 %s, %s", g.use("local", "%a", "operand"), g.use("local", unnamedParam, "operand"))
	if g.def("local", fname(i)+":%x") {
		emit("%s", xl)
	}
	emit("%s", xl)
	emit("\t%%%d = call i32 %s(i32 %s, i32 1)", next, g.use("global", fname((i+1)%nF), "callee"), g.use("local", "%x", "call arg"))
	call := next
	next++
	emit("\t%%ld = load i32, i32* %s", g.use("global", gname(0), "load address"))
	emit("\t%%ty = alloca %s", g.use("type", tname(r.intn(nT)), "alloca type"))
	if unnamedGlobal {
		emit("\tstore i32 1, i32* %s", g.use("global", "@0", "store address"))
	}
	emit("\t%%c = icmp eq i32 %s, %s, !prof %s", g.use("local", fmt.Sprintf("%%%d", call), "operand"), g.use("local", "%ld", "operand"), md())
	emit("\tbr i1 %s, label %s, label %s", g.use("local", "%c", "branch condition"), g.use("label", lbl(1), "branch target"), g.use("label", lbl(2), "branch target"))
	for k := 1; k < nb; k++ {
		emit("b%d:", k)
		// phi with a backward and a forward predecessor; uses before definitions in layout order
		preds := []int{}
		switch k {
		case 1:
			preds = []int{0, nb - 1}
		case 2:
			preds = []int{0, 1}
		default:
			preds = []int{k - 1}
		}
		var inc []string
		for _, p := range preds {
			var v string
			if p == nb-1 && k == 1 {
				v = g.use("local", fmt.Sprintf("%%v%d", nb-1), "phi incoming (forward)")
			} else {
				v = g.use("local", "%x", "phi incoming")
			}
			inc = append(inc, fmt.Sprintf("[ %s, %s ]", v, g.use("label", lbl(p), "phi predecessor")))
		}
		emit("\t%%v%d = phi i32 %s", k, strings.Join(inc, ", "))
		switch {
		case k == nb-1:
			// back edge to b1 through a switch, and the exit
			emit("\tswitch i32 %s, label %s [ i32 0, label %s ]", g.use("local", fmt.Sprintf("%%v%d", k), "switch value"), g.use("label", "%exit", "switch default"), g.use("label", lbl(1), "switch case"))
		case k == 1:
			emit("\tbr label %s", g.use("label", lbl(2), "branch target"))
		case k == 2 && nb > 3:
			// blockaddress of a block of this function and of another function, indirectbr
			other := (i + 1) % nF
			emit("\tstore i8* blockaddress(%s, %s), i8** %s", g.use("blockaddr_func", fname(other), "blockaddress function"), g.use("blockaddr_block", "%b1", "blockaddress block"), g.use("global", "@pp", "store address"))
			emit("\tindirectbr i8* blockaddress(%s, %s), [ label %s ]", g.use("blockaddr_func", fname(i), "blockaddress function"), g.use("blockaddr_block", lbl(3), "blockaddress block"), g.use("label", lbl(3), "indirectbr target"))
		default:
			emit("\tbr label %s", g.use("label", lbl(k+1), "branch target"))
		}
	}
	if g.def("local", fname(i)+":label %b1") {
		emit("b1:")
		emit("\tbr label %%exit")
	}
	emit("exit:")
	emit("\t%%iv = invoke i32 %s(i32 %s) to label %s unwind label %s", g.use("global", "@ext", "invokee"), g.use("local", "%x", "invoke arg"), g.use("label", "%ok", "invoke normal"), g.use("label", "%lp", "invoke unwind"))
	emit("ok:")
	emit("\tret i32 %s", g.use("local", "%iv", "return value"))
	emit("lp:")
	emit("\t%%l = landingpad { i8*, i32 } cleanup")
	emit("\tret i32 %s", g.use("local", fmt.Sprintf("%%v%d", nb-1), "return value"))
	emit("}")
	if dupF {
		g.b.WriteString(body.String())
	}
	g.b.WriteString(body.String())
}

func (g *modGen) genEHFunc() {
	name := "@ehf"
	dupF := g.def("global", name)
	g.begin("global", name, "plain", dupF)
	g.cur.blocks = append(g.cur.blocks, "%entry", "%cs", "%h1", "%h2", "%cl", "%cl2", "%done", "%fall", "%other")
	var body strings.Builder
	emit := func(format string, a ...interface{}) { fmt.Fprintf(&body, format+"\n", a...) }
	emit("define void %s(i32 %%a) personality i32 (...)* %s {", name, g.use("global", "@pers", "personality"))
	emit("entry:")
	emit("\tinvoke i32 %s(i32 %s) to label %s unwind label %s", g.use("global", "@ext", "invokee"), g.use("local", "%a", "invoke arg"), g.use("label", "%done", "invoke normal"), g.use("label", "%cs", "invoke unwind"))
	emit("cs:")
	emit("\t%%sw = catchswitch within none [label %s, label %s] unwind label %s", g.use("label", "%h1", "catchswitch handler"), g.use("label", "%h2", "catchswitch handler"), g.use("label", "%cl", "catchswitch unwind"))
	emit("h1:")
	emit("\t%%cp1 = catchpad within %s [i32 %s]", g.use("local", "%sw", "catchpad catchswitch"), g.use("local", "%a", "catchpad arg"))
	emit("\tcatchret from %s to label %s", g.use("local", "%cp1", "catchret pad"), g.use("label", "%done", "catchret target"))
	emit("h2:")
	emit("\t%%cp2 = catchpad within %s []", g.use("local", "%sw", "catchpad catchswitch"))
	emit("\tcatchret from %s to label %s", g.use("local", "%cp2", "catchret pad"), g.use("label", "%done", "catchret target"))
	emit("cl:")
	emit("\t%%pad = cleanuppad within none [i32 %s]", g.use("local", "%a", "cleanuppad arg"))
	emit("\tcleanupret from %s unwind label %s", g.use("local", "%pad", "cleanupret pad"), g.use("label", "%cl2", "cleanupret unwind"))
	emit("cl2:")
	emit("\t%%pad2 = cleanuppad within %s []", g.use("local", "%pad", "cleanuppad parent"))
	emit("\tcleanupret from %s unwind to caller", g.use("local", "%pad2", "cleanupret pad"))
	emit("done:")
	emit("\t%%cb = callbr i32 %s(i32 %s) to label %s [label %s]", g.use("global", "@ext", "callbr callee"), g.use("local", "%a", "callbr arg"), g.use("label", "%fall", "callbr normal"), g.use("label", "%other", "callbr other"))
	emit("fall:")
	emit("\tret void")
	emit("other:")
	emit("\tret void")
	emit("}")
	if dupF {
		g.b.WriteString(body.String())
	}
	g.b.WriteString(body.String())
}

// skeleton renders the top-level entities for the model: ns|id|kind|uses|blocks|baddrs ; ...
func (g *modGen) skeleton() string {
	var tops []string
	for _, t := range g.tops {
		tops = append(tops, strings.Join([]string{t.ns, t.id, t.kind, strings.Join(t.uses, ","), strings.Join(t.blocks, ","), strings.Join(t.baddrs, ",")}, "|"))
	}
	return strings.Join(tops, ";")
}
