package main

// C04, input class "an attribute group defined more than once": LLVM (and the parser) merge repeated
// `attributes #N = { ... }` definitions into one group.  The generated modules define each group one to three
// times, with different attributes each time and the definitions anywhere between the entities that use them, and
// use every group in every position of the grammar that takes `#N`: function declaration and definition headers,
// global variables, call, invoke and callbr sites (next to plain attributes and to other groups on the same site).
// Expected, from the generator: the module lists exactly one definition per ID; every use IS that listed object;
// the object carries the union of the attributes of all its definitions (the generator wrote them).

import (
	"fmt"
	"sort"
	"strings"

	"github.com/llir/llvm/ir"
)

// attributes that may stand in a group (each token is printed by the library as it is written here)
var c04AttrPool = []string{
	"nounwind", "readnone", "readonly", "noinline", "cold", "norecurse", "nofree", "willreturn", "nosync",
	"optsize", "minsize", "uwtable", "ssp", "noreturn", "alwaysinline", "nobuiltin", "inlinehint", "naked",
	"\"no-frame-pointer-elim\"=\"true\"", "\"target-cpu\"=\"x86-64\"", "\"k\"=\"v\"", "\"thunk\"", "\"probe-stack\"=\"inline-asm\"",
	"alignstack(8)", "allocsize(0)", "allocsize(0, 1)",
}

type c04AttrSite struct {
	key string // global:<name> func:<name> site:<func>:<k>
	ids []int64
}

// c04AttrModule renders one module; returns the text, the sites with the group IDs written on them (in the order
// written) and, per ID, the attributes of all its definitions (in textual order, duplicates included).
func c04AttrModule(r *rng) (string, []c04AttrSite, map[int64][]string) {
	nG := 1 + r.intn(4)
	ids := make([]int64, nG)
	used := map[int64]bool{}
	for i := range ids {
		for {
			ids[i] = int64(r.intn(12))
			if r.chance(15) {
				ids[i] = int64(100 + r.intn(900))
			}
			if !used[ids[i]] {
				used[ids[i]] = true
				break
			}
		}
	}
	defs := map[int64][]string{}
	var defLines []string
	for _, id := range ids {
		nd := 1 + r.intn(3)
		if r.chance(25) {
			nd = 2
		}
		for d := 0; d < nd; d++ {
			na := r.intn(4)
			var toks []string
			seen := map[string]bool{}
			for a := 0; a < na; a++ {
				t := c04AttrPool[r.intn(len(c04AttrPool))]
				// sometimes an attribute an earlier definition of the group already has
				if prev := defs[id]; len(prev) > 0 && r.chance(25) {
					t = prev[r.intn(len(prev))]
				}
				if seen[t] {
					continue
				}
				seen[t] = true
				toks = append(toks, t)
			}
			defs[id] = append(defs[id], toks...)
			defLines = append(defLines, fmt.Sprintf("attributes #%d = { %s }\n", id, strings.Join(toks, " ")))
		}
	}
	var sites []c04AttrSite
	// the attribute list of one site: one or two groups, sometimes a plain attribute before, between or after
	attrs := func(key string) string {
		var toks []string
		var got []int64
		n := 1
		if r.chance(25) {
			n = 2
		}
		if r.chance(20) {
			toks = append(toks, "nounwind")
		}
		for k := 0; k < n; k++ {
			id := ids[r.intn(nG)]
			dup := false
			for _, g := range got {
				dup = dup || g == id
			}
			if dup {
				continue
			}
			got = append(got, id)
			toks = append(toks, fmt.Sprintf("#%d", id))
			if r.chance(15) {
				toks = append(toks, "\"site\"=\"own\"")
			}
		}
		sites = append(sites, c04AttrSite{key: key, ids: got})
		return strings.Join(toks, " ")
	}
	var ents []string
	nDecl := 1 + r.intn(3)
	for k := 0; k < nDecl; k++ {
		name := fmt.Sprintf("d%d", k)
		ents = append(ents, fmt.Sprintf("declare i32 @%s(i32) %s\n", name, attrs("func:"+name)))
	}
	for k := 0; k < 1+r.intn(3); k++ {
		name := fmt.Sprintf("gu%d", k)
		switch r.intn(3) {
		case 0:
			ents = append(ents, fmt.Sprintf("@%s = global i32 %d %s\n", name, k, attrs("global:"+name)))
		case 1:
			ents = append(ents, fmt.Sprintf("@%s = external global i8 %s\n", name, attrs("global:"+name)))
		default:
			ents = append(ents, fmt.Sprintf("@%s = constant [2 x i8] c\"ab\", align 1 %s\n", name, attrs("global:"+name)))
		}
	}
	for k := 0; k < 1+r.intn(3); k++ {
		name := fmt.Sprintf("fb%d", k)
		var b strings.Builder
		fmt.Fprintf(&b, "define i32 @%s(i32 %%a) %s personality i8* null {\nentry:\n", name, attrs("func:"+name))
		ns := 0
		site := func() string { ns++; return attrs(fmt.Sprintf("site:%s:%d", name, ns-1)) }
		last := "%a"
		for j := 0; j < r.intn(4); j++ {
			fmt.Fprintf(&b, "\t%%c%d = call i32 @d%d(i32 %s) %s\n", j, r.intn(nDecl), last, site())
			last = fmt.Sprintf("%%c%d", j)
			if r.chance(30) {
				fmt.Fprintf(&b, "\tcall void asm sideeffect \"\", \"\"() %s\n", site())
			}
		}
		nb := r.intn(3)
		for j := 0; j < nb; j++ {
			if r.coin() {
				fmt.Fprintf(&b, "\t%%i%d = invoke i32 @d%d(i32 %s) %s to label %%n%d unwind label %%lp\n", j, r.intn(nDecl), last, site(), j)
			} else {
				fmt.Fprintf(&b, "\t%%i%d = callbr i32 @d%d(i32 %s) %s to label %%n%d [label %%other]\n", j, r.intn(nDecl), last, site(), j)
			}
			last = fmt.Sprintf("%%i%d", j)
			fmt.Fprintf(&b, "n%d:\n", j)
			if r.chance(40) {
				fmt.Fprintf(&b, "\t%%t%d = tail call i32 @d%d(i32 %s) %s\n", j, r.intn(nDecl), last, site())
			}
		}
		fmt.Fprintf(&b, "\tret i32 %s\n", last)
		b.WriteString("other:\n\tret i32 0\nlp:\n\t%l = landingpad { i8*, i32 } cleanup\n\tret i32 1\n}\n")
		ents = append(ents, b.String())
	}
	// the definitions of the groups anywhere between the entities (before every use, after every use, in between);
	// the order of the definitions of one group among themselves is kept: it is the order of the merged attributes
	pos := make([]int, len(defLines))
	for i := range pos {
		pos[i] = r.intn(len(ents) + 1)
	}
	sort.Ints(pos)
	switch r.intn(4) {
	case 0:
		for i := range pos {
			pos[i] = 0
		}
	case 1:
		for i := range pos {
			pos[i] = len(ents)
		}
	}
	var out strings.Builder
	di := 0
	for e := 0; e <= len(ents); e++ {
		for di < len(defLines) && pos[di] == e {
			out.WriteString(defLines[di])
			di++
		}
		if e < len(ents) {
			out.WriteString(ents[e])
		}
	}
	return out.String(), sites, defs
}

// c04AttrUnion is the merged group LLVM builds: every attribute once
func c04AttrUnion(toks []string) []string {
	seen := map[string]bool{}
	var u []string
	for _, t := range toks {
		if !seen[t] {
			seen[t] = true
			u = append(u, t)
		}
	}
	sort.Strings(u)
	return u
}

func c04AttrGroupsOf(attrs []ir.FuncAttribute) []*ir.AttrGroupDef {
	var gs []*ir.AttrGroupDef
	for _, a := range attrs {
		if g, ok := a.(*ir.AttrGroupDef); ok {
			gs = append(gs, g)
		}
	}
	return gs
}

// c04AttrSitesOf collects, by the keys of the generator, the attribute groups the parsed module holds on its sites
func c04AttrSitesOf(m *ir.Module) map[string][]*ir.AttrGroupDef {
	got := map[string][]*ir.AttrGroupDef{}
	for _, g := range m.Globals {
		got["global:"+g.Name()] = c04AttrGroupsOf(g.FuncAttrs)
	}
	for _, f := range m.Funcs {
		got["func:"+f.Name()] = c04AttrGroupsOf(f.FuncAttrs)
		ns := 0
		add := func(attrs []ir.FuncAttribute) {
			got[fmt.Sprintf("site:%s:%d", f.Name(), ns)] = c04AttrGroupsOf(attrs)
			ns++
		}
		for _, b := range f.Blocks {
			for _, in := range b.Insts {
				if call, ok := in.(*ir.InstCall); ok {
					add(call.FuncAttrs)
				}
			}
			switch t := b.Term.(type) {
			case *ir.TermInvoke:
				add(t.FuncAttrs)
			case *ir.TermCallBr:
				add(t.FuncAttrs)
			}
		}
	}
	return got
}

func c04AttrCheck(m *ir.Module, sites []c04AttrSite, defs map[int64][]string) string {
	// exactly one listed definition per ID, with the merged attributes
	listed := map[int64]*ir.AttrGroupDef{}
	for _, d := range m.AttrGroupDefs {
		if _, ok := listed[d.ID]; ok {
			return fmt.Sprintf("the module lists two definitions of the attribute group #%d", d.ID)
		}
		listed[d.ID] = d
	}
	attrsOf := func(d *ir.AttrGroupDef) []string {
		var s []string
		for _, a := range d.FuncAttrs {
			s = append(s, a.String())
		}
		sort.Strings(s)
		return s
	}
	for id, toks := range defs {
		d, ok := listed[id]
		if !ok {
			return fmt.Sprintf("the attribute group #%d is not listed among the definitions of the module", id)
		}
		if want, got := c04AttrUnion(toks), attrsOf(d); fmt.Sprint(want) != fmt.Sprint(got) {
			return fmt.Sprintf("the listed attribute group #%d carries %v, its definitions together say %v", id, got, want)
		}
	}
	if len(listed) != len(defs) {
		return fmt.Sprintf("the module lists %d attribute groups, %d are defined", len(listed), len(defs))
	}
	got := c04AttrSitesOf(m)
	for _, s := range sites {
		gs, ok := got[s.key]
		if !ok {
			return "use site " + s.key + " not found in the parsed module"
		}
		if len(gs) != len(s.ids) {
			return fmt.Sprintf("use site %s holds %d attribute groups, %d were written", s.key, len(gs), len(s.ids))
		}
		for k, g := range gs {
			if g.ID != s.ids[k] {
				return fmt.Sprintf("use site %s: group %d has the ID %d, #%d was written", s.key, k, g.ID, s.ids[k])
			}
			if g != listed[g.ID] {
				return fmt.Sprintf("the use of #%d at %s is not the object the module lists as the definition of #%d (it carries %v, the definition %v)", g.ID, s.key, g.ID, attrsOf(g), attrsOf(listed[g.ID]))
			}
			if want, have := c04AttrUnion(defs[g.ID]), attrsOf(g); fmt.Sprint(want) != fmt.Sprint(have) {
				return fmt.Sprintf("the use of #%d at %s carries %v, its definitions together say %v", g.ID, s.key, have, want)
			}
		}
	}
	return ""
}

func c04RepeatedAttrGroups(c *config) {
	o := c.out
	r := newRng(c.seed, "c04-repeated-attr-groups")
	n := 120 * c.scale
	for i := 0; i < n; i++ {
		src, sites, defs := c04AttrModule(r)
		m, oc, msg := parseGuard(src)
		if oc != ocOk {
			o.Fail("reference_identity", "", "valid module with repeated attribute group definitions rejected: "+oc.String(), map[string]string{"src": src, "msg": msg})
			continue
		}
		// the general walk: every reachable attribute group is a listed one
		c04Check(c, src, "repeated_attr_groups", i == 0)
		for _, s := range sites {
			o.Stat("attr_group_use." + strings.SplitN(s.key, ":", 2)[0])
		}
		repeated := 0
		for id := range defs {
			if strings.Count(src, fmt.Sprintf("attributes #%d = ", id)) > 1 {
				repeated++
			}
		}
		o.StatN("attr_groups.defined_more_than_once", repeated)
		o.StatN("attr_groups.defined", len(defs))
		var bad string
		oc2, pmsg := guard(func() error { bad = c04AttrCheck(m, sites, defs); return nil })
		if oc2 != ocOk {
			bad = "the walk over the attribute group uses panics: " + pmsg
		}
		if bad != "" {
			o.Fail("reference_identity", "", bad, map[string]interface{}{"src": src})
		} else {
			o.Pass("attr_group_use_is_merged_definition")
		}
	}
}
