package main

// C07: getelementptr result types: correct (LLVM's rule) and consistent between parser, instruction
// constructor and constant-expression constructor, for every index form.

import (
	"fmt"
	"strings"

	"github.com/llir/llvm/asm"
	"github.com/llir/llvm/ir"
	"github.com/llir/llvm/ir/constant"
	"github.com/llir/llvm/ir/types"
	"github.com/llir/llvm/ir/value"
	"github.com/llir/llvm/verifhook"
)

func init() { props["C07"] = runC07 }

// an index operand
type idxForm struct {
	kind     string // int bool zero vec undef poison ptrtoint expr value
	width    uint64
	val      int64
	vecLen   uint64 // 0 = scalar
	scalable bool
	elems    []int64
}

func (f idxForm) shape() string {
	if f.vecLen == 0 {
		return "S"
	}
	if f.scalable {
		return fmt.Sprintf("V1%d", f.vecLen)
	}
	return fmt.Sprintf("V0%d", f.vecLen)
}

func (f idxForm) enc() string {
	switch f.kind {
	case "int":
		return fmt.Sprintf("int:%d", f.val)
	case "bool":
		return fmt.Sprintf("bool:%d", f.val)
	case "vec":
		var s []string
		for _, e := range f.elems {
			s = append(s, fmt.Sprint(e))
		}
		return "vec:" + strings.Join(s, "|")
	}
	return f.kind + ":" + f.shape()
}

func (f idxForm) typ() types.Type {
	w := f.width
	if w == 0 {
		w = 64
	}
	var t types.Type = types.NewInt(w)
	if f.kind == "bool" {
		t = types.I1
	}
	if f.vecLen > 0 {
		v := types.NewVector(f.vecLen, t)
		v.Scalable = f.scalable
		return v
	}
	return t
}

func (f idxForm) isConst() bool { return f.kind != "value" }

var c07Global = func() *ir.Global { g := ir.NewGlobal("gg", types.I8); return g }()

func (f idxForm) constant() constant.Constant {
	t := f.typ()
	switch f.kind {
	case "int":
		return constant.NewInt(t.(*types.IntType), f.val)
	case "bool":
		if f.val != 0 {
			return constant.True
		}
		return constant.False
	case "zero":
		return constant.NewZeroInitializer(t)
	case "vec":
		var es []constant.Constant
		w := f.width
		if w == 0 {
			w = 64
		}
		for _, e := range f.elems {
			es = append(es, constant.NewInt(types.NewInt(w), e))
		}
		return constant.NewVector(types.NewVector(uint64(len(es)), types.NewInt(w)), es...)
	case "undef":
		return constant.NewUndef(t)
	case "poison":
		return constant.NewPoison(t)
	case "ptrtoint":
		return constant.NewPtrToInt(c07Global, t)
	case "expr":
		if f.vecLen > 0 {
			z := constant.NewZeroInitializer(t)
			return constant.NewAdd(z, z)
		}
		it := t.(*types.IntType)
		return constant.NewAdd(constant.NewInt(it, 1), constant.NewInt(it, 2))
	}
	panic("not a constant form")
}

func c07GenForm(r *rng, structStep bool, fieldMax int) idxForm {
	widths := []uint64{32, 64, 8, 16}
	w := widths[r.intn(len(widths))]
	if structStep {
		// a struct step needs a constant in range; mostly give one
		if r.chance(85) {
			v := int64(r.intn(fieldMax + 1))
			if r.chance(8) {
				v = int64(fieldMax + 1 + r.intn(2)) // out of range
			}
			if r.chance(15) {
				n := uint64(2 + r.intn(3))
				es := make([]int64, n)
				for i := range es {
					es[i] = v
				}
				return idxForm{kind: "vec", width: 32, vecLen: n, elems: es}
			}
			return idxForm{kind: "int", width: 32, val: v}
		}
	}
	vl := uint64(0)
	sc := false
	if r.chance(30) {
		vl = uint64(2 + r.intn(3))
		sc = r.chance(20)
	}
	switch r.intn(12) {
	case 0, 1, 2:
		return idxForm{kind: "int", width: w, val: int64(r.intn(7)) - 1}
	case 3:
		return idxForm{kind: "bool", val: int64(r.intn(2))}
	case 4:
		return idxForm{kind: "zero", width: w, vecLen: vl, scalable: sc}
	case 5, 6:
		n := uint64(2 + r.intn(3))
		es := make([]int64, n)
		splat := r.coin()
		for i := range es {
			if splat {
				es[i] = 1
			} else {
				es[i] = int64(r.intn(4))
			}
		}
		return idxForm{kind: "vec", width: w, vecLen: n, elems: es}
	case 7:
		return idxForm{kind: "undef", width: w, vecLen: vl, scalable: sc}
	case 8:
		return idxForm{kind: "poison", width: w, vecLen: vl, scalable: sc}
	case 9:
		return idxForm{kind: "ptrtoint", width: 64}
	case 10:
		return idxForm{kind: "expr", width: w, vecLen: vl, scalable: sc && false}
	default:
		return idxForm{kind: "value", width: w, vecLen: vl, scalable: sc}
	}
}

// LLVM's rule, written independently of the library (element reached; vector shape of the first
// vector operand). ok=false when LLVM rejects the gep.
func c07Llvm(u *universe, elem types.Type, as types.AddrSpace, baseVec uint64, baseScalable bool, forms []idxForm) (types.Type, bool) {
	e := elem
	for i, f := range forms {
		if i == 0 {
			continue
		}
		switch t := e.(type) {
		case *types.ArrayType:
			e = t.ElemType
		case *types.VectorType:
			e = t.ElemType
		case *types.StructType:
			var v int64
			switch f.kind {
			case "int":
				v = f.val
			case "bool":
				v = f.val
			case "vec": // splat
				v = f.elems[0]
				for _, x := range f.elems {
					if x != v {
						return nil, false
					}
				}
			default:
				return nil, false
			}
			if v < 0 || int(v) >= len(t.Fields) {
				return nil, false
			}
			e = t.Fields[v]
		default:
			return nil, false
		}
	}
	p := types.NewPointer(e)
	p.AddrSpace = as
	vl, sc := baseVec, baseScalable
	if vl == 0 {
		for _, f := range forms {
			if f.vecLen > 0 {
				vl, sc = f.vecLen, f.scalable
				break
			}
		}
	}
	// all vector operands must have the same shape
	for _, f := range forms {
		if f.vecLen > 0 && (f.vecLen != vl || f.scalable != sc) {
			return nil, false
		}
	}
	if vl == 0 {
		return p, true
	}
	v := types.NewVector(vl, p)
	v.Scalable = sc
	return v, true
}

func c07Class(baseScalable bool, forms []idxForm, parser bool) string {
	for _, f := range forms {
		if f.scalable && f.vecLen > 0 {
			return "scalable_vector_operand"
		}
	}
	if baseScalable {
		return "scalable_vector_operand"
	}
	for _, f := range forms {
		if f.kind == "zero" && f.vecLen > 0 {
			return "zeroinit_vector_index"
		}
	}
	for _, f := range forms {
		if (f.kind == "undef" || f.kind == "poison" || f.kind == "expr") && f.vecLen > 0 {
			return "undef_vector_index"
		}
	}
	for _, f := range forms {
		if f.kind == "expr" {
			return "constexpr_index"
		}
	}
	return ""
}

func tyOrPanic(f func() types.Type) string {
	var t types.Type
	oc, _ := guard(func() error { t = f(); return nil })
	if oc != ocOk {
		return "Panic"
	}
	return "Ok " + t.String()
}

func runC07(c *config) {
	o := c.out
	r := newRng(c.seed, "c07")
	g := newTyGen(r)
	u := newUniverse()
	if c.replay != "" {
		fmt.Println("replay: re-run ./check C07 with the same VERIF_SEED (the generator is deterministic)")
		return
	}
	c07Bool(c, newRng(c.seed, "c07bool"))
	// bodies of the identified structs of the universe, for the model
	for _, n := range g.names {
		u.namedStruct(n)
	}
	bodies := func() string {
		var parts []string
		for _, n := range []string{"n0", "n1", "n2", "a.b", "n 3"} {
			s := u.named[n]
			var fs []string
			for _, f := range s.Fields {
				fs = append(fs, c07EncType(f))
			}
			parts = append(parts, fmt.Sprintf("%x=%s", n, strings.Join(fs, "")))
		}
		return strings.Join(parts, ",")
	}()

	// 1. internal/gep.ResultType through the hook, on raw index structs (panics included)
	for i := 0; i < 3000*c.scale; i++ {
		elem := g.sized(1 + r.intn(4))
		et := elem.build(u)
		as := g.pickU(g.spaces)
		src := &tyTree{kind: 'p', n: as, children: []*tyTree{elem}}
		if r.chance(20) {
			src = &tyTree{kind: 'V', n: uint64(2 + r.intn(3)), flag: r.chance(20), children: []*tyTree{src}}
		}
		if r.chance(3) {
			src = elem // not a pointer: panics
		}
		var idxs []verifhook.GepIndex
		var enc []string
		cur := et
		nidx := 1 + r.intn(5)
		if r.chance(8) {
			nidx = 0 // a getelementptr without indices: the base pointer (or vector of pointers) itself
		}
		for k := 0; k < nidx; k++ {
			ix := verifhook.GepIndex{HasVal: r.chance(70), Val: int64(r.intn(4))}
			if r.chance(5) {
				ix.Val = -1
			}
			if r.chance(20) {
				ix.VectorLen = uint64(2 + r.intn(3))
			}
			if !ix.HasVal {
				ix.Val = 0
			}
			idxs = append(idxs, ix)
			enc = append(enc, fmt.Sprintf("%s:%d:%d", b2s(ix.HasVal), ix.Val, ix.VectorLen))
			_ = cur
		}
		res := tyOrPanic(func() types.Type { return verifhook.GepResultType(et, src.build(u), idxs) })
		if strings.HasPrefix(res, "Ok ") {
			res = "Ok " + hx(res[3:])
		}
		o.Case("gep_result", []string{elem.enc(), src.enc(), strings.Join(enc, ","), bodies}, []string{res})
		o.Stat("walker." + res[:2])
	}

	// 2. the four computations on index forms
	for i := 0; i < 2500*c.scale; i++ {
		elem := g.sized(1 + r.intn(4))
		et := elem.build(u)
		as := types.AddrSpace(g.pickU(g.spaces))
		baseVec, baseSc := uint64(0), false
		if r.chance(15) {
			baseVec, baseSc = uint64(2+r.intn(3)), r.chance(25)
		}
		pt := types.NewPointer(et)
		pt.AddrSpace = as
		var srcT types.Type = pt
		if baseVec > 0 {
			v := types.NewVector(baseVec, pt)
			v.Scalable = baseSc
			srcT = v
		}
		// index list following the element type so that most geps are well formed
		var forms []idxForm
		cur := et
		n := 1 + r.intn(4)
		if r.chance(8) {
			n = 0 // no indices at all
		}
		for k := 0; k < n; k++ {
			if k == 0 {
				forms = append(forms, c07GenForm(r, false, 0))
				continue
			}
			switch t := cur.(type) {
			case *types.StructType:
				if len(t.Fields) == 0 {
					k = n
					continue
				}
				f := c07GenForm(r, true, len(t.Fields)-1)
				forms = append(forms, f)
				v := int64(0)
				if f.kind == "int" {
					v = f.val
				} else if f.kind == "vec" {
					v = f.elems[0]
				}
				if v >= 0 && int(v) < len(t.Fields) {
					cur = t.Fields[v]
				} else {
					k = n
				}
			case *types.ArrayType:
				forms = append(forms, c07GenForm(r, false, 0))
				cur = t.ElemType
			case *types.VectorType:
				forms = append(forms, c07GenForm(r, false, 0))
				cur = t.ElemType
			default:
				k = n
			}
		}
		// make the vector operands agree in length most of the time
		vl := baseVec
		for j := range forms {
			if forms[j].vecLen > 0 {
				if vl == 0 {
					vl = forms[j].vecLen
				} else if r.chance(90) && forms[j].kind != "vec" {
					forms[j].vecLen = vl
				} else if r.chance(90) && forms[j].kind == "vec" {
					es := make([]int64, vl)
					for q := range es {
						es[q] = forms[j].elems[0]
					}
					forms[j].elems, forms[j].vecLen = es, vl
				}
			}
		}
		c07One(c, u, et, elem, as, baseVec, baseSc, srcT, forms, bodies, i < 2)
	}
}

func c07EncType(t types.Type) string {
	switch t := t.(type) {
	case *types.IntType:
		return fmt.Sprintf("i%d;", t.BitSize)
	case *types.PointerType:
		return fmt.Sprintf("p%d;", t.AddrSpace) + c07EncType(t.ElemType)
	case *types.StructType:
		if t.TypeName != "" {
			return fmt.Sprintf("N%x;", t.TypeName)
		}
	}
	panic("c07EncType")
}

func c07One(c *config, u *universe, et types.Type, elem *tyTree, as types.AddrSpace, baseVec uint64, baseSc bool, srcT types.Type, forms []idxForm, bodies string, sample bool) {
	o := c.out
	var fenc []string
	allConst := true
	for _, f := range forms {
		fenc = append(fenc, f.enc())
		if !f.isConst() {
			allConst = false
		}
		o.Stat("form." + f.kind + "." + map[bool]string{true: "vector", false: "scalar"}[f.vecLen > 0])
	}
	key := elem.enc() + "|" + srcT.String() + "|" + strings.Join(fenc, ",")
	o.Nontrivial(key)
	want, wantOk := c07Llvm(u, et, as, baseVec, baseSc, forms)
	wantS := "rejected"
	if wantOk {
		wantS = "Ok " + want.String()
	}
	srcEnc := fmt.Sprintf("p%d;%s", as, elem.enc())
	if baseVec > 0 {
		srcEnc = fmt.Sprintf("V%s%d;%s", b2s(baseSc), baseVec, srcEnc)
	}
	// (b) instruction constructor
	srcParam := ir.NewParam("src", srcT)
	var ops []value.Value
	var params []*ir.Param
	params = append(params, srcParam)
	for j, f := range forms {
		if f.isConst() {
			ops = append(ops, f.constant())
		} else {
			p := ir.NewParam(fmt.Sprintf("i%d", j), f.typ())
			params = append(params, p)
			ops = append(ops, p)
		}
	}
	var inst *ir.InstGetElementPtr
	instRes := tyOrPanic(func() types.Type {
		inst = ir.NewGetElementPtr(et, srcParam, ops...)
		return inst.Typ
	})
	o.Case("gep_inst", []string{elem.enc(), srcEnc, strings.Join(fenc, ","), bodies}, []string{hxOk(instRes)})
	// (c) expression constructor
	exprRes := "n/a"
	if allConst {
		var cops []constant.Constant
		for _, f := range forms {
			cops = append(cops, f.constant())
		}
		var srcC constant.Constant = constant.NewUndef(srcT)
		exprRes = tyOrPanic(func() types.Type { return constant.NewGetElementPtr(et, srcC, cops...).Typ })
		o.Case("gep_expr", []string{elem.enc(), srcEnc, strings.Join(fenc, ","), bodies}, []string{hxOk(exprRes)})
	}
	// (d) parser, on the printed instruction (when the constructor did not panic)
	parseRes := "n/a"
	if inst != nil && instRes != "Panic" {
		var b strings.Builder
		for n, s := range u.named {
			fmt.Fprintf(&b, "%%%s = type %s\n", quoteIfNeeded(n), s.LLString())
		}
		b.WriteString("@gg = global i8 0\n")
		var ps []string
		for _, p := range params {
			ps = append(ps, p.LLString())
		}
		inst.SetName("r")
		fmt.Fprintf(&b, "define void @f(%s) {\n\t%s\n\tret void\n}\n", strings.Join(ps, ", "), inst.LLString())
		src := b.String()
		var pt types.Type
		oc, msg := guard(func() error {
			m, err := asm.ParseString("c07.ll", src)
			if err != nil {
				return err
			}
			pt = m.Funcs[0].Blocks[0].Insts[0].(*ir.InstGetElementPtr).Typ
			return nil
		})
		switch oc {
		case ocOk:
			parseRes = "Ok " + pt.String()
		case ocErr:
			parseRes = "Err " + msg
		default:
			parseRes = "Panic"
		}
		pr := parseRes
		if oc == ocErr {
			pr = "Err"
		}
		o.Case("gep_parse", []string{elem.enc(), srcEnc, strings.Join(fenc, ","), bodies}, []string{hxOk(pr)})
	}
	if sample {
		o.Sample(map[string]interface{}{"elem": et.String(), "src": srcT.String(), "indices": fenc, "llvm": wantS, "inst": instRes, "expr": exprRes, "parser": parseRes})
	}
	// oracle: consistent and correct
	cls := ""
	det := map[string]interface{}{"elem": et.String(), "src": srcT.String(), "indices": fenc, "llvm": wantS, "inst": instRes, "expr": exprRes, "parser": parseRes}
	if !wantOk {
		// LLVM rejects: nothing to compare with; the library may panic or compute something
		o.Pass("malformed_gep_skipped")
		return
	}
	bad := ""
	switch {
	case instRes != wantS:
		bad = "instruction constructor differs from LLVM's rule"
	case allConst && exprRes != wantS:
		bad = "expression constructor differs from LLVM's rule"
	case parseRes != "n/a" && parseRes != wantS:
		bad = "parser differs from LLVM's rule"
	}
	// (e) the same constant expression over a global base, where another top-level entity carries it: the
	// initialiser of a global and the aliasee of an alias (the parser computes the type of a bare gep aliasee on a
	// path of its own, before the globals are translated)
	if bad == "" && allConst && baseVec == 0 {
		if rp, ok := want.(*types.PointerType); ok {
			var b strings.Builder
			for n, s := range u.named {
				fmt.Fprintf(&b, "%%%s = type %s\n", quoteIfNeeded(n), s.LLString())
			}
			asText := ""
			if as != 0 {
				asText = fmt.Sprintf(" addrspace(%d)", as)
			}
			var idx []string
			for _, f := range forms {
				idx = append(idx, f.constant().String())
			}
			expr := fmt.Sprintf("getelementptr (%s, %s%s* @base", et, et, asText)
			for _, ix := range idx {
				expr += ", " + ix
			}
			expr += ")"
			b.WriteString("@gg = global i8 0\n")
			fmt.Fprintf(&b, "@base = external%s global %s\n", asText, et)
			fmt.Fprintf(&b, "@p = global %s %s\n", rp, expr)
			fmt.Fprintf(&b, "@al = alias %s, %s %s\n", rp.ElemType, rp, expr)
			fmt.Fprintf(&b, "@bare = alias %s, %s\n", rp.ElemType, expr) // the aliasee without its type: the parser computes it
			src := b.String()
			var gt, at, bt string
			oc, msg := guard(func() error {
				m, err := asm.ParseString("c07e.ll", src)
				if err != nil {
					return err
				}
				gt = m.Globals[2].Init.Type().String()
				at = m.Aliases[0].Aliasee.Type().String()
				bt = m.Aliases[1].Type().String()
				return nil
			})
			o.Stat("gep_carriers")
			if oc != ocOk || gt != rp.String() || at != rp.String() || bt != rp.String() {
				o.Fail("gep_type", c07Class(baseSc, forms, true), "a constant gep over a global, as initialiser and as aliasee, is rejected or typed differently",
					map[string]interface{}{"src": src, "llvm": wantS, "initialiser": gt, "aliasee": at, "bare_alias": bt, "msg": msg})
			} else {
				o.Pass("gep_carriers")
			}
		}
	}
	if bad != "" {
		// the listed findings concern particular computations: KF-07/KF-23 the instruction constructor and
		// the parser (the expression constructor is right there), KF-09 the parser only, KF-08 all of them
		cls = c07Class(baseSc, forms, true)
		exprWrong := allConst && exprRes != wantS
		if (cls == "zeroinit_vector_index" || cls == "undef_vector_index") && exprWrong {
			cls = ""
			for _, f := range forms {
				// a constant-expression index of vector shape is also mis-sized by the expression constructor (KF-23)
				if f.kind == "expr" && f.vecLen > 0 {
					cls = "undef_vector_index"
				}
			}
		}
		if cls == "constexpr_index" && (instRes != wantS || exprWrong) {
			cls = ""
		}
		o.Fail("gep_type", cls, bad, det)
	} else {
		o.Pass("gep_type")
	}
}

func hxOk(s string) string {
	if strings.HasPrefix(s, "Ok ") {
		return "Ok " + hx(s[3:])
	}
	return s
}

// boolean indices (i1 true / i1 false) at struct and array positions: the parser, the instruction constructor and
// the constant-expression constructor compute the same type (at a struct position `i1 true` is field 1)
func c07Bool(c *config, r *rng) {
	o := c.out
	inner := types.NewStruct(types.I64, types.Float)
	inner.Packed = true
	st := types.NewStruct(types.I8, types.NewArray(3, types.I16), inner)
	for i := 0; i < 120*c.scale; i++ {
		as := types.AddrSpace(r.intn(3))
		pt := types.NewPointer(st)
		pt.AddrSpace = as
		// a path through the struct: first index over the pointer, then a field, then inside the field
		field := r.intn(2) // field 0 or 1 can be named by a boolean
		var idx []constant.Constant
		first := []constant.Constant{constant.NewInt(types.I64, 0), constant.NewBool(false), constant.NewInt(types.I32, 0)}[r.intn(3)]
		idx = append(idx, first)
		if r.coin() {
			idx = append(idx, constant.NewBool(field == 1))
		} else {
			idx = append(idx, constant.NewInt(types.I32, int64(field)))
		}
		if field == 1 && r.coin() {
			idx = append(idx, []constant.Constant{constant.NewBool(true), constant.NewBool(false), constant.NewInt(types.I64, 2)}[r.intn(3)])
		}
		hasBool := false
		for _, x := range idx {
			if x.Type().Equal(types.I1) {
				hasBool = true
			}
		}
		if !hasBool {
			continue
		}
		var ops []value.Value
		var texts []string
		for _, x := range idx {
			ops = append(ops, x)
			texts = append(texts, x.String())
		}
		src := ir.NewParam("p", pt)
		instT := tyOrPanic(func() types.Type { return ir.NewGetElementPtr(st, src, ops...).Typ })
		exprT := tyOrPanic(func() types.Type { return constant.NewGetElementPtr(st, constant.NewUndef(pt), idx...).Typ })
		text := fmt.Sprintf("define void @f(%s %%p) {\n\t%%r = getelementptr %s, %s %%p, %s\n\tret void\n}\n", pt, st, pt, strings.Join(texts, ", "))
		parseT := "Panic"
		oc, msg := guard(func() error {
			m, err := asm.ParseString("c07b.ll", text)
			if err != nil {
				return err
			}
			parseT = "Ok " + m.Funcs[0].Blocks[0].Insts[0].(*ir.InstGetElementPtr).Typ.String()
			return nil
		})
		if oc == ocErr {
			parseT = "Err " + msg
		}
		// the expected type, computed here: booleans are the numbers 0 and 1
		var want types.Type = st.Fields[field]
		if field == 1 && len(idx) == 3 {
			want = types.I16
		}
		wp := types.NewPointer(want)
		wp.AddrSpace = as
		wantS := "Ok " + wp.String()
		o.Stat("bool_indices")
		if instT != wantS || exprT != wantS || parseT != wantS {
			o.Fail("gep_type", "", "a boolean index is not stepped through alike by the parser and the two constructors",
				map[string]interface{}{"src": text, "want": wantS, "inst": instT, "expr": exprT, "parser": parseT})
		} else {
			o.Pass("gep_type")
		}
	}
}
