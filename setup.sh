#!/bin/sh
# Builds the framework from files on disk only (offline): translator, regenerated tables, the whole
# Coq development (full .vo build), the OCaml model driver and the Go harness.
set -e
cd "$(dirname "$0")"
export GOFLAGS=-mod=mod GOPROXY=off GOSUMDB=off GOTOOLCHAIN=local
mkdir -p bin .work evidence coq/theories/Gen
(cd translator && go build -o ../bin/translator .)
./bin/translator /repo coq/theories/Gen > .work/translator.log 2>&1 || { cat .work/translator.log; exit 1; }
(cd coq && coq_makefile -f _CoqProject -o Makefile > /dev/null && timeout 5400 make -j16 > ../.work/make.log 2>&1) || { tail -40 .work/make.log; exit 1; }
sh driver/build.sh
(cd harness && cp /repo/go.sum . 2>/dev/null; go build -tags verif -o ../bin/harness .)
echo setup ok
