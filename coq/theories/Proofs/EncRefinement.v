(* internal/enc, regenerated from the Go source into Gen/Printers.v (enc_bodies) and run by Model/GoEval.v,
   computes the hand-written model Model/Enc.v -- for every input.  The functions of the Go standard library
   the bodies call (strings.IndexByte, strings.ContainsRune, strings.HasSuffix, strconv.ParseUint,
   strconv.FormatInt) and the conversions string, []byte, byte, rune have the meaning GoEval.go_library gives
   them.  The index loops of the Go code are related to the structural recursion of the model: index i of a
   string s stands for the suffix skipn i s, and the buffer being filled is the output so far followed by what
   is left of the zeroed (or copied) slice. *)
From Coq Require Import List String ZArith NArith Bool Arith Lia.
From Coq Require Import Strings.Byte.
From LLIR Require Import Lib.Bytes Lib.Radix Model.Enc Model.GoEval Gen.Printers Proofs.EncProofs.
Import ListNotations.
Open Scope string_scope.
Open Scope list_scope.

(* no interface types are involved *)
Definition no_impl : string -> string -> bool := fun _ _ => false.
Definition fuel_env (n : nat) : env := [(loop_fuel_var, VInt (Z.of_nat n))].
(* the rounds every loop may take: one per byte of the arguments, and the round that finds the condition false *)
Fixpoint args_len (args : list val) : nat :=
  match args with VStr s :: r => List.length s + args_len r | _ :: r => args_len r | [] => 0 end.
(* the nesting of calls: Quote, EscapeString, Escape, the predicate, the library *)
Definition enc_depth : nat := 6.
Definition run_enc (fn : string) (args : list val) : res val :=
  call_table_lib enc_bodies no_impl (fuel_env (S (args_len args))) enc_depth "" fn
    (match args with [v] => v | _ => VTuple args end).

Definition bs (s : string) : bytes := bytes_of_string s.
Definition samples : list bytes :=
  [xe4; xb8; x96; x41; xff; x00; x5c; x30] ::
  map bs [""; "a"; "foo"; "a b"; "2"; "42x"; "a\b"; "\"; "\\"; "\41"; "\4"; "\4g"; "\zz\\\7a\7A"; "x#y"; "18446744073709551615";
          "18446744073709551616"; "$-._"; "0a"; "q""q"].
Example enc_examples :
  Forall (fun s =>
            run_enc "EscapeIdent" [VStr s] = GoEval.Ok (VStr (escape_ident s))
            /\ run_enc "Quote" [VStr s] = GoEval.Ok (VStr (quote s))
            /\ run_enc "GlobalName" [VStr s] = GoEval.Ok (VStr (global_name s))
            /\ run_enc "MetadataName" [VStr s] = match metadata_name s with Some r => GoEval.Ok (VStr r) | None => Fail "panic" end
            /\ run_enc "Unescape" [VStr s] = GoEval.Ok (VStr (unescape s))) samples.
Proof. repeat (constructor; [vm_compute; repeat split; reflexivity|]). constructor. Qed.

(* ---- the generated bodies ---- *)
Definition body_of (fn : string) : list gstmt :=
  match find_in enc_bodies "" fn with Some p => p_body p | None => [] end.

(* ---- lists ---- *)
Lemma skipn_S_tl {A} (l : list A) i : skipn (S i) l = tl (skipn i l).
Proof.
  revert l. induction i as [|i IH]; intros [|x l]; try reflexivity.
  change (skipn (S (S i)) (x :: l)) with (skipn (S i) l). change (skipn (S i) (x :: l)) with (skipn i l). apply IH.
Qed.
Lemma nth_error_skipn {A} (l : list A) : forall i, nth_error l i = hd_error (skipn i l).
Proof. induction l as [|x l IH]; intros [|i]; try reflexivity. cbn [nth_error skipn]. apply IH. Qed.
Lemma skipn_nth {A} (l : list A) i c : nth_error l i = Some c -> skipn i l = c :: skipn (S i) l.
Proof.
  intros H. rewrite nth_error_skipn in H. rewrite skipn_S_tl. destruct (skipn i l); [discriminate|].
  cbn in H. injection H as ->. reflexivity.
Qed.
Lemma nth_error_lt {A} (l : list A) i : i < List.length l -> exists c, nth_error l i = Some c.
Proof.
  intros H. destruct (nth_error l i) as [c|] eqn:E; [exists c; reflexivity|].
  apply nth_error_None in E. lia.
Qed.
(* a store into the slot that follows the filled part of a buffer *)
Lemma store_next {A} (out : list A) old rest x :
  (firstn (List.length out) (out ++ old :: rest) ++ x :: skipn (S (List.length out)) (out ++ old :: rest) = (out ++ [x]) ++ rest)%list.
Proof.
  rewrite firstn_app, Nat.sub_diag, firstn_all. cbn [firstn]. rewrite app_nil_r.
  replace (S (List.length out)) with (List.length out + 1) by lia.
  rewrite skipn_app, skipn_all2 by lia. replace (List.length out + 1 - List.length out) with 1 by lia.
  cbn [skipn List.app]. rewrite <- app_assoc. reflexivity.
Qed.

Lemma Zltb_ofnat a b : (Z.of_nat a <? Z.of_nat b)%Z = (a <? b)%nat.
Proof. destruct (Nat.ltb_spec a b); [apply Z.ltb_lt|apply Z.ltb_ge]; lia. Qed.
Lemma Zeqb_ofnat a b : (Z.of_nat a =? Z.of_nat b)%Z = (a =? b)%nat.
Proof. destruct (Nat.eqb_spec a b) as [->|H]; [apply Z.eqb_refl|apply Z.eqb_neq; lia]. Qed.
Lemma Zleb_ofN a b : (Z.of_N a <=? Z.of_N b)%Z = (a <=? b)%N.
Proof. destruct (N.leb_spec a b); [apply Z.leb_le|apply Z.leb_gt]; lia. Qed.
Lemma Zeqb_ofN a b : (Z.of_N a =? Z.of_N b)%Z = (a =? b)%N.
Proof. destruct (N.eqb_spec a b) as [->|H]; [apply Z.eqb_refl|apply Z.eqb_neq; lia]. Qed.

(* a byte and an index as the evaluator holds them *)
Definition vbyte (c : byte) : val := VInt (Z.of_N (bN c)).
Definition vnat (n : nat) : val := VInt (Z.of_nat n).

(* ---- the character classes: the constant strings of enc.go searched by strings.IndexByte are the model's predicates ---- *)
Definition tail_str : bytes := Eval vm_compute in bs "ABCDEFGHIJKLMNOPQRSTUVWXYZabcdefghijklmnopqrstuvwxyz$-._0123456789".
Definition quoted_str : bytes := Eval vm_compute in bs " !#$%&'()*+,-./0123456789:;<=>?@ABCDEFGHIJKLMNOPQRSTUVWXYZ[]^_`abcdefghijklmnopqrstuvwxyz{|}~".
Definition hextable : bytes := Eval vm_compute in bs "0123456789ABCDEF".
Lemma index_tail c : (index_byte tail_str (Z.of_N (bN c)) =? -1)%Z = negb (in_tail c).
Proof. destruct c; vm_compute; reflexivity. Qed.
Lemma index_quoted c : (index_byte quoted_str (Z.of_N (bN c)) =? -1)%Z = negb (in_quoted c).
Proof. destruct c; vm_compute; reflexivity. Qed.
(* hextable[b>>4] and hextable[b&0x0F] *)
Lemma hex_hi c : nth_error hextable (Z.to_nat (Z.shiftr (Z.of_N (bN c)) 4)) = Some (hexdigit (bN c / 16)).
Proof. destruct c; vm_compute; reflexivity. Qed.
Lemma hex_lo c : nth_error hextable (Z.to_nat (Z.land (Z.of_N (bN c)) 15)) = Some (hexdigit (bN c mod 16)).
Proof. destruct c; vm_compute; reflexivity. Qed.
Lemma shiftr_nonneg c : (Z.shiftr (Z.of_N (bN c)) 4 <? 0)%Z = false.
Proof. destruct c; vm_compute; reflexivity. Qed.
Lemma land_nonneg c : (Z.land (Z.of_N (bN c)) 15 <? 0)%Z = false.
Proof. destruct c; vm_compute; reflexivity. Qed.
Lemma byte_of_Z_bN c : byte_of_Z (Z.of_N (bN c)) = Some c.
Proof. destruct c; vm_compute; reflexivity. Qed.

(* ---- the model: lengths ---- *)
Definition piece (valid : byte -> bool) (c : byte) : bytes := if valid c then [c] else esc c.
Lemma escape_cons valid c r : escape valid (c :: r) = (piece valid c ++ escape valid r)%list.
Proof. unfold piece. cbn [escape]. destruct (valid c); reflexivity. Qed.
(* the bytes the first loop adds up in extra *)
Fixpoint extra_of (valid : byte -> bool) (s : bytes) : nat :=
  match s with [] => 0 | c :: r => (if valid c then 0 else 2) + extra_of valid r end.
Lemma escape_length valid s : List.length (escape valid s) = List.length s + extra_of valid s.
Proof.
  induction s as [|c r IH]; [reflexivity|]. cbn [escape extra_of]. destruct (valid c).
  - cbn [List.length]. lia.
  - rewrite app_length. unfold esc. cbn [List.length]. lia.
Qed.
Lemma extra_zero valid s : extra_of valid s = 0 -> escape valid s = s.
Proof.
  induction s as [|c r IH]; [reflexivity|]. cbn [escape extra_of]. destruct (valid c); [|lia].
  intros H. rewrite IH by exact H. reflexivity.
Qed.

Lemma fold_piece valid r : forall a, fold_left (fun a c => a ++ piece valid c) r a = a ++ escape valid r.
Proof.
  induction r as [|c r IH]; intros a; cbn [fold_left]; [rewrite app_nil_r; reflexivity|].
  rewrite IH, escape_cons, app_assoc. reflexivity.
Qed.

(* the second loop: what is written so far and what the rest of s will take fill the buffer exactly *)
Definition Inv2 (s : bytes) (valid : byte -> bool) (i : nat) (out : bytes) : Prop :=
  List.length out + List.length (escape valid (skipn i s)) = List.length s + extra_of valid s.
Lemma inv2_step s valid i out c : Inv2 s valid i out -> nth_error s i = Some c -> Inv2 s valid (S i) (out ++ piece valid c).
Proof.
  unfold Inv2. intros HI Ec. rewrite (skipn_nth s i c Ec), escape_cons in HI. rewrite !app_length in *. lia.
Qed.

(* ---- symbolic running: arithmetic on indices stays as it is written ---- *)
Local Arguments Z.of_nat : simpl never.
Local Arguments Z.of_N : simpl never.
Local Arguments Z.to_nat : simpl never.
Local Arguments Z.ltb : simpl never.
Local Arguments Z.leb : simpl never.
Local Arguments Z.eqb : simpl never.
Local Arguments Z.sub : simpl never.
Local Arguments Z.add : simpl never.
Local Arguments Z.shiftr : simpl never.
Local Arguments Z.shiftl : simpl never.
Local Arguments Z.land : simpl never.
Local Arguments Z.lor : simpl never.
Local Arguments Z.modulo : simpl never.
Local Arguments Nat.ltb : simpl never.
Local Arguments Nat.eqb : simpl never.
Local Arguments N.leb : simpl never.
Local Arguments N.ltb : simpl never.
Local Arguments N.eqb : simpl never.
Local Arguments bN : simpl never.
Local Arguments while_loop : simpl never.
Local Arguments truncate : simpl nomatch.
Local Arguments skipn : simpl nomatch.
Local Arguments firstn : simpl nomatch.
Local Arguments index_byte : simpl never.
Local Arguments byte_of_Z : simpl never.
Local Arguments hexdigit : simpl never.

(* ---- a loop  for i := ..; i < len(s); i++  whose body handles the byte s[i] and leaves i alone ---- *)
Lemma while_S cond body post n en buf :
  while_loop cond body post (S n) en buf =
  (c <- cond en buf ;;
   match c with
   | VBool false => GoEval.Ok (en, buf, Run)
   | VBool true =>
     '(en1, buf1, stop) <- body en buf ;;
     if stopped stop && negb (is_cont stop) then GoEval.Ok (en1, buf1, stop)
     else '(en2, buf2, _) <- post en1 buf1 ;; while_loop cond body post n en2 buf2
   | _ => Fail "condition is not a boolean"
   end).
Proof. reflexivity. Qed.

Lemma index_loop {St : Type} (s : bytes) (E : nat -> St -> env) (Inv : nat -> St -> Prop) (step : byte -> St -> St)
    cond body post buf :
  (forall i st, cond (E i st) buf = GoEval.Ok (VBool (i <? List.length s)%nat)) ->
  (forall i st c, Inv i st -> nth_error s i = Some c ->
     exists fl, body (E i st) buf = GoEval.Ok (E i (step c st), buf, fl) /\ (fl = Run \/ fl = Cont)) ->
  (forall i st, post (E i st) buf = GoEval.Ok (E (S i) st, buf, Run)) ->
  (forall i st c, Inv i st -> nth_error s i = Some c -> Inv (S i) (step c st)) ->
  forall fuel i st, i <= List.length s -> List.length s - i < fuel -> Inv i st ->
  while_loop cond body post fuel (E i st) buf
  = GoEval.Ok (E (List.length s) (fold_left (fun a c => step c a) (skipn i s) st), buf, Run).
Proof.
  intros Hc Hb Hp Hi. induction fuel as [|fuel IH]; intros i st Hle Hf HI; [lia|].
  rewrite while_S, Hc. destruct (Nat.ltb_spec i (List.length s)) as [Hlt|Hge].
  - destruct (nth_error_lt s i Hlt) as [c Ec].
    destruct (Hb i st c HI Ec) as (fl & -> & Hfl).
    assert (stopped fl && negb (is_cont fl) = false) as -> by (destruct Hfl as [->| ->]; reflexivity).
    rewrite Hp, IH by (try apply (Hi i st c HI Ec); lia).
    rewrite (skipn_nth s i c Ec). reflexivity.
  - assert (i = List.length s) as -> by lia. rewrite skipn_all. reflexivity.
Qed.

(* an index inside a buffer passes the bounds check of a store *)
Ltac bounds :=
  match goal with
  | |- context [((?a <? 0)%Z || (?b <=? ?a)%Z)] =>
    replace ((a <? 0)%Z || (b <=? a)%Z) with false
      by (symmetry; apply orb_false_iff; split; [apply Z.ltb_ge|apply Z.leb_gt]; rewrite ?app_length; cbn [List.length]; lia)
  end.

Section Common.
  Variable call : string -> string -> val -> res val.
  Notation ev := (eval no_impl call).
  Notation ex := (exec no_impl call).
  Notation ex1 := (exec1 no_impl call).

  (* a statement list in a scope of its own *)
  Definition in_scope (ss : list gstmt) : env -> bytes -> res st :=
    fun en buf => '(en1, buf1, stop) <- ex ss en buf ;; GoEval.Ok (truncate (List.length en) en1, buf1, stop).

  Lemma exec_cons s r en buf :
    ex (s :: r) en buf = ('(en1, buf1, stop) <- ex1 s en buf ;; if stopped stop then GoEval.Ok (en1, buf1, stop) else ex r en1 buf1).
  Proof. reflexivity. Qed.
  Lemma exec1_while c post body en buf :
    ex1 (SWhile c post body) en buf =
    match lookup loop_fuel_var en with
    | Some (VInt n) =>
      '(en1, buf1, stop) <- while_loop (fun en buf => ev (Z.of_nat (List.length buf)) en c) (in_scope body) (ex post) (Z.to_nat n) en buf ;;
      GoEval.Ok (truncate (List.length en) en1, buf1, stop)
    | _ => Fail "no loop fuel"
    end.
  Proof. reflexivity. Qed.
  Lemma exec1_block ss en buf : ex1 (SBlock ss) en buf = in_scope ss en buf.
  Proof. reflexivity. Qed.
End Common.
Arguments in_scope call ss en buf : simpl never.

(* ---- EscapeIdent ---- *)
Section EscapeIdent.
  Variable N : nat.                      (* the bound on the rounds of every loop *)
  Variable call : string -> string -> val -> res val.
  Notation ev := (eval no_impl call).
  Notation ex := (exec no_impl call).
  Notation ex1 := (exec1 no_impl call).
  Notation in_scope := (in_scope call).
  Hypothesis Hindex : forall str c, call "" "strings.IndexByte" (VTuple [VStr str; VInt c]) = GoEval.Ok (VInt (index_byte str c)).
    Variable s : bytes.
    Hypothesis HN : List.length s < N.
    Definition ei_body := Eval vm_compute in body_of "EscapeIdent".
    Definition ei_loop1 : gstmt := Eval vm_compute in nth 2 ei_body SStop.
    Definition ei_w1 : gstmt := Eval vm_compute in match ei_loop1 with SBlock [_; w] => w | _ => SStop end.
    Definition ei_body1 : list gstmt := Eval vm_compute in match ei_w1 with SWhile _ _ b => b | _ => [] end.
    Definition EI1 (i : nat) (st : bool * nat) : env :=
      [("i", vnat i); ("extra", vnat (snd st)); ("replace", VBool (fst st)); ("s", VStr s); ("$fuel", vnat N)].
    Definition step1 (c : byte) (st : bool * nat) : bool * nat :=
      (if in_tail c then fst st else true, (snd st + if in_quoted c then 0 else 2)%nat).
    Lemma ei_body1_run i st c : nth_error s i = Some c ->
      in_scope ei_body1 (EI1 i st) [] = GoEval.Ok (EI1 i (step1 c st), [], Run).
    Proof.
      intros Ec. unfold in_scope, ei_body1, EI1, step1. cbn.
      assert ((Z.of_nat i <? 0)%Z = false) as -> by (apply Z.ltb_ge; lia).
      rewrite Nat2Z.id, Ec. cbn. rewrite !Hindex. cbn. fold tail_str. rewrite index_tail.
      destruct (in_tail c); cbn.
      all: assert ((Z.of_nat i <? 0)%Z = false) as -> by (apply Z.ltb_ge; lia).
      all: rewrite Nat2Z.id, Ec; cbn; rewrite !Hindex; cbn; fold quoted_str; rewrite index_quoted.
      all: destruct (in_quoted c); cbn.
      all: unfold vnat; rewrite ?Nat.add_0_r, ?Nat2Z.inj_add; reflexivity.
    Qed.
    Lemma fold_step1 r : forall st,
      fold_left (fun a c => step1 c a) r st = (fst st || negb (forallb in_tail r), (snd st + extra_of in_quoted r)%nat).
    Proof.
      induction r as [|c r IH]; intros [b e]; cbn [fold_left forallb extra_of fst snd].
      - rewrite orb_false_r, Nat.add_0_r. reflexivity.
      - rewrite IH. unfold step1. cbn [fst snd]. f_equal.
        + destruct (in_tail c); cbn [andb negb]; [reflexivity|]. rewrite orb_true_r. reflexivity.
        + lia.
    Qed.
    Definition EIa (st : bool * nat) : env := [("extra", vnat (snd st)); ("replace", VBool (fst st)); ("s", VStr s); ("$fuel", vnat N)].
    Lemma ei_loop1_run :
      ex1 ei_loop1 (EIa (false, 0)) [] = GoEval.Ok (EIa (negb (forallb in_tail s), extra_of in_quoted s), [], Run).
    Proof.
      unfold ei_loop1. rewrite exec1_block. unfold in_scope. rewrite exec_cons.
      change (ex1 (SLet true ["i"] (EConst "" 0%Z)) (EIa (false, 0)) []) with (GoEval.Ok (EI1 0 (false, 0), @nil byte, Run)).
      cbn [stopped]. rewrite exec_cons. fold ei_w1. unfold ei_w1. rewrite exec1_while. fold ei_body1.
      change (lookup loop_fuel_var (EI1 0 (false, 0))) with (Some (VInt (Z.of_nat N))). cbv iota beta. rewrite Nat2Z.id.
      rewrite (index_loop s EI1 (fun _ _ => True) step1) with (i := 0).
      - rewrite fold_step1. reflexivity.
      - intros i st. cbn. rewrite Zltb_ofnat. reflexivity.
      - intros i st c _ Ec. exists Run. split; [apply ei_body1_run; exact Ec|left; reflexivity].
      - intros i st. cbn. unfold EI1, vnat. rewrite Nat2Z.inj_succ. reflexivity.
      - trivial.
      - lia.
      - lia.
      - trivial.
    Qed.

    (* the second loop *)
    Hypothesis Hstring : forall b, call "" "string" (VStr b) = GoEval.Ok (VStr b).
    Definition ei_loop2 : gstmt := Eval vm_compute in nth 7 ei_body SStop.
    Definition ei_w2 : gstmt := Eval vm_compute in match ei_loop2 with SBlock [_; w] => w | _ => SStop end.
    Definition ei_body2 : list gstmt := Eval vm_compute in match ei_w2 with SWhile _ _ b => b | _ => [] end.
    Let total := List.length s + extra_of in_quoted s.
    Definition EI2 (i : nat) (out : bytes) : env :=
      [("i", vnat i); ("j", vnat (List.length out)); ("buf", VStr (out ++ repeat x00 (total - List.length out)));
       ("hextable", VStr hextable); ("extra", vnat (extra_of in_quoted s)); ("replace", VBool true); ("s", VStr s); ("$fuel", vnat N)].
    Lemma ei_body2_run i out c : Inv2 s in_quoted i out -> nth_error s i = Some c ->
      exists fl, in_scope ei_body2 (EI2 i out) [] = GoEval.Ok (EI2 i (out ++ piece in_quoted c), [], fl) /\ (fl = Run \/ fl = Cont).
    Proof.
      intros HI Ec. unfold Inv2 in HI. fold total in HI. rewrite (skipn_nth s i c Ec), escape_cons, app_length in HI.
      pose proof (index_quoted c) as Hq. unfold piece, esc in *.
      assert ((Z.of_nat i <? 0)%Z = false) as Hi0 by (apply Z.ltb_ge; lia).
      destruct (in_quoted c); cbn [negb List.length] in *.
      - destruct (total - List.length out) as [|k] eqn:Ek; [lia|].
        assert (total - List.length (out ++ [c]) = k) as Ek' by (rewrite app_length; cbn [List.length]; lia).
        exists Cont. split; [|right; reflexivity].
        unfold in_scope, ei_body2, EI2. rewrite Ek, Ek'. cbn.
        rewrite Hi0, Nat2Z.id, Ec. cbn. rewrite Hindex. cbn. fold quoted_str. rewrite Hq. cbn.
        bounds. rewrite byte_of_Z_bN. cbn.
        rewrite Nat2Z.id, store_next. unfold vnat. rewrite app_length, Nat2Z.inj_add. reflexivity.
      - destruct (total - List.length out) as [|[|[|k]]] eqn:Ek; [lia|lia|lia|].
        assert (total - List.length (out ++ [x5c; hexdigit (bN c / 16); hexdigit (bN c mod 16)]) = k) as Ek' by (rewrite app_length; cbn [List.length]; lia).
        exists Run. split; [|left; reflexivity].
        unfold in_scope, ei_body2, EI2. rewrite Ek, Ek'. cbn.
        rewrite Hi0, Nat2Z.id, Ec. cbn. rewrite Hindex. cbn. fold quoted_str. rewrite Hq. cbn.
        bounds. change (byte_of_Z 92) with (Some x5c). cbn. rewrite Nat2Z.id, store_next.
        change (4 <? 0)%Z with false. cbn. rewrite shiftr_nonneg. fold hextable. rewrite hex_hi. cbn.
        replace (Z.of_nat (List.length out) + 1)%Z with (Z.of_nat (List.length (out ++ [x5c]))) by (rewrite app_length; cbn [List.length]; lia).
        bounds. rewrite byte_of_Z_bN. cbn. rewrite Nat2Z.id, store_next.
        rewrite land_nonneg. fold hextable. rewrite hex_lo. cbn.
        replace (Z.of_nat (List.length out) + 2)%Z with (Z.of_nat (List.length ((out ++ [x5c]) ++ [hexdigit (bN c / 16)])))
          by (rewrite !app_length; cbn [List.length]; lia).
        bounds. rewrite byte_of_Z_bN. cbn. rewrite Nat2Z.id, store_next.
        rewrite <- !app_assoc. cbn [List.app]. unfold vnat. rewrite app_length. cbn [List.length]. rewrite Nat2Z.inj_add. reflexivity.
    Qed.
    Definition EIb (out : bytes) : env :=
      [("j", vnat (List.length out)); ("buf", VStr (out ++ repeat x00 (total - List.length out)));
       ("hextable", VStr hextable); ("extra", vnat (extra_of in_quoted s)); ("replace", VBool true); ("s", VStr s); ("$fuel", vnat N)].
    Lemma ei_loop2_run : ex1 ei_loop2 (EIb []) [] = GoEval.Ok (EIb (escape in_quoted s), [], Run).
    Proof.
      unfold ei_loop2. rewrite exec1_block. unfold in_scope. rewrite exec_cons.
      change (ex1 (SLet true ["i"] (EConst "" 0%Z)) (EIb []) []) with (GoEval.Ok (EI2 0 [], @nil byte, Run)).
      cbn [stopped]. rewrite exec_cons. fold ei_w2. unfold ei_w2. rewrite exec1_while. fold ei_body2.
      change (lookup loop_fuel_var (EI2 0 [])) with (Some (VInt (Z.of_nat N))). cbv iota beta. rewrite Nat2Z.id.
      rewrite (index_loop s EI2 (Inv2 s in_quoted) (fun c out => out ++ piece in_quoted c)) with (i := 0).
      - rewrite fold_piece. reflexivity.
      - intros i st. cbn. rewrite Zltb_ofnat. reflexivity.
      - intros i out c HI Ec. apply ei_body2_run; assumption.
      - intros i st. cbn. unfold EI2, vnat. rewrite Nat2Z.inj_succ. reflexivity.
      - intros i out c. apply inv2_step.
      - lia.
      - lia.
      - unfold Inv2. cbn [skipn List.length]. rewrite escape_length. reflexivity.
    Qed.

    Lemma escape_ident_run :
      exists en, ex ei_body [("s", VStr s); ("$fuel", vnat N)] [] = GoEval.Ok (en, [], Ret (VStr (escape_ident s))).
    Proof.
      unfold ei_body. rewrite exec_cons. cbn -[exec]. rewrite exec_cons. cbn -[exec].
      rewrite exec_cons. fold ei_loop1.
      change [("extra", VInt 0); ("replace", VBool false); ("s", VStr s); ("$fuel", vnat N)] with (EIa (false, 0)).
      rewrite ei_loop1_run. cbn [stopped]. unfold escape_ident.
      rewrite exec_cons. unfold EIa. cbn [fst snd].
      destruct (forallb in_tail s) eqn:Et.
      - cbn. eexists. reflexivity.
      - cbn -[exec]. rewrite exec_cons. cbn -[exec]. rewrite exec_cons. cbn -[exec].
        match goal with |- context [if ?b then _ else Fail "make"] => change b with true end. cbv iota.
        rewrite <- Nat2Z.inj_add. fold total.
        assert ((Z.of_nat total <? 0)%Z = false) as -> by (apply Z.ltb_ge; lia). rewrite Nat2Z.id.
        cbn -[exec]. rewrite exec_cons. cbn -[exec]. rewrite exec_cons.
        change (SBlock _) with ei_loop2. fold hextable.
        match goal with |- context [ex1 ei_loop2 ?e []] =>
          replace e with (EIb []) by (unfold EIb; cbn [List.length List.app]; rewrite Nat.sub_0_r; reflexivity) end.
        rewrite ei_loop2_run. cbn [stopped]. unfold EIb.
        replace (total - List.length (escape in_quoted s)) with 0 by (rewrite escape_length; unfold total; lia).
        cbn. rewrite Hstring. cbn. rewrite app_nil_r. eexists. reflexivity.
    Qed.
End EscapeIdent.

(* ---- Escape: the same two loops, the predicate a function value ---- *)
Section Escape.
  Variable N : nat.
  Variable call : string -> string -> val -> res val.
  Notation ev := (eval no_impl call).
  Notation ex := (exec no_impl call).
  Notation ex1 := (exec1 no_impl call).
  Notation in_scope := (in_scope call).
  Variable fname : string.               (* the body the function value names *)
  Variable valid : byte -> bool.
  Hypothesis Hvalid : forall c, call "" fname (vbyte c) = GoEval.Ok (VBool (valid c)).
  Hypothesis Hstring : forall b, call "" "string" (VStr b) = GoEval.Ok (VStr b).
  Variable s : bytes.
  Hypothesis HN : List.length s < N.
  Definition es_body := Eval vm_compute in body_of "Escape".
  Definition es_loop1 : gstmt := Eval vm_compute in nth 1 es_body SStop.
  Definition es_w1 : gstmt := Eval vm_compute in match es_loop1 with SBlock [_; w] => w | _ => SStop end.
  Definition es_body1 : list gstmt := Eval vm_compute in match es_w1 with SWhile _ _ b => b | _ => [] end.
  Definition ESa (e : nat) : env := [("extra", vnat e); ("s", VStr s); ("valid", vfunc fname); ("$fuel", vnat N)].
  Definition ES1 (i : nat) (e : nat) : env := ("i", vnat i) :: ESa e.
  Lemma es_body1_run i e c : nth_error s i = Some c ->
    in_scope es_body1 (ES1 i e) [] = GoEval.Ok (ES1 i (e + if valid c then 0 else 2), [], Run).
  Proof.
    intros Ec. unfold EncRefinement.in_scope, es_body1, ES1, ESa. cbn.
    assert ((Z.of_nat i <? 0)%Z = false) as -> by (apply Z.ltb_ge; lia).
    rewrite Nat2Z.id, Ec. cbn. fold (vbyte c). rewrite Hvalid.
    destruct (valid c); cbn; unfold vnat; rewrite ?Nat.add_0_r, ?Nat2Z.inj_add; reflexivity.
  Qed.
  Lemma fold_extra r : forall e, fold_left (fun a c => a + if valid c then 0 else 2) r e = e + extra_of valid r.
  Proof.
    induction r as [|c r IH]; intros e; cbn [fold_left extra_of]; [lia|]. rewrite IH. lia.
  Qed.
  Lemma es_loop1_run : ex1 es_loop1 (ESa 0) [] = GoEval.Ok (ESa (extra_of valid s), [], Run).
  Proof.
    unfold es_loop1. rewrite exec1_block. unfold EncRefinement.in_scope. rewrite exec_cons.
    change (ex1 (SLet true ["i"] (EConst "" 0%Z)) (ESa 0) []) with (GoEval.Ok (ES1 0 0, @nil byte, Run)).
    cbn [stopped]. rewrite exec_cons. fold es_w1. unfold es_w1. rewrite exec1_while. fold es_body1.
    change (lookup loop_fuel_var (ES1 0 0)) with (Some (VInt (Z.of_nat N))). cbv iota beta. rewrite Nat2Z.id.
    rewrite (index_loop s ES1 (fun _ _ => True) (fun c e => e + if valid c then 0 else 2)) with (i := 0).
    - rewrite fold_extra. reflexivity.
    - intros i st. cbn. rewrite Zltb_ofnat. reflexivity.
    - intros i st c _ Ec. exists Run. split; [apply es_body1_run; exact Ec|left; reflexivity].
    - intros i st. cbn. unfold ES1, ESa, vnat. rewrite Nat2Z.inj_succ. reflexivity.
    - trivial.
    - lia.
    - lia.
    - trivial.
  Qed.

  Definition es_loop2 : gstmt := Eval vm_compute in nth 6 es_body SStop.
  Definition es_w2 : gstmt := Eval vm_compute in match es_loop2 with SBlock [_; w] => w | _ => SStop end.
  Definition es_body2 : list gstmt := Eval vm_compute in match es_w2 with SWhile _ _ b => b | _ => [] end.
  Let total := List.length s + extra_of valid s.
  Definition ESb (out : bytes) : env :=
    [("j", vnat (List.length out)); ("buf", VStr (out ++ repeat x00 (total - List.length out)));
     ("hextable", VStr hextable); ("extra", vnat (extra_of valid s)); ("s", VStr s); ("valid", vfunc fname); ("$fuel", vnat N)].
  Definition ES2 (i : nat) (out : bytes) : env := ("i", vnat i) :: ESb out.
  Lemma es_body2_run i out c : Inv2 s valid i out -> nth_error s i = Some c ->
    exists fl, in_scope es_body2 (ES2 i out) [] = GoEval.Ok (ES2 i (out ++ piece valid c), [], fl) /\ (fl = Run \/ fl = Cont).
  Proof.
    intros HI Ec. unfold Inv2 in HI. fold total in HI. rewrite (skipn_nth s i c Ec), escape_cons, app_length in HI.
    unfold piece, esc in *.
    assert ((Z.of_nat i <? 0)%Z = false) as Hi0 by (apply Z.ltb_ge; lia).
    destruct (valid c) eqn:Ev; cbn [negb List.length] in *.
    - destruct (total - List.length out) as [|k] eqn:Ek; [lia|].
      assert (total - List.length (out ++ [c]) = k) as Ek' by (rewrite app_length; cbn [List.length]; lia).
      exists Cont. split; [|right; reflexivity].
      unfold EncRefinement.in_scope, es_body2, ES2, ESb. rewrite Ek, Ek'. cbn.
      rewrite Hi0, Nat2Z.id, Ec. cbn. fold (vbyte c). rewrite Hvalid, Ev. unfold vbyte. cbn.
      bounds. rewrite byte_of_Z_bN. cbn.
      rewrite Nat2Z.id, store_next. unfold vnat. rewrite app_length, Nat2Z.inj_add. reflexivity.
    - destruct (total - List.length out) as [|[|[|k]]] eqn:Ek; [lia|lia|lia|].
      assert (total - List.length (out ++ [x5c; hexdigit (bN c / 16); hexdigit (bN c mod 16)]) = k) as Ek' by (rewrite app_length; cbn [List.length]; lia).
      exists Run. split; [|left; reflexivity].
      unfold EncRefinement.in_scope, es_body2, ES2, ESb. rewrite Ek, Ek'. cbn.
      rewrite Hi0, Nat2Z.id, Ec. cbn. fold (vbyte c). rewrite Hvalid, Ev. unfold vbyte. cbn.
      bounds. change (byte_of_Z 92) with (Some x5c). cbn. rewrite Nat2Z.id, store_next.
      change (4 <? 0)%Z with false. cbn. rewrite shiftr_nonneg. fold hextable. rewrite hex_hi. cbn.
      replace (Z.of_nat (List.length out) + 1)%Z with (Z.of_nat (List.length (out ++ [x5c]))) by (rewrite app_length; cbn [List.length]; lia).
      bounds. rewrite byte_of_Z_bN. cbn. rewrite Nat2Z.id, store_next.
      rewrite land_nonneg. fold hextable. rewrite hex_lo. cbn.
      replace (Z.of_nat (List.length out) + 2)%Z with (Z.of_nat (List.length ((out ++ [x5c]) ++ [hexdigit (bN c / 16)])))
        by (rewrite !app_length; cbn [List.length]; lia).
      bounds. rewrite byte_of_Z_bN. cbn. rewrite Nat2Z.id, store_next.
      rewrite <- !app_assoc. cbn [List.app]. unfold vnat. rewrite app_length. cbn [List.length]. rewrite Nat2Z.inj_add. reflexivity.
  Qed.
  Lemma es_loop2_run : ex1 es_loop2 (ESb []) [] = GoEval.Ok (ESb (escape valid s), [], Run).
  Proof.
    unfold es_loop2. rewrite exec1_block. unfold EncRefinement.in_scope. rewrite exec_cons.
    change (ex1 (SLet true ["i"] (EConst "" 0%Z)) (ESb []) []) with (GoEval.Ok (ES2 0 [], @nil byte, Run)).
    cbn [stopped]. rewrite exec_cons. fold es_w2. unfold es_w2. rewrite exec1_while. fold es_body2.
    change (lookup loop_fuel_var (ES2 0 [])) with (Some (VInt (Z.of_nat N))). cbv iota beta. rewrite Nat2Z.id.
    rewrite (index_loop s ES2 (Inv2 s valid) (fun c out => out ++ piece valid c)) with (i := 0).
    - rewrite fold_piece. reflexivity.
    - intros i st. cbn. rewrite Zltb_ofnat. reflexivity.
    - intros i out c HI Ec. apply es_body2_run; assumption.
    - intros i st. cbn. unfold ES2, ESb, vnat. rewrite Nat2Z.inj_succ. reflexivity.
    - intros i out c. apply inv2_step.
    - lia.
    - lia.
    - unfold Inv2. cbn [skipn List.length]. rewrite escape_length. reflexivity.
  Qed.

  Lemma escape_run :
    exists en, ex es_body [("s", VStr s); ("valid", vfunc fname); ("$fuel", vnat N)] [] = GoEval.Ok (en, [], Ret (VStr (escape valid s))).
  Proof.
    unfold es_body. rewrite exec_cons. cbn -[exec]. rewrite exec_cons. fold es_loop1.
    change [("extra", VInt 0); ("s", VStr s); ("valid", vfunc fname); ("$fuel", vnat N)] with (ESa 0).
    rewrite es_loop1_run. cbn [stopped]. rewrite exec_cons. unfold ESa.
    destruct (Nat.eq_dec (extra_of valid s) 0) as [Ee|Ee].
    - rewrite Ee. cbn. rewrite Hstring. cbn. rewrite (extra_zero valid s Ee). eexists. reflexivity.
    - cbn -[exec]. replace (Z.of_nat (extra_of valid s) =? 0)%Z with false by (symmetry; apply Z.eqb_neq; lia). cbn -[exec].
      rewrite exec_cons. cbn -[exec]. rewrite exec_cons. cbn -[exec].
      match goal with |- context [if ?b then _ else Fail "make"] => change b with true end. cbv iota.
      rewrite <- Nat2Z.inj_add. fold total.
      assert ((Z.of_nat total <? 0)%Z = false) as -> by (apply Z.ltb_ge; lia). rewrite Nat2Z.id.
      cbn -[exec]. rewrite exec_cons. cbn -[exec]. rewrite exec_cons.
      change (SBlock _) with es_loop2. fold hextable.
      match goal with |- context [ex1 es_loop2 ?e []] =>
        replace e with (ESb []) by (unfold ESb; cbn [List.length List.app]; rewrite Nat.sub_0_r; reflexivity) end.
      rewrite es_loop2_run. cbn [stopped]. unfold ESb.
      replace (total - List.length (escape valid s)) with 0 by (rewrite escape_length; unfold total; lia).
      cbn. rewrite Hstring. cbn. rewrite app_nil_r. eexists. reflexivity.
  Qed.
End Escape.

(* ---- the knot: a call runs the regenerated body of the callee, or the library ---- *)
Lemma call_table_lib_S tbl impl g n ty m recv :
  call_table_lib tbl impl g (S n) ty m recv =
  match find_in tbl ty m with
  | Some p => run_body impl (call_table_lib tbl impl g n) g p recv
  | None => match (if String.eqb ty "" then go_library m recv else None) with
            | Some r => r
            | None => Fail ("no body " ++ ty ++ "." ++ m)%string
            end
  end.
Proof. reflexivity. Qed.
Notation enc_call g d := (call_table_lib enc_bodies no_impl g d).
Lemma lib_index_byte g d str c :
  enc_call g (S d) "" "strings.IndexByte" (VTuple [VStr str; VInt c]) = GoEval.Ok (VInt (index_byte str c)).
Proof. reflexivity. Qed.
Lemma lib_string g d b : enc_call g (S d) "" "string" (VStr b) = GoEval.Ok (VStr b).
Proof. reflexivity. Qed.
Lemma lib_bytes g d b : enc_call g (S d) "" "[]byte" (VStr b) = GoEval.Ok (VStr b).
Proof. reflexivity. Qed.

Lemma find_escape_ident : find_in enc_bodies "" "EscapeIdent"
  = Some {| p_pkg := "enc"; p_type := ""; p_method := "EscapeIdent"; p_recv := "s"; p_body := ei_body |}.
Proof. reflexivity. Qed.

Lemma escape_ident_at N d s : List.length s < N ->
  enc_call (fuel_env N) (S (S d)) "" "EscapeIdent" (VStr s) = GoEval.Ok (VStr (escape_ident s)).
Proof.
  intros HN. rewrite call_table_lib_S, find_escape_ident. unfold run_body. cbn [p_recv p_body].
  change (split_commas "s") with ["s"]. unfold fuel_env. cbn [List.app].
  destruct (escape_ident_run N (enc_call (fuel_env N) (S d)) (lib_index_byte _ d) s HN (lib_string _ d)) as [en Hen].
  unfold vnat, fuel_env in Hen. change loop_fuel_var with "$fuel" in *. rewrite Hen. reflexivity.
Qed.

Theorem generated_escape_ident_is_model : forall s : bytes,
  run_enc "EscapeIdent" [VStr s] = GoEval.Ok (VStr (escape_ident s)).
Proof. intros s. unfold run_enc, enc_depth. apply escape_ident_at. cbn [args_len]. lia. Qed.
Print Assumptions generated_escape_ident_is_model.

(* ---- the names: a sigil (or a colon), quoted digits or EscapeIdent ---- *)
Local Arguments call_table_lib : simpl never.
Lemma lib_parse_uint g d s :
  enc_call g (S d) "" "strconv.ParseUint" (VTuple [VStr s; VInt 10; VInt 64])
  = GoEval.Ok (VTuple (match parse_uint64 s with
                       | Some v => [VInt (Z.of_N v); VNil]
                       | None => [VInt (match parse_dec_N s with Some _ => 2 ^ 64 - 1 | None => 0 end); VObj "error" []]
                       end)).
Proof.
  rewrite call_table_lib_S. change (find_in enc_bodies "" "strconv.ParseUint") with (@None printer).
  cbn. unfold parse_uint64. destruct (parse_dec_N s) as [v|]; [|reflexivity].
  change (2 ^ 64)%N with 18446744073709551616%N. destruct (v <? 18446744073709551616)%N; reflexivity.
Qed.

Lemma type_name_at N d s : List.length s < N ->
  enc_call (fuel_env N) (S (S (S d))) "" "TypeName" (VStr s) = GoEval.Ok (VStr (type_name s)).
Proof.
  intros HN. rewrite call_table_lib_S. cbn. unfold run_body. cbn. rewrite escape_ident_at by exact HN. reflexivity.
Qed.
Lemma comdat_name_at N d s : List.length s < N ->
  enc_call (fuel_env N) (S (S (S d))) "" "ComdatName" (VStr s) = GoEval.Ok (VStr (comdat_name s)).
Proof.
  intros HN. rewrite call_table_lib_S. cbn. unfold run_body. cbn. rewrite escape_ident_at by exact HN. reflexivity.
Qed.
Lemma global_name_at N d s : List.length s < N ->
  enc_call (fuel_env N) (S (S (S d))) "" "GlobalName" (VStr s) = GoEval.Ok (VStr (global_name s)).
Proof.
  intros HN. rewrite call_table_lib_S. cbn. unfold run_body. cbn. rewrite lib_parse_uint. unfold global_name, sigil_name.
  destruct (parse_uint64 s); cbn; [reflexivity|]. rewrite escape_ident_at by exact HN. reflexivity.
Qed.
Lemma local_name_at N d s : List.length s < N ->
  enc_call (fuel_env N) (S (S (S d))) "" "LocalName" (VStr s) = GoEval.Ok (VStr (local_name s)).
Proof.
  intros HN. rewrite call_table_lib_S. cbn. unfold run_body. cbn. rewrite lib_parse_uint. unfold local_name, sigil_name.
  destruct (parse_uint64 s); cbn; [reflexivity|]. rewrite escape_ident_at by exact HN. reflexivity.
Qed.
Lemma label_name_at N d s : List.length s < N ->
  enc_call (fuel_env N) (S (S (S d))) "" "LabelName" (VStr s) = GoEval.Ok (VStr (label_name s)).
Proof.
  intros HN. rewrite call_table_lib_S. cbn. unfold run_body. cbn. rewrite lib_parse_uint. unfold label_name.
  destruct (parse_uint64 s); cbn; [reflexivity|]. rewrite escape_ident_at by exact HN. reflexivity.
Qed.

Theorem generated_type_name_is_model : forall s : bytes, run_enc "TypeName" [VStr s] = GoEval.Ok (VStr (type_name s)).
Proof. intros s. unfold run_enc, enc_depth. apply type_name_at. cbn [args_len]. lia. Qed.
Theorem generated_comdat_name_is_model : forall s : bytes, run_enc "ComdatName" [VStr s] = GoEval.Ok (VStr (comdat_name s)).
Proof. intros s. unfold run_enc, enc_depth. apply comdat_name_at. cbn [args_len]. lia. Qed.
Theorem generated_global_name_is_model : forall s : bytes, run_enc "GlobalName" [VStr s] = GoEval.Ok (VStr (global_name s)).
Proof. intros s. unfold run_enc, enc_depth. apply global_name_at. cbn [args_len]. lia. Qed.
Theorem generated_local_name_is_model : forall s : bytes, run_enc "LocalName" [VStr s] = GoEval.Ok (VStr (local_name s)).
Proof. intros s. unfold run_enc, enc_depth. apply local_name_at. cbn [args_len]. lia. Qed.
Theorem generated_label_name_is_model : forall s : bytes, run_enc "LabelName" [VStr s] = GoEval.Ok (VStr (label_name s)).
Proof. intros s. unfold run_enc, enc_depth. apply label_name_at. cbn [args_len]. lia. Qed.
Print Assumptions generated_type_name_is_model.
Print Assumptions generated_comdat_name_is_model.
Print Assumptions generated_global_name_is_model.
Print Assumptions generated_local_name_is_model.
Print Assumptions generated_label_name_is_model.

(* ---- Escape, EscapeString, Quote, MetadataName ---- *)
(* the two predicates handed to Escape, lifted by the translator to bodies of their own *)
Lemma pred_quoted g d c : enc_call g (S d) "" "EscapeString$1" (vbyte c) = GoEval.Ok (VBool (in_quoted c)).
Proof. destruct c; vm_compute; reflexivity. Qed.
Lemma pred_tail N d c : enc_call (fuel_env N) (S (S d)) "" "MetadataName$1" (vbyte c) = GoEval.Ok (VBool (in_tail c)).
Proof. destruct c; vm_compute; reflexivity. Qed.

Lemma find_escape : find_in enc_bodies "" "Escape"
  = Some {| p_pkg := "enc"; p_type := ""; p_method := "Escape"; p_recv := "s,valid"; p_body := es_body |}.
Proof. reflexivity. Qed.
Lemma escape_at N d s fname valid : List.length s < N ->
  (forall c, enc_call (fuel_env N) (S d) "" fname (vbyte c) = GoEval.Ok (VBool (valid c))) ->
  enc_call (fuel_env N) (S (S d)) "" "Escape" (VTuple [VStr s; VObj "func" [(fname, VNil)]]) = GoEval.Ok (VStr (escape valid s)).
Proof.
  intros HN Hv. rewrite call_table_lib_S, find_escape. unfold run_body. cbn [p_recv p_body].
  change (split_commas "s,valid") with ["s"; "valid"]. unfold fuel_env. cbn [List.app combine].
  destruct (escape_run N (enc_call (fuel_env N) (S d)) fname valid Hv (lib_string _ d) s HN) as [en Hen].
  unfold vnat, vfunc, fuel_env in Hen. change loop_fuel_var with "$fuel" in *. rewrite Hen. reflexivity.
Qed.

Lemma escape_string_at N d s : List.length s < N ->
  enc_call (fuel_env N) (S (S (S d))) "" "EscapeString" (VStr s) = GoEval.Ok (VStr (escape_string s)).
Proof.
  intros HN. rewrite call_table_lib_S. cbn. unfold run_body. cbn. unfold vfunc.
  rewrite (escape_at N d s "EscapeString$1" in_quoted HN) by (intros c; apply pred_quoted).
  cbn. rewrite lib_string. reflexivity.
Qed.
Lemma quote_at N d s : List.length s < N ->
  enc_call (fuel_env N) (S (S (S (S d)))) "" "Quote" (VStr s) = GoEval.Ok (VStr (quote s)).
Proof.
  intros HN. rewrite call_table_lib_S. cbn. unfold run_body. cbn.
  rewrite escape_string_at by exact HN. cbn. rewrite lib_string. reflexivity.
Qed.

Theorem generated_escape_is_model : forall (s : bytes) (fname : string) (valid : byte -> bool),
  (forall N d c, enc_call (fuel_env N) (S (S d)) "" fname (vbyte c) = GoEval.Ok (VBool (valid c))) ->
  run_enc "Escape" [VStr s; vfunc fname] = GoEval.Ok (VStr (escape valid s)).
Proof.
  intros s fname valid Hv. unfold run_enc, enc_depth, vfunc. cbv beta iota.
  apply (escape_at (S (args_len [VStr s; VObj "func" [(fname, VNil)]])) 4 s fname valid); [cbn [args_len]; lia|]. intros c. apply (Hv _ 3).
Qed.
Theorem generated_escape_string_is_model : forall s : bytes, run_enc "EscapeString" [VStr s] = GoEval.Ok (VStr (escape_string s)).
Proof. intros s. unfold run_enc, enc_depth. apply escape_string_at. cbn [args_len]. lia. Qed.
Theorem generated_quote_is_model : forall s : bytes, run_enc "Quote" [VStr s] = GoEval.Ok (VStr (quote s)).
Proof. intros s. unfold run_enc, enc_depth. apply quote_at. cbn [args_len]. lia. Qed.
Print Assumptions generated_escape_is_model.
Print Assumptions generated_escape_string_is_model.
Print Assumptions generated_quote_is_model.

(* MetadataName: name[0] panics on the empty name; a leading digit is written \3d *)
Definition decimal_str : bytes := Eval vm_compute in bs "0123456789".
Lemma contains_decimal c : contains_rune decimal_str (Z.of_N (bN c)) = Some (is_decimal c).
Proof. destruct c; vm_compute; reflexivity. Qed.
Lemma lib_rune g d c : enc_call g (S d) "" "rune" (vbyte c) = GoEval.Ok (vbyte c).
Proof. destruct c; vm_compute; reflexivity. Qed.
Lemma lib_contains_rune g d str r :
  enc_call g (S d) "" "strings.ContainsRune" (VTuple [VStr str; VInt r])
  = match contains_rune str r with Some b => GoEval.Ok (VBool b) | None => Fail "strings.ContainsRune of a rune above 2047" end.
Proof. reflexivity. Qed.

Lemma metadata_name_at N d s : List.length s < N ->
  enc_call (fuel_env N) (S (S (S (S d)))) "" "MetadataName" (VStr s)
  = match metadata_name s with Some r => GoEval.Ok (VStr r) | None => Fail "panic" end.
Proof.
  intros HN. rewrite call_table_lib_S. cbn. unfold run_body. cbn.
  destruct s as [|b r]; [reflexivity|]. cbn.
  change (0 <? 0)%Z with false. change (1 <? 0)%Z with false. change (Z.to_nat 0) with 0%nat.
  change (Z.to_nat (1 - 0)) with 1%nat. change (Z.to_nat 1) with 1%nat.
  assert ((Z.of_nat (S (List.length r)) <? 1)%Z = false) as -> by (apply Z.ltb_ge; lia).
  cbn. fold (vbyte b). rewrite lib_rune. unfold vbyte. cbn.
  rewrite lib_contains_rune. fold decimal_str. rewrite contains_decimal.
  destruct (is_decimal b); cbn.
  - rewrite lib_bytes. cbn. unfold vfunc.
    rewrite (escape_at N (S d) r "MetadataName$1" in_tail) by (cbn [List.length] in HN; try lia; intros c; apply pred_tail).
    cbn. rewrite lib_string. reflexivity.
  - rewrite lib_bytes. cbn. unfold vfunc.
    rewrite (escape_at N (S d) (b :: r) "MetadataName$1" in_tail) by (try exact HN; intros c; apply pred_tail).
    cbn. rewrite lib_string. reflexivity.
Qed.
Theorem generated_metadata_name_is_model : forall s : bytes,
  run_enc "MetadataName" [VStr s] = match metadata_name s with Some r => GoEval.Ok (VStr r) | None => Fail "panic" end.
Proof. intros s. unfold run_enc, enc_depth. apply metadata_name_at. cbn [args_len]. lia. Qed.
Print Assumptions generated_metadata_name_is_model.

(* ---- the numeric identifiers: a negative ID panics (where the code checks), the rest is strconv.FormatInt ---- *)
Lemma lib_format_int g d z : enc_call g (S d) "" "strconv.FormatInt" (VTuple [VInt z; VInt 10]) = GoEval.Ok (VStr (print_Z z)).
Proof. reflexivity. Qed.
Lemma print_Z_nonneg z : (z <? 0)%Z = false -> print_Z z = format_uint (Z.to_N z).
Proof. destruct z as [|p|p]; intros H; try reflexivity. discriminate. Qed.
Theorem generated_global_id_is_model : forall z : Z,
  run_enc "GlobalID" [VInt z] = if (z <? 0)%Z then Fail "panic" else GoEval.Ok (VStr (global_id (Z.to_N z))).
Proof.
  intros z. unfold run_enc, enc_depth. rewrite call_table_lib_S. cbn. unfold run_body. cbn.
  destruct (z <? 0)%Z eqn:Ez; cbn; [reflexivity|]. rewrite lib_format_int. cbn. rewrite (print_Z_nonneg z Ez). reflexivity.
Qed.
Theorem generated_local_id_is_model : forall z : Z,
  run_enc "LocalID" [VInt z] = if (z <? 0)%Z then Fail "panic" else GoEval.Ok (VStr (local_id (Z.to_N z))).
Proof.
  intros z. unfold run_enc, enc_depth. rewrite call_table_lib_S. cbn. unfold run_body. cbn.
  destruct (z <? 0)%Z eqn:Ez; cbn; [reflexivity|]. rewrite lib_format_int. cbn. rewrite (print_Z_nonneg z Ez). reflexivity.
Qed.
Theorem generated_label_id_is_model : forall z : Z,
  run_enc "LabelID" [VInt z] = if (z <? 0)%Z then Fail "panic" else GoEval.Ok (VStr (label_id (Z.to_N z))).
Proof.
  intros z. unfold run_enc, enc_depth. rewrite call_table_lib_S. cbn. unfold run_body. cbn.
  destruct (z <? 0)%Z eqn:Ez; cbn; [reflexivity|]. rewrite lib_format_int. cbn. rewrite (print_Z_nonneg z Ez). reflexivity.
Qed.
(* no check in the code: the sign is printed (GoEval gives enc.AttrGroupID and enc.MetadataID this meaning) *)
Theorem generated_attr_group_id_is_model : forall z : Z, run_enc "AttrGroupID" [VInt z] = GoEval.Ok (VStr (x23 :: print_Z z)).
Proof.
  intros z. unfold run_enc, enc_depth. rewrite call_table_lib_S. cbn. unfold run_body. cbn. rewrite lib_format_int. reflexivity.
Qed.
Theorem generated_metadata_id_is_model : forall z : Z, run_enc "MetadataID" [VInt z] = GoEval.Ok (VStr (x21 :: print_Z z)).
Proof.
  intros z. unfold run_enc, enc_depth. rewrite call_table_lib_S. cbn. unfold run_body. cbn. rewrite lib_format_int. reflexivity.
Qed.
Print Assumptions generated_global_id_is_model.
Print Assumptions generated_local_id_is_model.
Print Assumptions generated_label_id_is_model.
Print Assumptions generated_attr_group_id_is_model.
Print Assumptions generated_metadata_id_is_model.

(* ---- Unescape ---- *)
(* the model, one round at a time: the byte written and how many further bytes of the input the round consumes *)
Definition ustep (b : byte) (r : bytes) : byte * nat :=
  if (bN b =? 92)%N then
    match r with
    | b1 :: r1 =>
      if (bN b1 =? 92)%N then (x5c, 1)
      else match r1 with
           | b2 :: _ =>
             match unhex b1, unhex b2 with
             | Some h, Some l => match Byte.of_N (h * 16 + l) with Some c => (c, 2) | None => (b, 0) end
             | _, _ => (b, 0)
             end
           | [] => (b, 0)
           end
    | [] => (b, 0)
    end
  else (b, 0).
Lemma unescape_cons b r : unescape (b :: r) = fst (ustep b r) :: unescape (skipn (snd (ustep b r)) r).
Proof.
  rewrite <- (unescape_fuel_enough (b :: r) (S (List.length r))) by (cbn [List.length]; lia).
  rewrite unescape_fuel_S. unfold unescape_step, ustep.
  destruct (bN b =? 92)%N; [|cbn [fst snd skipn]; rewrite unescape_fuel_enough by lia; reflexivity].
  destruct r as [|b1 r1]; [reflexivity|].
  destruct (bN b1 =? 92)%N.
  { cbn [fst snd skipn]. rewrite unescape_fuel_enough by (cbn [List.length]; lia). reflexivity. }
  destruct r1 as [|b2 r2]; [cbn [fst snd skipn]; rewrite unescape_fuel_enough by (cbn [List.length]; lia); reflexivity|].
  destruct (unhex b1) as [h|]; [|cbn [fst snd skipn]; rewrite unescape_fuel_enough by (cbn [List.length]; lia); reflexivity].
  destruct (unhex b2) as [l|]; [|cbn [fst snd skipn]; rewrite unescape_fuel_enough by (cbn [List.length]; lia); reflexivity].
  destruct (Byte.of_N (h * 16 + l)); cbn [fst snd skipn]; rewrite unescape_fuel_enough by (cbn [List.length]; lia); reflexivity.
Qed.
Lemma ustep_bound b r : snd (ustep b r) <= List.length r.
Proof.
  unfold ustep. destruct (bN b =? 92)%N; [|cbn; lia]. destruct r as [|b1 r1]; [cbn; lia|].
  destruct (bN b1 =? 92)%N; [cbn; lia|]. destruct r1 as [|b2 r2]; [cbn; lia|].
  destruct (unhex b1); [|cbn; lia]. destruct (unhex b2); [|cbn; lia]. destruct (Byte.of_N _); cbn; lia.
Qed.
(* when the round consumes nothing further, it writes the byte it read *)
Lemma ustep_zero b r : snd (ustep b r) = 0 -> fst (ustep b r) = b.
Proof.
  unfold ustep. destruct (bN b =? 92)%N; [|reflexivity]. destruct r as [|b1 r1]; [reflexivity|].
  destruct (bN b1 =? 92)%N; [cbn; discriminate|]. destruct r1 as [|b2 r2]; [reflexivity|].
  destruct (unhex b1); [|reflexivity]. destruct (unhex b2); [|reflexivity]. destruct (Byte.of_N _); [cbn; discriminate|reflexivity].
Qed.

(* the regenerated unhex, and x1<<4 | x2 at type byte *)
Lemma unhex_lt16 c h : unhex c = Some h -> (h < 16)%N.
Proof. destruct c; vm_compute; intros [= <-]; reflexivity. Qed.
Lemma hex_combine h l : (h < 16)%N -> (l < 16)%N ->
  exists c, Byte.of_N (h * 16 + l) = Some c /\ Z.lor (Z.shiftl (Z.of_N h) 4 mod 256) (Z.of_N l) = Z.of_N (bN c).
Proof.
  intros Hh Hl.
  assert (h = 0 \/ h = 1 \/ h = 2 \/ h = 3 \/ h = 4 \/ h = 5 \/ h = 6 \/ h = 7 \/ h = 8 \/ h = 9 \/ h = 10 \/ h = 11 \/ h = 12
          \/ h = 13 \/ h = 14 \/ h = 15)%N as Eh by lia.
  assert (l = 0 \/ l = 1 \/ l = 2 \/ l = 3 \/ l = 4 \/ l = 5 \/ l = 6 \/ l = 7 \/ l = 8 \/ l = 9 \/ l = 10 \/ l = 11 \/ l = 12
          \/ l = 13 \/ l = 14 \/ l = 15)%N as El by lia.
  repeat (destruct Eh as [Eh|Eh]); subst h; repeat (destruct El as [El|El]); subst l; eexists; split; reflexivity.
Qed.
(* s has no backslash *)
Lemma index_byte_cons b r c :
  index_byte (b :: r) c = if (Z.of_N (bN b) =? c)%Z then 0%Z else if (index_byte r c <? 0)%Z then (-1)%Z else (index_byte r c + 1)%Z.
Proof. reflexivity. Qed.
Lemma index_byte_none str c : (index_byte str c <? 0)%Z = forallb (fun b => negb (Z.of_N (bN b) =? c)%Z) str.
Proof.
  induction str as [|b r IH]; [reflexivity|]. rewrite index_byte_cons. cbn [forallb].
  destruct (Z.of_N (bN b) =? c)%Z; [reflexivity|]. cbn [negb andb]. rewrite <- IH.
  destruct (index_byte r c <? 0)%Z eqn:E; [reflexivity|]. apply Z.ltb_ge in E. apply Z.ltb_ge. lia.
Qed.
Lemma index_byte_ge str c : (-1 <= index_byte str c)%Z.
Proof.
  induction str as [|b r IH]; [cbv; discriminate|]. rewrite index_byte_cons. destruct (Z.of_N (bN b) =? c)%Z; [lia|].
  destruct (index_byte r c <? 0)%Z eqn:E; [lia|]. apply Z.ltb_ge in E. lia.
Qed.
Lemma forallb_eq {A} (f g : A -> bool) l : (forall x, f x = g x) -> forallb f l = forallb g l.
Proof. intros H. induction l as [|x l IH]; [reflexivity|]. cbn [forallb]. rewrite H, IH. reflexivity. Qed.
Lemma no_backslash_unescape s : contains_rune s 92 = Some false -> unescape s = s.
Proof.
  unfold contains_rune. change ((0 <=? 92) && (92 <? 128))%Z with true. cbv iota. intros [= H].
  apply unescape_no_backslash_fuel; [lia|].
  assert ((index_byte s 92 <? 0)%Z = true) as Hn by (apply Z.ltb_lt; apply Z.leb_gt in H; exact H).
  rewrite index_byte_none in Hn. rewrite <- Hn. apply forallb_eq. intros b.
  change 92%Z with (Z.of_N 92). rewrite Zeqb_ofN. reflexivity.
Qed.

Lemma unhex_generated N d c :
  enc_call (fuel_env N) (S (S d)) "" "unhex" (vbyte c)
  = GoEval.Ok (VTuple (match unhex c with Some h => [VInt (Z.of_N h); VBool true] | None => [VInt 0; VBool false] end)).
Proof. destruct c; vm_compute; reflexivity. Qed.

Section Unescape.
  Variable N : nat.
  Variable call : string -> string -> val -> res val.
  Notation ev := (eval no_impl call).
  Notation ex := (exec no_impl call).
  Notation ex1 := (exec1 no_impl call).
  Notation in_scope := (in_scope call).
  Hypothesis Hunhex : forall c, call "" "unhex" (vbyte c)
    = GoEval.Ok (VTuple (match unhex c with Some h => [VInt (Z.of_N h); VBool true] | None => [VInt 0; VBool false] end)).
  Hypothesis Hbyte : forall z, call "" "byte" (VInt z) = GoEval.Ok (VInt (z mod 256)).
  Hypothesis Hbytes : forall b, call "" "[]byte" (VStr b) = GoEval.Ok (VStr b).
  Hypothesis Hcontains : forall str r, call "" "strings.ContainsRune" (VTuple [VStr str; VInt r])
    = match contains_rune str r with Some b => GoEval.Ok (VBool b) | None => Fail "strings.ContainsRune of a rune above 2047" end.
  Variable s : bytes.
  Hypothesis HN : List.length s < N.
  Definition un_body := Eval vm_compute in body_of "Unescape".
  Definition un_loop : gstmt := Eval vm_compute in nth 3 un_body SStop.
  Definition un_w : gstmt := Eval vm_compute in match un_loop with SBlock [_; w] => w | _ => SStop end.
  Definition un_lbody : list gstmt := Eval vm_compute in match un_w with SWhile _ _ b => b | _ => [] end.
  Definition un_decode : gstmt := Eval vm_compute in nth 1 un_lbody SStop.
  Definition un_store : list gstmt := Eval vm_compute in skipn 2 un_lbody.
  Definition EU (i : nat) (out : bytes) : env :=
    [("i", vnat i); ("buf", VStr (out ++ skipn (List.length out) s)); ("j", vnat (List.length out)); ("s", VStr s); ("$fuel", vnat N)].

  Lemma un_decode_run i out b r : skipn i s = b :: r ->
    ex1 un_decode (("b", vbyte b) :: EU i out) []
    = GoEval.Ok (("b", vbyte (fst (ustep b r))) :: EU (i + snd (ustep b r)) out, [], Run).
  Proof.
    intros Es.
    assert (List.length s = i + S (List.length r)) as Hl.
    { pose proof (skipn_length i s) as L. rewrite Es in L. cbn [List.length] in L. lia. }
    assert (skipn (S i) s = r) as Es1 by (rewrite skipn_S_tl, Es; reflexivity).
    assert (skipn (S (S i)) s = tl r) as Es2 by (rewrite skipn_S_tl, Es1; reflexivity).
    assert (nth_error s (S i) = hd_error r) as H1 by (rewrite nth_error_skipn, Es1; reflexivity).
    assert (nth_error s (S (S i)) = hd_error (tl r)) as H2 by (rewrite nth_error_skipn, Es2; reflexivity).
    assert (Z.to_nat (Z.of_nat i + 1) = S i) as T1 by lia.
    assert (Z.to_nat (Z.of_nat i + 2) = S (S i)) as T2 by lia.
    assert ((Z.of_nat i + 1 <? 0)%Z = false) as P1 by (apply Z.ltb_ge; lia).
    assert ((Z.of_nat i + 2 <? 0)%Z = false) as P2 by (apply Z.ltb_ge; lia).
    unfold un_decode, EU, ustep, vbyte.
    change 92%Z with (Z.of_N 92).
    destruct (bN b =? 92)%N eqn:Eb.
    2: { cbn. rewrite Zeqb_ofN, Eb. cbn. rewrite Nat.add_0_r. reflexivity. }
    destruct r as [|b1 r1].
    { cbn. rewrite Zeqb_ofN, Eb. cbn.
      assert ((Z.of_nat i + 1 <? Z.of_nat (List.length s))%Z = false) as -> by (apply Z.ltb_ge; cbn [List.length] in Hl; lia).
      cbn.
      assert ((Z.of_nat i + 2 <? Z.of_nat (List.length s))%Z = false) as -> by (apply Z.ltb_ge; cbn [List.length] in Hl; lia).
      cbn. rewrite Nat.add_0_r. reflexivity. }
    cbn [hd_error tl List.length] in *.
    assert ((Z.of_nat i + 1 <? Z.of_nat (List.length s))%Z = true) as C1 by (apply Z.ltb_lt; lia).
    destruct (bN b1 =? 92)%N eqn:Eb1.
    { cbn. rewrite Zeqb_ofN, Eb. cbn. rewrite C1, P1, T1, H1. cbn. rewrite Zeqb_ofN, Eb1. cbn.
      unfold vnat. rewrite Nat2Z.inj_add. reflexivity. }
    destruct r1 as [|b2 r2].
    { cbn. rewrite Zeqb_ofN, Eb. cbn. rewrite C1, P1, T1, H1. cbn. rewrite Zeqb_ofN, Eb1. cbn.
      assert ((Z.of_nat i + 2 <? Z.of_nat (List.length s))%Z = false) as -> by (apply Z.ltb_ge; cbn [List.length] in Hl; lia).
      cbn. rewrite Nat.add_0_r. reflexivity. }
    cbn [hd_error tl List.length] in *.
    assert ((Z.of_nat i + 2 <? Z.of_nat (List.length s))%Z = true) as C2 by (apply Z.ltb_lt; lia).
    pose proof (Hunhex b1) as U1. pose proof (Hunhex b2) as U2. unfold vbyte in U1, U2.
    pose proof (unhex_lt16 b1) as L1. pose proof (unhex_lt16 b2) as L2.
    destruct (unhex b1) as [h|].
    2: { cbn. rewrite Zeqb_ofN, Eb. cbn. rewrite C1, P1, T1, H1. cbn. rewrite Zeqb_ofN, Eb1. cbn.
         rewrite C2. cbn. rewrite ?P1, ?T1, ?H1. cbn. rewrite U1. cbn. rewrite Nat.add_0_r. reflexivity. }
    destruct (unhex b2) as [l|].
    2: { cbn. rewrite Zeqb_ofN, Eb. cbn. rewrite C1, P1, T1, H1. cbn. rewrite Zeqb_ofN, Eb1. cbn.
         rewrite C2. cbn. rewrite ?P1, ?T1, ?H1. cbn. rewrite U1. cbn. rewrite ?P2, ?T2, ?H2. cbn. rewrite U2. cbn.
         rewrite Nat.add_0_r. reflexivity. }
    destruct (hex_combine h l (L1 h eq_refl) (L2 l eq_refl)) as (c & -> & Ec).
    cbn. rewrite Zeqb_ofN, Eb. cbn. rewrite C1, P1, T1, H1. cbn. rewrite Zeqb_ofN, Eb1. cbn.
    rewrite C2. cbn. rewrite ?P1, ?T1, ?H1. cbn. rewrite U1. cbn. rewrite ?P2, ?T2, ?H2. cbn. rewrite U2. cbn.
    rewrite Hbyte. cbn. rewrite Ec. unfold vnat. rewrite Nat2Z.inj_add. reflexivity.
  Qed.

  Lemma skipn_add {A} (l : list A) i z : skipn (i + z) l = skipn z (skipn i l).
  Proof.
    revert l. induction i as [|i IH]; intros l; [reflexivity|].
    destruct l as [|x l]; [destruct z; reflexivity|]. cbn [Nat.add skipn]. apply IH.
  Qed.

  Lemma un_store_run i out o : List.length out < List.length s ->
    (i = List.length out -> nth_error s i = Some o) ->
    ex un_store (("b", vbyte o) :: EU i out) [] = GoEval.Ok (("b", vbyte o) :: EU i (out ++ [o]), [], Run).
  Proof.
    intros Hlt Hsame. destruct (nth_error_lt s (List.length out) Hlt) as [x Ex].
    pose proof (skipn_nth s _ x Ex) as Sx.
    unfold un_store, EU, vbyte. rewrite Sx. cbn. rewrite Zeqb_ofnat.
    destruct (Nat.eqb_spec i (List.length out)) as [E|E]; cbn.
    - pose proof (Hsame E) as Hs'. subst i. assert (x = o) as -> by congruence.
      unfold vnat. rewrite app_length. cbn [List.length]. rewrite Nat2Z.inj_add.
      replace (List.length out + 1) with (S (List.length out)) by lia. rewrite <- app_assoc. reflexivity.
    - bounds. rewrite byte_of_Z_bN. cbn. rewrite Nat2Z.id, store_next.
      unfold vnat. rewrite app_length. cbn [List.length]. rewrite Nat2Z.inj_add.
      replace (List.length out + 1) with (S (List.length out)) by lia. reflexivity.
  Qed.

  Definition un_letb : gstmt := Eval vm_compute in nth 0 un_lbody SStop.
  Lemma un_lbody_run i out b r : skipn i s = b :: r -> List.length out <= i ->
    in_scope un_lbody (EU i out) [] = GoEval.Ok (EU (i + snd (ustep b r)) (out ++ [fst (ustep b r)]), [], Run).
  Proof.
    intros Es Hle.
    assert (List.length s = i + S (List.length r)) as Hl.
    { pose proof (skipn_length i s) as L. rewrite Es in L. cbn [List.length] in L. lia. }
    assert (nth_error s i = Some b) as Eb by (rewrite nth_error_skipn, Es; reflexivity).
    unfold EncRefinement.in_scope. change un_lbody with (un_letb :: un_decode :: un_store).
    rewrite exec_cons.
    assert (ex1 un_letb (EU i out) [] = GoEval.Ok (("b", vbyte b) :: EU i out, [], Run)) as ->.
    { unfold un_letb, EU. cbn. assert ((Z.of_nat i <? 0)%Z = false) as -> by (apply Z.ltb_ge; lia).
      rewrite Nat2Z.id, Eb. reflexivity. }
    cbn [stopped]. rewrite exec_cons, (un_decode_run i out b r Es). cbn [stopped].
    rewrite un_store_run.
    - reflexivity.
    - lia.
    - intros E. pose proof (ustep_zero b r) as Z0.
      assert (snd (ustep b r) = 0) as K by lia. rewrite (Z0 K), K, Nat.add_0_r. exact Eb.
  Qed.

  Definition un_cond : gexpr := Eval vm_compute in match un_w with SWhile c _ _ => c | _ => ENil end.
  Definition un_post : list gstmt := Eval vm_compute in match un_w with SWhile _ p _ => p | _ => [] end.
  Lemma un_while : forall fuel i out, i <= List.length s -> List.length out <= i -> List.length s - i < fuel ->
    while_loop (fun en buf => ev (Z.of_nat (List.length buf)) en un_cond) (in_scope un_lbody) (ex un_post) fuel (EU i out) []
    = GoEval.Ok (EU (List.length s) (out ++ unescape (skipn i s)), [], Run).
  Proof.
    induction fuel as [|fuel IH]; intros i out Hi Ho Hf; [lia|].
    rewrite while_S.
    assert (ev (Z.of_nat (List.length (@nil byte))) (EU i out) un_cond = GoEval.Ok (VBool (i <? List.length s)%nat)) as ->.
    { cbn. rewrite Zltb_ofnat. reflexivity. }
    destruct (Nat.ltb_spec i (List.length s)) as [Hlt|Hge].
    - destruct (nth_error_lt s i Hlt) as [b Eb]. pose proof (skipn_nth s i b Eb) as Es.
      rewrite (un_lbody_run i out b (skipn (S i) s) Es Ho). cbn [stopped andb].
      pose proof (ustep_bound b (skipn (S i) s)) as Hk. rewrite skipn_length in Hk.
      set (k := snd (ustep b (skipn (S i) s))) in *. set (o := fst (ustep b (skipn (S i) s))).
      assert (ex un_post (EU (i + k) (out ++ [o])) [] = GoEval.Ok (EU (S (i + k)) (out ++ [o]), [], Run)) as ->.
      { cbn. unfold EU, vnat. rewrite Nat2Z.inj_succ. reflexivity. }
      rewrite IH by (rewrite ?app_length; cbn [List.length]; lia).
      rewrite Es, unescape_cons. fold k o. rewrite <- app_assoc. cbn [List.app].
      replace (S (i + k)) with (S i + k) by lia. rewrite skipn_add. reflexivity.
    - assert (i = List.length s) as -> by lia. rewrite skipn_all. change (unescape []) with (@nil byte).
      rewrite app_nil_r. reflexivity.
  Qed.

  Lemma unescape_length_le : forall n t, List.length t <= n -> List.length (unescape t) <= List.length t.
  Proof.
    induction n as [|n IH]; intros t Ht.
    - destruct t; [cbn; lia|cbn in Ht; lia].
    - destruct t as [|b r]; [cbn; lia|]. rewrite unescape_cons. cbn [List.length] in *.
      pose proof (ustep_bound b r) as Hk.
      specialize (IH (skipn (snd (ustep b r)) r)). rewrite skipn_length in IH. lia.
  Qed.

  Lemma unescape_run :
    exists en, ex un_body [("s", VStr s); ("$fuel", vnat N)] [] = GoEval.Ok (en, [], Ret (VStr (unescape s))).
  Proof.
    unfold un_body. rewrite exec_cons. cbn -[exec]. rewrite Hcontains.
    destruct (contains_rune s 92) as [[|]|] eqn:Ec; [| |discriminate Ec || (unfold contains_rune in Ec; discriminate Ec)].
    2: { cbn. rewrite Hbytes. cbn. rewrite (no_backslash_unescape s Ec). eexists. reflexivity. }
    cbn -[exec]. rewrite exec_cons. cbn -[exec]. rewrite exec_cons. cbn -[exec]. rewrite Hbytes. cbn -[exec].
    rewrite exec_cons. change (SBlock _) with un_loop.
    unfold un_loop. rewrite exec1_block. unfold EncRefinement.in_scope. rewrite exec_cons.
    change (ex1 (SLet true ["i"] (EConst "" 0%Z)) [("buf", VStr s); ("j", VInt 0); ("s", VStr s); ("$fuel", vnat N)] [])
      with (GoEval.Ok (EU 0 [], @nil byte, Run)).
    cbn [stopped]. rewrite exec_cons. fold un_w. unfold un_w. rewrite exec1_while. fold un_lbody un_cond un_post.
    change (lookup loop_fuel_var (EU 0 [])) with (Some (VInt (Z.of_nat N))). cbv iota beta. rewrite Nat2Z.id.
    rewrite un_while by (cbn [List.length]; lia).
    cbn [List.app skipn]. pose proof (unescape_length_le _ s (le_n _)) as Hle.
    set (out := unescape s) in *. unfold EU. cbn.
    change (0 <? 0)%Z with false. change (Z.to_nat 0) with 0%nat. rewrite Z.sub_0_r, Nat2Z.id.
    assert ((Z.of_nat (List.length out) <? 0)%Z = false) as -> by (apply Z.ltb_ge; lia).
    assert ((Z.of_nat (List.length (out ++ skipn (List.length out) s)) <? Z.of_nat (List.length out))%Z = false) as ->
      by (apply Z.ltb_ge; rewrite app_length; lia).
    cbn. rewrite firstn_app, Nat.sub_diag, firstn_all. cbn [firstn]. rewrite app_nil_r. eexists. reflexivity.
  Qed.
End Unescape.

Lemma lib_byte g d z : enc_call g (S d) "" "byte" (VInt z) = GoEval.Ok (VInt (z mod 256)).
Proof. reflexivity. Qed.
Lemma lib_has_suffix g d a suf : enc_call g (S d) "" "strings.HasSuffix" (VTuple [VStr a; VStr suf]) = GoEval.Ok (VBool (has_suffix a suf)).
Proof. reflexivity. Qed.
Lemma find_unescape : find_in enc_bodies "" "Unescape"
  = Some {| p_pkg := "enc"; p_type := ""; p_method := "Unescape"; p_recv := "s"; p_body := un_body |}.
Proof. reflexivity. Qed.
Lemma unescape_at N d s : List.length s < N ->
  enc_call (fuel_env N) (S (S (S d))) "" "Unescape" (VStr s) = GoEval.Ok (VStr (unescape s)).
Proof.
  intros HN. rewrite call_table_lib_S, find_unescape. unfold run_body. cbn [p_recv p_body].
  change (split_commas "s") with ["s"]. unfold fuel_env. cbn [List.app].
  destruct (unescape_run N (enc_call (fuel_env N) (S (S d))) (unhex_generated N d) (lib_byte _ _) (lib_bytes _ _)
              (lib_contains_rune _ _) s HN) as [en Hen].
  unfold vnat, fuel_env in Hen. change loop_fuel_var with "$fuel" in *. rewrite Hen. reflexivity.
Qed.
Theorem generated_unescape_is_model : forall s : bytes, run_enc "Unescape" [VStr s] = GoEval.Ok (VStr (unescape s)).
Proof. intros s. unfold run_enc, enc_depth. apply unescape_at. cbn [args_len]. lia. Qed.
Print Assumptions generated_unescape_is_model.

(* Unquote panics unless s is at least two bytes long and begins and ends with a double quote *)
Lemma unquote_at N d s : List.length s < N ->
  enc_call (fuel_env N) (S (S (S (S d)))) "" "Unquote" (VStr s)
  = if is_quoted s then GoEval.Ok (VStr (unescape (removelast (tl s)))) else Fail "panic".
Proof.
  intros HN. rewrite call_table_lib_S. cbn. unfold run_body. cbn.
  destruct s as [|b r]; [reflexivity|].
  destruct (exists_last (l := b :: r)) as (m & e & Em); [discriminate|].
  destruct m as [|b' r'].
  { (* one byte *) cbn in Em. injection Em as -> ->. cbn. unfold is_quoted. cbn [rev]. rewrite andb_false_r. reflexivity. }
  cbn [List.app] in Em. injection Em as <- ->.
  unfold is_quoted. rewrite rev_snoc_head. cbn [tl]. rewrite removelast_snoc.
  replace (Z.of_nat (List.length (b :: r' ++ [e])) <? 2)%Z with false
    by (symmetry; apply Z.ltb_ge; cbn [List.length]; rewrite app_length; cbn [List.length]; lia).
  cbn. change (byte_eqb b x22) with (bN b =? 34)%N. rewrite andb_true_r.
  destruct (bN b =? 34)%N; cbn; [|reflexivity].
  rewrite lib_has_suffix. unfold has_suffix.
  replace (List.length (b :: r' ++ [e]) - List.length [x22]) with (List.length (b :: r')) by (cbn [List.length]; rewrite app_length; cbn [List.length]; lia).
  change (b :: r' ++ [e]) with ((b :: r') ++ [e]). rewrite skipn_app, skipn_all, Nat.sub_diag. cbn [List.app skipn bytes_eqb].
  change (byte_eqb e x22) with (bN e =? 34)%N. rewrite andb_true_r.
  destruct (bN e =? 34)%N; cbn; [|reflexivity].
  change (1 <? 0)%Z with false. cbn.
  rewrite app_length. cbn [List.length].
  match goal with |- context [((?a <? 1)%Z || (?c <? ?a)%Z)] =>
    replace ((a <? 1)%Z || (c <? a)%Z) with false by (symmetry; apply orb_false_iff; split; apply Z.ltb_ge; lia) end.
  replace (Z.to_nat (Z.of_nat (S (List.length r' + 1)) - 1 - 1)) with (List.length r') by lia.
  change (Z.to_nat 1) with 1%nat. cbn [skipn]. rewrite firstn_app, Nat.sub_diag, firstn_all. cbn [firstn]. rewrite app_nil_r.
  cbn. rewrite unescape_at; [reflexivity|]. cbn [List.length] in HN. rewrite app_length in HN. lia.
Qed.
Theorem generated_unquote_is_model : forall s : bytes,
  run_enc "Unquote" [VStr s] = if is_quoted s then GoEval.Ok (VStr (unescape (removelast (tl s)))) else Fail "panic".
Proof. intros s. unfold run_enc, enc_depth. apply unquote_at. cbn [args_len]. lia. Qed.
Print Assumptions generated_unquote_is_model.
Theorem generated_unhex_is_model : forall c : byte,
  run_enc "unhex" [vbyte c]
  = GoEval.Ok (VTuple (match unhex c with Some h => [VInt (Z.of_N h); VBool true] | None => [VInt 0; VBool false] end)).
Proof. destruct c; vm_compute; reflexivity. Qed.
Print Assumptions generated_unhex_is_model.
