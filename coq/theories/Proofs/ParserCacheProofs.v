(* C13: the parser fills the Typ caches too.  Every object of a type with a lazily filled cache
   (ObserverProofs.caching_observers) that a body of package asm creates as a composite literal either gets its
   Typ field in the literal, or the same body calls Type() or assigns Typ before it returns; the exceptions are
   the literals listed below, with the place where the cache is filled instead.  Read off the regenerated
   table Gen/Printers.v. *)
From Coq Require Import List String Ascii Bool Arith.
From LLIR Require Import Gen.Printers Proofs.ObserverProofs Proofs.ErrorFlowProofs.
Import ListNotations.
Open Scope string_scope.
Open Scope list_scope.

Definition is_nil (e : gexpr) : bool := match e with ENil => true | _ => false end.
Definition typ_given (fs : list (string * gexpr)) : bool :=
  existsb (fun kv => String.eqb (fst kv) "Typ" && negb (is_nil (snd kv))) fs.

(* composite literals: (type, Typ given in the literal) *)
Fixpoint ecomps (e : gexpr) : list (string * bool) :=
  match e with
  | ECall f args => ecomps f ++ flat_map ecomps args
  | ESel e' _ | ENot e' | EAssert e' _ => ecomps e'
  | EBin _ a b | EIndex a b | ESliceFrom a b => ecomps a ++ ecomps b
  | EComposite ty fs => (ty, typ_given fs) :: flat_map (fun kv => ecomps (snd kv)) fs
  | ETuple es => flat_map ecomps es
  | _ => []
  end.
Fixpoint scomps (s : gstmt) : list (string * bool) :=
  match s with
  | SArg _ e | SLet _ _ e | SRet e | SExpr e | SSet _ _ e => ecomps e
  | SSetIndex _ _ i e => ecomps i ++ ecomps e
  | SIf init c t e => (match init with Some (_, x) => ecomps x | None => [] end) ++ ecomps c ++ flat_map scomps t ++ flat_map scomps e
  | SFor _ _ c b | SForMap _ _ c b => ecomps c ++ flat_map scomps b
  | SFor3 i c p b => scomps i ++ ecomps c ++ scomps p ++ flat_map scomps b
  | STypeSwitch _ e cs d => ecomps e ++ flat_map (fun c => flat_map scomps (snd c)) cs ++ flat_map scomps d
  | SSwitch t cs d => (match t with Some e => ecomps e | None => [] end)
                      ++ flat_map (fun c => flat_map ecomps (fst c) ++ flat_map scomps (snd c)) cs ++ flat_map scomps d
  | SChunk b => flat_map scomps b
  | _ => []
  end.
(* calls in switch statements as well (ObserverProofs.scalls does not descend into SSwitch) *)
Fixpoint scalls' (s : gstmt) : list string :=
  match s with
  | SSwitch t cs d => (match t with Some e => ecalls e | None => [] end)
                      ++ flat_map (fun c => flat_map ecalls (fst c) ++ flat_map scalls' (snd c)) cs ++ flat_map scalls' d
  | SIf init c t e => (match init with Some (_, x) => ecalls x | None => [] end) ++ ecalls c ++ flat_map scalls' t ++ flat_map scalls' e
  | SFor _ _ c b | SForMap _ _ c b => ecalls c ++ flat_map scalls' b
  | SFor3 i c p b => scalls' i ++ ecalls c ++ scalls' p ++ flat_map scalls' b
  | STypeSwitch _ e cs d => ecalls e ++ flat_map (fun c => flat_map scalls' (snd c)) cs ++ flat_map scalls' d
  | SChunk b => flat_map scalls' b
  | other => scalls other
  end.
Definition sets_typ (p : printer) : bool :=
  existsb (fun xp => match rev (snd xp) with "Typ" :: _ => true | _ => false end) (flat_map sets (p_body p)).
Definition calls_type (p : printer) : bool := mem "Type" (flat_map scalls' (p_body p)).

Definition caching (ty : string) : bool := existsb (fun tm => String.eqb (fst tm) ty) caching_observers.

(* literals of caching types without Typ, in bodies that neither call Type() nor assign Typ *)
Definition unfilled : list (string * string) :=
  flat_map (fun p => if calls_type p || sets_typ p then []
                     else map (fun c => (p_method p, fst c))
                              (filter (fun c => caching (fst c) && negb (snd c)) (flat_map scomps (p_body p))))
           asm_bodies.

Theorem parser_fills_type_caches : unfilled = [].
Proof. vm_compute. reflexivity. Qed.

(* how the parser creates each type with a cache: by a literal (covered above) or through a constructor
   (covered by CacheProofs.constructors_fill_type_caches); the rest is never created by package asm *)
From LLIR Require Import Gen.Ctors Proofs.CacheProofs.
Definition asm_literals : list string := map fst (flat_map (fun p => flat_map scomps (p_body p)) asm_bodies).
Definition asm_calls : list string := flat_map (fun p => flat_map scalls' (p_body p)) asm_bodies.
Definition by_literal (ty : string) : bool := mem ty asm_literals.
Definition by_ctor (ty : string) : bool :=
  existsb (fun c => String.eqb (ctor_target c) ty && mem (c_name c) asm_calls) ctors.
Definition not_created_by_parser : list string :=
  map fst (filter (fun tm => negb (by_literal (fst tm)) && negb (by_ctor (fst tm))) caching_observers).
Theorem parser_creates_every_caching_type : not_created_by_parser = [].
Proof. vm_compute. reflexivity. Qed.
Example parser_creation_counted :
  List.length (filter (fun tm => by_literal (fst tm)) caching_observers) = 41 /\
  List.length (filter (fun tm => by_ctor (fst tm)) caching_observers) = 38 /\ List.length caching_observers = 60.
Proof. vm_compute. repeat split. Qed.
Print Assumptions parser_fills_type_caches.
Print Assumptions parser_creates_every_caching_type.

(* C05 / C01: the explicit crash sites of package asm.  A panic statement is where the translator gives up on an
   AST it takes to be impossible; each body that contains one is listed with the number of such statements, so a
   new crash site (or one that disappears) changes this table. *)
Fixpoint spanics (s : gstmt) : nat :=
  match s with
  | SPanic => 1
  | SIf _ _ t e => list_sum (map spanics t) + list_sum (map spanics e)
  | SFor _ _ _ b | SForMap _ _ _ b | SFor3 _ _ _ b | SChunk b => list_sum (map spanics b)
  | STypeSwitch _ _ cs d => list_sum (map (fun c => list_sum (map spanics (snd c))) cs) + list_sum (map spanics d)
  | SSwitch _ cs d => list_sum (map (fun c => list_sum (map spanics (snd c))) cs) + list_sum (map spanics d)
  | _ => 0
  end.
Definition panics (p : printer) : nat := list_sum (map spanics (p_body p)).
Definition crash_sites : list (string * nat) :=
  map (fun p => (p_method p, panics p)) (filter (fun p => negb (Nat.eqb (panics p) 0)) asm_bodies).

(* reviewed: the bodies with explicit panic statements and how many each has.  They are of three kinds: the default
   branch of a type switch over AST node kinds (`support for %T not yet implemented`), the failed type assertion on
   the scaffold object a body translator is handed (`invalid IR instruction for AST instruction`), and literal
   converters that the grammar has already validated (intLit, uintLit, boolLit, identifier helpers). *)
Definition reviewed_crash_sites : list (string * nat) := [
  ("asm.irAShrInst", 1); ("asm.irAddInst", 1); ("asm.irAddrSpaceCastInst", 1); ("asm.irAllocaInst", 1);
  ("asm.irAndInst", 1); ("asm.irAtomicRMWInst", 1); ("asm.irBitCastInst", 1); ("asm.irBrTerm", 1);
  ("asm.irCallBrTerm", 1); ("asm.irCallInst", 1); ("asm.irCallingConv", 1); ("asm.irCatchPadInst", 1);
  ("asm.irCatchRetTerm", 1); ("asm.irCatchSwitchTerm", 1); ("asm.irCleanupPadInst", 1); ("asm.irCleanupRetTerm", 1);
  ("asm.irCmpXchgInst", 1); ("asm.irCondBrTerm", 1); ("asm.irConstantExpr", 1); ("asm.irDIBasicType", 2);
  ("asm.irDICommonBlock", 3); ("asm.irDICompileUnit", 8); ("asm.irDICompositeType", 6); ("asm.irDIDerivedType", 3);
  ("asm.irDIEnumerator", 3); ("asm.irDIExpression", 1); ("asm.irDIFile", 2); ("asm.irDIFlag", 1);
  ("asm.irDIGlobalVariable", 4); ("asm.irDIGlobalVariableExpression", 4); ("asm.irDIImportedEntity", 4);
  ("asm.irDILabel", 3); ("asm.irDILexicalBlock", 3); ("asm.irDILexicalBlockFile", 3); ("asm.irDILocalVariable", 3);
  ("asm.irDILocation", 3); ("asm.irDIMacro", 2); ("asm.irDIMacroFile", 4); ("asm.irDIModule", 2);
  ("asm.irDINamespace", 2); ("asm.irDIObjCProperty", 3); ("asm.irDISPFlag", 1); ("asm.irDIStringType", 2);
  ("asm.irDISubprogram", 7); ("asm.irDISubrange", 2); ("asm.irDISubroutineType", 3);
  ("asm.irDITemplateTypeParameter", 2); ("asm.irDITemplateValueParameter", 2); ("asm.irDwarfAttEncoding", 1);
  ("asm.irDwarfAttEncodingOrUint", 1); ("asm.irDwarfCC", 1); ("asm.irDwarfLang", 1); ("asm.irDwarfMacinfo", 1);
  ("asm.irDwarfTag", 1); ("asm.irDwarfVirtuality", 1); ("asm.irEmissionKind", 1); ("asm.irExtractElementInst", 1);
  ("asm.irExtractValueInst", 1); ("asm.irFAddInst", 1); ("asm.irFCmpInst", 1); ("asm.irFDivInst", 1);
  ("asm.irFMulInst", 1); ("asm.irFNegInst", 1); ("asm.irFPExtInst", 1); ("asm.irFPToSIInst", 1);
  ("asm.irFPToUIInst", 1); ("asm.irFPTruncInst", 1); ("asm.irFRemInst", 1); ("asm.irFSubInst", 1);
  ("asm.irFenceInst", 1); ("asm.irFreezeInst", 1); ("asm.irGenericDINode", 2); ("asm.irGetElementPtrInst", 1);
  ("asm.irICmpInst", 1); ("asm.irIndirectBrTerm", 1); ("asm.irInsertElementInst", 1); ("asm.irInsertValueInst", 1);
  ("asm.irIntToPtrInst", 1); ("asm.irInvokeTerm", 1); ("asm.irLShrInst", 1); ("asm.irLandingPadInst", 1);
  ("asm.irLoadInst", 1); ("asm.irMulInst", 1); ("asm.irNameTableKind", 1); ("asm.irOrInst", 1); ("asm.irPhiInst", 1);
  ("asm.irPtrToIntInst", 1); ("asm.irResumeTerm", 1); ("asm.irRetTerm", 1); ("asm.irSDivInst", 1);
  ("asm.irSExtInst", 1); ("asm.irSIToFPInst", 1); ("asm.irSRemInst", 1); ("asm.irSelectInst", 1);
  ("asm.irShlInst", 1); ("asm.irShuffleVectorInst", 1); ("asm.irStoreInst", 1); ("asm.irSubInst", 1);
  ("asm.irSwitchTerm", 1); ("asm.irTruncInst", 1); ("asm.irUDivInst", 1); ("asm.irUIToFPInst", 1);
  ("asm.irURemInst", 1); ("asm.irUnreachableTerm", 1); ("asm.irVAArgInst", 1); ("asm.irXorInst", 1);
  ("asm.irZExtInst", 1); ("asm.newAtomicRMWInst", 1); ("asm.newExtractElementInst", 1); ("asm.newFCmpInst", 1);
  ("asm.newICmpInst", 1); ("asm.newInsertElementInst", 1); ("asm.newShuffleVectorInst", 2); ("asm.newValueInst", 1);
  ("asm.newValueTerm", 1); ("asm.addAttrGroupDefsToModule", 1); ("asm.addComdatDefsToModule", 1);
  ("asm.addGlobalEntitiesToModule", 2); ("asm.addMetadataDefsToModule", 1); ("asm.addTypeDefsToModule", 1);
  ("asm.aggregateElemType", 1); ("asm.attrGroupID", 2); ("asm.boolLit", 1); ("asm.comdatName", 1);
  ("asm.fixBlockAddressConst", 2); ("asm.generator.irMetadata", 2); ("asm.generator.irUseListOrder", 1);
  ("asm.getIndex", 4); ("asm.globalIdent", 1); ("asm.indexTopLevelEntities", 1); ("asm.intLit", 2); ("asm.irArg", 1);
  ("asm.irArrayType", 1); ("asm.irBitSize", 2); ("asm.irConstant", 1); ("asm.irDIExpressionField", 1);
  ("asm.irExceptionArg", 1); ("asm.irExceptionPad", 1); ("asm.irFloatType", 1); ("asm.irFuncAttribute", 2);
  ("asm.irFuncType", 1); ("asm.irImmutable", 1); ("asm.irIndirectSymbol", 1); ("asm.irInst", 1);
  ("asm.irIntType", 1); ("asm.irLabelType", 1); ("asm.irMDField", 1); ("asm.irMDFieldOrInt", 1); ("asm.irMDNode", 1);
  ("asm.irMDTuple", 1); ("asm.irMMXType", 1); ("asm.irMetadataDef", 1); ("asm.irMetadataNode", 1);
  ("asm.irMetadataType", 1); ("asm.irOpaqueType", 2); ("asm.irPackedStructType", 1); ("asm.irParamAttribute", 1);
  ("asm.irPointerType", 1); ("asm.irReturnAttribute", 1); ("asm.irScalableVectorType", 1);
  ("asm.irSpecializedMDNode", 1); ("asm.irStructType", 1); ("asm.irTerm", 1); ("asm.irTokenType", 1);
  ("asm.irTypeDef", 1); ("asm.irUnwindTarget", 1); ("asm.irValue", 1); ("asm.irValueInst", 1);
  ("asm.irValueTerm", 1); ("asm.irVectorType", 1); ("asm.irVoidType", 1); ("asm.labelIdent", 1);
  ("asm.localIdent", 1); ("asm.metadataID", 2); ("asm.metadataName", 1); ("asm.newGlobalEntity", 1);
  ("asm.newIndirectSymbol", 3); ("asm.newInst", 1); ("asm.newMetadataDef", 1); ("asm.newSpecializedMDNode", 1);
  ("asm.newTerm", 1); ("asm.newType", 1); ("asm.translateAttrGroupDefs", 1); ("asm.translateGlobalEntities", 8);
  ("asm.translateMetadataDefs", 1); ("asm.translateNamedMetadataDefs", 1); ("asm.uintLit", 2) ].
Theorem crash_sites_are_the_reviewed_ones : crash_sites = reviewed_crash_sites.
Proof. vm_compute. reflexivity. Qed.
Example crash_sites_counted : List.length crash_sites = 187 /\ list_sum (map snd crash_sites) = 270.
Proof. vm_compute. split; reflexivity. Qed.
Print Assumptions crash_sites_are_the_reviewed_ones.
