From Coq Require Import List Bool NArith Lia.
From LLIR Require Import Lib.Bytes Model.Types Model.ResultType.
Import ListNotations.

(* ---- ty_eqb decides equality ---- *)
Lemma fkind_eqb_spec a b : fkind_eqb a b = true <-> a = b.
Proof. destruct a, b; cbn; split; congruence. Qed.

Lemma ty_eqb_refl : forall t, ty_eqb t t = true.
Proof.
  fix IH 1. intros t. destruct t; cbn [ty_eqb]; try reflexivity.
  - apply N.eqb_refl.
  - apply fkind_eqb_spec; reflexivity.
  - rewrite IH, N.eqb_refl. reflexivity.
  - rewrite Bool.eqb_reflx, N.eqb_refl, IH. reflexivity.
  - rewrite N.eqb_refl, IH. reflexivity.
  - rewrite Bool.eqb_reflx. cbn [andb]. induction fields as [|x r IHr]; [reflexivity|]. rewrite IH. exact IHr.
  - apply bytes_eqb_refl.
  - rewrite IH, Bool.eqb_reflx, andb_true_r. cbn [andb].
    induction params as [|x r IHr]; [reflexivity|]. rewrite IH. exact IHr.
Qed.

Lemma ty_eqb_eq : forall t u, ty_eqb t u = true -> t = u.
Proof.
  fix IH 1. intros t u. destruct t, u; cbn [ty_eqb]; try discriminate; try reflexivity; intros H.
  - apply N.eqb_eq in H. congruence.
  - apply fkind_eqb_spec in H. congruence.
  - apply andb_prop in H as [H1 H2]. apply IH in H1. apply N.eqb_eq in H2. congruence.
  - apply andb_prop in H as [H12 H3]. apply andb_prop in H12 as [H1 H2].
    apply Bool.eqb_prop in H1. apply N.eqb_eq in H2. apply IH in H3. congruence.
  - apply andb_prop in H as [H1 H2]. apply N.eqb_eq in H1. apply IH in H2. congruence.
  - apply andb_prop in H as [H1 H2]. apply Bool.eqb_prop in H1. subst. f_equal.
    revert fields0 H2. induction fields as [|x r IHr]; intros [|y r'] H2; try discriminate; [reflexivity|].
    apply andb_prop in H2 as [Hx Hr]. apply IH in Hx. apply IHr in Hr. congruence.
  - apply bytes_eqb_spec in H. congruence.
  - apply andb_prop in H as [H12 H3]. apply andb_prop in H12 as [H1 H2].
    apply IH in H1. apply Bool.eqb_prop in H3. subst. f_equal.
    revert params0 H2. induction params as [|x r IHr]; intros [|y r'] H2; try discriminate; [reflexivity|].
    apply andb_prop in H2 as [Hx Hr]. apply IH in Hx. apply IHr in Hr. congruence.
Qed.

Theorem ty_eqb_spec t u : ty_eqb t u = true <-> t = u.
Proof. split; [apply ty_eqb_eq | intros ->; apply ty_eqb_refl]. Qed.

Section Agreement.
  Variable bodies : env.

  Lemma agg_llvm_ir t : forall idx e, agg_elem_llvm bodies t idx = Some e -> agg_elem_ir bodies t idx = Ok e.
  Proof.
    intros idx; revert t. induction idx as [|i r IH]; intros t e; cbn; [intros [= ->]; reflexivity|].
    destruct t; try discriminate.
    - destruct (N.ltb i len); [apply IH|discriminate].
    - destruct (nth_error fields (N.to_nat i)); [apply IH|discriminate].
    - destruct (bodies name) as [fs|]; [|discriminate]. destruct (nth_error fs (N.to_nat i)); [apply IH|discriminate].
  Qed.
  Lemma agg_llvm_asm t : forall idx e, agg_elem_llvm bodies t idx = Some e -> agg_elem_asm bodies t idx = Ok e.
  Proof.
    intros idx; revert t. induction idx as [|i r IH]; intros t e; cbn; [intros [= ->]; reflexivity|].
    destruct t; try discriminate.
    - destruct (N.ltb i len); [apply IH|discriminate].
    - destruct (nth_error fields (N.to_nat i)); [apply IH|discriminate].
    - destruct (bodies name) as [fs|]; [|discriminate]. destruct (nth_error fs (N.to_nat i)); [apply IH|discriminate].
  Qed.

  (* C06, partial: wherever LLVM assigns a type and no scalable vector is rebuilt,
     package ir and the parser compute exactly LLVM's type *)
  Theorem result_types_agree s t : llvm_type bodies s = Some t -> scalable_rebuilt s = false ->
    ir_type bodies s = Ok t /\ asm_type bodies s = Ok t.
  Proof.
    destruct s; cbn [llvm_type ir_type asm_type scalable_rebuilt]; intros H NS.
    - injection H as <-. split; reflexivity.
    - injection H as <-. split; reflexivity.
    - injection H as <-. split; reflexivity.
    - injection H as <-. split; reflexivity.
    - injection H as <-. split; reflexivity.
    - destruct dst; try discriminate. injection H as <-. split; reflexivity.
    - destruct x; try discriminate; try (injection H as <-; split; reflexivity).
      destruct scalable; [discriminate|]. destruct x; try discriminate; injection H as <-; split; reflexivity.
    - destruct x; try discriminate; try (injection H as <-; split; reflexivity).
      destruct scalable; [discriminate|]. destruct x; try discriminate; injection H as <-; split; reflexivity.
    - destruct incoming as [|t0 r]; cbn [forallb andb negb] in H; [discriminate|].
      destruct (ty_eqb declared t0) eqn:E; cbn [andb] in H; [|discriminate].
      destruct (forallb (ty_eqb declared) r); cbn in H; [|discriminate]. injection H as <-.
      apply ty_eqb_eq in E. subst. split; reflexivity.
    - destruct callee; try discriminate. destruct callee; try discriminate.
      destruct written; cbn [callee_ret];
        try (destruct (ty_eqb _ callee) eqn:E; [|discriminate]; injection H as <-; apply ty_eqb_eq in E; subst; split; reflexivity).
      destruct (ty_eqb (TFunc callee params variadic) (TFunc written params0 variadic0)) eqn:E; [|discriminate].
      injection H as <-. apply ty_eqb_eq in E. injection E as -> -> ->. split; reflexivity.
    - destruct x; try discriminate. injection H as <-. split; reflexivity.
    - destruct x; try discriminate. injection H as <-. split; reflexivity.
    - destruct x; try discriminate. destruct mask; try discriminate.
      destruct scalable; [discriminate|]. destruct scalable0; [discriminate|].
      destruct mask; try discriminate.
      destruct bits as [|p]; try discriminate.
      do 6 (destruct p as [p|p|]; try discriminate).
      cbn in H. injection H as <-. split; reflexivity.
    - destruct indices as [|i r]; [discriminate|]. split; [apply agg_llvm_ir|apply agg_llvm_asm]; exact H.
    - injection H as <-. split; reflexivity.
  Qed.
End Agreement.

(* C06 refuted on the current source for scalable vectors: witnesses per rule *)
Theorem icmp_scalable_refuted :
  exists s t, llvm_type (fun _ => None) s = Some t /\ ir_type (fun _ => None) s <> Ok t /\ asm_type (fun _ => None) s <> Ok t.
Proof. exists (ICmp (TVec true 4 (TInt 32))), (TVec true 4 (TInt 1)). repeat split; cbn; congruence. Qed.
Theorem shuffle_scalable_refuted :
  exists s t, llvm_type (fun _ => None) s = Some t /\ ir_type (fun _ => None) s <> Ok t.
Proof.
  exists (ShuffleVector (TVec true 4 (TInt 8)) (TVec true 4 (TInt 32))), (TVec true 4 (TInt 8)).
  repeat split; cbn; congruence.
Qed.
Print Assumptions result_types_agree.
