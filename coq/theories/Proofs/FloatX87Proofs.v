From Coq Require Import ZArith Bool Lia.
From LLIR Require Import Model.FloatBits Model.FloatX87 Proofs.FloatBitsProofs.
Local Open Scope Z_scope.

Lemma int_bit_val : int_bit = 9223372036854775808. Proof. reflexivity. Qed.
Lemma pow64_val : 2 ^ 64 = 18446744073709551616. Proof. reflexivity. Qed.
Lemma pow63_val : 2 ^ 63 = 9223372036854775808. Proof. reflexivity. Qed.

(* canonical encodings survive read-then-print bit for bit *)
Theorem roundtrip80 s E m : canonical80 E m -> encode80 (decode80 s E m) = Some (s, E, m).
Proof.
  unfold canonical80, decode80. rewrite int_bit_val, pow64_val.
  intros [[-> Hm]|[[HE Hm]|[-> ->]]].
  - (* zero and denormals *)
    cbn [Z.eqb]. destruct m as [|p|p]; [reflexivity| |lia].
    unfold norm. cbn [encode80].
    pose proof (odd_part_spec p) as OP. pose proof (log2_odd_part p) as LG. pose proof (ctz_nonneg p) as CT.
    assert (Z.log2 (Zpos p) < 63) as LM by (apply Z.log2_lt_pow2; [lia|rewrite pow63_val; lia]).
    pose proof (Z.log2_nonneg (Zpos p)) as L0.
    unfold bias80.
    assert ((-16382 - 63 + ctz p + Z.log2 (Zpos (odd_part p)) + 16383 <=? 0) = true) as -> by (apply Z.leb_le; lia).
    assert ((-16382 - 63 + ctz p + Z.log2 (Zpos (odd_part p)) + 16383 <=? -63) = false) as -> by (apply Z.leb_gt; lia).
    replace (-16382 - 63 + ctz p + 16382 + 63) with (ctz p) by lia. rewrite <- OP.
    rewrite Z.mod_small by (rewrite pow63_val; lia). reflexivity.
  - (* normal numbers: the integer bit is set *)
    assert ((E =? 32767) = false) as -> by (apply Z.eqb_neq; lia).
    assert ((E =? 0) = false) as -> by (apply Z.eqb_neq; lia).
    destruct m as [|p|p]; try lia.
    unfold norm. cbn [encode80].
    pose proof (odd_part_spec p) as OP. pose proof (log2_odd_part p) as LG. pose proof (ctz_nonneg p) as CT.
    assert (Z.log2 (Zpos p) = 63) as LM by (apply Z.log2_unique; [lia|rewrite pow63_val; change (2 ^ Z.succ 63) with 18446744073709551616; lia]).
    unfold bias80.
    replace (E - 16383 - 63 + ctz p + Z.log2 (Zpos (odd_part p)) + 16383) with E by lia.
    assert ((E <=? 0) = false) as -> by (apply Z.leb_gt; lia).
    assert ((32767 <? E) = false) as -> by (apply Z.ltb_ge; lia).
    assert ((E - 16383 - 63 + ctz p <? E - 16383 - 63 + ctz p + Z.log2 (Zpos (odd_part p)) - 63) = false) as -> by (apply Z.ltb_ge; lia).
    replace (63 - Z.log2 (Zpos (odd_part p))) with (ctz p) by lia. rewrite <- OP. reflexivity.
  - reflexivity.
Qed.

(* pseudo-denormals (field 0, integer bit set) are re-encoded with field 1: the same value for LLVM too *)
Theorem pseudo_denormal80 s m : int_bit <= m < 2 ^ 64 -> encode80 (decode80 s 0 m) = Some (s, 1, m).
Proof.
  rewrite int_bit_val, pow64_val. intros Hm. unfold decode80. cbn [Z.eqb]. destruct m as [|p|p]; try lia.
  unfold norm. cbn [encode80].
  pose proof (odd_part_spec p) as OP. pose proof (log2_odd_part p) as LG. pose proof (ctz_nonneg p) as CT.
  assert (Z.log2 (Zpos p) = 63) as LM by (apply Z.log2_unique; [lia|rewrite pow63_val; change (2 ^ Z.succ 63) with 18446744073709551616; lia]).
  unfold bias80.
  replace (-16382 - 63 + ctz p + Z.log2 (Zpos (odd_part p)) + 16383) with 1 by lia. cbn [Z.leb Z.ltb Z.compare].
  assert ((-16382 - 63 + ctz p <? -16382 - 63 + ctz p + Z.log2 (Zpos (odd_part p)) - 63) = false) as -> by (apply Z.ltb_ge; lia).
  replace (63 - Z.log2 (Zpos (odd_part p))) with (ctz p) by lia. rewrite <- OP. reflexivity.
Qed.

(* NaN: every payload becomes the one quiet NaN *)
Theorem nan80_canonicalised s m : m <> int_bit -> encode80 (decode80 s 0x7FFF m) = Some (s, 0x7FFF, qnan80).
Proof. intros H. unfold decode80. cbn [Z.eqb Pos.eqb]. apply Z.eqb_neq in H. rewrite H. reflexivity. Qed.

(* which encodings are NaNs: the library agrees with LLVM except on unnormals *)
Lemma norm_not_nan s p e : is_nan (norm s p e) = false. Proof. reflexivity. Qed.
Theorem nan_class80_partial s E m : 0 <= E <= 0x7FFF -> 0 <= m -> unnormal80 E m = false ->
  is_nan (decode80 s E m) = llvm_is_nan80 E m.
Proof.
  intros HE Hm. unfold unnormal80, llvm_is_nan80, decode80.
  destruct (E =? 32767) eqn:E1; cbn [negb andb orb].
  - destruct (m =? int_bit); reflexivity.
  - destruct (E =? 0) eqn:E0; cbn [negb andb].
    + intros _. destruct m; reflexivity.
    + intros ->. destruct m; reflexivity.
Qed.
(* full statement, false of the code: forall s E m, 0 <= E <= 0x7FFF -> 0 <= m < 2 ^ 64 ->
   is_nan (decode80 s E m) = llvm_is_nan80 E m *)
(* KF-27: an unnormal is a NaN for LLVM and a number for the library, which prints it re-normalised *)
Theorem nan_class80_refuted : exists s E m, 0 <= E <= 0x7FFF /\ 0 <= m < 2 ^ 64 /\
  is_nan (decode80 s E m) <> llvm_is_nan80 E m /\ encode80 (decode80 s E m) = Some (false, 0x3FC1, int_bit).
Proof. exists false, 0x4000, 1. vm_compute. repeat split; congruence. Qed.

Print Assumptions roundtrip80.
Print Assumptions nan_class80_partial.
