(* C07: internal/gep.ResultType, regenerated from the Go source and run by Model/GoEval.v on
   reified types and indices, computes the hand-written walker of Model/Gep.v (result_type),
   panics included -- for every element type, source type and index list. *)
From Coq Require Import List String ZArith NArith Bool Lia.
From Coq Require Import Strings.Byte.
From LLIR Require Import Lib.Bytes Model.Types Model.TypeString Model.Gep Model.GoEval Gen.Printers Proofs.PrinterRefinement.
Import ListNotations.
Open Scope string_scope.

Definition reify_idx (ix : index) : GoEval.val :=
  VObj "gep.Index" [("HasVal", VBool (has_val ix)); ("Val", VInt (Gep.val ix)); ("VectorLen", VInt (Z.of_N (vector_len ix)))].

(* identified struct types are opaque here: their bodies are not part of the reified type *)
Definition no_bodies : Gep.env := fun _ => None.

Definition expect (o : Gep.outcome ty) : res GoEval.val :=
  match o with Gep.Ok t => GoEval.Ok (reify_ty t) | Gep.Panic => Fail "panic" end.

Definition run_gep (elem src : ty) (idxs : list index) : res GoEval.val :=
  call_printer impl [] 1 "" "gep.ResultType" (VTuple [reify_ty elem; reify_ty src; VList (map reify_idx idxs)]).

(* the generated body, and its loop *)
Definition gep_body : list gstmt :=
  Eval vm_compute in match find_printer "" "gep.ResultType" with Some p => p_body p | None => [] end.
Definition loop_body : list gstmt :=
  Eval vm_compute in match nth 4 gep_body SStop with SFor _ _ _ b => b | _ => [] end.

Example gep_examples :
  let S1 := TStruct false [TInt 32; TArr 4 (TFloat FDouble); TPtr (TInt 8) 0] in
  run_gep S1 (TPtr S1 0) [new_index 0; new_index 1; no_val 0] = expect (result_type no_bodies S1 (TPtr S1 0) [new_index 0; new_index 1; no_val 0])
  /\ run_gep S1 (TPtr S1 3) [new_index 0; new_index 2] = expect (result_type no_bodies S1 (TPtr S1 3) [new_index 0; new_index 2])
  /\ run_gep (TInt 32) (TVec true 4 (TPtr (TInt 32) 0)) [no_val 0] = expect (result_type no_bodies (TInt 32) (TVec true 4 (TPtr (TInt 32) 0)) [no_val 0])
  /\ run_gep S1 (TPtr S1 0) [new_index 0; no_val 0] = expect (result_type no_bodies S1 (TPtr S1 0) [new_index 0; no_val 0])
  /\ run_gep S1 (TPtr S1 0) [new_index 0; new_index (-1)] = expect (result_type no_bodies S1 (TPtr S1 0) [new_index 0; new_index (-1)])
  /\ run_gep S1 (TPtr S1 0) [new_index 0; new_index 7] = expect (result_type no_bodies S1 (TPtr S1 0) [new_index 0; new_index 7])
  /\ run_gep (TInt 8) (TInt 8) [] = expect (result_type no_bodies (TInt 8) (TInt 8) [])
  /\ run_gep (TInt 8) (TPtr (TInt 8) 0) [no_val 4; no_val 8] = expect (result_type no_bodies (TInt 8) (TPtr (TInt 8) 0) [no_val 4; no_val 8]).
Proof. vm_compute. repeat split. Qed.

(* ---- one iteration of the loop ---- *)
Definition iter (first : bool) (e : ty) (rvl : N) (ix : index) : Gep.outcome (ty * N) :=
  match merge_len rvl ix with
  | Gep.Panic => Gep.Panic
  | Gep.Ok rvl' =>
    if first then Gep.Ok (e, rvl')
    else match step_type no_bodies e ix with Gep.Ok e' => Gep.Ok (e', rvl') | Gep.Panic => Gep.Panic end
  end.

Definition frame (e : ty) (rvl a : N) (rest : env) : env :=
  ("e", reify_ty e) :: ("resultVectorLength", VInt (Z.of_N rvl)) :: ("addrSpace", VEnum "types.AddrSpace" (Z.of_N a)) :: rest.

Lemma Zeqb_ofN_0 a : (Z.of_N a =? 0)%Z = (a =? 0)%N.
Proof. destruct a; reflexivity. Qed.
Lemma Zeqb_ofN a b : (Z.of_N a =? Z.of_N b)%Z = (a =? b)%N.
Proof. destruct (N.eqb_spec a b) as [->|H]; [apply Z.eqb_refl|apply Z.eqb_neq; lia]. Qed.

Local Arguments truncate : simpl nomatch.
Local Arguments app : simpl nomatch.

Ltac split_eqb :=
  repeat match goal with
  | |- context [(?a =? ?b)%N] => destruct (a =? b)%N eqn:?
  end.

(* running a statement list in two parts *)
Lemma exec_app impl call (a b : list gstmt) : forall en buf,
  exec impl call (a ++ b) en buf =
  match exec impl call a en buf with
  | GoEval.Ok (en1, buf1, fl) => if stopped fl then GoEval.Ok (en1, buf1, fl) else exec impl call b en1 buf1
  | Fail w => Fail w
  end.
Proof.
  induction a as [|s r IH]; intros en buf; [reflexivity|].
  change ((s :: r) ++ b)%list with (s :: (r ++ b))%list.
  unfold exec at 1 2. fold (exec impl call (r ++ b)). fold (exec impl call r).
  destruct (exec1 impl call s en buf) as [[[en1 buf1] fl]|w]; [|reflexivity].
  destruct (stopped fl) eqn:E; [rewrite E; reflexivity|]. apply IH.
Qed.

Definition body_merge : list gstmt := Eval vm_compute in firstn 2 loop_body.
Definition body_step : list gstmt := Eval vm_compute in skipn 2 loop_body.
Lemma loop_body_split : loop_body = (body_merge ++ body_step)%list.
Proof. reflexivity. Qed.

Section Iter.
  Variable call : string -> string -> GoEval.val -> res GoEval.val.
  Variables v1 v2 v3 : GoEval.val.
  Let rest : env := [("elemType", v1); ("src", v2); ("indices", v3)].

  (* the bookkeeping of the result vector length: the same for every element type *)
  Lemma merge_part (ve : GoEval.val) rvl a ix i :
    exec impl call body_merge (("index", reify_idx ix) :: ("i", VInt i) :: ("e", ve) :: ("resultVectorLength", VInt (Z.of_N rvl)) :: ("addrSpace", VEnum "types.AddrSpace" (Z.of_N a)) :: rest) [] =
    match merge_len rvl ix with
    | Gep.Ok rvl' => GoEval.Ok (("index", reify_idx ix) :: ("i", VInt i) :: ("e", ve) :: ("resultVectorLength", VInt (Z.of_N rvl')) :: ("addrSpace", VEnum "types.AddrSpace" (Z.of_N a)) :: rest, [], Run)
    | Gep.Panic => Fail "panic"
    end.
  Proof.
    unfold merge_len, body_merge, exec, rest. cbn. rewrite !Zeqb_ofN_0, !Zeqb_ofN.
    split_eqb; cbn; rewrite ?Zeqb_ofN_0, ?Zeqb_ofN; split_eqb; cbn; try reflexivity; try congruence.
  Qed.

  Lemma nth_error_obj fs n : nth_error (map (fun e : ty => VObj (tyname e) (tfields e)) fs) n = option_map reify_ty (nth_error fs n).
  Proof. revert n. induction fs as [|f r IH]; intros [|n]; cbn; try reflexivity. apply IH. Qed.

  (* the first index only takes part in the bookkeeping *)
  Lemma step_part_first e rvl a ix :
    exec impl call body_step (("index", reify_idx ix) :: ("i", VInt 0) :: frame e rvl a rest) [] =
    GoEval.Ok (("index", reify_idx ix) :: ("i", VInt 0) :: frame e rvl a rest, [], Cont).
  Proof. reflexivity. Qed.

  (* every later index steps into the element type *)
  Lemma step_part_next e rvl a ix p :
    exec impl call body_step (("index", reify_idx ix) :: ("i", VInt (Zpos p)) :: frame e rvl a rest) [] =
    match step_type no_bodies e ix with
    | Gep.Ok e' => GoEval.Ok (("index", reify_idx ix) :: ("i", VInt (Zpos p)) :: frame e' rvl a rest, [], Run)
    | Gep.Panic => Fail "panic"
    end.
  Proof.
    unfold step_type, struct_field, no_bodies, body_step, exec, frame, rest.
    destruct e; cbn; try reflexivity.
    - (* literal struct *)
      destruct (has_val ix); cbn; [|reflexivity].
      destruct (Gep.val ix <? 0)%Z; cbn; [reflexivity|].
      rewrite nth_error_obj. destruct (nth_error fields (Z.to_nat (Gep.val ix))); reflexivity.
    - (* identified struct: opaque here *)
      destruct (has_val ix); cbn; reflexivity.
  Qed.

  (* one iteration *)
  Lemma iteration e rvl a ix i : (0 <= i)%Z ->
    exists fl, stopped fl && negb (is_cont fl) = false /\
    exec impl call loop_body (("index", reify_idx ix) :: ("i", VInt i) :: frame e rvl a rest) [] =
    match iter (i =? 0)%Z e rvl ix with
    | Gep.Ok (e', rvl') => GoEval.Ok (("index", reify_idx ix) :: ("i", VInt i) :: frame e' rvl' a rest, [], fl)
    | Gep.Panic => Fail "panic"
    end.
  Proof.
    intros Hi. rewrite loop_body_split, exec_app. unfold frame at 1. rewrite merge_part. unfold iter.
    destruct (merge_len rvl ix) as [rvl'|]; [|exists Run; split; reflexivity].
    cbn [stopped]. fold (frame e rvl' a rest).
    destruct i as [|p|p]; [| |lia].
    - exists Cont. split; [reflexivity|]. rewrite step_part_first. reflexivity.
    - exists Run. split; [reflexivity|]. rewrite step_part_next. cbn [Z.eqb].
      destruct (step_type no_bodies e ix); reflexivity.
  Qed.
End Iter.

Local Arguments for_loop : simpl never.

Lemma walk_iter first e ix r rvl :
  walk no_bodies first e (ix :: r) rvl =
  match iter first e rvl ix with Gep.Ok (e', rvl') => walk no_bodies false e' r rvl' | Gep.Panic => Gep.Panic end.
Proof.
  cbn [walk]. unfold iter. destruct (merge_len rvl ix); [|reflexivity].
  destruct first; [reflexivity|]. destruct (step_type no_bodies e ix); reflexivity.
Qed.

Section Loop.
  Variable call : string -> string -> GoEval.val -> res GoEval.val.
  Variables v1 v2 v3 : GoEval.val.
  Let rest : env := [("elemType", v1); ("src", v2); ("indices", v3)].

  (* the loop body in its scope, as the SFor case of the evaluator runs it *)
  Definition B : env -> bytes -> res (env * bytes * flow) :=
    fun en buf => match exec impl call loop_body en buf with
                  | GoEval.Ok (en1, buf1, stop) => GoEval.Ok (truncate (List.length en) en1, buf1, stop)
                  | Fail w => Fail w
                  end.

  Lemma gep_loop a : forall idxs i e rvl, (0 <= i)%Z ->
    for_loop B "i" "index" (map reify_idx idxs) i (frame e rvl a rest) [] =
    match walk no_bodies (i =? 0)%Z e idxs rvl with
    | Gep.Ok (e', rvl') => GoEval.Ok (frame e' rvl' a rest, [], Run)
    | Gep.Panic => Fail "panic"
    end.
  Proof.
    induction idxs as [|ix r IH]; intros i e rvl Hi; [reflexivity|].
    rewrite walk_iter. cbn [map]. unfold for_loop; fold for_loop.
    change (loop_env "i" "index" i (reify_idx ix) (frame e rvl a rest)) with (("index", reify_idx ix) :: ("i", VInt i) :: frame e rvl a rest).
    unfold B at 1. unfold rest in *. destruct (iteration call v1 v2 v3 e rvl a ix i Hi) as (fl & Hfl & ->).
    destruct (iter (i =? 0)%Z e rvl ix) as [[e' rvl']|]; [|reflexivity].
    rewrite Hfl.
    match goal with |- for_loop _ _ _ _ _ ?en _ = _ => change en with (frame e' rvl' a [("elemType", v1); ("src", v2); ("indices", v3)]) end.
    rewrite IH by lia. assert ((i + 1 =? 0)%Z = false) as -> by (apply Z.eqb_neq; lia). reflexivity.
  Qed.
End Loop.

(* ---- the whole body: prologue, loop, epilogue ---- *)
Definition body_pre : list gstmt := Eval vm_compute in firstn 4 gep_body.
Definition body_post : list gstmt := Eval vm_compute in skipn 5 gep_body.
Lemma gep_body_split : gep_body = (body_pre ++ [SFor "i" "index" (EId "indices") loop_body] ++ body_post)%list.
Proof. reflexivity. Qed.

Section Whole.
  Variable call : string -> string -> GoEval.val -> res GoEval.val.

  Definition start (src : ty) : Gep.outcome (N * N) :=
    match src with
    | TPtr _ a => Gep.Ok (a, 0%N)
    | TVec _ len (TPtr _ a) => Gep.Ok (a, len)
    | _ => Gep.Panic
    end.

  Lemma pre_part elem src (vi : GoEval.val) :
    exec impl call body_pre [("elemType", reify_ty elem); ("src", reify_ty src); ("indices", vi)] [] =
    match start src with
    | Gep.Ok (a, rvl0) => GoEval.Ok (frame elem rvl0 a [("elemType", reify_ty elem); ("src", reify_ty src); ("indices", vi)], [], Run)
    | Gep.Panic => Fail "panic"
    end.
  Proof.
    unfold body_pre, exec, start, frame. destruct src; try reflexivity.
    destruct src; reflexivity.
  Qed.

  Lemma post_part e rvl a (v1 v2 v3 : GoEval.val) :
    exists en', exec impl call body_post (frame e rvl a [("elemType", v1); ("src", v2); ("indices", v3)]) [] =
    GoEval.Ok (en', [], Ret (reify_ty (if (rvl =? 0)%N then TPtr e a else TVec false rvl (TPtr e a)))).
  Proof.
    unfold body_post, exec, frame. cbn. rewrite Zeqb_ofN_0. destruct (rvl =? 0)%N; cbn; eexists; reflexivity.
  Qed.
End Whole.


(* the SFor statement runs the loop lemma's loop *)
Lemma loop_stmt call (en : env) (idxs : list index) :
  lookup "indices" en = Some (VList (map reify_idx idxs)) ->
  exec impl call [SFor "i" "index" (EId "indices") loop_body] en [] =
  match for_loop (B call) "i" "index" (map reify_idx idxs) 0 en [] with
  | GoEval.Ok (en1, buf1, fl) => GoEval.Ok (en1, buf1, fl)
  | Fail w => Fail w
  end.
Proof.
  intros H. unfold exec. unfold exec1; fold exec1. cbn [eval]; rewrite H.
  match goal with |- context [for_loop ?f _ _ _ _ _ _] => change f with (B call) end.
  destruct (for_loop (B call) "i" "index" (map reify_idx idxs) 0 en []) as [[[en1 buf1] fl]|w]; [|reflexivity].
  destruct fl; reflexivity.
Qed.

(* ---- the refinement ---- *)
Lemma fp_gep : find_printer "" "gep.ResultType" = Some {| p_pkg := "gep"; p_type := ""; p_method := "gep.ResultType"; p_recv := "elemType,src,indices"; p_body := gep_body |}.
Proof. vm_compute. reflexivity. Qed.
Theorem gep_result_generated elem src idxs :
  run_gep elem src idxs = expect (result_type no_bodies elem src idxs).
Proof.
  unfold run_gep. rewrite call_printer_S, fp_gep.
  unfold run_body.
  cbn [p_recv p_body].
  change (split_commas "elemType,src,indices") with ["elemType"; "src"; "indices"].
  cbn [combine app].
  rewrite gep_body_split, exec_app, app_nil_r, pre_part.
  unfold result_type. fold (start src).
  destruct (start src) as [[a rvl0]|]; [|reflexivity].
  cbn [stopped].
  rewrite exec_app.
  rewrite (loop_stmt _ _ idxs) by reflexivity.
  rewrite (gep_loop _ _ _ _ a idxs 0 elem rvl0) by lia.
  cbn [Z.eqb].
  destruct (walk no_bodies true elem idxs rvl0) as [[e rvl]|]; [|reflexivity].
  cbn [stopped].
  destruct (post_part (call_printer impl [] 0) e rvl a (reify_ty elem) (reify_ty src) (VList (map reify_idx idxs))) as (en' & ->).
  reflexivity.
Qed.
Print Assumptions gep_result_generated.

