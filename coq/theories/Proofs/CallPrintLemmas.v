From Coq Require Import List String ZArith NArith Bool Lia.
From Coq Require Import Strings.Byte.
From LLIR Require Import Lib.Bytes Lib.Radix Model.Enc Model.Types Model.TypeString Model.GoEval Gen.Enums Gen.Printers Proofs.PrinterRefinement Proofs.InstPrintBase.
Import ListNotations.
Open Scope string_scope.

(* C01, text layer: call, invoke, callbr (see InstPrintBase.v).  The callee's signature is an object with its text
   and its Variadic flag; the result type is the cached Typ, handed out by the regenerated Type() method; whether a
   result name is written is decided by the code's own comparison with types.Void. *)

Definition call_globals : env := [("types", VObj "pkg" [("Void", reify_ty TVoid)])].
Definition asig (text : bytes) (variadic : bool) : val := VObj "types.FuncType" [("String()", VStr text); ("Variadic", VBool variadic)].
(* attributes and operand bundles, known by how they are written *)
Definition aattr (s : bytes) : val := VObj "attr" [("String()", VStr s)].
Definition abundle (s : bytes) : val := VObj "ir.OperandBundle" [("String()", VStr s)].

(* ---- the calling convention: a keyword, or cc N for a value without one (the regenerated callingConvString) ---- *)
Definition cc_string (cc : Z) : bytes :=
  if bytes_eqb (enum_string "enum.CallingConv" cc) (lit "CallingConv(" ++ print_Z cc ++ lit ")")%list
  then (lit "cc " ++ print_Z cc)%list else enum_string "enum.CallingConv" cc.
Lemma callingconv_call fuel cc :
  call_printer impl call_globals (S fuel) "" "callingConvString" (VEnum "enum.CallingConv" cc) = Ok (VStr (cc_string cc)).
Proof.
  unfold cc_string, lit. simp.
  match goal with |- context [bytes_eqb ?a ?b] => destruct (bytes_eqb a b) end; simp; reflexivity.
Qed.
Ltac hook ::= rewrite callingconv_call.

Definition cc_text (cc : Z) : bytes := if (cc =? 0)%Z then [] else (lit " " ++ cc_string cc)%list.
Definition attrs_text (l : list bytes) : bytes := List.concat (map (fun s => lit " " ++ s)%list l).
Definition bundles_text (l : list bytes) : bytes :=
  match l with [] => [] | _ => (lit " [ " ++ joinsep (lit ", ") l ++ lit " ]")%list end.
(* the name of the result, unless the result type is written void *)
Definition result_text (rt id : bytes) : bytes := if bytes_eqb rt (lit "void") then [] else (id ++ lit " = ")%list.

Ltac call_done := unfold result_text, cc_text, attrs_text, bundles_text; rewrite ?map_id; done.

(* %r = tail call fast fastcc noundef addrspace(1) T (or the signature, for a variadic callee) @f(T1 %a, T2 %b) nounwind [ "bundle"(...) ], !md *)
Lemma print_call fuel id rt sigt variadic tc ic (args : list (bytes * bytes)) tail cc flags rattrs addrspace fattrs bundles mds :
  call_printer impl call_globals (S (S (S fuel))) "ir.InstCall" "LLString"
    (VObj "ir.InstCall" [("Ident()", VStr id); ("Typ", atype rt); ("Sig()", asig sigt variadic); ("Callee", value tc ic);
                         ("Args", VList (map (fun x => value (fst x) (snd x)) args));
                         ("Tail", VEnum "enum.Tail" tail); ("CallingConv", VEnum "enum.CallingConv" cc);
                         ("FastMathFlags", VList (map (VEnum "enum.FastMathFlag") flags));
                         ("ReturnAttrs", VList (map aattr rattrs)); ("AddrSpace", VEnum "types.AddrSpace" addrspace);
                         ("FuncAttrs", VList (map aattr fattrs)); ("OperandBundles", VList (map abundle bundles));
                         ("Metadata", VList (map mdatt mds))])
  = Ok (VStr (result_text rt id ++ (if (tail =? 0)%Z then [] else enum_string "enum.Tail" tail ++ lit " ") ++ lit "call"
              ++ flags_text "enum.FastMathFlag" flags ++ cc_text cc ++ attrs_text rattrs ++ addrspace_text " " addrspace
              ++ lit " " ++ (if variadic then sigt else rt) ++ lit " " ++ ic ++ lit "(" ++ tvs args ++ lit ")"
              ++ attrs_text fattrs ++ bundles_text bundles ++ mds_text mds)%list).
Proof.
  enter; merge; merge; loop; merge; loop; merge.
  destruct variadic.
  all: simp; loop_sep; loop; loop_sep; merge; loop.
  all: destruct bundles; call_done.
Qed.
