(* C18 / C01 on regenerated terms: numeric calling conventions.  asm.irCallingConv (parser side)
   and ir.callingConvString (printer side) are both regenerated bodies in Gen/Printers.v. *)
From Coq Require Import List String ZArith Bool Lia.
From Coq Require Import Strings.Byte.
From LLIR Require Import Lib.Bytes Lib.Radix Model.GoEval Gen.Printers.
Import ListNotations.
Open Scope string_scope.

Definition impl (_ _ : string) : bool := false.

(* the AST node for  cc N ; uintLit is the decimal reading of the token, kept uninterpreted except on this node *)
Definition cc_int (n : Z) : val := VObj "ast.CallingConvInt" [("UintLit()", VInt n)].
Definition genv : env := [].

(* uintLit(old.UintLit()) is external (asm/helper.go); here the node carries the number itself *)
Definition parse_cc (n : Z) : res val :=
  match find_printer "" "asm.irCallingConv" with
  | Some p => run_body impl (fun ty m v => match m, v with "uintLit", VInt z => Ok (VInt z) | _, _ => Fail ("external " ++ m) end) genv p (cc_int n)
  | None => Fail "not generated"
  end.

(* what the parser makes of  cc N *)
Theorem irCallingConv_int n : parse_cc n = Ok (VEnum "enum.CallingConv" (if (n =? 0)%Z then 1 else n)).
Proof. unfold parse_cc. cbv -[Z.eqb]. destruct (n =? 0)%Z; reflexivity. Qed.

(* KF-31: cc 1 and cc 0 are read as the same value, the one printed ccc; for LLVM cc 1 is a different convention *)
Theorem cc1_is_read_as_ccc : parse_cc 1 = parse_cc 0.
Proof. rewrite !irCallingConv_int. reflexivity. Qed.

(* the printer side: a value without a keyword is written cc N *)
Definition print_cc (v : Z) : res val := call_printer impl [] 3 "" "callingConvString" (VEnum "enum.CallingConv" v).
Example print_cc_examples :
  print_cc 1 = Ok (VStr (bytes_of_string "ccc")) /\ print_cc 8 = Ok (VStr (bytes_of_string "fastcc"))
  /\ print_cc 2 = Ok (VStr (bytes_of_string "cc 2")) /\ print_cc 1023 = Ok (VStr (bytes_of_string "cc 1023")).
Proof. vm_compute. repeat split. Qed.

Print Assumptions irCallingConv_int.
