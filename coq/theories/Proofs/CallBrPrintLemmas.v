From Coq Require Import List String ZArith NArith Bool Lia.
From Coq Require Import Strings.Byte.
From LLIR Require Import Lib.Bytes Lib.Radix Model.Enc Model.Types Model.TypeString Model.GoEval Gen.Enums Gen.Printers Proofs.PrinterRefinement Proofs.InstPrintBase Proofs.CallPrintLemmas.
Import ListNotations.
Open Scope string_scope.

(* C01, text layer: callbr (see CallPrintLemmas.v; a file of its own so that the three long runs build in parallel). *)
Ltac hook ::= rewrite callingconv_call.

(* %r = callbr fastcc T @f(args) attrs [ bundles ]
           to label %normal [label %a, label %b], !md *)
Lemma print_callbr fuel id rt sigt variadic tc ic (args : list (bytes * bytes)) cc rattrs addrspace fattrs bundles normal (others : list bytes) mds :
  call_printer impl call_globals (S (S (S fuel))) "ir.TermCallBr" "LLString"
    (VObj "ir.TermCallBr" [("Ident()", VStr id); ("Typ", atype rt); ("Sig()", asig sigt variadic); ("Callee", value tc ic);
                           ("Args", VList (map (fun x => value (fst x) (snd x)) args));
                           ("NormalRetTarget", value (lit "label") normal); ("OtherRetTargets", VList (map (value (lit "label")) others));
                           ("CallingConv", VEnum "enum.CallingConv" cc);
                           ("ReturnAttrs", VList (map aattr rattrs)); ("AddrSpace", VEnum "types.AddrSpace" addrspace);
                           ("FuncAttrs", VList (map aattr fattrs)); ("OperandBundles", VList (map abundle bundles));
                           ("Metadata", VList (map mdatt mds))])
  = Ok (VStr (result_text rt id ++ lit "callbr" ++ cc_text cc ++ attrs_text rattrs ++ addrspace_text " " addrspace
              ++ lit " " ++ (if variadic then sigt else rt) ++ lit " " ++ ic ++ lit "(" ++ tvs args ++ lit ")"
              ++ attrs_text fattrs ++ bundles_text bundles
              ++ [x0a; x09; x09] ++ lit "to label " ++ normal ++ lit " [" ++ joinsep (lit ", ") (map (fun l => lit "label " ++ l)%list others) ++ lit "]"
              ++ mds_text mds)%list).
Proof.
  enter; merge; merge; loop; merge.
  destruct variadic.
  all: simp; loop_sep; loop; loop_sep; merge; loop_sep; loop.
  all: destruct bundles; call_done.
Qed.
