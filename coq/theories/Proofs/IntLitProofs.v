From Coq Require Import List Bool NArith ZArith Lia.
From Coq Require Import Strings.Byte.
From LLIR Require Import Lib.Bytes Lib.Radix Model.IntLit.
Import ListNotations.
Local Open Scope Z_scope.

Lemma parse_signed_print x : parse_signed_dec (print_Z x) = Some x.
Proof.
  unfold print_Z. destruct (Z.ltb_spec x 0).
  - cbn [parse_signed_dec]. change (N.eqb (bN x2d) 45) with true. cbv iota.
    rewrite parse_print_dec. cbn. f_equal. lia.
  - destruct (print_dec_head (Z.to_N x)) as (b & r & E & D). rewrite E. cbn [parse_signed_dec].
    apply isdigit_range in D.
    assert (N.eqb (bN b) 45 = false) as -> by (apply N.eqb_neq; lia).
    assert (N.eqb (bN b) 43 = false) as -> by (apply N.eqb_neq; lia).
    rewrite <- E, parse_print_dec. cbn. f_equal. lia.
Qed.

(* a printed hexadecimal number starts with a digit or an upper-case letter, never with a sign *)
Lemma print_hex_head n : exists b r, print_hex_N n = b :: r /\ N.eqb (bN b) 45 = false /\ N.eqb (bN b) 43 = false.
Proof.
  unfold print_hex_N. pose proof (to_hex_uint_nonnil n). destruct (N.to_hex_uint n); try congruence;
    cbn; eexists; eexists; (split; [reflexivity|split; reflexivity]).
Qed.
Lemma parse_signed_hex_print n : parse_signed_hex (print_hex_N n) = Some (Z.of_N n).
Proof.
  destruct (print_hex_head n) as (b & r & E & A & B). rewrite E. cbn [parse_signed_hex]. rewrite A, B.
  rewrite <- E, parse_print_hex. reflexivity.
Qed.

(* literals printed by Ident never collide with the keywords or prefixes *)
Lemma print_Z_head x : exists b r, print_Z x = b :: r /\ (isdigit b = true \/ bN b = 45%N).
Proof.
  unfold print_Z. destruct (x <? 0).
  - eexists; eexists; split; [reflexivity|right; reflexivity].
  - destruct (print_dec_head (Z.to_N x)) as (b & r & E & D). exists b, r. split; [exact E|left; exact D].
Qed.

Lemma head_not_keyword b r : (isdigit b = true \/ bN b = 45%N) ->
  bytes_eqb (b :: r) s_true = false /\ bytes_eqb (b :: r) s_false = false /\
  strip_prefix p_u0x (b :: r) = None /\ strip_prefix p_s0x (b :: r) = None.
Proof.
  intros H.
  assert (byte_eqb b x74 = false /\ byte_eqb b x66 = false /\ byte_eqb x75 b = false /\ byte_eqb x73 b = false) as (A & B & C & D).
  { unfold byte_eqb. change (bN x74) with 116%N. change (bN x66) with 102%N. change (bN x75) with 117%N. change (bN x73) with 115%N.
    rewrite !N.eqb_neq. destruct H as [H|H]; [apply isdigit_range in H|]; lia. }
  cbn [bytes_eqb s_true s_false strip_prefix p_u0x p_s0x]. rewrite A, B, C, D. repeat split; reflexivity.
Qed.

Lemma strip_prefix_app p : forall s, strip_prefix p (p ++ s) = Some s.
Proof. induction p as [|a p IH]; intros s; cbn; [reflexivity|]. rewrite byte_eqb_refl. apply IH. Qed.

Lemma u0x_not_keyword s : bytes_eqb (p_u0x ++ s) s_true = false /\ bytes_eqb (p_u0x ++ s) s_false = false.
Proof. split; reflexivity. Qed.
Lemma s0x_not_keyword s : bytes_eqb (p_s0x ++ s) s_true = false /\ bytes_eqb (p_s0x ++ s) s_false = false
  /\ strip_prefix p_u0x (p_s0x ++ s) = None.
Proof. repeat split; reflexivity. Qed.

Section RoundTrip.
  Variable choose_hex : Z -> bool.

  (* C09: whatever the heuristic chooses, the printed literal parses back to the same value *)
  Theorem print_parse w x lit : w <> 1%N -> ident choose_hex w x = Ok lit -> parse_int w lit = Ok x.
  Proof.
    intros Hw. unfold ident. apply N.eqb_neq in Hw. rewrite Hw.
    destruct ((4096 <=? x) && choose_hex x) eqn:C; intros E;
      match type of E with Ok ?l = Ok _ => assert (lit = l) as -> by congruence end; clear E.
    - apply andb_prop in C as [C _]. apply Z.leb_le in C.
      unfold parse_int. destruct (u0x_not_keyword (print_hex_N (Z.to_N x))) as [A B].
      rewrite A, B, strip_prefix_app, parse_signed_hex_print. f_equal. lia.
    - destruct (print_Z_head x) as (b & r & E & H). unfold parse_int. rewrite E.
      destruct (head_not_keyword b r H) as (A & B & U & S). rewrite A, B, U, S.
      rewrite <- E, parse_signed_print. reflexivity.
  Qed.

  Theorem print_parse_i1 x lit : (x = 0 \/ x = 1) -> ident choose_hex 1 x = Ok lit -> parse_int 1 lit = Ok x.
  Proof. intros [-> | ->]; cbn; intros [= <-]; reflexivity. Qed.

  (* i1 -1 is representable (it is the value true) but Ident panics on it *)
  Theorem ident_i1_refuted : exists x, (- 2 ^ 0 <= x < 2 ^ 1) /\ ident choose_hex 1 x = Panic.
  Proof. exists (-1). split; [lia|reflexivity]. Qed.
End RoundTrip.

(* meaning of the accepted notations *)
Theorem parse_u0x_value w n : parse_int w (p_u0x ++ print_hex_N n) = Ok (Z.of_N n).
Proof.
  unfold parse_int. destruct (u0x_not_keyword (print_hex_N n)) as [A B].
  rewrite A, B, strip_prefix_app, parse_signed_hex_print. reflexivity.
Qed.

(* the top bit of an n < 2^w is set iff n >= 2^(w-1) *)
Lemma top_bit w n : (0 < w)%N -> (n < 2 ^ w)%N ->
  N.testbit n (w - 1) = negb (Z.of_N n <? 2 ^ (Z.of_N w - 1)).
Proof.
  intros Hw Hn.
  assert (2 ^ w = 2 * 2 ^ (w - 1))%N as P by (rewrite <- N.pow_succ_r'; f_equal; lia).
  assert (Z.of_N (2 ^ (w - 1)) = 2 ^ (Z.of_N w - 1)) as PZ.
  { rewrite N2Z.inj_pow. f_equal. lia. }
  assert (0 < 2 ^ (w - 1))%N as Ppos by (apply N.neq_0_lt_0, N.pow_nonzero; lia).
  destruct (Z.ltb_spec (Z.of_N n) (2 ^ (Z.of_N w - 1))) as [L|L]; cbn [negb].
  - destruct (N.eq_dec n 0) as [->|Hn0]; [apply N.bits_0|].
    apply N.bits_above_log2. apply N.log2_lt_pow2; lia.
  - apply N.testbit_true. rewrite <- PZ in L.
    assert (n / 2 ^ (w - 1) = 1)%N as ->.
    { symmetry. apply (N.div_unique n (2 ^ (w - 1)) 1 (n - 2 ^ (w - 1)))%N; lia. }
    reflexivity.
Qed.

Theorem parse_s0x_value w n : (0 < w)%N -> (n < 2 ^ w)%N ->
  parse_int w (p_s0x ++ print_hex_N n) =
  Ok (if (Z.of_N n <? 2 ^ (Z.of_N w - 1)) then Z.of_N n else Z.of_N n - 2 ^ Z.of_N w).
Proof.
  intros Hw Hn. unfold parse_int. destruct (s0x_not_keyword (print_hex_N n)) as (A & B & C).
  rewrite A, B, C, strip_prefix_app, parse_signed_hex_print.
  rewrite Z.testbit_of_N, (top_bit w n Hw Hn).
  destruct (Z.of_N n <? 2 ^ (Z.of_N w - 1)); reflexivity.
Qed.
Print Assumptions print_parse.
