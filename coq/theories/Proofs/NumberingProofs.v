From Coq Require Import List Bool ZArith Lia.
From LLIR Require Import Model.Numbering.
Import ListNotations.
Local Open Scope Z_scope.

Definition numbered (x : item) : bool := it_value x && negb (it_named x).

(* the stored IDs are consistent with position k: unset or equal to the expected number *)
Fixpoint consistent (l : list item) (k : Z) : Prop :=
  match l with
  | [] => True
  | x :: r => if numbered x then (it_id x = 0 \/ it_id x = k) /\ consistent r (k + 1)
              else consistent r k
  end.

(* AssignIDs succeeds exactly on consistent states, and then produces LLVM's numbering *)
Theorem assign_spec l : forall k,
  (consistent l k -> assign l k = Ok (llvm_number l k)) /\
  (assign l k <> Err -> consistent l k).
Proof.
  induction l as [|x r IH]; intros k; cbn [assign llvm_number consistent]; [split; [reflexivity|trivial]|].
  fold (numbered x). destruct (numbered x) eqn:N.
  - destruct (IH (k + 1)) as [IH1 IH2]. split.
    + intros [Hid Hc]. rewrite (IH1 Hc).
      assert (negb (it_id x =? 0) && negb (k =? it_id x) = false) as ->.
      { destruct Hid as [->| ->]; [reflexivity|]. rewrite Z.eqb_refl, andb_false_r. reflexivity. }
      reflexivity.
    + destruct (negb (it_id x =? 0) && negb (k =? it_id x)) eqn:E; [congruence|].
      intros H. split.
      * apply andb_false_iff in E as [E|E]; apply negb_false_iff, Z.eqb_eq in E; [left|right]; congruence.
      * apply IH2. destruct (assign r (k + 1)); congruence.
  - destruct (IH k) as [IH1 IH2]. split.
    + intros Hc. rewrite (IH1 Hc). reflexivity.
    + intros H. apply IH2. destruct (assign r k); congruence.
Qed.

Corollary assign_ok_iff l : (exists l', assign_ids l = Ok l') <-> consistent l 0.
Proof.
  unfold assign_ids. destruct (assign_spec l 0) as [H1 H2]. split.
  - intros [l' E]. apply H2. congruence.
  - intros Hc. eexists. apply H1. exact Hc.
Qed.

Corollary assign_is_llvm l l' : assign_ids l = Ok l' -> l' = llvm_number l 0.
Proof.
  unfold assign_ids. intros E. destruct (assign_spec l 0) as [H1 H2].
  rewrite H1 in E by (apply H2; congruence). congruence.
Qed.

(* a never-numbered function (all IDs unset) is always accepted *)
Lemma fresh_consistent l : (forall x, In x l -> numbered x = true -> it_id x = 0) -> forall k, consistent l k.
Proof.
  induction l as [|x r IH]; intros H k; cbn [consistent]; [trivial|].
  destruct (numbered x) eqn:N.
  - split; [left; apply H; [left; reflexivity|exact N]|]. apply IH. intros y Hy. apply H. right; exact Hy.
  - apply IH. intros y Hy. apply H. right; exact Hy.
Qed.

(* numbering is a projection: its result is consistent, and numbering again changes nothing *)
Lemma numbered_set_id x k : numbered (set_id x k) = numbered x.
Proof. reflexivity. Qed.

Lemma llvm_number_consistent l : forall k, consistent (llvm_number l k) k.
Proof.
  induction l as [|x r IH]; intros k; cbn [llvm_number consistent]; [trivial|].
  fold (numbered x). destruct (numbered x) eqn:N; cbn [consistent].
  - rewrite numbered_set_id, N. split; [right; reflexivity|apply IH].
  - rewrite N. apply IH.
Qed.

Lemma llvm_number_idem l : forall k, llvm_number (llvm_number l k) k = llvm_number l k.
Proof.
  induction l as [|x r IH]; intros k; cbn [llvm_number]; [reflexivity|].
  fold (numbered x). destruct (numbered x) eqn:N; cbn [llvm_number]; fold (numbered (set_id x k)).
  - rewrite numbered_set_id, N. rewrite IH. reflexivity.
  - fold (numbered x). rewrite N, IH. reflexivity.
Qed.

Theorem assign_idempotent l l' : assign_ids l = Ok l' -> assign_ids l' = Ok l'.
Proof.
  intros E. apply assign_is_llvm in E. subst. unfold assign_ids.
  destruct (assign_spec (llvm_number l 0) 0) as [H1 _].
  rewrite H1 by apply llvm_number_consistent. rewrite llvm_number_idem. reflexivity.
Qed.

(* named values, non-value instructions and void calls are left untouched and consume no number *)
Theorem unnumbered_untouched l : forall k i x, nth_error l i = Some x -> numbered x = false ->
  nth_error (llvm_number l k) i = Some x.
Proof.
  induction l as [|y r IH]; intros k i x; destruct i as [|i]; cbn [nth_error llvm_number]; try discriminate.
  - intros [= ->] N. fold (numbered x). rewrite N. reflexivity.
  - intros H N. fold (numbered y). destruct (numbered y); cbn [nth_error]; apply IH; assumption.
Qed.

(* the documented blind spot: 0 doubles as "unset", so a wrong explicit 0 is accepted *)
Example wrong_zero_accepted :
  let l := [ {| it_named := false; it_id := 0; it_value := true |};
             {| it_named := false; it_id := 0; it_value := true |} ] in
  exists l', assign_ids l = Ok l'.
Proof. eexists. reflexivity. Qed.

(* stale IDs after an insertion at the front: the C14 finding *)
Example stale_after_insert_rejected :
  let printed := [ {| it_named := false; it_id := 0; it_value := true |};
                   {| it_named := false; it_id := 1; it_value := true |} ] in
  let edited := {| it_named := false; it_id := 0; it_value := true |} :: printed in
  assign_ids printed = Ok printed /\ assign_ids edited = Err.
Proof. split; reflexivity. Qed.
Print Assumptions assign_idempotent.
