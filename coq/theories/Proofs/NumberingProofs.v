From Coq Require Import List Bool ZArith Lia.
From LLIR Require Import Model.Numbering.
Import ListNotations.
Local Open Scope Z_scope.

Definition numbered (x : item) : bool := it_value x && negb (it_named x).

(* the stored IDs are consistent with position k: unset or equal to the expected number *)
Fixpoint consistent (l : list item) (k : Z) : Prop :=
  match l with
  | [] => True
  | x :: r => if numbered x then (it_id x = 0 \/ it_id x = k) /\ consistent r (k + 1)
              else consistent r k
  end.

(* AssignIDs succeeds exactly on consistent states, and then produces LLVM's numbering *)
Theorem assign_spec l : forall k,
  (consistent l k -> assign l k = Ok (llvm_number l k)) /\
  (assign l k <> Err -> consistent l k).
Proof.
  induction l as [|x r IH]; intros k; cbn [assign llvm_number consistent]; [split; [reflexivity|trivial]|].
  fold (numbered x). destruct (numbered x) eqn:N.
  - destruct (IH (k + 1)) as [IH1 IH2]. split.
    + intros [Hid Hc]. rewrite (IH1 Hc).
      assert (negb (it_id x =? 0) && negb (k =? it_id x) = false) as ->.
      { destruct Hid as [->| ->]; [reflexivity|]. rewrite Z.eqb_refl, andb_false_r. reflexivity. }
      reflexivity.
    + destruct (negb (it_id x =? 0) && negb (k =? it_id x)) eqn:E; [congruence|].
      intros H. split.
      * apply andb_false_iff in E as [E|E]; apply negb_false_iff, Z.eqb_eq in E; [left|right]; congruence.
      * apply IH2. destruct (assign r (k + 1)); congruence.
  - destruct (IH k) as [IH1 IH2]. split.
    + intros Hc. rewrite (IH1 Hc). reflexivity.
    + intros H. apply IH2. destruct (assign r k); congruence.
Qed.

Corollary assign_ok_iff l : (exists l', assign_ids l = Ok l') <-> consistent l 0.
Proof.
  unfold assign_ids. destruct (assign_spec l 0) as [H1 H2]. split.
  - intros [l' E]. apply H2. congruence.
  - intros Hc. eexists. apply H1. exact Hc.
Qed.

Corollary assign_is_llvm l l' : assign_ids l = Ok l' -> l' = llvm_number l 0.
Proof.
  unfold assign_ids. intros E. destruct (assign_spec l 0) as [H1 H2].
  rewrite H1 in E by (apply H2; congruence). congruence.
Qed.

(* a never-numbered function (all IDs unset) is always accepted *)
Lemma fresh_consistent l : (forall x, In x l -> numbered x = true -> it_id x = 0) -> forall k, consistent l k.
Proof.
  induction l as [|x r IH]; intros H k; cbn [consistent]; [trivial|].
  destruct (numbered x) eqn:N.
  - split; [left; apply H; [left; reflexivity|exact N]|]. apply IH. intros y Hy. apply H. right; exact Hy.
  - apply IH. intros y Hy. apply H. right; exact Hy.
Qed.

(* numbering is a projection: its result is consistent, and numbering again changes nothing *)
Lemma numbered_set_id x k : numbered (set_id x k) = numbered x.
Proof. reflexivity. Qed.

Lemma llvm_number_consistent l : forall k, consistent (llvm_number l k) k.
Proof.
  induction l as [|x r IH]; intros k; cbn [llvm_number consistent]; [trivial|].
  fold (numbered x). destruct (numbered x) eqn:N; cbn [consistent].
  - rewrite numbered_set_id, N. split; [right; reflexivity|apply IH].
  - rewrite N. apply IH.
Qed.

Lemma llvm_number_idem l : forall k, llvm_number (llvm_number l k) k = llvm_number l k.
Proof.
  induction l as [|x r IH]; intros k; cbn [llvm_number]; [reflexivity|].
  fold (numbered x). destruct (numbered x) eqn:N; cbn [llvm_number]; fold (numbered (set_id x k)).
  - rewrite numbered_set_id, N. rewrite IH. reflexivity.
  - fold (numbered x). rewrite N, IH. reflexivity.
Qed.

Theorem assign_idempotent l l' : assign_ids l = Ok l' -> assign_ids l' = Ok l'.
Proof.
  intros E. apply assign_is_llvm in E. subst. unfold assign_ids.
  destruct (assign_spec (llvm_number l 0) 0) as [H1 _].
  rewrite H1 by apply llvm_number_consistent. rewrite llvm_number_idem. reflexivity.
Qed.

(* named values, non-value instructions and void calls are left untouched and consume no number *)
Theorem unnumbered_untouched l : forall k i x, nth_error l i = Some x -> numbered x = false ->
  nth_error (llvm_number l k) i = Some x.
Proof.
  induction l as [|y r IH]; intros k i x; destruct i as [|i]; cbn [nth_error llvm_number]; try discriminate.
  - intros [= ->] N. fold (numbered x). rewrite N. reflexivity.
  - intros H N. fold (numbered y). destruct (numbered y); cbn [nth_error]; apply IH; assumption.
Qed.

(* the documented blind spot: 0 doubles as "unset", so a wrong explicit 0 is accepted *)
Example wrong_zero_accepted :
  let l := [ {| it_named := false; it_id := 0; it_value := true |};
             {| it_named := false; it_id := 0; it_value := true |} ] in
  exists l', assign_ids l = Ok l'.
Proof. eexists. reflexivity. Qed.

(* stale IDs after an insertion at the front: the C14 finding *)
Example stale_after_insert_rejected :
  let printed := [ {| it_named := false; it_id := 0; it_value := true |};
                   {| it_named := false; it_id := 1; it_value := true |} ] in
  let edited := {| it_named := false; it_id := 0; it_value := true |} :: printed in
  assign_ids printed = Ok printed /\ assign_ids edited = Err.
Proof. split; reflexivity. Qed.
Print Assumptions assign_idempotent.

(* ---- module level ---- *)
Lemma parser_number_is_llvm l : (forall g, In g l -> it_value (g_item g) = true) -> forall k,
  map g_item (parser_number l k) = llvm_number (map g_item l) k.
Proof.
  induction l as [|g r IH]; intros Hv k; cbn [parser_number map llvm_number]; [reflexivity|].
  rewrite (Hv g (or_introl eq_refl)). cbn [andb].
  destruct (negb (it_named (g_item g))); cbn [map g_item]; rewrite IH by (intros x Hx; apply Hv; right; exact Hx); reflexivity.
Qed.

Lemma parser_number_values l : (forall g, In g l -> it_value (g_item g) = true) -> forall k g,
  In g (parser_number l k) -> it_value (g_item g) = true.
Proof.
  induction l as [|x r IH]; intros Hv k g; cbn [parser_number]; [contradiction|].
  destruct (negb (it_named (g_item x))); cbn [In]; intros [<-|H].
  - cbn. apply Hv. left; reflexivity.
  - eapply IH; [intros y Hy; apply Hv; right; exact Hy|exact H].
  - apply Hv. left; reflexivity.
  - eapply IH; [intros y Hy; apply Hv; right; exact Hy|exact H].
Qed.
Lemma group_order_in l g : In g (group_order l) -> In g l.
Proof. unfold group_order, of_gkind. rewrite !in_app_iff, !filter_In. tauto. Qed.

(* printing never fails on a module the parser produced, whatever the textual interleaving of named
   and unnamed global variables, aliases, ifuncs and functions, and leaves the numbering as parsed;
   that numbering is LLVM's for the printed order (k-th unnamed definition gets @k) *)
Theorem print_after_parse_ok l : (forall g, In g l -> it_value (g_item g) = true) ->
  print_after_parse l = Ok (map g_item (parse_module l))
  /\ map g_item (parse_module l) = llvm_number (map g_item (group_order (parser_number l 0))) 0.
Proof.
  intros Hv. unfold print_after_parse, parse_module.
  assert (forall g, In g (group_order (parser_number l 0)) -> it_value (g_item g) = true) as Hg.
  { intros g H. apply group_order_in in H. eapply parser_number_values; eassumption. }
  rewrite (parser_number_is_llvm _ Hg 0). split; [|reflexivity]. unfold assign_ids.
  destruct (assign_spec (llvm_number (map g_item (group_order (parser_number l 0))) 0) 0) as [H1 _].
  rewrite H1 by apply llvm_number_consistent. rewrite llvm_number_idem. reflexivity.
Qed.

(* KF-13 as it was before the fix: an unnamed function before an unnamed global variable (numbered
   @0, @1 textually) was accepted by the parser and then rejected by the printer's group-order walk *)
Theorem print_after_parse_unfixed_refuted :
  exists l, (forall g, In g l -> it_value (g_item g) = true) /\ print_after_parse_unfixed l = Err.
Proof.
  exists [ {| g_kind := KFunc; g_item := {| it_named := false; it_id := 0; it_value := true |} |};
           {| g_kind := KGlobal; g_item := {| it_named := false; it_id := 0; it_value := true |} |} ].
  split; [|reflexivity]. intros g [<-|[<-|[]]]; reflexivity.
Qed.
Print Assumptions print_after_parse_ok.
