(* C09 on regenerated code: constant.NewIntFromString, as translated from ir/constant/const_int.go into
   Gen/Printers.v and run by Model/GoEval.v, against the hand model Model/IntLit.parse_int.  math/big is outside
   the repository: its five methods used here are given their mathematical meaning (ext below; the readings of
   SetString are the functions of Model/IntLit.v that the correspondence check compares with the library). *)
From Coq Require Import List String ZArith NArith Bool Lia.
From Coq Require Import Strings.Byte.
From LLIR Require Import Lib.Bytes Lib.Radix Model.Types Model.TypeString Model.IntLit Model.GoEval Gen.Printers
  Proofs.PrinterRefinement Proofs.EqualRefinement.
Import ListNotations.
Open Scope string_scope.

Definition bigv (z : Z) : val := VObj "big.Int" [("v", VInt z)].
Definition int_ty (w : N) : val := reify_ty (TInt w).
Definition cint (w : N) (z : Z) : val := VObj "constant.Int" [("Typ", int_ty w); ("X", bigv z)].
Definition genv : env :=
  [("big", VObj "package" [("Int", VStr [])]); ("types", VObj "package" [("I1", int_ty 1)]);
   ("True", cint 1 1); ("False", cint 1 0)].

Definition set_string (s : bytes) (base : Z) : res val :=
  match (match base with 16%Z => parse_signed_hex s | 10%Z => parse_signed_dec s | _ => None end) with
  | Some z => GoEval.Ok (VTuple [bigv z; VBool true])
  | None => GoEval.Ok (VTuple [VNil; VBool false])
  end.
(* calls that leave the translated code: math/big, new, and the translated Equal of the integer type *)
Definition ext (ty m : string) (v : val) : res val :=
  match ty, m, v with
  | "big.Int", "SetString", VTuple [_; VStr s; VInt base] => set_string s base
  | "big.Int", "Bit", VTuple [VObj _ [(_, VInt x)]; VInt i] =>
      if (i <? 0)%Z then Fail "negative bit index" else GoEval.Ok (VInt (if Z.testbit x i then 1 else 0))
  | "big.Int", "Exp", VTuple [_; VObj _ [(_, VInt a)]; VObj _ [(_, VInt b)]; VNil] => GoEval.Ok (bigv (a ^ b))
  | "big.Int", "Sub", VTuple [_; VObj _ [(_, VInt a)]; VObj _ [(_, VInt b)]] => GoEval.Ok (bigv (a - b))
  | "package", "NewInt", VTuple [_; VInt z] => GoEval.Ok (bigv z)
  | "", "new", _ => GoEval.Ok (VObj "big.Int" [])
  | "types.IntType", "Equal", _ => call_printer impl [] 20 "types.IntType" "Equal" v
  | _, _, _ => Fail ("external " ++ ty ++ "." ++ m)
  end.

Definition new_int_from_string (w : N) (s : bytes) : res val :=
  match find_printer "" "constant.NewIntFromString" with
  | Some p => run_body impl ext genv p (VTuple [int_ty w; VStr s])
  | None => Fail "not generated"
  end.

(* what the model's outcome looks like as a Go result *)
Definition expected (w : N) (s : bytes) : res val :=
  match parse_int w s with
  | IntLit.Ok z => GoEval.Ok (VTuple [if bytes_eqb s s_true || bytes_eqb s s_false then cint 1 z else cint w z; VNil])
  | IntLit.Err => GoEval.Ok (VTuple [VNil; VObj "error" []])
  | IntLit.Panic => Fail "panic"
  end.

Definition b (s : string) : bytes := bytes_of_string s.
Example new_int_examples :
  Forall (fun ws => new_int_from_string (fst ws) (b (snd ws)) = expected (fst ws) (b (snd ws)))
    [(1%N, "true"); (1%N, "false"); (8%N, "true"); (8%N, "u0xFF"); (8%N, "s0xFF"); (16%N, "s0xFF"); (8%N, "s0x-F");
     (8%N, "u0x-F"); (8%N, "-12"); (8%N, "+12"); (8%N, "12a"); (8%N, ""); (8%N, "u0x"); (64%N, "18446744073709551615")].
Proof. repeat (constructor; [vm_compute; reflexivity|]). constructor. Qed.

(* ---- the statement for every width and every literal ---- *)
Lemma strip_prefix_firstn p : forall s,
  strip_prefix p s = if bytes_eqb (firstn (List.length p) s) p then Some (skipn (List.length p) s) else None.
Proof.
  induction p as [|a p IH]; intros s; [reflexivity|].
  destruct s as [|c s]; [reflexivity|]. cbn [strip_prefix List.length firstn skipn bytes_eqb].
  rewrite IH. rewrite byte_eqb_sym. destruct (byte_eqb c a); reflexivity.
Qed.
Lemma firstn_eq_length p s : bytes_eqb (firstn (List.length p) s) p = true -> (List.length p <= List.length s)%nat.
Proof.
  intros H. apply bytes_eqb_spec in H. apply (f_equal (@List.length _)) in H. rewrite firstn_length in H. lia.
Qed.

Lemma run_true w : new_int_from_string w s_true = expected w s_true.
Proof.
  destruct (N.eqb_spec w 1) as [->|Hw]; [vm_compute; reflexivity|].
  apply N.eqb_neq in Hw.
  unfold new_int_from_string, expected, parse_int. rewrite Hw.
  cbv -[Z.eqb Z.of_N]. rewrite Zeqb_ofN', Hw. reflexivity.
Qed.
Lemma run_false w : new_int_from_string w s_false = expected w s_false.
Proof.
  destruct (N.eqb_spec w 1) as [->|Hw]; [vm_compute; reflexivity|].
  apply N.eqb_neq in Hw.
  unfold new_int_from_string, expected, parse_int. rewrite Hw.
  cbv -[Z.eqb Z.of_N]. rewrite Zeqb_ofN', Hw. reflexivity.
Qed.

Lemma run_u0x w h : new_int_from_string w (p_u0x ++ h)%list = expected w (p_u0x ++ h)%list.
Proof.
  unfold new_int_from_string, expected, parse_int.
  cbv -[Z.ltb Z.of_nat Z.of_N parse_signed_hex].
  change (3 <? 0)%Z with false. cbv iota.
  match goal with |- context [(Z.of_nat (S (S (S ?n))) <? 3)%Z] =>
    replace (Z.of_nat (S (S (S n))) <? 3)%Z with false by (symmetry; apply Z.ltb_ge; lia) end.
  cbv -[Z.of_N parse_signed_hex].
  destruct (parse_signed_hex h) as [z|]; reflexivity.
Qed.

Lemma run_s0x w h : (0 < w)%N -> new_int_from_string w (p_s0x ++ h)%list = expected w (p_s0x ++ h)%list.
Proof.
  intros Hw. unfold new_int_from_string, expected, parse_int.
  cbv -[Z.ltb Z.of_nat Z.of_N parse_signed_hex Z.testbit Z.pow Z.sub Z.eqb N.sub].
  change (3 <? 0)%Z with false. cbv iota.
  match goal with |- context [(Z.of_nat (S (S (S ?n))) <? 3)%Z] =>
    replace (Z.of_nat (S (S (S n))) <? 3)%Z with false by (symmetry; apply Z.ltb_ge; lia) end.
  cbv -[Z.of_N parse_signed_hex Z.testbit Z.pow Z.sub Z.eqb Z.ltb N.sub].
  destruct (parse_signed_hex h) as [z|]; [|reflexivity].
  cbv -[Z.of_N Z.testbit Z.pow Z.sub Z.eqb Z.ltb N.sub].
  replace (Z.of_N w - 1 <? 0)%Z with false by (symmetry; apply Z.ltb_ge; lia).
  replace (Z.of_N (w - 1)) with (Z.of_N w - 1)%Z by lia.
  destruct (Z.testbit z (Z.of_N w - 1)); cbv -[Z.of_N Z.pow Z.sub]; reflexivity.
Qed.

Lemma run_dec w s :
  bytes_eqb s s_true = false -> bytes_eqb s s_false = false ->
  bytes_eqb (firstn 3 s) p_u0x = false -> bytes_eqb (firstn 3 s) p_s0x = false ->
  new_int_from_string w s = expected w s.
Proof.
  intros Et Ef Eu Es. unfold new_int_from_string, expected, parse_int.
  rewrite (strip_prefix_firstn p_u0x s), (strip_prefix_firstn p_s0x s).
  change (List.length p_u0x) with 3%nat. change (List.length p_s0x) with 3%nat.
  rewrite Et, Ef, Eu, Es. unfold s_true, s_false, p_u0x, p_s0x in *.
  cbv -[bytes_eqb firstn parse_signed_dec Z.of_N Z.eqb].
  rewrite ?Et, ?Ef, ?Eu, ?Es.
  cbv -[bytes_eqb firstn parse_signed_dec Z.of_N Z.eqb].
  rewrite ?Et, ?Ef, ?Eu, ?Es.
  cbv -[bytes_eqb firstn parse_signed_dec Z.of_N Z.eqb].
  destruct (parse_signed_dec s) as [z|]; reflexivity.
Qed.

Lemma firstn_split (p s : bytes) : bytes_eqb (firstn (List.length p) s) p = true -> s = (p ++ skipn (List.length p) s)%list.
Proof. intros H. apply bytes_eqb_spec in H. rewrite <- H at 1. symmetry. apply firstn_skipn. Qed.

(* the regenerated constructor is the model, for every width but 0 and every literal text *)
Theorem generated_new_int_is_parse_int w s : (0 < w)%N -> new_int_from_string w s = expected w s.
Proof.
  intros Hw.
  destruct (bytes_eqb s s_true) eqn:Et; [apply bytes_eqb_spec in Et; subst s; apply run_true|].
  destruct (bytes_eqb s s_false) eqn:Ef; [apply bytes_eqb_spec in Ef; subst s; apply run_false|].
  destruct (bytes_eqb (firstn 3 s) p_u0x) eqn:Eu.
  { rewrite (firstn_split p_u0x s Eu). apply run_u0x. }
  destruct (bytes_eqb (firstn 3 s) p_s0x) eqn:Es.
  { rewrite (firstn_split p_s0x s Es). apply run_s0x, Hw. }
  apply run_dec; assumption.
Qed.
Print Assumptions generated_new_int_is_parse_int.
