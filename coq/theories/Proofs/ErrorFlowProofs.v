(* C05 / C01: errors reported by callees are propagated by the translated bodies of package asm. *)
From Coq Require Import List String Bool ZArith Arith.
From LLIR Require Import Gen.Printers.
Import ListNotations.
Open Scope string_scope.
Open Scope list_scope.

Definition mem (x : string) (l : list string) : bool := existsb (String.eqb x) l.
Definition is_err_check (s : gstmt) : bool :=
  match s with
  | SIf None (EBin op (EId e) ENil) (_ :: _) _ => String.eqb op "!=" && String.eqb e "err"
  | _ => false
  end.
Definition binds_err (s : gstmt) : bool := match s with SLet _ names _ => mem "err" names | _ => false end.
(* top-level adjacency in one block: a statement binding err not directly followed by `if err != nil { .. }` *)
Fixpoint adj (l : list gstmt) : list nat :=
  match l with
  | [] => []
  | s :: r => (if binds_err s then (match r with n :: _ => if is_err_check n then [] else [1] | [] => [1] end) else []) ++ adj r
  end.
(* the same inside the cases of a switch that is itself directly followed by the check: the binding may be the
   last statement of a case (x, err = f(..) in every case, one `if err != nil` after the switch) *)
Fixpoint adjf (followed : bool) (l : list gstmt) : list nat :=
  match l with
  | [] => []
  | s :: r => (if binds_err s then (match r with n :: _ => if is_err_check n then [] else [1] | [] => if followed then [] else [1] end) else []) ++ adjf followed r
  end.
Definition next_checks (r : list gstmt) : bool := match r with n :: _ => is_err_check n | [] => false end.
Fixpoint unchecked_s (followed : bool) (s : gstmt) {struct s} : list nat :=
  let blk := fix blk (l : list gstmt) : list nat :=
    match l with [] => [] | x :: r => unchecked_s (next_checks r) x ++ blk r end in
  match s with
  | SIf _ _ t e => adj t ++ adj e ++ blk t ++ blk e
  | SFor _ _ _ b | SForMap _ _ _ b | SFor3 _ _ _ b | SChunk b => adj b ++ blk b
  | STypeSwitch _ _ cs d => flat_map (fun c => adjf followed (snd c) ++ blk (snd c)) cs ++ adjf followed d ++ blk d
  | SSwitch _ cs d => flat_map (fun c => adjf followed (snd c) ++ blk (snd c)) cs ++ adjf followed d ++ blk d
  | _ => []
  end.
Fixpoint unchecked_b (l : list gstmt) : list nat :=
  match l with [] => [] | x :: r => unchecked_s (next_checks r) x ++ unchecked_b r end.
Definition unchecked (l : list gstmt) : nat := List.length (adj l ++ unchecked_b l).
(* the translated bodies of package asm: all of its functions and methods (type constructors, body translators
   of instructions, terminators, constant expressions and debug-info nodes, enum converters, and since the fifth
   round the rest: module, type, global, constant, metadata and value translation, helpers) *)
Definition asm_bodies : list printer := filter (fun p => String.eqb (p_pkg p) "asm") printers ++ asm_rest.

(* every error a callee reports is looked at before anything else happens: in all bodies of the package (350), each statement
   that binds err (x, err := f(..) or err = f(..)) is directly followed by `if err != nil { .. }` with a
   non-empty branch (which returns: see errors_are_returned) *)
Theorem errors_are_checked : forallb (fun p => Nat.eqb (unchecked (p_body p)) 0) asm_bodies = true.
Proof. vm_compute. reflexivity. Qed.

(* and the branch of such a check ends in a return or a panic: the error is not swallowed *)
Definition ends_in_exit (l : list gstmt) : bool :=
  match rev l with (SRet _ | SPanic | SStop) :: _ => true | _ => false end.
Fixpoint swallowed_s (s : gstmt) : list nat :=
  match s with
  | SIf _ c t e =>
      (if is_err_check s then (if ends_in_exit t then [] else [1]) else []) ++ flat_map swallowed_s t ++ flat_map swallowed_s e
  | SFor _ _ _ b | SForMap _ _ _ b | SFor3 _ _ _ b | SChunk b => flat_map swallowed_s b
  | STypeSwitch _ _ cs d => flat_map (fun c => flat_map swallowed_s (snd c)) cs ++ flat_map swallowed_s d
  | SSwitch _ cs d => flat_map (fun c => flat_map swallowed_s (snd c)) cs ++ flat_map swallowed_s d
  | _ => []
  end.
Theorem errors_are_returned : forallb (fun p => Nat.eqb (List.length (flat_map swallowed_s (p_body p))) 0) asm_bodies = true.
Proof. vm_compute. reflexivity. Qed.
(* (lower bounds: a helper function added to the package must not trip a count) *)
Example asm_bodies_counted : 350 <= List.length asm_bodies /\
  150 <= List.length (filter (fun p => existsb binds_err (p_body p)) asm_bodies).
Proof. vm_compute. split; repeat constructor. Qed.
Print Assumptions errors_are_checked.
