(* What the translator could not decompose, stated as a theorem over the regenerated table
   (Gen/Printers.v), so that "unknown code is never silently dropped" is checked on every run:
   an undecomposed statement (SUnknown) or expression (EOther) keeps its source text, makes the
   evaluator fail loudly when reached, and occurs only in the bodies listed here. *)
From Coq Require Import List String ZArith Bool.
From LLIR Require Import Gen.Printers.
Import ListNotations.
Open Scope string_scope.

Fixpoint eoth (e : gexpr) : nat :=
  match e with
  | EOther _ => 1
  | ESel e' _ | ENot e' | EAssert e' _ => eoth e'
  | ECall f args => eoth f + list_sum (map eoth args)
  | EBin _ a b | EIndex a b | ESliceFrom a b => eoth a + eoth b
  | EComposite _ fs => list_sum (map (fun kv => eoth (snd kv)) fs)
  | ETuple es => list_sum (map eoth es)
  | _ => 0
  end.
Definition add2 (a b : nat * nat) : nat * nat := (fst a + fst b, snd a + snd b).
Definition sum2 (l : list (nat * nat)) : nat * nat := fold_right add2 (0, 0) l.
(* (undecomposed statements, undecomposed expressions) *)
Fixpoint sunk (s : gstmt) : nat * nat :=
  match s with
  | SUnknown _ => (1, 0)
  | SArg _ e | SLet _ _ e | SRet e | SExpr e | SSet _ _ e => (0, eoth e)
  | SSetIndex _ _ i e => (0, eoth i + eoth e)
  | SIf init c t e => add2 (0, (match init with Some (_, x) => eoth x | None => 0 end) + eoth c) (add2 (sum2 (map sunk t)) (sum2 (map sunk e)))
  | SFor _ _ c b | SForMap _ _ c b => add2 (0, eoth c) (sum2 (map sunk b))
  | SFor3 i c p b => add2 (sunk i) (add2 (0, eoth c) (add2 (sunk p) (sum2 (map sunk b))))
  | STypeSwitch _ e cs d => add2 (0, eoth e) (add2 (sum2 (map (fun c => sum2 (map sunk (snd c))) cs)) (sum2 (map sunk d)))
  | SSwitch t cs d =>
    add2 (0, match t with Some e => eoth e | None => 0 end)
         (add2 (sum2 (map (fun c => add2 (0, list_sum (map eoth (fst c))) (sum2 (map sunk (snd c)))) cs)) (sum2 (map sunk d)))
  | SChunk b => sum2 (map sunk b)
  | _ => (0, 0)
  end.
Definition undecomposed (p : printer) : nat * nat := sum2 (map sunk (p_body p)).

Theorem undecomposed_bodies :
  map (fun p => (p_type p, p_method p, undecomposed p))
      (filter (fun p => negb (Nat.eqb (fst (undecomposed p)) 0 && Nat.eqb (snd (undecomposed p)) 0)) printers)
  = [ ("", "asm.irDIEnumerator", (1, 0));                 (* a switch with an init statement *)
      ("", "constant.NewCharArrayFromString", (0, 1));    (* the conversion []byte(s) *)
      ("", "constant.NewFloat", (1, 0));                  (* literal codecs: Model/FloatBits.v, FloatX87.v, FloatPPC.v *)
      ("", "constant.NewFloatFromString", (3, 6));        (* the NaN sign stores f.X.SetFloat64(-1); big.Rat calls (KF-40 repair) *)
      ("", "dwarfTagString", (0, 1));
      ("constant.Float", "Ident", (4, 3));
      ("constant.Int", "Ident", (2, 1)) ].
Proof. vm_compute. reflexivity. Qed.

Example table_size : List.length printers = 840 /\ 154 <= List.length asm_rest.
Proof. vm_compute. split; [reflexivity|repeat constructor]. Qed.
(* the rest of package asm (asm_rest): four bodies with one construct each that the translator leaves as text *)
Example undecomposed_rest :
  map (fun p => (p_method p, undecomposed p))
      (filter (fun p => negb (Nat.eqb (fst (undecomposed p)) 0 && Nat.eqb (snd (undecomposed p)) 0)) asm_rest)
  = [ ("asm.addAttrGroupDefsToModule", (0, 1)); ("asm.addMetadataDefsToModule", (0, 1));   (* closures for sort.Slice *)
      ("asm.giveUnnamedIdentID", (1, 0));                                                  (* *id++ through a pointer *)
      ("asm.labelIdent", (0, 1)) ].                                                        (* a two-sided slice expression *)
Proof. vm_compute. reflexivity. Qed.
Print Assumptions undecomposed_bodies.
