(* C06 on regenerated code, the callee-typed kinds: the Type() methods of call, invoke and callbr and the Sig()
   methods they use (translated into Gen/Printers.v) compute the rule of Model/ResultType.v (ir_type on CallLike):
   the return type of the function type the callee's pointer type points to, and a panic for any other callee
   type -- for every callee type tree.  With result_types_agree this gives: wherever LLVM's rule assigns a type,
   the regenerated parser constructor and the regenerated Type() both compute it. *)
From Coq Require Import List String ZArith NArith Bool.
From LLIR Require Import Lib.Bytes Model.Types Model.TypeString Model.ResultType Model.GoEval Gen.Printers
  Proofs.PrinterRefinement Proofs.ResultTypeProofs Proofs.TypeRuleRefinement.
Import ListNotations.
Open Scope string_scope.

(* kind, and the field that holds the callee *)
Definition callee_kinds : list (string * string) :=
  [("ir.InstCall", "Callee"); ("ir.TermInvoke", "Invokee"); ("ir.TermCallBr", "Callee")].

Definition run_sig (kind fld : string) (callee : ty) : res val :=
  call_printer impl globals 3 kind "Sig" (VObj kind [("Typ", VNil); (fld, operand callee)]).

Definition expect_sig (callee : ty) : res val :=
  match callee with TPtr (TFunc r ps v) _ => GoEval.Ok (reify_ty (TFunc r ps v)) | _ => Fail "panic" end.

Section Rules.
  Variable bodies : ResultType.env.

  (* Sig(): the function type behind the callee's pointer type, a panic otherwise *)
  Theorem sig_generated :
    Forall (fun kf => forall callee, run_sig (fst kf) (snd kf) callee = expect_sig callee) callee_kinds.
  Proof.
    repeat (constructor; [intros callee; destruct callee as [| | | | | | |e a| | | | |]; try reflexivity; destruct e; reflexivity|]).
    constructor.
  Qed.

  (* Type(): the return type of that function type *)
  Theorem callee_type_generated :
    Forall (fun kf => forall w callee, run_type (fst kf) [(snd kf, operand callee)] = expect (ir_type bodies (CallLike w callee)))
           callee_kinds.
  Proof.
    repeat (constructor; [intros w callee; destruct callee as [| | | | | | |e a| | | | |]; try reflexivity; destruct e; reflexivity|]).
    constructor.
  Qed.

  Corollary call_type_generated w callee :
    run_type "ir.InstCall" [("Callee", operand callee)] = expect (ir_type bodies (CallLike w callee)).
  Proof. pose proof callee_type_generated as H. inversion H as [|? ? H1 _]; subst. apply (H1 w callee). Qed.

  (* the cached type wins: an instruction the parser built (Typ filled from the text) answers with that type *)
  Theorem call_cached_type_generated t callee :
    call_printer impl globals 3 "ir.InstCall" "Type" (VObj "ir.InstCall" [("Typ", reify_ty t); ("Callee", operand callee)])
    = GoEval.Ok (reify_ty t).
  Proof. destruct t; reflexivity. Qed.

  (* wherever LLVM's rule assigns a type, parser constructor and Type() (both regenerated) compute it *)
  Theorem call_parser_and_ir_agree_generated w callee t :
    llvm_type bodies (CallLike w callee) = Some t ->
    run_new "asm.newCallInst" (VObj "ast.CallInst" [("Typ()", reify_ty w)]) = GoEval.Ok (reify_ty t)
    /\ run_type "ir.InstCall" [("Callee", operand callee)] = GoEval.Ok (reify_ty t).
  Proof.
    intros H. destruct (result_types_agree bodies (CallLike w callee) t H eq_refl) as [Hi Ha].
    rewrite (asm_call_generated bodies w callee), (call_type_generated w callee), Hi, Ha. split; reflexivity.
  Qed.
End Rules.

(* non-vacuity: a call of a function returning i32, a call through a non-pointer (panic) *)
Example call_type_examples :
  run_type "ir.InstCall" [("Callee", operand (TPtr (TFunc (TInt 32) [TInt 8] false) 0))] = GoEval.Ok (reify_ty (TInt 32))
  /\ run_type "ir.TermInvoke" [("Invokee", operand (TPtr (TFunc TVoid [] true) 2))] = GoEval.Ok (reify_ty TVoid)
  /\ run_type "ir.TermCallBr" [("Callee", operand (TInt 32))] = Fail "panic"
  /\ run_type "ir.InstCall" [("Callee", operand (TPtr (TInt 8) 0))] = Fail "panic".
Proof. vm_compute. repeat split. Qed.

Print Assumptions sig_generated.
Print Assumptions callee_type_generated.
Print Assumptions call_parser_and_ir_agree_generated.
