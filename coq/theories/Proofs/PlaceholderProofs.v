(* C04, second half: no translation-time placeholder survives, parent links agree.
   An executable model of the two-phase mechanism of package asm with OBJECT IDENTITIES:
   an object is (its kind, its allocation index in the store of that kind); Go's static types keep the
   stores apart: ir.Func / ir.Global in gen.new.globals, ir.Block, constant.BlockAddress.
     4a  createGlobalEntities   scaffolds (functions with Parent = gen.m), indexed by identifier   [map order o1]
     4b1 translateGlobalEntities  initialisers; function bodies: newLocals allocates the blocks with
         Parent = f and stores f.Blocks, then the instructions are translated                  [map order o2]
         irBlockAddressConst: look the function up in the index, allocate a DUMMY block carrying the
         label, allocate the constant (f, dummy), append it to gen.todo
     4b4,5,6  metadata definitions and use-list orders: further blockaddress sites, after the bodies
     7   fixBlockAddressConst for every constant of gen.todo: findBlock(f, dummy.LocalIdent)
     8   addDefsToModule: the module lists the indexed objects in textual order
   Abstracted: everything that is not a block, a function, a global or a blockaddress constant (an
   initialiser / an instruction list is the list of its blockaddress sites), numbering of unnamed
   identifiers (labels and global names arrive numbered, C08), types. *)
From Coq Require Import List Bool Arith ZArith Lia Sorting.Permutation Strings.Byte.
From LLIR Require Import Lib.Bytes Model.Skeleton Proofs.SkeletonProofs.
Import ListNotations.

(* ---------------- input ---------------- *)
Definition site := (ident * ident)%type.                      (* blockaddress(@f, %b) *)
Inductive abody := AVar (init : list site) | ADecl | ADef (blocks : list (ident * list site)).
Record atop := { a_id : ident; a_body : abody }.
Record amodule := { a_tops : list atop; a_late : list site }. (* a_late: sites in metadata / use-list orders *)

(* ---------------- objects and stores ---------------- *)
Definition module_addr : nat := 0.                            (* gen.m, the only module object *)
Inductive tobj := TFunc (id : ident) (parent : option nat) (blocks : list nat) | TVar (id : ident) (init : list nat).
Record bobj := { b_label : ident; b_parent : option nat; b_consts : list nat }.
Record cobj := { c_func : nat; c_block : nat }.
Record st := { s_tops : list tobj; s_blocks : list bobj; s_consts : list cobj;
               s_todo : list nat;                             (* gen.todo *)
               s_dummies : list nat }.                        (* ghost: the blocks allocated as placeholders *)
Record ir := { m_tops : list nat; m_late : list nat; m_st : st }.

Fixpoint upd {A} (l : list A) (n : nat) (x : A) : list A :=
  match l, n with [] , _ => [] | _ :: r, O => x :: r | y :: r, S n => y :: upd r n x end.
Definition index := list (ident * nat).
Fixpoint lookup (i : ident) (l : index) : option nat :=
  match l with [] => None | (i', a) :: r => if ident_eqb i i' then Some a else lookup i r end.
Fixpoint nodup_ids (l : list ident) : bool :=
  match l with [] => true | i :: r => negb (existsb (ident_eqb i) r) && nodup_ids r end.

Definition bind {A B} (x : outcome A) (f : A -> outcome B) : outcome B :=
  match x with Ok a => f a | Err => Err | Panic => Panic end.
Notation "'do' x <- a ; b" := (bind a (fun x => b)) (at level 60, x name, right associativity).
Notation "'do' ' p <- a ; b" := (bind a (fun x => match x with p => b end)) (at level 60, p pattern, right associativity).
Fixpoint mapM {A B S} (f : A -> S -> outcome (B * S)) (l : list A) (s : S) : outcome (list B * S) :=
  match l with
  | [] => Ok ([], s)
  | a :: r => do '(b, s1) <- f a s; do '(bs, s2) <- mapM f r s1; Ok (b :: bs, s2)
  end.

(* ---------------- 4a: scaffolds ---------------- *)
Definition scaf (t : atop) : tobj :=
  match a_body t with AVar _ => TVar (a_id t) [] | _ => TFunc (a_id t) (Some module_addr) [] end.
Definition create (l : list atop) : st * index :=
  ({| s_tops := map scaf l; s_blocks := []; s_consts := []; s_todo := []; s_dummies := [] |},
   combine (map a_id l) (seq 0 (length l))).

(* ---------------- irBlockAddressConst ---------------- *)
Definition tr_site (idx : index) (fb : site) (s : st) : outcome (nat * st) :=
  match lookup (fst fb) idx with
  | None => Err                                               (* unable to locate global identifier *)
  | Some fa =>
    match nth_error (s_tops s) fa with
    | Some (TFunc _ _ _) =>
      let d := length (s_blocks s) in let c := length (s_consts s) in
      Ok (c, {| s_tops := s_tops s;
                s_blocks := s_blocks s ++ [{| b_label := snd fb; b_parent := None; b_consts := [] |}];
                s_consts := s_consts s ++ [{| c_func := fa; c_block := d |}];
                s_todo := s_todo s ++ [c]; s_dummies := s_dummies s ++ [d] |})
    | Some (TVar _ _) => Err                                  (* invalid function type *)
    | None => Panic
    end
  end.

(* ---------------- 4b1: bodies ---------------- *)
Definition set_tops (s : st) (x : list tobj) : st :=
  {| s_tops := x; s_blocks := s_blocks s; s_consts := s_consts s; s_todo := s_todo s; s_dummies := s_dummies s |}.
Definition set_blocks (s : st) (x : list bobj) : st :=
  {| s_tops := s_tops s; s_blocks := x; s_consts := s_consts s; s_todo := s_todo s; s_dummies := s_dummies s |}.
Definition set_consts (s : st) (x : list cobj) : st :=
  {| s_tops := s_tops s; s_blocks := s_blocks s; s_consts := x; s_todo := s_todo s; s_dummies := s_dummies s |}.

(* translateInsts / translateTerms of one block: its sites, then the block object gets the constants *)
Definition tr_block (idx : index) (bx : nat * list site) (s : st) : outcome (unit * st) :=
  do '(cs, s1) <- mapM (tr_site idx) (snd bx) s;
  match nth_error (s_blocks s1) (fst bx) with
  | Some bo => Ok (tt, set_blocks s1 (upd (s_blocks s1) (fst bx)
                         {| b_label := b_label bo; b_parent := b_parent bo; b_consts := cs |}))
  | None => Panic
  end.
Definition tr_top (idx : index) (t : atop) (s : st) : outcome (unit * st) :=
  match lookup (a_id t) idx with
  | None => Panic                                             (* unable to locate global identifier *)
  | Some ta =>
    match a_body t, nth_error (s_tops s) ta with
    | AVar init, Some (TVar id _) =>
      do '(cs, s1) <- mapM (tr_site idx) init s; Ok (tt, set_tops s1 (upd (s_tops s1) ta (TVar id cs)))
    | ADecl, Some (TFunc _ _ _) => Ok (tt, s)
    | ADef bl, Some (TFunc id par _) =>
      (* newLocals: one fresh block object per AST block, Parent = f; f.Blocks holds them *)
      let bs := seq (length (s_blocks s)) (length bl) in
      let s1 := {| s_tops := upd (s_tops s) ta (TFunc id par bs);
                   s_blocks := s_blocks s ++ map (fun x => {| b_label := fst x; b_parent := Some ta; b_consts := [] |}) bl;
                   s_consts := s_consts s; s_todo := s_todo s; s_dummies := s_dummies s |} in
      if nodup_ids (map fst bl)                               (* indexLocals / addLocal *)
      then do '(_, s2) <- mapM (tr_block idx) (combine bs (map snd bl)) s1; Ok (tt, s2)
      else Err
    | _, _ => Panic                                           (* invalid ... type; expected ..., got ... *)
    end
  end.

(* ---------------- 7: fixBlockAddressConst ---------------- *)
Fixpoint find_block (blocks : list bobj) (lbl : ident) (bs : list nat) : option nat :=
  match bs with
  | [] => None
  | b :: r => match nth_error blocks b with
              | Some bo => if ident_eqb (b_label bo) lbl then Some b else find_block blocks lbl r
              | None => find_block blocks lbl r
              end
  end.
Definition fix_one (c : nat) (s : st) : outcome (unit * st) :=
  match nth_error (s_consts s) c with
  | None => Panic
  | Some co =>
    match nth_error (s_tops s) (c_func co), nth_error (s_blocks s) (c_block co) with
    | Some (TFunc _ _ bs), Some d =>
      match find_block (s_blocks s) (b_label d) bs with
      | Some b => Ok (tt, set_consts s (upd (s_consts s) c {| c_func := c_func co; c_block := b |}))
      | None => Err                                           (* unable to locate basic block *)
      end
    | _, _ => Panic
    end
  end.

(* ---------------- 8: addDefsToModule ---------------- *)
Fixpoint assemble (idx : index) (l : list atop) : outcome (list nat) :=
  match l with
  | [] => Ok []
  | t :: r => match lookup (a_id t) idx with
              | None => Panic
              | Some a => do r' <- assemble idx r; Ok (a :: r')
              end
  end.

Definition translate (o1 o2 : oracle) (a : amodule) : outcome ir :=
  if nodup_ids (map a_id (a_tops a)) then                                 (* 1: indexTopLevelEntities *)
    let '(s0, idx) := create (o1 _ (a_tops a)) in                         (* 4a *)
    do '(_, s1) <- mapM (tr_top idx) (o2 _ (a_tops a)) s0;                (* 4b1 *)
    do '(late, s2) <- mapM (tr_site idx) (a_late a) s1;                   (* 4b4, 5, 6 *)
    do '(_, s3) <- mapM fix_one (s_todo s2) s2;                           (* 7 *)
    do tops <- assemble idx (a_tops a);                                   (* 8 *)
    Ok {| m_tops := tops; m_late := late; m_st := s3 |}
  else Err.

(* ---------------- observation (address free): what a harness can compare ---------------- *)
Fixpoint pos (x : nat) (l : list nat) : option nat :=
  match l with [] => None | y :: r => if x =? y then Some 0 else option_map S (pos x r) end.
(* a blockaddress constant: (position of its function in the module, position of its block in that function) *)
Definition obs_const (r : ir) (c : nat) : option (nat * nat) :=
  match nth_error (s_consts (m_st r)) c with
  | Some co =>
    match pos (c_func co) (m_tops r), nth_error (s_tops (m_st r)) (c_func co) with
    | Some fp, Some (TFunc _ _ bs) => option_map (pair fp) (pos (c_block co) bs)
    | _, _ => None
    end
  | None => None                                              (* dangling *)
  end.
Inductive obs :=
| ObsVar (init : list (option (nat * nat)))
| ObsFunc (parent_ok : bool) (blocks : list (bool * list (option (nat * nat)))).   (* per block: parent ok, constants *)
Definition obs_top (r : ir) (ta : nat) : option obs :=
  match nth_error (s_tops (m_st r)) ta with
  | Some (TVar _ cs) => Some (ObsVar (map (obs_const r) cs))
  | Some (TFunc _ par bs) =>
    Some (ObsFunc (match par with Some m => m =? module_addr | None => false end)
            (map (fun b => match nth_error (s_blocks (m_st r)) b with
                           | Some bo => (match b_parent bo with Some p => p =? ta | None => false end,
                                         map (obs_const r) (b_consts bo))
                           | None => (false, [])
                           end) bs))
  | None => None
  end.
Definition observe (r : ir) : list (option obs) * list (option (nat * nat)) :=
  (map (obs_top r) (m_tops r), map (obs_const r) (m_late r)).
Definition run (o1 o2 : oracle) (a : amodule) := match translate o1 o2 a with Ok r => Ok (observe r) | Err => Err | Panic => Panic end.

(* the blocks reachable from the module: listed by a listed function, or held by a constant of a listed
   initialiser / block / late site *)
Definition const_blocks (s : st) (cs : list nat) : list nat :=
  flat_map (fun c => match nth_error (s_consts s) c with Some co => [c_block co] | None => [] end) cs.
Definition reach_blocks (r : ir) : list nat :=
  let s := m_st r in
  flat_map (fun ta => match nth_error (s_tops s) ta with
                      | Some (TVar _ cs) => const_blocks s cs
                      | Some (TFunc _ _ bs) =>
                        bs ++ flat_map (fun b => match nth_error (s_blocks s) b with
                                                 | Some bo => const_blocks s (b_consts bo) | None => [] end) bs
                      | None => []
                      end) (m_tops r) ++ const_blocks s (m_late r).

(* ---------------- examples ---------------- *)
Definition rev_oracle : oracle := fun _ l => rev l.
Definition f_ := IName [x66]. Definition g_ := IName [x67]. Definition v_ := IName [x76].
Definition l1 := IName [x61]. Definition l2 := IName [x62].
(* @v = global ptr blockaddress(@f, %b)  before  define @f { a: b: } *)
Definition ex_forward := {| a_tops := [ {| a_id := v_; a_body := AVar [(f_, l2)] |};
                                        {| a_id := f_; a_body := ADef [(l1, []); (l2, [])] |} ]; a_late := [] |}.
Example ex_forward_ok : run id_oracle id_oracle ex_forward =
  Ok ([Some (ObsVar [Some (1, 1)]); Some (ObsFunc true [(true, []); (true, [])])], []).
Proof. vm_compute. reflexivity. Qed.
Example ex_forward_ok_other_order : run rev_oracle rev_oracle ex_forward = run id_oracle id_oracle ex_forward.
Proof. vm_compute. reflexivity. Qed.
(* the placeholder was block 0 of the block store; the constant now holds block 2 = the second block of @f *)
Example ex_forward_store : match translate id_oracle id_oracle ex_forward with
                           | Ok r => (s_dummies (m_st r), s_consts (m_st r), s_tops (m_st r))
                           | _ => ([], [], []) end =
  ([0], [{| c_func := 1; c_block := 2 |}], [TVar v_ [0]; TFunc f_ (Some 0) [1; 2]]).
Proof. vm_compute. reflexivity. Qed.
(* define @f { a: br (blockaddress(@f, %b)) b: use blockaddress(@g, %a) }  define @g { a: }, and a metadata site *)
Definition ex_self := {| a_tops := [ {| a_id := f_; a_body := ADef [(l1, [(f_, l2)]); (l2, [(g_, l1)])] |};
                                     {| a_id := g_; a_body := ADef [(l1, [])] |} ]; a_late := [(f_, l1)] |}.
Example ex_self_ok : run id_oracle id_oracle ex_self =
  Ok ([Some (ObsFunc true [(true, [Some (0, 1)]); (true, [Some (1, 0)])]); Some (ObsFunc true [(true, [])])], [Some (0, 0)]).
Proof. vm_compute. reflexivity. Qed.
Example ex_self_ok_other_order : run id_oracle rev_oracle ex_self = run id_oracle id_oracle ex_self.
Proof. vm_compute. reflexivity. Qed.
(* a missing block, a missing function, a global variable named as the function, a declaration: errors *)
Example ex_missing_block : run id_oracle id_oracle
  {| a_tops := [ {| a_id := v_; a_body := AVar [(f_, l2)] |}; {| a_id := f_; a_body := ADef [(l1, [])] |} ]; a_late := [] |} = Err.
Proof. vm_compute. reflexivity. Qed.
Example ex_missing_block_late : run id_oracle id_oracle
  {| a_tops := [ {| a_id := f_; a_body := ADef [(l1, [])] |} ]; a_late := [(f_, l2)] |} = Err.
Proof. vm_compute. reflexivity. Qed.
Example ex_missing_func : run id_oracle id_oracle {| a_tops := [ {| a_id := v_; a_body := AVar [(f_, l2)] |} ]; a_late := [] |} = Err.
Proof. vm_compute. reflexivity. Qed.
Example ex_not_a_func : run id_oracle id_oracle
  {| a_tops := [ {| a_id := v_; a_body := AVar [] |}; {| a_id := g_; a_body := AVar [(v_, l1)] |} ]; a_late := [] |} = Err.
Proof. vm_compute. reflexivity. Qed.
Example ex_declaration : run id_oracle id_oracle
  {| a_tops := [ {| a_id := f_; a_body := ADecl |}; {| a_id := g_; a_body := AVar [(f_, l1)] |} ]; a_late := [] |} = Err.
Proof. vm_compute. reflexivity. Qed.

(* ================= proofs ================= *)
Lemma nth_error_upd {A} (l : list A) n x m :
  nth_error (upd l n x) m = if n =? m then match nth_error l n with Some _ => Some x | None => None end else nth_error l m.
Proof.
  revert n m; induction l as [|y l IH]; intros [|n] [|m]; cbn; try reflexivity.
  - destruct (n =? m); reflexivity.
  - apply IH.
Qed.
Lemma nth_error_app_some {A} (l l' : list A) n x : nth_error l n = Some x -> nth_error (l ++ l') n = Some x.
Proof. intros H. rewrite nth_error_app1; [exact H|]. apply nth_error_Some. congruence. Qed.
Lemma nth_error_snoc {A} (l : list A) y n x :
  nth_error (l ++ [y]) n = Some x -> nth_error l n = Some x \/ (n = length l /\ x = y).
Proof.
  intros H. destruct (Nat.lt_ge_cases n (length l)) as [L|L].
  - rewrite nth_error_app1 in H by exact L. left; exact H.
  - rewrite nth_error_app2 in H by exact L. destruct (n - length l) as [|k] eqn:E; cbn in H.
    + right. split; [lia|congruence].
    + destruct k; discriminate.
Qed.

Lemma mapM_inv {A B S} (f : A -> S -> outcome (B * S)) (P : S -> Prop) :
  (forall a s b s', f a s = Ok (b, s') -> P s -> P s') ->
  forall l s bs s', mapM f l s = Ok (bs, s') -> P s -> P s'.
Proof.
  intros H; induction l as [|a l IH]; cbn; intros s bs s' E Ps.
  - inversion E; subst; exact Ps.
  - destruct (f a s) as [[b s1]| |] eqn:E1; cbn in E; try discriminate.
    destruct (mapM f l s1) as [[bs' s2]| |] eqn:E2; cbn in E; try discriminate.
    inversion E; subst. eapply IH; [exact E2|]. eapply H; eauto.
Qed.
Lemma mapM_each {A B S} (f : A -> S -> outcome (B * S)) (Q : A -> S -> Prop) :
  (forall a s b s', f a s = Ok (b, s') -> Q a s') ->
  (forall a a' s b s', f a s = Ok (b, s') -> Q a' s -> Q a' s') ->
  forall l s bs s', mapM f l s = Ok (bs, s') -> forall a, In a l -> Q a s'.
Proof.
  intros H1 H2; induction l as [|a0 l IH]; cbn; intros s bs s' E a Ha; [contradiction|].
  destruct (f a0 s) as [[b s1]| |] eqn:E1; cbn in E; try discriminate.
  destruct (mapM f l s1) as [[bs' s2]| |] eqn:E2; cbn in E; try discriminate.
  inversion E; subst. destruct Ha as [->|Ha].
  - eapply (mapM_inv f (Q a)); [intros; eapply H2; eauto|exact E2|]. eapply H1; eauto.
  - eapply IH; eauto.
Qed.

(* ---- the invariant ---- *)
Definition parents_ok (tops : list tobj) (blocks : list bobj) : Prop :=
  forall fa id par bs, nth_error tops fa = Some (TFunc id par bs) ->
    par = Some module_addr /\
    forall b, In b bs -> exists bo, nth_error blocks b = Some bo /\ b_parent bo = Some fa.
Definition dummies_ok (dummies : list nat) (blocks : list bobj) : Prop :=
  forall d, In d dummies -> exists bo, nth_error blocks d = Some bo /\ b_parent bo = None.
Definition consts_ok (idx : index) (consts : list cobj) (todo : list nat) : Prop :=
  forall c co, nth_error consts c = Some co -> In c todo /\ exists fid, lookup fid idx = Some (c_func co).
Definition inv (idx : index) (s : st) : Prop :=
  parents_ok (s_tops s) (s_blocks s) /\ dummies_ok (s_dummies s) (s_blocks s) /\ consts_ok idx (s_consts s) (s_todo s).

(* block stores only grow, and an update keeps the parent link *)
Definition bext (bl bl' : list bobj) : Prop :=
  forall b x, nth_error bl b = Some x -> exists x', nth_error bl' b = Some x' /\ b_parent x' = b_parent x.
Lemma bext_app bl l : bext bl (bl ++ l).
Proof. intros b x H. exists x. split; [apply nth_error_app_some; exact H|reflexivity]. Qed.
Lemma bext_upd bl b bo bo' : nth_error bl b = Some bo -> b_parent bo' = b_parent bo -> bext bl (upd bl b bo').
Proof.
  intros Hb Hp b0 x H. rewrite nth_error_upd. destruct (b =? b0) eqn:E.
  - apply Nat.eqb_eq in E; subst b0. rewrite Hb. exists bo'. split; [reflexivity|congruence].
  - exists x. split; [exact H|reflexivity].
Qed.
Lemma parents_ok_bext tops bl bl' : bext bl bl' -> parents_ok tops bl -> parents_ok tops bl'.
Proof.
  intros X P fa id par bs H. destruct (P _ _ _ _ H) as [Hp Hb]. split; [exact Hp|].
  intros b Ib. destruct (Hb b Ib) as (bo & E & Pb). destruct (X _ _ E) as (x' & E' & Px). exists x'. split; congruence.
Qed.
Lemma dummies_ok_bext ds bl bl' : bext bl bl' -> dummies_ok ds bl -> dummies_ok ds bl'.
Proof.
  intros X D d Id. destruct (D d Id) as (bo & E & Pb). destruct (X _ _ E) as (x' & E' & Px). exists x'. split; congruence.
Qed.

Lemma tr_site_inv idx fb s c s' : tr_site idx fb s = Ok (c, s') -> inv idx s -> inv idx s'.
Proof.
  unfold tr_site. destruct (lookup (fst fb) idx) as [fa|] eqn:L; [|discriminate].
  destruct (nth_error (s_tops s) fa) as [[id par bs|]|] eqn:T; try discriminate.
  intros E (P & D & C). inversion E; subst; clear E. split; [|split]; cbn.
  - eapply parents_ok_bext; [apply bext_app|exact P].
  - intros d Id. apply in_app_or in Id as [Id|[<-|[]]].
    + exact (dummies_ok_bext _ _ _ (bext_app _ _) D d Id).
    + exists {| b_label := snd fb; b_parent := None; b_consts := [] |}. split; [|reflexivity].
      rewrite nth_error_app2, Nat.sub_diag by lia. reflexivity.
  - intros c co H. apply nth_error_snoc in H as [H|[-> ->]].
    + destruct (C _ _ H) as [H1 H2]. split; [apply in_or_app; left; exact H1|exact H2].
    + split; [apply in_or_app; right; left; reflexivity|]. exists (fst fb). exact L.
Qed.
Lemma tr_sites_inv idx l s cs s' : mapM (tr_site idx) l s = Ok (cs, s') -> inv idx s -> inv idx s'.
Proof. apply (mapM_inv (tr_site idx) (inv idx)). intros a s0 b s0'. apply tr_site_inv. Qed.

Lemma tr_block_inv idx bx s u s' : tr_block idx bx s = Ok (u, s') -> inv idx s -> inv idx s'.
Proof.
  unfold tr_block. destruct (mapM (tr_site idx) (snd bx) s) as [[cs s1]| |] eqn:E1; cbn; try discriminate.
  destruct (nth_error (s_blocks s1) (fst bx)) as [bo|] eqn:B; [|discriminate].
  intros E I. inversion E; subst; clear E. destruct (tr_sites_inv _ _ _ _ _ E1 I) as (P & D & C).
  assert (X : bext (s_blocks s1) (upd (s_blocks s1) (fst bx) {| b_label := b_label bo; b_parent := b_parent bo; b_consts := cs |}))
    by (eapply bext_upd; [exact B|reflexivity]).
  split; [|split]; cbn; [eapply parents_ok_bext; eauto|eapply dummies_ok_bext; eauto|exact C].
Qed.

Lemma tr_top_inv idx t s u s' : tr_top idx t s = Ok (u, s') -> inv idx s -> inv idx s'.
Proof.
  unfold tr_top. destruct (lookup (a_id t) idx) as [ta|]; [|discriminate].
  destruct (a_body t) as [init| |bl]; destruct (nth_error (s_tops s) ta) as [[id par bs0|id ci]|] eqn:T; try discriminate.
  - (* global variable *)
    destruct (mapM (tr_site idx) init s) as [[cs s1]| |] eqn:E1; cbn; try discriminate.
    intros E I. inversion E; subst; clear E. destruct (tr_sites_inv _ _ _ _ _ E1 I) as (P & D & C).
    split; [|split]; cbn; [|exact D|exact C].
    intros fa id' par bs H. rewrite nth_error_upd in H. destruct (ta =? fa).
    + destruct (nth_error (s_tops s1) ta); discriminate.
    + exact (P _ _ _ _ H).
  - (* declaration *) intros E I. inversion E; subst. exact I.
  - (* definition *)
    destruct (nodup_ids (map fst bl)); [|discriminate].
    match goal with |- context [mapM (tr_block idx) ?l ?s1] => destruct (mapM (tr_block idx) l s1) as [[x s2]| |] eqn:E1 end;
      cbn; try discriminate.
    intros E (P & D & C). inversion E; subst; clear E.
    eapply (mapM_inv (tr_block idx) (inv idx)); [intros a s0 b s0'; apply tr_block_inv|exact E1|].
    split; [|split]; cbn; [| |exact C].
    + intros fa id' par' bs H. rewrite nth_error_upd in H. destruct (ta =? fa) eqn:Q.
      * apply Nat.eqb_eq in Q; subst fa. rewrite T in H. inversion H; subst; clear H. split; [apply (P _ _ _ _ T)|].
        intros b Ib. apply in_seq in Ib. rewrite nth_error_app2 by lia.
        destruct (nth_error (map (fun x => {| b_label := fst x; b_parent := Some ta; b_consts := [] |}) bl) (b - length (s_blocks s))) as [bo|] eqn:N.
        -- exists bo. split; [reflexivity|]. apply nth_error_In, in_map_iff in N as (y & <- & _). reflexivity.
        -- apply nth_error_None in N. rewrite map_length in N. lia.
      * eapply parents_ok_bext; [apply bext_app|exact P|exact H].
    + eapply dummies_ok_bext; [apply bext_app|exact D].
Qed.

(* ---- step 7 ---- *)
Definition good (c : nat) (s : st) : Prop :=
  exists co id par bs, nth_error (s_consts s) c = Some co /\
    nth_error (s_tops s) (c_func co) = Some (TFunc id par bs) /\ In (c_block co) bs.
Lemma find_block_in blocks lbl bs b : find_block blocks lbl bs = Some b -> In b bs.
Proof.
  induction bs as [|b0 r IH]; cbn; [discriminate|].
  destruct (nth_error blocks b0) as [bo|]; [destruct (ident_eqb (b_label bo) lbl)|]; intros H;
    try (right; apply IH; exact H). left. congruence.
Qed.
Lemma fix_one_shape c s u s' : fix_one c s = Ok (u, s') ->
  exists co id par bs b, nth_error (s_consts s) c = Some co /\ nth_error (s_tops s) (c_func co) = Some (TFunc id par bs) /\
    In b bs /\ s' = set_consts s (upd (s_consts s) c {| c_func := c_func co; c_block := b |}).
Proof.
  unfold fix_one. destruct (nth_error (s_consts s) c) as [co|] eqn:C; [|discriminate].
  destruct (nth_error (s_tops s) (c_func co)) as [[id par bs|]|] eqn:T; try discriminate.
  destruct (nth_error (s_blocks s) (c_block co)) as [d|]; [|discriminate].
  destruct (find_block (s_blocks s) (b_label d) bs) as [b|] eqn:F; [|discriminate].
  intros E. inversion E; subst. exists co, id, par, bs, b. repeat split; try assumption. eapply find_block_in; exact F.
Qed.
Lemma fix_one_good c c' s u s' : fix_one c s = Ok (u, s') -> c' = c \/ good c' s -> good c' s'.
Proof.
  intros E H. destruct (fix_one_shape _ _ _ _ E) as (co & id & par & bs & b & C & T & Ib & ->).
  unfold good; cbn. rewrite nth_error_upd. destruct (c =? c') eqn:Q.
  - rewrite C. exists {| c_func := c_func co; c_block := b |}, id, par, bs. cbn. auto.
  - destruct H as [->|H]; [rewrite Nat.eqb_refl in Q; discriminate|exact H].
Qed.
Lemma fix_one_inv idx T c s u s' : fix_one c s = Ok (u, s') -> inv idx s /\ s_todo s = T -> inv idx s' /\ s_todo s' = T.
Proof.
  intros E ((P & D & C) & HT). destruct (fix_one_shape _ _ _ _ E) as (co & id & par & bs & b & Cc & _ & _ & ->).
  split; [|exact HT]. split; [|split]; cbn; try assumption.
  intros c0 co0 H. rewrite nth_error_upd in H. destruct (c =? c0) eqn:Q; [|apply (C _ _ H)].
  apply Nat.eqb_eq in Q; subst c0. rewrite Cc in H. inversion H; subst; cbn. apply (C _ _ Cc).
Qed.

(* ---- index and assembly ---- *)
Lemma lookup_in i idx a : lookup i idx = Some a -> In (i, a) idx.
Proof.
  induction idx as [|[i' a'] r IH]; cbn; [discriminate|]. destruct (ident_eqb i i') eqn:E.
  - apply ident_eqb_spec in E. intros [= ->]. left. congruence.
  - intros H. right. apply IH, H.
Qed.
Lemma assemble_in idx l tops : assemble idx l = Ok tops ->
  forall t fa, In t l -> lookup (a_id t) idx = Some fa -> In fa tops.
Proof.
  revert tops; induction l as [|t0 r IH]; cbn; intros tops E t fa It L; [contradiction|].
  destruct (lookup (a_id t0) idx) as [a0|] eqn:L0; [|discriminate].
  destruct (assemble idx r) as [r'| |]; cbn in E; try discriminate. inversion E; subst.
  destruct It as [->|It]; [left; congruence|right; eapply IH; eauto].
Qed.

(* ---- the whole translation ---- *)
Lemma translate_inv o1 o2 a r : translate o1 o2 a = Ok r ->
  let idx := snd (create (o1 _ (a_tops a))) in
  inv idx (m_st r) /\ (forall c, In c (s_todo (m_st r)) -> good c (m_st r)) /\ assemble idx (a_tops a) = Ok (m_tops r).
Proof.
  unfold translate. destruct (nodup_ids (map a_id (a_tops a))); [|discriminate].
  cbn [create snd]. set (idx := combine _ _). set (s0 := Build_st _ _ _ _ _).
  destruct (mapM (tr_top idx) (o2 atop (a_tops a)) s0) as [[x1 s1]| |] eqn:E1; cbn; try discriminate.
  destruct (mapM (tr_site idx) (a_late a) s1) as [[late s2]| |] eqn:E2; cbn; try discriminate.
  destruct (mapM fix_one (s_todo s2) s2) as [[x3 s3]| |] eqn:E3; cbn; try discriminate.
  destruct (assemble idx (a_tops a)) as [tops| |] eqn:E4; cbn; try discriminate.
  intros E; inversion E; subst; clear E; cbn.
  assert (I0 : inv idx s0).
  { split; [|split]; cbn.
    - intros fa id par bs H. apply nth_error_In, in_map_iff in H as (t & S & _). unfold scaf in S.
      destruct (a_body t); inversion S; subst; (split; [reflexivity|intros b []]).
    - intros d [].
    - intros c co H. destruct c; discriminate. }
  assert (I1 : inv idx s1) by (eapply (mapM_inv (tr_top idx) (inv idx)); [intros ? ? ? ?; apply tr_top_inv|exact E1|exact I0]).
  assert (I2 : inv idx s2) by (eapply tr_sites_inv; eauto).
  assert (I3 : inv idx s3 /\ s_todo s3 = s_todo s2).
  { eapply (mapM_inv fix_one (fun s => inv idx s /\ s_todo s = s_todo s2)); [intros ? ? ? ?; apply fix_one_inv|exact E3|auto]. }
  destruct I3 as [I3 HT]. split; [exact I3|]. split; [|reflexivity].
  rewrite HT. eapply (mapM_each fix_one good); [| |exact E3].
  - intros c s b s' F. eapply fix_one_good; [exact F|left; reflexivity].
  - intros c c' s b s' F G. eapply fix_one_good; [exact F|right; exact G].
Qed.

Lemma listed_not_dummy idx s fa id par bs b :
  inv idx s -> nth_error (s_tops s) fa = Some (TFunc id par bs) -> In b bs -> ~ In b (s_dummies s).
Proof.
  intros (P & D & _) T Ib Id. destruct (P _ _ _ _ T) as [_ Hb]. destruct (Hb b Ib) as (bo & E & Pb).
  destruct (D b Id) as (bo' & E' & Pb'). congruence.
Qed.

(* 1. every blockaddress constant created during the translation -- reachable or not, whatever the orders
      o1 (creation of the scaffolds) and o2 (translation of the bodies) -- ends up holding a block that the
      function it names lists, that function is listed by the module, and the block is not a placeholder *)
Theorem no_placeholder : forall (o1 o2 : oracle) a r, fair o1 -> translate o1 o2 a = Ok r ->
  forall c co, nth_error (s_consts (m_st r)) c = Some co ->
  exists id par bs, In (c_func co) (m_tops r) /\
    nth_error (s_tops (m_st r)) (c_func co) = Some (TFunc id par bs) /\
    In (c_block co) bs /\ ~ In (c_block co) (s_dummies (m_st r)).
Proof.
  intros o1 o2 a r F E c co C. destruct (translate_inv _ _ _ _ E) as (I & G & A).
  pose proof I as (_ & _ & Cs). destruct (Cs _ _ C) as (Ic & fid & L).
  destruct (G c Ic) as (co' & id & par & bs & C' & T & Ib). rewrite C in C'; inversion C'; subst co'.
  exists id, par, bs. repeat split; try assumption.
  - pose proof L as L'. apply lookup_in in L'. cbn in L'. apply in_combine_l, in_map_iff in L' as (t & <- & It).
    eapply assemble_in; [exact A| |exact L]. eapply Permutation_in; [apply F|exact It].
  - eapply listed_not_dummy; eauto.
Qed.

(* 2. parent links: every function object points to the module, every block a function lists points to it *)
Theorem parents_agree : forall (o1 o2 : oracle) a r, translate o1 o2 a = Ok r ->
  forall fa id par bs, nth_error (s_tops (m_st r)) fa = Some (TFunc id par bs) ->
    par = Some module_addr /\
    forall b, In b bs -> exists bo, nth_error (s_blocks (m_st r)) b = Some bo /\ b_parent bo = Some fa.
Proof. intros o1 o2 a r E. destruct (translate_inv _ _ _ _ E) as ((P & _) & _). exact P. Qed.

(* every block reachable from the module is listed by a function the module lists, and is no placeholder *)
Lemma const_blocks_in s cs b : In b (const_blocks s cs) -> exists c co, nth_error (s_consts s) c = Some co /\ c_block co = b.
Proof.
  unfold const_blocks. intros H. apply in_flat_map in H as (c & _ & H).
  destruct (nth_error (s_consts s) c) as [co|] eqn:E; [|contradiction]. destruct H as [<-|[]]. eauto.
Qed.
Theorem no_placeholder_reachable : forall (o1 o2 : oracle) a r, fair o1 -> translate o1 o2 a = Ok r ->
  forall b, In b (reach_blocks r) ->
    ~ In b (s_dummies (m_st r)) /\
    exists fa id par bs, In fa (m_tops r) /\ nth_error (s_tops (m_st r)) fa = Some (TFunc id par bs) /\ In b bs.
Proof.
  intros o1 o2 a r F E b Hb.
  assert (K : forall cs, In b (const_blocks (m_st r) cs) -> ~ In b (s_dummies (m_st r)) /\
            exists fa id par bs, In fa (m_tops r) /\ nth_error (s_tops (m_st r)) fa = Some (TFunc id par bs) /\ In b bs).
  { intros cs H. apply const_blocks_in in H as (c & co & C & <-).
    destruct (no_placeholder _ _ _ _ F E _ _ C) as (id & par & bs & I1 & T & I2 & N). split; [exact N|]. eauto 8. }
  unfold reach_blocks in Hb. apply in_app_or in Hb as [Hb|Hb]; [|eapply K; exact Hb].
  apply in_flat_map in Hb as (ta & Ita & Hb).
  destruct (nth_error (s_tops (m_st r)) ta) as [[id par bs|id cs]|] eqn:T; [|eapply K; exact Hb|contradiction].
  apply in_app_or in Hb as [Hb|Hb].
  - split; [|eauto 8]. destruct (translate_inv _ _ _ _ E) as (I & _). eapply listed_not_dummy; eauto.
  - apply in_flat_map in Hb as (b0 & _ & Hb). destruct (nth_error (s_blocks (m_st r)) b0); [eapply K; exact Hb|contradiction].
Qed.

(* the address-free observation of a constant is never "dangling" *)
Lemma pos_in x l : In x l -> exists n, pos x l = Some n.
Proof.
  induction l as [|y r IH]; cbn; [contradiction|]. intros H. destruct (x =? y) eqn:E; [eauto|].
  destruct H as [->|H]; [rewrite Nat.eqb_refl in E; discriminate|]. destruct (IH H) as (n & ->). cbn. eauto.
Qed.
Theorem observed_constants_resolve : forall (o1 o2 : oracle) a r, fair o1 -> translate o1 o2 a = Ok r ->
  forall c co, nth_error (s_consts (m_st r)) c = Some co -> exists fp bp, obs_const r c = Some (fp, bp).
Proof.
  intros o1 o2 a r F E c co C. destruct (no_placeholder _ _ _ _ F E _ _ C) as (id & par & bs & I1 & T & I2 & _).
  unfold obs_const. rewrite C, T. destruct (pos_in _ _ I1) as (fp & ->). destruct (pos_in _ _ I2) as (bp & ->). cbn. eauto.
Qed.
Print Assumptions no_placeholder.
Print Assumptions parents_agree.
Print Assumptions no_placeholder_reachable.
Print Assumptions observed_constants_resolve.
