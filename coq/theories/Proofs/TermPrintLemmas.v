From Coq Require Import List String ZArith NArith Bool Lia.
From Coq Require Import Strings.Byte.
From LLIR Require Import Lib.Bytes Lib.Radix Model.Enc Model.Types Model.TypeString Model.GoEval Gen.Enums Gen.Printers Proofs.PrinterRefinement Proofs.InstPrintBase.
Import ListNotations.
Open Scope string_scope.

(* C01, text layer: terminators (see InstPrintBase.v).  A block operand is an abstract value of type label. *)

(* ret void ; ret T %x *)
Lemma print_ret g fuel x mds :
  call_printer impl g (S fuel) "ir.TermRet" "LLString"
    (VObj "ir.TermRet" [("X", match x with Some (tx, ix) => value tx ix | None => VNil end); ("Metadata", VList (map mdatt mds))])
  = Ok (VStr (match x with Some (tx, ix) => lit "ret " ++ tv tx ix | None => lit "ret void" end ++ mds_text mds)%list).
Proof. destruct x as [[tx ix]|]; enter; loop; done. Qed.

(* br label %target *)
Lemma print_br g fuel target mds :
  call_printer impl g (S fuel) "ir.TermBr" "LLString"
    (VObj "ir.TermBr" [("Target", value (lit "label") target); ("Metadata", VList (map mdatt mds))])
  = Ok (VStr (lit "br label " ++ target ++ mds_text mds)%list).
Proof. enter; loop; done. Qed.

(* br i1 %c, label %t, label %f *)
Lemma print_condbr g fuel tc ic t f mds :
  call_printer impl g (S fuel) "ir.TermCondBr" "LLString"
    (VObj "ir.TermCondBr" [("Cond", value tc ic); ("TargetTrue", value (lit "label") t); ("TargetFalse", value (lit "label") f);
                           ("Metadata", VList (map mdatt mds))])
  = Ok (VStr (lit "br " ++ tv tc ic ++ lit ", label " ++ t ++ lit ", label " ++ f ++ mds_text mds)%list).
Proof. enter; loop; done. Qed.

(* switch T %x, label %default [ T c1, label %l1 ... ] -- each case on a line of its own, written by the regenerated Case.String *)
Definition acase (t : bytes) (x : bytes * bytes) : val :=
  VObj "ir.Case" [("X", value t (fst x)); ("Target", value (lit "label") (snd x))].
Lemma print_switch g fuel tx ix default (cases : list (bytes * bytes)) mds :
  call_printer impl g (S (S fuel)) "ir.TermSwitch" "LLString"
    (VObj "ir.TermSwitch" [("X", value tx ix); ("TargetDefault", value (lit "label") default); ("Cases", VList (map (acase tx) cases));
                           ("Metadata", VList (map mdatt mds))])
  = Ok (VStr (lit "switch " ++ tv tx ix ++ lit ", label " ++ default ++ lit " [" ++ [x0a]
              ++ List.concat (map (fun c => [x09; x09] ++ tx ++ lit " " ++ fst c ++ lit ", label " ++ snd c ++ [x0a])%list cases)
              ++ [x09] ++ lit "]" ++ mds_text mds)%list).
Proof. enter; loop; loop; done. Qed.

(* unreachable *)
Lemma print_unreachable g fuel mds :
  call_printer impl g (S fuel) "ir.TermUnreachable" "LLString" (VObj "ir.TermUnreachable" [("Metadata", VList (map mdatt mds))])
  = Ok (VStr (lit "unreachable" ++ mds_text mds)%list).
Proof. enter; loop; done. Qed.

(* resume T %x *)
Lemma print_resume g fuel tx ix mds :
  call_printer impl g (S fuel) "ir.TermResume" "LLString" (VObj "ir.TermResume" [("X", value tx ix); ("Metadata", VList (map mdatt mds))])
  = Ok (VStr (lit "resume " ++ tv tx ix ++ mds_text mds)%list).
Proof. enter; loop; done. Qed.

(* indirectbr T* %addr, [label %a, label %b] *)
Lemma print_indirectbr g fuel ta ia (targets : list bytes) mds :
  call_printer impl g (S fuel) "ir.TermIndirectBr" "LLString"
    (VObj "ir.TermIndirectBr" [("Addr", value ta ia); ("ValidTargets", VList (map (value (lit "label")) targets)); ("Metadata", VList (map mdatt mds))])
  = Ok (VStr (lit "indirectbr " ++ tv ta ia ++ lit ", [" ++ joinsep (lit ", ") (map (fun l => lit "label " ++ l)%list targets) ++ lit "]"
              ++ mds_text mds)%list).
Proof. enter; loop_sep; loop; done. Qed.

(* catchret from %pad to label %target *)
Lemma print_catchret g fuel tp ip target mds :
  call_printer impl g (S fuel) "ir.TermCatchRet" "LLString"
    (VObj "ir.TermCatchRet" [("CatchPad", value tp ip); ("Target", value (lit "label") target); ("Metadata", VList (map mdatt mds))])
  = Ok (VStr (lit "catchret from " ++ ip ++ lit " to label " ++ target ++ mds_text mds)%list).
Proof. enter; loop; done. Qed.

(* cleanupret from %pad unwind label %target ; cleanupret from %pad unwind to caller *)
Definition unwind_text (u : option bytes) : bytes := match u with Some l => (lit "label " ++ l)%list | None => lit "to caller" end.
Definition unwind_val (u : option bytes) : val := match u with Some l => value (lit "label") l | None => VNil end.
Lemma print_cleanupret g fuel tp ip unwind mds :
  call_printer impl g (S fuel) "ir.TermCleanupRet" "LLString"
    (VObj "ir.TermCleanupRet" [("CleanupPad", value tp ip); ("UnwindTarget", unwind_val unwind); ("Metadata", VList (map mdatt mds))])
  = Ok (VStr (lit "cleanupret from " ++ ip ++ lit " unwind " ++ unwind_text unwind ++ mds_text mds)%list).
Proof. destruct unwind; unfold unwind_text, unwind_val; enter; loop; done. Qed.

(* %r = catchswitch within %pad [label %h1, label %h2] unwind to caller *)
Lemma print_catchswitch g fuel id tp ip (handlers : list bytes) unwind mds :
  call_printer impl g (S fuel) "ir.TermCatchSwitch" "LLString"
    (VObj "ir.TermCatchSwitch" [("Ident()", VStr id); ("ParentPad", value tp ip); ("Handlers", VList (map (value (lit "label")) handlers));
                                ("DefaultUnwindTarget", unwind_val unwind); ("Metadata", VList (map mdatt mds))])
  = Ok (VStr (id ++ lit " = catchswitch within " ++ ip ++ lit " [" ++ joinsep (lit ", ") (map (fun l => lit "label " ++ l)%list handlers)
              ++ lit "] unwind " ++ unwind_text unwind ++ mds_text mds)%list).
Proof. destruct unwind; unfold unwind_text, unwind_val; enter; loop_sep; loop; done. Qed.
