From Coq Require Import List Bool ZArith Lia.
From LLIR Require Import Model.Numbering Model.History Proofs.NumberingProofs.
Import ListNotations.
Local Open Scope Z_scope.

Lemma run_app h1 h2 l : run (h1 ++ h2) l = fold_left step h2 (run h1 l).
Proof. unfold run. apply fold_left_app. Qed.

Lemma step_none h : fold_left step h None = None.
Proof. induction h; cbn; auto. Qed.

(* observers other than printing never matter *)
Fixpoint drop_queries (h : list op) : list op :=
  match h with [] => [] | Query :: r => drop_queries r | o :: r => o :: drop_queries r end.

Theorem nonprint_observers_noop h : forall s, fold_left step h s = fold_left step (drop_queries h) s.
Proof.
  induction h as [|o r IH]; intros s; [reflexivity|].
  destruct o; cbn [drop_queries fold_left]; try apply IH.
  destruct s; cbn [step]; apply IH.
Qed.

(* printing twice in a row shows the same thing as printing once *)
Theorem print_twice_same l : run [Print; Print] l = run [Print] l.
Proof.
  unfold run. cbn [fold_left].
  change (step (Some l) Print) with (match assign_ids l with Ok l' => Some l' | Err => None end).
  destruct (assign_ids l) as [l'|] eqn:E; cbn [step]; [|reflexivity].
  rewrite (assign_idempotent l l' E). reflexivity.
Qed.

(* numbering only looks at names and value-ness, never at the stored IDs ... *)
Definition same_shape (a b : list item) : Prop :=
  Forall2 (fun x y => it_named x = it_named y /\ it_value x = it_value y /\
                      (numbered x = false -> it_id x = it_id y)) a b.

Lemma llvm_number_shape a : forall b k, same_shape a b -> llvm_number a k = llvm_number b k.
Proof.
  induction a as [|x r IH]; intros b k H; inversion H as [|? y ? r' (N & V & I) Hr]; subst; [reflexivity|].
  cbn [llvm_number]. rewrite <- N, <- V. fold (numbered x). destruct (numbered x) eqn:E.
  - unfold set_id. rewrite N, V. f_equal. apply IH; assumption.
  - specialize (I eq_refl). destruct x, y; cbn in *; subst. f_equal. apply IH; assumption.
Qed.

Lemma number_same_shape l : forall k, same_shape l (llvm_number l k).
Proof.
  induction l as [|x r IH]; intros k; cbn [llvm_number]; [constructor|].
  fold (numbered x). destruct (numbered x) eqn:E; constructor; try apply IH; cbn; repeat split; congruence.
Qed.

(* ... so an earlier print is invisible in a later one whenever the later one does not panic *)
Definition edit (o : op) (l : list item) : list item :=
  match o with
  | Insert p x => insert_at p x l
  | Remove p => remove_at p l
  | Rename p n => update_at p (rename n) l
  | _ => l
  end.

Lemma insert_shape p x : forall a b, same_shape a b -> same_shape (insert_at p x a) (insert_at p x b).
Proof.
  induction p as [|p IH]; intros a b H; cbn.
  - constructor; [repeat split; reflexivity|exact H].
  - inversion H; subst; cbn; [constructor; [repeat split; reflexivity|constructor]|].
    constructor; [assumption|apply IH; assumption].
Qed.
Lemma remove_shape p : forall a b, same_shape a b -> same_shape (remove_at p a) (remove_at p b).
Proof.
  induction p as [|p IH]; intros a b H; inversion H; subst; cbn; try constructor; try assumption.
  apply IH; assumption.
Qed.
Lemma rename_shape p n : forall a b, same_shape a b -> same_shape (update_at p (rename n) a) (update_at p (rename n) b).
Proof.
  induction p as [|p IH]; intros a b H; inversion H as [|x y ? ? (N & V & I)]; subst; cbn; try constructor; try assumption.
  - cbn. repeat split; try reflexivity. exact V.
  - repeat split; assumption.
  - apply IH; assumption.
Qed.

Lemma edit_shape o a b : same_shape a b -> same_shape (edit o a) (edit o b).
Proof.
  destruct o; cbn [edit]; auto using insert_shape, remove_shape, rename_shape.
Qed.

Theorem print_then_edit o l l1 l2 :
  assign_ids l = Ok l1 ->                       (* the earlier print succeeded *)
  assign_ids (edit o l1) = Ok l2 ->             (* and the later one does not panic *)
  assign_ids (edit o l) <> Err ->
  assign_ids (edit o l) = Ok l2.                (* then it shows what it would have shown without the earlier print *)
Proof.
  intros E1 E2 NE.
  apply assign_is_llvm in E1. apply assign_is_llvm in E2. subst.
  destruct (assign_ids (edit o l)) as [l3|] eqn:E3; [|congruence].
  apply assign_is_llvm in E3. subst. f_equal. apply llvm_number_shape.
  apply edit_shape. apply number_same_shape.
Qed.

(* the unguarded statement is false: plain builder use after a print panics *)
Theorem print_then_edit_refuted :
  exists l o, run [Print; o; Print] l = None /\ run [o; Print] l <> None.
Proof.
  exists [ {| it_named := false; it_id := 0; it_value := true |};
           {| it_named := false; it_id := 0; it_value := true |} ].
  exists (Insert 0 {| it_named := false; it_id := 0; it_value := true |}).
  split; [reflexivity|discriminate].
Qed.
Print Assumptions print_then_edit.
