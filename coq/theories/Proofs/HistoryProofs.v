From Coq Require Import List Bool ZArith Lia.
From LLIR Require Import Model.Numbering Model.History Proofs.NumberingProofs.
Import ListNotations.
Local Open Scope Z_scope.

Lemma run_app h1 h2 l : run (h1 ++ h2) l = fold_left step h2 (run h1 l).
Proof. unfold run. apply fold_left_app. Qed.

Lemma step_none h : fold_left step h None = None.
Proof. induction h; cbn; auto. Qed.

(* observers other than printing never matter *)
Fixpoint drop_queries (h : list op) : list op :=
  match h with [] => [] | Query :: r => drop_queries r | o :: r => o :: drop_queries r end.

Theorem nonprint_observers_noop h : forall s, fold_left step h s = fold_left step (drop_queries h) s.
Proof.
  induction h as [|o r IH]; intros s; [reflexivity|].
  destruct o; cbn [drop_queries fold_left]; try apply IH.
  destruct s; cbn [step]; apply IH.
Qed.

(* printing twice in a row shows the same thing as printing once *)
Theorem print_twice_same l : run [Print; Print] l = run [Print] l.
Proof.
  unfold run. cbn [fold_left].
  change (step (Some l) Print) with (match assign_ids l with Ok l' => Some l' | Err => None end).
  destruct (assign_ids l) as [l'|] eqn:E; cbn [step]; [|reflexivity].
  rewrite (assign_idempotent l l' E). reflexivity.
Qed.

(* numbering only looks at names and value-ness, never at the stored IDs ... *)
Definition same_shape (a b : list item) : Prop :=
  Forall2 (fun x y => it_named x = it_named y /\ it_value x = it_value y /\
                      (numbered x = false -> it_id x = it_id y)) a b.

Lemma llvm_number_shape a : forall b k, same_shape a b -> llvm_number a k = llvm_number b k.
Proof.
  induction a as [|x r IH]; intros b k H; inversion H as [|? y ? r' (N & V & I) Hr]; subst; [reflexivity|].
  cbn [llvm_number]. rewrite <- N, <- V. fold (numbered x). destruct (numbered x) eqn:E.
  - unfold set_id. rewrite N, V. f_equal. apply IH; assumption.
  - specialize (I eq_refl). destruct x, y; cbn in *; subst. f_equal. apply IH; assumption.
Qed.

Lemma number_same_shape l : forall k, same_shape l (llvm_number l k).
Proof.
  induction l as [|x r IH]; intros k; cbn [llvm_number]; [constructor|].
  fold (numbered x). destruct (numbered x) eqn:E; constructor; try apply IH; cbn; repeat split; congruence.
Qed.

(* ... so an earlier print is invisible in a later one whenever the later one does not panic *)
Definition edit (o : op) (l : list item) : list item :=
  match o with
  | Insert p x => insert_at p x l
  | Remove p => remove_at p l
  | Rename p n => update_at p (rename n) l
  | _ => l
  end.

Lemma insert_shape p x : forall a b, same_shape a b -> same_shape (insert_at p x a) (insert_at p x b).
Proof.
  induction p as [|p IH]; intros a b H; cbn.
  - constructor; [repeat split; reflexivity|exact H].
  - inversion H; subst; cbn; [constructor; [repeat split; reflexivity|constructor]|].
    constructor; [assumption|apply IH; assumption].
Qed.
Lemma remove_shape p : forall a b, same_shape a b -> same_shape (remove_at p a) (remove_at p b).
Proof.
  induction p as [|p IH]; intros a b H; inversion H; subst; cbn; try constructor; try assumption.
  apply IH; assumption.
Qed.
Lemma rename_shape p n : forall a b, same_shape a b -> same_shape (update_at p (rename n) a) (update_at p (rename n) b).
Proof.
  induction p as [|p IH]; intros a b H; inversion H as [|x y ? ? (N & V & I)]; subst; cbn; try constructor; try assumption.
  - cbn. repeat split; try reflexivity. exact V.
  - repeat split; assumption.
  - apply IH; assumption.
Qed.

Lemma edit_shape o a b : same_shape a b -> same_shape (edit o a) (edit o b).
Proof.
  destruct o; cbn [edit]; auto using insert_shape, remove_shape, rename_shape.
Qed.

Theorem print_then_edit o l l1 l2 :
  assign_ids l = Ok l1 ->                       (* the earlier print succeeded *)
  assign_ids (edit o l1) = Ok l2 ->             (* and the later one does not panic *)
  assign_ids (edit o l) <> Err ->
  assign_ids (edit o l) = Ok l2.                (* then it shows what it would have shown without the earlier print *)
Proof.
  intros E1 E2 NE.
  apply assign_is_llvm in E1. apply assign_is_llvm in E2. subst.
  destruct (assign_ids (edit o l)) as [l3|] eqn:E3; [|congruence].
  apply assign_is_llvm in E3. subst. f_equal. apply llvm_number_shape.
  apply edit_shape. apply number_same_shape.
Qed.

(* the unguarded statement is false: plain builder use after a print panics *)
Theorem print_then_edit_refuted :
  exists l o, run [Print; o; Print] l = None /\ run [o; Print] l <> None.
Proof.
  exists [ {| it_named := false; it_id := 0; it_value := true |};
           {| it_named := false; it_id := 0; it_value := true |} ].
  exists (Insert 0 {| it_named := false; it_id := 0; it_value := true |}).
  split; [reflexivity|discriminate].
Qed.
Print Assumptions print_then_edit.

(* ---- C14 over whole histories: observers anywhere, any number of prints ---- *)
(* the history without any observer call *)
Fixpoint drop_observers (h : list op) : list op :=
  match h with [] => [] | Query :: r | Print :: r => drop_observers r | o :: r => o :: drop_observers r end.

(* the state reached with the observer calls (x) against the state reached without them (y): same names, same
   kinds, equal stored IDs where no number is due, and elsewhere the ID of y is the one of x or still unset *)
Definition shadow1 (x y : item) : Prop :=
  it_named x = it_named y /\ it_value x = it_value y /\ (numbered x = false -> it_id x = it_id y) /\ (it_id y = it_id x \/ it_id y = 0).
Definition shadows (s s0 : list item) : Prop := Forall2 shadow1 s s0.

Lemma shadow1_refl x : shadow1 x x. Proof. unfold shadow1. auto. Qed.
Lemma shadows_refl l : shadows l l.
Proof. induction l; constructor; auto using shadow1_refl. Qed.
Lemma shadows_insert p x : forall a b, shadows a b -> shadows (insert_at p x a) (insert_at p x b).
Proof.
  induction p as [|p IH]; intros a b H; cbn [insert_at].
  - constructor; [apply shadow1_refl|exact H].
  - inversion H; subst; [constructor; [apply shadow1_refl|constructor]|]. constructor; [assumption|apply IH; assumption].
Qed.
Lemma shadows_remove p : forall a b, shadows a b -> shadows (remove_at p a) (remove_at p b).
Proof.
  induction p as [|p IH]; intros a b H; inversion H; subst; cbn [remove_at].
  - constructor.
  - assumption.
  - constructor.
  - constructor; [assumption|apply IH; assumption].
Qed.
Lemma shadows_rename p n : forall a b, shadows a b -> shadows (update_at p (rename n) a) (update_at p (rename n) b).
Proof.
  induction p as [|p IH]; intros a b H; inversion H as [|x y ? ? (N & V & I & J) Hr]; subst; cbn [update_at].
  - constructor.
  - constructor; [|assumption]. unfold shadow1, rename. cbn. auto.
  - constructor.
  - constructor; [unfold shadow1; auto|apply IH; assumption].
Qed.

Lemma shadow1_numbered x y : shadow1 x y -> numbered x = numbered y.
Proof. intros (N & V & _). unfold numbered. rewrite N, V. reflexivity. Qed.

(* a print of s keeps the relation: the numbers it stores are the ones s0 has, or s0 still has none *)
Lemma shadows_print : forall s s0 k, shadows s s0 -> consistent s k -> shadows (llvm_number s k) s0.
Proof.
  induction s as [|x r IH]; intros s0 k H C; inversion H as [|? y ? r0 Hxy Hr]; subst; cbn [llvm_number]; [constructor|].
  cbn [consistent] in C. fold (numbered x). destruct (numbered x) eqn:E.
  - destruct C as [Cx Cr]. constructor; [|apply IH; assumption].
    destruct Hxy as (N & V & I & J). unfold shadow1. cbn. rewrite numbered_set_id, E. repeat split; try assumption; [discriminate|].
    destruct J as [J|J]; [|right; exact J]. destruct Cx as [Cx|Cx]; [right; congruence|left; congruence].
  - constructor; [exact Hxy|apply IH; assumption].
Qed.

Lemma shadows_consistent : forall s s0 k, shadows s s0 -> consistent s k -> consistent s0 k.
Proof.
  induction s as [|x r IH]; intros s0 k H C; inversion H as [|? y ? r0 Hxy Hr]; subst; [exact I|].
  cbn [consistent] in *. rewrite <- (shadow1_numbered x y Hxy). destruct (numbered x).
  - destruct C as [Cx Cr]. split; [|apply (IH _ _ Hr Cr)].
    destruct Hxy as (_ & _ & _ & J). destruct J as [J|J]; [rewrite J; exact Cx|left; exact J].
  - apply (IH _ _ Hr C).
Qed.

Lemma shadows_shape s s0 : shadows s s0 -> same_shape s s0.
Proof. intros H. induction H as [|x y ? ? (N & V & I & _) _ IH]; constructor; auto. Qed.

(* one step: the run with observers and the run without stay related, unless the former panics *)
Lemma step_shadows o s s0 s' : shadows s s0 -> step (Some s) o = Some s' ->
  shadows s' (match o with Print | Query => s0 | _ => edit o s0 end).
Proof.
  intros H. destruct o; cbn [step edit].
  - intros [= <-]. apply shadows_insert, H.
  - intros [= <-]. apply shadows_remove, H.
  - intros [= <-]. apply shadows_rename, H.
  - destruct (assign_ids s) as [l'|] eqn:E; [|discriminate]. intros [= <-].
    pose proof (assign_is_llvm s l' E) as ->. apply shadows_print; [exact H|].
    apply (proj2 (assign_spec s 0)). unfold assign_ids in E. congruence.
  - intros [= <-]. exact H.
Qed.

Lemma run_drop_observers_total : forall h l0, exists l0', run (drop_observers h) l0 = Some l0'.
Proof.
  unfold run. induction h as [|o r IH]; intros l0; [exists l0; reflexivity|].
  destruct o; cbn [drop_observers fold_left step]; apply IH.
Qed.

Lemma run_shadows : forall h s s0 s', shadows s s0 -> fold_left step h (Some s) = Some s' ->
  exists s0', fold_left step (drop_observers h) (Some s0) = Some s0' /\ shadows s' s0'.
Proof.
  induction h as [|o r IH]; intros s s0 s' H R; cbn [fold_left] in R.
  - injection R as <-. exists s0. split; [reflexivity|exact H].
  - destruct (step (Some s) o) as [s1|] eqn:E; [|rewrite step_none in R; discriminate].
    pose proof (step_shadows o s s0 s1 H E) as H1.
    destruct o; cbn [drop_observers fold_left step edit] in *; eapply IH; eassumption.
Qed.

(* THE statement: for every history -- construction and editing steps with print, type, operand, successor and
   identifier queries interleaved at any points -- if the run with the observer calls does not panic, its final
   print is exactly the final print of the steps alone *)
Theorem observers_noop_unless_panic : forall h l r, final_print h l = Some r -> final_print (drop_observers h) l = Some r.
Proof.
  unfold final_print. intros h l r. rewrite !run_app. unfold run.
  destruct (fold_left step h (Some l)) as [s'|] eqn:R; [|rewrite step_none; discriminate].
  destruct (run_shadows h l l s' (shadows_refl l) R) as (s0' & R0 & Hs). rewrite R0.
  cbn [fold_left step]. destruct (assign_ids s') as [l'|] eqn:E; [|discriminate]. intros [= <-].
  assert (consistent s' 0) as C by (apply (proj2 (assign_spec s' 0)); unfold assign_ids in E; congruence).
  pose proof (shadows_consistent s' s0' 0 Hs C) as C0.
  pose proof (proj1 (assign_spec s0' 0) C0) as E0. unfold assign_ids. rewrite E0.
  pose proof (assign_is_llvm s' l' E) as ->. f_equal. symmetry. apply llvm_number_shape, shadows_shape, Hs.
Qed.

(* the converse fails (KF-15): the steps alone print, the same steps with a print in between panic *)
Theorem observers_noop_refuted : exists h l, final_print (drop_observers h) l <> None /\ final_print h l = None.
Proof.
  exists [Print; Insert 0 {| it_named := false; it_id := 0; it_value := true |}],
         [ {| it_named := false; it_id := 0; it_value := true |}; {| it_named := false; it_id := 0; it_value := true |} ].
  split; [discriminate|reflexivity].
Qed.

(* decidable: whether a history panics, and so whether the theorem applies, is computed by running it *)
Definition safe_history (h : list op) (l : list item) : bool := match final_print h l with Some _ => true | None => false end.
Corollary safe_history_observers_noop h l : safe_history h l = true -> final_print (drop_observers h) l = final_print h l.
Proof.
  unfold safe_history. destruct (final_print h l) as [r|] eqn:E; [|discriminate]. intros _.
  apply observers_noop_unless_panic. exact E.
Qed.
Print Assumptions observers_noop_unless_panic.
