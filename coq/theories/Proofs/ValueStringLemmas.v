From Coq Require Import List String ZArith NArith Bool Lia.
From Coq Require Import Strings.Byte.
From LLIR Require Import Lib.Bytes Lib.Radix Model.Enc Model.Types Model.TypeString Model.GoEval Gen.Enums Gen.Printers Proofs.PrinterRefinement Proofs.InstPrintBase.
Import ListNotations.
Open Scope string_scope.

(* C01, text layer: the abstract operands of the printing lemmas (InstPrintBase.v) behave as every kind of value does. *)

(* ---- what the lemmas assume of an operand is what the code does: for every kind of value (instructions and
   terminators with a result, constants, constant expressions, globals, functions, parameters, blocks, inline
   assembly, metadata values) the regenerated String method writes the type, a space, the identifier ---- *)
Definition value_kinds : list string :=
  ["constant.Array"; "constant.BlockAddress"; "constant.CharArray"; "constant.DSOLocalEquivalent"; "constant.ExprAShr";
   "constant.ExprAdd"; "constant.ExprAddrSpaceCast"; "constant.ExprAnd"; "constant.ExprBitCast"; "constant.ExprExtractElement";
   "constant.ExprFCmp"; "constant.ExprFNeg"; "constant.ExprFPExt"; "constant.ExprFPToSI"; "constant.ExprFPToUI";
   "constant.ExprFPTrunc"; "constant.ExprGetElementPtr"; "constant.ExprICmp"; "constant.ExprInsertElement"; "constant.ExprIntToPtr";
   "constant.ExprLShr"; "constant.ExprMul"; "constant.ExprOr"; "constant.ExprPtrToInt"; "constant.ExprSExt";
   "constant.ExprSIToFP"; "constant.ExprSelect"; "constant.ExprShl"; "constant.ExprShuffleVector"; "constant.ExprSub";
   "constant.ExprTrunc"; "constant.ExprUIToFP"; "constant.ExprXor"; "constant.ExprZExt"; "constant.Float";
   "constant.NoCFI"; "constant.Poison"; "constant.Struct"; "constant.Undef"; "constant.Vector";
   "constant.ZeroInitializer"; "ir.Alias"; "ir.Block"; "ir.Func"; "ir.Global";
   "ir.IFunc"; "ir.InlineAsm"; "ir.InstAShr"; "ir.InstAdd"; "ir.InstAddrSpaceCast";
   "ir.InstAlloca"; "ir.InstAnd"; "ir.InstAtomicRMW"; "ir.InstBitCast"; "ir.InstCall";
   "ir.InstCatchPad"; "ir.InstCleanupPad"; "ir.InstCmpXchg"; "ir.InstExtractElement"; "ir.InstExtractValue";
   "ir.InstFAdd"; "ir.InstFCmp"; "ir.InstFDiv"; "ir.InstFMul"; "ir.InstFNeg";
   "ir.InstFPExt"; "ir.InstFPToSI"; "ir.InstFPToUI"; "ir.InstFPTrunc"; "ir.InstFRem";
   "ir.InstFSub"; "ir.InstFreeze"; "ir.InstGetElementPtr"; "ir.InstICmp"; "ir.InstInsertElement";
   "ir.InstInsertValue"; "ir.InstIntToPtr"; "ir.InstLShr"; "ir.InstLandingPad"; "ir.InstLoad";
   "ir.InstMul"; "ir.InstOr"; "ir.InstPhi"; "ir.InstPtrToInt"; "ir.InstSDiv";
   "ir.InstSExt"; "ir.InstSIToFP"; "ir.InstSRem"; "ir.InstSelect"; "ir.InstShl";
   "ir.InstShuffleVector"; "ir.InstSub"; "ir.InstTrunc"; "ir.InstUDiv"; "ir.InstUIToFP";
   "ir.InstURem"; "ir.InstVAArg"; "ir.InstXor"; "ir.InstZExt"; "ir.Param";
   "ir.TermCallBr"; "ir.TermCatchSwitch"; "ir.TermInvoke"; "metadata.Value"].
Theorem value_string_is_type_space_ident : forall kind, In kind value_kinds -> forall g fuel t i,
  call_printer impl g (S fuel) kind "String" (VObj kind [("Type()", atype t); ("Ident()", VStr i)]) = Ok (VStr (tv t i)).
Proof.
  intros kind H g fuel t i. unfold value_kinds in H.
  repeat (destruct H as [H|H]; [subst kind|]); [..|contradiction].
  all: enter; done.
Qed.
(* and these are all the String methods of that shape: 104 of them *)
Definition type_space_ident (p : printer) : bool :=
  String.eqb (p_method p) "String" &&
  match p_body p with
  | [SArg "%s" (ECall (ESel (EId r) "Type") []); SLit " "; SArg "%s" (ECall (ESel (EId r') "Ident") []); SStop] =>
    String.eqb r (p_recv p) && String.eqb r' (p_recv p)
  | _ => false
  end.
Lemma value_kinds_are_all : map p_type (filter type_space_ident printers) = value_kinds.
Proof. vm_compute. reflexivity. Qed.

Print Assumptions value_string_is_type_space_ident.
Print Assumptions value_kinds_are_all.
