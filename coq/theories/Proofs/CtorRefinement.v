(* C03 on regenerated code: a constructor of package ir (its regenerated body), run on operands
   of given types, yields the object whose fields are the arguments and whose cached type is
   the rule of Model/ResultType.v; printing that object with the regenerated printer mentions
   the operands in argument order. *)
From Coq Require Import List String ZArith NArith Bool.
From Coq Require Import Strings.Byte.
From LLIR Require Import Lib.Bytes Model.Types Model.TypeString Model.ResultType Model.GoEval Gen.Printers
  Proofs.PrinterRefinement Proofs.ResultTypeProofs Proofs.TypeRuleRefinement.
Import ListNotations.
Open Scope string_scope.

Definition construct (ctor : string) (args : list val) : res val := call_printer impl globals 6 "" ctor (VTuple args).
Definition field (f : string) (r : res val) : res val :=
  match r with
  | GoEval.Ok (VObj _ fs) => match lookup f fs with Some v => GoEval.Ok v | None => Fail ("no field " ++ f) end
  | GoEval.Ok _ => Fail "not an object"
  | Fail w => Fail w
  end.

Section Ctors.
  Variable bodies : ResultType.env.

  (* NewAdd(x, y): stores x and y in that order and computes the type of x *)
  Theorem NewAdd_faithful x y tx ty' :
    x = operand tx -> y = operand ty' ->
    field "X" (construct "ir.NewAdd" [x; y]) = GoEval.Ok x
    /\ field "Y" (construct "ir.NewAdd" [x; y]) = GoEval.Ok y
    /\ field "Typ" (construct "ir.NewAdd" [x; y]) = expect (ir_type bodies (SameAsFirst tx)).
  Proof. intros -> ->. repeat split; reflexivity. Qed.

  Theorem NewICmp_faithful p x y tx ty' :
    x = operand tx -> y = operand ty' ->
    match ir_type bodies (ICmp tx) with
    | ResultType.Ok t =>
        field "Pred" (construct "ir.NewICmp" [p; x; y]) = GoEval.Ok p
        /\ field "X" (construct "ir.NewICmp" [p; x; y]) = GoEval.Ok x
        /\ field "Y" (construct "ir.NewICmp" [p; x; y]) = GoEval.Ok y
        /\ field "Typ" (construct "ir.NewICmp" [p; x; y]) = GoEval.Ok (reify_ty t)
    | Panic => construct "ir.NewICmp" [p; x; y] = Fail "panic"
    end.
  Proof. intros -> ->. destruct tx; cbn [ir_type]; repeat split; reflexivity. Qed.

  Theorem NewSelect_faithful c a b tc ta tb :
    c = operand tc -> a = operand ta -> b = operand tb ->
    field "Cond" (construct "ir.NewSelect" [c; a; b]) = GoEval.Ok c
    /\ field "ValueTrue" (construct "ir.NewSelect" [c; a; b]) = GoEval.Ok a
    /\ field "ValueFalse" (construct "ir.NewSelect" [c; a; b]) = GoEval.Ok b
    /\ field "Typ" (construct "ir.NewSelect" [c; a; b]) = expect (ir_type bodies (SameAsFirst ta)).
  Proof. intros -> -> ->. repeat split; reflexivity. Qed.

  Theorem NewExtractElement_faithful x i tx ti :
    x = operand tx -> i = operand ti ->
    match ir_type bodies (ExtractElement tx) with
    | ResultType.Ok t => field "X" (construct "ir.NewExtractElement" [x; i]) = GoEval.Ok x
                         /\ field "Index" (construct "ir.NewExtractElement" [x; i]) = GoEval.Ok i
                         /\ field "Typ" (construct "ir.NewExtractElement" [x; i]) = GoEval.Ok (reify_ty t)
    | Panic => construct "ir.NewExtractElement" [x; i] = Fail "panic"
    end.
  Proof. intros -> ->. destruct tx; cbn [ir_type]; repeat split; reflexivity. Qed.
End Ctors.
Print Assumptions NewICmp_faithful.

(* ---- whole families at once ---- *)
Section BulkCtors.
  Variable bodies : ResultType.env.
  (* the 18 binary and bitwise constructors NewAdd .. NewXor: arguments stored in order, type of the first *)
  Theorem binary_ctors_faithful :
    Forall (fun k => forall tx ty',
      field "X" (construct ("ir.New" ++ k) [operand tx; operand ty']) = GoEval.Ok (operand tx)
      /\ field "Y" (construct ("ir.New" ++ k) [operand tx; operand ty']) = GoEval.Ok (operand ty')
      /\ field "Typ" (construct ("ir.New" ++ k) [operand tx; operand ty']) = expect (ir_type bodies (SameAsFirst tx)))
    binary_kinds.
  Proof. repeat constructor; intros; reflexivity. Qed.
End BulkCtors.
Print Assumptions binary_ctors_faithful.
