(* C11, read off the regenerated printers (Gen/Printers.v): a field that holds a name is
   never formatted as it is; it reaches the output only through one of the escaping
   functions of internal/enc (or quote), each of which has a model with a decode theorem
   in Proofs/EncProofs.v. *)
From Coq Require Import List String ZArith Bool.
From LLIR Require Import Gen.Printers.
Import ListNotations.
Open Scope string_scope.

Fixpoint ends_with_name (s : string) : bool :=
  match s with "Name" => true | String _ r => ends_with_name r | EmptyString => false end.

(* name fields formatted directly, not under a call *)
Fixpoint raw (e : gexpr) : list string :=
  match e with
  | ESel _ f => if ends_with_name f then [f] else []
  | EBin _ a b => raw a ++ raw b
  | _ => []
  end.
Fixpoint sraw (s : gstmt) : list string :=
  match s with
  | SArg _ e => raw e
  | SIf _ _ t e => flat_map sraw t ++ flat_map sraw e
  | SFor _ _ _ b | SForMap _ _ _ b | SFor3 _ _ _ b => flat_map sraw b
  | STypeSwitch _ _ cs d => flat_map (fun c => flat_map sraw (snd c)) cs ++ flat_map sraw d
  | SChunk b => flat_map sraw b
  | _ => []
  end.

(* the functions that are handed a name field *)
Fixpoint named_args (e : gexpr) : list (string * string) :=
  match e with
  | ECall f args =>
    let fname := match f with ESel (EId pk) m => pk ++ "." ++ m | EId m => m | ESel _ m => "." ++ m | _ => "?" end in
    flat_map (fun a => match a with ESel _ fld => if ends_with_name fld then [(fname, fld)] else [] | _ => named_args a end) args ++ named_args f
  | ESel e' _ | ENot e' | EAssert e' _ => named_args e'
  | EBin _ a b | EIndex a b => named_args a ++ named_args b
  | _ => []
  end.
Fixpoint snamed (s : gstmt) : list (string * string) :=
  match s with
  | SArg _ e | SLet _ _ e | SRet e => named_args e
  | SIf _ c t e => named_args c ++ flat_map snamed t ++ flat_map snamed e
  | SFor _ _ c b | SForMap _ _ c b => named_args c ++ flat_map snamed b
  | STypeSwitch _ _ cs d => flat_map (fun c => flat_map snamed (snd c)) cs ++ flat_map snamed d
  | SChunk b => flat_map snamed b
  | _ => []
  end.

Definition ir_printers : list printer := filter (fun p => negb (String.prefix "asm." (p_method p))) printers.
Definition escapers : list string :=
  ["enc.LabelName"; "enc.ComdatName"; "enc.GlobalName"; "enc.LocalName"; "enc.MetadataName"; "enc.TypeName"; "quote"; "len"].

Theorem no_name_is_printed_raw : forallb (fun p => match flat_map sraw (p_body p) with [] => true | _ => false end) ir_printers = true.
Proof. vm_compute. reflexivity. Qed.

Theorem names_go_through_escapers :
  forallb (fun p => forallb (fun fa => existsb (String.eqb (fst fa)) escapers) (flat_map snamed (p_body p))) ir_printers = true.
Proof. vm_compute. reflexivity. Qed.
Print Assumptions no_name_is_printed_raw.
Print Assumptions names_go_through_escapers.
