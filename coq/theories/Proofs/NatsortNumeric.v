(* String-level reading of natsort.Less: two names that agree up to a digit run are ordered by the numeric
   value of the run (then by the number of leading zeros, then by what follows the run).  The statement is
   about the Go loop (Model.Natsort.less) on whole byte strings p ++ a ++ r, not about tokens. *)
From Coq Require Import List Bool Arith NArith Lia.
From Coq Require Import Strings.Byte.
From LLIR Require Import Lib.Bytes Lib.Lex Model.Natsort Proofs.NatsortProofs.
Import ListNotations.

(* p is empty or ends in a byte that is not a digit: a digit run never straddles the cut p | s *)
Fixpoint end_nd (p : bytes) : bool :=
  match p with
  | [] => true
  | c :: r => match r with [] => negb (isdigit c) | _ :: _ => end_nd r end
  end.
(* r is empty or starts with a byte that is not a digit *)
Definition start_nd (r : bytes) : bool := match r with [] => true | c :: _ => negb (isdigit c) end.
Definition digitsb (a : bytes) : bool := forallb isdigit a.

Lemma isdigit_x30 : isdigit x30 = true. Proof. reflexivity. Qed.

Lemma eat_zeros_app p s : end_nd p = true -> p <> [] ->
  eat_zeros (p ++ s) = (fst (eat_zeros p), snd (eat_zeros p) ++ s)
  /\ end_nd (snd (eat_zeros p)) = true /\ snd (eat_zeros p) <> [].
Proof.
  induction p as [|c p IH]; intros He Hn; [congruence|].
  cbn [app eat_zeros]. destruct (byte_eqb c x30) eqn:E.
  - apply byte_eqb_spec in E. subst c.
    destruct p as [|c' p']; [cbn in He; discriminate|].
    assert (end_nd (c' :: p') = true) as He' by exact He.
    destruct (IH He' ltac:(discriminate)) as (I1 & I2 & I3).
    rewrite I1. destruct (eat_zeros (c' :: p')) as [n r]. cbn [fst snd] in *. auto.
  - cbn [fst snd app]. repeat split; [exact He|discriminate].
Qed.

Lemma eat_digits_app p s : end_nd p = true -> p <> [] ->
  eat_digits (p ++ s) = (fst (eat_digits p), snd (eat_digits p) ++ s)
  /\ end_nd (snd (eat_digits p)) = true /\ snd (eat_digits p) <> [].
Proof.
  induction p as [|c p IH]; intros He Hn; [congruence|].
  cbn [app eat_digits]. destruct (isdigit c) eqn:E.
  - destruct p as [|c' p']; [cbn in He; rewrite E in He; discriminate|].
    assert (end_nd (c' :: p') = true) as He' by exact He.
    destruct (IH He' ltac:(discriminate)) as (I1 & I2 & I3).
    rewrite I1. destruct (eat_digits (c' :: p')) as [d r]. cbn [fst snd] in *. auto.
  - cbn [fst snd app]. repeat split; [exact He|discriminate].
Qed.

Lemma end_nd_tail c p : p <> [] -> end_nd (c :: p) = end_nd p.
Proof. destruct p; [congruence|reflexivity]. Qed.

(* the token view is compositional at a cut that no digit run straddles *)
Lemma key_app : forall f p s, length (p ++ s) < f -> end_nd p = true ->
  key f (p ++ s) = key f p ++ key f s.
Proof.
  induction f as [|f IH]; intros p s Hf He; [lia|].
  destruct p as [|c p'].
  - reflexivity.
  - remember (key (S f) s) as K eqn:HK. cbn [app key]. destruct (isdigit c) eqn:D.
    + destruct (eat_zeros_app (c :: p') s He ltac:(discriminate)) as (Z1 & Z2 & Z3).
      cbn [app] in Z1. rewrite Z1.
      pose proof (eat_zeros_len (c :: p')) as ZL.
      destruct (eat_zeros (c :: p')) as [z s1] eqn:Hz. cbn [fst snd] in *.
      destruct (eat_digits_app s1 s Z2 Z3) as (G1 & G2 & G3). rewrite G1.
      destruct (eat_digits s1) as [d s2] eqn:Hd. cbn [fst snd] in *.
      pose proof (eat_progress _ _ _ _ _ _ D Hz Hd) as P.
      cbn [app]. f_equal.
      rewrite app_length in Hf. cbn [length] in Hf, P.
      rewrite IH by (rewrite ?app_length; try assumption; lia).
      f_equal. subst K. apply key_fuel; lia.
    + cbn [app]. f_equal. rewrite app_length in Hf. cbn [length] in Hf.
      destruct p' as [|c' p''].
      * cbn [app]. destruct f; [lia|]. change (key (S f) []) with (@nil tok). cbn [app]. subst K. apply key_fuel; lia.
      * rewrite IH by (rewrite ?app_length; try exact He; cbn [length] in *; lia).
        f_equal. subst K. apply key_fuel; cbn [length] in *; lia.
Qed.

Lemma keyOf_app p s : end_nd p = true -> keyOf (p ++ s) = keyOf p ++ keyOf s.
Proof.
  intros He. unfold keyOf. rewrite key_app by (try exact He; lia).
  rewrite app_length. f_equal; apply key_fuel; lia.
Qed.

(* a complete digit run followed by a non-digit is one token *)
Lemma eat_zeros_run a r : start_nd r = true ->
  eat_zeros (a ++ r) = (fst (eat_zeros a), snd (eat_zeros a) ++ r).
Proof.
  intros Hr. induction a as [|c a IH].
  - cbn [app eat_zeros fst snd]. destruct r as [|c r]; [reflexivity|].
    cbn [eat_zeros]. cbn in Hr. destruct (byte_eqb c x30) eqn:E; [|reflexivity].
    apply byte_eqb_spec in E. subst c. discriminate.
  - cbn [app eat_zeros]. destruct (byte_eqb c x30); [|reflexivity].
    rewrite IH. destruct (eat_zeros a) as [n q]. reflexivity.
Qed.

Lemma eat_digits_run a r : digitsb a = true -> start_nd r = true -> eat_digits (a ++ r) = (a, r).
Proof.
  intros Ha Hr. induction a as [|c a IH].
  - cbn [app]. destruct r as [|c r]; [reflexivity|]. cbn [eat_digits]. cbn in Hr.
    destruct (isdigit c); [discriminate|reflexivity].
  - cbn in Ha. apply andb_prop in Ha as [Hc Ha]. cbn [app eat_digits]. rewrite Hc, (IH Ha). reflexivity.
Qed.

Lemma digitsb_zeros a : digitsb a = true -> digitsb (snd (eat_zeros a)) = true.
Proof.
  induction a as [|c a IH]; intros H; [reflexivity|]. cbn [eat_zeros].
  destruct (byte_eqb c x30); [|exact H]. cbn in H. apply andb_prop in H as [_ H].
  specialize (IH H). destruct (eat_zeros a). exact IH.
Qed.

Lemma digitsb_all a : digitsb a = true -> all_digits a.
Proof. intros H. apply Forall_forall. intros x Hx. unfold digitsb in H. rewrite forallb_forall in H. auto. Qed.

Lemma keyOf_run a r : a <> [] -> digitsb a = true -> start_nd r = true ->
  keyOf (a ++ r) = Num (snd (eat_zeros a)) (fst (eat_zeros a)) :: keyOf r.
Proof.
  intros Hn Ha Hr. unfold keyOf. destruct a as [|c a]; [congruence|].
  remember (key (S (length r)) r) as K eqn:HK. cbn [app key].
  assert (isdigit c = true) as -> by (cbn in Ha; apply andb_prop in Ha; tauto).
  change (c :: a ++ r) with ((c :: a) ++ r). rewrite (eat_zeros_run _ _ Hr).
  pose proof (eat_zeros_len (c :: a)) as ZL.
  destruct (eat_zeros (c :: a)) as [z s1] eqn:Hz. cbn [fst snd] in *.
  pose proof (digitsb_zeros _ Ha) as Hs1. rewrite Hz in Hs1. cbn [snd] in Hs1.
  rewrite (eat_digits_run _ _ Hs1 Hr). f_equal. subst K. cbn [length]. rewrite app_length. cbn [length]. apply key_fuel; lia.
Qed.

Lemma lexk_common k : forall l1 l2, lexk (k ++ l1) (k ++ l2) = lexk l1 l2.
Proof.
  induction k as [|x k IH]; intros l1 l2; [reflexivity|]. cbn [app lexb].
  assert (tok_eqb x x = true) as -> by (apply tok_eqb_spec; reflexivity). apply IH.
Qed.

Definition zeros (a : bytes) : nat := fst (eat_zeros a).

Local Open Scope N_scope.

(* the comparison of p ++ a ++ r with p ++ b ++ r' is decided by the two digit runs a and b *)
Theorem less_by_digit_run p a b r r' :
  end_nd p = true -> a <> [] -> b <> [] -> digitsb a = true -> digitsb b = true ->
  start_nd r = true -> start_nd r' = true ->
  less (p ++ a ++ r) (p ++ b ++ r') =
    if dval a <? dval b then true
    else if dval b <? dval a then false
    else if (zeros a <? zeros b)%nat then true
    else if (zeros b <? zeros a)%nat then false
    else less r r'.
Proof.
  intros Hp Hna Hnb Ha Hb Hr Hr'.
  rewrite less_eq_lessk. unfold lessk. rewrite !(keyOf_app p) by exact Hp. rewrite lexk_common.
  rewrite (keyOf_run a r) by assumption. rewrite (keyOf_run b r') by assumption.
  cbn [lexb].
  set (da := snd (eat_zeros a)). set (db := snd (eat_zeros b)).
  assert (all_digits da) as Ada by (apply digitsb_all, digitsb_zeros; exact Ha).
  assert (all_digits db) as Adb by (apply digitsb_all, digitsb_zeros; exact Hb).
  assert (no_lead_zero da) as Nda.
  { pose proof (eat_zeros_rest a) as K. fold da in K. destruct da as [|x q]; [exact I|]. cbn.
    intros E. apply bN_x30 in E. congruence. }
  assert (no_lead_zero db) as Ndb.
  { pose proof (eat_zeros_rest b) as K. fold db in K. destruct db as [|x q]; [exact I|]. cbn.
    intros E. apply bN_x30 in E. congruence. }
  rewrite (dval_zeros a), (dval_zeros b). fold da db. fold (zeros a) (zeros b).
  pose proof (num_tok_numeric da (zeros a) db (zeros b) Ada Adb Nda Ndb) as N1.
  pose proof (num_tok_numeric db (zeros b) da (zeros a) Adb Ada Ndb Nda) as N2.
  destruct (tok_eqb (Num da (zeros a)) (Num db (zeros b))) eqn:E.
  - apply tok_eqb_spec in E. injection E as E1 E2. rewrite E1, E2.
    rewrite N.ltb_irrefl, Nat.ltb_irrefl. rewrite less_eq_lessk. reflexivity.
  - destruct (N.ltb_spec (dval da) (dval db)) as [L|L].
    + apply N1. left. exact L.
    + destruct (N.ltb_spec (dval db) (dval da)) as [L'|L'].
      * apply not_true_is_false. intros T. apply N1 in T. lia.
      * assert (dval da = dval db) as Ev by lia.
        destruct (Nat.ltb_spec (zeros a) (zeros b)) as [Z|Z].
        -- apply N1. right. split; assumption.
        -- destruct (Nat.ltb_spec (zeros b) (zeros a)) as [Z'|Z'].
           ++ apply not_true_is_false. intros T. apply N1 in T. lia.
           ++ exfalso. assert (zeros a = zeros b) as Ez by lia.
              assert (Num da (zeros a) <> Num db (zeros b)) as Hne.
              { intros K. apply tok_eqb_spec in K. congruence. }
              destruct (tok_lt_total _ _ Hne) as [T|T]; [apply N1 in T|apply N2 in T]; lia.
Qed.

Corollary less_numeric p a b r r' :
  end_nd p = true -> a <> [] -> b <> [] -> digitsb a = true -> digitsb b = true ->
  start_nd r = true -> start_nd r' = true -> dval a < dval b ->
  less (p ++ a ++ r) (p ++ b ++ r') = true.
Proof.
  intros Hp Hna Hnb Ha Hb Hr Hr' L. rewrite less_by_digit_run by assumption.
  apply N.ltb_lt in L. rewrite L. reflexivity.
Qed.
