From Coq Require Import List String ZArith NArith Bool Lia.
From Coq Require Import Strings.Byte.
From LLIR Require Import Lib.Bytes Lib.Radix Model.Enc Model.Types Model.TypeString Model.GoEval Gen.Enums Gen.Printers Proofs.PrinterRefinement Proofs.InstPrintBase.
Import ListNotations.
Open Scope string_scope.

(* C01, text layer: constant expressions and aggregate constants as operands -- the regenerated Ident methods of
   package constant write  opcode flags (T1 x, T2 y)  (see InstPrintBase.v; same abstract operands). *)

Definition cexpr_overflow_binops : list (string * string) :=
  [("constant.ExprAdd", "add"); ("constant.ExprSub", "sub"); ("constant.ExprMul", "mul"); ("constant.ExprShl", "shl")].
Lemma print_cexpr_overflow_binop : forall kind kw, In (kind, kw) cexpr_overflow_binops ->
  forall g fuel tx ix ty iy flags,
  call_printer impl g (S fuel) kind "Ident"
    (VObj kind [("X", value tx ix); ("Y", value ty iy); ("OverflowFlags", VList (map (VEnum "enum.OverflowFlag") flags))])
  = Ok (VStr (lit kw ++ flags_text "enum.OverflowFlag" flags ++ lit " (" ++ tv tx ix ++ lit ", " ++ tv ty iy ++ lit ")")%list).
Proof. intros kind kw H g fuel tx ix ty iy flags. each_kind H. all: enter; loop; done. Qed.

Definition cexpr_exact_binops : list (string * string) := [("constant.ExprLShr", "lshr"); ("constant.ExprAShr", "ashr")].
Lemma print_cexpr_exact_binop : forall kind kw, In (kind, kw) cexpr_exact_binops ->
  forall g fuel tx ix ty iy exact,
  call_printer impl g (S fuel) kind "Ident" (VObj kind [("X", value tx ix); ("Y", value ty iy); ("Exact", VBool exact)])
  = Ok (VStr (lit kw ++ opt exact " exact" ++ lit " (" ++ tv tx ix ++ lit ", " ++ tv ty iy ++ lit ")")%list).
Proof. intros kind kw H g fuel tx ix ty iy exact. each_kind H. all: enter; merge; done. Qed.

Definition cexpr_plain_binops : list (string * string) := [("constant.ExprAnd", "and"); ("constant.ExprOr", "or"); ("constant.ExprXor", "xor")].
Lemma print_cexpr_plain_binop : forall kind kw, In (kind, kw) cexpr_plain_binops ->
  forall g fuel tx ix ty iy,
  call_printer impl g (S fuel) kind "Ident" (VObj kind [("X", value tx ix); ("Y", value ty iy)])
  = Ok (VStr (lit kw ++ lit " (" ++ tv tx ix ++ lit ", " ++ tv ty iy ++ lit ")")%list).
Proof. intros kind kw H g fuel tx ix ty iy. each_kind H. all: enter; done. Qed.

Definition cexpr_conversions : list (string * string) :=
  [("constant.ExprTrunc", "trunc"); ("constant.ExprZExt", "zext"); ("constant.ExprSExt", "sext"); ("constant.ExprFPTrunc", "fptrunc");
   ("constant.ExprFPExt", "fpext"); ("constant.ExprFPToUI", "fptoui"); ("constant.ExprFPToSI", "fptosi"); ("constant.ExprUIToFP", "uitofp");
   ("constant.ExprSIToFP", "sitofp"); ("constant.ExprPtrToInt", "ptrtoint"); ("constant.ExprIntToPtr", "inttoptr");
   ("constant.ExprBitCast", "bitcast"); ("constant.ExprAddrSpaceCast", "addrspacecast")].
Lemma print_cexpr_conversion : forall kind kw, In (kind, kw) cexpr_conversions ->
  forall g fuel tx ix to,
  call_printer impl g (S fuel) kind "Ident" (VObj kind [("From", value tx ix); ("To", atype to)])
  = Ok (VStr (lit kw ++ lit " (" ++ tv tx ix ++ lit " to " ++ to ++ lit ")")%list).
Proof. intros kind kw H g fuel tx ix to. each_kind H. all: enter; done. Qed.

Lemma print_cexpr_icmp g fuel pred tx ix ty iy :
  call_printer impl g (S fuel) "constant.ExprICmp" "Ident"
    (VObj "constant.ExprICmp" [("Pred", VEnum "enum.IPred" pred); ("X", value tx ix); ("Y", value ty iy)])
  = Ok (VStr (lit "icmp " ++ enum_string "enum.IPred" pred ++ lit " (" ++ tv tx ix ++ lit ", " ++ tv ty iy ++ lit ")")%list).
Proof. enter; done. Qed.
Lemma print_cexpr_fcmp g fuel pred tx ix ty iy :
  call_printer impl g (S fuel) "constant.ExprFCmp" "Ident"
    (VObj "constant.ExprFCmp" [("Pred", VEnum "enum.FPred" pred); ("X", value tx ix); ("Y", value ty iy)])
  = Ok (VStr (lit "fcmp " ++ enum_string "enum.FPred" pred ++ lit " (" ++ tv tx ix ++ lit ", " ++ tv ty iy ++ lit ")")%list).
Proof. enter; done. Qed.
Lemma print_cexpr_fneg g fuel tx ix :
  call_printer impl g (S fuel) "constant.ExprFNeg" "Ident" (VObj "constant.ExprFNeg" [("X", value tx ix)])
  = Ok (VStr (lit "fneg (" ++ tv tx ix ++ lit ")")%list).
Proof. enter; done. Qed.
Lemma print_cexpr_select g fuel tc ic tx ix ty iy :
  call_printer impl g (S fuel) "constant.ExprSelect" "Ident"
    (VObj "constant.ExprSelect" [("Cond", value tc ic); ("X", value tx ix); ("Y", value ty iy)])
  = Ok (VStr (lit "select (" ++ tv tc ic ++ lit ", " ++ tv tx ix ++ lit ", " ++ tv ty iy ++ lit ")")%list).
Proof. enter; done. Qed.
Lemma print_cexpr_extractelement g fuel tx ix ti ii :
  call_printer impl g (S fuel) "constant.ExprExtractElement" "Ident"
    (VObj "constant.ExprExtractElement" [("X", value tx ix); ("Index", value ti ii)])
  = Ok (VStr (lit "extractelement (" ++ tv tx ix ++ lit ", " ++ tv ti ii ++ lit ")")%list).
Proof. enter; done. Qed.
Lemma print_cexpr_insertelement g fuel tx ix te ie ti ii :
  call_printer impl g (S fuel) "constant.ExprInsertElement" "Ident"
    (VObj "constant.ExprInsertElement" [("X", value tx ix); ("Elem", value te ie); ("Index", value ti ii)])
  = Ok (VStr (lit "insertelement (" ++ tv tx ix ++ lit ", " ++ tv te ie ++ lit ", " ++ tv ti ii ++ lit ")")%list).
Proof. enter; done. Qed.
Lemma print_cexpr_shufflevector g fuel tx ix ty iy tm im :
  call_printer impl g (S fuel) "constant.ExprShuffleVector" "Ident"
    (VObj "constant.ExprShuffleVector" [("X", value tx ix); ("Y", value ty iy); ("Mask", value tm im)])
  = Ok (VStr (lit "shufflevector (" ++ tv tx ix ++ lit ", " ++ tv ty iy ++ lit ", " ++ tv tm im ++ lit ")")%list).
Proof. enter; done. Qed.
Lemma print_cexpr_getelementptr g fuel inbounds et tp ip (indices : list (bytes * bytes)) :
  call_printer impl g (S fuel) "constant.ExprGetElementPtr" "Ident"
    (VObj "constant.ExprGetElementPtr" [("ElemType", atype et); ("Src", value tp ip);
                                        ("Indices", VList (map (fun x => value (fst x) (snd x)) indices)); ("InBounds", VBool inbounds)])
  = Ok (VStr (lit "getelementptr" ++ opt inbounds " inbounds" ++ lit " (" ++ et ++ lit ", " ++ tv tp ip
              ++ List.concat (map (fun x => lit ", " ++ fst x ++ lit " " ++ snd x)%list indices) ++ lit ")")%list).
Proof. enter; merge; loop; done. Qed.

(* aggregate constants: [T a, T b] and <T a, T b>; references to functions and blocks *)
Definition cseqs : list (string * string * string) := [("constant.Array", "[", "]"); ("constant.Vector", "<", ">")].
Lemma print_cseq : forall kind l r, In (kind, l, r) cseqs ->
  forall g fuel (elems : list (bytes * bytes)),
  call_printer impl g (S fuel) kind "Ident" (VObj kind [("Elems", VList (map (fun x => value (fst x) (snd x)) elems))])
  = Ok (VStr (lit l ++ tvs elems ++ lit r)%list).
Proof.
  intros kind l r H g fuel elems. repeat (destruct H as [H|H]; [injection H as <- <- <-|]); [..|contradiction].
  all: enter; loop_sep; done.
Qed.
Lemma print_blockaddress g fuel tf i_f tb ib :
  call_printer impl g (S fuel) "constant.BlockAddress" "Ident"
    (VObj "constant.BlockAddress" [("Func", value tf i_f); ("Block", value tb ib)])
  = Ok (VStr (lit "blockaddress(" ++ i_f ++ lit ", " ++ ib ++ lit ")")%list).
Proof. enter; done. Qed.
Definition cfuncrefs : list (string * string) := [("constant.DSOLocalEquivalent", "dso_local_equivalent "); ("constant.NoCFI", "no_cfi ")].
Lemma print_cfuncref : forall kind kw, In (kind, kw) cfuncrefs -> forall g fuel tf i_f,
  call_printer impl g (S fuel) kind "Ident" (VObj kind [("Func", value tf i_f)]) = Ok (VStr (lit kw ++ i_f)%list).
Proof. intros kind kw H g fuel tf i_f. each_kind H. all: enter; done. Qed.
Lemma print_zeroinitializer g fuel :
  call_printer impl g (S fuel) "constant.ZeroInitializer" "Ident" (VObj "constant.ZeroInitializer" []) = Ok (VStr (lit "zeroinitializer")).
Proof. enter; done. Qed.

(* every constant expression kind (a type of package constant named Expr... with a regenerated Ident body) is
   covered by one of the lemmas above *)
Definition cexpr_covered : list string :=
  (map fst (cexpr_overflow_binops ++ cexpr_exact_binops ++ cexpr_plain_binops ++ cexpr_conversions)
   ++ ["constant.ExprICmp"; "constant.ExprFCmp"; "constant.ExprFNeg"; "constant.ExprSelect"; "constant.ExprExtractElement";
       "constant.ExprInsertElement"; "constant.ExprShuffleVector"; "constant.ExprGetElementPtr"])%list.
Definition is_cexpr (p : printer) : bool :=
  String.eqb (p_method p) "Ident" && String.eqb (substring 0 13 (p_type p)) "constant.Expr".
Theorem cexpr_kinds_are_covered :
  forallb (fun p => existsb (String.eqb (p_type p)) cexpr_covered) (filter is_cexpr printers) = true
  /\ List.length (filter is_cexpr printers) = 30.
Proof. vm_compute. split; reflexivity. Qed.
Print Assumptions print_cexpr_conversion.
Print Assumptions print_cexpr_getelementptr.
Print Assumptions cexpr_kinds_are_covered.
