From Coq Require Import List Bool ZArith Sorting.Permutation Lia.
From Coq Require Import Strings.Byte.
From LLIR Require Import Lib.Bytes Model.Skeleton.
Import ListNotations.

Definition is_ok {A} (x : outcome A) : bool := match x with Ok _ => true | _ => false end.

(* ---- failures do not depend on the visiting order (only *which* failure is met first does) ---- *)
Lemma first_failure_ok {A} (l : list (outcome A)) :
  is_ok (first_failure l) = forallb is_ok l.
Proof. induction l as [|x r IH]; [reflexivity|]. destruct x; cbn; auto. Qed.

Lemma forallb_perm {A} (f : A -> bool) l l' : Permutation l l' -> forallb f l = forallb f l'.
Proof.
  induction 1; cbn; try congruence.
  - destruct (f x), (f y); reflexivity.
Qed.

Lemma first_failure_perm {A} (l l' : list (outcome A)) : Permutation l l' ->
  is_ok (first_failure l) = is_ok (first_failure l').
Proof. intros H. rewrite !first_failure_ok. apply forallb_perm. exact H. Qed.

Lemma first_failure_ok_tt {A} (l : list (outcome A)) : is_ok (first_failure l) = true -> first_failure l = Ok tt.
Proof. induction l as [|x r IH]; [reflexivity|]. destruct x; cbn; auto; discriminate. Qed.

Section Determinism.
  Variables o1 o2 : oracle.
  Hypothesis fair1 : fair o1.
  Hypothesis fair2 : fair o2.
  Variable sort_idents : list ident -> list ident.
  (* sort.Sort over a strict total order: its result depends only on the multiset of keys
     (Lib.Lex.sorted_perm_unique is what discharges this for natsort and for numeric order) *)
  Hypothesis sort_canonical : forall a b, Permutation a b -> sort_idents a = sort_idents b.

  Lemma visit_perm {B} (f : ident -> outcome B) (keys : list ident) :
    is_ok (first_failure (map f (o1 _ keys))) = is_ok (first_failure (map f (o2 _ keys))).
  Proof.
    apply first_failure_perm. apply Permutation_map.
    transitivity keys; [apply fair1 | symmetry; apply fair2].
  Qed.

  Lemma oracle_sort keys : sort_idents (o1 _ keys) = sort_idents (o2 _ keys).
  Proof. apply sort_canonical. transitivity keys; [apply fair1 | symmetry; apply fair2]. Qed.

  (* C12: acceptance does not depend on the iteration order of the Go maps, and
     neither does the module that is produced *)
  Theorem translate_order_independent l :
    is_ok (translate o1 sort_idents l) = is_ok (translate o2 sort_idents l) /\
    (forall m1 m2, translate o1 sort_idents l = Ok m1 -> translate o2 sort_idents l = Ok m2 -> m1 = m2).
  Proof.
    unfold translate. destruct (index_defs (number_globals l 0) []) as [old| |]; [|split; [reflexivity|discriminate]|split; [reflexivity|discriminate]].
    (* each visit is ok under o1 iff it is ok under o2 *)
    pose proof (visit_perm (check_type old) (keys_of old NType)) as V0.
    pose proof (fun n => visit_perm (check_def old n) (keys_of old n)) as V.
    pose proof (V NType) as V1. pose proof (V NGlobal) as V2. pose proof (V NAttr) as V3. pose proof (V NMeta) as V4.
    repeat match goal with
    | H : is_ok ?a = is_ok ?b |- context [match ?a with _ => _ end] =>
        let E1 := fresh in let E2 := fresh in
        destruct a eqn:E1; destruct b eqn:E2; cbn in H; try discriminate H; clear H
    end; split; try reflexivity; try discriminate.
    intros m1 m2 [= <-] [= <-]. f_equal; apply oracle_sort.
  Qed.
End Determinism.
Print Assumptions translate_order_independent.

(* ---- C05 on the skeleton: an accepted module has no undefined use ---- *)
Lemma first_failure_all {A} (l : list (outcome A)) : first_failure l = Ok tt -> forall x, In x l -> is_ok x = true.
Proof.
  intros H x Hx. assert (forallb is_ok l = true) as F by (rewrite <- first_failure_ok, H; reflexivity).
  rewrite forallb_forall in F. apply F. exact Hx.
Qed.

Lemma ns_eqb_spec a b : ns_eqb a b = true <-> a = b.
Proof. destruct a, b; cbn; split; congruence. Qed.
Lemma ident_eqb_spec a b : ident_eqb a b = true <-> a = b.
Proof.
  destruct a, b; cbn; split; try congruence.
  - intros H. apply bytes_eqb_spec in H. congruence.
  - intros [= ->]. apply bytes_eqb_refl.
  - intros H. apply Z.eqb_eq in H. congruence.
  - intros [= ->]. apply Z.eqb_refl.
Qed.

Lemma keys_of_cons n' i' t r n :
  keys_of ((n', i', t) :: r) n = if ns_eqb n' n then i' :: keys_of r n else keys_of r n.
Proof. unfold keys_of. cbn [filter fst snd]. destruct (ns_eqb n' n); reflexivity. Qed.

Lemma ns_eqb_sym a b : ns_eqb a b = ns_eqb b a.
Proof. destruct a, b; reflexivity. Qed.

Lemma get_keys_of old n i t : get old n i = Some t -> In i (keys_of old n).
Proof.
  induction old as [|[[n' i'] t'] r IH]; [discriminate|]. cbn [get]. rewrite keys_of_cons.
  destruct (ns_eqb n n' && ident_eqb i i') eqn:E.
  - apply andb_prop in E as [E1 E2]. apply ns_eqb_spec in E1. apply ident_eqb_spec in E2. subst.
    assert (ns_eqb n' n' = true) as -> by (apply ns_eqb_spec; reflexivity). intros _. left. reflexivity.
  - intros H. destruct (ns_eqb n' n); [right|]; apply IH; exact H.
Qed.

Section Acceptance.
  Variable o : oracle.
  Hypothesis fair_o : fair o.
  Variable sort_idents : list ident -> list ident.

  Lemma visited_all {B} (f : ident -> outcome B) keys :
    first_failure (map f (o _ keys)) = Ok tt -> forall i, In i keys -> is_ok (f i) = true.
  Proof.
    intros H i Hi. apply (first_failure_all _ H). apply in_map.
    apply Permutation_in with (l := keys); [symmetry; apply fair_o | exact Hi].
  Qed.

  (* whatever survives indexing has all of its uses defined, or translate does not return a module *)
  Theorem accepted_has_no_undefined_use l m old :
    index_defs (number_globals l 0) [] = Ok old -> translate o sort_idents l = Ok m ->
    forall n i t u, n <> NComdat -> get old n i = Some t -> In u (t_uses t) -> u_ns u <> NAttr ->
      get old (u_ns u) (u_id u) <> None.
  Proof.
    intros Hidx. unfold translate. rewrite Hidx.
    destruct (first_failure (map (check_type old) (o ident (keys_of old NType)))) as [[]| |] eqn:V0; try discriminate.
    destruct (first_failure (map (check_def old NType) (o ident (keys_of old NType)))) as [[]| |] eqn:V1; try discriminate.
    destruct (first_failure (map (check_def old NGlobal) (o ident (keys_of old NGlobal)))) as [[]| |] eqn:V2; try discriminate.
    destruct (first_failure (map (check_def old NAttr) (o ident (keys_of old NAttr)))) as [[]| |] eqn:V3; try discriminate.
    destruct (first_failure (map (check_def old NMeta) (o ident (keys_of old NMeta)))) as [[]| |] eqn:V4; try discriminate.
    intros _ n i t u Hn Hget Hu Hattr.
    assert (is_ok (check_def old n i) = true) as C.
    { pose proof (get_keys_of old n i t Hget) as K.
      destruct n; try contradiction; eapply visited_all; eassumption. }
    unfold check_def in C. rewrite Hget in C.
    destruct (first_failure (map (resolve old) (t_uses t))) as [[]| |] eqn:R; try discriminate.
    pose proof (first_failure_all _ R (resolve old u) (in_map _ _ _ Hu)) as Ru.
    unfold resolve in Ru. destruct (u_ns u) eqn:E; try contradiction;
      destruct (get old _ (u_id u)); try discriminate; discriminate.
  Qed.
End Acceptance.
Print Assumptions accepted_has_no_undefined_use.

(* ---- the two confirmed findings, as computed witnesses on the faithful model ---- *)
Definition id_oracle : oracle := fun _ l => l.
Definition mk (n : ns) (i : ident) (k : tkind) (us : list use) : top :=
  {| t_ns := n; t_id := Some i; t_kind := k; t_uses := us; t_blocks := []; t_baddrs := [] |}.
Definition nameA : ident := IName [x61].
Definition nameB : ident := IName [x62].

(* KF-24: a second definition of a type is accepted when the first one was opaque *)
Example typedef_after_opaque_accepted :
  is_ok (translate id_oracle (fun l => l) [mk NType nameA KOpaque []; mk NType nameA KPlain []]) = true.
Proof. reflexivity. Qed.
(* while any other duplicate is an error *)
Example duplicate_typedef_rejected :
  translate id_oracle (fun l => l) [mk NType nameA KPlain []; mk NType nameA KPlain []] = Err.
Proof. reflexivity. Qed.

(* KF-10 (fixed in e8258c9): an alias to an undefined type is an error *)
Example alias_to_undefined_rejected :
  translate id_oracle (fun l => l) [mk NType nameA (KAlias nameB) []] = Err.
Proof. reflexivity. Qed.
(* a self-referential alias chain is an error *)
Example alias_cycle_rejected :
  translate id_oracle (fun l => l) [mk NType nameA (KAlias nameB) []; mk NType nameB (KAlias nameA) []] = Err.
Proof. reflexivity. Qed.
(* an undefined global use is an error; an undefined attribute group is not *)
Example undefined_global_rejected :
  translate id_oracle (fun l => l) [mk NGlobal nameA KPlain [{| u_ns := NGlobal; u_id := nameB |}]] = Err.
Proof. reflexivity. Qed.
Example undefined_attr_group_accepted :
  is_ok (translate id_oracle (fun l => l) [mk NGlobal nameA KPlain [{| u_ns := NAttr; u_id := INum 7 |}]]) = true.
Proof. reflexivity. Qed.

(* ---- C05: a second definition of the same name is an error, in every namespace ---- *)
Definition key_eqb (n : ns) (i : ident) (e : ns * ident * top) : bool :=
  let '(n', i', _) := e in ns_eqb n n' && ident_eqb i i'.

Lemma get_app m1 m2 n i : get (m1 ++ m2) n i = match get m1 n i with Some t => Some t | None => get m2 n i end.
Proof.
  induction m1 as [|[[n' i'] t'] r IH]; [reflexivity|]. cbn [app get].
  destruct (ns_eqb n n' && ident_eqb i i'); [reflexivity|exact IH].
Qed.

(* an update of the entries of one key keeps every key present *)
Lemma get_map_present (f : top -> top) n0 i0 m n i :
  get (map (fun e => let '(n', i', t') := e in if ns_eqb n0 n' && ident_eqb i0 i' then (n', i', f t') else e) m) n i
  = match get m n i with
    | Some t => Some (if ns_eqb n0 n && ident_eqb i0 i then f t else t)
    | None => None
    end.
Proof.
  induction m as [|[[n' i'] t'] r IH]; [reflexivity|]. cbn [map get].
  destruct (ns_eqb n0 n' && ident_eqb i0 i') eqn:E0; cbn [get]; destruct (ns_eqb n n' && ident_eqb i i') eqn:E; try exact IH.
  - apply andb_prop in E as [E1 E2]. apply ns_eqb_spec in E1. apply ident_eqb_spec in E2. subst. rewrite E0. reflexivity.
  - apply andb_prop in E as [E1 E2]. apply ns_eqb_spec in E1. apply ident_eqb_spec in E2. subst. rewrite E0. reflexivity.
Qed.

Definition strict (n : ns) : bool := match n with NComdat | NGlobal | NMeta => true | _ => false end.

(* once a key of a strict namespace is in the index, a later definition with that key makes indexing fail *)
Lemma index_defs_dup_err : forall l acc n i t, strict n = true -> get acc n i <> None -> In (n, i, t) l ->
  is_ok (index_defs l acc) = false.
Proof.
  induction l as [|[[n' i'] t'] r IH]; intros acc n i t Hs Hg Hin; [contradiction|].
  cbn [index_defs]. destruct Hin as [E|Hin].
  - injection E as -> -> ->. destruct (get acc n i) as [prev|]; [|congruence].
    destruct n; try discriminate; reflexivity.
  - destruct (get acc n' i') as [prev|] eqn:G.
    + destruct n'.
      * destruct (t_kind prev); try reflexivity.
        apply (IH _ n i t Hs); [|exact Hin]. rewrite get_map_present. destruct (get acc n i); [discriminate|congruence].
      * reflexivity.
      * reflexivity.
      * apply (IH _ n i t Hs); [|exact Hin]. rewrite get_map_present. destruct (get acc n i); [discriminate|congruence].
      * reflexivity.
    + apply (IH _ n i t Hs); [|exact Hin]. rewrite get_app. destruct (get acc n i); [discriminate|congruence].
Qed.

(* whatever indexing returns contains every key it was given and every key it started from *)
Lemma index_defs_keeps : forall l acc m, index_defs l acc = Ok m ->
  (forall n i, get acc n i <> None -> get m n i <> None) /\ (forall n i t, In (n, i, t) l -> get m n i <> None).
Proof.
  induction l as [|[[n' i'] t'] r IH]; intros acc m H; cbn [index_defs] in H.
  - injection H as <-. split; [auto|intros ? ? ? []].
  - assert (forall acc', index_defs r acc' = Ok m -> (forall n i, get acc n i <> None -> get acc' n i <> None) -> get acc' n' i' <> None ->
              (forall n i, get acc n i <> None -> get m n i <> None) /\ (forall n i t, In (n, i, t) ((n', i', t') :: r) -> get m n i <> None)) as K.
    { intros acc' H' Hk Hh. destruct (IH acc' m H') as [I1 I2]. split.
      - intros n i Hg. apply I1, Hk, Hg.
      - intros n i t [E|Hin]; [injection E as <- <- <-; apply I1, Hh|apply (I2 n i t Hin)]. }
    destruct (get acc n' i') as [prev|] eqn:G.
    + destruct n'; try discriminate.
      * destruct (t_kind prev) eqn:Kd; try discriminate. apply (K _ H).
        -- intros n i Hg. rewrite get_map_present. destruct (get acc n i); [discriminate|congruence].
        -- rewrite get_map_present, G. discriminate.
      * apply (K _ H).
        -- intros n i Hg. rewrite get_map_present. destruct (get acc n i); [discriminate|congruence].
        -- rewrite get_map_present, G. discriminate.
    + apply (K _ H).
      * intros n i Hg. rewrite get_app. destruct (get acc n i); [discriminate|congruence].
      * rewrite get_app, G. cbn [get].
        assert (ns_eqb n' n' && ident_eqb i' i' = true) as -> by (apply andb_true_intro; split; [apply ns_eqb_spec|apply ident_eqb_spec]; reflexivity).
        discriminate.
Qed.

Lemma index_defs_app l1 : forall l2 acc, index_defs (l1 ++ l2) acc =
  match index_defs l1 acc with Ok m => index_defs l2 m | Err => Err | Panic => Panic end.
Proof.
  induction l1 as [|[[n i] t] r IH]; intros l2 acc; [reflexivity|]. cbn [app index_defs].
  destruct (get acc n i) as [prev|]; [|apply IH].
  destruct n; try reflexivity; [destruct (t_kind prev); try reflexivity|]; apply IH.
Qed.

(* the theorem: two definitions with the same identifier in the comdat, global or metadata namespace, anywhere
   in the module and whatever lies between them, and indexing does not return an index *)
Theorem duplicate_def_is_error : forall l1 n i t1 l2 t2 l3 acc, strict n = true ->
  is_ok (index_defs (l1 ++ (n, i, t1) :: l2 ++ (n, i, t2) :: l3) acc) = false.
Proof.
  intros l1 n i t1 l2 t2 l3 acc Hs. rewrite index_defs_app.
  destruct (index_defs l1 acc) as [m1| |] eqn:E1; try reflexivity.
  change ((n, i, t1) :: l2 ++ (n, i, t2) :: l3) with ([(n, i, t1)] ++ (l2 ++ (n, i, t2) :: l3)). rewrite index_defs_app.
  destruct (index_defs [(n, i, t1)] m1) as [m2| |] eqn:E2; try reflexivity.
  apply (index_defs_dup_err _ m2 n i t2 Hs).
  - destruct (index_defs_keeps _ _ _ E2) as [_ K]. apply (K n i t1). left. reflexivity.
  - apply in_or_app. right. left. reflexivity.
Qed.

(* types: a second definition is an error unless what is stored under the name is an opaque definition (the
   accepted case is the recorded finding KF-24) *)
Lemma index_defs_type_dup_err : forall l acc i t prev, get acc NType i = Some prev -> t_kind prev <> KOpaque ->
  (forall t', ~ In (NType, i, t') l) -> forall l3, is_ok (index_defs (l ++ (NType, i, t) :: l3) acc) = false.
Proof.
  induction l as [|[[n' i'] t'] r IH]; intros acc i t prev Hg Hk Hno l3.
  - cbn [app index_defs]. rewrite Hg. destruct (t_kind prev); try reflexivity. congruence.
  - cbn [app index_defs].
    assert (ns_eqb NType n' && ident_eqb i i' = false) as Hne.
    { destruct (ns_eqb NType n' && ident_eqb i i') eqn:E; [|reflexivity]. exfalso.
      apply andb_prop in E as [E1 E2]. apply ns_eqb_spec in E1. apply ident_eqb_spec in E2. subst. apply (Hno t'). left. reflexivity. }
    assert (forall t'', ~ In (NType, i, t'') r) as Hno' by (intros t'' H; apply (Hno t''); right; exact H).
    assert (forall f, (if ns_eqb n' NType && ident_eqb i' i then f prev else prev) = prev) as Hsame.
    { intros f. rewrite (ns_eqb_sym n' NType). destruct (ns_eqb NType n' && ident_eqb i' i) eqn:E; [|reflexivity]. exfalso.
      apply andb_prop in E as [E1 E2]. apply ns_eqb_spec in E1. apply ident_eqb_spec in E2. subst.
      rewrite (proj2 (ns_eqb_spec _ _) eq_refl), (proj2 (ident_eqb_spec _ _) eq_refl) in Hne. discriminate. }
    destruct (get acc n' i') as [p'|] eqn:G.
    + destruct n'; try reflexivity.
      * destruct (t_kind p'); try reflexivity.
        apply (IH _ i t prev); [|exact Hk|exact Hno']. rewrite get_map_present, Hg. f_equal. apply (Hsame (fun _ => t')).
      * apply (IH _ i t prev); [|exact Hk|exact Hno']. rewrite get_map_present, Hg. reflexivity.
    + apply (IH _ i t prev); [|exact Hk|exact Hno']. rewrite get_app, Hg. reflexivity.
Qed.

Theorem duplicate_type_is_error : forall l1 i t1 l2 t2 l3 acc, t_kind t1 <> KOpaque ->
  (forall t', ~ In (NType, i, t') l1) -> get acc NType i = None -> (forall t', ~ In (NType, i, t') l2) ->
  is_ok (index_defs (l1 ++ (NType, i, t1) :: l2 ++ (NType, i, t2) :: l3) acc) = false.
Proof.
  intros l1 i t1 l2 t2 l3 acc Hk Hno1 Hacc Hno2. rewrite index_defs_app.
  destruct (index_defs l1 acc) as [m1| |] eqn:E1; try reflexivity.
  cbn [index_defs].
  assert (get m1 NType i = None) as G1.
  { clear - E1 Hno1 Hacc. revert acc m1 E1 Hacc. induction l1 as [|[[n' i'] t'] r IH]; intros acc m1 E1 Hacc; cbn [index_defs] in E1.
    - injection E1 as <-. exact Hacc.
    - assert (ns_eqb NType n' && ident_eqb i i' = false) as Hne.
      { destruct (ns_eqb NType n' && ident_eqb i i') eqn:E; [|reflexivity]. exfalso.
        apply andb_prop in E as [X1 X2]. apply ns_eqb_spec in X1. apply ident_eqb_spec in X2. subst. apply (Hno1 t'). left. reflexivity. }
      assert (forall t'', ~ In (NType, i, t'') r) as Hno' by (intros t'' H; apply (Hno1 t''); right; exact H).
      destruct (get acc n' i') as [p'|] eqn:G.
      + destruct n'; try discriminate.
        * destruct (t_kind p'); try discriminate. apply (IH Hno' _ _ E1). rewrite get_map_present, Hacc. reflexivity.
        * apply (IH Hno' _ _ E1). rewrite get_map_present, Hacc. reflexivity.
      + apply (IH Hno' _ _ E1). rewrite get_app, Hacc. cbn [get]. rewrite Hne. reflexivity. }
  rewrite G1.
  apply (index_defs_type_dup_err l2 (m1 ++ [(NType, i, t1)]) i t2 t1); [|exact Hk|exact Hno2].
  rewrite get_app, G1. cbn [get]. rewrite (proj2 (ident_eqb_spec _ _) eq_refl). reflexivity.
Qed.
Print Assumptions duplicate_def_is_error.
Print Assumptions duplicate_type_is_error.

(* on the whole translation: no module is returned *)
Theorem translate_rejects_duplicates : forall (o : oracle) sort_idents l l1 n i t1 l2 t2 l3, strict n = true ->
  number_globals l 0 = l1 ++ (n, i, t1) :: l2 ++ (n, i, t2) :: l3 -> is_ok (translate o sort_idents l) = false.
Proof.
  intros o s l l1 n i t1 l2 t2 l3 Hs E. unfold translate. rewrite E.
  pose proof (duplicate_def_is_error l1 n i t1 l2 t2 l3 [] Hs) as D.
  destruct (index_defs _ []); [discriminate|reflexivity|reflexivity].
Qed.
Theorem translate_rejects_duplicate_types : forall (o : oracle) sort_idents l l1 i t1 l2 t2 l3, t_kind t1 <> KOpaque ->
  (forall t', ~ In (NType, i, t') l1) -> (forall t', ~ In (NType, i, t') l2) ->
  number_globals l 0 = l1 ++ (NType, i, t1) :: l2 ++ (NType, i, t2) :: l3 -> is_ok (translate o sort_idents l) = false.
Proof.
  intros o s l l1 i t1 l2 t2 l3 Hk H1 H2 E. unfold translate. rewrite E.
  pose proof (duplicate_type_is_error l1 i t1 l2 t2 l3 [] Hk H1 eq_refl H2) as D.
  destruct (index_defs _ []); [discriminate|reflexivity|reflexivity].
Qed.

(* ---- C04 on the skeleton: the index holds one definition per name, so a use that resolves denotes exactly one ---- *)
Definition key_of (e : ns * ident * top) : ns * ident := fst e.
Definition keys (m : amap) : list (ns * ident) := map key_of m.

Lemma get_none_notin m n i : get m n i = None <-> ~ In (n, i) (keys m).
Proof.
  induction m as [|[[n' i'] t'] r IH]; cbn [get keys map key_of fst In]; [tauto|].
  destruct (ns_eqb n n' && ident_eqb i i') eqn:E.
  - apply andb_prop in E as [E1 E2]. apply ns_eqb_spec in E1. apply ident_eqb_spec in E2. subst. split; [discriminate|intros H; exfalso; apply H; left; reflexivity].
  - rewrite IH. split; intros H.
    + intros [X|X]; [|exact (H X)]. injection X as -> ->.
      rewrite (proj2 (ns_eqb_spec _ _) eq_refl), (proj2 (ident_eqb_spec _ _) eq_refl) in E. discriminate.
    + intros X. apply H. right. exact X.
Qed.

Lemma keys_map_keep (g : ns * ident * top -> ns * ident * top) m : (forall e, key_of (g e) = key_of e) -> keys (map g m) = keys m.
Proof. intros H. unfold keys. rewrite map_map. apply map_ext. exact H. Qed.

Lemma NoDup_app_one {A} (l : list A) x : NoDup l -> ~ In x l -> NoDup (l ++ [x]).
Proof.
  induction l as [|y l IH]; intros Hn Hx; cbn; [constructor; [intros []|constructor]|].
  inversion Hn as [|? ? Hy Hl]; subst. constructor.
  - intros H. apply in_app_or in H as [H|[H|[]]]; [exact (Hy H)|subst; apply Hx; left; reflexivity].
  - apply IH; [exact Hl|intros H; apply Hx; right; exact H].
Qed.

Theorem index_keys_unique : forall l acc m, index_defs l acc = Ok m -> NoDup (keys acc) -> NoDup (keys m).
Proof.
  induction l as [|[[n i] t] r IH]; intros acc m H Hn; cbn [index_defs] in H.
  - injection H as <-. exact Hn.
  - destruct (get acc n i) as [prev|] eqn:G.
    + destruct n; try discriminate.
      * destruct (t_kind prev); try discriminate. apply (IH _ _ H).
        rewrite keys_map_keep; [exact Hn|]. intros [[n' i'] t']. destruct (ns_eqb NType n' && ident_eqb i i'); reflexivity.
      * apply (IH _ _ H).
        rewrite keys_map_keep; [exact Hn|]. intros [[n' i'] t']. destruct (ns_eqb NAttr n' && ident_eqb i i'); reflexivity.
    + apply (IH _ _ H). unfold keys. rewrite map_app. cbn [map key_of fst].
      apply NoDup_app_one; [exact Hn|]. apply get_none_notin. exact G.
Qed.

(* the entry a key denotes is unique: two entries of the index with the same key are the same entry *)
Corollary index_entry_unique : forall l m, index_defs l [] = Ok m -> forall e1 e2, In e1 m -> In e2 m -> key_of e1 = key_of e2 -> e1 = e2.
Proof.
  intros l m H e1 e2 H1 H2 K. pose proof (index_keys_unique l [] m H (NoDup_nil _)) as N. unfold keys in N.
  clear H. induction m as [|x r IH]; [contradiction|]. cbn [map] in N. inversion N as [|? ? Hx Hr]; subst.
  destruct H1 as [<-|H1], H2 as [<-|H2]; [reflexivity| | |apply IH; assumption].
  - exfalso. apply Hx. rewrite K. apply in_map. exact H2.
  - exfalso. apply Hx. rewrite <- K. apply in_map. exact H1.
Qed.

Lemma get_in m n i t : get m n i = Some t -> In (n, i, t) m.
Proof.
  induction m as [|[[n' i'] t'] r IH]; [discriminate|]. cbn [get].
  destruct (ns_eqb n n' && ident_eqb i i') eqn:E.
  - apply andb_prop in E as [E1 E2]. apply ns_eqb_spec in E1. apply ident_eqb_spec in E2. subst. intros [= ->]. left. reflexivity.
  - intros H. right. apply IH. exact H.
Qed.

(* use is definition, on the module level: in an accepted module every use (of a type, global or metadata name,
   from any definition outside the comdat namespace) denotes exactly one entry of the index -- the definition
   with that namespace and identifier -- whatever the map order *)
Theorem use_is_def_module (o : oracle) (fair_o : fair o) sort_idents l m old :
  index_defs (number_globals l 0) [] = Ok old -> translate o sort_idents l = Ok m ->
  forall n i t u, n <> NComdat -> get old n i = Some t -> In u (t_uses t) -> u_ns u <> NAttr ->
  exists d, In (u_ns u, u_id u, d) old /\ forall e, In e old -> key_of e = (u_ns u, u_id u) -> e = (u_ns u, u_id u, d).
Proof.
  intros Hidx Htr n i t u Hn Hg Hu Ha.
  pose proof (accepted_has_no_undefined_use o fair_o sort_idents l m old Hidx Htr n i t u Hn Hg Hu Ha) as D.
  destruct (get old (u_ns u) (u_id u)) as [d|] eqn:G; [|congruence].
  exists d. split; [apply get_in; exact G|].
  intros e He K. apply (index_entry_unique _ _ Hidx e _ He (get_in _ _ _ _ G)). exact K.
Qed.
Print Assumptions use_is_def_module.
