From Coq Require Import List Bool ZArith Sorting.Permutation Lia.
From Coq Require Import Strings.Byte.
From LLIR Require Import Lib.Bytes Model.Skeleton.
Import ListNotations.

Definition is_ok {A} (x : outcome A) : bool := match x with Ok _ => true | _ => false end.

(* ---- failures do not depend on the visiting order (only *which* failure is met first does) ---- *)
Lemma first_failure_ok {A} (l : list (outcome A)) :
  is_ok (first_failure l) = forallb is_ok l.
Proof. induction l as [|x r IH]; [reflexivity|]. destruct x; cbn; auto. Qed.

Lemma forallb_perm {A} (f : A -> bool) l l' : Permutation l l' -> forallb f l = forallb f l'.
Proof.
  induction 1; cbn; try congruence.
  - destruct (f x), (f y); reflexivity.
Qed.

Lemma first_failure_perm {A} (l l' : list (outcome A)) : Permutation l l' ->
  is_ok (first_failure l) = is_ok (first_failure l').
Proof. intros H. rewrite !first_failure_ok. apply forallb_perm. exact H. Qed.

Lemma first_failure_ok_tt {A} (l : list (outcome A)) : is_ok (first_failure l) = true -> first_failure l = Ok tt.
Proof. induction l as [|x r IH]; [reflexivity|]. destruct x; cbn; auto; discriminate. Qed.

Section Determinism.
  Variables o1 o2 : oracle.
  Hypothesis fair1 : fair o1.
  Hypothesis fair2 : fair o2.
  Variable sort_idents : list ident -> list ident.
  (* sort.Sort over a strict total order: its result depends only on the multiset of keys
     (Lib.Lex.sorted_perm_unique is what discharges this for natsort and for numeric order) *)
  Hypothesis sort_canonical : forall a b, Permutation a b -> sort_idents a = sort_idents b.

  Lemma visit_perm {B} (f : ident -> outcome B) (keys : list ident) :
    is_ok (first_failure (map f (o1 _ keys))) = is_ok (first_failure (map f (o2 _ keys))).
  Proof.
    apply first_failure_perm. apply Permutation_map.
    transitivity keys; [apply fair1 | symmetry; apply fair2].
  Qed.

  Lemma oracle_sort keys : sort_idents (o1 _ keys) = sort_idents (o2 _ keys).
  Proof. apply sort_canonical. transitivity keys; [apply fair1 | symmetry; apply fair2]. Qed.

  (* C12: acceptance does not depend on the iteration order of the Go maps, and
     neither does the module that is produced *)
  Theorem translate_order_independent l :
    is_ok (translate o1 sort_idents l) = is_ok (translate o2 sort_idents l) /\
    (forall m1 m2, translate o1 sort_idents l = Ok m1 -> translate o2 sort_idents l = Ok m2 -> m1 = m2).
  Proof.
    unfold translate. destruct (index_defs (number_globals l 0) []) as [old| |]; [|split; [reflexivity|discriminate]|split; [reflexivity|discriminate]].
    (* each visit is ok under o1 iff it is ok under o2 *)
    pose proof (visit_perm (check_type old) (keys_of old NType)) as V0.
    pose proof (fun n => visit_perm (check_def old n) (keys_of old n)) as V.
    pose proof (V NType) as V1. pose proof (V NGlobal) as V2. pose proof (V NAttr) as V3. pose proof (V NMeta) as V4.
    repeat match goal with
    | H : is_ok ?a = is_ok ?b |- context [match ?a with _ => _ end] =>
        let E1 := fresh in let E2 := fresh in
        destruct a eqn:E1; destruct b eqn:E2; cbn in H; try discriminate H; clear H
    end; split; try reflexivity; try discriminate.
    intros m1 m2 [= <-] [= <-]. f_equal; apply oracle_sort.
  Qed.
End Determinism.
Print Assumptions translate_order_independent.

(* ---- C05 on the skeleton: an accepted module has no undefined use ---- *)
Lemma first_failure_all {A} (l : list (outcome A)) : first_failure l = Ok tt -> forall x, In x l -> is_ok x = true.
Proof.
  intros H x Hx. assert (forallb is_ok l = true) as F by (rewrite <- first_failure_ok, H; reflexivity).
  rewrite forallb_forall in F. apply F. exact Hx.
Qed.

Lemma ns_eqb_spec a b : ns_eqb a b = true <-> a = b.
Proof. destruct a, b; cbn; split; congruence. Qed.
Lemma ident_eqb_spec a b : ident_eqb a b = true <-> a = b.
Proof.
  destruct a, b; cbn; split; try congruence.
  - intros H. apply bytes_eqb_spec in H. congruence.
  - intros [= ->]. apply bytes_eqb_refl.
  - intros H. apply Z.eqb_eq in H. congruence.
  - intros [= ->]. apply Z.eqb_refl.
Qed.

Lemma keys_of_cons n' i' t r n :
  keys_of ((n', i', t) :: r) n = if ns_eqb n' n then i' :: keys_of r n else keys_of r n.
Proof. unfold keys_of. cbn [filter fst snd]. destruct (ns_eqb n' n); reflexivity. Qed.

Lemma ns_eqb_sym a b : ns_eqb a b = ns_eqb b a.
Proof. destruct a, b; reflexivity. Qed.

Lemma get_keys_of old n i t : get old n i = Some t -> In i (keys_of old n).
Proof.
  induction old as [|[[n' i'] t'] r IH]; [discriminate|]. cbn [get]. rewrite keys_of_cons.
  destruct (ns_eqb n n' && ident_eqb i i') eqn:E.
  - apply andb_prop in E as [E1 E2]. apply ns_eqb_spec in E1. apply ident_eqb_spec in E2. subst.
    assert (ns_eqb n' n' = true) as -> by (apply ns_eqb_spec; reflexivity). intros _. left. reflexivity.
  - intros H. destruct (ns_eqb n' n); [right|]; apply IH; exact H.
Qed.

Section Acceptance.
  Variable o : oracle.
  Hypothesis fair_o : fair o.
  Variable sort_idents : list ident -> list ident.

  Lemma visited_all {B} (f : ident -> outcome B) keys :
    first_failure (map f (o _ keys)) = Ok tt -> forall i, In i keys -> is_ok (f i) = true.
  Proof.
    intros H i Hi. apply (first_failure_all _ H). apply in_map.
    apply Permutation_in with (l := keys); [symmetry; apply fair_o | exact Hi].
  Qed.

  (* whatever survives indexing has all of its uses defined, or translate does not return a module *)
  Theorem accepted_has_no_undefined_use l m old :
    index_defs (number_globals l 0) [] = Ok old -> translate o sort_idents l = Ok m ->
    forall n i t u, n <> NComdat -> get old n i = Some t -> In u (t_uses t) -> u_ns u <> NAttr ->
      get old (u_ns u) (u_id u) <> None.
  Proof.
    intros Hidx. unfold translate. rewrite Hidx.
    destruct (first_failure (map (check_type old) (o ident (keys_of old NType)))) as [[]| |] eqn:V0; try discriminate.
    destruct (first_failure (map (check_def old NType) (o ident (keys_of old NType)))) as [[]| |] eqn:V1; try discriminate.
    destruct (first_failure (map (check_def old NGlobal) (o ident (keys_of old NGlobal)))) as [[]| |] eqn:V2; try discriminate.
    destruct (first_failure (map (check_def old NAttr) (o ident (keys_of old NAttr)))) as [[]| |] eqn:V3; try discriminate.
    destruct (first_failure (map (check_def old NMeta) (o ident (keys_of old NMeta)))) as [[]| |] eqn:V4; try discriminate.
    intros _ n i t u Hn Hget Hu Hattr.
    assert (is_ok (check_def old n i) = true) as C.
    { pose proof (get_keys_of old n i t Hget) as K.
      destruct n; try contradiction; eapply visited_all; eassumption. }
    unfold check_def in C. rewrite Hget in C.
    destruct (first_failure (map (resolve old) (t_uses t))) as [[]| |] eqn:R; try discriminate.
    pose proof (first_failure_all _ R (resolve old u) (in_map _ _ _ Hu)) as Ru.
    unfold resolve in Ru. destruct (u_ns u) eqn:E; try contradiction;
      destruct (get old _ (u_id u)); try discriminate; discriminate.
  Qed.
End Acceptance.
Print Assumptions accepted_has_no_undefined_use.

(* ---- the two confirmed findings, as computed witnesses on the faithful model ---- *)
Definition id_oracle : oracle := fun _ l => l.
Definition mk (n : ns) (i : ident) (k : tkind) (us : list use) : top :=
  {| t_ns := n; t_id := Some i; t_kind := k; t_uses := us; t_blocks := []; t_baddrs := [] |}.
Definition nameA : ident := IName [x61].
Definition nameB : ident := IName [x62].

(* KF-24: a second definition of a type is accepted when the first one was opaque *)
Example typedef_after_opaque_accepted :
  is_ok (translate id_oracle (fun l => l) [mk NType nameA KOpaque []; mk NType nameA KPlain []]) = true.
Proof. reflexivity. Qed.
(* while any other duplicate is an error *)
Example duplicate_typedef_rejected :
  translate id_oracle (fun l => l) [mk NType nameA KPlain []; mk NType nameA KPlain []] = Err.
Proof. reflexivity. Qed.

(* KF-10 (fixed in e8258c9): an alias to an undefined type is an error *)
Example alias_to_undefined_rejected :
  translate id_oracle (fun l => l) [mk NType nameA (KAlias nameB) []] = Err.
Proof. reflexivity. Qed.
(* a self-referential alias chain is an error *)
Example alias_cycle_rejected :
  translate id_oracle (fun l => l) [mk NType nameA (KAlias nameB) []; mk NType nameB (KAlias nameA) []] = Err.
Proof. reflexivity. Qed.
(* an undefined global use is an error; an undefined attribute group is not *)
Example undefined_global_rejected :
  translate id_oracle (fun l => l) [mk NGlobal nameA KPlain [{| u_ns := NGlobal; u_id := nameB |}]] = Err.
Proof. reflexivity. Qed.
Example undefined_attr_group_accepted :
  is_ok (translate id_oracle (fun l => l) [mk NGlobal nameA KPlain [{| u_ns := NAttr; u_id := INum 7 |}]]) = true.
Proof. reflexivity. Qed.
