From Coq Require Import List Bool ZArith Lia.
From LLIR Require Import Model.MetadataIDs.
Import ListNotations.
Local Open Scope Z_scope.

Lemma memZ_In x l : memZ x l = true <-> In x l.
Proof.
  unfold memZ. rewrite existsb_exists. split.
  - intros [y [Hy E]]. apply Z.eqb_eq in E. subst. exact Hy.
  - intros H. exists x. split; [exact H | apply Z.eqb_refl].
Qed.
Lemma memZ_false x l : memZ x l = false <-> ~ In x l.
Proof. rewrite <- memZ_In. destruct (memZ x l); split; congruence. Qed.

Definition explicit (ids : list Z) : list Z := filter (fun id => negb (id =? -1)) ids.

Lemma index_used_ok ids : forall used u, index_used ids used = Ok u ->
  NoDup (explicit ids) /\ (forall x, In x (explicit ids) -> ~ In x used) /\
  (forall x, In x u <-> In x (explicit ids) \/ In x used).
Proof.
  induction ids as [|id r IH]; intros used u; cbn [index_used explicit filter].
  - intros [= <-]. split; [constructor|]. split; [intros x []|]. intros x; cbn; tauto.
  - destruct (id =? -1) eqn:E; cbn [negb].
    + apply IH.
    + destruct (memZ id used) eqn:M; [discriminate|]. intros H. apply IH in H as (H1 & H2 & H3).
      apply memZ_false in M. repeat split.
      * constructor; [|exact H1]. intros K. apply (H2 id K). left; reflexivity.
      * intros x [<-|Hx]; [exact M|]. intros K. apply (H2 x Hx). right; exact K.
      * intros Hx. apply H3 in Hx. cbn [In] in *. tauto.
      * intros Hx. apply H3. cbn [In] in *. tauto.
Qed.

Lemma index_used_err ids : forall used, index_used ids used = Err ->
  ~ NoDup (explicit ids) \/ exists x, In x (explicit ids) /\ In x used.
Proof.
  induction ids as [|id r IH]; intros used; cbn [index_used explicit filter]; [discriminate|].
  destruct (id =? -1) eqn:E; cbn [negb]; [apply IH|].
  destruct (memZ id used) eqn:M.
  - intros _. right. exists id. apply memZ_In in M. split; [left; reflexivity|exact M].
  - intros H. apply IH in H as [H|[x [Hx Hu]]].
    + left. intros K. inversion K; contradiction.
    + destruct Hu as [<-|Hu].
      * left. intros K. inversion K; contradiction.
      * right. exists x. split; [right; exact Hx|exact Hu].
Qed.

(* ---- nextID ---- *)
Definition above (cur : Z) (used : list Z) : list Z := filter (fun x => cur <? x) used.

Lemma filter_sub_length (A B : Z -> bool) l : (forall x, A x = true -> B x = true) ->
  (length (filter A l) <= length (filter B l))%nat.
Proof.
  intros H. induction l as [|z l IH]; cbn [filter length]; [lia|].
  destruct (A z) eqn:EA; [rewrite (H z EA); cbn [length]; lia|].
  destruct (B z); cbn [length]; lia.
Qed.

Lemma above_shrinks cur used : In (cur + 1) used ->
  (length (above (cur + 1) used) < length (above cur used))%nat.
Proof.
  unfold above.
  assert (forall x, (cur + 1 <? x) = true -> (cur <? x) = true) as Sub.
  { intros x H. apply Z.ltb_lt in H. apply Z.ltb_lt. lia. }
  induction used as [|y l IH]; [intros []|]. cbn [filter In].
  intros [->|H].
  - assert (cur + 1 <? cur + 1 = false) as -> by (apply Z.ltb_ge; lia).
    assert (cur <? cur + 1 = true) as -> by (apply Z.ltb_lt; lia). cbn [length].
    pose proof (filter_sub_length (fun x => cur + 1 <? x) (fun x => cur <? x) l Sub). lia.
  - specialize (IH H). destruct (cur + 1 <? y) eqn:E1.
    + rewrite (Sub y E1). cbn [length]. lia.
    + destruct (cur <? y); cbn [length]; lia.
Qed.

Lemma above_le cur used : (length (above cur used) <= length used)%nat.
Proof. unfold above. induction used as [|y l IH]; cbn [filter length]; [lia|]. destruct (cur <? y); cbn [length]; lia. Qed.

Lemma next_id_spec : forall fuel cur used, (length (above cur used) < fuel)%nat ->
  let n := next_id fuel cur used in
  cur < n /\ ~ In n used /\ forall m, cur < m < n -> In m used.
Proof.
  induction fuel as [|fuel IH]; intros cur used Hf; [lia|]. cbn [next_id].
  destruct (memZ (cur + 1) used) eqn:M.
  - apply memZ_In in M. pose proof (above_shrinks cur used M) as S.
    destruct (IH (cur + 1) used ltac:(lia)) as (H1 & H2 & H3). cbn zeta.
    repeat split; [lia | exact H2 |].
    intros m Hm. destruct (Z.eq_dec m (cur + 1)) as [->|Hne]; [exact M|]. apply H3. lia.
  - apply memZ_false in M. cbn zeta. repeat split; [lia | exact M | intros m Hm; lia].
Qed.

(* ---- the second loop ---- *)
(* every value handed out is above the running cursor, unused, and the result of
   fill lists, in order, exactly the unused values above cur, skipping none *)
Lemma fill_props ids : forall cur used,
  Forall (fun id => id = -1 \/ In id used) ids ->
  let out := fill ids cur used in
  length out = length ids
  /\ (forall i, nth i ids 0 <> -1 -> (i < length ids)%nat -> nth i out 0 = nth i ids 0)
  /\ (forall i, (i < length ids)%nat -> nth i ids 0 = -1 -> cur < nth i out 0 /\ ~ In (nth i out 0) used).
Proof.
  induction ids as [|id r IH]; intros cur used Hall; cbn [fill]; [cbn; split; [reflexivity|split; intros; lia]|].
  inversion Hall as [|? ? Hid Hr]; subst.
  destruct (id =? -1) eqn:E.
  - apply Z.eqb_eq in E; subst.
    pose proof (next_id_spec (S (length used)) cur used ltac:(pose proof (above_le cur used); lia)) as (N1 & N2 & N3).
    set (n := next_id (S (length used)) cur used) in *.
    destruct (IH n used Hr) as (L & K & F). cbn zeta. cbn [length]. split; [|split].
    + lia.
    + intros [|i] Hi Hl; cbn [nth] in *; [congruence|]. apply K; [exact Hi|lia].
    + intros [|i] Hl Hi; cbn [nth] in *; [split; [lia|exact N2]|].
      destruct (F i ltac:(lia) Hi) as [F1 F2]. split; [lia|exact F2].
  - destruct (IH cur used Hr) as (L & K & F). cbn zeta. cbn [length]. split; [|split].
    + lia.
    + intros [|i] Hi Hl; cbn [nth] in *; [reflexivity|]. apply K; [exact Hi|lia].
    + intros [|i] Hl Hi; cbn [nth] in *; [apply Z.eqb_neq in E; congruence|]. apply F; [lia|exact Hi].
Qed.

(* strictly increasing among the freshly assigned ones *)
Lemma fill_fresh_increasing ids : forall cur used i j,
  (i < j < length ids)%nat -> nth i ids 0 = -1 -> nth j ids 0 = -1 ->
  nth i (fill ids cur used) 0 < nth j (fill ids cur used) 0.
Proof.
  induction ids as [|id r IH]; intros cur used i j Hij Hi Hj; [cbn in Hij; lia|].
  cbn [fill]. destruct (id =? -1) eqn:E.
  - set (n := next_id (S (length used)) cur used).
    destruct i as [|i]; destruct j as [|j]; try lia; cbn [nth length] in *.
    + (* i = 0: the later one is above n *)
      assert (Forall (fun id => id = -1 \/ True) r) as _ by (apply Forall_forall; tauto).
      clear IH. revert n. generalize (next_id (S (length used)) cur used). intros n0.
      revert j Hij Hj n0. induction r as [|id' r' IHr]; intros j Hij Hj n0; [cbn in Hij; lia|].
      cbn [fill]. destruct (id' =? -1) eqn:E'.
      * pose proof (next_id_spec (S (length used)) n0 used ltac:(pose proof (above_le n0 used); lia)) as (N1 & _ & _).
        destruct j as [|j]; cbn [nth length] in *; [exact N1|].
        specialize (IHr j ltac:(lia) Hj (next_id (S (length used)) n0 used)). lia.
      * destruct j as [|j]; cbn [nth length] in *; [apply Z.eqb_neq in E'; congruence|].
        apply IHr; [lia|exact Hj].
    + apply IH; [lia|assumption|assumption].
  - destruct i as [|i]; destruct j as [|j]; try lia; cbn [nth length] in *.
    + apply Z.eqb_neq in E. congruence.
    + apply IH; [lia|assumption|assumption].
Qed.

(* ---- the theorems of C17 about AssignMetadataIDs ---- *)
Lemma explicit_in ids x : In x (explicit ids) <-> In x ids /\ x <> -1.
Proof. unfold explicit. rewrite filter_In, negb_true_iff, Z.eqb_neq. tauto. Qed.

Lemma nth_explicit_in ids i : (i < length ids)%nat -> nth i ids 0 <> -1 -> In (nth i ids 0) (explicit ids).
Proof. intros Hi Hn. apply explicit_in. split; [apply nth_In; exact Hi|exact Hn]. Qed.

(* distinct positions of a list whose filtered sublist has no duplicates hold distinct values *)
Lemma nodup_filter_nth (p : Z -> bool) l : NoDup (filter p l) ->
  forall i j, (i < j < length l)%nat -> p (nth i l 0) = true -> p (nth j l 0) = true -> nth i l 0 <> nth j l 0.
Proof.
  induction l as [|x r IH]; intros Hnd i j Hij Pi Pj; [cbn in Hij; lia|].
  cbn [filter] in Hnd. destruct i as [|i]; destruct j as [|j]; try lia; cbn [nth length] in *.
  - rewrite Pi in Hnd. inversion Hnd; subst. intros E. apply H1. rewrite E. apply filter_In.
    split; [apply nth_In; lia|exact Pj].
  - apply IH; [destruct (p x); [inversion Hnd; assumption|exact Hnd]|lia|exact Pi|exact Pj].
Qed.

Theorem md_assign_spec ids out : assign_md_ids ids = Ok out ->
  length out = length ids
  /\ (forall i, (i < length ids)%nat -> nth i ids 0 <> -1 -> nth i out 0 = nth i ids 0)     (* explicit IDs are kept *)
  /\ NoDup out.                                                                             (* all IDs are unique *)
Proof.
  unfold assign_md_ids. destruct (index_used ids []) as [used|] eqn:U; [|discriminate]. intros [= <-].
  destruct (index_used_ok ids [] used U) as (NDe & _ & Hu).
  assert (Forall (fun id => id = -1 \/ In id used) ids) as Hall.
  { apply Forall_forall. intros x Hx. destruct (Z.eq_dec x (-1)) as [->|Hne]; [left; reflexivity|].
    right. apply Hu. left. apply explicit_in. split; assumption. }
  destruct (fill_props ids (-1) used Hall) as (L & K & F). cbn zeta in *.
  split; [exact L|]. split; [intros i Hi Hn; apply K; assumption|].
  apply (NoDup_nth _ 0). rewrite L. intros i j Hi Hj E.
  destruct (Nat.lt_trichotomy i j) as [Lt|[Eq|Gt]]; [|exact Eq|]; exfalso.
  - destruct (Z.eq_dec (nth i ids 0) (-1)) as [Ei|Ei]; destruct (Z.eq_dec (nth j ids 0) (-1)) as [Ej|Ej].
    + pose proof (fill_fresh_increasing ids (-1) used i j ltac:(lia) Ei Ej). lia.
    + destruct (F i Hi Ei) as [_ Fi]. apply Fi. rewrite E, (K j Ej Hj). apply Hu. left. apply nth_explicit_in; assumption.
    + destruct (F j Hj Ej) as [_ Fj]. apply Fj. rewrite <- E, (K i Ei Hi). apply Hu. left. apply nth_explicit_in; assumption.
    + rewrite (K i Ei Hi), (K j Ej Hj) in E.
      apply (nodup_filter_nth (fun id => negb (id =? -1)) ids NDe i j ltac:(lia)); [| |exact E];
        apply negb_true_iff, Z.eqb_neq; assumption.
  - destruct (Z.eq_dec (nth i ids 0) (-1)) as [Ei|Ei]; destruct (Z.eq_dec (nth j ids 0) (-1)) as [Ej|Ej].
    + pose proof (fill_fresh_increasing ids (-1) used j i ltac:(lia) Ej Ei). lia.
    + destruct (F i Hi Ei) as [_ Fi]. apply Fi. rewrite E, (K j Ej Hj). apply Hu. left. apply nth_explicit_in; assumption.
    + destruct (F j Hj Ej) as [_ Fj]. apply Fj. rewrite <- E, (K i Ei Hi). apply Hu. left. apply nth_explicit_in; assumption.
    + rewrite (K i Ei Hi), (K j Ej Hj) in E.
      apply (nodup_filter_nth (fun id => negb (id =? -1)) ids NDe j i ltac:(lia)); [| |symmetry; exact E];
        apply negb_true_iff, Z.eqb_neq; assumption.
Qed.

(* a collision of explicit IDs is an error (printing then panics) *)
Theorem md_duplicate_is_error ids : ~ NoDup (explicit ids) -> assign_md_ids ids = Err.
Proof.
  intros H. unfold assign_md_ids. destruct (index_used ids []) as [used|] eqn:U; [|reflexivity].
  exfalso. apply H. apply (index_used_ok ids [] used U).
Qed.
Print Assumptions md_assign_spec.
