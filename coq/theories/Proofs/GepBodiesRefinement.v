(* C07: the regenerated internal/gep.ResultType against the model walker, with the bodies of
   identified struct types in the reified Go object.

   In Go an identified struct type is a *types.StructType with TypeName set and Fields filled;
   types may be recursive through pointers (%list = type { i32, %list* }), so the finite tree the
   evaluator works on is the unfolding of the type to a depth: [reify_ty_in bodies d t] unfolds
   every identified struct met on a path at most d times, and the identified structs below that
   (and the ones [bodies] has no body for) are the object with Fields = nil.

   Proofs/GepRefinement.v is the instance bodies = no_bodies of the theorem below
   (gep_result_generated_again). *)
From Coq Require Import List String ZArith NArith Bool Lia.
From Coq Require Import Strings.Byte.
From LLIR Require Import Lib.Bytes Model.Types Model.TypeString Model.Gep Model.GoEval Gen.Printers
  Proofs.PrinterRefinement Proofs.GepRefinement.
Import ListNotations.
Open Scope string_scope.

(* ---- the reification ---- *)

(* the fields of the Go object of a type, given the value of Fields of every identified struct *)
Fixpoint tfields_gen (named : bytes -> GoEval.val) (t : ty) : list (string * GoEval.val) :=
  let obj (e : ty) := VObj (tyname e) (tfields_gen named e) in
  match t with
  | TVoid | TMMX | TLabel | TToken | TMetadata => [("TypeName", VStr [])]
  | TInt n => [("TypeName", VStr []); ("BitSize", VInt (Z.of_N n))]
  | TFloat k => [("TypeName", VStr []); ("Kind", VEnum "types.FloatKind" (fkind_num k))]
  | TPtr e a => [("TypeName", VStr []); ("ElemType", obj e); ("AddrSpace", VEnum "types.AddrSpace" (Z.of_N a))]
  | TVec s n e => [("TypeName", VStr []); ("Scalable", VBool s); ("Len", VInt (Z.of_N n)); ("ElemType", obj e)]
  | TArr n e => [("TypeName", VStr []); ("Len", VInt (Z.of_N n)); ("ElemType", obj e)]
  | TStruct p fs => [("TypeName", VStr []); ("Opaque", VBool false); ("Packed", VBool p); ("Fields", VList (map obj fs))]
  | TNamed n => [("TypeName", VStr n); ("Opaque", VBool false); ("Packed", VBool false); ("Fields", named n)]
  | TFunc r ps v => [("TypeName", VStr []); ("RetType", obj r); ("Params", VList (map obj ps)); ("Variadic", VBool v)]
  end.

Section Reify.
  Variable bodies : Gep.env.

  (* Fields of the identified struct n, unfolded d times *)
  Fixpoint named_fields (d : nat) (n : bytes) : GoEval.val :=
    match d with
    | 0 => VNil
    | S d' =>
      match bodies n with
      | Some fs => VList (map (fun e => VObj (tyname e) (tfields_gen (named_fields d') e)) fs)
      | None => VNil
      end
    end.

  Definition tfields_in (d : nat) (t : ty) : list (string * GoEval.val) := tfields_gen (named_fields d) t.
  Definition reify_ty_in (d : nat) (t : ty) : GoEval.val := VObj (tyname t) (tfields_in d t).
End Reify.

(* depth 0, or no bodies at any depth: the reification of PrinterRefinement.v *)
Lemma tfields_gen_nil named : (forall n, named n = VNil) -> forall t, tfields_gen named t = tfields t.
Proof.
  intros Hn. fix IH 1. intros t.
  assert (forall l, map (fun e => VObj (tyname e) (tfields_gen named e)) l = map (fun e => VObj (tyname e) (tfields e)) l) as Hl.
  { induction l as [|x r IHl]; [reflexivity|]. cbn [map]. rewrite IH, IHl. reflexivity. }
  destruct t; cbn [tfields_gen tfields]; rewrite ?IH, ?Hl, ?Hn; reflexivity.
Qed.
Lemma reify_ty_in_0 bodies t : reify_ty_in bodies 0 t = reify_ty t.
Proof. unfold reify_ty_in, tfields_in, reify_ty. rewrite tfields_gen_nil; reflexivity. Qed.
Lemma reify_ty_in_no_bodies d t : reify_ty_in no_bodies d t = reify_ty t.
Proof. unfold reify_ty_in, tfields_in, reify_ty. rewrite tfields_gen_nil; [reflexivity|]. intros n. destruct d; reflexivity. Qed.

(* the unfolding equations *)
Lemma reify_named_S bodies d n :
  reify_ty_in bodies (S d) (TNamed n) =
  VObj "types.StructType" [("TypeName", VStr n); ("Opaque", VBool false); ("Packed", VBool false);
    ("Fields", match bodies n with Some fs => VList (map (reify_ty_in bodies d) fs) | None => VNil end)].
Proof. reflexivity. Qed.
Lemma reify_named_0 bodies n :
  reify_ty_in bodies 0 (TNamed n) =
  VObj "types.StructType" [("TypeName", VStr n); ("Opaque", VBool false); ("Packed", VBool false); ("Fields", VNil)].
Proof. reflexivity. Qed.
Lemma reify_struct bodies d p fs :
  reify_ty_in bodies d (TStruct p fs) =
  VObj "types.StructType" [("TypeName", VStr []); ("Opaque", VBool false); ("Packed", VBool p); ("Fields", VList (map (reify_ty_in bodies d) fs))].
Proof. reflexivity. Qed.
Lemma reify_ptr bodies d e a :
  reify_ty_in bodies d (TPtr e a) =
  VObj "types.PointerType" [("TypeName", VStr []); ("ElemType", reify_ty_in bodies d e); ("AddrSpace", VEnum "types.AddrSpace" (Z.of_N a))].
Proof. reflexivity. Qed.

(* ---- the statement's two sides ---- *)
Definition go_panic : res GoEval.val := Fail "panic".
Definition expect_in (bodies : Gep.env) (d : nat) (o : Gep.outcome ty) : res GoEval.val :=
  match o with Gep.Ok t => GoEval.Ok (reify_ty_in bodies d t) | Gep.Panic => Fail "panic" end.

Definition run_gep_in (bodies : Gep.env) (d : nat) (elem src : ty) (idxs : list index) : res GoEval.val :=
  call_printer impl [] 1 "" "gep.ResultType"
    (VTuple [reify_ty_in bodies d elem; reify_ty_in bodies d src; VList (map reify_idx idxs)]).

(* ---- how much unfolding a walk uses ---- *)
Section Depth.
  Variable bodies : Gep.env.

  (* 1 when the step enters the body of an identified struct, 0 otherwise (the other element types are
     part of the tree at the same depth; a step that panics needs nothing) *)
  Definition step_need (e : ty) (ix : index) : nat :=
    match e, step_type bodies e ix with
    | TNamed _, Gep.Ok _ => 1
    | _, _ => 0
    end.

  (* the number of identified-struct bodies the walk enters before it ends or panics *)
  Fixpoint walk_need (first : bool) (e : ty) (idxs : list index) (rvl : N) : nat :=
    match idxs with
    | [] => 0
    | ix :: r =>
      match merge_len rvl ix with
      | Gep.Panic => 0
      | Gep.Ok rvl' =>
        if first then walk_need false e r rvl'
        else match step_type bodies e ix with
             | Gep.Ok e' => step_need e ix + walk_need false e' r rvl'
             | Gep.Panic => 0
             end
      end
    end.

  Definition gep_need (elem src : ty) (idxs : list index) : nat :=
    match start src with
    | Gep.Ok (_, rvl0) => walk_need true elem idxs rvl0
    | Gep.Panic => 0
    end.

  (* the reified types are unfolded deep enough for this walk *)
  Definition enough_depth (d : nat) (elem src : ty) (idxs : list index) : Prop := gep_need elem src idxs <= d.

  Lemma step_need_le e ix : step_need e ix <= 1.
  Proof. unfold step_need. destruct e; try lia. destruct (step_type bodies (TNamed name) ix); lia. Qed.

  Lemma walk_need_le : forall idxs first e rvl, walk_need first e idxs rvl <= List.length idxs - (if first then 1 else 0).
  Proof.
    induction idxs as [|ix r IH]; intros first e rvl; cbn [walk_need List.length]; [lia|].
    destruct (merge_len rvl ix) as [rvl'|]; [|destruct first; lia].
    destruct first.
    - specialize (IH false e rvl'). cbv iota in IH. lia.
    - destruct (step_type bodies e ix) as [e'|]; [|lia].
      specialize (IH false e' rvl'). cbv iota in IH. pose proof (step_need_le e ix). lia.
  Qed.

  (* a bound that does not mention the walk: the first index does not step, every later one enters at most one body *)
  Lemma gep_need_le elem src idxs : gep_need elem src idxs <= List.length idxs - 1.
  Proof. unfold gep_need. destruct (start src) as [[a rvl0]|]; [|lia]. apply (walk_need_le idxs true). Qed.

  Lemma enough_depth_length d elem src idxs : List.length idxs <= S d -> enough_depth d elem src idxs.
  Proof. intros H. unfold enough_depth. pose proof (gep_need_le elem src idxs). lia. Qed.
End Depth.

Lemma walk_need_no_bodies : forall idxs first e rvl, walk_need no_bodies first e idxs rvl = 0.
Proof.
  induction idxs as [|ix r IH]; intros first e rvl; cbn [walk_need]; [reflexivity|].
  destruct (merge_len rvl ix); [|reflexivity]. destruct first; [apply IH|].
  destruct (step_type no_bodies e ix) eqn:E; [|reflexivity]. rewrite IH.
  destruct e; reflexivity.
Qed.

(* ---- one iteration of the loop ---- *)
Local Arguments truncate : simpl nomatch.
Local Arguments app : simpl nomatch.

Section Proof.
  Variable bodies : Gep.env.
  Notation reify := (reify_ty_in bodies).

  Definition frame_in (d : nat) (e : ty) (rvl a : N) (rest : env) : env :=
    ("e", reify d e) :: ("resultVectorLength", VInt (Z.of_N rvl)) :: ("addrSpace", VEnum "types.AddrSpace" (Z.of_N a)) :: rest.

  (* the walker's state with the depth left *)
  Definition iter_in (first : bool) (d : nat) (e : ty) (rvl : N) (ix : index) : Gep.outcome (nat * ty * N) :=
    match merge_len rvl ix with
    | Gep.Panic => Gep.Panic
    | Gep.Ok rvl' =>
      if first then Gep.Ok (d, e, rvl')
      else match step_type bodies e ix with Gep.Ok e' => Gep.Ok (d - step_need bodies e ix, e', rvl') | Gep.Panic => Gep.Panic end
    end.

  Lemma nth_error_reify d fs n : nth_error (map (reify d) fs) n = option_map (reify d) (nth_error fs n).
  Proof. revert n. induction fs as [|f r IH]; intros [|n]; cbn [map nth_error option_map]; try reflexivity. apply IH. Qed.

  Section Iter.
    Variable call : string -> string -> GoEval.val -> res GoEval.val.
    Variables v1 v2 v3 : GoEval.val.
    Let rest : env := [("elemType", v1); ("src", v2); ("indices", v3)].

    Lemma step_part_first_in d e rvl a ix :
      exec impl call body_step (("index", reify_idx ix) :: ("i", VInt 0) :: frame_in d e rvl a rest) [] =
      GoEval.Ok (("index", reify_idx ix) :: ("i", VInt 0) :: frame_in d e rvl a rest, [], Cont).
    Proof. reflexivity. Qed.

    (* a struct object, literal or identified: the step is Fields[index.Val] *)
    Lemma struct_step (fv : GoEval.val) (nm : bytes) (pk : bool) d e rvl a ix p (fs : list ty) d' :
      reify d e = VObj "types.StructType" [("TypeName", VStr nm); ("Opaque", VBool false); ("Packed", VBool pk); ("Fields", fv)] ->
      fv = VList (map (reify d') fs) ->
      exec impl call body_step (("index", reify_idx ix) :: ("i", VInt (Zpos p)) :: frame_in d e rvl a rest) [] =
      match struct_field fs ix with
      | Gep.Ok e' => GoEval.Ok (("index", reify_idx ix) :: ("i", VInt (Zpos p)) :: frame_in d' e' rvl a rest, [], Run)
      | Gep.Panic => Fail "panic"
      end.
    Proof.
      intros He ->. unfold frame_in. rewrite He. unfold struct_field, body_step, exec, rest. cbn.
      destruct (has_val ix); cbn; [|reflexivity].
      destruct (Gep.val ix <? 0)%Z; cbn; [reflexivity|].
      rewrite nth_error_reify. destruct (nth_error fs (Z.to_nat (Gep.val ix))); reflexivity.
    Qed.

    (* a struct object without fields: every step panics *)
    Lemma struct_step_nil (nm : bytes) (pk : bool) d e rvl a ix p :
      reify d e = VObj "types.StructType" [("TypeName", VStr nm); ("Opaque", VBool false); ("Packed", VBool pk); ("Fields", VNil)] ->
      exec impl call body_step (("index", reify_idx ix) :: ("i", VInt (Zpos p)) :: frame_in d e rvl a rest) [] = Fail "panic".
    Proof.
      intros He. unfold frame_in. rewrite He. unfold body_step, exec, rest. cbn.
      destruct (has_val ix); cbn; reflexivity.
    Qed.

    (* every later index steps into the element type *)
    Lemma step_part_next_in d e rvl a ix p : step_need bodies e ix <= d ->
      exec impl call body_step (("index", reify_idx ix) :: ("i", VInt (Zpos p)) :: frame_in d e rvl a rest) [] =
      match step_type bodies e ix with
      | Gep.Ok e' => GoEval.Ok (("index", reify_idx ix) :: ("i", VInt (Zpos p)) :: frame_in (d - step_need bodies e ix) e' rvl a rest, [], Run)
      | Gep.Panic => Fail "panic"
      end.
    Proof.
      intros Hd. destruct e.
      1-10, 13: unfold step_need; cbn [step_type]; rewrite ?Nat.sub_0_r; unfold body_step, exec, frame_in, rest; reflexivity.
      - (* literal struct: its fields are in the tree at the same depth *)
        unfold step_need. cbn [step_type]. rewrite Nat.sub_0_r.
        apply (struct_step (VList (map (reify d) fields)) [] packed d (TStruct packed fields) rvl a ix p fields d); reflexivity.
      - (* identified struct *)
        unfold step_need in *. cbn [step_type] in *.
        destruct (bodies name) as [fs|] eqn:Eb.
        + destruct d as [|d0].
          * (* no depth left: the hypothesis says the model's step panics; so does Fields = nil *)
            destruct (struct_field fs ix); [lia|].
            apply (struct_step_nil name false 0 (TNamed name) rvl a ix p). reflexivity.
          * rewrite (struct_step (VList (map (reify d0) fs)) name false (S d0) (TNamed name) rvl a ix p fs d0).
            -- destruct (struct_field fs ix); [|reflexivity]. replace (S d0 - 1) with d0 by lia. reflexivity.
            -- rewrite reify_named_S, Eb. reflexivity.
            -- reflexivity.
        + (* no body *)
          apply (struct_step_nil name false d (TNamed name) rvl a ix p).
          destruct d; [reflexivity|]. rewrite reify_named_S, Eb. reflexivity.
    Qed.

    Lemma iteration_in d e rvl a ix i : (0 <= i)%Z ->
      (forall rvl', merge_len rvl ix = Gep.Ok rvl' -> (i =? 0)%Z = false -> step_need bodies e ix <= d) ->
      exists fl, stopped fl && negb (is_cont fl) = false /\
      exec impl call loop_body (("index", reify_idx ix) :: ("i", VInt i) :: frame_in d e rvl a rest) [] =
      match iter_in (i =? 0)%Z d e rvl ix with
      | Gep.Ok (d', e', rvl') => GoEval.Ok (("index", reify_idx ix) :: ("i", VInt i) :: frame_in d' e' rvl' a rest, [], fl)
      | Gep.Panic => Fail "panic"
      end.
    Proof.
      intros Hi Hd. rewrite loop_body_split, exec_app. unfold frame_in at 1. unfold rest. rewrite merge_part. unfold iter_in.
      destruct (merge_len rvl ix) as [rvl'|]; [|exists Run; split; reflexivity].
      cbn [stopped]. fold rest. fold (frame_in d e rvl' a rest).
      destruct i as [|p|p]; [| |lia].
      - exists Cont. split; [reflexivity|]. rewrite step_part_first_in. reflexivity.
      - exists Run. split; [reflexivity|]. rewrite step_part_next_in by (apply (Hd rvl'); reflexivity). cbn [Z.eqb].
        destruct (step_type bodies e ix); reflexivity.
    Qed.

    (* one unfolding short: the identified struct the model steps into has Fields = nil in the tree *)
    Lemma step_part_short d e rvl a ix p : d < step_need bodies e ix ->
      exec impl call body_step (("index", reify_idx ix) :: ("i", VInt (Zpos p)) :: frame_in d e rvl a rest) [] = Fail "panic".
    Proof.
      unfold step_need. intros Hd. destruct e; try lia. cbn [step_type] in Hd.
      destruct (bodies name) as [fs|]; [|lia]. destruct (struct_field fs ix); [|lia].
      assert (d = 0) as -> by lia.
      apply (struct_step_nil name false 0 (TNamed name) rvl a ix p). reflexivity.
    Qed.

    Lemma iteration_short d e rvl a ix p rvl' : merge_len rvl ix = Gep.Ok rvl' -> d < step_need bodies e ix ->
      exec impl call loop_body (("index", reify_idx ix) :: ("i", VInt (Zpos p)) :: frame_in d e rvl a rest) [] = Fail "panic".
    Proof.
      intros Hm Hd. rewrite loop_body_split, exec_app. unfold frame_in at 1. unfold rest. rewrite merge_part, Hm.
      cbn [stopped]. fold rest. fold (frame_in d e rvl' a rest). apply step_part_short, Hd.
    Qed.
  End Iter.

  Local Arguments for_loop : simpl never.

  Section Loop.
    Variable call : string -> string -> GoEval.val -> res GoEval.val.
    Variables v1 v2 v3 : GoEval.val.
    Let rest : env := [("elemType", v1); ("src", v2); ("indices", v3)].

    Lemma gep_loop_in a : forall idxs i d e rvl, (0 <= i)%Z ->
      walk_need bodies (i =? 0)%Z e idxs rvl <= d ->
      for_loop (B call) "i" "index" (map reify_idx idxs) i (frame_in d e rvl a rest) [] =
      match walk bodies (i =? 0)%Z e idxs rvl with
      | Gep.Ok (e', rvl') => GoEval.Ok (frame_in (d - walk_need bodies (i =? 0)%Z e idxs rvl) e' rvl' a rest, [], Run)
      | Gep.Panic => Fail "panic"
      end.
    Proof.
      induction idxs as [|ix r IH]; intros i d e rvl Hi Hd.
      { cbn [walk walk_need]. rewrite Nat.sub_0_r. reflexivity. }
      cbn [walk walk_need] in *. cbn [map]. unfold for_loop; fold for_loop.
      change (loop_env "i" "index" i (reify_idx ix) (frame_in d e rvl a rest)) with (("index", reify_idx ix) :: ("i", VInt i) :: frame_in d e rvl a rest).
      unfold B at 1. unfold rest in *.
      destruct (iteration_in call v1 v2 v3 d e rvl a ix i Hi) as (fl & Hfl & ->).
      { intros rvl' Hm Hz. rewrite Hm, Hz in Hd. revert Hd. destruct (step_type bodies e ix) eqn:E; intros Hd; [lia|].
        unfold step_need. destruct e; try lia. rewrite E. lia. }
      unfold iter_in. destruct (merge_len rvl ix) as [rvl'|]; [|reflexivity].
      assert ((i + 1 =? 0)%Z = false) as Hn by (apply Z.eqb_neq; lia).
      destruct (i =? 0)%Z.
      - rewrite Hfl.
        match goal with |- for_loop _ _ _ _ _ ?en _ = _ => change en with (frame_in d e rvl' a [("elemType", v1); ("src", v2); ("indices", v3)]) end.
        specialize (IH (i + 1)%Z d e rvl'). rewrite Hn in IH. rewrite IH by lia. reflexivity.
      - destruct (step_type bodies e ix) as [e'|]; [|reflexivity].
        rewrite Hfl.
        match goal with |- for_loop _ _ _ _ _ ?en _ = _ =>
          change en with (frame_in (d - step_need bodies e ix) e' rvl' a [("elemType", v1); ("src", v2); ("indices", v3)]) end.
        specialize (IH (i + 1)%Z (d - step_need bodies e ix) e' rvl'). rewrite Hn in IH. rewrite IH by lia.
        destruct (walk bodies false e' r rvl') as [[e'' rvl'']|]; [|reflexivity].
        replace (d - step_need bodies e ix - walk_need bodies false e' r rvl') with (d - (step_need bodies e ix + walk_need bodies false e' r rvl')) by lia.
        reflexivity.
    Qed.

    (* without the depth the walk needs, the loop panics where the tree ends *)
    Lemma gep_loop_short a : forall idxs i d e rvl, (0 <= i)%Z ->
      d < walk_need bodies (i =? 0)%Z e idxs rvl ->
      for_loop (B call) "i" "index" (map reify_idx idxs) i (frame_in d e rvl a rest) [] = Fail "panic".
    Proof.
      induction idxs as [|ix r IH]; intros i d e rvl Hi Hd; cbn [walk_need] in Hd; [lia|].
      cbn [map]. unfold for_loop; fold for_loop.
      change (loop_env "i" "index" i (reify_idx ix) (frame_in d e rvl a rest)) with (("index", reify_idx ix) :: ("i", VInt i) :: frame_in d e rvl a rest).
      unfold B at 1. unfold rest in *.
      assert ((i + 1 =? 0)%Z = false) as Hn by (apply Z.eqb_neq; lia).
      destruct (merge_len rvl ix) as [rvl'|] eqn:Hm; [|lia].
      destruct i as [|p|p]; [| |lia].
      - (* the first index does not step *)
        cbn [Z.eqb] in Hd.
        destruct (iteration_in call v1 v2 v3 d e rvl a ix 0 Hi) as (fl & Hfl & ->); [intros ? ? Hz; discriminate Hz|].
        unfold iter_in. rewrite Hm. cbn [Z.eqb]. rewrite Hfl.
        match goal with |- for_loop _ _ _ _ _ ?en _ = _ => change en with (frame_in d e rvl' a [("elemType", v1); ("src", v2); ("indices", v3)]) end.
        apply IH; [lia|]. rewrite Hn. exact Hd.
      - cbn [Z.eqb] in Hd. destruct (step_type bodies e ix) as [e'|] eqn:E; [|lia].
        destruct (le_lt_dec (step_need bodies e ix) d) as [Hle|Hlt].
        + destruct (iteration_in call v1 v2 v3 d e rvl a ix (Zpos p) Hi) as (fl & Hfl & ->); [intros; exact Hle|].
          unfold iter_in. rewrite Hm, E. cbn [Z.eqb]. rewrite Hfl.
          match goal with |- for_loop _ _ _ _ _ ?en _ = _ =>
            change en with (frame_in (d - step_need bodies e ix) e' rvl' a [("elemType", v1); ("src", v2); ("indices", v3)]) end.
          apply IH; [lia|]. rewrite Hn. lia.
        + rewrite (iteration_short call v1 v2 v3 d e rvl a ix p rvl' Hm Hlt). reflexivity.
    Qed.
  End Loop.

  (* ---- prologue and epilogue ---- *)
  Section Whole.
    Variable call : string -> string -> GoEval.val -> res GoEval.val.

    Lemma pre_part_in d d2 elem src (vi : GoEval.val) :
      exec impl call body_pre [("elemType", reify d elem); ("src", reify d2 src); ("indices", vi)] [] =
      match start src with
      | Gep.Ok (a, rvl0) => GoEval.Ok (frame_in d elem rvl0 a [("elemType", reify d elem); ("src", reify d2 src); ("indices", vi)], [], Run)
      | Gep.Panic => Fail "panic"
      end.
    Proof.
      unfold body_pre, exec, start, frame_in. destruct src; try reflexivity.
      destruct src; reflexivity.
    Qed.

    Lemma post_part_in d e rvl a (v1 v2 v3 : GoEval.val) :
      exists en', exec impl call body_post (frame_in d e rvl a [("elemType", v1); ("src", v2); ("indices", v3)]) [] =
      GoEval.Ok (en', [], Ret (reify d (if (rvl =? 0)%N then TPtr e a else TVec false rvl (TPtr e a)))).
    Proof.
      unfold body_post, exec, frame_in. cbn. rewrite Zeqb_ofN_0. destruct (rvl =? 0)%N; cbn; eexists; reflexivity.
    Qed.
  End Whole.

  (* ---- the refinement ---- *)
  (* the element type and the source type may be unfolded to different depths: the source type is only
     looked at for its address space and vector length *)
  Theorem gep_result_generated_bodies_gen d d2 elem src idxs :
    enough_depth bodies d elem src idxs ->
    call_printer impl [] 1 "" "gep.ResultType" (VTuple [reify d elem; reify d2 src; VList (map reify_idx idxs)])
    = expect_in bodies (d - gep_need bodies elem src idxs) (result_type bodies elem src idxs).
  Proof.
    unfold enough_depth, gep_need. intros Hd. rewrite call_printer_S, fp_gep.
    unfold run_body.
    cbn [p_recv p_body].
    change (split_commas "elemType,src,indices") with ["elemType"; "src"; "indices"].
    cbn [combine app].
    rewrite gep_body_split, exec_app, app_nil_r, pre_part_in.
    unfold result_type. fold (start src).
    destruct (start src) as [[a rvl0]|]; [|reflexivity].
    cbn [stopped].
    rewrite exec_app.
    rewrite (loop_stmt _ _ idxs) by reflexivity.
    rewrite (gep_loop_in _ _ _ _ a idxs 0 d elem rvl0) by (cbn [Z.eqb]; lia).
    cbn [Z.eqb].
    destruct (walk bodies true elem idxs rvl0) as [[e rvl]|]; [|reflexivity].
    cbn [stopped].
    destruct (post_part_in (call_printer impl [] 0) (d - walk_need bodies true elem idxs rvl0) e rvl a
                (reify d elem) (reify d2 src) (VList (map reify_idx idxs))) as (en' & ->).
    reflexivity.
  Qed.

  Theorem gep_result_generated_bodies elem src idxs d :
    enough_depth bodies d elem src idxs ->
    run_gep_in bodies d elem src idxs = expect_in bodies (d - gep_need bodies elem src idxs) (result_type bodies elem src idxs).
  Proof. apply gep_result_generated_bodies_gen. Qed.

  (* the hypothesis is exact: unfolded less than the walk needs, the regenerated function panics
     (whether or not the model does) *)
  Theorem gep_result_generated_bodies_short d d2 elem src idxs :
    ~ enough_depth bodies d elem src idxs ->
    call_printer impl [] 1 "" "gep.ResultType" (VTuple [reify d elem; reify d2 src; VList (map reify_idx idxs)]) = Fail "panic".
  Proof.
    unfold enough_depth, gep_need. intros Hd. rewrite call_printer_S, fp_gep.
    unfold run_body.
    cbn [p_recv p_body].
    change (split_commas "elemType,src,indices") with ["elemType"; "src"; "indices"].
    cbn [combine app].
    rewrite gep_body_split, exec_app, app_nil_r, pre_part_in.
    destruct (start src) as [[a rvl0]|]; [|reflexivity].
    cbn [stopped].
    rewrite exec_app.
    rewrite (loop_stmt _ _ idxs) by reflexivity.
    rewrite (gep_loop_short _ _ _ _ a idxs 0 d elem rvl0) by (cbn [Z.eqb]; lia).
    reflexivity.
  Qed.

  (* both directions as one equation, for every depth *)
  Theorem gep_result_generated_bodies_total elem src idxs d :
    run_gep_in bodies d elem src idxs =
    if (gep_need bodies elem src idxs <=? d)%nat
    then expect_in bodies (d - gep_need bodies elem src idxs) (result_type bodies elem src idxs)
    else go_panic.
  Proof.
    destruct (Nat.leb_spec (gep_need bodies elem src idxs) d) as [H|H].
    - apply gep_result_generated_bodies. exact H.
    - apply gep_result_generated_bodies_short. unfold enough_depth. lia.
  Qed.

  (* the hypothesis in terms of the index list alone *)
  Corollary gep_result_generated_bodies_length elem src idxs d :
    List.length idxs <= S d ->
    run_gep_in bodies d elem src idxs = expect_in bodies (d - gep_need bodies elem src idxs) (result_type bodies elem src idxs).
  Proof. intros H. apply gep_result_generated_bodies, enough_depth_length, H. Qed.
End Proof.

(* the hypothesis is needed: one unfolding short, the Go object has no Fields where the model has a body *)
Example depth_needed :
  let bodies : Gep.env := fun n => if bytes_eqb n (lit "pair") then Some [TInt 32; TInt 64] else None in
  run_gep_in bodies 0 (TNamed (lit "pair")) (TPtr (TNamed (lit "pair")) 0) [new_index 0; new_index 1] = Fail "panic"
  /\ result_type bodies (TNamed (lit "pair")) (TPtr (TNamed (lit "pair")) 0) [new_index 0; new_index 1] = Gep.Ok (TPtr (TInt 64) 0)
  /\ ~ enough_depth bodies 0 (TNamed (lit "pair")) (TPtr (TNamed (lit "pair")) 0) [new_index 0; new_index 1].
Proof. split; [|split]; [vm_compute; reflexivity ..|]. vm_compute. intros H. inversion H. Qed.

(* GepRefinement.v's theorem is the instance without bodies *)
Corollary gep_result_generated_again elem src idxs :
  run_gep elem src idxs = expect (result_type no_bodies elem src idxs).
Proof.
  pose proof (gep_result_generated_bodies no_bodies elem src idxs 0) as H.
  assert (gep_need no_bodies elem src idxs = 0) as E.
  { unfold gep_need. destruct (start src) as [[a r]|]; [apply walk_need_no_bodies|reflexivity]. }
  unfold enough_depth, run_gep_in in H. rewrite E, !reify_ty_in_0 in H. specialize (H (le_n 0)).
  unfold run_gep. rewrite H. destruct (result_type no_bodies elem src idxs); [|reflexivity].
  cbn [expect_in expect]. rewrite reify_ty_in_0. reflexivity.
Qed.

(* ---- the statement is about something: identified structs with bodies, run ---- *)
Module Examples.
  Definition list_t := TNamed (lit "list").
  Definition outer_t := TNamed (lit "outer").
  Definition inner_t := TNamed (lit "inner").
  Definition opaque_t := TNamed (lit "opaque").
  (* %list = type { i32, %list* } ; %outer = type { i8, %inner, [2 x %inner] } ; %inner = type { i16, <{ i1, %list }> } ; %opaque = type opaque *)
  Definition bodies : Gep.env := fun n =>
    if bytes_eqb n (lit "list") then Some [TInt 32; TPtr list_t 0]
    else if bytes_eqb n (lit "outer") then Some [TInt 8; inner_t; TArr 2 inner_t]
    else if bytes_eqb n (lit "inner") then Some [TInt 16; TStruct true [TInt 1; list_t]]
    else None.

  (* the recursive list type through [0; 1]: %list** -- the pointee unfolded once less *)
  Example list_walk :
    run_gep_in bodies 3 list_t (TPtr list_t 0) [new_index 0; new_index 1]
      = GoEval.Ok (reify_ty_in bodies 2 (TPtr (TPtr list_t 0) 0))
    /\ result_type bodies list_t (TPtr list_t 0) [new_index 0; new_index 1] = Gep.Ok (TPtr (TPtr list_t 0) 0)
    /\ gep_need bodies list_t (TPtr list_t 0) [new_index 0; new_index 1] = 1
    /\ reify_ty_in bodies 2 (TPtr (TPtr list_t 0) 0) <> reify_ty_in bodies 1 (TPtr (TPtr list_t 0) 0).
  Proof. split; [|split; [|split]]; [vm_compute; reflexivity ..|]. vm_compute. discriminate. Qed.
  Example list_walk_by_theorem :
    run_gep_in bodies 3 list_t (TPtr list_t 0) [new_index 0; new_index 1]
      = expect_in bodies (3 - gep_need bodies list_t (TPtr list_t 0) [new_index 0; new_index 1])
          (result_type bodies list_t (TPtr list_t 0) [new_index 0; new_index 1]).
  Proof. apply gep_result_generated_bodies_length. cbn. lia. Qed.
  (* the least depth is enough, and leaves the result with Fields = nil *)
  Example list_walk_least :
    run_gep_in bodies 1 list_t (TPtr list_t 0) [new_index 0; new_index 1] = GoEval.Ok (reify_ty (TPtr (TPtr list_t 0) 0)).
  Proof. vm_compute. reflexivity. Qed.

  (* nested identified structs: %outer -> [2 x %inner] -> %inner -> <{ i1, %list }> -> %list -> i32, three bodies entered *)
  Example nested_walk :
    let idxs := [no_val 0; new_index 2; no_val 0; new_index 1; new_index 1; new_index 0] in
    run_gep_in bodies 3 outer_t (TPtr outer_t 5) idxs = GoEval.Ok (reify_ty_in bodies 0 (TPtr (TInt 32) 5))
    /\ result_type bodies outer_t (TPtr outer_t 5) idxs = Gep.Ok (TPtr (TInt 32) 5)
    /\ gep_need bodies outer_t (TPtr outer_t 5) idxs = 3
    /\ enough_depth bodies 3 outer_t (TPtr outer_t 5) idxs.
  Proof. split; [|split; [|split]]; [vm_compute; reflexivity ..|]. vm_compute. repeat constructor. Qed.
  (* two bodies entered, one unfolding left in the result: { i16, <{ i1, %list }> } under a vector of pointers *)
  Example nested_walk_vec :
    let idxs := [no_val 4; new_index 1] in
    run_gep_in bodies 2 outer_t (TPtr outer_t 0) idxs = GoEval.Ok (reify_ty_in bodies 1 (TVec false 4 (TPtr inner_t 0)))
    /\ result_type bodies outer_t (TPtr outer_t 0) idxs = Gep.Ok (TVec false 4 (TPtr inner_t 0)).
  Proof. split; vm_compute; reflexivity. Qed.

  (* an opaque identified struct: elm.Fields[index.Val] on a nil slice panics, as the model says *)
  Example opaque_walk :
    run_gep_in bodies 4 opaque_t (TPtr opaque_t 0) [new_index 0; new_index 0] = Fail "panic"
    /\ result_type bodies opaque_t (TPtr opaque_t 0) [new_index 0; new_index 0] = Gep.Panic
    /\ run_gep_in bodies 4 opaque_t (TPtr opaque_t 0) [new_index 0] = GoEval.Ok (reify_ty_in bodies 4 (TPtr opaque_t 0)).
  Proof. repeat split; vm_compute; reflexivity. Qed.

  (* a field index out of range, a negative one, and a non-constant one, in an identified struct with a body *)
  Example out_of_range_walk :
    run_gep_in bodies 4 list_t (TPtr list_t 0) [new_index 0; new_index 2] = Fail "panic"
    /\ result_type bodies list_t (TPtr list_t 0) [new_index 0; new_index 2] = Gep.Panic
    /\ run_gep_in bodies 4 list_t (TPtr list_t 0) [new_index 0; new_index (-1)] = Fail "panic"
    /\ result_type bodies list_t (TPtr list_t 0) [new_index 0; new_index (-1)] = Gep.Panic
    /\ run_gep_in bodies 4 list_t (TPtr list_t 0) [new_index 0; no_val 0] = Fail "panic"
    /\ result_type bodies list_t (TPtr list_t 0) [new_index 0; no_val 0] = Gep.Panic
    /\ gep_need bodies list_t (TPtr list_t 0) [new_index 0; new_index 2] = 0.
  Proof. repeat split; vm_compute; reflexivity. Qed.

  (* stepping through the pointer inside %list is the explicit panic of the Go code *)
  Example through_pointer :
    run_gep_in bodies 4 list_t (TPtr list_t 0) [new_index 0; new_index 1; new_index 0] = Fail "panic"
    /\ result_type bodies list_t (TPtr list_t 0) [new_index 0; new_index 1; new_index 0] = Gep.Panic.
  Proof. split; vm_compute; reflexivity. Qed.
End Examples.

Print Assumptions gep_result_generated_bodies.
Print Assumptions gep_result_generated_bodies_gen.
Print Assumptions gep_result_generated_again.
Print Assumptions gep_result_generated_bodies_total.
