(* C01/C03/C17 glue: no field of an IR object is forgotten by the printer or by
   the translator.  Read off the regenerated table Gen/FieldFlow.v (74 structs
   of package ir with an LLString method). *)
From Coq Require Import List String Bool.
From LLIR Require Import Gen.FieldFlow.
Import ListNotations.
Open Scope string_scope.

Definition mem (x : string) (l : list string) : bool := existsb (String.eqb x) l.
(* caches and back pointers: derived from the other fields, not part of the printed form *)
Definition derived : list string := ["Parent"; "Successors"; "Typ"].
Definition stored (f : flow) : list string := filter (fun x => negb (mem x derived)) (f_fields f).

Definition all_printed (f : flow) : bool := forallb (fun x => mem x (f_printed f)) (stored f).
Definition all_assigned (f : flow) : bool := forallb (fun x => mem x (f_assigned f)) (stored f).

Theorem every_field_is_printed : forallb all_printed flows = true.
Proof. vm_compute. reflexivity. Qed.

(* full statement, false of the code (KF-25): forallb all_assigned flows = true *)
Theorem every_field_is_translated_refuted : exists f x, In f flows /\ In x (stored f) /\ mem x (f_assigned f) = false.
Proof.
  exists (match find (fun f => String.eqb (f_type f) "InstFreeze") flows with Some f => f | None => Build_flow "" [] [] [] end), "Metadata".
  vm_compute. split; [|split; [|reflexivity]]; tauto.
Qed.

Definition known_gap (f : flow) (x : string) : bool := String.eqb (f_type f) "InstFreeze" && String.eqb x "Metadata".
Theorem every_field_is_translated_partial :
  forallb (fun f => forallb (fun x => known_gap f x || mem x (f_assigned f)) (stored f)) flows = true.
Proof. vm_compute. reflexivity. Qed.

Theorem field_printed f x : In f flows -> In x (f_fields f) -> mem x derived = false -> In x (f_printed f).
Proof.
  intros Hf Hx Hd. pose proof every_field_is_printed as H. rewrite forallb_forall in H. specialize (H f Hf).
  unfold all_printed in H. rewrite forallb_forall in H.
  assert (In x (stored f)) as Hs by (unfold stored; apply filter_In; split; [exact Hx|rewrite Hd; reflexivity]).
  specialize (H x Hs). unfold mem in H. apply existsb_exists in H. destruct H as (y & Hy & E). apply String.eqb_eq in E. subst. exact Hy.
Qed.

(* ---- the 28 specialised debug-info nodes, tuples and named metadata (C17): 31 structs, 257 fields ---- *)
(* MetadataID and NamedDef.Name are printed by the module writer (Ident), not by LLString;
   Distinct is set through the Definition interface (SetDistinct) for every kind at once:
   the harness exercises both per kind *)
Definition md_printed_elsewhere : list string := ["MetadataID"; "Name"].
Definition md_set_via_interface : list string := ["Distinct"].
Theorem every_md_field_is_printed :
  forallb (fun f => forallb (fun x => mem x md_printed_elsewhere || mem x (f_printed f)) (f_fields f)) md_flows = true.
Proof. vm_compute. reflexivity. Qed.
Theorem every_md_field_is_translated :
  forallb (fun f => forallb (fun x => mem x md_set_via_interface || mem x (f_assigned f)) (f_fields f)) md_flows = true.
Proof. vm_compute. reflexivity. Qed.
Example md_table_size : List.length md_flows = 31 /\ fold_right plus 0 (map (fun f => List.length (f_fields f)) md_flows) = 257.
Proof. vm_compute. split; reflexivity. Qed.

Print Assumptions field_printed.
Print Assumptions every_field_is_translated_partial.
