From Coq Require Import ZArith Bool Lia.
From LLIR Require Import Model.FloatBits.
Local Open Scope Z_scope.

(* ---- trailing zeros ---- *)
Lemma ctz_nonneg p : 0 <= ctz p.
Proof. induction p; cbn [ctz]; lia. Qed.

Lemma odd_part_spec p : Zpos p = Zpos (odd_part p) * 2 ^ ctz p.
Proof.
  induction p; cbn [odd_part ctz]; try lia.
  rewrite Z.pow_add_r by (try lia; apply ctz_nonneg). rewrite Pos2Z.inj_xO, IHp at 1. lia.
Qed.

Lemma log2_odd_part p : Z.log2 (Zpos p) = Z.log2 (Zpos (odd_part p)) + ctz p.
Proof.
  induction p; cbn [odd_part ctz]; try lia.
  rewrite Pos2Z.inj_xO, Z.log2_double by lia. lia.
Qed.

(* ---- composing and splitting the three fields ---- *)
Section Format.
  Variable f : fmt.
  Hypothesis ew_pos : 1 < ew f.
  Hypothesis mw_pos : 0 < mw f.

  Definition compose (s : bool) (E M : Z) : Z := sign_bit f s + E * 2 ^ mw f + M.

  Lemma pow_mw_pos : 0 < 2 ^ mw f. Proof. apply Z.pow_pos_nonneg; lia. Qed.
  Lemma pow_ew_pos : 0 < 2 ^ ew f. Proof. apply Z.pow_pos_nonneg; lia. Qed.

  Lemma split_fields s E M : 0 <= E < 2 ^ ew f -> 0 <= M < 2 ^ mw f ->
    let bits := compose s E M in
    (0 <? bits / 2 ^ (ew f + mw f)) = s /\ (bits / 2 ^ mw f) mod 2 ^ ew f = E /\ bits mod 2 ^ mw f = M.
  Proof.
    intros HE HM. cbn zeta. unfold compose, sign_bit.
    pose proof pow_mw_pos as Pm. pose proof pow_ew_pos as Pe.
    assert (2 ^ (ew f + mw f) = 2 ^ ew f * 2 ^ mw f) as PW by (apply Z.pow_add_r; lia).
    assert (0 <= E * 2 ^ mw f + M < 2 ^ ew f * 2 ^ mw f) as Rng by nia.
    destruct s.
    - rewrite PW. repeat split.
      + apply Z.ltb_lt.
        replace (2 ^ ew f * 2 ^ mw f + E * 2 ^ mw f + M) with (1 * (2 ^ ew f * 2 ^ mw f) + (E * 2 ^ mw f + M)) by lia.
        rewrite Z.div_add_l by nia. rewrite Z.div_small by exact Rng. lia.
      + replace (2 ^ ew f * 2 ^ mw f + E * 2 ^ mw f + M) with ((2 ^ ew f + E) * 2 ^ mw f + M) by lia.
        rewrite Z.div_add_l by lia. rewrite (Z.div_small M) by lia. rewrite Z.add_0_r.
        rewrite <- (Z.mul_1_l (2 ^ ew f)) at 1. rewrite Z.add_comm, Z.mod_add by lia. apply Z.mod_small. lia.
      + replace (2 ^ ew f * 2 ^ mw f + E * 2 ^ mw f + M) with (M + (2 ^ ew f + E) * 2 ^ mw f) by lia.
        rewrite Z.mod_add by lia. apply Z.mod_small. lia.
    - repeat split.
      + apply Z.ltb_ge. rewrite PW. cbn [Z.add]. rewrite Z.div_small by exact Rng. lia.
      + cbn [Z.add]. rewrite Z.div_add_l by lia. rewrite (Z.div_small M) by lia. rewrite Z.add_0_r.
        apply Z.mod_small. lia.
      + cbn [Z.add]. rewrite Z.add_comm, Z.mod_add by lia. apply Z.mod_small. lia.
  Qed.

  (* ---- the round trip, by class ---- *)
  Theorem roundtrip s E M : 0 <= E < 2 ^ ew f -> 0 <= M < 2 ^ mw f ->
    is_nan_bits f (compose s E M) = false ->
    encode f (decode f (compose s E M)) = compose s E M.
  Proof.
    intros HE HM Hnan. pose proof pow_mw_pos as Pm. pose proof pow_ew_pos as Pe.
    destruct (split_fields s E M HE HM) as (Fs & FE & FM). cbn zeta in *.
    unfold is_nan_bits in Hnan. rewrite FE, FM in Hnan.
    unfold decode. rewrite Fs, FE, FM.
    destruct (Z.eqb_spec E (emax_field f)) as [Emax|Emax].
    - (* infinity: the mantissa field is zero *)
      cbn [andb] in Hnan. apply negb_false_iff, Z.eqb_eq in Hnan. subst M.
      rewrite Z.eqb_refl. cbn [encode]. unfold compose. subst E. lia.
    - destruct (Z.eqb_spec E 0) as [E0|E0].
      + (* zero and subnormals *)
        subst E. destruct M as [|p|p]; [cbn [encode]; unfold compose; lia| |lia].
        unfold norm. cbn [encode].
        pose proof (odd_part_spec p) as OP. pose proof (log2_odd_part p) as LG. pose proof (ctz_nonneg p) as CT.
        assert (Z.log2 (Zpos p) < mw f) as LM by (apply Z.log2_lt_pow2; lia).
        assert ((1 - bias f <=? emin f + ctz p + Z.log2 (Zpos (odd_part p))) = false) as ->.
        { apply Z.leb_gt. unfold emin. lia. }
        replace (emin f + ctz p - emin f) with (ctz p) by lia. rewrite <- OP. unfold compose. lia.
      + (* normal numbers *)
        assert (0 < 2 ^ mw f + M) as Pos by lia.
        destruct (2 ^ mw f + M) as [|p|p] eqn:EP; try lia.
        unfold norm. cbn [encode].
        pose proof (odd_part_spec p) as OP. pose proof (log2_odd_part p) as LG. pose proof (ctz_nonneg p) as CT.
        assert (Z.log2 (Zpos p) = mw f) as LM.
        { apply Z.log2_unique; [lia|]. rewrite <- EP. rewrite Z.pow_succ_r by lia. lia. }
        assert ((1 - bias f <=? E - bias f - mw f + ctz p + Z.log2 (Zpos (odd_part p))) = true) as ->.
        { apply Z.leb_le. lia. }
        replace (mw f - Z.log2 (Zpos (odd_part p))) with (ctz p) by lia. rewrite <- OP.
        replace (E - bias f - mw f + ctz p + Z.log2 (Zpos (odd_part p)) + bias f) with E by lia.
        unfold compose. lia.
  Qed.

  (* NaNs: only the sign survives (C10's finding) *)
  Theorem nan_canonicalised s M : 0 < M < 2 ^ mw f ->
    encode f (decode f (compose s (emax_field f) M)) = compose s (emax_field f) (2 ^ (mw f - 1)).
  Proof.
    intros HM. pose proof pow_mw_pos as Pm. pose proof pow_ew_pos as Pe.
    assert (0 <= emax_field f < 2 ^ ew f) as HE by (unfold emax_field; lia).
    destruct (split_fields s (emax_field f) M HE ltac:(lia)) as (Fs & FE & FM). cbn zeta in *.
    unfold decode. rewrite Fs, FE, FM, Z.eqb_refl.
    assert ((M =? 0) = false) as -> by (apply Z.eqb_neq; lia). cbn [encode]. unfold compose. lia.
  Qed.
End Format.

(* the four formats in use *)
Corollary roundtrip_binary16 s E M : 0 <= E < 2 ^ 5 -> 0 <= M < 2 ^ 10 ->
  is_nan_bits binary16 (compose binary16 s E M) = false ->
  encode binary16 (decode binary16 (compose binary16 s E M)) = compose binary16 s E M.
Proof. apply (roundtrip binary16); cbn; lia. Qed.
Corollary roundtrip_binary64 s E M : 0 <= E < 2 ^ 11 -> 0 <= M < 2 ^ 52 ->
  is_nan_bits binary64 (compose binary64 s E M) = false ->
  encode binary64 (decode binary64 (compose binary64 s E M)) = compose binary64 s E M.
Proof. apply (roundtrip binary64); cbn; lia. Qed.
Corollary roundtrip_binary128 s E M : 0 <= E < 2 ^ 15 -> 0 <= M < 2 ^ 112 ->
  is_nan_bits binary128 (compose binary128 s E M) = false ->
  encode binary128 (decode binary128 (compose binary128 s E M)) = compose binary128 s E M.
Proof. apply (roundtrip binary128); cbn; lia. Qed.

(* a payload is lost: the signalling NaN 0x7FF0000000000001 comes back as 0x7FF8000000000000 *)
Example nan_payload_refuted :
  encode binary64 (decode binary64 0x7FF0000000000001) = 0x7FF8000000000000.
Proof. reflexivity. Qed.
Print Assumptions roundtrip.

(* ---- float literals: a binary32 value written as the bit pattern of the equal double (0x + 16 hex digits, the
   low 29 mantissa bits zero).  Ident prints Float64bits(x) &^ 0x1FFFFFFF after SetPrec(24). ---- *)
Definition mask29 (bits : Z) : Z := bits / 2 ^ 29 * 2 ^ 29.

Lemma ctz_divides (k : nat) : forall p, Zpos p mod 2 ^ Z.of_nat k = 0 -> Z.of_nat k <= ctz p.
Proof.
  induction k as [|k IH]; intros p H; [pose proof (ctz_nonneg p); lia|].
  rewrite Nat2Z.inj_succ, Z.pow_succ_r in H by lia.
  destruct p as [q|q|].
  - exfalso. assert (Zpos q~1 mod 2 = 0) as E.
    { apply Z.mod_divide; [lia|]. apply Z.mod_divide in H; [|pose proof (Z.pow_pos_nonneg 2 (Z.of_nat k)); lia].
      destruct H as [c Hc]. exists (c * 2 ^ Z.of_nat k). lia. }
    rewrite Pos2Z.inj_xI in E. rewrite Z.add_comm, Z.mul_comm, Z.mod_add in E by lia. discriminate.
  - cbn [ctz]. rewrite Nat2Z.inj_succ. assert (Z.of_nat k <= ctz q); [|lia]. apply IH.
    apply Z.mod_divide; [pose proof (Z.pow_pos_nonneg 2 (Z.of_nat k)); lia|].
    apply Z.mod_divide in H; [|pose proof (Z.pow_pos_nonneg 2 (Z.of_nat k)); lia].
    destruct H as [c Hc]. exists c. rewrite Pos2Z.inj_xO in Hc. lia.
  - exfalso. pose proof (Z.pow_pos_nonneg 2 (Z.of_nat k)). rewrite Z.mod_small in H; [discriminate|]. nia.
Qed.

(* the odd mantissa of a positive multiple of 2^29 below 2^53 has at most 24 bits *)
Lemma odd_part_small p : Zpos p mod 2 ^ 29 = 0 -> Zpos p < 2 ^ 53 -> Zpos (odd_part p) < 2 ^ 24.
Proof.
  intros Hd Hb. pose proof (ctz_divides 29 p Hd) as Hc. pose proof (odd_part_spec p) as Hs.
  assert (2 ^ 29 <= 2 ^ ctz p) by (apply Z.pow_le_mono_r; lia).
  assert (0 < Zpos (odd_part p)) by lia.
  assert (Zpos (odd_part p) * 2 ^ 29 <= Zpos p) by nia.
  change (2 ^ 53) with (2 ^ 24 * 2 ^ 29) in Hb. nia.
Qed.

Theorem float_in_double_roundtrip s E M : 0 <= E < 2 ^ 11 -> 0 <= M < 2 ^ 52 -> M mod 2 ^ 29 = 0 ->
  is_nan_bits binary64 (compose binary64 s E M) = false ->
  mask29 (encode binary64 (decode binary64 (compose binary64 s E M))) = compose binary64 s E M.
Proof.
  intros HE HM Hd Hn. rewrite (roundtrip_binary64 s E M HE HM Hn). unfold mask29.
  assert ((compose binary64 s E M) mod 2 ^ 29 = 0) as D.
  { unfold compose, sign_bit. cbn [ew mw binary64].
    apply Z.mod_divide in Hd; [|lia]. destruct Hd as [c ->].
    apply Z.mod_divide; [lia|].
    destruct s; [exists (2 ^ 34 + E * 2 ^ 23 + c)|exists (E * 2 ^ 23 + c)];
      change (2 ^ (11 + 52)) with (2 ^ 34 * 2 ^ 29); change (2 ^ 52) with (2 ^ 23 * 2 ^ 29); lia. }
  pose proof (Z.div_mod (compose binary64 s E M) (2 ^ 29) ltac:(lia)) as DM. rewrite D in DM. lia.
Qed.

(* SetPrec(24) loses nothing on such a literal: the value has at most 24 significant bits *)
Theorem float_in_double_fits_24_bits s E M : 0 <= E < 2 ^ 11 -> 0 <= M < 2 ^ 52 -> M mod 2 ^ 29 = 0 ->
  match decode binary64 (compose binary64 s E M) with FFin _ m _ => Zpos m < 2 ^ 24 | _ => True end.
Proof.
  intros HE HM Hd.
  destruct (split_fields binary64 ltac:(cbn; lia) ltac:(cbn; lia) s E M HE HM) as (S1 & S2 & S3).
  unfold decode. rewrite S1, S2, S3. cbn [ew mw binary64] in *.
  destruct (E =? emax_field binary64); [destruct (M =? 0); exact I|].
  destruct (E =? 0).
  - destruct M as [|p|p]; try exact I. unfold norm. apply odd_part_small; [exact Hd|lia].
  - destruct (2 ^ 52 + M) as [|p|p] eqn:Ep; try exact I. unfold norm. apply odd_part_small.
    + rewrite <- Ep. apply Z.mod_divide in Hd; [|lia]. destruct Hd as [c ->]. apply Z.mod_divide; [lia|].
      exists (2 ^ 23 + c). change (2 ^ 52) with (2 ^ 23 * 2 ^ 29). lia.
    + rewrite <- Ep. change (2 ^ 53) with (2 ^ 52 + 2 ^ 52). lia.
Qed.
Print Assumptions float_in_double_roundtrip.
Example float_in_double_example :
  mask29 (encode binary64 (decode binary64 0x3FF8000000000000)) = 0x3FF8000000000000 /\
  0x3FF8000000000000 = compose binary64 false 0x3FF 0x8000000000000 /\ 0x8000000000000 mod 2 ^ 29 = 0.
Proof. vm_compute. repeat split. Qed.
