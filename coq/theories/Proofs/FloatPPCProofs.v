From Coq Require Import ZArith Bool Lia.
From LLIR Require Import Model.FloatBits Model.FloatPPC Proofs.FloatBitsProofs.
Local Open Scope Z_scope.

Definition rt (a b : Z) : option (option (Z * Z)) :=
  match decode_ppc a b with PVal v => Some (encode_ppc v) | PPanic => None end.

(* ---- what the code does to literals LLVM prints itself (KF-22 and relatives) ---- *)
(* full statement, false of the code: every pair of non-NaN doubles comes back unchanged *)
Theorem ppc_roundtrip_refuted : exists a b, 0 <= a < 2 ^ 64 /\ 0 <= b < 2 ^ 64 /\
  is_nan_bits binary64 a = false /\ is_nan_bits binary64 b = false /\ rt a b <> Some (Some (a, b)).
Proof. exists 0x3FF0000000000000, 0x3000000000000000. vm_compute. repeat split; congruence. Qed.

(* minus infinity is printed as plus infinity *)
Theorem ppc_neg_inf_refuted : rt 0xFFF0000000000000 0 = Some (Some (0x7FF0000000000000, 0)).
Proof. vm_compute. reflexivity. Qed.

(* infinities of opposite sign make the parser panic *)
Theorem ppc_inf_panic : rt 0x7FF0000000000000 0xFFF0000000000000 = None.
Proof. vm_compute. reflexivity. Qed.

(* a finite sum beyond binary64 makes the printer panic *)
Theorem ppc_overflow_panic : rt 0x7FEFFFFFFFFFFFFF 0x7FEFFFFFFFFFFFFF = Some None.
Proof. vm_compute. reflexivity. Qed.

(* ---- what holds: a literal whose low word is +0 (every double clang widens) survives ---- *)
Lemma odd_part_odd p : Z.odd (Zpos (odd_part p)) = true.
Proof. induction p; cbn [odd_part]; try reflexivity. exact IHp. Qed.
Lemma odd_part_id p : Z.odd (Zpos p) = true -> odd_part p = p /\ ctz p = 0.
Proof. destruct p; cbn; try discriminate; auto. Qed.

Lemma decode64_fin_bounds s E M sg m e : 0 <= E < 2 ^ 11 -> 0 <= M < 2 ^ 52 ->
  decode binary64 (compose binary64 s E M) = FFin sg m e ->
  sg = s /\ Z.odd (Zpos m) = true /\ -1074 <= e /\ Z.log2 (Zpos m) <= 52 /\ e + Z.log2 (Zpos m) <= 1023.
Proof.
  intros HE HM. destruct (split_fields binary64 ltac:(cbn; lia) ltac:(cbn; lia) s E M HE HM) as (Fs & FE & FM).
  cbn zeta in *. unfold decode. rewrite Fs, FE, FM.
  change (emax_field binary64) with 2047. change (emin binary64) with (-1074). change (bias binary64) with 1023. change (mw binary64) with 52 in *.
  change (2 ^ 11) with 2048 in HE. change (2 ^ 52) with 4503599627370496 in *.
  destruct (E =? 2047) eqn:E1; [destruct (M =? 0); discriminate|]. apply Z.eqb_neq in E1.
  destruct (E =? 0) eqn:E0.
  - destruct M as [|p|p]; try discriminate. unfold norm. intros H0.
    assert (sg = s) as -> by congruence. assert (m = odd_part p) as -> by congruence. assert (e = -1074 + ctz p) as -> by congruence. clear H0.
    pose proof (odd_part_spec p) as OP. pose proof (log2_odd_part p) as LG. pose proof (ctz_nonneg p) as CT.
    assert (Z.log2 (Zpos p) < 52) by (apply Z.log2_lt_pow2; [lia|change (2 ^ 52) with 4503599627370496; lia]).
    pose proof (Z.log2_nonneg (Zpos (odd_part p))). repeat split; try lia. apply odd_part_odd.
  - apply Z.eqb_neq in E0. destruct (4503599627370496 + M) as [|p|p] eqn:EP; try discriminate. unfold norm. intros H0.
    assert (sg = s) as -> by congruence. assert (m = odd_part p) as -> by congruence. assert (e = E - 1023 - 52 + ctz p) as -> by congruence. clear H0.
    pose proof (odd_part_spec p) as OP. pose proof (log2_odd_part p) as LG. pose proof (ctz_nonneg p) as CT.
    assert (Z.log2 (Zpos p) = 52) by (apply Z.log2_unique; [lia|change (2 ^ 52) with 4503599627370496; change (2 ^ Z.succ 52) with 9007199254740992; lia]).
    pose proof (Z.log2_nonneg (Zpos (odd_part p))). repeat split; try lia. apply odd_part_odd.
Qed.

Lemma norm_odd s m e : Z.odd (Zpos m) = true -> norm s m e = FFin s m e.
Proof. intros H. unfold norm. destruct (odd_part_id m H) as [-> ->]. f_equal. lia. Qed.

Theorem ppc_low_zero_roundtrip s E M : 0 <= E < 2 ^ 11 -> 0 <= M < 2 ^ 52 ->
  is_nan_bits binary64 (compose binary64 s E M) = false ->
  (E = 2047 -> s = false) ->                                   (* minus infinity: ppc_neg_inf_refuted *)
  rt (compose binary64 s E M) 0 = Some (Some (compose binary64 s E M, 0)).
Proof.
  intros HE HM Hnan Hinf.
  pose proof (roundtrip binary64 ltac:(cbn; lia) ltac:(cbn; lia) s E M HE HM Hnan) as RT.
  unfold rt, decode_ppc. change (decode binary64 0) with (FZero false).
  destruct (decode binary64 (compose binary64 s E M)) as [s0|s0 m e|s0|s0] eqn:D.
  - (* zero *) cbn. cbn in RT. rewrite <- RT. destruct s0; reflexivity.
  - (* finite *)
    destruct (decode64_fin_bounds s E M s0 m e HE HM D) as (-> & Odd & Elo & Lg & Top).
    pose proof (Z.log2_nonneg (Zpos m)) as L0.
    cbn [dy_of_fval dy_add sign_of].
    set (sm := (if s then -1 else 1) * Zpos m).
    assert (Z.abs sm = Zpos m) as Habs by (unfold sm; destruct s; lia).
    assert (sm <> 0) as Hnz by (unfold sm; destruct s; lia).
    (* reading: the sum is the double itself *)
    assert (dnorm (sm * 2 ^ (e - Z.min e 0) + 0 * 2 ^ (0 - Z.min e 0), Z.min e 0) = (sm, e)) as ->.
    { rewrite Z.mul_0_l, Z.add_0_r. assert (0 <= e - Z.min e 0) as Hk by lia.
      assert (0 < 2 ^ (e - Z.min e 0)) as Hp by (apply Z.pow_pos_nonneg; lia).
      destruct (2 ^ (e - Z.min e 0)) as [|q|q] eqn:EQ; try lia.
      assert (forall k, 0 <= k -> forall q', Zpos q' = 2 ^ k -> odd_part (m * q') = m /\ ctz (m * q') = k) as Gen.
      { intros k Hk'. pattern k. apply natlike_ind; [| |exact Hk'].
        - intros q' Hq. change (2 ^ 0) with 1 in Hq. assert (q' = 1%positive) as -> by lia. rewrite Pos.mul_1_r. apply odd_part_id, Odd.
        - intros x Hx IH q' Hq. rewrite Z.pow_succ_r in Hq by lia. destruct q' as [q'|q'|]; try lia.
          specialize (IH q' ltac:(lia)). rewrite Pos.mul_xO_r. cbn [odd_part ctz]. destruct IH as [-> ->]. split; [reflexivity|lia]. }
      destruct (Gen (e - Z.min e 0) Hk q (eq_sym EQ)) as [G1 G2].
      unfold dnorm, sm. destruct s; cbn [Z.mul fst snd Pos.mul]; rewrite G1, G2; f_equal; lia. }
    assert (round_prec 106 (sm, e) = (sm, e)) as RP.
    { unfold round_prec. assert ((sm =? 0) = false) as -> by (apply Z.eqb_neq; exact Hnz).
      unfold round_to_quantum. rewrite Habs. assert ((e + Z.log2 (Zpos m) + 1 - 106 <=? e) = true) as -> by (apply Z.leb_le; lia). reflexivity. }
    rewrite RP.
    assert (fval_of_dy s (sm, e) = FFin s m e) as FV.
    { unfold fval_of_dy, sm. cbn [fst snd]. destruct s; cbn [Z.mul]; apply norm_odd, Odd. }
    rewrite FV.
    (* printing: nothing is rounded, the rest is zero *)
    unfold encode_ppc. cbn [dy_of_fval sign_of]. fold sm.
    rewrite RP.
    assert (round64 (sm, e) = (sm, e)) as R64.
    { unfold round64. assert ((sm =? 0) = false) as -> by (apply Z.eqb_neq; exact Hnz).
      unfold round_to_quantum. rewrite Habs. assert ((Z.max (e + Z.log2 (Zpos m) - 52) (-1074) <=? e) = true) as -> by (apply Z.leb_le; lia). reflexivity. }
    rewrite R64. unfold overflows64. rewrite Habs.
    assert ((1024 <=? e + Z.log2 (Zpos m)) = false) as -> by (apply Z.leb_gt; lia). rewrite andb_false_r.
    assert (dy_add (sm, e) (dy_neg (sm, e)) = (0, 0)) as ->.
    { unfold dy_add, dy_neg. cbn [fst snd]. rewrite Z.min_id, Z.sub_diag. change (2 ^ 0) with 1.
      replace (sm * 1 + - sm * 1) with 0 by lia. reflexivity. }
    cbn [round_prec Z.eqb round64]. change (fval_of_dy false (0, 0)) with (FZero false).
    rewrite FV, RT. reflexivity.
  - (* plus infinity *)
    assert (E = 2047) as HE2.
    { destruct (split_fields binary64 ltac:(cbn; lia) ltac:(cbn; lia) s E M HE HM) as (Fs & FE & FM). cbn zeta in *.
      unfold decode in D. rewrite Fs, FE, FM in D. change (emax_field binary64) with 2047 in D.
      destruct (E =? 2047) eqn:E1; [apply Z.eqb_eq; exact E1|]. destruct (E =? 0); [destruct M; discriminate|destruct (2 ^ mw binary64 + M); discriminate]. }
    assert (s0 = s) as ->.
    { destruct (split_fields binary64 ltac:(cbn; lia) ltac:(cbn; lia) s E M HE HM) as (Fs & FE & FM). cbn zeta in *.
      unfold decode in D. rewrite Fs, FE, FM in D. change (emax_field binary64) with 2047 in D. subst E. cbn [Z.eqb Pos.eqb] in D.
      destruct (M =? 0); congruence. }
    rewrite (Hinf HE2) in *. cbn [encode_ppc]. rewrite RT. reflexivity.
  - (* NaN is excluded *)
    exfalso. destruct (split_fields binary64 ltac:(cbn; lia) ltac:(cbn; lia) s E M HE HM) as (Fs & FE & FM). cbn zeta in *.
    unfold decode in D. unfold is_nan_bits in Hnan. rewrite FE, FM in Hnan. rewrite Fs, FE, FM in D.
    destruct (E =? emax_field binary64); [cbn [andb] in Hnan; destruct (M =? 0); [discriminate D|discriminate Hnan]|].
    destruct (E =? 0); [destruct M; discriminate|destruct (2 ^ mw binary64 + M); discriminate].
Qed.
Print Assumptions ppc_low_zero_roundtrip.
Print Assumptions ppc_roundtrip_refuted.
