From Coq Require Import List Bool Arith Lia.
From LLIR Require Import Model.Users.
Import ListNotations.

Section UsersProofs.
  Variable value : Type.
  Variable value_eqb : value -> value -> bool.
  Hypothesis value_eqb_spec : forall a b, value_eqb a b = true <-> a = b.
  Variable text : Type.
  Variable render_value : value -> text.
  Variable template : list text -> text.

  Notation user := (user value).
  Notation print := (print value text render_value template).
  Notation write := (write value).
  Notation set_nth := (set_nth value).

  Lemma nth_error_set_nth (l : list value) : forall i v j,
    nth_error (set_nth i v l) j = if (j =? i) && (i <? length l) then Some v else nth_error l j.
  Proof.
    induction l as [|x r IH]; intros i v j.
    - destruct i; cbn; rewrite ?andb_false_r; destruct j; reflexivity.
    - destruct i as [|i]; destruct j as [|j]; cbn [set_nth nth_error length]; try reflexivity.
      rewrite IH. reflexivity.
  Qed.

  Lemma map_set_nth (l : list value) : forall i v,
    map render_value (set_nth i v l) =
    Users.set_nth text i (render_value v) (map render_value l).
  Proof. induction l as [|x r IH]; intros [|i] v; cbn; try reflexivity. rewrite IH. reflexivity. Qed.

  (* writing through a live slot changes exactly that operand of the printed text *)
  Theorem write_through_slot (u : user) (s : slot) (v : value) : s_live s = true ->
    print (write u s v) =
    template (Users.set_nth text (s_cell s) (render_value v) (map render_value (cells value u))).
  Proof.
    intros L. unfold Users.print, Users.write. rewrite L. cbn [cells]. rewrite map_set_nth. reflexivity.
  Qed.

  (* a write through a slot that addresses a copy is lost: the user is unchanged *)
  Theorem write_through_copy (u : user) (s : slot) (v : value) : s_live s = false -> write u s v = u.
  Proof. intros L. unfold Users.write. rewrite L. reflexivity. Qed.

  (* other cells are untouched *)
  Theorem write_other_cells (u : user) (s : slot) (v : value) j : j <> s_cell s ->
    nth_error (cells value (write u s v)) j = nth_error (cells value u) j.
  Proof.
    intros Hj. unfold Users.write. destruct (s_live s); [|reflexivity]. cbn [cells].
    rewrite nth_error_set_nth. destruct (Nat.eqb_spec j (s_cell s)); [contradiction|reflexivity].
  Qed.

  (* ---- replacing all uses through a complete, live slot list leaves no use behind ---- *)
  Definition subst (old new x : value) : value := if value_eqb x old then new else x.
  Notation replace_uses := (replace_uses value value_eqb).

  Lemma set_nth_app (a : list value) x (b : list value) v :
    set_nth (length a) v (a ++ x :: b) = a ++ v :: b.
  Proof. induction a as [|y a IH]; cbn; [reflexivity|]. rewrite IH. reflexivity. Qed.
  Lemma nth_error_mid (a : list value) x (b : list value) : nth_error (a ++ x :: b) (length a) = Some x.
  Proof. induction a as [|y a IH]; cbn; [reflexivity|exact IH]. Qed.

  (* processing the slots of the cells b, after the cells a have been processed *)
  Lemma replace_step old new (b : list value) : forall (a : list value) (slots : list (slot)),
    map (s_cell) slots = seq (length a) (length b) -> Forall (fun s => s_live s = true) slots ->
    cells value (fold_left (fun acc s => match nth_error (cells value acc) (s_cell s) with
                            | Some x => if value_eqb x old then write acc s new else acc
                            | None => acc end) slots {| cells := a ++ b |})
    = a ++ map (subst old new) b.
  Proof.
    induction b as [|x b IH]; intros a slots Hs Hl.
    - destruct slots; [reflexivity|discriminate].
    - destruct slots as [|s slots]; [discriminate|]. cbn [map seq length] in Hs.
      injection Hs as Hc Hs. inversion Hl as [|? ? Ls Ll]; subst. cbn [fold_left cells].
      rewrite Hc, nth_error_mid. cbn [map]. unfold subst at 1.
      assert (a ++ (if value_eqb x old then new else x) :: map (subst old new) b
              = (a ++ [if value_eqb x old then new else x]) ++ map (subst old new) b) as -> by (rewrite <- app_assoc; reflexivity).
      destruct (value_eqb x old) eqn:E.
      + unfold Users.write. rewrite Ls. cbn [cells]. rewrite Hc, set_nth_app.
        assert (a ++ new :: b = (a ++ [new]) ++ b) as -> by (rewrite <- app_assoc; reflexivity).
        apply IH; [rewrite app_length; cbn [length]; rewrite Nat.add_1_r; exact Hs|exact Ll].
      + assert (a ++ x :: b = (a ++ [x]) ++ b) as -> by (rewrite <- app_assoc; reflexivity).
        apply IH; [rewrite app_length; cbn [length]; rewrite Nat.add_1_r; exact Hs|exact Ll].
  Qed.

  Theorem replace_uses_is_substitution (u : user) slots old new :
    operands_complete value u slots -> operands_live slots ->
    cells value (replace_uses u slots old new) = map (subst old new) (cells value u).
  Proof.
    intros Hc Hl. unfold Users.replace_uses. destruct u as [cs]. cbn [cells] in *.
    apply (replace_step old new cs [] slots); [exact Hc|exact Hl].
  Qed.

  Theorem replace_all_uses_leaves_none (u : user) slots old new :
    operands_complete value u slots -> operands_live slots -> new <> old ->
    ~ In old (cells value (replace_uses u slots old new)).
  Proof.
    intros Hc Hl Hne. rewrite (replace_uses_is_substitution u slots old new Hc Hl).
    rewrite in_map_iff. intros (x & Hx & _). unfold subst in Hx.
    destruct (value_eqb x old) eqn:E; [congruence|]. subst x.
    assert (value_eqb old old = true) by (apply value_eqb_spec; reflexivity). congruence.
  Qed.
End UsersProofs.
