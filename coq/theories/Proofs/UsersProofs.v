From Coq Require Import List Bool Arith Lia.
From LLIR Require Import Model.Users.
Import ListNotations.

Section UsersProofs.
  Variable value : Type.
  Variable value_eqb : value -> value -> bool.
  Hypothesis value_eqb_spec : forall a b, value_eqb a b = true <-> a = b.
  Variable text : Type.
  Variable render_value : value -> text.
  Variable template : list text -> text.

  Notation user := (user value).
  Notation print := (print value text render_value template).
  Notation write := (write value).
  Notation set_nth := (set_nth value).

  Lemma nth_error_set_nth (l : list value) : forall i v j,
    nth_error (set_nth i v l) j = if (j =? i) && (i <? length l) then Some v else nth_error l j.
  Proof.
    induction l as [|x r IH]; intros i v j.
    - destruct i; cbn; rewrite ?andb_false_r; destruct j; reflexivity.
    - destruct i as [|i]; destruct j as [|j]; cbn [set_nth nth_error length]; try reflexivity.
      rewrite IH. reflexivity.
  Qed.

  Lemma map_set_nth (l : list value) : forall i v,
    map render_value (set_nth i v l) =
    Users.set_nth text i (render_value v) (map render_value l).
  Proof. induction l as [|x r IH]; intros [|i] v; cbn; try reflexivity. rewrite IH. reflexivity. Qed.

  (* writing through a live slot changes exactly that operand of the printed text *)
  Theorem write_through_slot (u : user) (s : slot) (v : value) : s_live s = true ->
    print (write u s v) =
    template (Users.set_nth text (s_cell s) (render_value v) (map render_value (cells value u))).
  Proof.
    intros L. unfold Users.print, Users.write. rewrite L. cbn [cells]. rewrite map_set_nth. reflexivity.
  Qed.

  (* a write through a slot that addresses a copy is lost: the user is unchanged *)
  Theorem write_through_copy (u : user) (s : slot) (v : value) : s_live s = false -> write u s v = u.
  Proof. intros L. unfold Users.write. rewrite L. reflexivity. Qed.

  (* other cells are untouched *)
  Theorem write_other_cells (u : user) (s : slot) (v : value) j : j <> s_cell s ->
    nth_error (cells value (write u s v)) j = nth_error (cells value u) j.
  Proof.
    intros Hj. unfold Users.write. destruct (s_live s); [|reflexivity]. cbn [cells].
    rewrite nth_error_set_nth. destruct (Nat.eqb_spec j (s_cell s)); [contradiction|reflexivity].
  Qed.
End UsersProofs.
