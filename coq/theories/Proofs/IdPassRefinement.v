(* The ID-assignment passes of package ir -- Module.AssignMetadataIDs, Func.AssignIDs and
   Module.AssignGlobalIDs -- regenerated from the Go source into Gen/Printers.v (idpass_bodies) and run by
   Model/GoEval.v, compute the hand-written models Model/MetadataIDs.v and Model/Numbering.v, for every input.
   The closures of the Go code (nextID, setName) capture and assign a counter of the enclosing function; the
   translator converts them (translator/idpass.go): the lifted body takes the captured variables as further
   parameters and hands the assigned ones (and the object its pointer parameter designates) back with its results.
   Objects are values in GoEval; a range over a slice of pointers (SForPtr) stores each element back into its slot.
   The methods ID, SetID, IsUnnamed promoted from the embedded identifiers have the meaning GoEval.obj_method gives
   them (at the end of this file the Go methods themselves, regenerated into ident_bodies, are shown to compute the
   same), maps with integer keys and types.Equal against the void type the meaning of GoEval.idpass_library.
   The mutex calls of the Go bodies are dropped by the translator (Model/Concurrency.v is about them). *)
From Coq Require Import List String ZArith Bool Arith Lia.
From Coq Require Import Strings.Byte.
From LLIR Require Import Lib.Bytes Model.GoEval Gen.Printers.
From LLIR Require Model.MetadataIDs Model.Numbering Proofs.MetadataIDsProofs.
Import ListNotations.
Open Scope string_scope.
Open Scope list_scope.

Local Arguments Z.of_nat : simpl never.
Local Arguments Z.to_nat : simpl never.
Local Arguments Z.ltb : simpl never.
Local Arguments Z.leb : simpl never.
Local Arguments Z.eqb : simpl never.
Local Arguments Z.sub : simpl never.
Local Arguments Z.add : simpl never.
Local Arguments Nat.ltb : simpl never.
Local Arguments Nat.eqb : simpl never.
Local Arguments while_loop : simpl never.
Local Arguments for_loop_ptr : simpl never.
Local Arguments truncate : simpl nomatch.
Local Arguments skipn : simpl nomatch.
Local Arguments firstn : simpl nomatch.
Local Arguments String.eqb : simpl nomatch.

Definition fuel_env (n : nat) : env := [(loop_fuel_var, VInt (Z.of_nat n))].
Definition body_of (ty fn : string) : list gstmt :=
  match find_in idpass_bodies ty fn with Some p => p_body p | None => [] end.

(* ---- lists ---- *)
Lemma replace_mid {A} (done : list A) a r v :
  firstn (List.length done) (done ++ a :: r) ++ v :: skipn (S (List.length done)) (done ++ a :: r) = done ++ v :: r.
Proof.
  rewrite firstn_app, Nat.sub_diag, firstn_all. cbn [firstn]. rewrite app_nil_r.
  replace (S (List.length done)) with (List.length done + 1) by lia.
  rewrite skipn_app, skipn_all2 by lia. replace (List.length done + 1 - List.length done) with 1 by lia.
  reflexivity.
Qed.

Lemma while_S cond body post n en buf :
  while_loop cond body post (S n) en buf =
  (c <- cond en buf ;;
   match c with
   | VBool false => GoEval.Ok (en, buf, Run)
   | VBool true =>
     '(en1, buf1, stop) <- body en buf ;;
     if stopped stop && negb (is_cont stop) then GoEval.Ok (en1, buf1, stop)
     else '(en2, buf2, _) <- post en1 buf1 ;; while_loop cond body post n en2 buf2
   | _ => Fail "condition is not a boolean"
   end).
Proof. reflexivity. Qed.

(* ---- a range over a slice of pointers: the loop of GoEval against a fold ---- *)
Definition halts (fl : flow) : bool := stopped fl && negb (is_cont fl).
Fixpoint ptr_fold {St : Type} (step : St -> val -> St * val * flow) (l : list val) (st : St) : St * list val * flow :=
  match l with
  | [] => (st, [], Run)
  | a :: r =>
    let '(st1, a1, fl) := step st a in
    if halts fl then (st1, a1 :: r, fl)
    else let '(st2, r2, fl2) := ptr_fold step r st1 in (st2, a1 :: r2, fl2)
  end.

Section PtrLoop.
  Context {St : Type}.
  Variable body : env -> bytes -> res st.
  Variables v x : string.
  Variable path : list string.
  Variable O : list val -> val.                (* the object x holds, as a function of the slice at path *)
  Variable E : St -> list val -> env.          (* the environment, as a function of the state and of that slice *)
  Variable P : val -> Prop.                    (* what the elements are *)
  Variable Inv : St -> Prop.
  Variable step : St -> val -> St * val * flow.
  Variable buf : bytes.
  Hypothesis Hv : v <> "_".
  Hypothesis Hlen : forall st L st' L', List.length (E st L) = List.length (E st' L').
  Hypothesis Hlook : forall st L, lookup x (E st L) = Some (O L).
  Hypothesis Hupd : forall st L L', update x (O L') (E st L) = Some (E st L').
  Hypothesis Hset : forall done a r a', set_elem path (List.length done) a' (O (done ++ a :: r)) = GoEval.Ok (O (done ++ a' :: r)).
  Hypothesis Hbody : forall st L a, Inv st -> P a ->
    body ((v, a) :: E st L) buf =
    let '(st1, a1, fl) := step st a in GoEval.Ok ((v, a1) :: E st1 L, buf, fl).
  Hypothesis Hinv : forall st a, Inv st -> P a -> Inv (fst (fst (step st a))).

  Lemma ptr_loop : forall l done st, Inv st -> Forall P l ->
    for_loop_ptr body "_" v x path l (Z.of_nat (List.length done)) (E st (done ++ l)) buf =
    let '(st', l', fl) := ptr_fold step l st in GoEval.Ok (E st' (done ++ l'), buf, fl).
  Proof.
    induction l as [|a r IH]; intros done st HI HP.
    - reflexivity.
    - inversion HP as [|? ? Pa Pr]; subst.
      unfold for_loop_ptr; fold for_loop_ptr. unfold loop_env.
      destruct (String.eqb_spec v "_") as [K|_]; [contradiction|].
      change (String.eqb "_" "_") with true. cbn [List.app].
      rewrite (Hbody st (done ++ a :: r) a HI Pa).
      pose proof (Hinv st a HI Pa) as HI1.
      cbn [ptr_fold]. destruct (step st a) as [[st1 a1] fl]. cbn [fst] in HI1.
      cbn [List.length]. rewrite (Hlen st1 (done ++ a :: r) st (done ++ a :: r)).
      replace (S (List.length (E st (done ++ a :: r))) - List.length (E st (done ++ a :: r))) with 1 by lia.
      cbn [firstn lookup]. rewrite String.eqb_refl.
      unfold truncate. cbn [List.length]. rewrite (Hlen st1 (done ++ a :: r) st (done ++ a :: r)).
      replace (S (List.length (E st (done ++ a :: r))) - List.length (E st (done ++ a :: r))) with 1 by lia.
      cbn [skipn]. rewrite Hlook, Nat2Z.id, Hset, Hupd.
      fold (halts fl). destruct (halts fl); [reflexivity|].
      replace (Z.of_nat (List.length done) + 1)%Z with (Z.of_nat (List.length (done ++ [a1]))) by (rewrite app_length; cbn [List.length]; lia).
      replace (done ++ a1 :: r) with ((done ++ [a1]) ++ r) by (rewrite <- app_assoc; reflexivity).
      rewrite (IH (done ++ [a1]) st1 HI1 Pr).
      destruct (ptr_fold step r st1) as [[st2 r2] fl2]. rewrite <- app_assoc. reflexivity.
  Qed.
End PtrLoop.

Section Common.
  Variable impl : string -> string -> bool.
  Variable call : string -> string -> val -> res val.
  Notation ev := (eval impl call).
  Notation ex := (exec impl call).
  Notation ex1 := (exec1 impl call).

  (* a statement list in a scope of its own *)
  Definition in_scope (ss : list gstmt) : env -> bytes -> res st :=
    fun en buf => '(en1, buf1, stop) <- ex ss en buf ;; GoEval.Ok (truncate (List.length en) en1, buf1, stop).

  Lemma exec_cons s r en buf :
    ex (s :: r) en buf = ('(en1, buf1, stop) <- ex1 s en buf ;; if stopped stop then GoEval.Ok (en1, buf1, stop) else ex r en1 buf1).
  Proof. reflexivity. Qed.
  Lemma exec1_while c post body en buf :
    ex1 (SWhile c post body) en buf =
    match lookup loop_fuel_var en with
    | Some (VInt n) =>
      '(en1, buf1, stop) <- while_loop (fun en buf => ev (Z.of_nat (List.length buf)) en c) (in_scope body) (ex post) (Z.to_nat n) en buf ;;
      GoEval.Ok (truncate (List.length en) en1, buf1, stop)
    | _ => Fail "no loop fuel"
    end.
  Proof. reflexivity. Qed.
  Lemma exec1_block ss en buf : ex1 (SBlock ss) en buf = in_scope ss en buf.
  Proof. reflexivity. Qed.
  Lemma exec1_forptr k v coll body en buf :
    ex1 (SForPtr k v coll body) en buf =
    (c <- ev (Z.of_nat (List.length buf)) en coll ;;
     match place_of coll, c with
     | Some (x, path), VList l => for_loop_ptr (in_scope body) k v x path l 0%Z en buf
     | Some _, VNil => GoEval.Ok (en, buf, Run)
     | _, _ => Fail "range over a non-list"
     end).
  Proof. reflexivity. Qed.
End Common.
Arguments in_scope impl call ss en buf : simpl never.

(* ================= AssignMetadataIDs ================= *)
Module MD := MetadataIDs.
Definition no_impl : string -> string -> bool := fun _ _ => false.

(* a metadata definition: a type, the embedded MetadataID first, then whatever other fields *)
Definition shape := (string * list (string * val))%type.
Definition wf_shape (sh : shape) : Prop := fst sh <> "" /\ lookup "ID()" (snd sh) = None.
Definition mdo (sh : shape) (id : Z) : val := VObj (fst sh) (("MetadataID", VEnum "metadata.MetadataID" id) :: snd sh).
Definition mdos (shs : list shape) (ids : list Z) : list val := map (fun p => mdo (fst p) (snd p)) (combine shs ids).
Definition modv (rest : list (string * val)) (defs : list val) : val := VObj "ir.Module" (("MetadataDefs", VList defs) :: rest).
(* the map used: one entry id -> true per used ID *)
Definition usedmap (u : list Z) : val := VList (map (fun z => VTuple [VInt z; VBool true]) u).
Definition is_md (a : val) : Prop := exists sh id, wf_shape sh /\ a = mdo sh id.
Definition md_id (a : val) : Z := match a with VObj _ ((_, VEnum _ z) :: _) => z | _ => 0%Z end.
Definition md_set (a : val) (n : Z) : val :=
  match a with VObj ty ((f, _) :: rest) => VObj ty ((f, VEnum "metadata.MetadataID" n) :: rest) | _ => a end.
Definition an_error : val := VObj "error" [].

Lemma set_elem_modv rest done a r a' :
  set_elem ["MetadataDefs"] (List.length done) a' (modv rest (done ++ a :: r)) = GoEval.Ok (modv rest (done ++ a' :: r)).
Proof.
  unfold modv. cbn [set_elem lookup]. change (String.eqb "MetadataDefs" "MetadataDefs") with true. cbv iota.
  assert (Nat.ltb (List.length done) (List.length (done ++ a :: r)) = true) as ->
    by (apply Nat.ltb_lt; rewrite app_length; cbn [List.length]; lia).
  rewrite replace_mid. cbn [update]. change (String.eqb "MetadataDefs" "MetadataDefs") with true. reflexivity.
Qed.

Section Metadata.
  Variable N : nat.
  Variable call : string -> string -> val -> res val.
  Notation ev := (eval no_impl call).
  Notation ex := (exec no_impl call).
  Notation ex1 := (exec1 no_impl call).
  Notation in_scope := (in_scope no_impl call).
  Variable rest : list (string * val).
  Hypothesis Hcall_id : forall ty fs id, ty <> "" ->
    call ty "ID" (VObj ty (("MetadataID", VEnum "metadata.MetadataID" id) :: fs)) = GoEval.Ok (VInt id).
  Hypothesis Hcall_set : forall ty fs id n, ty <> "" ->
    call ty "SetID" (VTuple [VObj ty (("MetadataID", VEnum "metadata.MetadataID" id) :: fs); VInt n])
    = GoEval.Ok (VObj ty (("MetadataID", VEnum "metadata.MetadataID" n) :: fs)).
  Hypothesis Hhas : forall u k, call "" "$maphas" (VTuple [usedmap u; VInt k]) = GoEval.Ok (VTuple [VBool (MD.memZ k u); VBool (MD.memZ k u)]).
  Hypothesis Hmapset : forall u k, MD.memZ k u = false ->
    call "" "$mapset" (VTuple [usedmap u; VInt k; VBool true]) = GoEval.Ok (usedmap (k :: u)).

  Definition am_body := Eval vm_compute in body_of "ir.Module" "AssignMetadataIDs".
  Definition am_loop1 : gstmt := Eval vm_compute in nth 1 am_body SStop.
  Definition am_body1 : list gstmt := Eval vm_compute in match am_loop1 with SForPtr _ _ _ b => b | _ => [] end.
  Definition E1 (u : list Z) (L : list val) : env := [("used", usedmap u); ("m", modv rest L); ("$fuel", VInt (Z.of_nat N))].
  Definition step1 (u : list Z) (a : val) : list Z * val * flow :=
    let id := md_id a in
    if (id =? -1)%Z then (u, a, Run)
    else if MD.memZ id u then (u, a, Ret an_error) else (id :: u, a, Run).
  Lemma am_body1_run u L a : is_md a ->
    in_scope am_body1 (("md", a) :: E1 u L) [] = let '(u1, a1, fl) := step1 u a in GoEval.Ok (("md", a1) :: E1 u1 L, [], fl).
  Proof.
    intros ([ty fs] & id & [Hty Hfs] & ->). cbn [fst snd] in *.
    unfold IdPassRefinement.in_scope, am_body1, E1, step1, mdo. cbn [fst snd md_id].
    cbn. rewrite Hfs, (Hcall_id ty fs id Hty). cbn.
    destruct (id =? -1)%Z; cbn; [reflexivity|].
    rewrite Hhas. cbn. destruct (MD.memZ id u) eqn:M; cbn; [reflexivity|].
    rewrite (Hmapset u id M). cbn. reflexivity.
  Qed.

  Lemma E1_len u L u' L' : List.length (E1 u L) = List.length (E1 u' L').
  Proof. reflexivity. Qed.
  Lemma am_loop1_run u L : Forall is_md L ->
    ex1 am_loop1 (E1 u L) [] = let '(u', L', fl) := ptr_fold step1 L u in GoEval.Ok (E1 u' L', [], fl).
  Proof.
    intros HL. unfold am_loop1. rewrite exec1_forptr. fold am_body1.
    change (ev (Z.of_nat (List.length (@nil byte))) (E1 u L) (ESel (EId "m") "MetadataDefs")) with (GoEval.Ok (VList L)).
    cbn [place_of List.app]. cbv iota beta.
    apply (ptr_loop (in_scope am_body1) "md" "m" ["MetadataDefs"] (modv rest) E1 is_md (fun _ => True) step1 []
             ltac:(discriminate) E1_len ltac:(reflexivity) ltac:(reflexivity) (set_elem_modv rest)
             (fun u L a _ Ha => am_body1_run u L a Ha) ltac:(trivial) L [] u I HL).
  Qed.

  (* the second loop *)
  Variable u : list Z.                         (* the used IDs, as the first loop leaves them *)
  Definition next (cur : Z) : Z := MD.next_id (S (List.length u)) cur u.
  Hypothesis Hnext : forall cur,
    call "" "AssignMetadataIDs$1" (VTuple [VInt cur; usedmap u]) = GoEval.Ok (VTuple [VInt (next cur); VInt (next cur)]).
  Definition am_loop2 : gstmt := Eval vm_compute in nth 4 am_body SStop.
  Definition am_body2 : list gstmt := Eval vm_compute in match am_loop2 with SForPtr _ _ _ b => b | _ => [] end.
  Definition E2 (cur : Z) (L : list val) : env :=
    [("nextID", vfunc "AssignMetadataIDs$1"); ("curID", VInt cur); ("used", usedmap u); ("m", modv rest L); ("$fuel", VInt (Z.of_nat N))].
  Definition step2 (cur : Z) (a : val) : Z * val * flow :=
    if (md_id a =? -1)%Z then (next cur, md_set a (next cur), Run) else (cur, a, Cont).
  Lemma am_body2_run cur L a : is_md a ->
    in_scope am_body2 (("md", a) :: E2 cur L) [] = let '(c1, a1, fl) := step2 cur a in GoEval.Ok (("md", a1) :: E2 c1 L, [], fl).
  Proof.
    intros ([ty fs] & id & [Hty Hfs] & ->). cbn [fst snd] in *.
    unfold IdPassRefinement.in_scope, am_body2, E2, step2, mdo. cbn [fst snd md_id md_set].
    cbn. rewrite Hfs, (Hcall_id ty fs id Hty). cbn.
    destruct (id =? -1)%Z; cbn; [|reflexivity].
    rewrite Hnext. cbn -[next]. rewrite (Hcall_set ty fs id (next cur) Hty). cbn -[next]. reflexivity.
  Qed.
  Lemma E2_len c L c' L' : List.length (E2 c L) = List.length (E2 c' L').
  Proof. reflexivity. Qed.
  Lemma am_loop2_run cur L : Forall is_md L ->
    ex1 am_loop2 (E2 cur L) [] = let '(c', L', fl) := ptr_fold step2 L cur in GoEval.Ok (E2 c' L', [], fl).
  Proof.
    intros HL. unfold am_loop2. rewrite exec1_forptr. fold am_body2.
    change (ev (Z.of_nat (List.length (@nil byte))) (E2 cur L) (ESel (EId "m") "MetadataDefs")) with (GoEval.Ok (VList L)).
    cbn [place_of List.app]. cbv iota beta.
    apply (ptr_loop (in_scope am_body2) "md" "m" ["MetadataDefs"] (modv rest) E2 is_md (fun _ => True) step2 []
             ltac:(discriminate) E2_len ltac:(reflexivity) ltac:(reflexivity) (set_elem_modv rest)
             (fun c L a _ Ha => am_body2_run c L a Ha) ltac:(trivial) L [] cur I HL).
  Qed.
End Metadata.

(* ---- nextID, lifted: for { curID++; if !used[curID] { return curID } } ---- *)
Section NextID.
  Variable N : nat.
  Variable call : string -> string -> val -> res val.
  Notation ev := (eval no_impl call).
  Notation ex := (exec no_impl call).
  Notation ex1 := (exec1 no_impl call).
  Notation in_scope := (in_scope no_impl call).
  Variable u : list Z.
  Hypothesis Hget : forall k, call "" "$mapget" (VTuple [usedmap u; VInt k]) = GoEval.Ok (VBool (MD.memZ k u)).
  Definition ni_body := Eval vm_compute in body_of "" "AssignMetadataIDs$1".
  Definition ni_w : gstmt := Eval vm_compute in nth 0 ni_body SStop.
  Definition ni_lbody : list gstmt := Eval vm_compute in match ni_w with SWhile _ _ b => b | _ => [] end.
  Definition EN (cur : Z) : env := [("curID", VInt cur); ("used", usedmap u); ("$fuel", VInt (Z.of_nat N))].
  Lemma ni_lbody_run cur :
    in_scope ni_lbody (EN cur) [] =
    GoEval.Ok (EN (cur + 1), [], if MD.memZ (cur + 1) u then Run else Ret (VTuple [VInt (cur + 1); VInt (cur + 1)])).
  Proof.
    unfold IdPassRefinement.in_scope, ni_lbody, EN. cbn. rewrite Hget. cbn.
    destruct (MD.memZ (cur + 1) u); reflexivity.
  Qed.
  Lemma ni_while : forall f cur, MD.memZ (MD.next_id f cur u) u = false -> forall n, f < n ->
    while_loop (fun en buf => ev (Z.of_nat (List.length buf)) en (EBool true)) (in_scope ni_lbody) (ex []) n (EN cur) []
    = GoEval.Ok (EN (MD.next_id f cur u), [], Ret (VTuple [VInt (MD.next_id f cur u); VInt (MD.next_id f cur u)])).
  Proof.
    induction f as [|f IH]; intros cur Hfree n Hn; (destruct n as [|n]; [lia|]); rewrite while_S; cbn [eval]; cbv iota beta;
      rewrite ni_lbody_run; cbn [MD.next_id] in *.
    - rewrite Hfree. reflexivity.
    - destruct (MD.memZ (cur + 1) u) eqn:M.
      + cbn [stopped is_cont andb negb exec]. apply IH; [exact Hfree|lia].
      + reflexivity.
  Qed.
  Lemma ni_run cur : S (List.length u) < N ->
    exists en, ex ni_body (EN cur) [] =
      GoEval.Ok (en, [], Ret (VTuple [VInt (MD.next_id (S (List.length u)) cur u); VInt (MD.next_id (S (List.length u)) cur u)])).
  Proof.
    intros HN. unfold ni_body. rewrite exec_cons. fold ni_w. unfold ni_w. rewrite exec1_while. fold ni_lbody.
    change (lookup loop_fuel_var (EN cur)) with (Some (VInt (Z.of_nat N))). cbv iota beta. rewrite Nat2Z.id.
    rewrite (ni_while (S (List.length u)) cur); [|apply MetadataIDsProofs.memZ_false|exact HN].
    - cbn. eexists. reflexivity.
    - pose proof (MetadataIDsProofs.next_id_spec (S (List.length u)) cur u) as H.
      pose proof (MetadataIDsProofs.above_le cur u). apply H. lia.
  Qed.
End NextID.

(* ---- the loops against the model ---- *)
Lemma mdos_cons sh shs id ids : mdos (sh :: shs) (id :: ids) = mdo sh id :: mdos shs ids.
Proof. reflexivity. Qed.
Lemma mdos_is_md shs : Forall wf_shape shs -> forall ids, Forall is_md (mdos shs ids).
Proof.
  induction 1 as [|sh shs Hs _ IH]; intros ids; [constructor|]. destruct ids as [|id ids]; [constructor|].
  rewrite mdos_cons. constructor; [exists sh, id; split; [exact Hs|reflexivity]|apply IH].
Qed.
Lemma step1_mdo u sh id : step1 u (mdo sh id) =
  if (id =? -1)%Z then (u, mdo sh id, Run) else if MD.memZ id u then (u, mdo sh id, Ret an_error) else (id :: u, mdo sh id, Run).
Proof. reflexivity. Qed.
Lemma step2_mdo u cur sh id : step2 u cur (mdo sh id) =
  if (id =? -1)%Z then (next u cur, mdo sh (next u cur), Run) else (cur, mdo sh id, Cont).
Proof. reflexivity. Qed.
Lemma fold1_index : forall ids shs u, List.length shs = List.length ids ->
  let '(u', L', fl) := ptr_fold step1 (mdos shs ids) u in
  L' = mdos shs ids /\
  match MD.index_used ids u with MD.Ok u'' => u' = u'' /\ fl = Run | MD.Err => fl = Ret an_error end.
Proof.
  induction ids as [|id ids IH]; intros [|sh shs] u Hl; try discriminate Hl.
  - cbn. auto.
  - rewrite mdos_cons. cbn [ptr_fold MD.index_used]. rewrite step1_mdo.
    destruct (id =? -1)%Z.
    + cbn [halts stopped andb]. specialize (IH shs u ltac:(cbn in Hl; lia)).
      destruct (ptr_fold step1 (mdos shs ids) u) as [[u' L'] fl]. cbv beta iota in IH |- *. destruct IH as [-> IH]. split; [reflexivity|exact IH].
    + destruct (MD.memZ id u).
      * cbn [halts stopped is_cont andb negb]. split; reflexivity.
      * cbn [halts stopped andb]. specialize (IH shs (id :: u) ltac:(cbn in Hl; lia)).
        destruct (ptr_fold step1 (mdos shs ids) (id :: u)) as [[u' L'] fl]. cbv beta iota in IH |- *. destruct IH as [-> IH]. split; [reflexivity|exact IH].
Qed.
Lemma fold2_fill u : forall ids shs cur, List.length shs = List.length ids ->
  let '(_, L', fl) := ptr_fold (step2 u) (mdos shs ids) cur in L' = mdos shs (MD.fill ids cur u) /\ fl = Run.
Proof.
  induction ids as [|id ids IH]; intros [|sh shs] cur Hl; try discriminate Hl.
  - cbn. auto.
  - rewrite mdos_cons. cbn [ptr_fold MD.fill]. rewrite step2_mdo. fold (next u cur).
    destruct (id =? -1)%Z.
    + cbn [halts stopped andb]. specialize (IH shs (next u cur) ltac:(cbn in Hl; lia)).
      destruct (ptr_fold (step2 u) (mdos shs ids) (next u cur)) as [[c' L'] fl]. cbv beta iota in IH |- *. destruct IH as [-> ->]. split; reflexivity.
    + cbn [halts stopped is_cont andb negb]. specialize (IH shs cur ltac:(cbn in Hl; lia)).
      destruct (ptr_fold (step2 u) (mdos shs ids) cur) as [[c' L'] fl]. cbv beta iota in IH |- *. destruct IH as [-> ->]. split; reflexivity.
Qed.
Lemma index_used_length : forall ids u u', MD.index_used ids u = MD.Ok u' -> List.length u' <= List.length ids + List.length u.
Proof.
  induction ids as [|id ids IH]; intros u u'; cbn [MD.index_used List.length].
  - intros [= <-]. lia.
  - destruct (id =? -1)%Z; [intros H; apply IH in H; lia|]. destruct (MD.memZ id u); [discriminate|].
    intros H. apply IH in H. cbn [List.length] in H. lia.
Qed.

(* ---- the whole body ---- *)
Section MetadataBody.
  Variable N : nat.
  Variable call : string -> string -> val -> res val.
  Notation ex := (exec no_impl call).
  Variable rest : list (string * val).
  Hypothesis Hcall_id : forall ty fs id, ty <> "" ->
    call ty "ID" (VObj ty (("MetadataID", VEnum "metadata.MetadataID" id) :: fs)) = GoEval.Ok (VInt id).
  Hypothesis Hcall_set : forall ty fs id n, ty <> "" ->
    call ty "SetID" (VTuple [VObj ty (("MetadataID", VEnum "metadata.MetadataID" id) :: fs); VInt n])
    = GoEval.Ok (VObj ty (("MetadataID", VEnum "metadata.MetadataID" n) :: fs)).
  Hypothesis Hhas : forall u k, call "" "$maphas" (VTuple [usedmap u; VInt k]) = GoEval.Ok (VTuple [VBool (MD.memZ k u); VBool (MD.memZ k u)]).
  Hypothesis Hmapset : forall u k, MD.memZ k u = false ->
    call "" "$mapset" (VTuple [usedmap u; VInt k; VBool true]) = GoEval.Ok (usedmap (k :: u)).
  Hypothesis Hnext : forall u cur, S (List.length u) < N ->
    call "" "AssignMetadataIDs$1" (VTuple [VInt cur; usedmap u]) = GoEval.Ok (VTuple [VInt (next u cur); VInt (next u cur)]).

  Lemma am_run shs ids : List.length shs = List.length ids -> Forall wf_shape shs -> List.length ids + 1 < N ->
    exists en,
      ex am_body [("m", modv rest (mdos shs ids)); ("$fuel", VInt (Z.of_nat N))] [] =
      match MD.assign_md_ids ids with
      | MD.Ok ids' => GoEval.Ok (en ++ [("m", modv rest (mdos shs ids')); ("$fuel", VInt (Z.of_nat N))], [], Ret VNil)
      | MD.Err => GoEval.Ok (en ++ [("m", modv rest (mdos shs ids)); ("$fuel", VInt (Z.of_nat N))], [], Ret an_error)
      end.
  Proof.
    intros Hl Hwf HN. pose proof (mdos_is_md shs Hwf) as Hmd.
    unfold am_body. rewrite exec_cons.
    change (exec1 no_impl call (SLet true ["used"] (ECall (EId "make") [EStr "map[int64]bool"])) [("m", modv rest (mdos shs ids)); ("$fuel", VInt (Z.of_nat N))] [])
      with (GoEval.Ok (E1 N rest [] (mdos shs ids), @nil byte, Run)).
    cbn [stopped]. rewrite exec_cons. fold am_loop1.
    rewrite (am_loop1_run N call rest Hcall_id Hhas Hmapset [] (mdos shs ids) (Hmd ids)).
    pose proof (fold1_index ids shs [] Hl) as F1. unfold MD.assign_md_ids.
    destruct (ptr_fold step1 (mdos shs ids) []) as [[u L'] fl]. destruct F1 as [-> F1].
    destruct (MD.index_used ids []) as [u'|] eqn:EU.
    - destruct F1 as [<- ->]. cbn [stopped].
      pose proof (index_used_length ids [] u EU) as Lu. cbn [List.length] in Lu.
      rewrite exec_cons. cbn -[exec]. rewrite exec_cons. cbn -[exec]. rewrite exec_cons.
      change (SForPtr "_" "md" (ESel (EId "m") "MetadataDefs") _) with am_loop2.
      change (("nextID", vfunc "AssignMetadataIDs$1") :: ("curID", VInt (-1)) :: E1 N rest u (mdos shs ids)) with (E2 N rest u (-1) (mdos shs ids)).
      rewrite (am_loop2_run N call rest Hcall_id Hcall_set u (fun cur => Hnext u cur ltac:(lia)) (-1) (mdos shs ids) (Hmd ids)).
      pose proof (fold2_fill u ids shs (-1)%Z Hl) as F2.
      destruct (ptr_fold (step2 u) (mdos shs ids) (-1)%Z) as [[c' L'] fl]. destruct F2 as [-> ->].
      cbn. eexists [_; _; _]. reflexivity.
    - rewrite F1. cbn. eexists [_]. reflexivity.
  Qed.
End MetadataBody.

(* ---- tying the knot: the calls the bodies make, answered by call_table_obj ---- *)
Definition run_idpass (impl : string -> string -> bool) (globals : env) (depth : nat) (ty m : string) (recv : val) : res (val * val) :=
  match find_in idpass_bodies ty m with
  | Some p => run_method impl (call_table_obj idpass_bodies impl globals depth) globals p recv
  | None => Fail "no such body"
  end.

Lemma call_table_obj_S tbl impl g f ty m recv :
  call_table_obj tbl impl g (S f) ty m recv =
  match find_in tbl ty m with
  | Some p => run_body impl (call_table_obj tbl impl g f) g p recv
  | None =>
    match (if String.eqb ty "" then match idpass_library m recv with Some r => Some r | None => go_library m recv end else obj_method m recv) with
    | Some r => r
    | None => Fail ("no body " ++ ty ++ "." ++ m)
    end
  end.
Proof. reflexivity. Qed.
Lemma find_in_none tbl ty m : forallb (fun p => negb (String.eqb (p_method p) m)) tbl = true -> find_in tbl ty m = None.
Proof.
  unfold find_in. induction tbl as [|p tbl IH]; cbn [forallb find]; [reflexivity|].
  intros H. apply andb_prop in H as [H1 H2]. apply negb_true_iff in H1. rewrite H1, andb_false_r. apply IH, H2.
Qed.
Lemma eqb_empty ty : ty <> "" -> String.eqb ty "" = false.
Proof. intros H. apply String.eqb_neq. exact H. Qed.

Section ObjCalls.
  Variable impl : string -> string -> bool.
  Variable g : env.
  Variable d : nat.
  Notation C := (call_table_obj idpass_bodies impl g (S d)).
  Lemma obj_id_md ty fs id : ty <> "" ->
    C ty "ID" (VObj ty (("MetadataID", VEnum "metadata.MetadataID" id) :: fs)) = GoEval.Ok (VInt id).
  Proof. intros H. rewrite call_table_obj_S, find_in_none, (eqb_empty ty H) by reflexivity. reflexivity. Qed.
  Lemma obj_setid_md ty fs id n : ty <> "" ->
    C ty "SetID" (VTuple [VObj ty (("MetadataID", VEnum "metadata.MetadataID" id) :: fs); VInt n])
    = GoEval.Ok (VObj ty (("MetadataID", VEnum "metadata.MetadataID" n) :: fs)).
  Proof. intros H. rewrite call_table_obj_S, find_in_none, (eqb_empty ty H) by reflexivity. reflexivity. Qed.
  Lemma find_key k u :
    find (is_key k) (map (fun z => VTuple [VInt z; VBool true]) u) = if MD.memZ k u then Some (VTuple [VInt k; VBool true]) else None.
  Proof.
    induction u as [|z u IH]; [reflexivity|]. cbn [map find is_key]. unfold MD.memZ in *. cbn [existsb].
    rewrite (Z.eqb_sym k z). destruct (Z.eqb_spec z k) as [->|_]; [reflexivity|]. cbn [orb]. exact IH.
  Qed.
  Lemma lib_maphas u k : C "" "$maphas" (VTuple [usedmap u; VInt k]) = GoEval.Ok (VTuple [VBool (MD.memZ k u); VBool (MD.memZ k u)]).
  Proof.
    rewrite call_table_obj_S. change (find_in idpass_bodies "" "$maphas") with (@None printer).
    change (String.eqb "" "") with true. cbv iota. unfold usedmap.
    change (idpass_library "$maphas" (VTuple [VList (map (fun z => VTuple [VInt z; VBool true]) u); VInt k]))
      with (Some (match find (is_key k) (map (fun z => VTuple [VInt z; VBool true]) u) with
                  | Some (VTuple [_; w]) => GoEval.Ok (VTuple [w; VBool true]) | _ => GoEval.Ok (VTuple [VBool false; VBool false]) end)).
    rewrite find_key. destruct (MD.memZ k u); reflexivity.
  Qed.
  Lemma lib_mapget u k : C "" "$mapget" (VTuple [usedmap u; VInt k]) = GoEval.Ok (VBool (MD.memZ k u)).
  Proof.
    rewrite call_table_obj_S. change (find_in idpass_bodies "" "$mapget") with (@None printer).
    change (String.eqb "" "") with true. cbv iota. unfold usedmap.
    change (idpass_library "$mapget" (VTuple [VList (map (fun z => VTuple [VInt z; VBool true]) u); VInt k]))
      with (Some (match find (is_key k) (map (fun z => VTuple [VInt z; VBool true]) u) with
                  | Some (VTuple [_; w]) => GoEval.Ok w | _ => GoEval.Ok (VBool false) end)).
    rewrite find_key. destruct (MD.memZ k u); reflexivity.
  Qed.
  Lemma filter_key k u : MD.memZ k u = false ->
    filter (fun p => negb (is_key k p)) (map (fun z => VTuple [VInt z; VBool true]) u) = map (fun z => VTuple [VInt z; VBool true]) u.
  Proof.
    induction u as [|z u IH]; [reflexivity|]. unfold MD.memZ in *. cbn [existsb map filter is_key]. intros H.
    apply orb_false_iff in H as [H1 H2]. rewrite (Z.eqb_sym z k), H1. cbn [negb]. rewrite (IH H2). reflexivity.
  Qed.
  Lemma lib_mapset u k : MD.memZ k u = false ->
    C "" "$mapset" (VTuple [usedmap u; VInt k; VBool true]) = GoEval.Ok (usedmap (k :: u)).
  Proof.
    intros H. rewrite call_table_obj_S. change (find_in idpass_bodies "" "$mapset") with (@None printer).
    change (String.eqb "" "") with true. cbv iota. unfold usedmap.
    change (idpass_library "$mapset" (VTuple [VList (map (fun z => VTuple [VInt z; VBool true]) u); VInt k; VBool true]))
      with (Some (GoEval.Ok (VList (VTuple [VInt k; VBool true] :: filter (fun p => negb (is_key k p)) (map (fun z => VTuple [VInt z; VBool true]) u))))).
    rewrite (filter_key k u H). reflexivity.
  Qed.
End ObjCalls.

Lemma find_next_id : find_in idpass_bodies "" "AssignMetadataIDs$1"
  = Some {| p_pkg := "ir"; p_type := ""; p_method := "AssignMetadataIDs$1"; p_recv := "curID,used"; p_body := ni_body |}.
Proof. reflexivity. Qed.
Lemma next_id_at N d u cur : S (List.length u) < N ->
  call_table_obj idpass_bodies no_impl (fuel_env N) (S (S d)) "" "AssignMetadataIDs$1" (VTuple [VInt cur; usedmap u])
  = GoEval.Ok (VTuple [VInt (next u cur); VInt (next u cur)]).
Proof.
  intros HN. rewrite call_table_obj_S, find_next_id. unfold run_body. cbn [p_recv p_body].
  change (split_commas "curID,used") with ["curID"; "used"]. cbn [combine List.app]. unfold fuel_env.
  destruct (ni_run N (call_table_obj idpass_bodies no_impl (fuel_env N) (S d)) u (lib_mapget no_impl _ d u) cur HN) as [en Hen].
  unfold EN, fuel_env in Hen. change loop_fuel_var with "$fuel" in *. rewrite Hen. reflexivity.
Qed.

Lemma find_assign_md : find_in idpass_bodies "ir.Module" "AssignMetadataIDs"
  = Some {| p_pkg := "ir"; p_type := "ir.Module"; p_method := "AssignMetadataIDs"; p_recv := "m"; p_body := am_body |}.
Proof. reflexivity. Qed.

Lemma truncate_app {A} (a b : list A) : truncate (List.length b) (a ++ b) = b.
Proof. unfold truncate. rewrite app_length, Nat.add_sub, skipn_app, skipn_all, Nat.sub_diag. reflexivity. Qed.

(* a method whose only name is its receiver x, run to a return *)
Lemma run_method_recv impl call g p recv x en r v :
  p_recv p = x -> split_commas x = [x] ->
  exec impl call (p_body p) ((x, recv) :: g) [] = GoEval.Ok (en ++ (x, r) :: g, [], Ret v) ->
  run_method impl call g p recv = GoEval.Ok (r, v).
Proof.
  intros Hx Hs He. unfold run_method. rewrite Hx, Hs. cbn [List.app hd]. rewrite He.
  change (List.length [(x, recv)] + List.length g) with (List.length ((x, r) :: g)). rewrite truncate_app.
  cbn [lookup]. rewrite String.eqb_refl. reflexivity.
Qed.

(* (a) Running the regenerated AssignMetadataIDs on a module whose MetadataDefs are objects of any types (named, with
   the embedded MetadataID first and any other fields, ID() not among the stored results) carrying the IDs ids
   (-1: unassigned) leaves the module with the IDs the model computes and returns nil; when an ID is used twice it
   returns an error and the module is as it was.  N bounds the rounds of the loop of nextID, depth the nesting of calls. *)
Theorem generated_assign_metadata_ids_is_model :
  forall (shs : list shape) (ids : list Z) (rest : list (string * val)) (N depth : nat),
  List.length shs = List.length ids -> Forall wf_shape shs -> List.length ids + 2 <= N -> 2 <= depth ->
  run_idpass no_impl (fuel_env N) depth "ir.Module" "AssignMetadataIDs" (modv rest (mdos shs ids)) =
  match MD.assign_md_ids ids with
  | MD.Ok ids' => GoEval.Ok (modv rest (mdos shs ids'), VNil)
  | MD.Err => GoEval.Ok (modv rest (mdos shs ids), an_error)
  end.
Proof.
  intros shs ids rest N depth Hl Hwf HN Hd. destruct depth as [|[|d]]; try lia.
  unfold run_idpass. rewrite find_assign_md.
  destruct (am_run N (call_table_obj idpass_bodies no_impl (fuel_env N) (S (S d))) rest
              (obj_id_md _ _ _) (obj_setid_md _ _ _) (lib_maphas _ _ _) (lib_mapset _ _ _)
              (fun u cur H => next_id_at N d u cur H) shs ids Hl Hwf ltac:(lia)) as [en Hen].
  unfold fuel_env in *. change loop_fuel_var with "$fuel" in *.
  destruct (MD.assign_md_ids ids) as [ids'|]; apply (run_method_recv _ _ _ _ _ "m" en); try reflexivity; exact Hen.
Qed.
Print Assumptions generated_assign_metadata_ids_is_model.

(* ================= Func.AssignIDs ================= *)
Module NB := Numbering.

(* an object with an embedded LocalIdent first (a parameter, a basic block, an instruction, a terminator) *)
Record lshape := { ls_ty : string; ls_name : bytes; ls_rest : list (string * val) }.
Definition lobj (sh : lshape) (id : Z) : val :=
  VObj (ls_ty sh) (("LocalName", VStr (ls_name sh)) :: ("LocalID", VInt id) :: ls_rest sh).
Definition ls_unnamed (sh : lshape) : bool := Nat.eqb (List.length (ls_name sh)) 0.
Definition wf_lshape (sh : lshape) : Prop :=
  ls_ty sh <> "" /\ lookup "ID()" (ls_rest sh) = None /\ lookup "IsUnnamed()" (ls_rest sh) = None /\ lookup "MetadataID" (ls_rest sh) = None.
(* the function: its parameters, its blocks, the stored result of Ident() (read when an error is reported) *)
Definition funv (fty : string) (ident : val) (frest : list (string * val)) (ps bs : list val) : val :=
  VObj fty (("Params", VList ps) :: ("Blocks", VList bs) :: ("Ident()", ident) :: frest).

(* setName(n) for an object n, the counter id: the error, the object and the counter as the closure leaves them *)
Definition sn_res (sh : lshape) (idx id : Z) : val :=
  if ls_unnamed sh then
    if negb (idx =? 0)%Z && negb (id =? idx)%Z then VTuple [an_error; lobj sh idx; VInt id]
    else VTuple [VNil; lobj sh id; VInt (id + 1)]
  else VTuple [VNil; lobj sh idx; VInt id].

(* the globals: the void type of package types *)
Definition void_type : val := VObj "types.VoidType" [].
Definition ids_env : env := [("types.Void", void_type)].

Section SetName.
  Variable impl : string -> string -> bool.
  Variable call : string -> string -> val -> res val.
  Notation ex := (exec impl call).
  Hypothesis Hid : forall sh idx, wf_lshape sh -> call (ls_ty sh) "ID" (lobj sh idx) = GoEval.Ok (VInt idx).
  Hypothesis Hun : forall sh idx, wf_lshape sh -> call (ls_ty sh) "IsUnnamed" (lobj sh idx) = GoEval.Ok (VBool (ls_unnamed sh)).
  Hypothesis Hset : forall sh idx id, wf_lshape sh -> call (ls_ty sh) "SetID" (VTuple [lobj sh idx; VInt id]) = GoEval.Ok (lobj sh id).
  Definition sn_body := Eval vm_compute in body_of "" "AssignIDs$1".
  Lemma sn_run sh idx id fty ident frest ps bs : wf_lshape sh ->
    exists en, ex sn_body ([("n", lobj sh idx); ("id", VInt id); ("f", funv fty ident frest ps bs)] ++ ids_env) [] = GoEval.Ok (en, [], Ret (sn_res sh idx id)).
  Proof.
    intros Hwf. pose proof Hwf as (Hty & H1 & H2 & H3). destruct sh as [ty name rest]. cbn [ls_ty ls_name ls_rest] in *.
    unfold sn_body, sn_res, ls_unnamed. cbn [ls_name].
    specialize (Hid _ idx Hwf). specialize (Hun _ idx Hwf). pose proof (fun id => Hset _ idx id Hwf) as Hs. clear Hset.
    unfold lobj, ls_unnamed in *. cbn [ls_ty ls_name ls_rest] in *.
    cbn. rewrite H2, Hun. cbn. destruct (Nat.eqb (List.length name) 0); cbn; [|eexists; reflexivity].
    rewrite H1, Hid. cbn. rewrite (Z.eqb_sym idx 0).
    destruct (0 =? idx)%Z eqn:E0; cbn.
    - rewrite ?H1, ?Hid. cbn. rewrite ?(Z.eqb_sym idx id). destruct (id =? idx)%Z eqn:E1; cbn.
      + apply Z.eqb_eq in E1. subst idx. eexists; reflexivity.
      + rewrite Hs. cbn. eexists; reflexivity.
    - rewrite ?H1, ?Hid. cbn. destruct (id =? idx)%Z eqn:E1; cbn.
      + rewrite ?H1, ?Hid. cbn. rewrite ?(Z.eqb_sym idx id), ?E1. cbn. apply Z.eqb_eq in E1. subst idx. eexists; reflexivity.
      + rewrite ?H1, ?Hid. cbn. eexists; reflexivity.
  Qed.
End SetName.

(* ---- the objects the walk meets, read back from their values ---- *)
Definition lo_unnamed (a : val) : bool := match a with VObj _ ((_, VStr n) :: _) => Nat.eqb (List.length n) 0 | _ => false end.
Definition lo_id (a : val) : Z := match a with VObj _ (_ :: (_, VInt z) :: _) => z | _ => 0%Z end.
Definition lo_set (a : val) (z : Z) : val := match a with VObj ty (x :: (f, _) :: r) => VObj ty (x :: (f, VInt z) :: r) | _ => a end.
(* setName on an object *)
Definition sn_step (id : Z) (a : val) : Z * val * flow :=
  if lo_unnamed a then
    if negb (lo_id a =? 0)%Z && negb (id =? lo_id a)%Z then (id, a, Ret an_error) else ((id + 1)%Z, lo_set a id, Run)
  else (id, a, Run).
(* the dynamic types that pass the assertion to namedVar *)
Definition is_nv (impl : string -> string -> bool) (t : string) : bool := String.eqb "ir.namedVar" t || impl "ir.namedVar" t.
(* an instruction or terminator takes part in the numbering: it is a namedVar and its type is not void *)
Definition in_value (impl : string -> string -> bool) (a : val) : bool :=
  match a with
  | VObj t fs => is_nv impl t && match fs with _ :: _ :: (_, VObj tn _) :: _ => negb (String.eqb tn "types.VoidType") | _ => false end
  | _ => false
  end.
Definition step_inst (impl : string -> string -> bool) (id : Z) (a : val) : Z * val * flow :=
  if in_value impl a then sn_step id a else (id, a, Cont).
Definition blk_insts (a : val) : list val := match a with VObj _ (_ :: _ :: (_, VList l) :: _) => l | _ => [] end.
Definition blk_term (a : val) : val := match a with VObj _ (_ :: _ :: _ :: (_, t) :: _) => t | _ => VNil end.
Definition blk_put (a : val) (l : list val) (t : val) : val :=
  match a with VObj ty (x :: y :: (fi, _) :: (ft, _) :: r) => VObj ty (x :: y :: (fi, VList l) :: (ft, t) :: r) | _ => a end.
Definition step_block (impl : string -> string -> bool) (id : Z) (a : val) : Z * val * flow :=
  let '(id1, a1, fl1) := sn_step id a in
  if halts fl1 then (id1, a1, fl1) else
  let '(id2, l2, fl2) := ptr_fold (step_inst impl) (blk_insts a1) id1 in
  if halts fl2 then (id2, blk_put a1 l2 (blk_term a1), fl2) else
  let '(id3, t3, fl3) := step_inst impl id2 (blk_term a1) in
  (id3, blk_put a1 l2 t3, fl3).

Definition add_fields (sh : lshape) (fs : list (string * val)) : lshape :=
  {| ls_ty := ls_ty sh; ls_name := ls_name sh; ls_rest := fs ++ ls_rest sh |}.
(* a namedVar instruction: the stored result of Type() follows the identifier *)
Definition nobj (sh : lshape) (tn : string) (tf : list (string * val)) (id : Z) : val := lobj (add_fields sh [("Type()", VObj tn tf)]) id.
(* a basic block *)
Definition blockv (sh : lshape) (id : Z) (insts : list val) (term : val) : val :=
  lobj (add_fields sh [("Insts", VList insts); ("Term", term)]) id.
Lemma wf_nobj sh tn tf : wf_lshape sh -> wf_lshape (add_fields sh [("Type()", VObj tn tf)]).
Proof. intros (H0 & H1 & H2 & H3). repeat split; assumption. Qed.
Lemma wf_blockv sh insts term : wf_lshape sh -> wf_lshape (add_fields sh [("Insts", VList insts); ("Term", term)]).
Proof. intros (H0 & H1 & H2 & H3). repeat split; assumption. Qed.

Definition is_lobj (a : val) : Prop := exists sh idx, wf_lshape sh /\ a = lobj sh idx.
Definition is_inst (impl : string -> string -> bool) (a : val) : Prop :=
  (exists ty fs, is_nv impl ty = false /\ a = VObj ty fs) \/
  (exists sh tn tf idx, wf_lshape sh /\ is_nv impl (ls_ty sh) = true /\ a = nobj sh tn tf idx).
Definition is_block (impl : string -> string -> bool) (a : val) : Prop :=
  exists sh idx insts term, wf_lshape sh /\ Forall (is_inst impl) insts /\ is_inst impl term /\ a = blockv sh idx insts term.

Lemma sn_step_lobj sh idx id :
  sn_step id (lobj sh idx) =
  if ls_unnamed sh then
    if negb (idx =? 0)%Z && negb (id =? idx)%Z then (id, lobj sh idx, Ret an_error) else ((id + 1)%Z, lobj sh id, Run)
  else (id, lobj sh idx, Run).
Proof. reflexivity. Qed.

Lemma step_inst_nobj impl id sh tn tf idx :
  step_inst impl id (nobj sh tn tf idx) =
  if is_nv impl (ls_ty sh) && negb (String.eqb tn "types.VoidType") then sn_step id (nobj sh tn tf idx) else (id, nobj sh tn tf idx, Cont).
Proof. reflexivity. Qed.

Lemma ptr_fold_flow {St} (step : St -> val -> St * val * flow) l : forall st,
  let '(_, _, fl) := ptr_fold step l st in fl = Run \/ halts fl = true.
Proof.
  induction l as [|a r IH]; intros st; cbn [ptr_fold]; [left; reflexivity|].
  destruct (step st a) as [[st1 a1] fl]. destruct (halts fl) eqn:H; [right; exact H|].
  specialize (IH st1). destruct (ptr_fold step r st1) as [[st2 r2] fl2]. exact IH.
Qed.
Lemma halts_stopped fl : halts fl = true -> stopped fl = true.
Proof. unfold halts. intros H. apply andb_prop in H. apply H. Qed.
Lemma sn_step_blockv sh idx insts term id : exists id1 idx1 fl1,
  sn_step id (blockv sh idx insts term) = (id1, blockv sh idx1 insts term, fl1) /\ (fl1 = Run \/ fl1 = Ret an_error).
Proof.
  unfold blockv. rewrite sn_step_lobj. destruct (ls_unnamed _); [destruct (negb (idx =? 0)%Z && negb (id =? idx)%Z)|];
    do 3 eexists; (split; [reflexivity|auto]).
Qed.

Section FuncBody.
  Variable impl : string -> string -> bool.
  Variable call : string -> string -> val -> res val.
  Notation ev := (eval impl call).
  Notation ex := (exec impl call).
  Notation ex1 := (exec1 impl call).
  Notation in_scope := (in_scope impl call).
  Variable fty : string.
  Variable ident : val.
  Variable frest : list (string * val).
  Hypothesis Hsn : forall sh idx id ps bs, wf_lshape sh ->
    call "" "AssignIDs$1" (VTuple [lobj sh idx; VInt id; funv fty ident frest ps bs]) = GoEval.Ok (sn_res sh idx id).
  Hypothesis Heq : forall tn tf, call "" "types.Equal" (VTuple [VObj tn tf; void_type]) = GoEval.Ok (VBool (String.eqb tn "types.VoidType")).

  Definition fa_body := Eval vm_compute in body_of "ir.Func" "AssignIDs".
  Definition fa_ploop : gstmt := Eval vm_compute in nth 2 fa_body SStop.
  Definition fa_pbody : list gstmt := Eval vm_compute in match fa_ploop with SForPtr _ _ _ b => b | _ => [] end.
  Definition EF (id : Z) (ps bs : list val) : env :=
    [("setName", vfunc "AssignIDs$1"); ("id", VInt id); ("f", funv fty ident frest ps bs); ("types.Void", void_type)].
  Lemma fa_pbody_run id ps bs a : is_lobj a ->
    in_scope fa_pbody (("param", a) :: EF id ps bs) [] = let '(id1, a1, fl) := sn_step id a in GoEval.Ok (("param", a1) :: EF id1 ps bs, [], fl).
  Proof.
    intros (sh & idx & Hwf & ->). rewrite sn_step_lobj.
    unfold IdPassRefinement.in_scope, fa_pbody, EF. cbn. rewrite (Hsn sh idx id ps bs Hwf). unfold sn_res.
    destruct (ls_unnamed sh); [destruct (negb (idx =? 0)%Z && negb (id =? idx)%Z)|]; cbn; reflexivity.
  Qed.

  (* the instructions of a block *)
  Definition fa_bloop : gstmt := Eval vm_compute in nth 3 fa_body SStop.
  Definition fa_bbody : list gstmt := Eval vm_compute in match fa_bloop with SForPtr _ _ _ b => b | _ => [] end.
  Definition fa_iloop : gstmt := Eval vm_compute in nth 1 fa_bbody SStop.
  Definition fa_ibody : list gstmt := Eval vm_compute in match fa_iloop with SForPtr _ _ _ b => b | _ => [] end.
  Definition EB (bsh : lshape) (bid : Z) (term : val) (ps bs : list val) (id : Z) (insts : list val) : env :=
    ("block", blockv bsh bid insts term) :: EF id ps bs.
  Lemma fa_ibody_run bsh bid term ps bs id insts a : is_inst impl a ->
    in_scope fa_ibody (("inst", a) :: EB bsh bid term ps bs id insts) [] =
    let '(id1, a1, fl) := step_inst impl id a in GoEval.Ok (("inst", a1) :: EB bsh bid term ps bs id1 insts, [], fl).
  Proof.
    intros [(ty & fs & Hnv & ->)|(sh & tn & tf & idx & Hwf & Hnv & ->)].
    - unfold step_inst, in_value. rewrite Hnv. cbn [andb].
      unfold IdPassRefinement.in_scope, fa_ibody, EB, EF. unfold is_nv in Hnv. cbn. rewrite Hnv. cbn. reflexivity.
    - rewrite step_inst_nobj, Hnv. cbn [andb].
      unfold IdPassRefinement.in_scope, fa_ibody, EB, EF. unfold is_nv in Hnv.
      pose proof (wf_nobj sh tn tf Hwf) as Hwf'.
      pose proof (Hsn _ idx id ps bs Hwf') as Hc. unfold nobj.
      set (sh' := add_fields sh [("Type()", VObj tn tf)]) in *.
      unfold lobj in Hc |- *. cbn [ls_ty ls_rest ls_name add_fields List.app] in Hc |- *. subst sh'. cbn [ls_ty ls_rest ls_name add_fields List.app] in Hc |- *.
      cbn. rewrite Hnv. cbn. rewrite Heq. cbn.
      destruct (String.eqb tn "types.VoidType"); cbn; [reflexivity|].
      rewrite Hc. unfold sn_res, sn_step, ls_unnamed, lobj. cbn [lo_unnamed lo_id lo_set ls_ty ls_rest ls_name add_fields List.app].
      destruct (Nat.eqb (List.length (ls_name sh)) 0); [destruct (negb (idx =? 0)%Z && negb (id =? idx)%Z)|]; cbn; reflexivity.
  Qed.

  Lemma set_elem_insts bsh bid term done a r a' :
    set_elem ["Insts"] (List.length done) a' (blockv bsh bid (done ++ a :: r) term) = GoEval.Ok (blockv bsh bid (done ++ a' :: r) term).
  Proof.
    unfold blockv, lobj. cbn [add_fields ls_ty ls_rest ls_name List.app set_elem lookup]. cbn.
    assert (Nat.ltb (List.length done) (List.length (done ++ a :: r)) = true) as ->
      by (apply Nat.ltb_lt; rewrite app_length; cbn [List.length]; lia).
    rewrite replace_mid. reflexivity.
  Qed.
  Lemma fa_iloop_run bsh bid term ps bs id insts : Forall (is_inst impl) insts ->
    ex1 fa_iloop (EB bsh bid term ps bs id insts) [] =
    let '(id', L', fl) := ptr_fold (step_inst impl) insts id in GoEval.Ok (EB bsh bid term ps bs id' L', [], fl).
  Proof.
    intros HL. unfold fa_iloop. rewrite exec1_forptr. fold fa_ibody.
    change (ev (Z.of_nat (List.length (@nil byte))) (EB bsh bid term ps bs id insts) (ESel (EId "block") "Insts")) with (GoEval.Ok (VList insts)).
    cbn [place_of List.app]. cbv iota beta.
    apply (ptr_loop (in_scope fa_ibody) "inst" "block" ["Insts"] (fun L => blockv bsh bid L term) (EB bsh bid term ps bs) (is_inst impl)
             (fun _ => True) (step_inst impl) [] ltac:(discriminate) ltac:(reflexivity) ltac:(reflexivity) ltac:(reflexivity)
             (set_elem_insts bsh bid term)
             (fun i L a _ Ha => fa_ibody_run bsh bid term ps bs i L a Ha) ltac:(trivial) insts [] id I HL).
  Qed.

  (* the body of the loop over the blocks: setName(block), the instructions, the terminator *)
  Definition fa_b0 : gstmt := Eval vm_compute in nth 0 fa_bbody SStop.
  Definition fa_btail : list gstmt := Eval vm_compute in skipn 2 fa_bbody.
  Lemma fa_b0_run bsh bid insts term ps bs id : wf_lshape bsh ->
    ex1 fa_b0 (("block", blockv bsh bid insts term) :: EF id ps bs) [] =
    let '(id1, a1, fl) := sn_step id (blockv bsh bid insts term) in GoEval.Ok (("block", a1) :: EF id1 ps bs, [], fl).
  Proof.
    intros Hwf. pose proof (wf_blockv bsh insts term Hwf) as Hwf'. unfold blockv. rewrite sn_step_lobj.
    pose proof (Hsn _ bid id ps bs Hwf') as Hc.
    unfold fa_b0, EF. cbn. rewrite Hc. unfold sn_res.
    destruct (ls_unnamed _); [destruct (negb (bid =? 0)%Z && negb (id =? bid)%Z)|]; cbn; reflexivity.
  Qed.
  Lemma fa_btail_run bsh bid insts term ps bs id : is_inst impl term ->
    exists x y,
    ex fa_btail (EB bsh bid term ps bs id insts) [] =
    let '(id1, t1, fl) := step_inst impl id term in
    GoEval.Ok (("ok", x) :: ("n", y) :: EB bsh bid t1 ps bs id1 insts, [], fl).
  Proof.
    intros [(ty & fs & Hnv & ->)|(sh & tn & tf & idx & Hwf & Hnv & ->)].
    - unfold step_inst, in_value. rewrite Hnv. cbn [andb].
      unfold fa_btail, EB, EF, blockv, lobj. unfold is_nv in Hnv. cbn. rewrite Hnv. cbn. do 2 eexists. reflexivity.
    - rewrite step_inst_nobj, Hnv. cbn [andb].
      unfold fa_btail, EB, EF, blockv. unfold is_nv in Hnv.
      pose proof (wf_nobj sh tn tf Hwf) as Hwf'.
      pose proof (Hsn _ idx id ps bs Hwf') as Hc. unfold nobj.
      set (sh' := add_fields sh [("Type()", VObj tn tf)]) in *.
      unfold lobj in Hc |- *. cbn [ls_ty ls_rest ls_name add_fields List.app] in Hc |- *. subst sh'. cbn [ls_ty ls_rest ls_name add_fields List.app] in Hc |- *.
      cbn. rewrite Hnv. cbn. rewrite Heq. cbn.
      destruct (String.eqb tn "types.VoidType"); cbn; [do 2 eexists; reflexivity|].
      rewrite Hc. unfold sn_res, sn_step, ls_unnamed, lobj. cbn [lo_unnamed lo_id lo_set ls_ty ls_rest ls_name add_fields List.app].
      destruct (Nat.eqb (List.length (ls_name sh)) 0); [destruct (negb (idx =? 0)%Z && negb (id =? idx)%Z)|]; cbn; do 2 eexists; reflexivity.
  Qed.

  Lemma fa_bbody_run id ps bs a : is_block impl a ->
    in_scope fa_bbody (("block", a) :: EF id ps bs) [] =
    let '(id1, a1, fl) := step_block impl id a in GoEval.Ok (("block", a1) :: EF id1 ps bs, [], fl).
  Proof.
    intros (sh & idx & insts & term & Hwf & Hin & Hterm & ->).
    unfold IdPassRefinement.in_scope. change fa_bbody with (fa_b0 :: fa_iloop :: fa_btail).
    rewrite exec_cons, (fa_b0_run sh idx insts term ps bs id Hwf). unfold step_block.
    destruct (sn_step_blockv sh idx insts term id) as (id1 & idx1 & fl1 & -> & [-> | ->]).
    2: { reflexivity. }
    cbn [stopped halts andb]. rewrite exec_cons.
    change (("block", blockv sh idx1 insts term) :: EF id1 ps bs) with (EB sh idx1 term ps bs id1 insts).
    rewrite (fa_iloop_run sh idx1 term ps bs id1 insts Hin).
    change (blk_insts (blockv sh idx1 insts term)) with insts. change (blk_term (blockv sh idx1 insts term)) with term.
    pose proof (ptr_fold_flow (step_inst impl) insts id1) as Hfl.
    destruct (ptr_fold (step_inst impl) insts id1) as [[id2 l2] fl2].
    destruct Hfl as [-> | Hh].
    - cbn [stopped halts andb].
      destruct (fa_btail_run sh idx1 l2 term ps bs id2 Hterm) as (x & y & ->).
      destruct (step_inst impl id2 term) as [[id3 t3] fl3]. reflexivity.
    - rewrite Hh, (halts_stopped fl2 Hh). reflexivity.
  Qed.

  Lemma set_elem_blocks ps done a r a' :
    set_elem ["Blocks"] (List.length done) a' (funv fty ident frest ps (done ++ a :: r)) = GoEval.Ok (funv fty ident frest ps (done ++ a' :: r)).
  Proof.
    unfold funv. cbn.
    assert (Nat.ltb (List.length done) (List.length (done ++ a :: r)) = true) as ->
      by (apply Nat.ltb_lt; rewrite app_length; cbn [List.length]; lia).
    rewrite replace_mid. reflexivity.
  Qed.
  Lemma set_elem_params bs done a r a' :
    set_elem ["Params"] (List.length done) a' (funv fty ident frest (done ++ a :: r) bs) = GoEval.Ok (funv fty ident frest (done ++ a' :: r) bs).
  Proof.
    unfold funv. cbn.
    assert (Nat.ltb (List.length done) (List.length (done ++ a :: r)) = true) as ->
      by (apply Nat.ltb_lt; rewrite app_length; cbn [List.length]; lia).
    rewrite replace_mid. reflexivity.
  Qed.
  Lemma fa_ploop_run id ps bs : Forall is_lobj ps ->
    ex1 fa_ploop (EF id ps bs) [] = let '(id', L', fl) := ptr_fold sn_step ps id in GoEval.Ok (EF id' L' bs, [], fl).
  Proof.
    intros HL. unfold fa_ploop. rewrite exec1_forptr. fold fa_pbody.
    change (ev (Z.of_nat (List.length (@nil byte))) (EF id ps bs) (ESel (EId "f") "Params")) with (GoEval.Ok (VList ps)).
    cbn [place_of List.app]. cbv iota beta.
    apply (ptr_loop (in_scope fa_pbody) "param" "f" ["Params"] (fun L => funv fty ident frest L bs) (fun i L => EF i L bs) is_lobj
             (fun _ => True) sn_step [] ltac:(discriminate) ltac:(reflexivity) ltac:(reflexivity) ltac:(reflexivity)
             (set_elem_params bs)
             (fun i L a _ Ha => fa_pbody_run i L bs a Ha) ltac:(trivial) ps [] id I HL).
  Qed.
  Lemma fa_bloop_run id ps bs : Forall (is_block impl) bs ->
    ex1 fa_bloop (EF id ps bs) [] = let '(id', L', fl) := ptr_fold (step_block impl) bs id in GoEval.Ok (EF id' ps L', [], fl).
  Proof.
    intros HL. unfold fa_bloop. rewrite exec1_forptr. fold fa_bbody.
    change (ev (Z.of_nat (List.length (@nil byte))) (EF id ps bs) (ESel (EId "f") "Blocks")) with (GoEval.Ok (VList bs)).
    cbn [place_of List.app]. cbv iota beta.
    apply (ptr_loop (in_scope fa_bbody) "block" "f" ["Blocks"] (fun L => funv fty ident frest ps L) (fun i L => EF i ps L) (is_block impl)
             (fun _ => True) (step_block impl) [] ltac:(discriminate) ltac:(reflexivity) ltac:(reflexivity) ltac:(reflexivity)
             (set_elem_blocks ps)
             (fun i L a _ Ha => fa_bbody_run i ps L a Ha) ltac:(trivial) bs [] id I HL).
  Qed.

  (* the whole body *)
  Definition fa_model (ps bs : list val) : val * flow :=
    let '(id1, ps', fl1) := ptr_fold sn_step ps 0%Z in
    if halts fl1 then (funv fty ident frest ps' bs, fl1) else
    let '(id2, bs', fl2) := ptr_fold (step_block impl) bs id1 in
    if halts fl2 then (funv fty ident frest ps' bs', fl2) else (funv fty ident frest ps' bs', Ret VNil).
  Lemma fa_run ps bs : Forall is_lobj ps -> Forall (is_block impl) bs ->
    exists en, ex fa_body [("f", funv fty ident frest ps bs); ("types.Void", void_type)] [] =
      GoEval.Ok (en ++ [("f", fst (fa_model ps bs)); ("types.Void", void_type)], [], snd (fa_model ps bs)).
  Proof.
    intros Hps Hbs. unfold fa_body. rewrite exec_cons. cbn -[exec]. rewrite exec_cons. cbn -[exec]. rewrite exec_cons.
    change (SForPtr "_" "param" _ _) with fa_ploop.
    change [("setName", vfunc "AssignIDs$1"); ("id", VInt 0); ("f", funv fty ident frest ps bs); ("types.Void", void_type)]
      with (EF 0 ps bs).
    rewrite (fa_ploop_run 0 ps bs Hps). unfold fa_model.
    pose proof (ptr_fold_flow sn_step ps 0%Z) as Hfl.
    destruct (ptr_fold sn_step ps 0%Z) as [[id1 ps'] fl1].
    destruct Hfl as [-> | Hh].
    2: { rewrite Hh, (halts_stopped fl1 Hh). cbn [fst snd]. exists [("setName", vfunc "AssignIDs$1"); ("id", VInt id1)]. reflexivity. }
    cbn [stopped halts andb]. rewrite exec_cons. change (SForPtr "_" "block" _ _) with fa_bloop.
    rewrite (fa_bloop_run id1 ps' bs Hbs).
    pose proof (ptr_fold_flow (step_block impl) bs id1) as Hfl.
    destruct (ptr_fold (step_block impl) bs id1) as [[id2 bs'] fl2].
    destruct Hfl as [-> | Hh].
    2: { rewrite Hh, (halts_stopped fl2 Hh). cbn [fst snd]. exists [("setName", vfunc "AssignIDs$1"); ("id", VInt id2)]. reflexivity. }
    cbn. exists [("setName", vfunc "AssignIDs$1"); ("id", VInt id2)]. reflexivity.
  Qed.
End FuncBody.

(* ---- the walk against the model: entries of one or several items each ---- *)
Definition mk (n : bool) (id : Z) (v : bool) : NB.item := {| NB.it_named := n; NB.it_id := id; NB.it_value := v |}.
(* Numbering.assign, with the counter it ends on *)
Fixpoint assign_c (l : list NB.item) (id : Z) : option (list NB.item * Z) :=
  match l with
  | [] => Some ([], id)
  | x :: r =>
    if NB.it_value x && negb (NB.it_named x) then
      if negb (NB.it_id x =? 0)%Z && negb (id =? NB.it_id x)%Z then None
      else match assign_c r (id + 1)%Z with Some (r', k) => Some (NB.set_id x id :: r', k) | None => None end
    else match assign_c r id with Some (r', k) => Some (x :: r', k) | None => None end
  end.
Lemma assign_assign_c l : forall id, NB.assign l id = match assign_c l id with Some (l', _) => NB.Ok l' | None => NB.Err end.
Proof.
  induction l as [|x r IH]; intros id; cbn [NB.assign assign_c]; [reflexivity|].
  destruct (NB.it_value x && negb (NB.it_named x)).
  - destruct (negb (NB.it_id x =? 0)%Z && negb (id =? NB.it_id x)%Z); [reflexivity|].
    rewrite IH. destruct (assign_c r (id + 1)%Z) as [[r' k]|]; reflexivity.
  - rewrite IH. destruct (assign_c r id) as [[r' k]|]; reflexivity.
Qed.
Lemma assign_c_app l1 : forall l2 id,
  assign_c (l1 ++ l2) id =
  match assign_c l1 id with
  | Some (r1, k) => match assign_c l2 k with Some (r2, k') => Some (r1 ++ r2, k') | None => None end
  | None => None
  end.
Proof.
  induction l1 as [|x r IH]; intros l2 id; cbn [List.app assign_c].
  - destruct (assign_c l2 id) as [[r2 k']|]; reflexivity.
  - destruct (NB.it_value x && negb (NB.it_named x)).
    + destruct (negb (NB.it_id x =? 0)%Z && negb (id =? NB.it_id x)%Z); [reflexivity|].
      rewrite IH. destruct (assign_c r (id + 1)%Z) as [[r1 k]|]; [|reflexivity].
      destruct (assign_c l2 k) as [[r2 k']|]; reflexivity.
    + rewrite IH. destruct (assign_c r id) as [[r1 k]|]; [|reflexivity].
      destruct (assign_c l2 k) as [[r2 k']|]; reflexivity.
Qed.
Lemma assign_c_length l : forall id l' k, assign_c l id = Some (l', k) -> List.length l' = List.length l.
Proof.
  induction l as [|x r IH]; intros id l' k; cbn [assign_c].
  - intros [= <- _]. reflexivity.
  - destruct (NB.it_value x && negb (NB.it_named x)).
    + destruct (negb (NB.it_id x =? 0)%Z && negb (id =? NB.it_id x)%Z); [discriminate|].
      destruct (assign_c r (id + 1)%Z) as [[r' k']|] eqn:E; [|discriminate]. intros [= <- _]. cbn [List.length]. f_equal. eapply IH, E.
    + destruct (assign_c r id) as [[r' k']|] eqn:E; [|discriminate]. intros [= <- _]. cbn [List.length]. f_equal. eapply IH, E.
Qed.

(* the flags (named, value) of the items of an entry, in walk order, and the object it is with given stored IDs *)
Record entry := { e_flags : list (bool * bool); e_obj : list Z -> val }.
Definition e_size (e : entry) : nat := List.length (e_flags e).
Definition mk_items (fl : list (bool * bool)) (ids : list Z) : list NB.item :=
  map (fun p => mk (fst (fst p)) (snd p) (snd (fst p))) (combine fl ids).
Fixpoint objs (es : list entry) (ids : list Z) : list val :=
  match es with
  | [] => []
  | e :: r => e_obj e (firstn (e_size e) ids) :: objs r (skipn (e_size e) ids)
  end.
Definition all_flags (es : list entry) : list (bool * bool) := flat_map e_flags es.
Definition step_ok (step : Z -> val -> Z * val * flow) (e : entry) : Prop :=
  forall id ids, List.length ids = e_size e ->
  let '(id', a', fl) := step id (e_obj e ids) in
  match assign_c (mk_items (e_flags e) ids) id with
  | Some (l', k) => id' = k /\ a' = e_obj e (map NB.it_id l') /\ halts fl = false
  | None => fl = Ret an_error
  end.

Lemma combine_app {A B} (f1 : list A) : forall (f2 : list A) (ids : list B),
  combine (f1 ++ f2) ids = combine f1 (firstn (List.length f1) ids) ++ combine f2 (skipn (List.length f1) ids).
Proof.
  induction f1 as [|a r IH]; intros f2 ids; [reflexivity|].
  destruct ids as [|i ids]; cbn [List.app combine List.length firstn skipn]; [destruct f2; reflexivity|].
  rewrite IH. reflexivity.
Qed.
Lemma mk_items_app f1 f2 ids :
  mk_items (f1 ++ f2) ids = mk_items f1 (firstn (List.length f1) ids) ++ mk_items f2 (skipn (List.length f1) ids).
Proof. unfold mk_items. rewrite combine_app, map_app. reflexivity. Qed.
Lemma mk_items_length fl ids : List.length ids = List.length fl -> List.length (mk_items fl ids) = List.length fl.
Proof. intros H. unfold mk_items. rewrite map_length, combine_length. lia. Qed.

Lemma fold_entries step es : Forall (step_ok step) es -> forall ids id, List.length ids = List.length (all_flags es) ->
  let '(k', L', fl) := ptr_fold step (objs es ids) id in
  match assign_c (mk_items (all_flags es) ids) id with
  | Some (l', k) => k' = k /\ L' = objs es (map NB.it_id l') /\ fl = Run
  | None => fl = Ret an_error
  end.
Proof.
  induction 1 as [|e r He _ IH]; intros ids id Hl.
  - cbn. auto.
  - cbn [all_flags flat_map] in Hl |- *. fold (all_flags r) in Hl |- *. rewrite app_length in Hl.
    cbn [objs ptr_fold]. rewrite mk_items_app, assign_c_app. fold (e_size e) in *.
    assert (List.length (firstn (e_size e) ids) = e_size e) as L1 by (rewrite firstn_length; lia).
    assert (List.length (skipn (e_size e) ids) = List.length (all_flags r)) as L2 by (rewrite skipn_length; lia).
    specialize (He id (firstn (e_size e) ids) L1).
    destruct (step id (e_obj e (firstn (e_size e) ids))) as [[id1 a1] fl1].
    destruct (assign_c (mk_items (e_flags e) (firstn (e_size e) ids)) id) as [[l1 k1]|] eqn:E1.
    + destruct He as (-> & -> & ->).
      specialize (IH (skipn (e_size e) ids) k1 L2).
      destruct (ptr_fold step (objs r (skipn (e_size e) ids)) k1) as [[k2 L2'] fl2].
      destruct (assign_c (mk_items (all_flags r) (skipn (e_size e) ids)) k1) as [[l2 k2']|]; [|exact IH].
      destruct IH as (-> & -> & ->). split; [reflexivity|]. split; [|reflexivity].
      pose proof (assign_c_length _ _ _ _ E1) as Ll. rewrite mk_items_length in Ll by exact L1. fold (e_size e) in Ll.
      rewrite map_app, firstn_app, skipn_app, map_length, Ll, Nat.sub_diag.
      rewrite firstn_all2 by (rewrite map_length; lia). rewrite skipn_all2 by (rewrite map_length; lia).
      cbn [firstn skipn]. rewrite app_nil_r. reflexivity.
    + rewrite He. reflexivity.
Qed.

(* ---- the shape of a function: everything but the stored IDs ---- *)
Inductive ishape :=
| IOther (ty : string) (fs : list (string * val))                  (* an instruction that is not a namedVar (store, fence) *)
| INamed (sh : lshape) (tn : string) (tf : list (string * val)).   (* a namedVar; Type() is an object of type tn *)
Record bshape := { b_sh : lshape; b_insts : list ishape; b_term : ishape }.
Record fshape := { f_ty : string; f_ident : val; f_rest : list (string * val); f_params : list lshape; f_blocks : list bshape }.

Definition pent (sh : lshape) : entry :=
  {| e_flags := [(negb (ls_unnamed sh), true)]; e_obj := fun ids => lobj sh (hd 0%Z ids) |}.
Definition ient (s : ishape) : entry :=
  match s with
  | IOther ty fs => {| e_flags := [(false, false)]; e_obj := fun _ => VObj ty fs |}
  | INamed sh tn tf =>
    {| e_flags := [(negb (ls_unnamed sh), negb (String.eqb tn "types.VoidType"))]; e_obj := fun ids => nobj sh tn tf (hd 0%Z ids) |}
  end.
Definition bent (b : bshape) : entry :=
  {| e_flags := (negb (ls_unnamed (b_sh b)), true) :: all_flags (map ient (b_insts b)) ++ e_flags (ient (b_term b));
     e_obj := fun ids =>
       blockv (b_sh b) (hd 0%Z ids)
              (objs (map ient (b_insts b)) (firstn (List.length (all_flags (map ient (b_insts b)))) (tl ids)))
              (e_obj (ient (b_term b)) (skipn (List.length (all_flags (map ient (b_insts b)))) (tl ids))) |}.
Definition wf_ishape (impl : string -> string -> bool) (s : ishape) : Prop :=
  match s with
  | IOther ty _ => is_nv impl ty = false
  | INamed sh _ _ => wf_lshape sh /\ is_nv impl (ls_ty sh) = true
  end.
Definition wf_bshape (impl : string -> string -> bool) (b : bshape) : Prop :=
  wf_lshape (b_sh b) /\ Forall (wf_ishape impl) (b_insts b) /\ wf_ishape impl (b_term b).
Definition wf_fshape (impl : string -> string -> bool) (F : fshape) : Prop :=
  Forall wf_lshape (f_params F) /\ Forall (wf_bshape impl) (f_blocks F).
Definition func_flags (F : fshape) : list (bool * bool) := all_flags (map pent (f_params F)) ++ all_flags (map bent (f_blocks F)).
Definition func_obj (F : fshape) (ids : list Z) : val :=
  funv (f_ty F) (f_ident F) (f_rest F)
       (objs (map pent (f_params F)) (firstn (List.length (all_flags (map pent (f_params F)))) ids))
       (objs (map bent (f_blocks F)) (skipn (List.length (all_flags (map pent (f_params F)))) ids)).

(* one item *)
Lemma assign_c_one n idx v id :
  assign_c [mk n idx v] id =
  if v && negb n then if negb (idx =? 0)%Z && negb (id =? idx)%Z then None else Some ([mk n id v], (id + 1)%Z)
  else Some ([mk n idx v], id).
Proof. cbn. destruct (v && negb n); [destruct (negb (idx =? 0)%Z && negb (id =? idx)%Z)|]; reflexivity. Qed.

Lemma pent_ok sh : step_ok sn_step (pent sh).
Proof.
  intros id [|idx [|? ?]] Hl; try discriminate Hl. cbn [pent e_obj e_flags hd mk_items combine map fst snd].
  rewrite sn_step_lobj, assign_c_one. cbn [andb]. rewrite negb_involutive.
  destruct (ls_unnamed sh); [destruct (negb (idx =? 0)%Z && negb (id =? idx)%Z)|]; cbn; auto.
Qed.
Lemma sn_step_nobj sh tn tf idx id :
  sn_step id (nobj sh tn tf idx) =
  if ls_unnamed sh then
    if negb (idx =? 0)%Z && negb (id =? idx)%Z then (id, nobj sh tn tf idx, Ret an_error) else ((id + 1)%Z, nobj sh tn tf id, Run)
  else (id, nobj sh tn tf idx, Run).
Proof. reflexivity. Qed.
Lemma ient_ok impl s : wf_ishape impl s -> step_ok (step_inst impl) (ient s).
Proof.
  destruct s as [ty fs|sh tn tf]; intros Hwf id [|idx [|? ?]] Hl; try discriminate Hl.
  - cbn [ient e_obj e_flags hd mk_items combine map fst snd]. cbn in Hwf.
    unfold step_inst, in_value. rewrite Hwf. cbn. auto.
  - destruct Hwf as [Hwf Hnv]. cbn [ient e_obj e_flags hd mk_items combine map fst snd].
    rewrite step_inst_nobj, Hnv, assign_c_one. cbn [andb]. rewrite negb_involutive.
    destruct (negb (String.eqb tn "types.VoidType")); cbn [andb].
    + rewrite sn_step_nobj. destruct (ls_unnamed sh); [destruct (negb (idx =? 0)%Z && negb (id =? idx)%Z)|]; cbn; auto.
    + cbn. auto.
Qed.
Lemma ient_size s : e_size (ient s) = 1.
Proof. destruct s; reflexivity. Qed.
Lemma ient_is_inst impl s ids : wf_ishape impl s -> is_inst impl (e_obj (ient s) ids).
Proof.
  destruct s as [ty fs|sh tn tf]; cbn.
  - intros H. left. do 2 eexists. split; [exact H|reflexivity].
  - intros [H1 H2]. right. do 4 eexists. split; [exact H1|]. split; [exact H2|reflexivity].
Qed.
Lemma ients_are_insts impl ss : Forall (wf_ishape impl) ss -> forall ids, Forall (is_inst impl) (objs (map ient ss) ids).
Proof.
  induction 1 as [|s r Hs _ IH]; intros ids; cbn [map objs]; constructor; [apply ient_is_inst, Hs|apply IH].
Qed.

Lemma step_block_blockv impl id sh idx I T :
  step_block impl id (blockv sh idx I T) =
  let '(id1, a1, fl1) := sn_step id (blockv sh idx I T) in
  if halts fl1 then (id1, a1, fl1) else
  let '(id2, l2, fl2) := ptr_fold (step_inst impl) (blk_insts a1) id1 in
  if halts fl2 then (id2, blk_put a1 l2 (blk_term a1), fl2) else
  let '(id3, t3, fl3) := step_inst impl id2 (blk_term a1) in
  (id3, blk_put a1 l2 t3, fl3).
Proof. reflexivity. Qed.

Lemma bent_ok impl b : wf_bshape impl b -> step_ok (step_block impl) (bent b).
Proof.
  intros (Hsh & Hins & Hterm) id ids Hl.
  set (ients := map ient (b_insts b)) in *. set (ni := List.length (all_flags ients)) in *.
  assert (Forall (step_ok (step_inst impl)) ients) as Hoks.
  { unfold ients. clear -Hins. induction Hins as [|s r Hs _ IH]; cbn [map]; constructor; [apply ient_ok, Hs|exact IH]. }
  pose proof (ient_ok impl (b_term b) Hterm) as Hokt.
  unfold e_size in Hl. cbn [bent e_flags] in Hl. fold ients in Hl. cbn [List.length] in Hl. rewrite app_length in Hl. fold ni in Hl.
  fold (e_size (ient (b_term b))) in Hl. rewrite ient_size in Hl.
  destruct ids as [|idx rest]; [discriminate Hl|]. cbn [List.length] in Hl.
  cbn [bent e_obj e_flags hd tl]. fold ients. fold ni.
  set (ids_i := firstn ni rest). set (ids_t := skipn ni rest).
  assert (List.length ids_i = List.length (all_flags ients)) as Li by (unfold ids_i; rewrite firstn_length; fold ni; lia).
  assert (List.length ids_t = e_size (ient (b_term b))) as Lt by (unfold ids_t; rewrite skipn_length, ient_size; lia).
  change ((negb (ls_unnamed (b_sh b)), true) :: all_flags ients ++ e_flags (ient (b_term b)))
    with ([(negb (ls_unnamed (b_sh b)), true)] ++ (all_flags ients ++ e_flags (ient (b_term b)))).
  rewrite mk_items_app, assign_c_app. cbn [List.length firstn skipn].
  change (mk_items [(negb (ls_unnamed (b_sh b)), true)] [idx]) with [mk (negb (ls_unnamed (b_sh b))) idx true].
  rewrite assign_c_one. cbn [andb]. rewrite negb_involutive.
  rewrite step_block_blockv. unfold blockv at 1. rewrite sn_step_lobj.
  change (ls_unnamed (add_fields (b_sh b) [("Insts", VList (objs ients ids_i)); ("Term", e_obj (ient (b_term b)) ids_t)])) with (ls_unnamed (b_sh b)).
  assert (forall id1 idx1,
    let '(id', a', fl) :=
      (let '(id2, l2, fl2) := ptr_fold (step_inst impl) (blk_insts (blockv (b_sh b) idx1 (objs ients ids_i) (e_obj (ient (b_term b)) ids_t))) id1 in
       if halts fl2 then (id2, blk_put (blockv (b_sh b) idx1 (objs ients ids_i) (e_obj (ient (b_term b)) ids_t)) l2
                                 (blk_term (blockv (b_sh b) idx1 (objs ients ids_i) (e_obj (ient (b_term b)) ids_t))), fl2) else
       let '(id3, t3, fl3) := step_inst impl id2 (blk_term (blockv (b_sh b) idx1 (objs ients ids_i) (e_obj (ient (b_term b)) ids_t))) in
       (id3, blk_put (blockv (b_sh b) idx1 (objs ients ids_i) (e_obj (ient (b_term b)) ids_t)) l2 t3, fl3)) in
    match (match assign_c (mk_items (all_flags ients) ids_i) id1 with
           | Some (r1, k) => match assign_c (mk_items (e_flags (ient (b_term b))) ids_t) k with Some (r2, k') => Some (r1 ++ r2, k') | None => None end
           | None => None end) with
    | Some (l', k) => id' = k /\ a' = blockv (b_sh b) idx1 (objs ients (firstn ni (map NB.it_id l'))) (e_obj (ient (b_term b)) (skipn ni (map NB.it_id l'))) /\ halts fl = false
    | None => fl = Ret an_error
    end) as Rest.
  { intros id1 idx1.
    change (blk_insts (blockv (b_sh b) idx1 (objs ients ids_i) (e_obj (ient (b_term b)) ids_t))) with (objs ients ids_i).
    change (blk_term (blockv (b_sh b) idx1 (objs ients ids_i) (e_obj (ient (b_term b)) ids_t))) with (e_obj (ient (b_term b)) ids_t).
    pose proof (fold_entries (step_inst impl) ients Hoks ids_i id1 Li) as F.
    destruct (ptr_fold (step_inst impl) (objs ients ids_i) id1) as [[id2 l2] fl2].
    destruct (assign_c (mk_items (all_flags ients) ids_i) id1) as [[r1 k1]|] eqn:E1.
    2: { rewrite F. reflexivity. }
    destruct F as (-> & -> & ->). cbn [halts stopped andb].
    pose proof (Hokt k1 ids_t Lt) as T.
    destruct (step_inst impl k1 (e_obj (ient (b_term b)) ids_t)) as [[id3 t3] fl3].
    destruct (assign_c (mk_items (e_flags (ient (b_term b))) ids_t) k1) as [[r2 k2]|]; [|exact T].
    destruct T as (-> & -> & T). split; [reflexivity|]. split; [|exact T].
    pose proof (assign_c_length _ _ _ _ E1) as Ll. rewrite mk_items_length in Ll by exact Li. fold ni in Ll.
    rewrite map_app, firstn_app, skipn_app, map_length, Ll, Nat.sub_diag.
    rewrite firstn_all2 by (rewrite map_length; lia). rewrite skipn_all2 by (rewrite map_length; lia).
    cbn [firstn skipn]. rewrite app_nil_r. reflexivity. }
  destruct (ls_unnamed (b_sh b)).
  - destruct (negb (idx =? 0)%Z && negb (id =? idx)%Z); [reflexivity|]. cbn [halts stopped andb]. cbv iota beta.
    rewrite mk_items_app, assign_c_app. fold ni ids_i ids_t.
    specialize (Rest (id + 1)%Z id). unfold blockv in Rest at 1 2 3 4 5.
    match type of Rest with match ?X with _ => _ end => destruct X as [[id' a'] fl] end.
    match type of Rest with match ?X with _ => _ end => destruct X as [[l' k]|] end; [|exact Rest].
    destruct Rest as (-> & -> & R). split; [reflexivity|]. split; [|exact R]. reflexivity.
  - cbn [halts stopped andb]. cbv iota beta.
    rewrite mk_items_app, assign_c_app. fold ni ids_i ids_t.
    specialize (Rest id idx). unfold blockv in Rest at 1 2 3 4 5.
    match type of Rest with match ?X with _ => _ end => destruct X as [[id' a'] fl] end.
    match type of Rest with match ?X with _ => _ end => destruct X as [[l' k]|] end; [|exact Rest].
    destruct Rest as (-> & -> & R). split; [reflexivity|]. split; [|exact R]. reflexivity.
Qed.

Lemma pents_are_lobjs ps : Forall wf_lshape ps -> forall ids, Forall is_lobj (objs (map pent ps) ids).
Proof.
  induction 1 as [|s r Hs _ IH]; intros ids; cbn [map objs]; constructor; [|apply IH].
  exists s, (hd 0%Z (firstn (e_size (pent s)) ids)). split; [exact Hs|reflexivity].
Qed.
Lemma bents_are_blocks impl bs : Forall (wf_bshape impl) bs -> forall ids, Forall (is_block impl) (objs (map bent bs) ids).
Proof.
  induction 1 as [|b r Hb _ IH]; intros ids; cbn [map objs]; constructor; [|apply IH].
  destruct Hb as (H1 & H2 & H3). cbn [bent e_obj]. do 4 eexists. split; [exact H1|]. split; [apply ients_are_insts, H2|].
  split; [apply ient_is_inst, H3|reflexivity].
Qed.

Section LocalCalls.
  Variable impl : string -> string -> bool.
  Variable g : env.
  Variable d : nat.
  Notation C := (call_table_obj idpass_bodies impl g (S d)).
  Lemma obj_id_l sh idx : wf_lshape sh -> C (ls_ty sh) "ID" (lobj sh idx) = GoEval.Ok (VInt idx).
  Proof.
    intros (H0 & H1 & H2 & H3). rewrite call_table_obj_S, find_in_none, (eqb_empty _ H0) by reflexivity.
    unfold lobj, obj_method. cbn. unfold id_field. cbn. rewrite H3. reflexivity.
  Qed.
  Lemma obj_un_l sh idx : wf_lshape sh -> C (ls_ty sh) "IsUnnamed" (lobj sh idx) = GoEval.Ok (VBool (ls_unnamed sh)).
  Proof.
    intros (H0 & H1 & H2 & H3). rewrite call_table_obj_S, find_in_none, (eqb_empty _ H0) by reflexivity. reflexivity.
  Qed.
  Lemma obj_setid_l sh idx id : wf_lshape sh -> C (ls_ty sh) "SetID" (VTuple [lobj sh idx; VInt id]) = GoEval.Ok (lobj sh id).
  Proof.
    intros (H0 & H1 & H2 & H3). rewrite call_table_obj_S, find_in_none, (eqb_empty _ H0) by reflexivity.
    unfold lobj, obj_method. cbn. unfold id_field. cbn. rewrite H3. reflexivity.
  Qed.
  Lemma lib_types_equal tn tf : C "" "types.Equal" (VTuple [VObj tn tf; void_type]) = GoEval.Ok (VBool (String.eqb tn "types.VoidType")).
  Proof. reflexivity. Qed.
End LocalCalls.

Lemma find_set_name : find_in idpass_bodies "" "AssignIDs$1"
  = Some {| p_pkg := "ir"; p_type := ""; p_method := "AssignIDs$1"; p_recv := "n,id,f"; p_body := sn_body |}.
Proof. reflexivity. Qed.
Lemma set_name_at impl d sh idx id fty ident frest ps bs : wf_lshape sh ->
  call_table_obj idpass_bodies impl ids_env (S (S d)) "" "AssignIDs$1" (VTuple [lobj sh idx; VInt id; funv fty ident frest ps bs])
  = GoEval.Ok (sn_res sh idx id).
Proof.
  intros Hwf. rewrite call_table_obj_S, find_set_name. unfold run_body. cbn [p_recv p_body].
  change (split_commas "n,id,f") with ["n"; "id"; "f"]. cbn [combine].
  destruct (sn_run impl (call_table_obj idpass_bodies impl ids_env (S d)) (obj_id_l impl _ d) (obj_un_l impl _ d) (obj_setid_l impl _ d)
              sh idx id fty ident frest ps bs Hwf) as [en Hen].
  rewrite Hen. reflexivity.
Qed.
Lemma find_assign_ids : find_in idpass_bodies "ir.Func" "AssignIDs"
  = Some {| p_pkg := "ir"; p_type := "ir.Func"; p_method := "AssignIDs"; p_recv := "f"; p_body := fa_body |}.
Proof. reflexivity. Qed.

(* (b) Running the regenerated Func.AssignIDs on a function of any shape F -- parameters, blocks, instructions and
   terminators of any types and names, instructions that are not namedVars, namedVars of void type -- whose
   stored local IDs are ids (in walk order, one per entry; an entry that is not a namedVar has one too, which nothing
   reads) leaves the function with the IDs the model Numbering.assign_ids computes for the items of the walk and
   returns nil; when the model reports an error, so does the code (the function is then as the walk left it). *)
Theorem generated_assign_ids_is_model :
  forall (impl : string -> string -> bool) (F : fshape) (ids : list Z) (depth : nat),
  wf_fshape impl F -> List.length ids = List.length (func_flags F) -> 2 <= depth ->
  match NB.assign_ids (mk_items (func_flags F) ids) with
  | NB.Ok l' => run_idpass impl ids_env depth "ir.Func" "AssignIDs" (func_obj F ids) = GoEval.Ok (func_obj F (map NB.it_id l'), VNil)
  | NB.Err => exists f', run_idpass impl ids_env depth "ir.Func" "AssignIDs" (func_obj F ids) = GoEval.Ok (f', an_error)
  end.
Proof.
  intros impl F ids depth [Hps Hbs] Hl Hd. destruct depth as [|[|d]]; try lia.
  set (pents := map pent (f_params F)) in *. set (bents := map bent (f_blocks F)) in *.
  unfold func_flags in Hl |- *. fold pents bents in Hl |- *. rewrite app_length in Hl.
  set (np := List.length (all_flags pents)) in *.
  assert (List.length (firstn np ids) = List.length (all_flags pents)) as L1 by (rewrite firstn_length; fold np; lia).
  assert (List.length (skipn np ids) = List.length (all_flags bents)) as L2 by (rewrite skipn_length; lia).
  assert (Forall (step_ok sn_step) pents) as Okp.
  { unfold pents. clear. induction (f_params F) as [|s r IH]; cbn [map]; constructor; [apply pent_ok|exact IH]. }
  assert (Forall (step_ok (step_block impl)) bents) as Okb.
  { unfold bents. clear -Hbs. induction Hbs as [|b r Hb _ IH]; cbn [map]; constructor; [apply bent_ok, Hb|exact IH]. }
  assert (forall v,
            snd (fa_model impl (f_ty F) (f_ident F) (f_rest F) (objs pents (firstn np ids)) (objs bents (skipn np ids))) = Ret v ->
            run_idpass impl ids_env (S (S d)) "ir.Func" "AssignIDs" (func_obj F ids) =
            GoEval.Ok (fst (fa_model impl (f_ty F) (f_ident F) (f_rest F) (objs pents (firstn np ids)) (objs bents (skipn np ids))), v)) as Hrun.
  { intros v Hv.
    unfold run_idpass. rewrite find_assign_ids. unfold func_obj. fold pents bents np.
    destruct (fa_run impl (call_table_obj idpass_bodies impl ids_env (S (S d))) (f_ty F) (f_ident F) (f_rest F)
                (fun sh idx id ps bs H => set_name_at impl d sh idx id _ _ _ ps bs H) (lib_types_equal impl _ _)
                (objs pents (firstn np ids)) (objs bents (skipn np ids))
                (pents_are_lobjs _ Hps _) (bents_are_blocks impl _ Hbs _)) as [en Hen].
    rewrite Hv in Hen. apply (run_method_recv _ _ _ _ _ "f" en); try reflexivity. exact Hen. }
  unfold NB.assign_ids. rewrite assign_assign_c, mk_items_app, assign_c_app. fold np.
  unfold fa_model in Hrun.
  pose proof (fold_entries sn_step pents Okp (firstn np ids) 0%Z L1) as F1.
  destruct (ptr_fold sn_step (objs pents (firstn np ids)) 0%Z) as [[id1 ps'] fl1].
  destruct (assign_c (mk_items (all_flags pents) (firstn np ids)) 0%Z) as [[l1 k1]|] eqn:E1.
  2: { rewrite F1 in Hrun. eexists. apply Hrun. reflexivity. }
  destruct F1 as (-> & -> & ->). cbn [halts stopped andb] in Hrun.
  pose proof (fold_entries (step_block impl) bents Okb (skipn np ids) k1 L2) as F2.
  destruct (ptr_fold (step_block impl) (objs bents (skipn np ids)) k1) as [[id2 bs'] fl2].
  destruct (assign_c (mk_items (all_flags bents) (skipn np ids)) k1) as [[l2 k2]|].
  2: { rewrite F2 in Hrun. eexists. apply Hrun. reflexivity. }
  destruct F2 as (-> & -> & ->). cbn [halts stopped andb fst snd] in Hrun.
  rewrite (Hrun VNil eq_refl).
  pose proof (assign_c_length _ _ _ _ E1) as Ll. rewrite mk_items_length in Ll by exact L1. fold np in Ll.
  unfold func_obj. fold pents bents np.
  rewrite map_app, firstn_app, skipn_app, map_length, Ll, Nat.sub_diag.
  rewrite firstn_all2 by (rewrite map_length; lia). rewrite skipn_all2 by (rewrite map_length; lia).
  cbn [firstn skipn]. rewrite app_nil_r. reflexivity.
Qed.
Print Assumptions generated_assign_ids_is_model.

(* ================= Module.AssignGlobalIDs ================= *)
(* an object with an embedded GlobalIdent first (a global variable, an alias, an ifunc, a function) *)
Definition gobj (sh : lshape) (id : Z) : val :=
  VObj (ls_ty sh) (("GlobalName", VStr (ls_name sh)) :: ("GlobalID", VInt id) :: ls_rest sh).
Definition wf_gshape (sh : lshape) : Prop :=
  ls_ty sh <> "" /\ lookup "ID()" (ls_rest sh) = None /\ lookup "IsUnnamed()" (ls_rest sh) = None /\
  lookup "MetadataID" (ls_rest sh) = None /\ lookup "LocalID" (ls_rest sh) = None /\ lookup "LocalName" (ls_rest sh) = None.
Definition modg (mty : string) (mrest : list (string * val)) (gs als ifs fs : list val) : val :=
  VObj mty (("Globals", VList gs) :: ("Aliases", VList als) :: ("IFuncs", VList ifs) :: ("Funcs", VList fs) :: mrest).
Definition gn_res (sh : lshape) (idx id : Z) : val :=
  if ls_unnamed sh then
    if negb (idx =? 0)%Z && negb (id =? idx)%Z then VTuple [an_error; gobj sh idx; VInt id]
    else VTuple [VNil; gobj sh id; VInt (id + 1)]
  else VTuple [VNil; gobj sh idx; VInt id].
Definition is_gobj (a : val) : Prop := exists sh idx, wf_gshape sh /\ a = gobj sh idx.
Lemma sn_step_gobj sh idx id :
  sn_step id (gobj sh idx) =
  if ls_unnamed sh then
    if negb (idx =? 0)%Z && negb (id =? idx)%Z then (id, gobj sh idx, Ret an_error) else ((id + 1)%Z, gobj sh id, Run)
  else (id, gobj sh idx, Run).
Proof. reflexivity. Qed.

Section GlobalName.
  Variable call : string -> string -> val -> res val.
  Notation ex := (exec no_impl call).
  Hypothesis Hid : forall sh idx, wf_gshape sh -> call (ls_ty sh) "ID" (gobj sh idx) = GoEval.Ok (VInt idx).
  Hypothesis Hun : forall sh idx, wf_gshape sh -> call (ls_ty sh) "IsUnnamed" (gobj sh idx) = GoEval.Ok (VBool (ls_unnamed sh)).
  Hypothesis Hset : forall sh idx id, wf_gshape sh -> call (ls_ty sh) "SetID" (VTuple [gobj sh idx; VInt id]) = GoEval.Ok (gobj sh id).
  Definition gn_body := Eval vm_compute in body_of "" "AssignGlobalIDs$1".
  Lemma gn_run sh idx id : wf_gshape sh ->
    exists en, ex gn_body [("n", gobj sh idx); ("id", VInt id)] [] = GoEval.Ok (en, [], Ret (gn_res sh idx id)).
  Proof.
    intros Hwf. pose proof Hwf as (Hty & H1 & H2 & H3 & H4 & H5). destruct sh as [ty name rest]. cbn [ls_ty ls_name ls_rest] in *.
    unfold gn_body, gn_res, ls_unnamed. cbn [ls_name].
    specialize (Hid _ idx Hwf). specialize (Hun _ idx Hwf). pose proof (fun id => Hset _ idx id Hwf) as Hs. clear Hset.
    unfold gobj, ls_unnamed in *. cbn [ls_ty ls_name ls_rest] in *.
    cbn. rewrite H2, Hun. cbn. destruct (Nat.eqb (List.length name) 0); cbn; [|eexists; reflexivity].
    rewrite H1, Hid. cbn. rewrite (Z.eqb_sym idx 0).
    destruct (0 =? idx)%Z eqn:E0; cbn.
    - rewrite ?H1, ?Hid. cbn. rewrite ?(Z.eqb_sym idx id). destruct (id =? idx)%Z eqn:E1; cbn.
      + apply Z.eqb_eq in E1. subst idx. eexists; reflexivity.
      + rewrite Hs. cbn. eexists; reflexivity.
    - rewrite ?H1, ?Hid. cbn. destruct (id =? idx)%Z eqn:E1; cbn.
      + rewrite ?H1, ?Hid. cbn. rewrite ?(Z.eqb_sym idx id), ?E1. cbn. apply Z.eqb_eq in E1. subst idx. eexists; reflexivity.
      + rewrite ?H1, ?Hid. cbn. eexists; reflexivity.
  Qed.
End GlobalName.

Section GlobalBody.
  Variable call : string -> string -> val -> res val.
  Notation ev := (eval no_impl call).
  Notation ex := (exec no_impl call).
  Notation ex1 := (exec1 no_impl call).
  Notation in_scope := (in_scope no_impl call).
  Variable mty : string.
  Variable mrest : list (string * val).
  Hypothesis Hgn : forall sh idx id, wf_gshape sh ->
    call "" "AssignGlobalIDs$1" (VTuple [gobj sh idx; VInt id]) = GoEval.Ok (gn_res sh idx id).
  Definition ga_body := Eval vm_compute in body_of "ir.Module" "AssignGlobalIDs".
  Definition ga_loop (k : nat) : gstmt := nth k ga_body SStop.
  Definition ga_lbody : list gstmt := Eval vm_compute in match nth 2 ga_body SStop with SForPtr _ _ _ b => b | _ => [] end.
  Definition EG (id : Z) (gs als ifs fs : list val) : env :=
    [("setName", vfunc "AssignGlobalIDs$1"); ("id", VInt id); ("m", modg mty mrest gs als ifs fs)].
  Lemma ga_lbody_run id gs als ifs fs a : is_gobj a ->
    in_scope ga_lbody (("n", a) :: EG id gs als ifs fs) [] =
    let '(id1, a1, fl) := sn_step id a in GoEval.Ok (("n", a1) :: EG id1 gs als ifs fs, [], fl).
  Proof.
    intros (sh & idx & Hwf & ->). rewrite sn_step_gobj.
    unfold IdPassRefinement.in_scope, ga_lbody, EG. cbn. rewrite (Hgn sh idx id Hwf). unfold gn_res.
    destruct (ls_unnamed sh); [destruct (negb (idx =? 0)%Z && negb (id =? idx)%Z)|]; cbn; reflexivity.
  Qed.
  Ltac set_elem_tac :=
    unfold modg; cbn;
    match goal with |- context [Nat.ltb (List.length ?d) (List.length (?d ++ ?a :: ?r))] =>
      assert (Nat.ltb (List.length d) (List.length (d ++ a :: r)) = true) as ->
        by (apply Nat.ltb_lt; rewrite app_length; cbn [List.length]; lia) end;
    rewrite replace_mid; reflexivity.
  Lemma set_elem_g1 als ifs fs done a r a' :
    set_elem ["Globals"] (List.length done) a' (modg mty mrest (done ++ a :: r) als ifs fs) = GoEval.Ok (modg mty mrest (done ++ a' :: r) als ifs fs).
  Proof. set_elem_tac. Qed.
  Lemma set_elem_g2 gs ifs fs done a r a' :
    set_elem ["Aliases"] (List.length done) a' (modg mty mrest gs (done ++ a :: r) ifs fs) = GoEval.Ok (modg mty mrest gs (done ++ a' :: r) ifs fs).
  Proof. set_elem_tac. Qed.
  Lemma set_elem_g3 gs als fs done a r a' :
    set_elem ["IFuncs"] (List.length done) a' (modg mty mrest gs als (done ++ a :: r) fs) = GoEval.Ok (modg mty mrest gs als (done ++ a' :: r) fs).
  Proof. set_elem_tac. Qed.
  Lemma set_elem_g4 gs als ifs done a r a' :
    set_elem ["Funcs"] (List.length done) a' (modg mty mrest gs als ifs (done ++ a :: r)) = GoEval.Ok (modg mty mrest gs als ifs (done ++ a' :: r)).
  Proof. set_elem_tac. Qed.

  Lemma ga_loop1_run id gs als ifs fs : Forall is_gobj gs ->
    ex1 (ga_loop 2) (EG id gs als ifs fs) [] = let '(id', L', fl) := ptr_fold sn_step gs id in GoEval.Ok (EG id' L' als ifs fs, [], fl).
  Proof.
    intros HL. unfold ga_loop, ga_body. cbn [nth]. rewrite exec1_forptr. fold ga_lbody.
    change (ev (Z.of_nat (List.length (@nil byte))) (EG id gs als ifs fs) (ESel (EId "m") "Globals")) with (GoEval.Ok (VList gs)).
    cbn [place_of List.app]. cbv iota beta.
    apply (ptr_loop (in_scope ga_lbody) "n" "m" ["Globals"] (fun L => modg mty mrest L als ifs fs) (fun i L => EG i L als ifs fs) is_gobj
             (fun _ => True) sn_step [] ltac:(discriminate) ltac:(reflexivity) ltac:(reflexivity) ltac:(reflexivity)
             (set_elem_g1 als ifs fs)
             (fun i L a _ Ha => ga_lbody_run i L als ifs fs a Ha) ltac:(trivial) gs [] id I HL).
  Qed.
  Lemma ga_loop2_run id gs als ifs fs : Forall is_gobj als ->
    ex1 (ga_loop 3) (EG id gs als ifs fs) [] = let '(id', L', fl) := ptr_fold sn_step als id in GoEval.Ok (EG id' gs L' ifs fs, [], fl).
  Proof.
    intros HL. unfold ga_loop, ga_body. cbn [nth]. rewrite exec1_forptr. fold ga_lbody.
    change (ev (Z.of_nat (List.length (@nil byte))) (EG id gs als ifs fs) (ESel (EId "m") "Aliases")) with (GoEval.Ok (VList als)).
    cbn [place_of List.app]. cbv iota beta.
    apply (ptr_loop (in_scope ga_lbody) "n" "m" ["Aliases"] (fun L => modg mty mrest gs L ifs fs) (fun i L => EG i gs L ifs fs) is_gobj
             (fun _ => True) sn_step [] ltac:(discriminate) ltac:(reflexivity) ltac:(reflexivity) ltac:(reflexivity)
             (set_elem_g2 gs ifs fs)
             (fun i L a _ Ha => ga_lbody_run i gs L ifs fs a Ha) ltac:(trivial) als [] id I HL).
  Qed.
  Lemma ga_loop3_run id gs als ifs fs : Forall is_gobj ifs ->
    ex1 (ga_loop 4) (EG id gs als ifs fs) [] = let '(id', L', fl) := ptr_fold sn_step ifs id in GoEval.Ok (EG id' gs als L' fs, [], fl).
  Proof.
    intros HL. unfold ga_loop, ga_body. cbn [nth]. rewrite exec1_forptr. fold ga_lbody.
    change (ev (Z.of_nat (List.length (@nil byte))) (EG id gs als ifs fs) (ESel (EId "m") "IFuncs")) with (GoEval.Ok (VList ifs)).
    cbn [place_of List.app]. cbv iota beta.
    apply (ptr_loop (in_scope ga_lbody) "n" "m" ["IFuncs"] (fun L => modg mty mrest gs als L fs) (fun i L => EG i gs als L fs) is_gobj
             (fun _ => True) sn_step [] ltac:(discriminate) ltac:(reflexivity) ltac:(reflexivity) ltac:(reflexivity)
             (set_elem_g3 gs als fs)
             (fun i L a _ Ha => ga_lbody_run i gs als L fs a Ha) ltac:(trivial) ifs [] id I HL).
  Qed.
  Lemma ga_loop4_run id gs als ifs fs : Forall is_gobj fs ->
    ex1 (ga_loop 5) (EG id gs als ifs fs) [] = let '(id', L', fl) := ptr_fold sn_step fs id in GoEval.Ok (EG id' gs als ifs L', [], fl).
  Proof.
    intros HL. unfold ga_loop, ga_body. cbn [nth]. rewrite exec1_forptr. fold ga_lbody.
    change (ev (Z.of_nat (List.length (@nil byte))) (EG id gs als ifs fs) (ESel (EId "m") "Funcs")) with (GoEval.Ok (VList fs)).
    cbn [place_of List.app]. cbv iota beta.
    apply (ptr_loop (in_scope ga_lbody) "n" "m" ["Funcs"] (fun L => modg mty mrest gs als ifs L) (fun i L => EG i gs als ifs L) is_gobj
             (fun _ => True) sn_step [] ltac:(discriminate) ltac:(reflexivity) ltac:(reflexivity) ltac:(reflexivity)
             (set_elem_g4 gs als ifs)
             (fun i L a _ Ha => ga_lbody_run i gs als ifs L a Ha) ltac:(trivial) fs [] id I HL).
  Qed.

  (* the four loops in sequence: one walk over the concatenation, as far as the counter and the flow go *)
  Definition ga_model (gs als ifs fs : list val) : val * flow :=
    let '(id1, gs', fl1) := ptr_fold sn_step gs 0%Z in
    if halts fl1 then (modg mty mrest gs' als ifs fs, fl1) else
    let '(id2, als', fl2) := ptr_fold sn_step als id1 in
    if halts fl2 then (modg mty mrest gs' als' ifs fs, fl2) else
    let '(id3, ifs', fl3) := ptr_fold sn_step ifs id2 in
    if halts fl3 then (modg mty mrest gs' als' ifs' fs, fl3) else
    let '(id4, fs', fl4) := ptr_fold sn_step fs id3 in
    if halts fl4 then (modg mty mrest gs' als' ifs' fs', fl4) else (modg mty mrest gs' als' ifs' fs', Ret VNil).
  Lemma ga_run gs als ifs fs : Forall is_gobj gs -> Forall is_gobj als -> Forall is_gobj ifs -> Forall is_gobj fs ->
    exists en, ex ga_body [("m", modg mty mrest gs als ifs fs)] [] =
      GoEval.Ok (en ++ [("m", fst (ga_model gs als ifs fs))], [], snd (ga_model gs als ifs fs)).
  Proof.
    intros H1 H2 H3 H4. unfold ga_body. rewrite exec_cons. cbn -[exec]. rewrite exec_cons. cbn -[exec]. rewrite exec_cons.
    change (SForPtr "_" "n" (ESel (EId "m") "Globals") _) with (ga_loop 2).
    change [("setName", vfunc "AssignGlobalIDs$1"); ("id", VInt 0); ("m", modg mty mrest gs als ifs fs)] with (EG 0 gs als ifs fs).
    rewrite (ga_loop1_run 0 gs als ifs fs H1). unfold ga_model.
    pose proof (ptr_fold_flow sn_step gs 0%Z) as Hfl. destruct (ptr_fold sn_step gs 0%Z) as [[id1 gs'] fl1].
    destruct Hfl as [-> | Hh].
    2: { rewrite Hh, (halts_stopped fl1 Hh). cbn [fst snd]. exists [("setName", vfunc "AssignGlobalIDs$1"); ("id", VInt id1)]. reflexivity. }
    cbn [stopped halts andb]. rewrite exec_cons. change (SForPtr "_" "n" (ESel (EId "m") "Aliases") _) with (ga_loop 3).
    rewrite (ga_loop2_run id1 gs' als ifs fs H2).
    pose proof (ptr_fold_flow sn_step als id1) as Hfl. destruct (ptr_fold sn_step als id1) as [[id2 als'] fl2].
    destruct Hfl as [-> | Hh].
    2: { rewrite Hh, (halts_stopped fl2 Hh). cbn [fst snd]. exists [("setName", vfunc "AssignGlobalIDs$1"); ("id", VInt id2)]. reflexivity. }
    cbn [stopped halts andb]. rewrite exec_cons. change (SForPtr "_" "n" (ESel (EId "m") "IFuncs") _) with (ga_loop 4).
    rewrite (ga_loop3_run id2 gs' als' ifs fs H3).
    pose proof (ptr_fold_flow sn_step ifs id2) as Hfl. destruct (ptr_fold sn_step ifs id2) as [[id3 ifs'] fl3].
    destruct Hfl as [-> | Hh].
    2: { rewrite Hh, (halts_stopped fl3 Hh). cbn [fst snd]. exists [("setName", vfunc "AssignGlobalIDs$1"); ("id", VInt id3)]. reflexivity. }
    cbn [stopped halts andb]. rewrite exec_cons. change (SForPtr "_" "n" (ESel (EId "m") "Funcs") _) with (ga_loop 5).
    rewrite (ga_loop4_run id3 gs' als' ifs' fs H4).
    pose proof (ptr_fold_flow sn_step fs id3) as Hfl. destruct (ptr_fold sn_step fs id3) as [[id4 fs'] fl4].
    destruct Hfl as [-> | Hh].
    2: { rewrite Hh, (halts_stopped fl4 Hh). cbn [fst snd]. exists [("setName", vfunc "AssignGlobalIDs$1"); ("id", VInt id4)]. reflexivity. }
    cbn. exists [("setName", vfunc "AssignGlobalIDs$1"); ("id", VInt id4)]. reflexivity.
  Qed.
End GlobalBody.

Definition gent (sh : lshape) : entry :=
  {| e_flags := [(negb (ls_unnamed sh), true)]; e_obj := fun ids => gobj sh (hd 0%Z ids) |}.
Lemma gent_ok sh : step_ok sn_step (gent sh).
Proof.
  intros id [|idx [|? ?]] Hl; try discriminate Hl. cbn [gent e_obj e_flags hd mk_items combine map fst snd].
  rewrite sn_step_gobj, assign_c_one. cbn [andb]. rewrite negb_involutive.
  destruct (ls_unnamed sh); [destruct (negb (idx =? 0)%Z && negb (id =? idx)%Z)|]; cbn; auto.
Qed.
Lemma gents_ok shs : Forall (step_ok sn_step) (map gent shs).
Proof. induction shs as [|s r IH]; cbn [map]; constructor; [apply gent_ok|exact IH]. Qed.
Lemma gents_are_gobjs shs : Forall wf_gshape shs -> forall ids, Forall is_gobj (objs (map gent shs) ids).
Proof.
  induction 1 as [|s r Hs _ IH]; intros ids; cbn [map objs]; constructor; [|apply IH].
  exists s, (hd 0%Z (firstn (e_size (gent s)) ids)). split; [exact Hs|reflexivity].
Qed.

Record mshape := { m_ty : string; m_rest : list (string * val); m_globals : list lshape; m_aliases : list lshape;
                   m_ifuncs : list lshape; m_funcs : list lshape }.
Definition wf_mshape (M : mshape) : Prop :=
  Forall wf_gshape (m_globals M) /\ Forall wf_gshape (m_aliases M) /\ Forall wf_gshape (m_ifuncs M) /\ Forall wf_gshape (m_funcs M).
Definition gflags (shs : list lshape) : list (bool * bool) := all_flags (map gent shs).
(* the order of the walk: global variables, aliases, ifuncs, functions *)
Definition mod_flags (M : mshape) : list (bool * bool) :=
  gflags (m_globals M) ++ gflags (m_aliases M) ++ gflags (m_ifuncs M) ++ gflags (m_funcs M).
Definition mod_obj (M : mshape) (ids : list Z) : val :=
  let n1 := List.length (gflags (m_globals M)) in
  let n2 := List.length (gflags (m_aliases M)) in
  let n3 := List.length (gflags (m_ifuncs M)) in
  modg (m_ty M) (m_rest M)
       (objs (map gent (m_globals M)) (firstn n1 ids))
       (objs (map gent (m_aliases M)) (firstn n2 (skipn n1 ids)))
       (objs (map gent (m_ifuncs M)) (firstn n3 (skipn n2 (skipn n1 ids))))
       (objs (map gent (m_funcs M)) (skipn n3 (skipn n2 (skipn n1 ids)))).

Section GlobalCalls.
  Variable d : nat.
  Notation C := (call_table_obj idpass_bodies no_impl [] (S d)).
  Lemma obj_id_g sh idx : wf_gshape sh -> C (ls_ty sh) "ID" (gobj sh idx) = GoEval.Ok (VInt idx).
  Proof.
    intros (H0 & H1 & H2 & H3 & H4 & H5). rewrite call_table_obj_S, find_in_none, (eqb_empty _ H0) by reflexivity.
    unfold gobj, obj_method. cbn. unfold id_field. cbn. rewrite H3, H4. reflexivity.
  Qed.
  Lemma obj_un_g sh idx : wf_gshape sh -> C (ls_ty sh) "IsUnnamed" (gobj sh idx) = GoEval.Ok (VBool (ls_unnamed sh)).
  Proof.
    intros (H0 & H1 & H2 & H3 & H4 & H5). rewrite call_table_obj_S, find_in_none, (eqb_empty _ H0) by reflexivity.
    unfold gobj, obj_method. cbn. rewrite H5. reflexivity.
  Qed.
  Lemma obj_setid_g sh idx id : wf_gshape sh -> C (ls_ty sh) "SetID" (VTuple [gobj sh idx; VInt id]) = GoEval.Ok (gobj sh id).
  Proof.
    intros (H0 & H1 & H2 & H3 & H4 & H5). rewrite call_table_obj_S, find_in_none, (eqb_empty _ H0) by reflexivity.
    unfold gobj, obj_method. cbn. unfold id_field. cbn. rewrite H3, H4. reflexivity.
  Qed.
End GlobalCalls.
Lemma find_global_name : find_in idpass_bodies "" "AssignGlobalIDs$1"
  = Some {| p_pkg := "ir"; p_type := ""; p_method := "AssignGlobalIDs$1"; p_recv := "n,id"; p_body := gn_body |}.
Proof. reflexivity. Qed.
Lemma global_name_at d sh idx id : wf_gshape sh ->
  call_table_obj idpass_bodies no_impl [] (S (S d)) "" "AssignGlobalIDs$1" (VTuple [gobj sh idx; VInt id]) = GoEval.Ok (gn_res sh idx id).
Proof.
  intros Hwf. rewrite call_table_obj_S, find_global_name. unfold run_body. cbn [p_recv p_body].
  change (split_commas "n,id") with ["n"; "id"]. cbn [combine List.app].
  destruct (gn_run (call_table_obj idpass_bodies no_impl [] (S d)) (obj_id_g d) (obj_un_g d) (obj_setid_g d) sh idx id Hwf) as [en Hen].
  rewrite Hen. reflexivity.
Qed.
Lemma find_assign_global : find_in idpass_bodies "ir.Module" "AssignGlobalIDs"
  = Some {| p_pkg := "ir"; p_type := "ir.Module"; p_method := "AssignGlobalIDs"; p_recv := "m"; p_body := ga_body |}.
Proof. reflexivity. Qed.

Lemma firstn_app_exact {A} (a b : list A) n : List.length a = n -> firstn n (a ++ b) = a.
Proof. intros <-. rewrite firstn_app, Nat.sub_diag, firstn_all. cbn [firstn]. apply app_nil_r. Qed.
Lemma skipn_app_exact {A} (a b : list A) n : List.length a = n -> skipn n (a ++ b) = b.
Proof. intros <-. rewrite skipn_app, Nat.sub_diag, skipn_all. reflexivity. Qed.

(* (c) The same for Module.AssignGlobalIDs: the global variables, aliases, ifuncs and functions of a module of any
   shape, with stored global IDs ids in the order of the walk (the four slices one after the other). *)
Theorem generated_assign_global_ids_is_model :
  forall (M : mshape) (ids : list Z) (depth : nat),
  wf_mshape M -> List.length ids = List.length (mod_flags M) -> 2 <= depth ->
  match NB.assign_ids (mk_items (mod_flags M) ids) with
  | NB.Ok l' => run_idpass no_impl [] depth "ir.Module" "AssignGlobalIDs" (mod_obj M ids) = GoEval.Ok (mod_obj M (map NB.it_id l'), VNil)
  | NB.Err => exists m', run_idpass no_impl [] depth "ir.Module" "AssignGlobalIDs" (mod_obj M ids) = GoEval.Ok (m', an_error)
  end.
Proof.
  intros M ids depth (W1 & W2 & W3 & W4) Hl Hd. destruct depth as [|[|d]]; try lia.
  unfold mod_flags in Hl |- *. unfold mod_obj.
  set (n1 := List.length (gflags (m_globals M))) in *. set (n2 := List.length (gflags (m_aliases M))) in *.
  set (n3 := List.length (gflags (m_ifuncs M))) in *. rewrite !app_length in Hl. fold n1 n2 n3 in Hl.
  set (i1 := firstn n1 ids). set (i2 := firstn n2 (skipn n1 ids)). set (i3 := firstn n3 (skipn n2 (skipn n1 ids))).
  set (i4 := skipn n3 (skipn n2 (skipn n1 ids))).
  assert (List.length i1 = List.length (all_flags (map gent (m_globals M)))) as L1 by (unfold i1; rewrite firstn_length; fold (gflags (m_globals M)); fold n1; lia).
  assert (List.length i2 = List.length (all_flags (map gent (m_aliases M)))) as L2
    by (unfold i2; rewrite firstn_length, skipn_length; fold (gflags (m_aliases M)); fold n2; lia).
  assert (List.length i3 = List.length (all_flags (map gent (m_ifuncs M)))) as L3
    by (unfold i3; rewrite firstn_length, !skipn_length; fold (gflags (m_ifuncs M)); fold n3; lia).
  assert (List.length i4 = List.length (all_flags (map gent (m_funcs M)))) as L4
    by (unfold i4; rewrite !skipn_length; fold (gflags (m_funcs M)); lia).
  assert (forall v,
            snd (ga_model (m_ty M) (m_rest M) (objs (map gent (m_globals M)) i1) (objs (map gent (m_aliases M)) i2)
                          (objs (map gent (m_ifuncs M)) i3) (objs (map gent (m_funcs M)) i4)) = Ret v ->
            run_idpass no_impl [] (S (S d)) "ir.Module" "AssignGlobalIDs"
              (modg (m_ty M) (m_rest M) (objs (map gent (m_globals M)) i1) (objs (map gent (m_aliases M)) i2)
                    (objs (map gent (m_ifuncs M)) i3) (objs (map gent (m_funcs M)) i4)) =
            GoEval.Ok (fst (ga_model (m_ty M) (m_rest M) (objs (map gent (m_globals M)) i1) (objs (map gent (m_aliases M)) i2)
                                     (objs (map gent (m_ifuncs M)) i3) (objs (map gent (m_funcs M)) i4)), v)) as Hrun.
  { intros v Hv. unfold run_idpass. rewrite find_assign_global.
    destruct (ga_run (call_table_obj idpass_bodies no_impl [] (S (S d))) (m_ty M) (m_rest M)
                (fun sh idx id H => global_name_at d sh idx id H) _ _ _ _
                (gents_are_gobjs _ W1 i1) (gents_are_gobjs _ W2 i2) (gents_are_gobjs _ W3 i3) (gents_are_gobjs _ W4 i4)) as [en Hen].
    rewrite Hv in Hen. apply (run_method_recv _ _ _ _ _ "m" en); try reflexivity. exact Hen. }
  unfold NB.assign_ids. rewrite assign_assign_c. unfold gflags in *.
  rewrite mk_items_app, assign_c_app. fold n1. fold i1.
  unfold ga_model in Hrun.
  pose proof (fold_entries sn_step _ (gents_ok (m_globals M)) i1 0%Z L1) as F1.
  destruct (ptr_fold sn_step (objs (map gent (m_globals M)) i1) 0%Z) as [[k1' g'] fl1].
  destruct (assign_c (mk_items (all_flags (map gent (m_globals M))) i1) 0%Z) as [[l1 k1]|] eqn:E1.
  2: { rewrite F1 in Hrun. eexists. apply Hrun. reflexivity. }
  destruct F1 as (-> & -> & ->). cbn [halts stopped andb] in Hrun.
  rewrite mk_items_app, assign_c_app. fold n2. fold i2.
  pose proof (fold_entries sn_step _ (gents_ok (m_aliases M)) i2 k1 L2) as F2.
  destruct (ptr_fold sn_step (objs (map gent (m_aliases M)) i2) k1) as [[k2' a'] fl2].
  destruct (assign_c (mk_items (all_flags (map gent (m_aliases M))) i2) k1) as [[l2 k2]|] eqn:E2.
  2: { rewrite F2 in Hrun. eexists. apply Hrun. reflexivity. }
  destruct F2 as (-> & -> & ->). cbn [halts stopped andb] in Hrun.
  rewrite mk_items_app, assign_c_app. fold n3. fold i3. fold i4.
  pose proof (fold_entries sn_step _ (gents_ok (m_ifuncs M)) i3 k2 L3) as F3.
  destruct (ptr_fold sn_step (objs (map gent (m_ifuncs M)) i3) k2) as [[k3' f'] fl3].
  destruct (assign_c (mk_items (all_flags (map gent (m_ifuncs M))) i3) k2) as [[l3 k3]|] eqn:E3.
  2: { rewrite F3 in Hrun. eexists. apply Hrun. reflexivity. }
  destruct F3 as (-> & -> & ->). cbn [halts stopped andb] in Hrun.
  pose proof (fold_entries sn_step _ (gents_ok (m_funcs M)) i4 k3 L4) as F4.
  destruct (ptr_fold sn_step (objs (map gent (m_funcs M)) i4) k3) as [[k4' h'] fl4].
  destruct (assign_c (mk_items (all_flags (map gent (m_funcs M))) i4) k3) as [[l4 k4]|] eqn:E4.
  2: { rewrite F4 in Hrun. eexists. apply Hrun. reflexivity. }
  destruct F4 as (-> & -> & ->). cbn [halts stopped andb fst snd] in Hrun.
  rewrite (Hrun VNil eq_refl).
  pose proof (assign_c_length _ _ _ _ E1) as A1. rewrite mk_items_length in A1 by exact L1. fold n1 in A1.
  pose proof (assign_c_length _ _ _ _ E2) as A2. rewrite mk_items_length in A2 by exact L2. fold n2 in A2.
  pose proof (assign_c_length _ _ _ _ E3) as A3. rewrite mk_items_length in A3 by exact L3. fold n3 in A3.
  rewrite !map_app.
  rewrite (firstn_app_exact (map NB.it_id l1) _ n1) by (rewrite map_length; exact A1).
  rewrite (skipn_app_exact (map NB.it_id l1) _ n1) by (rewrite map_length; exact A1).
  rewrite (firstn_app_exact (map NB.it_id l2) _ n2) by (rewrite map_length; exact A2).
  rewrite (skipn_app_exact (map NB.it_id l2) _ n2) by (rewrite map_length; exact A2).
  rewrite (firstn_app_exact (map NB.it_id l3) _ n3) by (rewrite map_length; exact A3).
  rewrite (skipn_app_exact (map NB.it_id l3) _ n3) by (rewrite map_length; exact A3).
  reflexivity.
Qed.
Print Assumptions generated_assign_global_ids_is_model.

(* ---- concrete runs (the hypotheses of the theorems are satisfiable; the error path keeps what was assigned) ---- *)
Definition ex_tuple : shape := ("metadata.Tuple", [("Distinct", VBool false); ("Fields", VNil)]).
Example md_example :
  run_idpass no_impl (fuel_env 9) 2 "ir.Module" "AssignMetadataIDs" (modv [] (mdos (repeat ex_tuple 7) [-1; 0; 3; -1; 1; -1; -1]%Z))
  = GoEval.Ok (modv [] (mdos (repeat ex_tuple 7) [2; 0; 3; 4; 1; 5; 6]%Z), VNil)
  /\ run_idpass no_impl (fuel_env 9) 2 "ir.Module" "AssignMetadataIDs" (modv [] (mdos (repeat ex_tuple 3) [4; -1; 4]%Z))
  = GoEval.Ok (modv [] (mdos (repeat ex_tuple 3) [4; -1; 4]%Z), an_error).
Proof. split; vm_compute; reflexivity. Qed.

Definition ex_impl : string -> string -> bool :=
  fun i t => String.eqb i "ir.namedVar" && negb (String.eqb t "ir.InstStore") && negb (String.eqb t "ir.TermRet").
Definition ex_sh (ty name : string) : lshape := {| ls_ty := ty; ls_name := bytes_of_string name; ls_rest := [] |}.
Definition ex_i32 : list (string * val) := [("BitSize", VInt 32)].
Definition ex_func : fshape :=
  {| f_ty := "ir.Func"; f_ident := VStr (bytes_of_string "@f"); f_rest := [];
     f_params := [ex_sh "ir.Param" ""; ex_sh "ir.Param" "x"];
     f_blocks := [ {| b_sh := ex_sh "ir.Block" "";
                      b_insts := [INamed (ex_sh "ir.InstAdd" "") "types.IntType" ex_i32; IOther "ir.InstStore" [];
                                  INamed (ex_sh "ir.InstCall" "") "types.VoidType" []; INamed (ex_sh "ir.InstLoad" "v") "types.IntType" ex_i32];
                      b_term := INamed (ex_sh "ir.TermInvoke" "") "types.IntType" ex_i32 |};
                   {| b_sh := ex_sh "ir.Block" ""; b_insts := []; b_term := IOther "ir.TermRet" [] |} ] |}.
Lemma ex_func_wf : wf_fshape ex_impl ex_func.
Proof.
  assert (forall ty name, ty <> "" -> wf_lshape (ex_sh ty name)) as W by (intros ty name H; repeat split; [exact H|..]; reflexivity).
  split.
  - repeat (apply Forall_cons; [apply W; discriminate|]). apply Forall_nil.
  - apply Forall_cons; [|apply Forall_cons; [|apply Forall_nil]].
    + split; [apply W; discriminate|]. split.
      * apply Forall_cons; [split; [apply W; discriminate|reflexivity]|].
        apply Forall_cons; [reflexivity|].
        apply Forall_cons; [split; [apply W; discriminate|reflexivity]|].
        apply Forall_cons; [split; [apply W; discriminate|reflexivity]|]. apply Forall_nil.
      * split; [apply W; discriminate|reflexivity].
    + split; [apply W; discriminate|]. split; [apply Forall_nil|reflexivity].
Qed.
Example func_example :
  run_idpass ex_impl ids_env 2 "ir.Func" "AssignIDs" (func_obj ex_func [0; 0; 0; 0; 0; 0; 0; 3; 0; 0]%Z)
  = GoEval.Ok (func_obj ex_func [0; 0; 1; 2; 0; 0; 0; 3; 4; 0]%Z, VNil)
  /\ exists f', run_idpass ex_impl ids_env 2 "ir.Func" "AssignIDs" (func_obj ex_func [0; 0; 0; 0; 0; 0; 0; 7; 0; 0]%Z) = GoEval.Ok (f', an_error).
Proof.
  split.
  - exact (generated_assign_ids_is_model ex_impl ex_func [0; 0; 0; 0; 0; 0; 0; 3; 0; 0]%Z 2 ex_func_wf eq_refl (le_n 2)).
  - exact (generated_assign_ids_is_model ex_impl ex_func [0; 0; 0; 0; 0; 0; 0; 7; 0; 0]%Z 2 ex_func_wf eq_refl (le_n 2)).
Qed.

(* ================= the methods behind obj_method ================= *)
(* GoEval.obj_method answers ID, SetID and IsUnnamed on an object whose embedded structs are flattened.  The Go methods
   it stands for, regenerated (ident_bodies), compute the same: on the object itself for the embedded structs
   LocalIdent and GlobalIdent (their bodies read and write the fields LocalName, LocalID, ... of the receiver), on the
   value of the field MetadataID for the embedded integer type of that name. *)
Definition run_ident (ty m : string) (recv : val) : res (val * val) :=
  match find_in ident_bodies ty m with
  | Some p => run_method no_impl (call_table_obj ident_bodies no_impl [] 1) [] p recv
  | None => Fail "no such body"
  end.
Lemma Zeqb_len {A} (l : list A) : (Z.of_nat (List.length l) =? 0)%Z = Nat.eqb (List.length l) 0.
Proof. destruct l; reflexivity. Qed.
Definition mid (z : Z) : val := VEnum "metadata.MetadataID" z.

Theorem obj_method_is_generated :
  (forall sh idx id, wf_lshape sh ->
     run_ident "ir.LocalIdent" "ID" (lobj sh idx) = GoEval.Ok (lobj sh idx, VInt idx)
     /\ obj_method "ID" (lobj sh idx) = Some (GoEval.Ok (VInt idx))
     /\ run_ident "ir.LocalIdent" "IsUnnamed" (lobj sh idx) = GoEval.Ok (lobj sh idx, VBool (ls_unnamed sh))
     /\ obj_method "IsUnnamed" (lobj sh idx) = Some (GoEval.Ok (VBool (ls_unnamed sh)))
     /\ run_ident "ir.LocalIdent" "SetID" (VTuple [lobj sh idx; VInt id]) = GoEval.Ok (lobj sh id, VNil)
     /\ obj_method "SetID" (VTuple [lobj sh idx; VInt id]) = Some (GoEval.Ok (lobj sh id)))
  /\ (forall sh idx id, wf_gshape sh ->
     run_ident "ir.GlobalIdent" "ID" (gobj sh idx) = GoEval.Ok (gobj sh idx, VInt idx)
     /\ obj_method "ID" (gobj sh idx) = Some (GoEval.Ok (VInt idx))
     /\ run_ident "ir.GlobalIdent" "IsUnnamed" (gobj sh idx) = GoEval.Ok (gobj sh idx, VBool (ls_unnamed sh))
     /\ obj_method "IsUnnamed" (gobj sh idx) = Some (GoEval.Ok (VBool (ls_unnamed sh)))
     /\ run_ident "ir.GlobalIdent" "SetID" (VTuple [gobj sh idx; VInt id]) = GoEval.Ok (gobj sh id, VNil)
     /\ obj_method "SetID" (VTuple [gobj sh idx; VInt id]) = Some (GoEval.Ok (gobj sh id)))
  /\ (forall (sh : shape) idx id,
     run_ident "metadata.MetadataID" "ID" (mid idx) = GoEval.Ok (mid idx, VInt idx)
     /\ obj_method "ID" (mdo sh idx) = Some (GoEval.Ok (VInt idx))
     /\ run_ident "metadata.MetadataID" "SetID" (VTuple [mid idx; VInt id]) = GoEval.Ok (mid id, VNil)
     /\ obj_method "SetID" (VTuple [mdo sh idx; VInt id]) = Some (GoEval.Ok (mdo sh id))).
Proof.
  split; [|split].
  - intros [ty name rest] idx id (H0 & H1 & H2 & H3). cbn [ls_ty ls_name ls_rest] in *.
    unfold lobj, ls_unnamed, obj_method, id_field. cbn [ls_ty ls_name ls_rest].
    repeat split; try (vm_compute; reflexivity); cbn; rewrite ?H3, ?Zeqb_len; reflexivity.
  - intros [ty name rest] idx id (H0 & H1 & H2 & H3 & H4 & H5). cbn [ls_ty ls_name ls_rest] in *.
    unfold gobj, ls_unnamed, obj_method, id_field. cbn [ls_ty ls_name ls_rest].
    repeat split; try (vm_compute; reflexivity); cbn; rewrite ?H3, ?H4, ?H5, ?Zeqb_len; reflexivity.
  - intros [ty rest] idx id. repeat split; reflexivity.
Qed.
Print Assumptions obj_method_is_generated.
