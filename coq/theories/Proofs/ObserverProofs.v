(* C14, read off the regenerated bodies (Gen/Printers.v): what the observer methods
   String / LLString / Ident / Type / WriteTo of ir, ir/types, ir/constant, ir/metadata write,
   and which methods they call. *)
From Coq Require Import List String ZArith Bool.
From LLIR Require Import Gen.Printers.
Import ListNotations.
Open Scope string_scope.

Definition mem (x : string) (l : list string) : bool := existsb (String.eqb x) l.

(* assignments to fields *)
Fixpoint sets (s : gstmt) : list (string * list string) :=
  match s with
  | SSet x path _ => [(x, path)]
  | SSetIndex x f _ _ => [(x, [f; "[]"])]
  | SIf _ _ t e => flat_map sets t ++ flat_map sets e
  | SFor _ _ _ b | SForMap _ _ _ b => flat_map sets b
  | SFor3 i _ p b => sets i ++ sets p ++ flat_map sets b
  | STypeSwitch _ _ cs d => flat_map (fun c => flat_map sets (snd c)) cs ++ flat_map sets d
  | SChunk b => flat_map sets b
  | _ => []
  end.

(* method and function names called *)
Fixpoint ecalls (e : gexpr) : list string :=
  match e with
  | ECall (ESel r m) args => m :: ecalls r ++ flat_map ecalls args
  | ECall f args => ecalls f ++ flat_map ecalls args
  | ESel e' _ | ENot e' | EAssert e' _ => ecalls e'
  | EBin _ a b | EIndex a b | ESliceFrom a b => ecalls a ++ ecalls b
  | EComposite _ fs => flat_map (fun kv => ecalls (snd kv)) fs
  | ETuple es => flat_map ecalls es
  | _ => []
  end.
Fixpoint scalls (s : gstmt) : list string :=
  match s with
  | SArg _ e | SLet _ _ e | SRet e | SExpr e | SSet _ _ e => ecalls e
  | SSetIndex _ _ i e => ecalls i ++ ecalls e
  | SIf init c t e => (match init with Some (_, x) => ecalls x | None => [] end) ++ ecalls c ++ flat_map scalls t ++ flat_map scalls e
  | SFor _ _ c b | SForMap _ _ c b => ecalls c ++ flat_map scalls b
  | SFor3 i c p b => scalls i ++ ecalls c ++ scalls p ++ flat_map scalls b
  | STypeSwitch _ e cs d => ecalls e ++ flat_map (fun c => flat_map scalls (snd c)) cs ++ flat_map scalls d
  | SChunk b => flat_map scalls b
  | _ => []
  end.

(* the methods of the IR packages (a body with a receiver type) *)
Definition observers : list printer := filter (fun p => negb (String.eqb (p_type p) "")) printers.

(* assignments to fields together with the conditions of the enclosing ifs (the condition for the
   then-branch, its negation for the else-branch) *)
Fixpoint gsets (guards : list gexpr) (s : gstmt) : list (string * list string * list gexpr) :=
  match s with
  | SSet x path _ => [(x, path, guards)]
  | SSetIndex x f _ _ => [(x, [f; "[]"], guards)]
  | SIf _ c t e => flat_map (gsets (c :: guards)) t ++ flat_map (gsets (ENot c :: guards)) e
  | SFor _ _ _ b | SForMap _ _ _ b => flat_map (gsets guards) b
  | SFor3 i _ p b => gsets guards i ++ gsets guards p ++ flat_map (gsets guards) b
  | STypeSwitch _ _ cs d => flat_map (fun c => flat_map (gsets guards) (snd c)) cs ++ flat_map (gsets guards) d
  | SChunk b => flat_map (gsets guards) b
  | _ => []
  end.
(* locals bound to a freshly allocated pointer type: x := types.NewPointer(..) *)
Fixpoint fresh_locals (s : gstmt) : list string :=
  match s with
  | SLet true [x] (ECall (ESel (EId "types") "NewPointer") _) => [x]
  | SIf _ _ t e => flat_map fresh_locals t ++ flat_map fresh_locals e
  | SFor _ _ _ b | SForMap _ _ _ b => flat_map fresh_locals b
  | SFor3 i _ p b => fresh_locals i ++ fresh_locals p ++ flat_map fresh_locals b
  | STypeSwitch _ _ cs d => flat_map (fun c => flat_map fresh_locals (snd c)) cs ++ flat_map fresh_locals d
  | SChunk b => flat_map fresh_locals b
  | _ => []
  end.
Definition is_nil_test (recv field : string) (g : gexpr) : bool :=
  match g with
  | EBin op (ESel (EId r) f) ENil => String.eqb op "==" && String.eqb r recv && String.eqb f field
  | _ => false
  end.

(* 1. no printer writes a field of an object that existed before the call, except that a Type method fills
      its own cache (and, for the three kinds whose type is a pointer carrying an address space, that address
      space), and only under the test that the cache is empty: the write happens at most once per object, and
      never once the constructors or the parser have filled the cache.  A write to a local that was bound to
      a fresh types.NewPointer(..) in the same body touches no shared object. *)
Definition write_ok (p : printer) : bool :=
  forallb (fun w => match w with (x, path, guards) =>
      if String.eqb x (p_recv p) then
        String.eqb (p_method p) "Type" &&
        (match path with ["Typ"] => true | ["Typ"; "AddrSpace"] => mem (p_type p) ["ir.Func"; "ir.Global"; "ir.InstAlloca"] | _ => false end) &&
        existsb (is_nil_test (p_recv p) "Typ") guards
      else mem x (flat_map fresh_locals (p_body p)) end)
    (flat_map (gsets []) (p_body p)).
Theorem observers_write_only_the_type_cache : forallb write_ok observers = true.
Proof. vm_compute. reflexivity. Qed.
(* how many such caches there are, and that the analysis sees them (non-vacuity) *)
Definition caching_observers : list (string * string) :=
  map (fun p => (p_type p, p_method p)) (filter (fun p => match flat_map (gsets []) (p_body p) with [] => false | _ => true end) observers).
Example caching_observers_are_type_methods : forallb (fun tm => String.eqb (snd tm) "Type") caching_observers = true /\ 40 <= List.length caching_observers.
Proof. vm_compute. split; [reflexivity|repeat constructor]. Qed.

(* 2. the only methods with an effect that observers call are the three ID passes (C08, C13, C17) *)
Definition pure_calls : list string :=
  [ "String"; "LLString"; "Ident"; "Type"; "Name"; "IsUnnamed"; "Sig"; "Equal"; "WriteTo";
    "Quote"; "TypeName"; "GlobalName"; "GlobalID"; "LocalName"; "LocalID"; "LabelName"; "LabelID"; "ComdatName"; "AttrGroupID";
    "MetadataName"; "MetadataID"; "Sprintf"; "Join"; "Strings"; "FormatInt"; "FormatUint"; "ContainsRune"; "IndexByte"; "ToUpper";
    "Text"; "Cmp"; "NewInt"; "NewArray"; "NewPointer"; "NewStruct"; "NewVector" ].
Definition id_passes : list string := ["AssignIDs"; "AssignGlobalIDs"; "AssignMetadataIDs"].
Theorem observers_call_only_id_passes :
  forallb (fun p => forallb (fun m => mem m pure_calls || mem m id_passes) (flat_map scalls (p_body p))) observers = true.
Proof. vm_compute. reflexivity. Qed.

(* and those three are reached only from the printers of a function and of a module *)
Theorem id_passes_called_from :
  map (fun p => (p_type p, p_method p)) (filter (fun p => existsb (fun m => mem m id_passes) (flat_map scalls (p_body p))) observers)
  = [("ir.Func", "LLString"); ("ir.Module", "WriteTo")].
Proof. vm_compute. reflexivity. Qed.

(* 3. C12: the only range over a Go map in any printer is the one of Module.WriteTo over the named
      metadata, and its body only collects the keys (which are sorted before use) *)
Fixpoint map_ranges (s : gstmt) : list (list gstmt) :=
  match s with
  | SForMap _ _ _ b => [b]
  | SIf _ _ t e => flat_map map_ranges t ++ flat_map map_ranges e
  | SFor _ _ _ b | SFor3 _ _ _ b => flat_map map_ranges b
  | STypeSwitch _ _ cs d => flat_map (fun c => flat_map map_ranges (snd c)) cs ++ flat_map map_ranges d
  | SChunk b => flat_map map_ranges b
  | _ => []
  end.
Theorem the_one_map_range :
  map (fun p => (p_type p, p_method p, flat_map map_ranges (p_body p)))
      (filter (fun p => negb (match flat_map map_ranges (p_body p) with [] => true | _ => false end)) observers)
  = [("ir.Module", "WriteTo", [[SLet false ["mdNames"] (ECall (EId "append") [EId "mdNames"; EId "mdName"])]])].
Proof. vm_compute. reflexivity. Qed.

(* 4. C19: WriteTo writes nothing outside a chunk (one fw.Fprint* call each), so the sequence of
      Write calls is the sequence of chunks *)
Fixpoint loose_writes (s : gstmt) : nat :=
  match s with
  | SLit _ | SArg _ _ => 1
  | SChunk _ => 0
  | SIf _ _ t e => list_sum (map loose_writes t) + list_sum (map loose_writes e)
  | SFor _ _ _ b | SForMap _ _ _ b | SFor3 _ _ _ b => list_sum (map loose_writes b)
  | STypeSwitch _ _ cs d => list_sum (map (fun c => list_sum (map loose_writes (snd c))) cs) + list_sum (map loose_writes d)
  | _ => 0
  end.
Theorem writeto_writes_only_chunks :
  map (fun p => list_sum (map loose_writes (p_body p))) (filter (fun p => String.eqb (p_method p) "WriteTo") observers) = [0].
Proof. vm_compute. reflexivity. Qed.

(* ... and every statement of WriteTo is inside the translated fragment: a write that goes past fw (a direct
   fmt.Fprint* on the underlying writer, say) would show up as an untranslated statement *)
Fixpoint unknowns (s : gstmt) : nat :=
  match s with
  | SUnknown _ => 1
  | SIf _ _ t e => list_sum (map unknowns t) + list_sum (map unknowns e)
  | SFor _ _ _ b | SForMap _ _ _ b | SChunk b => list_sum (map unknowns b)
  | SFor3 i _ p b => unknowns i + unknowns p + list_sum (map unknowns b)
  | STypeSwitch _ _ cs d => list_sum (map (fun c => list_sum (map unknowns (snd c))) cs) + list_sum (map unknowns d)
  | SSwitch _ cs d => list_sum (map (fun c => list_sum (map unknowns (snd c))) cs) + list_sum (map unknowns d)
  | _ => 0
  end.
Theorem writeto_has_no_untranslated_statement :
  map (fun p => list_sum (map unknowns (p_body p))) (filter (fun p => String.eqb (p_method p) "WriteTo") observers) = [0].
Proof. vm_compute. reflexivity. Qed.

Example observers_counted : List.length observers = 494.
Proof. vm_compute. reflexivity. Qed.
Print Assumptions observers_write_only_the_type_cache.
Print Assumptions id_passes_called_from.
