(* Theorems that join the regenerated tables: the printing skeletons (Gen/Formats.v),
   the operand tables (Gen/Operands.v) and the field tables (Gen/FieldFlow.v). *)
From Coq Require Import List String Ascii Bool Arith.
From LLIR Require Import Gen.Formats Gen.Operands Gen.FieldFlow.
Import ListNotations.
Open Scope string_scope.

(* ---- every Go expression a skeleton evaluates ---- *)
Fixpoint exprs (s : fstmt) : list string :=
  match s with
  | FArg _ e => [e]
  | FIf c t e => c :: flat_map exprs t ++ flat_map exprs e
  | FFor _ _ coll b => coll :: flat_map exprs b
  | FLet s => [s]
  | FRet e => [e]
  | _ => []
  end.
Fixpoint unknowns (s : fstmt) : list string :=
  match s with
  | FUnknown u => [u]
  | FIf _ t e => flat_map unknowns t ++ flat_map unknowns e
  | FFor _ _ _ b => flat_map unknowns b
  | _ => []
  end.

(* ---- the translator understood every statement but three, which have models of their own ---- *)
Definition with_unknown (tbl : list (string * list fstmt)) : list string :=
  map fst (filter (fun p => negb (Nat.eqb (List.length (flat_map unknowns (snd p))) 0)) tbl).
Theorem unknown_statements :
  with_unknown ir_formats = ["AttrGroupDef"]           (* the type switch over attribute kinds *)
  /\ with_unknown type_formats = []
  /\ with_unknown md_formats = []
  /\ with_unknown const_formats = ["Float"; "Int"].   (* Model/FloatBits.v and Model/IntLit.v *)
Proof. vm_compute. repeat split. Qed.

(* ---- a field is mentioned: .Name followed by something that does not continue an identifier ---- *)
Definition ident_char (c : ascii) : bool :=
  let n := nat_of_ascii c in
  (Nat.leb 48 n && Nat.leb n 57) || (Nat.leb 65 n && Nat.leb n 90) || (Nat.leb 97 n && Nat.leb n 122) || Nat.eqb n 95.
Fixpoint after_prefix (p s : string) : option string :=
  match p, s with
  | EmptyString, _ => Some s
  | String a p', String b s' => if Ascii.eqb a b then after_prefix p' s' else None
  | _, EmptyString => None
  end.
Fixpoint mentions (fld s : string) : bool :=
  match s with
  | EmptyString => false
  | String c r =>
    (if Ascii.eqb c "."%char then
       match after_prefix fld r with
       | Some EmptyString => true
       | Some (String d _) => negb (ident_char d)
       | None => false
       end
     else false) || mentions fld r
  end.

(* the direct field of a slot path: Args[i] is field Args *)
Fixpoint head_field (p : string) : string :=
  match p with
  | EmptyString => EmptyString
  | String c r => if ident_char c then String c (head_field r) else EmptyString
  end.

Definition skeleton_of (t : string) : list fstmt :=
  match find (fun p => String.eqb (fst p) t) ir_formats with Some p => snd p | None => [] end.
Definition field_shown (t fld : string) : bool := existsb (mentions fld) (flat_map exprs (skeleton_of t)).

(* ---- C15/C01: every operand Operands() hands out is printed by LLString ---- *)
Theorem operands_are_printed :
  forallb (fun r => forallb (fun sl => field_shown (u_type r) (head_field (fst sl))) (u_slots r)) user_rows = true.
Proof. vm_compute. reflexivity. Qed.

(* and every value-typed field that is printed without being an operand is one of the known bundle inputs (KF-16) *)
Theorem printed_values_not_operands :
  flat_map (fun r => map (fun f => (u_type r, f))
      (filter (fun f => field_shown (u_type r) (head_field f) && negb (existsb (fun sl => String.eqb (head_field (fst sl)) (head_field f)) (u_slots r))) (u_fields r)))
    user_rows
  = [("InstCall", "OperandBundles[i].Inputs[i]"); ("TermCallBr", "OperandBundles[i].Inputs[i]"); ("TermInvoke", "OperandBundles[i].Inputs[i]")].
Proof. vm_compute. reflexivity. Qed.

(* ---- the two generators agree on the value-typed fields: FieldFlow (go/types selections) reports a
   field as read while printing exactly when the skeleton mentions it ---- *)
Definition printed_of (t : string) : list string :=
  match find (fun f => String.eqb (f_type f) t) flows with Some f => f_printed f | None => [] end.
Theorem generators_agree :
  forallb (fun r => forallb (fun f => Bool.eqb (field_shown (u_type r) (head_field f))
                                              (existsb (String.eqb (head_field f)) (printed_of (u_type r)))) (u_fields r)) user_rows = true.
Proof. vm_compute. reflexivity. Qed.

Example mentions_examples :
  mentions "X" "inst.X" = true /\ mentions "X" "inst.XY" = false /\ mentions "Args" "inst.Args[i]" = true /\ mentions "X" "term.X.Type()" = true.
Proof. vm_compute. repeat split. Qed.
Print Assumptions operands_are_printed.
Print Assumptions printed_values_not_operands.
