(* C07: the index classifiers that feed internal/gep.ResultType -- getIndex of packages constant, ir and asm,
   gepExprType and gepInstType of packages constant / ir and of the parser (asm), the Type() methods of the
   getelementptr expression and instruction -- regenerated from the Go source (Gen/Printers.v) and run by
   Model/GoEval.v on reified index operands, compute the hand-written classifiers of Model/Gep.v
   (get_index_ir, get_index_asm, classify_ir_expr, classify_ir_inst, classify_asm_inst, classify_asm_alias) and
   then the walker result_type, panics included, for every operand shape of the model's operand datatype, every
   element and source type and every index list. *)
From Coq Require Import List String ZArith NArith Bool Lia.
From Coq Require Import Strings.Byte.
From LLIR Require Import Lib.Bytes Model.Types Model.TypeString Model.Gep Model.GoEval Gen.Printers
  Proofs.PrinterRefinement Proofs.GepRefinement.
From LLIR Require Model.IntLit Proofs.IntLitRefinement.
Import ListNotations.
Open Scope string_scope.

(* ---- calls between bodies of different packages ----
   The table names a function by its bare name when that is unique among the translated packages and
   by package.name otherwise (constant.getIndex, ir.getIndex, asm.getIndex); a call inside a body is
   written as in the source (getIndex(index), gep.NewIndex(val)).  [call_from pkg] is the knot of
   GoEval.call_printer with Go's scoping: an unqualified name is first looked up in the package of
   the calling body.  A call of a function of another package reaches the knot with its arguments in
   a tuple, also when there is one argument (GoEval.eval, ECall (ESel (EId pk) fn)); a body with one
   parameter takes that argument itself. *)
(* which dynamic types implement which interface types (GoEval: type assertions, cases of type switches): every
   type of package constant that is a value implements constant.Constant, the constant expressions (constant.Expr...)
   implement constant.Expression; the parser asserts ast.Constant; no other interface occurs in the bodies below *)
Definition has_suffix (suf s : string) : bool :=
  String.eqb (substring (String.length s - String.length suf) (String.length suf) s) suf.
(* the nodes of package ast that are constants (ast.Constant): the ...Const and ...Expr nodes and global identifiers *)
Definition is_ast_constant (t : string) : bool :=
  String.prefix "ast." t && (has_suffix "Const" t || has_suffix "Expr" t || String.eqb t "ast.GlobalIdent").
Definition impls (ity t : string) : bool :=
  (String.eqb ity "constant.Constant" && String.prefix "constant." t)
  || (String.eqb ity "constant.Expression" && String.prefix "constant.Expr" t)
  || (String.eqb ity "ast.Constant" && is_ast_constant t).

Definition resolve_in (tbl : list printer) (pkg ty m : string) : option printer :=
  if String.eqb ty "" then
    match find_in tbl "" (pkg ++ "." ++ m) with
    | Some p => Some p
    | None => find_in tbl "" m
    end
  else find_in tbl ty m.
(* over the table of the printing, typing and constructor bodies (Gen/Printers.printers) *)
Definition resolve : string -> string -> string -> option printer := resolve_in printers.
Definition sole_argument (p : printer) (recv : GoEval.val) : GoEval.val :=
  match split_commas (p_recv p), recv with
  | [_], VTuple [v] => v
  | _, _ => recv
  end.
(* A method x.m(args) of a receiver type whose methods the table lists as functions of the package (the translator's
   *generator and *funcGen: asm.irIntConst is gen.irIntConst, the receiver being the global gen) runs that function on
   the arguments without the receiver.  [lib] gives a meaning to calls that leave the translated code, or replaces a
   translated callee by its model (it is asked first); the knot without it is [call_from]. *)
Definition drop_receiver (recv : GoEval.val) : GoEval.val :=
  match recv with VTuple (_ :: vs) => VTuple vs | v => v end.
Definition library : Type := string -> string -> GoEval.val -> option (res GoEval.val).
Definition no_lib : library := fun _ _ _ => None.
Fixpoint call_in (tbl : list printer) (lib : library) (pkg : string) (globals : string -> env) (fuel : nat) (ty m : string) (recv : GoEval.val) : res GoEval.val :=
  match fuel with
  | O => Fail "out of fuel"
  | S f =>
    match lib ty m recv with
    | Some r => r
    | None =>
      match resolve_in tbl pkg ty m with
      | Some p => run_body impls (call_in tbl lib (p_pkg p) globals f) (globals (p_pkg p)) p (sole_argument p recv)
      | None =>
        match (if String.eqb ty "" then None else find_in tbl "" (pkg ++ "." ++ m)) with
        | Some p => run_body impls (call_in tbl lib (p_pkg p) globals f) (globals (p_pkg p)) p (sole_argument p (drop_receiver recv))
        | None => Fail ("no printer " ++ ty ++ "." ++ m)
        end
      end
    end
  end.
(* the package-level variables a body sees are those of its package: [globals] is per package; one environment for all
   in [call_with] *)
Definition call_with (lib : library) (pkg : string) (globals : env) : nat -> string -> string -> GoEval.val -> res GoEval.val :=
  call_in printers lib pkg (fun _ => globals).
Lemma call_in_S tbl lib pkg globals f ty m recv :
  call_in tbl lib pkg globals (S f) ty m recv =
  match lib ty m recv with
  | Some r => r
  | None =>
    match resolve_in tbl pkg ty m with
    | Some p => run_body impls (call_in tbl lib (p_pkg p) globals f) (globals (p_pkg p)) p (sole_argument p recv)
    | None =>
      match (if String.eqb ty "" then None else find_in tbl "" (pkg ++ "." ++ m)) with
      | Some p => run_body impls (call_in tbl lib (p_pkg p) globals f) (globals (p_pkg p)) p (sole_argument p (drop_receiver recv))
      | None => Fail ("no printer " ++ ty ++ "." ++ m)
      end
    end
  end.
Proof. reflexivity. Qed.
Definition call_from (pkg : string) (globals : env) : nat -> string -> string -> GoEval.val -> res GoEval.val :=
  call_with no_lib pkg globals.
Lemma call_with_S lib pkg globals f ty m recv :
  call_with lib pkg globals (S f) ty m recv =
  match lib ty m recv with
  | Some r => r
  | None =>
    match resolve pkg ty m with
    | Some p => run_body impls (call_with lib (p_pkg p) globals f) globals p (sole_argument p recv)
    | None =>
      match (if String.eqb ty "" then None else find_printer "" (pkg ++ "." ++ m)) with
      | Some p => run_body impls (call_with lib (p_pkg p) globals f) globals p (sole_argument p (drop_receiver recv))
      | None => Fail ("no printer " ++ ty ++ "." ++ m)
      end
    end
  end.
Proof. reflexivity. Qed.
Lemma call_from_S pkg globals f ty m recv :
  call_from pkg globals (S f) ty m recv =
  match resolve pkg ty m with
  | Some p => run_body impls (call_from (p_pkg p) globals f) globals p (sole_argument p recv)
  | None =>
    match (if String.eqb ty "" then None else find_printer "" (pkg ++ "." ++ m)) with
    | Some p => run_body impls (call_from (p_pkg p) globals f) globals p (sole_argument p (drop_receiver recv))
    | None => Fail ("no printer " ++ ty ++ "." ++ m)
    end
  end.
Proof. reflexivity. Qed.

(* ---- reification of index operands ---- *)
(* math/big: all getIndex asks of the value of an integer constant is Int64(), the low 64 bits as signed *)
Definition big_int (v : Z) : GoEval.val := VObj "big.Int" [("Int64()", VInt (int64_of v))].
Definition const_int (v : Z) (t : GoEval.val) : GoEval.val := VObj "constant.Int" [("X", big_int v); ("Type()", t)].
Definition reify_elem (e : celem) : GoEval.val :=
  match e with
  | EInt v => VObj "constant.Int" [("X", big_int v)]
  | Gep.EOther => VObj "constant.Null" []
  end.
(* the Go object of a constant of the model's form, whose Type() method returns t.  constant.True and
   constant.False are *constant.Int with values 1 and 0.  A constant expression is an object of a type that
   implements constant.Expression (impls): *constant.ExprPtrToInt for ptrtoint, *constant.ExprAdd for the others.
   COther: one of the kinds the switch does not list (null). *)
Definition reify_const (c : cform) (t : GoEval.val) : GoEval.val :=
  match c with
  | CInt v => const_int v t
  | CBoolLit b => const_int (if b then 1 else 0) t
  | CZero _ => VObj "constant.ZeroInitializer" [("Type()", t)]
  | CVec els => VObj "constant.Vector" [("Elems", VList (map reify_elem els)); ("Type()", t)]
  | CUndef _ => VObj "constant.Undef" [("Type()", t)]
  | CPoison _ => VObj "constant.Poison" [("Type()", t)]
  | CPtrToInt _ => VObj "constant.ExprPtrToInt" [("Type()", t)]
  | CExpr _ => VObj "constant.ExprAdd" [("Type()", t)]
  | COther => VObj "constant.Null" [("Type()", t)]
  end.
(* an index written inrange: *constant.Index around the constant *)
Definition reify_operand (inrange : bool) (c : cform) (t : GoEval.val) : GoEval.val :=
  if inrange then VObj "constant.Index" [("Constant", reify_const c t); ("InRange", VBool true); ("Type()", t)]
  else reify_const c t.

(* the gep.Index objects the code builds: gep.NewIndex and most composite literals list the fields in the order
   of the declaration; the literal of the non-splat vector case is written HasVal, VectorLen (Val is added as the
   zero value at the end).  Objects are records read by field name, so both stand for the same index. *)
Definition reify_idx_as (swapped : bool) (ix : index) : GoEval.val :=
  if swapped
  then VObj "gep.Index" [("HasVal", VBool (has_val ix)); ("VectorLen", VInt (Z.of_N (vector_len ix))); ("Val", VInt (Gep.val ix))]
  else reify_idx ix.
(* the one case in which getIndex writes the literal in the other order: no value, with a vector length *)
Definition nonsplat (ix : index) : bool := negb (has_val ix) && negb (vector_len ix =? 0)%N.
Definition expect_idx (o : Gep.outcome index) : res GoEval.val :=
  match o with Gep.Ok ix => GoEval.Ok (reify_idx_as (nonsplat ix) ix) | Gep.Panic => Fail "panic" end.
(* reading an index object back, whatever the order of its fields *)
Definition read_idx (v : GoEval.val) : option index :=
  match v with
  | VObj "gep.Index" fs =>
    match lookup "HasVal" fs, lookup "Val" fs, lookup "VectorLen" fs with
    | Some (VBool h), Some (VInt z), Some (VInt n) => if (n <? 0)%Z then None else Some {| has_val := h; Gep.val := z; vector_len := Z.to_N n |}
    | _, _, _ => None
    end
  | _ => None
  end.
Lemma read_idx_reify s ix : read_idx (reify_idx_as s ix) = Some ix.
Proof.
  destruct ix as [h z n]. destruct s; cbn -[Z.ltb Z.to_N Z.of_N];
    (assert ((Z.of_N n <? 0)%Z = false) as -> by (apply Z.ltb_ge; lia)); rewrite N2Z.id; reflexivity.
Qed.

(* ---- the generated bodies ---- *)
Definition gi_body : list gstmt :=
  Eval vm_compute in match find_printer "" "constant.getIndex" with Some p => p_body p | None => [] end.
Lemma resolve_constant_getIndex :
  resolve "constant" "" "getIndex" = Some {| p_pkg := "constant"; p_type := ""; p_method := "constant.getIndex"; p_recv := "index"; p_body := gi_body |}.
Proof. vm_compute. reflexivity. Qed.
Lemma resolve_ir_getIndex :
  resolve "ir" "" "getIndex" = Some {| p_pkg := "ir"; p_type := ""; p_method := "ir.getIndex"; p_recv := "index"; p_body := gi_body |}.
Proof. vm_compute. reflexivity. Qed.
Definition new_index_printer : printer :=
  {| p_pkg := "gep"; p_type := ""; p_method := "gep.NewIndex"; p_recv := "val";
     p_body := [SRet (EComposite "gep.Index" [("HasVal", (EBool true)); ("Val", (EId "val")); ("VectorLen", (EConst "" 0%Z))])] |}.
Lemma resolve_NewIndex pkg : pkg = "constant" \/ pkg = "ir" -> resolve pkg "" "gep.NewIndex" = Some new_index_printer.
Proof. intros [-> | ->]; vm_compute; reflexivity. Qed.

(* the parts of getIndex *)
Definition gi_unpack : list gstmt := Eval vm_compute in firstn 1 gi_body.
Definition gi_switch : gstmt := Eval vm_compute in nth 1 gi_body SStop.
Lemma gi_body_split : gi_body = (gi_unpack ++ [gi_switch])%list.
Proof. reflexivity. Qed.
Definition gi_vector_case : list gstmt :=
  Eval vm_compute in match gi_switch with STypeSwitch _ _ cases _ => match nth 2 cases ([], []) with (_, b) => b end | _ => [] end.
Definition gi_elem_loop : list gstmt :=
  Eval vm_compute in match nth 2 gi_vector_case SStop with SFor _ _ _ b => b | _ => [] end.

Definition get_index_printer (pkg : string) : printer :=
  {| p_pkg := pkg; p_type := ""; p_method := pkg ++ ".getIndex"; p_recv := "index"; p_body := gi_body |}.

Local Arguments truncate : simpl nomatch.
Local Arguments app : simpl nomatch.
Local Arguments for_loop : simpl never.
Local Arguments Z.of_nat : simpl never.
Local Arguments int64_of : simpl never.

Lemma splat_value_some els v n ix : splat_value els (Some v) n = Gep.Ok ix ->
  ix = (if has_val ix then {| has_val := true; Gep.val := v; vector_len := n |} else no_val n).
Proof.
  revert ix. induction els as [|[x|] r IH]; intros ix; cbn [splat_value].
  - intros [= <-]. reflexivity.
  - destruct (int64_of x =? v)%Z; [apply IH|]. intros [= <-]. reflexivity.
  - discriminate.
Qed.

Section GetIndexBody.
  Variable call : string -> string -> GoEval.val -> res GoEval.val.
  Hypothesis call_NewIndex : forall v,
    call "" "gep.NewIndex" (VTuple [v]) = GoEval.Ok (VObj "gep.Index" [("HasVal", VBool true); ("Val", v); ("VectorLen", VInt 0)]).

  (* the loop over the elements of a vector constant, in its scope *)
  Definition BL : env -> bytes -> res (env * bytes * flow) :=
    fun en buf => match exec impls call gi_elem_loop en buf with
                  | GoEval.Ok (en1, buf1, stop) => GoEval.Ok (truncate (List.length en) en1, buf1, stop)
                  | Fail w => Fail w
                  end.

  Section Vector.
    Variable L : list GoEval.val.      (* all the elements *)
    Variable t : GoEval.val.
    Let VEC : GoEval.val := VObj "constant.Vector" [("Elems", VList L); ("Type()", t)].
    Let EN (v : Z) : env := [("val", VInt v); ("index", VEC); ("index", VEC)].
    Let mixed : GoEval.val :=
      VObj "gep.Index" [("HasVal", VBool false); ("VectorLen", VInt (Z.of_nat (List.length L))); ("Val", VInt 0)].

    Lemma elem_first x : BL (("elem", reify_elem (EInt x)) :: ("i", VInt 0) :: EN 0) [] =
      GoEval.Ok (("elem", reify_elem (EInt x)) :: ("i", VInt 0) :: EN (int64_of x), [], Run).
    Proof. reflexivity. Qed.
    Lemma elem_next x p v : BL (("elem", reify_elem (EInt x)) :: ("i", VInt (Zpos p)) :: EN v) [] =
      GoEval.Ok (("elem", reify_elem (EInt x)) :: ("i", VInt (Zpos p)) :: EN v, [], if (int64_of x =? v)%Z then Run else Ret mixed).
    Proof. unfold BL, gi_elem_loop, exec. cbn. destruct (int64_of x =? v)%Z; reflexivity. Qed.
    Lemma elem_other i v : BL (("elem", reify_elem Gep.EOther) :: ("i", VInt i) :: EN v) [] = Fail "panic".
    Proof. reflexivity. Qed.

    Lemma elem_loop_tail n : forall els p v,
      for_loop BL "i" "elem" (map reify_elem els) (Zpos p) (EN v) [] =
      match splat_value els (Some v) n with
      | Gep.Ok ix => GoEval.Ok (EN v, [], if has_val ix then Run else Ret mixed)
      | Gep.Panic => Fail "panic"
      end.
    Proof.
      induction els as [|[x|] r IH]; intros p v; cbn [map splat_value]; unfold for_loop; fold for_loop.
      - reflexivity.
      - change (loop_env "i" "elem" (Zpos p) (reify_elem (EInt x)) (EN v)) with (("elem", reify_elem (EInt x)) :: ("i", VInt (Zpos p)) :: EN v).
        rewrite elem_next. destruct (int64_of x =? v)%Z; [|reflexivity].
        cbn [stopped is_cont andb negb]. change (Zpos p + 1)%Z with (Zpos (p + 1)). apply IH.
      - change (loop_env "i" "elem" (Zpos p) (reify_elem Gep.EOther) (EN v)) with (("elem", reify_elem Gep.EOther) :: ("i", VInt (Zpos p)) :: EN v).
        rewrite elem_other. reflexivity.
    Qed.

    Definition gi_vec_pre : list gstmt := Eval vm_compute in firstn 2 gi_vector_case.
    Definition gi_vec_post : list gstmt := Eval vm_compute in skipn 3 gi_vector_case.
    Lemma gi_vector_case_split :
      gi_vector_case = (gi_vec_pre ++ [SFor "i" "elem" (ESel (EId "index") "Elems") gi_elem_loop] ++ gi_vec_post)%list.
    Proof. reflexivity. Qed.

    Lemma vec_pre : L <> [] -> exec impls call gi_vec_pre [("index", VEC); ("index", VEC)] [] = GoEval.Ok (EN 0, [], Run).
    Proof.
      intros H. assert ((Z.of_nat (List.length L) =? 0)%Z = false) as E by (destruct L; [congruence|reflexivity]).
      unfold gi_vec_pre, exec. cbn. rewrite E. reflexivity.
    Qed.
    Lemma vec_loop_stmt v :
      exec impls call [SFor "i" "elem" (ESel (EId "index") "Elems") gi_elem_loop] (EN v) [] =
      match for_loop BL "i" "elem" L 0 (EN v) [] with
      | GoEval.Ok (en1, buf1, fl) => GoEval.Ok (en1, buf1, fl)
      | Fail w => Fail w
      end.
    Proof.
      unfold exec. unfold exec1; fold exec1. cbn [eval lookup String.eqb Ascii.eqb Bool.eqb EN VEC].
      match goal with |- context [for_loop ?f _ _ _ _ _ _] => change f with BL end.
      destruct (for_loop BL "i" "elem" L 0 _ []) as [[[en1 buf1] fl]|w]; [|reflexivity].
      destruct fl; reflexivity.
    Qed.
    Lemma vec_post v : exec impls call gi_vec_post (EN v) [] =
      GoEval.Ok (EN v, [], Ret (VObj "gep.Index" [("HasVal", VBool true); ("Val", VInt v); ("VectorLen", VInt (Z.of_nat (List.length L)))])).
    Proof. reflexivity. Qed.
  End Vector.

  Lemma vector_case els t :
    let VEC := VObj "constant.Vector" [("Elems", VList (map reify_elem els)); ("Type()", t)] in
    match vec_index els with
    | Gep.Ok ix => exists en', exec impls call gi_vector_case [("index", VEC); ("index", VEC)] [] = GoEval.Ok (en', [], Ret (reify_idx_as (nonsplat ix) ix))
    | Gep.Panic => exec impls call gi_vector_case [("index", VEC); ("index", VEC)] [] = Fail "panic"
    end.
  Proof.
    intros VEC. destruct els as [|e r].
    - eexists. reflexivity.
    - assert (Hlen : Z.of_nat (List.length (map reify_elem (e :: r))) = Z.of_N (N.of_nat (List.length (e :: r)))) by (rewrite map_length; lia).
      assert (Hne : map reify_elem (e :: r) <> []) by discriminate.
      set (n := N.of_nat (List.length (e :: r))) in *.
      assert (Hn : (n =? 0)%N = false) by (apply N.eqb_neq; unfold n; cbn [List.length]; lia).
      unfold vec_index. fold n.
      assert (Hrun : exec impls call gi_vector_case [("index", VEC); ("index", VEC)] [] =
                match for_loop BL "i" "elem" (map reify_elem (e :: r)) 0 [("val", VInt 0); ("index", VEC); ("index", VEC)] [] with
                | GoEval.Ok (en1, buf1, fl) => if stopped fl then GoEval.Ok (en1, buf1, fl) else exec impls call gi_vec_post en1 buf1
                | Fail w => Fail w
                end).
      { rewrite gi_vector_case_split, exec_app. unfold VEC. rewrite (vec_pre _ t Hne). cbn [stopped].
        rewrite exec_app, vec_loop_stmt.
        destruct (for_loop BL "i" "elem" (map reify_elem (e :: r)) 0 _ []) as [[[en1 buf1] fl]|w]; reflexivity. }
      rewrite Hrun. clear Hrun. cbn [map]. unfold for_loop; fold for_loop.
      destruct e as [x|].
      + change (loop_env "i" "elem" 0 (reify_elem (EInt x)) [("val", VInt 0); ("index", VEC); ("index", VEC)])
          with (("elem", reify_elem (EInt x)) :: ("i", VInt 0) :: [("val", VInt 0); ("index", VEC); ("index", VEC)]).
        unfold VEC. rewrite elem_first. cbn [stopped is_cont andb negb]. unfold truncate. cbn [List.length Nat.sub skipn].
        change (0 + 1)%Z with 1%Z. fold (map reify_elem (EInt x :: r)).
        rewrite (elem_loop_tail _ t n). cbn [splat_value].
        destruct (splat_value r (Some (int64_of x)) n) as [ix|] eqn:E; [|reflexivity].
        rewrite (splat_value_some _ _ _ _ E). destruct (has_val ix).
        * cbn [stopped]. rewrite vec_post. eexists. unfold nonsplat, reify_idx_as, reify_idx. cbn [has_val Gep.val vector_len negb andb].
          rewrite Hlen. reflexivity.
        * cbn [stopped]. eexists. unfold nonsplat, reify_idx_as, no_val. cbn [has_val Gep.val vector_len negb andb]. rewrite Hn, Hlen. reflexivity.
      + reflexivity.
  Qed.

  (* an inrange index is unpacked first *)
  Lemma unpack_part w c t :
    exec impls call gi_unpack [("index", reify_operand w c t)] [] = GoEval.Ok ([("index", reify_const c t)], [], Run).
  Proof. destruct w, c; reflexivity. Qed.

  Lemma switch_vector fs : let VEC := VObj "constant.Vector" fs in
    exec impls call [gi_switch] [("index", VEC)] [] =
    match exec impls call gi_vector_case [("index", VEC); ("index", VEC)] [] with
    | GoEval.Ok (en1, buf1, fl) => GoEval.Ok (truncate 1 (truncate 2 en1), buf1, fl)
    | Fail w => Fail w
    end.
  Proof.
    intros VEC.
    change (exec impls call [gi_switch] [("index", VEC)] []) with
      (match (match (match exec impls call gi_vector_case [("index", VEC); ("index", VEC)] [] with
                     | GoEval.Ok (en1, buf1, stop) => GoEval.Ok (truncate 2 en1, buf1, stop)
                     | Fail w => Fail w
                     end) with
              | GoEval.Ok (en1, buf1, stop) => GoEval.Ok (truncate 1 en1, buf1, stop)
              | Fail w => Fail w
              end) with
       | GoEval.Ok (en1, buf1, stop) => if stopped stop then GoEval.Ok (en1, buf1, stop) else GoEval.Ok (en1, buf1, Run)
       | Fail w => Fail w
       end).
    destruct (exec impls call gi_vector_case [("index", VEC); ("index", VEC)] []) as [[[en1 buf1] fl]|w]; [destruct fl|]; reflexivity.
  Qed.

  Lemma get_index_body pkg w c t :
    run_body impls call [] (get_index_printer pkg) (reify_operand w c t) = expect_idx (get_index_ir c).
  Proof.
    unfold run_body, get_index_printer, p_recv, p_body.
    change (split_commas "index") with ["index"]. cbn [app].
    rewrite app_nil_r, gi_body_split, exec_app, unpack_part. cbn [stopped].
    destruct c; try (unfold gi_switch; cbn; rewrite ?call_NewIndex; reflexivity).
    - destruct b; unfold gi_switch; cbn; rewrite ?call_NewIndex; reflexivity.
    - cbn [reify_const get_index_ir]. rewrite switch_vector.
      pose proof (vector_case elems t) as H. cbv zeta in H.
      destruct (vec_index elems) as [ix|].
      + destruct H as (en' & ->). reflexivity.
      + rewrite H. reflexivity.
  Qed.
End GetIndexBody.


Lemma sole_argument_operand p w c t : sole_argument p (reify_operand w c t) = reify_operand w c t.
Proof. unfold sole_argument. destruct (split_commas (p_recv p)) as [|? [|? ?]]; destruct w, c; reflexivity. Qed.

Lemma call_from_NewIndex pkg f v : pkg = "constant" \/ pkg = "ir" ->
  call_from pkg [] (S f) "" "gep.NewIndex" (VTuple [v]) =
  GoEval.Ok (VObj "gep.Index" [("HasVal", VBool true); ("Val", v); ("VectorLen", VInt 0)]).
Proof. intros H. rewrite call_from_S, (resolve_NewIndex pkg H). reflexivity. Qed.

(* getIndex as a body of package pkg calls it *)
Definition run_get_index (pkg : string) (fuel : nat) (v : GoEval.val) : res GoEval.val := call_from pkg [] fuel "" "getIndex" v.

(* (a) ir/constant/expr_memory.go getIndex *)
Theorem generated_constant_get_index_is_model : forall f inrange c t,
  run_get_index "constant" (S (S f)) (reify_operand inrange c t) = expect_idx (get_index_ir c).
Proof.
  intros f w c t. unfold run_get_index. rewrite call_from_S, resolve_constant_getIndex, sole_argument_operand.
  apply (get_index_body (call_from "constant" [] (S f)) (fun v => call_from_NewIndex "constant" f v (or_introl eq_refl)) "constant").
Qed.
(* (b) ir/inst_memory.go getIndex: the same body, in package ir *)
Theorem generated_ir_get_index_is_model : forall f inrange c t,
  run_get_index "ir" (S (S f)) (reify_operand inrange c t) = expect_idx (get_index_ir c).
Proof.
  intros f w c t. unfold run_get_index. rewrite call_from_S, resolve_ir_getIndex, sole_argument_operand.
  apply (get_index_body (call_from "ir" [] (S f)) (fun v => call_from_NewIndex "ir" f v (or_intror eq_refl)) "ir").
Qed.
Print Assumptions generated_constant_get_index_is_model.
Print Assumptions generated_ir_get_index_is_model.

(* the same, read back as the model's record: whatever the order in which the code lists the fields *)
Definition read_result (r : res GoEval.val) : Gep.outcome index :=
  match r with GoEval.Ok v => match read_idx v with Some ix => Gep.Ok ix | None => Gep.Panic end | Fail _ => Gep.Panic end.
Corollary generated_get_index_reads_as_model : forall pkg f inrange c t, pkg = "constant" \/ pkg = "ir" ->
  read_result (run_get_index pkg (S (S f)) (reify_operand inrange c t)) = get_index_ir c.
Proof.
  intros pkg f w c t [-> | ->]; [rewrite generated_constant_get_index_is_model|rewrite generated_ir_get_index_is_model];
    destruct (get_index_ir c) as [ix|]; cbn [expect_idx read_result]; rewrite ?read_idx_reify; reflexivity.
Qed.

(* ---- gep.ResultType on the index objects as the classifiers build them ----
   Proofs/GepRefinement.v runs the regenerated walker on indices reified with the fields in the order of the
   declaration, from a body that is called with fuel 1.  Here: either order of the fields per index, a nil
   slice for the empty index list (var idxs []gep.Index with nothing appended), any caller. *)
Definition reify_si (si : bool * index) : GoEval.val := reify_idx_as (fst si) (snd si).
(* a slice built by append from nil *)
Definition slice_val (l : list GoEval.val) : GoEval.val := match l with [] => VNil | _ => VList l end.

Section Iter2.
  Variable call : string -> string -> GoEval.val -> res GoEval.val.
  (* the loop body in its scope, as the SFor case of the evaluator runs it *)
  Definition B2 : env -> bytes -> res (env * bytes * flow) :=
    fun en buf => match exec impls call loop_body en buf with
                  | GoEval.Ok (en1, buf1, stop) => GoEval.Ok (truncate (List.length en) en1, buf1, stop)
                  | Fail w => Fail w
                  end.
  Variables v1 v2 v3 : GoEval.val.
  Let rest : env := [("elemType", v1); ("src", v2); ("indices", v3)].

  Lemma merge_part2 (ve : GoEval.val) rvl a s ix i :
    exec impls call body_merge (("index", reify_idx_as s ix) :: ("i", VInt i) :: ("e", ve) :: ("resultVectorLength", VInt (Z.of_N rvl)) :: ("addrSpace", VEnum "types.AddrSpace" (Z.of_N a)) :: rest) [] =
    match merge_len rvl ix with
    | Gep.Ok rvl' => GoEval.Ok (("index", reify_idx_as s ix) :: ("i", VInt i) :: ("e", ve) :: ("resultVectorLength", VInt (Z.of_N rvl')) :: ("addrSpace", VEnum "types.AddrSpace" (Z.of_N a)) :: rest, [], Run)
    | Gep.Panic => Fail "panic"
    end.
  Proof.
    unfold merge_len, body_merge, exec, rest, reify_idx_as, reify_idx. destruct s; cbn; rewrite !Zeqb_ofN_0, !Zeqb_ofN;
    split_eqb; cbn; rewrite ?Zeqb_ofN_0, ?Zeqb_ofN; split_eqb; cbn; try reflexivity; try congruence.
  Qed.

  Lemma step_part_first2 e rvl a s ix :
    exec impls call body_step (("index", reify_idx_as s ix) :: ("i", VInt 0) :: frame e rvl a rest) [] =
    GoEval.Ok (("index", reify_idx_as s ix) :: ("i", VInt 0) :: frame e rvl a rest, [], Cont).
  Proof. destruct s; reflexivity. Qed.

  Lemma step_part_next2 e rvl a s ix p :
    exec impls call body_step (("index", reify_idx_as s ix) :: ("i", VInt (Zpos p)) :: frame e rvl a rest) [] =
    match step_type no_bodies e ix with
    | Gep.Ok e' => GoEval.Ok (("index", reify_idx_as s ix) :: ("i", VInt (Zpos p)) :: frame e' rvl a rest, [], Run)
    | Gep.Panic => Fail "panic"
    end.
  Proof.
    unfold step_type, struct_field, no_bodies, body_step, exec, frame, rest, reify_idx_as, reify_idx.
    destruct s; destruct e; cbn; try reflexivity.
    1, 3: destruct (has_val ix); cbn; [|reflexivity];
      destruct (Gep.val ix <? 0)%Z; cbn; [reflexivity|];
      rewrite nth_error_obj; destruct (nth_error fields (Z.to_nat (Gep.val ix))); reflexivity.
    all: destruct (has_val ix); cbn; reflexivity.
  Qed.

  Lemma iteration2 e rvl a s ix i : (0 <= i)%Z ->
    exists fl, stopped fl && negb (is_cont fl) = false /\
    exec impls call loop_body (("index", reify_idx_as s ix) :: ("i", VInt i) :: frame e rvl a rest) [] =
    match iter (i =? 0)%Z e rvl ix with
    | Gep.Ok (e', rvl') => GoEval.Ok (("index", reify_idx_as s ix) :: ("i", VInt i) :: frame e' rvl' a rest, [], fl)
    | Gep.Panic => Fail "panic"
    end.
  Proof.
    intros Hi. rewrite loop_body_split, exec_app. unfold frame at 1. rewrite merge_part2. unfold iter.
    destruct (merge_len rvl ix) as [rvl'|]; [|exists Run; split; reflexivity].
    cbn [stopped]. fold (frame e rvl' a rest).
    destruct i as [|p|p]; [| |lia].
    - exists Cont. split; [reflexivity|]. rewrite step_part_first2. reflexivity.
    - exists Run. split; [reflexivity|]. rewrite step_part_next2. cbn [Z.eqb].
      destruct (step_type no_bodies e ix); reflexivity.
  Qed.

  Lemma gep_loop2 a : forall sis i e rvl, (0 <= i)%Z ->
    for_loop B2 "i" "index" (map reify_si sis) i (frame e rvl a rest) [] =
    match walk no_bodies (i =? 0)%Z e (map snd sis) rvl with
    | Gep.Ok (e', rvl') => GoEval.Ok (frame e' rvl' a rest, [], Run)
    | Gep.Panic => Fail "panic"
    end.
  Proof.
    induction sis as [|[s ix] r IH]; intros i e rvl Hi; [reflexivity|].
    cbn [map snd]. rewrite walk_iter. unfold for_loop; fold for_loop.
    change (loop_env "i" "index" i (reify_si (s, ix)) (frame e rvl a rest)) with (("index", reify_idx_as s ix) :: ("i", VInt i) :: frame e rvl a rest).
    unfold B2 at 1. destruct (iteration2 e rvl a s ix i Hi) as (fl & Hfl & ->).
    destruct (iter (i =? 0)%Z e rvl ix) as [[e' rvl']|]; [|reflexivity].
    rewrite Hfl.
    match goal with |- for_loop _ _ _ _ _ ?en _ = _ => change en with (frame e' rvl' a rest) end.
    rewrite IH by lia. assert ((i + 1 =? 0)%Z = false) as -> by (apply Z.eqb_neq; lia). reflexivity.
  Qed.
End Iter2.

Lemma loop_stmt2 call (en : env) (sis : list (bool * index)) :
  lookup "indices" en = Some (slice_val (map reify_si sis)) ->
  exec impls call [SFor "i" "index" (EId "indices") loop_body] en [] =
  match for_loop (B2 call) "i" "index" (map reify_si sis) 0 en [] with
  | GoEval.Ok (en1, buf1, fl) => GoEval.Ok (en1, buf1, fl)
  | Fail w => Fail w
  end.
Proof.
  intros H. unfold exec. unfold exec1; fold exec1. cbn [eval]; rewrite H.
  destruct sis as [|si r]; [reflexivity|]. cbn [map slice_val].
  match goal with |- context [for_loop ?f _ _ _ _ _ _] => change f with (B2 call) end.
  destruct (for_loop (B2 call) "i" "index" (reify_si si :: map reify_si r) 0 en []) as [[[en1 buf1] fl]|w]; [|reflexivity].
  destruct fl; reflexivity.
Qed.

Lemma pre_part2 call elem src (vi : GoEval.val) :
  exec impls call body_pre [("elemType", reify_ty elem); ("src", reify_ty src); ("indices", vi)] [] =
  match start src with
  | Gep.Ok (a, rvl0) => GoEval.Ok (frame elem rvl0 a [("elemType", reify_ty elem); ("src", reify_ty src); ("indices", vi)], [], Run)
  | Gep.Panic => Fail "panic"
  end.
Proof.
  unfold body_pre, exec, start, frame. destruct src; try reflexivity.
  destruct src; reflexivity.
Qed.
Lemma post_part2 call e rvl a (v1 v2 v3 : GoEval.val) :
  exists en', exec impls call body_post (frame e rvl a [("elemType", v1); ("src", v2); ("indices", v3)]) [] =
  GoEval.Ok (en', [], Ret (reify_ty (if (rvl =? 0)%N then TPtr e a else TVec false rvl (TPtr e a)))).
Proof.
  unfold body_post, exec, frame. cbn. rewrite Zeqb_ofN_0. destruct (rvl =? 0)%N; cbn; eexists; reflexivity.
Qed.

Definition gep_printer : printer :=
  {| p_pkg := "gep"; p_type := ""; p_method := "gep.ResultType"; p_recv := "elemType,src,indices"; p_body := gep_body |}.

Lemma gep_result_body call elem src sis :
  run_body impls call [] gep_printer (VTuple [reify_ty elem; reify_ty src; slice_val (map reify_si sis)]) =
  GepRefinement.expect (result_type no_bodies elem src (map snd sis)).
Proof.
  unfold run_body, gep_printer.
  cbn [p_recv p_body].
  change (split_commas "elemType,src,indices") with ["elemType"; "src"; "indices"].
  cbn [combine]. rewrite app_nil_r.
  rewrite gep_body_split, exec_app, pre_part2.
  unfold result_type. fold (start src).
  destruct (start src) as [[a rvl0]|]; [|reflexivity].
  cbn [stopped].
  rewrite exec_app.
  rewrite (loop_stmt2 _ _ sis) by reflexivity.
  rewrite (gep_loop2 _ _ _ _ a sis 0 elem rvl0) by lia.
  cbn [Z.eqb].
  destruct (walk no_bodies true elem (map snd sis) rvl0) as [[e rvl]|]; [|reflexivity].
  cbn [stopped].
  destruct (post_part2 call e rvl a (reify_ty elem) (reify_ty src) (slice_val (map reify_si sis))) as (en' & ->).
  reflexivity.
Qed.

Lemma resolve_ResultType pkg : pkg = "constant" \/ pkg = "ir" -> resolve pkg "" "gep.ResultType" = Some gep_printer.
Proof. intros [-> | ->]; vm_compute; reflexivity. Qed.
Lemma call_from_ResultType pkg f elem src sis : pkg = "constant" \/ pkg = "ir" ->
  call_from pkg [] (S f) "" "gep.ResultType" (VTuple [reify_ty elem; reify_ty src; slice_val (map reify_si sis)]) =
  GepRefinement.expect (result_type no_bodies elem src (map snd sis)).
Proof. intros H. rewrite call_from_S, (resolve_ResultType pkg H). apply gep_result_body. Qed.

(* ---- gepExprType (ir/constant/expr_memory.go) ---- *)
Definition ge_body : list gstmt :=
  Eval vm_compute in match find_printer "" "gepExprType" with Some p => p_body p | None => [] end.
Definition ge_loop : list gstmt :=
  Eval vm_compute in match nth 1 ge_body SStop with SFor _ _ _ b => b | _ => [] end.
Definition ge_printer : printer :=
  {| p_pkg := "constant"; p_type := ""; p_method := "gepExprType"; p_recv := "elemType,src,indices"; p_body := ge_body |}.
Lemma resolve_gepExprType : resolve "constant" "" "gepExprType" = Some ge_printer.
Proof. vm_compute. reflexivity. Qed.
Lemma ge_body_split : ge_body = ([SVar "idxs"] ++ [SFor "_" "index" (EId "indices") ge_loop] ++ skipn 2 ge_body)%list.
Proof. reflexivity. Qed.

(* the vector length is taken from the type of the index operand *)
Definition set_len (T : ty) (ix : index) : index :=
  match T with
  | TVec _ n _ => {| has_val := has_val ix; Gep.val := Gep.val ix; vector_len := n |}
  | _ => ix
  end.

Lemma slice_val_snoc l x : slice_val (l ++ [x]) = VList (l ++ [x]).
Proof. destruct l; reflexivity. Qed.

(* an index operand: written inrange or not, the form of the constant, the type its Type() method returns *)
Definition operand : Type := bool * cform * ty.
Definition op_val (o : operand) : GoEval.val := let '(w, c, T) := o in reify_operand w c (reify_ty T).
(* the index the loop appends for it, with the order in which its fields are listed *)
Definition classify_op (o : operand) : Gep.outcome (bool * index) :=
  let '(_, c, T) := o in
  match get_index_ir c with Gep.Ok ix => Gep.Ok (nonsplat ix, set_len T ix) | Gep.Panic => Gep.Panic end.
Fixpoint classify_all (ops : list operand) : Gep.outcome (list (bool * index)) :=
  match ops with
  | [] => Gep.Ok []
  | o :: r =>
    match classify_op o with
    | Gep.Ok si => match classify_all r with Gep.Ok l => Gep.Ok (si :: l) | Gep.Panic => Gep.Panic end
    | Gep.Panic => Gep.Panic
    end
  end.
Lemma operand_shape w c t : exists oty ofs, reify_operand w c t = VObj oty ofs /\ lookup "Type()" ofs = Some t.
Proof. destruct w, c; do 2 eexists; split; reflexivity. Qed.

Section ExprLoop.
  Variable call : string -> string -> GoEval.val -> res GoEval.val.
  Variables v1 v2 v3 : GoEval.val.
  Let rest : env := [("elemType", v1); ("src", v2); ("indices", v3)].

  Definition BE : env -> bytes -> res (env * bytes * flow) :=
    fun en buf => match exec impls call ge_loop en buf with
                  | GoEval.Ok (en1, buf1, stop) => GoEval.Ok (truncate (List.length en) en1, buf1, stop)
                  | Fail w => Fail w
                  end.

  Lemma ge_iter_ok oty ofs T s ix acc :
    lookup "Type()" ofs = Some (reify_ty T) ->
    call "" "getIndex" (VObj oty ofs) = GoEval.Ok (reify_idx_as s ix) ->
    BE (("index", VObj oty ofs) :: ("idxs", slice_val acc) :: rest) [] =
    GoEval.Ok (("index", VObj oty ofs) :: ("idxs", slice_val (acc ++ [reify_idx_as s (set_len T ix)])) :: rest, [], Run).
  Proof.
    intros Ht Hc. rewrite slice_val_snoc. unfold BE, ge_loop, exec, rest. cbn. rewrite Hc. cbn. rewrite Ht. cbn.
    destruct T, s, acc; reflexivity.
  Qed.
  Lemma ge_iter_panic oty ofs acc :
    call "" "getIndex" (VObj oty ofs) = Fail "panic" ->
    BE (("index", VObj oty ofs) :: ("idxs", slice_val acc) :: rest) [] = Fail "panic".
  Proof. intros Hc. unfold BE, ge_loop, exec, rest. cbn. rewrite Hc. reflexivity. Qed.

  (* getIndex, as this body calls it, is the model's classifier *)
  Hypothesis call_getIndex : forall w c t, call "" "getIndex" (reify_operand w c t) = expect_idx (get_index_ir c).

  Lemma ge_loop_spec : forall ops acc i,
    for_loop BE "_" "index" (map op_val ops) i (("idxs", slice_val (map reify_si acc)) :: rest) [] =
    match classify_all ops with
    | Gep.Ok l => GoEval.Ok (("idxs", slice_val (map reify_si (acc ++ l))) :: rest, [], Run)
    | Gep.Panic => Fail "panic"
    end.
  Proof.
    induction ops as [|[[w c] T] r IH]; intros acc i.
    - cbn [classify_all]. rewrite app_nil_r. reflexivity.
    - cbn [map classify_all]. unfold for_loop; fold for_loop.
      change (loop_env "_" "index" i (op_val (w, c, T)) (("idxs", slice_val (map reify_si acc)) :: rest))
        with (("index", op_val (w, c, T)) :: ("idxs", slice_val (map reify_si acc)) :: rest).
      unfold op_val, classify_op. pose proof (call_getIndex w c (reify_ty T)) as Hc.
      destruct (operand_shape w c (reify_ty T)) as (oty & ofs & E & Ht). rewrite E in *.
      destruct (get_index_ir c) as [ix|]; cbn [expect_idx] in Hc.
      + rewrite (ge_iter_ok oty ofs T _ ix (map reify_si acc) Ht Hc).
        cbn [stopped is_cont andb negb]. unfold truncate. cbn [List.length Nat.sub skipn rest].
        change [reify_idx_as (nonsplat ix) (set_len T ix)] with (map reify_si [(nonsplat ix, set_len T ix)]).
        rewrite <- map_app. fold rest. rewrite IH.
        destruct (classify_all r) as [l|]; [|reflexivity]. rewrite <- app_assoc. reflexivity.
      + rewrite (ge_iter_panic oty ofs _ Hc). reflexivity.
  Qed.

  Lemma ge_loop_stmt (en : env) l :
    lookup "indices" en = Some (VList l) ->
    exec impls call [SFor "_" "index" (EId "indices") ge_loop] en [] =
    match for_loop BE "_" "index" l 0 en [] with
    | GoEval.Ok (en1, buf1, fl) => GoEval.Ok (en1, buf1, fl)
    | Fail w => Fail w
    end.
  Proof.
    intros H. unfold exec. unfold exec1; fold exec1. cbn [eval]; rewrite H.
    match goal with |- context [for_loop ?f _ _ _ _ _ _] => change f with BE end.
    destruct (for_loop BE "_" "index" l 0 en []) as [[[en1 buf1] fl]|w]; [|reflexivity].
    destruct fl; reflexivity.
  Qed.
End ExprLoop.

(* the model: the classifier over the operands (vector length from the operand's type), then the walker *)
Definition classify_typed (c : cform) (T : ty) : Gep.outcome index :=
  match T with TVec _ n _ => with_len (get_index_ir c) n | _ => get_index_ir c end.
Fixpoint all_ok (l : list (Gep.outcome index)) : Gep.outcome (list index) :=
  match l with
  | [] => Gep.Ok []
  | Gep.Ok i :: r => match all_ok r with Gep.Ok r' => Gep.Ok (i :: r') | Gep.Panic => Gep.Panic end
  | Gep.Panic :: _ => Gep.Panic
  end.
Definition gep_expr_type (elem src : ty) (ops : list operand) : Gep.outcome ty :=
  match all_ok (map (fun o : operand => classify_typed (snd (fst o)) (snd o)) ops) with
  | Gep.Ok idxs => result_type no_bodies elem src idxs
  | Gep.Panic => Gep.Panic
  end.
(* the shape of a type, as Model/Gep.v records the shape of an operand *)
Definition shape_of_ty (T : ty) : ishape := match T with TVec s n _ => Vector s n | _ => Scalar end.
(* for an operand whose type has the shape the model gives its form, this is classify_ir_expr *)
Lemma classify_typed_is_ir_expr c T : shape_of_ty T = cform_shape c -> classify_typed c T = classify_ir_expr c.
Proof. unfold classify_typed, classify_ir_expr. intros <-. destruct T; reflexivity. Qed.

Lemma classify_all_indices ops :
  match classify_all ops with Gep.Ok l => Gep.Ok (map snd l) | Gep.Panic => Gep.Panic end =
  all_ok (map (fun o : operand => classify_typed (snd (fst o)) (snd o)) ops).
Proof.
  induction ops as [|[[w c] T] r IH]; [reflexivity|]. cbn [map all_ok classify_all classify_op fst snd].
  rewrite <- IH. unfold classify_typed.
  destruct (get_index_ir c) as [ix|]; [|destruct T; reflexivity].
  destruct (classify_all r) as [l|]; destruct T; reflexivity.
Qed.

Section ExprWhole.
  Variable call : string -> string -> GoEval.val -> res GoEval.val.
  Hypothesis call_getIndex : forall w c t, call "" "getIndex" (reify_operand w c t) = expect_idx (get_index_ir c).
  Hypothesis call_ResultType : forall elem src sis,
    call "" "gep.ResultType" (VTuple [reify_ty elem; reify_ty src; slice_val (map reify_si sis)]) =
    GepRefinement.expect (result_type no_bodies elem src (map snd sis)).

  Lemma gep_expr_body elem src ops :
    run_body impls call [] ge_printer (VTuple [reify_ty elem; reify_ty src; VList (map op_val ops)]) =
    GepRefinement.expect (gep_expr_type elem src ops).
  Proof.
    unfold run_body, ge_printer. cbn [p_recv p_body].
    change (split_commas "elemType,src,indices") with ["elemType"; "src"; "indices"].
    cbn [combine]. rewrite app_nil_r.
    rewrite ge_body_split, exec_app.
    change (exec impls call [SVar "idxs"] [("elemType", reify_ty elem); ("src", reify_ty src); ("indices", VList (map op_val ops))] [])
      with (GoEval.Ok (("idxs", slice_val (map reify_si [])) :: [("elemType", reify_ty elem); ("src", reify_ty src); ("indices", VList (map op_val ops))], @nil byte, Run)).
    cbn [stopped]. rewrite exec_app.
    rewrite (ge_loop_stmt call _ (map op_val ops)) by reflexivity.
    rewrite (ge_loop_spec call _ _ _ call_getIndex ops [] 0).
    unfold gep_expr_type. rewrite <- classify_all_indices.
    destruct (classify_all ops) as [l|]; [|reflexivity].
    cbn [stopped app]. unfold exec. cbn. rewrite call_ResultType.
    destruct (result_type no_bodies elem src (map snd l)); reflexivity.
  Qed.
End ExprWhole.

Definition run_gep_expr_type (fuel : nat) (elem src : ty) (ops : list operand) : res GoEval.val :=
  call_from "constant" [] fuel "" "gepExprType" (VTuple [reify_ty elem; reify_ty src; VList (map op_val ops)]).

Lemma call_from_getIndex pkg f w c t : pkg = "constant" \/ pkg = "ir" ->
  call_from pkg [] (S (S f)) "" "getIndex" (reify_operand w c t) = expect_idx (get_index_ir c).
Proof. intros [-> | ->]; [apply generated_constant_get_index_is_model|apply generated_ir_get_index_is_model]. Qed.

(* (c) *)
Theorem generated_gep_expr_type_is_model : forall f elem src ops,
  run_gep_expr_type (S (S (S f))) elem src ops = GepRefinement.expect (gep_expr_type elem src ops).
Proof.
  intros f elem src ops. unfold run_gep_expr_type. rewrite call_from_S, resolve_gepExprType.
  change (sole_argument ge_printer ?v) with v.
  apply gep_expr_body.
  - intros w c t. apply call_from_getIndex. left; reflexivity.
  - intros e s sis. apply call_from_ResultType. left; reflexivity.
Qed.
Print Assumptions generated_gep_expr_type_is_model.

(* in the words of Model/Gep.v: when every operand's type has the shape of its form, the classifier is classify_ir_expr *)
Corollary generated_gep_expr_type_is_classify_ir_expr : forall f elem src ops,
  Forall (fun o : operand => shape_of_ty (snd o) = cform_shape (snd (fst o))) ops ->
  run_gep_expr_type (S (S (S f))) elem src ops =
  GepRefinement.expect (match all_ok (map (fun o : operand => classify_ir_expr (snd (fst o))) ops) with
                        | Gep.Ok idxs => result_type no_bodies elem src idxs
                        | Gep.Panic => Gep.Panic
                        end).
Proof.
  intros f elem src ops H. rewrite generated_gep_expr_type_is_model. unfold gep_expr_type.
  replace (map (fun o : operand => classify_typed (snd (fst o)) (snd o)) ops) with (map (fun o : operand => classify_ir_expr (snd (fst o))) ops); [reflexivity|].
  induction H as [|o r Ho _ IH]; [reflexivity|]. cbn [map]. rewrite IH, (classify_typed_is_ir_expr _ _ Ho). reflexivity.
Qed.

(* ---- gepInstType (ir/inst_memory.go) ---- *)
Definition gi_inst_body : list gstmt :=
  Eval vm_compute in match find_printer "" "gepInstType" with Some p => p_body p | None => [] end.
Definition gi_inst_loop : list gstmt :=
  Eval vm_compute in match nth 1 gi_inst_body SStop with SFor _ _ _ b => b | _ => [] end.
Definition gi_inst_printer : printer :=
  {| p_pkg := "ir"; p_type := ""; p_method := "gepInstType"; p_recv := "elemType,src,indices"; p_body := gi_inst_body |}.
Lemma resolve_gepInstType : resolve "ir" "" "gepInstType" = Some gi_inst_printer.
Proof. vm_compute. reflexivity. Qed.
Lemma gi_inst_body_split : gi_inst_body = ([SVar "idxs"] ++ [SFor "_" "index" (EId "indices") gi_inst_loop] ++ skipn 2 gi_inst_body)%list.
Proof. reflexivity. Qed.

(* an index operand of an instruction: a constant (as above), or a value that is not a constant -- an object of some
   other dynamic type (instruction, parameter, ...: any type name outside package constant) whose Type() is T *)
Inductive inst_operand :=
| OConst (inrange : bool) (c : cform) (T : ty)
| OValue (vty : string) (T : ty).
Definition inst_val (o : inst_operand) : GoEval.val :=
  match o with
  | OConst w c T => reify_operand w c (reify_ty T)
  | OValue vty T => VObj vty [("Type()", reify_ty T)]
  end.
Definition well_named (o : inst_operand) : Prop :=
  match o with OConst _ _ _ => True | OValue vty _ => String.prefix "constant." vty = false end.
(* the model's operand form *)
Definition iform_of (o : inst_operand) : iform :=
  match o with OConst _ c _ => IConst c | OValue _ T => IValue (shape_of_ty T) end.
(* the index the loop appends, with the order in which its fields are listed *)
Definition classify_inst_op (o : inst_operand) : Gep.outcome (bool * index) :=
  match o with
  | OConst _ c _ => match get_index_ir c with Gep.Ok ix => Gep.Ok (nonsplat ix, ix) | Gep.Panic => Gep.Panic end
  | OValue _ T => Gep.Ok (false, no_val (shape_len (shape_of_ty T)))
  end.
Fixpoint classify_inst_all (ops : list inst_operand) : Gep.outcome (list (bool * index)) :=
  match ops with
  | [] => Gep.Ok []
  | o :: r =>
    match classify_inst_op o with
    | Gep.Ok si => match classify_inst_all r with Gep.Ok l => Gep.Ok (si :: l) | Gep.Panic => Gep.Panic end
    | Gep.Panic => Gep.Panic
    end
  end.
Definition gep_inst_type (elem src : ty) (ops : list inst_operand) : Gep.outcome ty :=
  match all_ok (map (fun o => classify_ir_inst (iform_of o)) ops) with
  | Gep.Ok idxs => result_type no_bodies elem src idxs
  | Gep.Panic => Gep.Panic
  end.
Lemma classify_inst_all_indices ops :
  match classify_inst_all ops with Gep.Ok l => Gep.Ok (map snd l) | Gep.Panic => Gep.Panic end =
  all_ok (map (fun o => classify_ir_inst (iform_of o)) ops).
Proof.
  induction ops as [|[w c T|vty T] r IH]; [reflexivity| |]; cbn [map all_ok classify_inst_all classify_inst_op iform_of classify_ir_inst];
    rewrite <- IH.
  - destruct (get_index_ir c) as [ix|]; [|reflexivity]. destruct (classify_inst_all r); reflexivity.
  - destruct (classify_inst_all r); reflexivity.
Qed.
Lemma operand_is_constant w c t : exists oty ofs, reify_operand w c t = VObj oty ofs /\ String.prefix "constant." oty = true.
Proof. destruct w, c; do 2 eexists; split; reflexivity. Qed.
Lemma not_constant_name vty : String.prefix "constant." vty = false -> (vty =? "constant.Constant") = false.
Proof. intros H. apply String.eqb_neq. intros ->. discriminate H. Qed.

Local Arguments String.prefix : simpl never.

Section InstLoop.
  Variable call : string -> string -> GoEval.val -> res GoEval.val.
  Variables v1 v2 v3 : GoEval.val.
  Let rest : env := [("elemType", v1); ("src", v2); ("indices", v3)].

  Definition BI : env -> bytes -> res (env * bytes * flow) :=
    fun en buf => match exec impls call gi_inst_loop en buf with
                  | GoEval.Ok (en1, buf1, stop) => GoEval.Ok (truncate (List.length en) en1, buf1, stop)
                  | Fail w => Fail w
                  end.

  Lemma inst_iter_const oty ofs s ix acc : String.prefix "constant." oty = true ->
    call "" "getIndex" (VObj oty ofs) = GoEval.Ok (reify_idx_as s ix) ->
    BI (("index", VObj oty ofs) :: ("idxs", slice_val acc) :: rest) [] =
    GoEval.Ok (("index", VObj oty ofs) :: ("idxs", slice_val (acc ++ [reify_idx_as s ix])) :: rest, [], Run).
  Proof.
    intros Hk Hc. rewrite slice_val_snoc. unfold BI, gi_inst_loop, exec, rest. cbn. unfold impls. cbn. rewrite Hk. cbn. rewrite ?orb_true_r. cbn. rewrite Hc. cbn.
    destruct s, acc; reflexivity.
  Qed.
  Lemma inst_iter_const_panic oty ofs acc : String.prefix "constant." oty = true ->
    call "" "getIndex" (VObj oty ofs) = Fail "panic" ->
    BI (("index", VObj oty ofs) :: ("idxs", slice_val acc) :: rest) [] = Fail "panic".
  Proof.
    intros Hk Hc. unfold BI, gi_inst_loop, exec, rest. cbn. unfold impls. cbn. rewrite Hk. cbn. rewrite ?orb_true_r. cbn. rewrite Hc. reflexivity.
  Qed.
  Lemma inst_iter_value vty T acc : String.prefix "constant." vty = false ->
    BI (("index", VObj vty [("Type()", reify_ty T)]) :: ("idxs", slice_val acc) :: rest) [] =
    GoEval.Ok (("index", VObj vty [("Type()", reify_ty T)]) :: ("idxs", slice_val (acc ++ [reify_idx (no_val (shape_len (shape_of_ty T)))])) :: rest, [], Run).
  Proof.
    intros Hk. pose proof (not_constant_name vty Hk) as Hn.
    rewrite slice_val_snoc. unfold BI, gi_inst_loop, exec, rest. cbn. unfold impls. cbn. rewrite Hk, Hn. cbn.
    destruct T, acc; reflexivity.
  Qed.

  Hypothesis call_getIndex : forall w c t, call "" "getIndex" (reify_operand w c t) = expect_idx (get_index_ir c).

  Lemma inst_loop_spec : forall ops acc i, Forall well_named ops ->
    for_loop BI "_" "index" (map inst_val ops) i (("idxs", slice_val (map reify_si acc)) :: rest) [] =
    match classify_inst_all ops with
    | Gep.Ok l => GoEval.Ok (("idxs", slice_val (map reify_si (acc ++ l))) :: rest, [], Run)
    | Gep.Panic => Fail "panic"
    end.
  Proof.
    induction ops as [|o r IH]; intros acc i H.
    - cbn [classify_inst_all]. rewrite app_nil_r. reflexivity.
    - inversion H as [|? ? Ho Hr]; subst. cbn [map classify_inst_all]. unfold for_loop; fold for_loop.
      change (loop_env "_" "index" i (inst_val o) (("idxs", slice_val (map reify_si acc)) :: rest))
        with (("index", inst_val o) :: ("idxs", slice_val (map reify_si acc)) :: rest).
      destruct o as [w c T|vty T]; cbn [inst_val classify_inst_op].
      + pose proof (call_getIndex w c (reify_ty T)) as Hc.
        destruct (operand_is_constant w c (reify_ty T)) as (oty & ofs & E & Hk). rewrite E in *.
        destruct (get_index_ir c) as [ix|]; cbn [expect_idx] in Hc.
        * rewrite (inst_iter_const oty ofs _ ix (map reify_si acc) Hk Hc).
          cbn [stopped is_cont andb negb]. unfold truncate. cbn [List.length Nat.sub skipn rest].
          change [reify_idx_as (nonsplat ix) ix] with (map reify_si [(nonsplat ix, ix)]).
          rewrite <- map_app. fold rest. rewrite (IH _ _ Hr).
          destruct (classify_inst_all r) as [l|]; [|reflexivity]. rewrite <- app_assoc. reflexivity.
        * rewrite (inst_iter_const_panic oty ofs _ Hk Hc). reflexivity.
      + rewrite (inst_iter_value vty T _ Ho).
        cbn [stopped is_cont andb negb]. unfold truncate. cbn [List.length Nat.sub skipn rest].
        change [reify_idx (no_val (shape_len (shape_of_ty T)))] with (map reify_si [(false, no_val (shape_len (shape_of_ty T)))]).
        rewrite <- map_app. fold rest. rewrite (IH _ _ Hr).
        destruct (classify_inst_all r) as [l|]; [|reflexivity]. rewrite <- app_assoc. reflexivity.
  Qed.

  Lemma inst_loop_stmt (en : env) l :
    lookup "indices" en = Some (VList l) ->
    exec impls call [SFor "_" "index" (EId "indices") gi_inst_loop] en [] =
    match for_loop BI "_" "index" l 0 en [] with
    | GoEval.Ok (en1, buf1, fl) => GoEval.Ok (en1, buf1, fl)
    | Fail w => Fail w
    end.
  Proof.
    intros H. unfold exec. unfold exec1; fold exec1. cbn [eval]; rewrite H.
    match goal with |- context [for_loop ?f _ _ _ _ _ _] => change f with BI end.
    destruct (for_loop BI "_" "index" l 0 en []) as [[[en1 buf1] fl]|w]; [|reflexivity].
    destruct fl; reflexivity.
  Qed.
End InstLoop.

Section InstWhole.
  Variable call : string -> string -> GoEval.val -> res GoEval.val.
  Hypothesis call_getIndex : forall w c t, call "" "getIndex" (reify_operand w c t) = expect_idx (get_index_ir c).
  Hypothesis call_ResultType : forall elem src sis,
    call "" "gep.ResultType" (VTuple [reify_ty elem; reify_ty src; slice_val (map reify_si sis)]) =
    GepRefinement.expect (result_type no_bodies elem src (map snd sis)).

  Lemma gep_inst_body elem src ops : Forall well_named ops ->
    run_body impls call [] gi_inst_printer (VTuple [reify_ty elem; reify_ty src; VList (map inst_val ops)]) =
    GepRefinement.expect (gep_inst_type elem src ops).
  Proof.
    intros H. unfold run_body, gi_inst_printer. cbn [p_recv p_body].
    change (split_commas "elemType,src,indices") with ["elemType"; "src"; "indices"].
    cbn [combine]. rewrite app_nil_r.
    rewrite gi_inst_body_split, exec_app.
    change (exec impls call [SVar "idxs"] [("elemType", reify_ty elem); ("src", reify_ty src); ("indices", VList (map inst_val ops))] [])
      with (GoEval.Ok (("idxs", slice_val (map reify_si [])) :: [("elemType", reify_ty elem); ("src", reify_ty src); ("indices", VList (map inst_val ops))], @nil byte, Run)).
    cbn [stopped]. rewrite exec_app.
    rewrite (inst_loop_stmt call _ (map inst_val ops)) by reflexivity.
    rewrite (inst_loop_spec call _ _ _ call_getIndex ops [] 0 H).
    unfold gep_inst_type. rewrite <- classify_inst_all_indices.
    destruct (classify_inst_all ops) as [l|]; [|reflexivity].
    cbn [stopped app]. unfold exec. cbn. rewrite call_ResultType.
    destruct (result_type no_bodies elem src (map snd l)); reflexivity.
  Qed.
End InstWhole.

Definition run_gep_inst_type (fuel : nat) (elem src : ty) (ops : list inst_operand) : res GoEval.val :=
  call_from "ir" [] fuel "" "gepInstType" (VTuple [reify_ty elem; reify_ty src; VList (map inst_val ops)]).

(* (d) *)
Theorem generated_gep_inst_type_is_model : forall f elem src ops, Forall well_named ops ->
  run_gep_inst_type (S (S (S f))) elem src ops = GepRefinement.expect (gep_inst_type elem src ops).
Proof.
  intros f elem src ops H. unfold run_gep_inst_type. rewrite call_from_S, resolve_gepInstType.
  change (sole_argument gi_inst_printer ?v) with v.
  apply gep_inst_body; [| |exact H].
  - intros w c t. apply call_from_getIndex. right; reflexivity.
  - intros e s sis. apply call_from_ResultType. right; reflexivity.
Qed.
Print Assumptions generated_gep_inst_type_is_model.

(* ---- the Type() methods of the getelementptr expression and instruction: the first call fills the cache ---- *)
Definition expr_Type_printer : printer :=
  Eval vm_compute in match find_printer "constant.ExprGetElementPtr" "Type" with Some p => p | None => gep_printer end.
Definition inst_Type_printer : printer :=
  Eval vm_compute in match find_printer "ir.InstGetElementPtr" "Type" with Some p => p | None => gep_printer end.
Lemma resolve_expr_Type pkg : resolve pkg "constant.ExprGetElementPtr" "Type" = Some expr_Type_printer.
Proof. vm_compute. reflexivity. Qed.
Lemma resolve_inst_Type pkg : resolve pkg "ir.InstGetElementPtr" "Type" = Some inst_Type_printer.
Proof. vm_compute. reflexivity. Qed.

(* the objects: the cache Typ is empty; all the method asks of the source operand is its type *)
Definition gep_expr_object (elem src : ty) (srckind : string) (ops : list operand) : GoEval.val :=
  VObj "constant.ExprGetElementPtr"
    [("Typ", VNil); ("ElemType", reify_ty elem); ("Src", VObj srckind [("Type()", reify_ty src)]); ("Indices", VList (map op_val ops))].
Definition gep_inst_object (elem src : ty) (srckind : string) (ops : list inst_operand) : GoEval.val :=
  VObj "ir.InstGetElementPtr"
    [("Typ", VNil); ("ElemType", reify_ty elem); ("Src", VObj srckind [("Type()", reify_ty src)]); ("Indices", VList (map inst_val ops))].

Section TypeMethods.
  Variable call : string -> string -> GoEval.val -> res GoEval.val.
  Lemma expr_Type_body elem src srckind ops :
    run_body impls call [] expr_Type_printer (gep_expr_object elem src srckind ops) =
    call "" "gepExprType" (VTuple [reify_ty elem; reify_ty src; VList (map op_val ops)]).
  Proof.
    unfold run_body, expr_Type_printer, gep_expr_object, exec. cbn.
    destruct (call "" "gepExprType" _) as [v|w]; reflexivity.
  Qed.
  Lemma inst_Type_body elem src srckind ops :
    run_body impls call [] inst_Type_printer (gep_inst_object elem src srckind ops) =
    call "" "gepInstType" (VTuple [reify_ty elem; reify_ty src; VList (map inst_val ops)]).
  Proof.
    unfold run_body, inst_Type_printer, gep_inst_object, exec. cbn.
    destruct (call "" "gepInstType" _) as [v|w]; reflexivity.
  Qed.
End TypeMethods.

Theorem generated_gep_expr_Type_method_is_model : forall f elem src srckind ops,
  call_from "constant" [] (S (S (S (S f)))) "constant.ExprGetElementPtr" "Type" (gep_expr_object elem src srckind ops) =
  GepRefinement.expect (gep_expr_type elem src ops).
Proof.
  intros. rewrite call_from_S, resolve_expr_Type.
  change (sole_argument expr_Type_printer ?v) with v. rewrite expr_Type_body.
  apply generated_gep_expr_type_is_model.
Qed.
Theorem generated_gep_inst_Type_method_is_model : forall f elem src srckind ops, Forall well_named ops ->
  call_from "ir" [] (S (S (S (S f)))) "ir.InstGetElementPtr" "Type" (gep_inst_object elem src srckind ops) =
  GepRefinement.expect (gep_inst_type elem src ops).
Proof.
  intros f elem src srckind ops H. rewrite call_from_S, resolve_inst_Type.
  change (sole_argument inst_Type_printer ?v) with v. rewrite inst_Type_body.
  apply generated_gep_inst_type_is_model. exact H.
Qed.
Print Assumptions generated_gep_expr_Type_method_is_model.
Print Assumptions generated_gep_inst_Type_method_is_model.

(* ---- asm/inst_memory.go getIndex: the parser's copy, on AST nodes ----
   The node of an integer constant carries its text; gen.irIntConst (regenerated: asm.irIntConst) reads it at i64 with
   constant.NewIntFromString.  That constructor is replaced here by its model: IntLitRefinement.expected, which
   Proofs/IntLitRefinement.v (generated_new_int_is_parse_int, C09) proves equal to the regenerated constructor under
   that file's knot (math/big given its mathematical meaning); big.Int.Int64 is the low 64 bits as signed. *)
Definition asm_lib : library := fun ty m v =>
  match ty, m, v with
  | "", "constant.NewIntFromString", VTuple [VObj "types.IntType" [_; ("BitSize", VInt w)]; VStr s] =>
      Some (IntLitRefinement.expected (Z.to_N w) s)
  | "big.Int", "Int64", VObj _ [(_, VInt z)] => Some (GoEval.Ok (VInt (int64_of z)))
  | _, _, _ => None
  end.
Definition asm_globals : env :=
  [("types", VObj "pkg" [("I64", reify_ty (TInt 64))]); ("gen", VObj "asm.generator" [])].

(* AST nodes of index operands *)
Inductive aelem := AInt (s : bytes) | AOtherElem.
Inductive aform :=
| AIntConst (s : bytes)          (* the text of the literal *)
| ABoolConst (b : bool)
| AZeroInit
| AVector (els : list aelem)
| APtrToInt
| AUndef
| APoison
| AExpr                          (* any other constant expression: add, getelementptr, ... *)
| AOther.                        (* null, float, struct, ... *)
Definition int_node (s : bytes) : GoEval.val := VObj "ast.IntConst" [("IntLit()", VObj "ast.IntLit" [("Text()", VStr s)])].
Definition reify_aelem (e : aelem) : GoEval.val :=
  VObj "ast.TypeConst" [("Val()", match e with AInt s => int_node s | AOtherElem => VObj "ast.NullConst" [] end)].
Definition reify_ast (a : aform) : GoEval.val :=
  match a with
  | AIntConst s => int_node s
  | ABoolConst b => VObj "ast.BoolConst" [("BoolLit()", VObj "ast.BoolLit" [("Text()", VStr (bytes_of_string (if b then "true" else "false")))])]
  | AZeroInit => VObj "ast.ZeroInitializerConst" []
  | AVector els => VObj "ast.VectorConst" [("Elems()", VList (map reify_aelem els))]
  | APtrToInt => VObj "ast.PtrToIntExpr" []
  | AUndef => VObj "ast.UndefConst" []
  | APoison => VObj "ast.PoisonConst" []
  | AExpr => VObj "ast.AddExpr" []
  | AOther => VObj "ast.NullConst" []
  end.
(* the value of a literal read at i64 (Model/IntLit.v); the lexer produces only texts that have one *)
Definition lit_value (s : bytes) : option Z := match IntLit.parse_int 64 s with IntLit.Ok z => Some z | _ => None end.
Definition valid_elem (e : aelem) : Prop := match e with AInt s => lit_value s <> None | AOtherElem => True end.
Definition valid (a : aform) : Prop :=
  match a with
  | AIntConst s => lit_value s <> None
  | AVector els => Forall valid_elem els
  | _ => True
  end.
Definition value_of (s : bytes) : Z := match lit_value s with Some z => z | None => 0 end.
Definition celem_of (e : aelem) : celem := match e with AInt s => EInt (value_of s) | AOtherElem => Gep.EOther end.
(* the model's operand form *)
Definition cform_of (a : aform) : cform :=
  match a with
  | AIntConst s => CInt (value_of s)
  | ABoolConst b => CBoolLit b
  | AZeroInit => CZero Scalar
  | AVector els => CVec (map celem_of els)
  | APtrToInt => CPtrToInt Scalar
  | AUndef => CUndef Scalar
  | APoison => CPoison Scalar
  | AExpr => CExpr Scalar
  | AOther => COther
  end.

(* the bodies of package asm beyond the constructors are in the table Gen/Printers.asm_rest *)
Definition asm_table : list printer := (printers ++ asm_rest)%list.
Definition ag_body : list gstmt :=
  Eval vm_compute in match find_in asm_table "" "asm.getIndex" with Some p => p_body p | None => [] end.
Definition ag_printer : printer :=
  {| p_pkg := "asm"; p_type := ""; p_method := "asm.getIndex"; p_recv := "index"; p_body := ag_body |}.
Lemma resolve_asm_getIndex : resolve_in asm_table "asm" "" "getIndex" = Some ag_printer.
Proof. vm_compute. reflexivity. Qed.
Definition ag_switch : gstmt := Eval vm_compute in nth 0 ag_body SStop.
Lemma ag_body_is : ag_body = [ag_switch].
Proof. reflexivity. Qed.
Definition ag_vector_case : list gstmt :=
  Eval vm_compute in match ag_switch with STypeSwitch _ _ cases _ => match nth 3 cases ([], []) with (_, b) => b end | _ => [] end.
Definition ag_elem_loop : list gstmt :=
  Eval vm_compute in match nth 3 ag_vector_case SStop with SFor _ _ _ b => b | _ => [] end.
Definition ag_vec_pre : list gstmt := Eval vm_compute in firstn 3 ag_vector_case.
Definition ag_vec_post : list gstmt := Eval vm_compute in skipn 4 ag_vector_case.
Lemma ag_vector_case_split :
  ag_vector_case = (ag_vec_pre ++ [SFor "i" "elem" (EId "elems") ag_elem_loop] ++ ag_vec_post)%list.
Proof. reflexivity. Qed.

Local Arguments IntLit.parse_int : simpl never.
Local Arguments IntLitRefinement.expected : simpl never.

Section AsmGetIndexBody.
  Variable call : string -> string -> GoEval.val -> res GoEval.val.
  Hypothesis call_NewIndex : forall v,
    call "" "gep.NewIndex" (VTuple [v]) = GoEval.Ok (VObj "gep.Index" [("HasVal", VBool true); ("Val", v); ("VectorLen", VInt 0)]).
  (* gen.irIntConst(types.I64, node) *)
  Hypothesis call_irIntConst : forall s,
    call "asm.generator" "irIntConst" (VTuple [VObj "asm.generator" []; reify_ty (TInt 64); int_node s]) = IntLitRefinement.expected 64 s.
  Hypothesis call_Int64 : forall z, call "big.Int" "Int64" (IntLitRefinement.bigv z) = GoEval.Ok (VInt (int64_of z)).
  Hypothesis call_boolLit : forall b : bool,
    call "" "boolLit" (VObj "ast.BoolLit" [("Text()", VStr (bytes_of_string (if b then "true" else "false")))]) = GoEval.Ok (VBool b).

  Lemma expected_valid s : lit_value s <> None ->
    exists c, IntLitRefinement.expected 64 s = GoEval.Ok (VTuple [VObj "constant.Int" [("Typ", c); ("X", IntLitRefinement.bigv (value_of s))]; VNil]).
  Proof.
    unfold lit_value, value_of, lit_value, IntLitRefinement.expected. destruct (IntLit.parse_int 64 s) as [z| |]; try congruence.
    intros _. unfold IntLitRefinement.cint. destruct (bytes_eqb s IntLit.s_true || bytes_eqb s IntLit.s_false); eexists; reflexivity.
  Qed.

  Definition BA : env -> bytes -> res (env * bytes * flow) :=
    fun en buf => match exec impls call ag_elem_loop en buf with
                  | GoEval.Ok (en1, buf1, stop) => GoEval.Ok (truncate (List.length en) en1, buf1, stop)
                  | Fail w => Fail w
                  end.

  Section Vector.
    Variable L : list GoEval.val.
    Let VEC : GoEval.val := VObj "ast.VectorConst" [("Elems()", VList L)].
    Let EN (v : Z) : env := ("val", VInt v) :: ("elems", VList L) :: ("index", VEC) :: ("index", VEC) :: asm_globals.
    Let mixed : GoEval.val :=
      VObj "gep.Index" [("HasVal", VBool false); ("VectorLen", VInt (Z.of_nat (List.length L))); ("Val", VInt 0)].

    Lemma aelem_first s : lit_value s <> None ->
      BA (("elem", reify_aelem (AInt s)) :: ("i", VInt 0) :: EN 0) [] =
      GoEval.Ok (("elem", reify_aelem (AInt s)) :: ("i", VInt 0) :: EN (int64_of (value_of s)), [], Run).
    Proof.
      intros H. destruct (expected_valid s H) as (c & E).
      unfold BA, ag_elem_loop, exec. cbn. rewrite call_irIntConst, E. cbn. rewrite call_Int64. reflexivity.
    Qed.
    Lemma aelem_next s p v : lit_value s <> None ->
      BA (("elem", reify_aelem (AInt s)) :: ("i", VInt (Zpos p)) :: EN v) [] =
      GoEval.Ok (("elem", reify_aelem (AInt s)) :: ("i", VInt (Zpos p)) :: EN v, [], if (int64_of (value_of s) =? v)%Z then Run else Ret mixed).
    Proof.
      intros H. destruct (expected_valid s H) as (c & E).
      unfold BA, ag_elem_loop, exec. cbn. rewrite call_irIntConst, E. cbn. rewrite call_Int64. cbn.
      destruct (int64_of (value_of s) =? v)%Z; reflexivity.
    Qed.
    Lemma aelem_other i v : BA (("elem", reify_aelem AOtherElem) :: ("i", VInt i) :: EN v) [] = Fail "panic".
    Proof. reflexivity. Qed.

    Lemma aelem_loop_tail n : forall els p v, Forall valid_elem els ->
      for_loop BA "i" "elem" (map reify_aelem els) (Zpos p) (EN v) [] =
      match splat_value (map celem_of els) (Some v) n with
      | Gep.Ok ix => GoEval.Ok (EN v, [], if has_val ix then Run else Ret mixed)
      | Gep.Panic => Fail "panic"
      end.
    Proof.
      induction els as [|[s|] r IH]; intros p v H; cbn [map splat_value celem_of]; unfold for_loop; fold for_loop.
      - reflexivity.
      - inversion H as [|? ? Hs Hr]; subst.
        change (loop_env "i" "elem" (Zpos p) (reify_aelem (AInt s)) (EN v)) with (("elem", reify_aelem (AInt s)) :: ("i", VInt (Zpos p)) :: EN v).
        rewrite (aelem_next s p v Hs). destruct (int64_of (value_of s) =? v)%Z; [|reflexivity].
        cbn [stopped is_cont andb negb]. change (Zpos p + 1)%Z with (Zpos (p + 1)). apply IH. exact Hr.
      - change (loop_env "i" "elem" (Zpos p) (reify_aelem AOtherElem) (EN v)) with (("elem", reify_aelem AOtherElem) :: ("i", VInt (Zpos p)) :: EN v).
        rewrite aelem_other. reflexivity.
    Qed.

    Lemma avec_pre : L <> [] -> exec impls call ag_vec_pre (("index", VEC) :: ("index", VEC) :: asm_globals) [] = GoEval.Ok (EN 0, [], Run).
    Proof.
      intros H. assert ((Z.of_nat (List.length L) =? 0)%Z = false) as E by (destruct L; [congruence|reflexivity]).
      unfold ag_vec_pre, exec. cbn. rewrite E. reflexivity.
    Qed.
    Lemma avec_loop_stmt v :
      exec impls call [SFor "i" "elem" (EId "elems") ag_elem_loop] (EN v) [] =
      match for_loop BA "i" "elem" L 0 (EN v) [] with
      | GoEval.Ok (en1, buf1, fl) => GoEval.Ok (en1, buf1, fl)
      | Fail w => Fail w
      end.
    Proof.
      unfold exec. unfold exec1; fold exec1. cbn [eval lookup String.eqb Ascii.eqb Bool.eqb EN].
      match goal with |- context [for_loop ?f _ _ _ _ _ _] => change f with BA end.
      destruct (for_loop BA "i" "elem" L 0 _ []) as [[[en1 buf1] fl]|w]; [|reflexivity].
      destruct fl; reflexivity.
    Qed.
    Lemma avec_post v : exec impls call ag_vec_post (EN v) [] =
      GoEval.Ok (EN v, [], Ret (VObj "gep.Index" [("HasVal", VBool true); ("Val", VInt v); ("VectorLen", VInt (Z.of_nat (List.length L)))])).
    Proof. reflexivity. Qed.
  End Vector.

  Lemma avector_case els : Forall valid_elem els ->
    let VEC := VObj "ast.VectorConst" [("Elems()", VList (map reify_aelem els))] in
    match vec_index (map celem_of els) with
    | Gep.Ok ix => exists en', exec impls call ag_vector_case (("index", VEC) :: ("index", VEC) :: asm_globals) [] = GoEval.Ok (en', [], Ret (reify_idx_as (nonsplat ix) ix))
    | Gep.Panic => exec impls call ag_vector_case (("index", VEC) :: ("index", VEC) :: asm_globals) [] = Fail "panic"
    end.
  Proof.
    intros Hv VEC. destruct els as [|e r].
    - eexists. reflexivity.
    - assert (Hlen : Z.of_nat (List.length (map reify_aelem (e :: r))) = Z.of_N (N.of_nat (List.length (map celem_of (e :: r))))) by (rewrite !map_length; lia).
      assert (Hne : map reify_aelem (e :: r) <> []) by discriminate.
      set (n := N.of_nat (List.length (map celem_of (e :: r)))) in *.
      assert (Hn : (n =? 0)%N = false) by (apply N.eqb_neq; unfold n; cbn [List.length map]; lia).
      unfold vec_index. cbn [map]. fold n. change (celem_of e :: map celem_of r) with (map celem_of (e :: r)). fold n.
      assert (Hrun : exec impls call ag_vector_case (("index", VEC) :: ("index", VEC) :: asm_globals) [] =
                match for_loop BA "i" "elem" (map reify_aelem (e :: r)) 0 (("val", VInt 0) :: ("elems", VList (map reify_aelem (e :: r))) :: ("index", VEC) :: ("index", VEC) :: asm_globals) [] with
                | GoEval.Ok (en1, buf1, fl) => if stopped fl then GoEval.Ok (en1, buf1, fl) else exec impls call ag_vec_post en1 buf1
                | Fail w => Fail w
                end).
      { rewrite ag_vector_case_split, exec_app. unfold VEC. rewrite (avec_pre _ Hne). cbn [stopped].
        rewrite exec_app, avec_loop_stmt.
        destruct (for_loop BA "i" "elem" (map reify_aelem (e :: r)) 0 _ []) as [[[en1 buf1] fl]|w]; reflexivity. }
      rewrite Hrun. clear Hrun. cbn [map]. unfold for_loop; fold for_loop.
      inversion Hv as [|? ? He Hr]; subst.
      destruct e as [s|].
      + match goal with |- context [loop_env "i" "elem" 0 ?x ?en] => change (loop_env "i" "elem" 0 x en) with (("elem", x) :: ("i", VInt 0) :: en) end.
        unfold VEC. rewrite (aelem_first _ s He). cbn [stopped is_cont andb negb]. unfold truncate. cbn [List.length Nat.sub skipn asm_globals].
        change (0 + 1)%Z with 1%Z. fold (map reify_aelem (AInt s :: r)). fold asm_globals.
        rewrite (aelem_loop_tail _ n r 1 _ Hr). cbn [splat_value celem_of].
        destruct (splat_value (map celem_of r) (Some (int64_of (value_of s))) n) as [ix|] eqn:E; [|reflexivity].
        rewrite (splat_value_some _ _ _ _ E). cbn [map] in Hlen. destruct (has_val ix).
        * cbn [stopped]. rewrite avec_post. eexists. unfold nonsplat, reify_idx_as, reify_idx. cbn [has_val Gep.val vector_len negb andb].
          rewrite Hlen. reflexivity.
        * cbn [stopped]. eexists. unfold nonsplat, reify_idx_as, no_val. cbn [has_val Gep.val vector_len negb andb]. rewrite Hn, Hlen. reflexivity.
      + reflexivity.
  Qed.

  Lemma aswitch_vector fs : let VEC := VObj "ast.VectorConst" fs in
    exec impls call [ag_switch] (("index", VEC) :: asm_globals) [] =
    match exec impls call ag_vector_case (("index", VEC) :: ("index", VEC) :: asm_globals) [] with
    | GoEval.Ok (en1, buf1, fl) => GoEval.Ok (truncate 3 (truncate 4 en1), buf1, fl)
    | Fail w => Fail w
    end.
  Proof.
    intros VEC.
    change (exec impls call [ag_switch] (("index", VEC) :: asm_globals) []) with
      (match (match (match exec impls call ag_vector_case (("index", VEC) :: ("index", VEC) :: asm_globals) [] with
                     | GoEval.Ok (en1, buf1, stop) => GoEval.Ok (truncate 4 en1, buf1, stop)
                     | Fail w => Fail w
                     end) with
              | GoEval.Ok (en1, buf1, stop) => GoEval.Ok (truncate 3 en1, buf1, stop)
              | Fail w => Fail w
              end) with
       | GoEval.Ok (en1, buf1, stop) => if stopped stop then GoEval.Ok (en1, buf1, stop) else GoEval.Ok (en1, buf1, Run)
       | Fail w => Fail w
       end).
    destruct (exec impls call ag_vector_case (("index", VEC) :: ("index", VEC) :: asm_globals) []) as [[[en1 buf1] fl]|w]; [destruct fl|]; reflexivity.
  Qed.

  Lemma asm_get_index_body a : valid a ->
    run_body impls call asm_globals ag_printer (reify_ast a) = expect_idx (get_index_asm (cform_of a)).
  Proof.
    intros Hv. unfold run_body, ag_printer, p_recv, p_body.
    change (split_commas "index") with ["index"]. rewrite ag_body_is.
    change ([("index", reify_ast a)] ++ asm_globals)%list with (("index", reify_ast a) :: asm_globals).
    destruct a; try (unfold ag_switch, exec; cbn; rewrite ?call_NewIndex; reflexivity).
    - (* integer literal *)
      destruct (expected_valid s Hv) as (c & E).
      unfold ag_switch, exec. cbn. rewrite call_irIntConst, E. cbn. rewrite call_Int64. cbn. rewrite call_NewIndex. reflexivity.
    - (* true / false *)
      unfold ag_switch, exec. cbn. rewrite call_boolLit. destruct b; cbn; rewrite call_NewIndex; reflexivity.
    - (* vector *)
      cbn [reify_ast get_index_asm cform_of]. rewrite aswitch_vector.
      pose proof (avector_case els Hv) as H. cbv zeta in H.
      destruct (vec_index (map celem_of els)) as [ix|].
      + destruct H as (en' & ->). reflexivity.
      + rewrite H. reflexivity.
  Qed.
End AsmGetIndexBody.

Definition irIntConst_printer : printer :=
  Eval vm_compute in match find_in asm_table "" "asm.irIntConst" with Some p => p | None => ag_printer end.
Definition boolLit_printer : printer :=
  Eval vm_compute in match find_in asm_table "" "asm.boolLit" with Some p => p | None => ag_printer end.
Lemma resolve_asm_NewIndex : resolve_in asm_table "asm" "" "gep.NewIndex" = Some new_index_printer.
Proof. vm_compute. reflexivity. Qed.
Lemma resolve_asm_boolLit : resolve_in asm_table "asm" "" "boolLit" = Some boolLit_printer.
Proof. vm_compute. reflexivity. Qed.
Lemma resolve_asm_irIntConst : resolve_in asm_table "asm" "asm.generator" "irIntConst" = None.
Proof. vm_compute. reflexivity. Qed.
Lemma find_asm_irIntConst : find_in asm_table "" ("asm" ++ "." ++ "irIntConst") = Some irIntConst_printer.
Proof. vm_compute. reflexivity. Qed.

Local Arguments call_in : simpl never.
(* gen and types are variables of package asm *)
Definition asm_globals_of (pkg : string) : env := if String.eqb pkg "asm" then asm_globals else [].
Definition asm_call (fuel : nat) : string -> string -> GoEval.val -> res GoEval.val := call_in asm_table asm_lib "asm" asm_globals_of fuel.

Lemma asm_call_NewIndex f v :
  asm_call (S f) "" "gep.NewIndex" (VTuple [v]) = GoEval.Ok (VObj "gep.Index" [("HasVal", VBool true); ("Val", v); ("VectorLen", VInt 0)]).
Proof. unfold asm_call. rewrite call_in_S. change (asm_lib "" "gep.NewIndex" (VTuple [v])) with (@None (res GoEval.val)). rewrite resolve_asm_NewIndex. reflexivity. Qed.
Lemma asm_call_Int64 f z : asm_call (S f) "big.Int" "Int64" (IntLitRefinement.bigv z) = GoEval.Ok (VInt (int64_of z)).
Proof. reflexivity. Qed.
Lemma asm_call_boolLit f (b : bool) :
  asm_call (S f) "" "boolLit" (VObj "ast.BoolLit" [("Text()", VStr (bytes_of_string (if b then "true" else "false")))]) = GoEval.Ok (VBool b).
Proof.
  unfold asm_call. rewrite call_in_S.
  change (asm_lib "" "boolLit" ?v) with (@None (res GoEval.val)). rewrite resolve_asm_boolLit. destruct b; reflexivity.
Qed.
Section IrIntConst.
  Variable call : string -> string -> GoEval.val -> res GoEval.val.
  Lemma irIntConst_body s R :
    call "" "constant.NewIntFromString" (VTuple [reify_ty (TInt 64); VStr s]) = R ->
    run_body impls call asm_globals irIntConst_printer (VTuple [reify_ty (TInt 64); int_node s]) = R.
  Proof.
    intros H. unfold run_body, irIntConst_printer, exec. cbn. rewrite H. destruct R as [[]|]; reflexivity.
  Qed.
End IrIntConst.
Lemma asm_call_irIntConst f s :
  asm_call (S (S f)) "asm.generator" "irIntConst" (VTuple [VObj "asm.generator" []; reify_ty (TInt 64); int_node s]) = IntLitRefinement.expected 64 s.
Proof.
  unfold asm_call. rewrite call_in_S.
  change (asm_lib "asm.generator" "irIntConst" ?v) with (@None (res GoEval.val)).
  rewrite resolve_asm_irIntConst. cbn [String.eqb Ascii.eqb Bool.eqb]. rewrite find_asm_irIntConst.
  change (sole_argument irIntConst_printer (drop_receiver (VTuple [VObj "asm.generator" []; reify_ty (TInt 64); int_node s])))
    with (VTuple [reify_ty (TInt 64); int_node s]).
  apply irIntConst_body. reflexivity.
Qed.

Definition run_asm_get_index (fuel : nat) (v : GoEval.val) : res GoEval.val := asm_call fuel "" "getIndex" v.
Lemma asm_globals_asm : asm_globals_of (p_pkg ag_printer) = asm_globals.
Proof. reflexivity. Qed.

(* (e) *)
Theorem generated_asm_get_index_is_model : forall f a, valid a ->
  run_asm_get_index (S (S (S f))) (reify_ast a) = expect_idx (get_index_asm (cform_of a)).
Proof.
  intros f a Hv. unfold run_asm_get_index, asm_call. rewrite call_in_S.
  change (asm_lib "" "getIndex" ?v) with (@None (res GoEval.val)). rewrite resolve_asm_getIndex.
  replace (sole_argument ag_printer (reify_ast a)) with (reify_ast a) by (destruct a; reflexivity).
  apply (asm_get_index_body (asm_call (S (S f)))).
  - intros v. apply asm_call_NewIndex.
  - intros s. apply asm_call_irIntConst.
  - intros z. apply asm_call_Int64.
  - intros b. apply asm_call_boolLit.
  - exact Hv.
Qed.
Print Assumptions generated_asm_get_index_is_model.

Example asm_get_index_examples :
  let t (s : string) := bytes_of_string s in
  run_asm_get_index 3 (reify_ast (AIntConst (t "-7"))) = GoEval.Ok (reify_idx (new_index (-7)))
  /\ run_asm_get_index 3 (reify_ast (AIntConst (t "18446744073709551615"))) = GoEval.Ok (reify_idx (new_index (-1)))
  /\ run_asm_get_index 3 (reify_ast (ABoolConst true)) = GoEval.Ok (reify_idx (new_index 1))
  /\ run_asm_get_index 3 (reify_ast (AVector [AInt (t "3"); AInt (t "3")])) = GoEval.Ok (reify_idx {| has_val := true; Gep.val := 3; vector_len := 2 |})
  /\ run_asm_get_index 3 (reify_ast (AVector [AInt (t "3"); AInt (t "4"); AOtherElem])) = GoEval.Ok (reify_idx_as true (no_val 3))
  /\ run_asm_get_index 3 (reify_ast AExpr) = Fail "panic"
  /\ run_asm_get_index 3 (reify_ast (AIntConst (t "12a"))) = Fail "panic".
Proof. vm_compute. repeat split. Qed.

(* ---- asm/inst_memory.go gepInstType: the type the parser computes for a getelementptr instruction ---- *)
Definition pg_body : list gstmt :=
  Eval vm_compute in match find_in asm_table "" "asm.gepInstType" with Some p => p_body p | None => [] end.
Definition pg_loop : list gstmt :=
  Eval vm_compute in match nth 1 pg_body SStop with SFor _ _ _ b => b | _ => [] end.
Definition pg_printer : printer :=
  {| p_pkg := "asm"; p_type := ""; p_method := "asm.gepInstType"; p_recv := "elemType,src,indices"; p_body := pg_body |}.
Lemma resolve_asm_gepInstType : resolve_in asm_table "asm" "" "gepInstType" = Some pg_printer.
Proof. vm_compute. reflexivity. Qed.
Lemma pg_body_split : pg_body = ([SVar "idxs"] ++ [SFor "_" "index" (EId "indices") pg_loop] ++ skipn 2 pg_body)%list.
Proof. reflexivity. Qed.

(* an index operand in the AST: ast.TypeValue, the type written in the text and the value -- a constant node (as above)
   or a node of another kind (a local identifier: any type name that is not an ast.Constant) *)
Inductive asm_operand :=
| PConst (a : aform) (T : ty)
| PValue (vty : string) (T : ty).
Definition asm_val (o : asm_operand) : GoEval.val :=
  VObj "ast.TypeValue"
    [("Val()", match o with PConst a _ => reify_ast a | PValue vty _ => VObj vty [] end);
     ("Typ()", reify_ty (match o with PConst _ T | PValue _ T => T end))].
Definition asm_well_formed (o : asm_operand) : Prop :=
  match o with
  | PConst a _ => valid a
  | PValue vty _ => is_ast_constant vty = false /\ vty <> "ast.Constant"
  end.
Definition asm_iform_of (o : asm_operand) : iform :=
  match o with PConst a _ => IConst (cform_of a) | PValue _ T => IValue (shape_of_ty T) end.
Definition classify_asm_op (o : asm_operand) : Gep.outcome (bool * index) :=
  match o with
  | PConst a _ => match get_index_asm (cform_of a) with Gep.Ok ix => Gep.Ok (nonsplat ix, ix) | Gep.Panic => Gep.Panic end
  | PValue _ T => Gep.Ok (false, no_val (shape_len (shape_of_ty T)))
  end.
Fixpoint classify_asm_all (ops : list asm_operand) : Gep.outcome (list (bool * index)) :=
  match ops with
  | [] => Gep.Ok []
  | o :: r =>
    match classify_asm_op o with
    | Gep.Ok si => match classify_asm_all r with Gep.Ok l => Gep.Ok (si :: l) | Gep.Panic => Gep.Panic end
    | Gep.Panic => Gep.Panic
    end
  end.
Definition gep_parse_type (elem src : ty) (ops : list asm_operand) : Gep.outcome ty :=
  match all_ok (map (fun o => classify_asm_inst (asm_iform_of o)) ops) with
  | Gep.Ok idxs => result_type no_bodies elem src idxs
  | Gep.Panic => Gep.Panic
  end.
Lemma classify_asm_all_indices ops :
  match classify_asm_all ops with Gep.Ok l => Gep.Ok (map snd l) | Gep.Panic => Gep.Panic end =
  all_ok (map (fun o => classify_asm_inst (asm_iform_of o)) ops).
Proof.
  induction ops as [|[a T|vty T] r IH]; [reflexivity| |]; cbn [map all_ok classify_asm_all classify_asm_op asm_iform_of classify_asm_inst];
    rewrite <- IH.
  - destruct (get_index_asm (cform_of a)) as [ix|]; [|reflexivity]. destruct (classify_asm_all r); reflexivity.
  - destruct (classify_asm_all r); reflexivity.
Qed.
Lemma ast_node_is_constant a : exists nty nfs, reify_ast a = VObj nty nfs /\ is_ast_constant nty = true.
Proof. destruct a; do 2 eexists; split; reflexivity. Qed.
(* the pair a function with an error result returns *)
Definition expect_pair (o : Gep.outcome ty) : res GoEval.val :=
  match o with Gep.Ok t => GoEval.Ok (VTuple [reify_ty t; VNil]) | Gep.Panic => Fail "panic" end.

Local Arguments String.eqb : simpl nomatch.
Local Arguments is_ast_constant : simpl never.

Section ParseLoop.
  Variable call : string -> string -> GoEval.val -> res GoEval.val.
  Variables v1 v2 v3 : GoEval.val.
  Let rest : env := ("elemType", v1) :: ("src", v2) :: ("indices", v3) :: asm_globals.
  Let GEN : GoEval.val := VObj "asm.generator" [].

  Definition BP : env -> bytes -> res (env * bytes * flow) :=
    fun en buf => match exec impls call pg_loop en buf with
                  | GoEval.Ok (en1, buf1, stop) => GoEval.Ok (truncate (List.length en) en1, buf1, stop)
                  | Fail w => Fail w
                  end.
  Let operand_of (node : GoEval.val) (T : ty) : GoEval.val := VObj "ast.TypeValue" [("Val()", node); ("Typ()", reify_ty T)].

  Lemma parse_iter_const nty nfs T s ix acc : is_ast_constant nty = true ->
    call "asm.generator" "getIndex" (VTuple [GEN; VObj nty nfs]) = GoEval.Ok (reify_idx_as s ix) ->
    BP (("index", operand_of (VObj nty nfs) T) :: ("idxs", slice_val acc) :: rest) [] =
    GoEval.Ok (("index", operand_of (VObj nty nfs) T) :: ("idxs", slice_val (acc ++ [reify_idx_as s ix])) :: rest, [], Run).
  Proof.
    intros Hk Hc. unfold GEN in Hc. rewrite slice_val_snoc. unfold BP, pg_loop, exec, rest, operand_of. cbn. unfold impls. cbn. rewrite Hk. cbn. rewrite ?orb_true_r. cbn. rewrite Hc. cbn.
    destruct s, acc; reflexivity.
  Qed.
  Lemma parse_iter_const_panic nty nfs T acc : is_ast_constant nty = true ->
    call "asm.generator" "getIndex" (VTuple [GEN; VObj nty nfs]) = Fail "panic" ->
    BP (("index", operand_of (VObj nty nfs) T) :: ("idxs", slice_val acc) :: rest) [] = Fail "panic".
  Proof.
    intros Hk Hc. unfold GEN in Hc. unfold BP, pg_loop, exec, rest, operand_of. cbn. unfold impls. cbn. rewrite Hk. cbn. rewrite ?orb_true_r. cbn. rewrite Hc. reflexivity.
  Qed.
  Lemma parse_iter_value vty T acc : is_ast_constant vty = false -> vty <> "ast.Constant" ->
    BP (("index", operand_of (VObj vty []) T) :: ("idxs", slice_val acc) :: rest) [] =
    GoEval.Ok (("index", operand_of (VObj vty []) T) :: ("idxs", slice_val (acc ++ [reify_idx (no_val (shape_len (shape_of_ty T)))])) :: rest, [], Run).
  Proof.
    intros Hk Hn. assert (("ast.Constant" =? vty) = false) as Hn' by (apply String.eqb_neq; congruence).
    rewrite slice_val_snoc. unfold BP, pg_loop, exec, rest, operand_of. cbn. unfold impls. cbn. rewrite Hk, Hn'. cbn.
    destruct T, acc; reflexivity.
  Qed.

  Hypothesis call_getIndex : forall a, valid a ->
    call "asm.generator" "getIndex" (VTuple [GEN; reify_ast a]) = expect_idx (get_index_asm (cform_of a)).

  Lemma parse_loop_spec : forall ops acc i, Forall asm_well_formed ops ->
    for_loop BP "_" "index" (map asm_val ops) i (("idxs", slice_val (map reify_si acc)) :: rest) [] =
    match classify_asm_all ops with
    | Gep.Ok l => GoEval.Ok (("idxs", slice_val (map reify_si (acc ++ l))) :: rest, [], Run)
    | Gep.Panic => Fail "panic"
    end.
  Proof.
    induction ops as [|o r IH]; intros acc i H.
    - cbn [classify_asm_all]. rewrite app_nil_r. reflexivity.
    - inversion H as [|? ? Ho Hr]; subst. cbn [map classify_asm_all]. unfold for_loop; fold for_loop.
      change (loop_env "_" "index" i (asm_val o) (("idxs", slice_val (map reify_si acc)) :: rest))
        with (("index", asm_val o) :: ("idxs", slice_val (map reify_si acc)) :: rest).
      destruct o as [a T|vty T]; cbn [classify_asm_op].
      + pose proof (call_getIndex a Ho) as Hc.
        destruct (ast_node_is_constant a) as (nty & nfs & E & Hk).
        change (asm_val (PConst a T)) with (operand_of (reify_ast a) T). rewrite E in *.
        destruct (get_index_asm (cform_of a)) as [ix|]; cbn [expect_idx] in Hc.
        * rewrite (parse_iter_const nty nfs T _ ix (map reify_si acc) Hk Hc).
          cbn [stopped is_cont andb negb]. unfold truncate. cbn [List.length Nat.sub skipn rest asm_globals].
          change [reify_idx_as (nonsplat ix) ix] with (map reify_si [(nonsplat ix, ix)]).
          rewrite <- map_app. fold asm_globals. fold rest. rewrite (IH _ _ Hr).
          destruct (classify_asm_all r) as [l|]; [|reflexivity]. rewrite <- app_assoc. reflexivity.
        * rewrite (parse_iter_const_panic nty nfs T _ Hk Hc). reflexivity.
      + destruct Ho as [Hk Hn]. change (asm_val (PValue vty T)) with (operand_of (VObj vty []) T).
        rewrite (parse_iter_value vty T _ Hk Hn).
        cbn [stopped is_cont andb negb]. unfold truncate. cbn [List.length Nat.sub skipn rest asm_globals].
        change [reify_idx (no_val (shape_len (shape_of_ty T)))] with (map reify_si [(false, no_val (shape_len (shape_of_ty T)))]).
        rewrite <- map_app. fold asm_globals. fold rest. rewrite (IH _ _ Hr).
        destruct (classify_asm_all r) as [l|]; [|reflexivity]. rewrite <- app_assoc. reflexivity.
  Qed.

  Lemma parse_loop_stmt (en : env) l :
    lookup "indices" en = Some (VList l) ->
    exec impls call [SFor "_" "index" (EId "indices") pg_loop] en [] =
    match for_loop BP "_" "index" l 0 en [] with
    | GoEval.Ok (en1, buf1, fl) => GoEval.Ok (en1, buf1, fl)
    | Fail w => Fail w
    end.
  Proof.
    intros H. unfold exec. unfold exec1; fold exec1. cbn [eval]; rewrite H.
    match goal with |- context [for_loop ?f _ _ _ _ _ _] => change f with BP end.
    destruct (for_loop BP "_" "index" l 0 en []) as [[[en1 buf1] fl]|w]; [|reflexivity].
    destruct fl; reflexivity.
  Qed.
End ParseLoop.

Section ParseWhole.
  Variable call : string -> string -> GoEval.val -> res GoEval.val.
  Hypothesis call_getIndex : forall a, valid a ->
    call "asm.generator" "getIndex" (VTuple [VObj "asm.generator" []; reify_ast a]) = expect_idx (get_index_asm (cform_of a)).
  Hypothesis call_ResultType : forall elem src sis,
    call "" "gep.ResultType" (VTuple [reify_ty elem; reify_ty src; slice_val (map reify_si sis)]) =
    GepRefinement.expect (result_type no_bodies elem src (map snd sis)).

  Lemma gep_parse_body elem src ops : Forall asm_well_formed ops ->
    run_body impls call asm_globals pg_printer (VTuple [reify_ty elem; reify_ty src; VList (map asm_val ops)]) =
    expect_pair (gep_parse_type elem src ops).
  Proof.
    intros H. unfold run_body, pg_printer. cbn [p_recv p_body].
    change (split_commas "elemType,src,indices") with ["elemType"; "src"; "indices"].
    cbn [combine].
    change ([("elemType", reify_ty elem); ("src", reify_ty src); ("indices", VList (map asm_val ops))] ++ asm_globals)%list
      with (("elemType", reify_ty elem) :: ("src", reify_ty src) :: ("indices", VList (map asm_val ops)) :: asm_globals).
    rewrite pg_body_split, exec_app.
    change (exec impls call [SVar "idxs"] (("elemType", reify_ty elem) :: ("src", reify_ty src) :: ("indices", VList (map asm_val ops)) :: asm_globals) [])
      with (GoEval.Ok (("idxs", slice_val (map reify_si [])) :: ("elemType", reify_ty elem) :: ("src", reify_ty src) :: ("indices", VList (map asm_val ops)) :: asm_globals, @nil byte, Run)).
    cbn [stopped]. rewrite exec_app.
    rewrite (parse_loop_stmt call _ (map asm_val ops)) by reflexivity.
    rewrite (parse_loop_spec call _ _ _ call_getIndex ops [] 0 H).
    unfold gep_parse_type. rewrite <- classify_asm_all_indices.
    destruct (classify_asm_all ops) as [l|]; [|reflexivity].
    cbn [stopped app]. unfold exec. cbn. rewrite call_ResultType.
    destruct (result_type no_bodies elem src (map snd l)); reflexivity.
  Qed.
End ParseWhole.

Lemma resolve_asm_getIndex_method : resolve_in asm_table "asm" "asm.generator" "getIndex" = None.
Proof. vm_compute. reflexivity. Qed.
Lemma find_asm_getIndex : find_in asm_table "" ("asm" ++ "." ++ "getIndex") = Some ag_printer.
Proof. vm_compute. reflexivity. Qed.
Lemma resolve_asm_ResultType : resolve_in asm_table "asm" "" "gep.ResultType" = Some gep_printer.
Proof. vm_compute. reflexivity. Qed.

Lemma asm_call_getIndex_method f a : valid a ->
  asm_call (S (S (S f))) "asm.generator" "getIndex" (VTuple [VObj "asm.generator" []; reify_ast a]) = expect_idx (get_index_asm (cform_of a)).
Proof.
  intros Hv. unfold asm_call. rewrite call_in_S.
  change (asm_lib "asm.generator" "getIndex" ?v) with (@None (res GoEval.val)).
  rewrite resolve_asm_getIndex_method. cbn [String.eqb Ascii.eqb Bool.eqb]. rewrite find_asm_getIndex.
  replace (sole_argument ag_printer (drop_receiver (VTuple [VObj "asm.generator" []; reify_ast a]))) with (reify_ast a) by (destruct a; reflexivity).
  apply (asm_get_index_body (asm_call (S (S f)))).
  - intros v. apply asm_call_NewIndex.
  - intros s. apply asm_call_irIntConst.
  - intros z. apply asm_call_Int64.
  - intros b. apply asm_call_boolLit.
  - exact Hv.
Qed.
Lemma asm_call_ResultType f elem src sis :
  asm_call (S f) "" "gep.ResultType" (VTuple [reify_ty elem; reify_ty src; slice_val (map reify_si sis)]) =
  GepRefinement.expect (result_type no_bodies elem src (map snd sis)).
Proof.
  unfold asm_call. rewrite call_in_S. change (asm_lib "" "gep.ResultType" ?v) with (@None (res GoEval.val)).
  rewrite resolve_asm_ResultType. apply gep_result_body.
Qed.

Definition run_gep_parse_type (fuel : nat) (elem src : ty) (ops : list asm_operand) : res GoEval.val :=
  asm_call fuel "" "gepInstType" (VTuple [reify_ty elem; reify_ty src; VList (map asm_val ops)]).

Theorem generated_asm_gep_inst_type_is_model : forall f elem src ops, Forall asm_well_formed ops ->
  run_gep_parse_type (S (S (S (S f)))) elem src ops = expect_pair (gep_parse_type elem src ops).
Proof.
  intros f elem src ops H. unfold run_gep_parse_type, asm_call. rewrite call_in_S.
  change (asm_lib "" "gepInstType" ?v) with (@None (res GoEval.val)). rewrite resolve_asm_gepInstType.
  change (sole_argument pg_printer ?v) with v.
  apply (gep_parse_body (asm_call (S (S (S f))))); [| |exact H].
  - intros a Hv. apply asm_call_getIndex_method. exact Hv.
  - intros e s sis. apply asm_call_ResultType.
Qed.
Print Assumptions generated_asm_gep_inst_type_is_model.

Example asm_gep_inst_type_examples :
  let t (s : string) := bytes_of_string s in
  let A := TArr 4 (TInt 8) in
  run_gep_parse_type 4 A (TPtr A 0) [PConst (AIntConst (t "0")) (TInt 64); PValue "ast.LocalIdent" (TVec false 2 (TInt 64))]
    = GoEval.Ok (VTuple [reify_ty (TVec false 2 (TPtr (TInt 8) 0)); VNil])
  /\ run_gep_parse_type 4 A (TPtr A 0) [PConst (AIntConst (t "0")) (TInt 64); PConst AExpr (TInt 64)] = Fail "panic".
Proof. vm_compute. repeat split. Qed.


(* ---- asm/global.go gepExprType: the type of a getelementptr expression, computed early for aliases and ifuncs ---- *)
Definition pe_body : list gstmt :=
  Eval vm_compute in match find_in asm_table "" "asm.gepExprType" with Some p => p_body p | None => [] end.
Definition pe_loop : list gstmt :=
  Eval vm_compute in match nth 5 pe_body SStop with SFor _ _ _ b => b | _ => [] end.
Definition pe_printer : printer :=
  {| p_pkg := "asm"; p_type := ""; p_method := "asm.gepExprType"; p_recv := "old"; p_body := pe_body |}.
Lemma resolve_asm_gepExprType : resolve_in asm_table "asm" "" "gepExprType" = Some pe_printer.
Proof. vm_compute. reflexivity. Qed.
Definition pe_pre : list gstmt := Eval vm_compute in firstn 5 pe_body.
Lemma pe_body_split : pe_body = (pe_pre ++ [SFor "_" "index" (ECall (ESel (EId "old") "Indices") []) pe_loop] ++ skipn 6 pe_body)%list.
Proof. reflexivity. Qed.

(* the AST node of the expression: element type, typed source, indices (each a typed constant) *)
Definition gep_index_node (a : aform) : GoEval.val :=
  VObj "ast.GEPIndex" [("Index()", VObj "ast.TypeConst" [("Val()", reify_ast a)])].
Definition gep_expr_node (elem src : ty) (idxs : list aform) : GoEval.val :=
  VObj "ast.GetElementPtrExpr"
    [("ElemType()", reify_ty elem); ("Src()", VObj "ast.TypeConst" [("Typ()", reify_ty src)]); ("Indices()", VList (map gep_index_node idxs))].
Definition classify_alias_op (a : aform) : Gep.outcome (bool * index) :=
  match get_index_asm (cform_of a) with Gep.Ok ix => Gep.Ok (nonsplat ix, ix) | Gep.Panic => Gep.Panic end.
Fixpoint classify_alias_all (ops : list aform) : Gep.outcome (list (bool * index)) :=
  match ops with
  | [] => Gep.Ok []
  | o :: r =>
    match classify_alias_op o with
    | Gep.Ok si => match classify_alias_all r with Gep.Ok l => Gep.Ok (si :: l) | Gep.Panic => Gep.Panic end
    | Gep.Panic => Gep.Panic
    end
  end.
Definition gep_alias_type (elem src : ty) (ops : list aform) : Gep.outcome ty :=
  match all_ok (map (fun a => classify_asm_alias (cform_of a)) ops) with
  | Gep.Ok idxs => result_type no_bodies elem src idxs
  | Gep.Panic => Gep.Panic
  end.
Lemma classify_alias_all_indices ops :
  match classify_alias_all ops with Gep.Ok l => Gep.Ok (map snd l) | Gep.Panic => Gep.Panic end =
  all_ok (map (fun a => classify_asm_alias (cform_of a)) ops).
Proof.
  induction ops as [|a r IH]; [reflexivity|]. cbn [map all_ok classify_alias_all]. unfold classify_alias_op, classify_asm_alias at 1.
  rewrite <- IH. destruct (get_index_asm (cform_of a)) as [ix|]; [|reflexivity]. destruct (classify_alias_all r); reflexivity.
Qed.

Section AliasLoop.
  Variable call : string -> string -> GoEval.val -> res GoEval.val.
  Variables old ve vs : GoEval.val.
  Let rest : env := ("err", VNil) :: ("src", vs) :: ("err", VNil) :: ("elemType", ve) :: ("old", old) :: asm_globals.
  Let GEN : GoEval.val := VObj "asm.generator" [].

  Definition BG : env -> bytes -> res (env * bytes * flow) :=
    fun en buf => match exec impls call pe_loop en buf with
                  | GoEval.Ok (en1, buf1, stop) => GoEval.Ok (truncate (List.length en) en1, buf1, stop)
                  | Fail w => Fail w
                  end.

  Lemma alias_iter node R acc :
    call "asm.generator" "getIndex" (VTuple [GEN; node]) = R ->
    BG (("index", VObj "ast.GEPIndex" [("Index()", VObj "ast.TypeConst" [("Val()", node)])]) :: ("idxs", slice_val acc) :: rest) [] =
    match R with
    | GoEval.Ok v => GoEval.Ok (("index", VObj "ast.GEPIndex" [("Index()", VObj "ast.TypeConst" [("Val()", node)])]) :: ("idxs", slice_val (acc ++ [v])) :: rest, [], Run)
    | Fail w => Fail w
    end.
  Proof.
    intros Hc. unfold GEN in Hc. destruct R as [v|w]; [rewrite slice_val_snoc|]; unfold BG, pe_loop, exec, rest; cbn; rewrite Hc;
      [destruct acc|]; reflexivity.
  Qed.

  Hypothesis call_getIndex : forall a, valid a ->
    call "asm.generator" "getIndex" (VTuple [GEN; reify_ast a]) = expect_idx (get_index_asm (cform_of a)).

  Lemma alias_loop_spec : forall ops acc i, Forall valid ops ->
    for_loop BG "_" "index" (map gep_index_node ops) i (("idxs", slice_val (map reify_si acc)) :: rest) [] =
    match classify_alias_all ops with
    | Gep.Ok l => GoEval.Ok (("idxs", slice_val (map reify_si (acc ++ l))) :: rest, [], Run)
    | Gep.Panic => Fail "panic"
    end.
  Proof.
    induction ops as [|a r IH]; intros acc i H.
    - cbn [classify_alias_all]. rewrite app_nil_r. reflexivity.
    - inversion H as [|? ? Ha Hr]; subst. cbn [map classify_alias_all]. unfold for_loop; fold for_loop.
      change (loop_env "_" "index" i (gep_index_node a) (("idxs", slice_val (map reify_si acc)) :: rest))
        with (("index", gep_index_node a) :: ("idxs", slice_val (map reify_si acc)) :: rest).
      unfold gep_index_node, classify_alias_op. rewrite (alias_iter _ _ _ (call_getIndex a Ha)).
      destruct (get_index_asm (cform_of a)) as [ix|]; cbn [expect_idx]; [|reflexivity].
      cbn [stopped is_cont andb negb]. unfold truncate. cbn [List.length Nat.sub skipn rest asm_globals].
      change [reify_idx_as (nonsplat ix) ix] with (map reify_si [(nonsplat ix, ix)]).
      rewrite <- map_app. fold asm_globals. fold rest. rewrite (IH _ _ Hr).
      destruct (classify_alias_all r) as [l|]; [|reflexivity]. rewrite <- app_assoc. reflexivity.
  Qed.

  Lemma alias_loop_stmt (en : env) l :
    lookup "old" en = Some old -> (exists fs, old = VObj "ast.GetElementPtrExpr" fs /\ lookup "Indices()" fs = Some (VList l)) ->
    exec impls call [SFor "_" "index" (ECall (ESel (EId "old") "Indices") []) pe_loop] en [] =
    match for_loop BG "_" "index" l 0 en [] with
    | GoEval.Ok (en1, buf1, fl) => GoEval.Ok (en1, buf1, fl)
    | Fail w => Fail w
    end.
  Proof.
    intros H (fs & -> & Hl). unfold exec. unfold exec1; fold exec1. cbn [eval]. cbn. rewrite H. cbn. rewrite Hl. cbn.
    match goal with |- context [for_loop ?f _ _ _ _ _ _] => change f with BG end.
    destruct (for_loop BG "_" "index" l 0 en []) as [[[en1 buf1] fl]|w]; [|reflexivity].
    destruct fl; reflexivity.
  Qed.
End AliasLoop.

Section AliasWhole.
  Variable call : string -> string -> GoEval.val -> res GoEval.val.
  Hypothesis call_getIndex : forall a, valid a ->
    call "asm.generator" "getIndex" (VTuple [VObj "asm.generator" []; reify_ast a]) = expect_idx (get_index_asm (cform_of a)).
  Hypothesis call_ResultType : forall elem src sis,
    call "" "gep.ResultType" (VTuple [reify_ty elem; reify_ty src; slice_val (map reify_si sis)]) =
    GepRefinement.expect (result_type no_bodies elem src (map snd sis)).

  Lemma gep_alias_body elem src ops : Forall valid ops ->
    run_body impls call asm_globals pe_printer (gep_expr_node elem src ops) = expect_pair (gep_alias_type elem src ops).
  Proof.
    intros H. unfold run_body, pe_printer. cbn [p_recv p_body].
    change (split_commas "old") with ["old"].
    cbv beta iota. rewrite <- app_comm_cons, app_nil_l.
    rewrite pe_body_split, exec_app.
    change (exec impls call pe_pre (("old", gep_expr_node elem src ops) :: asm_globals) [])
      with (GoEval.Ok (("idxs", slice_val (map reify_si [])) :: ("err", VNil) :: ("src", reify_ty src) :: ("err", VNil) :: ("elemType", reify_ty elem) :: ("old", gep_expr_node elem src ops) :: asm_globals, @nil byte, Run)).
    cbn [stopped]. rewrite exec_app.
    rewrite (alias_loop_stmt call (gep_expr_node elem src ops) VNil VNil _ (map gep_index_node ops)); [|reflexivity|eexists; split; reflexivity].
    rewrite (alias_loop_spec call _ _ _ call_getIndex ops [] 0 H).
    unfold gep_alias_type. rewrite <- classify_alias_all_indices.
    destruct (classify_alias_all ops) as [l|]; [|reflexivity].
    cbn [stopped app]. unfold exec. cbn. rewrite call_ResultType.
    destruct (result_type no_bodies elem src (map snd l)); reflexivity.
  Qed.
End AliasWhole.

Definition run_gep_alias_type (fuel : nat) (elem src : ty) (ops : list aform) : res GoEval.val :=
  asm_call fuel "" "gepExprType" (gep_expr_node elem src ops).

Theorem generated_asm_gep_expr_type_is_model : forall f elem src ops, Forall valid ops ->
  run_gep_alias_type (S (S (S (S f)))) elem src ops = expect_pair (gep_alias_type elem src ops).
Proof.
  intros f elem src ops H. unfold run_gep_alias_type, asm_call. rewrite call_in_S.
  change (asm_lib "" "gepExprType" ?v) with (@None (res GoEval.val)). rewrite resolve_asm_gepExprType.
  change (sole_argument pe_printer ?v) with v.
  apply (gep_alias_body (asm_call (S (S (S f))))); [| |exact H].
  - intros a Hv. apply asm_call_getIndex_method. exact Hv.
  - intros e s sis. apply asm_call_ResultType.
Qed.
Print Assumptions generated_asm_gep_expr_type_is_model.

Example asm_gep_expr_type_examples :
  let t (s : string) := bytes_of_string s in
  let A := TArr 4 (TInt 8) in
  run_gep_alias_type 4 A (TPtr A 3) [AIntConst (t "0"); AIntConst (t "1")] = GoEval.Ok (VTuple [reify_ty (TPtr (TInt 8) 3); VNil])
  /\ run_gep_alias_type 4 A (TPtr A 3) [AIntConst (t "0"); AVector [AInt (t "1"); AInt (t "1")]] = GoEval.Ok (VTuple [reify_ty (TVec false 2 (TPtr (TInt 8) 3)); VNil]).
Proof. vm_compute. repeat split. Qed.


(* ---- computed examples: the statements above on concrete operands, and why the knot is call_from ---- *)
Example get_index_examples :
  let v2 := reify_ty (TVec false 2 (TInt 64)) in
  run_get_index "constant" 2 (reify_operand true (CVec [EInt 5; EInt (2 ^ 64 + 5)]) v2)
    = GoEval.Ok (reify_idx {| has_val := true; Gep.val := 5; vector_len := 2 |})
  /\ run_get_index "ir" 2 (reify_operand false (CVec [EInt 5; EInt 6; Gep.EOther]) v2)
    = GoEval.Ok (reify_idx_as true (no_val 3))
  /\ run_get_index "ir" 2 (reify_operand false (CVec [EInt 5; Gep.EOther]) v2) = Fail "panic"
  /\ run_get_index "constant" 2 (reify_operand false (CInt (2 ^ 63)) (reify_ty (TInt 64))) = GoEval.Ok (reify_idx (new_index (- 2 ^ 63)))
  /\ run_get_index "constant" 2 (reify_operand false COther (reify_ty (TInt 64))) = Fail "panic".
Proof. vm_compute. repeat split. Qed.

Example gep_expr_type_examples :
  let S1 := TStruct false [TInt 32; TArr 4 (TFloat FDouble)] in
  run_gep_expr_type 3 S1 (TPtr S1 0) [(false, CInt 0, TInt 64); (true, CInt 1, TInt 32); (false, CZero (Vector false 2), TVec false 2 (TInt 64))]
    = GoEval.Ok (reify_ty (TVec false 2 (TPtr (TFloat FDouble) 0)))
  /\ run_gep_expr_type 3 S1 (TPtr S1 0) [(false, CInt 0, TInt 64); (false, CUndef Scalar, TInt 32)] = Fail "panic"
  /\ run_gep_expr_type 3 S1 (TPtr S1 0) [] = GoEval.Ok (reify_ty (TPtr S1 0)).
Proof. vm_compute. repeat split. Qed.

(* a constant operand takes the case constant.Constant of gepInstType (the length of a zeroinitializer vector index is
   then not recorded: the finding C07_zeroinit_vector_index_refuted, here on the regenerated code); a value takes the default *)
Example gep_inst_type_examples :
  let A := TArr 4 (TInt 8) in
  run_gep_inst_type 3 A (TPtr A 0) [OConst false (CInt 0) (TInt 64); OValue "ir.InstLoad" (TVec false 2 (TInt 64))]
    = GoEval.Ok (reify_ty (TVec false 2 (TPtr (TInt 8) 0)))
  /\ run_gep_inst_type 3 A (TPtr A 0) [OConst false (CInt 0) (TInt 64); OConst false (CZero (Vector false 2)) (TVec false 2 (TInt 64))]
    = GoEval.Ok (reify_ty (TPtr (TInt 8) 0))
  /\ run_gep_expr_type 3 A (TPtr A 0) [(false, CInt 0, TInt 64); (false, CZero (Vector false 2), TVec false 2 (TInt 64))]
    = GoEval.Ok (reify_ty (TVec false 2 (TPtr (TInt 8) 0)))
  /\ run_gep_inst_type 3 A (TPtr A 0) [OConst true (CExpr Scalar) (TInt 64); OConst false (CPtrToInt Scalar) (TInt 64)]
    = GoEval.Ok (reify_ty (TPtr (TInt 8) 0))
  /\ run_gep_inst_type 3 A (TPtr A 0) [OConst false COther (TInt 64)] = Fail "panic".
Proof. vm_compute. repeat split. Qed.

(* GoEval.call_printer looks a callee up by the name written at the call: the unqualified getIndex of gepExprType
   is not an entry of the table (the entries are constant.getIndex, ir.getIndex, asm.getIndex), and the one argument
   of gep.NewIndex arrives as a tuple of one *)
Example call_printer_does_not_resolve :
  call_printer impl [] 5 "" "gepExprType" (VTuple [reify_ty (TInt 8); reify_ty (TPtr (TInt 8) 0); VList [op_val (false, CInt 0, TInt 64)]])
    = Fail "no printer .getIndex"
  /\ call_printer impl [] 5 "" "constant.getIndex" (reify_operand false (CInt 7) (reify_ty (TInt 64)))
    = GoEval.Ok (VObj "gep.Index" [("HasVal", VBool true); ("Val", VTuple [VInt 7]); ("VectorLen", VInt 0)]).
Proof. vm_compute. repeat split. Qed.
