(* C06 on regenerated code, constant expressions and the token-valued terminator: the Type() methods of
   package constant (translated into Gen/Printers.v) compute the type the model ResultType.ir_type gives for the
   same rule shape -- the same shapes the instructions use, so instruction and constant expression of one
   opcode agree on their type by construction of the statement. *)
From Coq Require Import List String ZArith NArith Bool.
From LLIR Require Import Lib.Bytes Model.Types Model.TypeString Model.ResultType Model.GoEval Gen.Printers
  Proofs.PrinterRefinement Proofs.TypeRuleRefinement.
Import ListNotations.
Open Scope string_scope.

Definition run_ctype (kind : string) (fields : list (string * val)) : res val :=
  run_type ("constant.Expr" ++ kind) fields.

(* the kinds whose type is that of the first operand *)
Definition same_as_first_kinds : list string :=
  ["Add"; "Sub"; "Mul"; "Shl"; "LShr"; "AShr"; "And"; "Or"; "Xor"].
(* the conversions: the type written after `to` *)
Definition cexpr_conversion_kinds : list string :=
  ["Trunc"; "ZExt"; "SExt"; "FPTrunc"; "FPExt"; "FPToUI"; "FPToSI"; "UIToFP"; "SIToFP"; "PtrToInt"; "IntToPtr";
   "BitCast"; "AddrSpaceCast"].

Section Rules.
  Variable bodies : ResultType.env.

  Theorem cexpr_binary_type_generated :
    Forall (fun k => forall x y, run_ctype k [("X", operand x); ("Y", operand y)] = expect (ir_type bodies (SameAsFirst x)))
           same_as_first_kinds.
  Proof. repeat (constructor; [intros; reflexivity|]). constructor. Qed.

  Theorem cexpr_fneg_type_generated x : run_ctype "FNeg" [("X", operand x)] = expect (ir_type bodies (SameAsFirst x)).
  Proof. reflexivity. Qed.

  Theorem cexpr_conversion_type_generated :
    Forall (fun k => forall f t, run_ctype k [("From", operand f); ("To", reify_ty t)] = expect (ir_type bodies (Convert f t)))
           cexpr_conversion_kinds.
  Proof. repeat (constructor; [intros; reflexivity|]). constructor. Qed.

  Theorem cexpr_icmp_type_generated x : run_ctype "ICmp" [("X", operand x)] = expect (ir_type bodies (ICmp x)).
  Proof. destruct x; reflexivity. Qed.
  Theorem cexpr_fcmp_type_generated x : run_ctype "FCmp" [("X", operand x)] = expect (ir_type bodies (FCmp x)).
  Proof. destruct x; reflexivity. Qed.

  (* select: the type of the first value operand (X), whatever the condition is *)
  Theorem cexpr_select_type_generated c a b :
    run_ctype "Select" [("Cond", operand c); ("X", operand a); ("Y", operand b)] = expect (ir_type bodies (SameAsFirst a)).
  Proof. reflexivity. Qed.

  Theorem cexpr_extractelement_type_generated x i :
    run_ctype "ExtractElement" [("X", operand x); ("Index", operand i)] = expect (ir_type bodies (ExtractElement x)).
  Proof. destruct x; reflexivity. Qed.
  Theorem cexpr_insertelement_type_generated x e i :
    run_ctype "InsertElement" [("X", operand x); ("Elem", operand e); ("Index", operand i)] = expect (ir_type bodies (InsertElement x)).
  Proof. destruct x; reflexivity. Qed.
  Theorem cexpr_shufflevector_type_generated x y m :
    run_ctype "ShuffleVector" [("X", operand x); ("Y", operand y); ("Mask", operand m)] = expect (ir_type bodies (ShuffleVector x m)).
  Proof. destruct x; try reflexivity; destruct m; reflexivity. Qed.

  (* the constant expression and the instruction of one opcode have the same type (both are the model's) *)
  Corollary icmp_expr_and_inst_agree x :
    run_ctype "ICmp" [("X", operand x)] = run_type "ir.InstICmp" [("X", operand x)].
  Proof. rewrite cexpr_icmp_type_generated, (icmp_type_generated bodies). reflexivity. Qed.
  Corollary shufflevector_expr_and_inst_agree x y m :
    run_ctype "ShuffleVector" [("X", operand x); ("Y", operand y); ("Mask", operand m)]
    = run_type "ir.InstShuffleVector" [("X", operand x); ("Y", operand y); ("Mask", operand m)].
  Proof. rewrite cexpr_shufflevector_type_generated, (shufflevector_type_generated bodies). reflexivity. Qed.

  (* catchswitch yields a token *)
  Theorem catchswitch_type_generated : run_type "ir.TermCatchSwitch" [] = expect (ir_type bodies TokenResult).
  Proof. reflexivity. Qed.
End Rules.

Print Assumptions cexpr_binary_type_generated.
Print Assumptions cexpr_shufflevector_type_generated.
Print Assumptions cexpr_conversion_type_generated.
