(* C01 / C03, translation side: what each body translator asm.irXxxInst / irXxxTerm
   does with the parts of the AST node, read off the regenerated bodies
   (Gen/Printers.v) by running them symbolically: functions without a translated
   body (irTypeValue, irValue, irBlock, the enum converters, the accessors of the
   AST node) stay uninterpreted, so the result is the object being filled, each
   field holding the term that computes it. *)
From Coq Require Import List String ZArith Bool.
From Coq Require Import Strings.Byte.
From LLIR Require Import Lib.Bytes Model.GoEval Gen.Printers.
Import ListNotations.
Open Scope string_scope.

Definition impl (_ _ : string) : bool := false.
Definition g : env := [("fgen", VObj "asm.funcGen" [("gen", VObj "asm.generator" [])])].
Definition old : val := VObj "ast.node" [].

(* the IR type a translator fills: the target of its opening type assertion *)
Definition target (p : printer) : string :=
  match p_body p with SLet _ _ (EAssert _ t) :: _ => match t with String _ r => r | _ => "" end | _ => "" end.
(* the instruction and terminator translators (the debug-info node translators have the same signature
   but fill a metadata node: Proofs/MetadataFieldProofs.v) *)
Definition translators : list printer :=
  filter (fun p => String.prefix "asm.ir" (p_method p) && String.eqb (p_recv p) "new,old" && String.prefix "ir." (target p)) printers.
Definition run (p : printer) : res val := call_symbolic impl g 4 "" (p_method p) (VTuple [VObj (target p) []; old]).

(* the accessors of the AST node that a value is computed from *)
Fixpoint accs (fuel : nat) (v : val) : list string :=
  match fuel with
  | O => []
  | S f =>
    match v with
    | VObj "app" [("fn", VStr n); ("args", VList [VObj "ast.node" _])] => [string_of_list_byte n]
    | VObj _ fs => flat_map (fun kv => accs f (snd kv)) fs
    | VList l | VTuple l => flat_map (accs f) l
    | _ => []
    end
  end.
Definition mem (x : string) (l : list string) : bool := existsb (String.eqb x) l.

(* presence flags:  _, inst.Exact = old.Exact()  -- true on the path the symbolic run follows *)
Definition flags : list string := ["Exact"; "SwiftError"; "InAlloca"; "Volatile"; "Weak"; "InBounds"; "Cleanup"; "Atomic"].
(* fields whose accessor has another name *)
Definition renamed : list (string * string * string) := [("ir.TermSwitch", "TargetDefault", "Default")].

Definition field_ok (t f : string) (v : val) : bool :=
  mem f (accs 14 v) || mem f flags || existsb (fun r => match r with (t', f', a) => String.eqb t t' && String.eqb f f' && mem a (accs 14 v) end) renamed.

Definition translator_ok (p : printer) : bool :=
  match run p with
  | Ok (VTuple [VObj _ fs; VNil]) => forallb (fun kv => field_ok (target p) (fst kv) (snd kv)) fs
  | _ => false
  end.

(* four translators need more of the generator's state than the symbolic run provides *)
Definition not_run : list string := ["asm.irCallBrTerm"; "asm.irCatchPadInst"; "asm.irCatchRetTerm"; "asm.irCleanupRetTerm"].

(* every field a translator assigns is computed from the part of the AST node with the same name:
   no operand is dropped for another, none is swapped *)
Theorem translators_keep_positions :
  forallb (fun p => mem (p_method p) not_run || translator_ok p) translators = true.
Proof. vm_compute. reflexivity. Qed.

Example translators_counted : List.length translators = 66 /\ List.length (filter translator_ok translators) = 62.
Proof. vm_compute. split; reflexivity. Qed.

(* one body in full: sub *)
Definition fg : val := VObj "asm.funcGen" [("gen", VObj "asm.generator" [])].
Definition acc (n : string) : val := app n [old].
Theorem irSubInst_dataflow :
  call_symbolic impl g 4 "" "asm.irSubInst" (VTuple [VObj "ir.InstSub" []; old]) =
  Ok (VTuple [VObj "ir.InstSub"
        [("Metadata", app "irMetadataAttachments" [VObj "asm.generator" []; acc "Metadata"]);
         ("OverflowFlags", app "irOverflowFlags" [acc "OverflowFlags"]);
         ("Y", app "irValue" [fg; app "Type" [app "irTypeValue" [fg; acc "X"]]; acc "Y"]);
         ("X", app "irTypeValue" [fg; acc "X"])];
      VNil]).
Proof. vm_compute. reflexivity. Qed.

(* KF-25 seen on the code's own body: freeze never receives its metadata *)
Theorem irFreezeInst_drops_metadata :
  call_symbolic impl g 4 "" "asm.irFreezeInst" (VTuple [VObj "ir.InstFreeze" []; old]) =
  Ok (VTuple [VObj "ir.InstFreeze" [("X", app "irTypeValue" [fg; acc "X"])]; VNil]).
Proof. vm_compute. reflexivity. Qed.

Print Assumptions translators_keep_positions.
Print Assumptions irSubInst_dataflow.

(* ---- constant expressions: asm.irXxxExpr(t, old) builds the expression through the regenerated
   constructor constant.NewXxx, whose Type method runs as well ---- *)
Definition g2 : env := [("gen", VObj "asm.generator" [])].
Definition cexpr_translators : list printer :=
  filter (fun p => String.prefix "asm.ir" (p_method p) && String.eqb (p_recv p) "t,old") printers.
Definition run_cexpr (p : printer) : res val := call_symbolic impl g2 6 "" (p_method p) (VTuple [VObj "types.T" []; old]).

(* a field that is computed from parts of the AST node at all is computed from the part of the same name;
   Typ is derived from the operands *)
Definition cfield_ok (f : string) (v : val) : bool :=
  match accs 14 v with [] => true | a => mem f a || String.eqb f "Typ" end.
Definition cexpr_ok (p : printer) : bool :=
  match run_cexpr p with
  | Ok (VTuple [VObj _ fs; VNil]) => forallb (fun kv => cfield_ok (fst kv) (snd kv)) fs
  | _ => false
  end.
(* these dispatch on the operand's type inside Type(), which an uninterpreted operand does not have *)
Definition cexpr_not_run : list string :=
  ["asm.irConstantExpr"; "asm.irExtractElementExpr"; "asm.irFCmpExpr"; "asm.irFNegExpr"; "asm.irGetElementPtrExpr"; "asm.irICmpExpr"; "asm.irInsertElementExpr"; "asm.irShuffleVectorExpr"].
Theorem cexpr_translators_keep_positions :
  forallb (fun p => mem (p_method p) cexpr_not_run || cexpr_ok p) cexpr_translators = true.
Proof. vm_compute. reflexivity. Qed.
Example cexpr_counted : List.length cexpr_translators = 31 /\ List.length (filter cexpr_ok cexpr_translators) = 23.
Proof. vm_compute. split; reflexivity. Qed.
Print Assumptions cexpr_translators_keep_positions.
