(* Finite theorems over the tables regenerated from the Go sources on every run. *)
From Coq Require Import List String Bool ZArith.
From LLIR Require Import Gen.Operands Gen.Locks Gen.MapLoops Gen.WriterTable Model.Concurrency Proofs.ConcurrencyProofs.
Import ListNotations.
Local Open Scope string_scope.

(* ---- C15: Operands() / Succs() ---- *)
Fixpoint mem (s : string) (l : list string) : bool :=
  match l with [] => false | x :: r => String.eqb s x || mem s r end.
Definition same_set (a b : list string) : bool :=
  forallb (fun x => mem x b) a && forallb (fun x => mem x a) b.

Definition row_complete (r : user_row) : bool := same_set (u_fields r) (map fst (u_slots r)).
Definition row_live (r : user_row) : bool := forallb snd (u_slots r).

(* every slot of every type addresses the receiver's own storage *)
Theorem operands_live_all : forallb row_live user_rows = true.
Proof. vm_compute. reflexivity. Qed.

(* completeness fails for exactly the three call-like types: operand-bundle inputs are missing (KF-16) *)
Definition incomplete_rows : list string := map u_type (filter (fun r => negb (row_complete r)) user_rows).
Theorem operands_complete_refuted : incomplete_rows = ["InstCall"; "TermCallBr"; "TermInvoke"].
Proof. vm_compute. reflexivity. Qed.
Theorem operands_complete_partial :
  forallb (fun r => row_complete r || mem (u_type r) ["InstCall"; "TermCallBr"; "TermInvoke"]) user_rows = true.
Proof. vm_compute. reflexivity. Qed.
(* and what is missing there is only the bundle inputs *)
Theorem missing_is_bundle_inputs :
  forallb (fun r => forallb (fun f => mem f (map fst (u_slots r)) || String.eqb f "OperandBundles[i].Inputs[i]") (u_fields r))
          user_rows = true.
Proof. vm_compute. reflexivity. Qed.

(* all terminators with successors cache them (KF-17: not invalidated by a write through a slot) *)
Definition caching_rows : list string := map u_type (filter u_succs_cached user_rows).
Theorem succs_cached : List.length caching_rows = 9.
Proof. vm_compute. reflexivity. Qed.
(* the paths Succs() reads, in the order it appends them (range variables by their name), against the
   reviewed order of the label operands in the assembly syntax of each terminator:
   br T | br c, T, F | switch x, D [cases] | indirectbr a, [targets] | invoke .. to N unwind E |
   callbr .. to N [others] | catchswitch within p [handlers] unwind U | catchret .. to T | cleanupret .. unwind U *)
Definition succ_rows : list (string * list string) :=
  map (fun r => (u_type r, u_succs r)) (filter (fun r => match u_succs r with [] => false | _ => true end) user_rows).
Definition succ_order_reviewed : list (string * list string) :=
  [("TermBr", ["Target"]);
   ("TermCallBr", ["NormalRetTarget"; "otherRetTarget"]);
   ("TermCatchRet", ["Target"]);
   ("TermCatchSwitch", ["handler"; "DefaultUnwindTarget"]);
   ("TermCleanupRet", ["UnwindTarget"]);
   ("TermCondBr", ["TargetTrue"; "TargetFalse"]);
   ("TermIndirectBr", ["target"]);
   ("TermInvoke", ["NormalRetTarget"; "ExceptionRetTarget"]);
   ("TermSwitch", ["TargetDefault"; "c.Target"])].
Theorem succs_in_target_order : succ_rows = succ_order_reviewed.
Proof. vm_compute. reflexivity. Qed.
Theorem number_of_user_types : List.length user_rows = 66.
Proof. vm_compute. reflexivity. Qed.

(* ---- C13: the lock discipline of the ID passes ---- *)
Theorem passes_locked : forallb (fun r => l_locked r && l_unlock_deferred r) lock_rows = true.
Proof. vm_compute. reflexivity. Qed.

Definition guarded_of (pass : string) : bool :=
  match filter (fun r => String.eqb (l_pass r) pass) lock_rows with r :: _ => l_writes_guarded r | [] => false end.

(* on the current source AssignIDs writes unconditionally: the race witness applies (KF-14) *)
(* after fix 'assign an ID only when it changes': the local and the global ID pass write an ID only
   when it differs from the stored one, so the positive theorem applies to the source as it is *)
Theorem assign_ids_guarded : guarded_of "AssignIDs" = true /\ guarded_of "AssignGlobalIDs" = true.
Proof. vm_compute. split; reflexivity. Qed.
Theorem local_ids_race_free_now : forall expected s0 s,
  initial expected s0 -> reachable (guarded_of "AssignIDs") expected s0 s -> ~ race (guarded_of "AssignIDs") expected s.
Proof. destruct assign_ids_guarded as [-> _]. exact guarded_race_free. Qed.
Theorem global_ids_race_free_now : forall expected s0 s,
  initial expected s0 -> reachable (guarded_of "AssignGlobalIDs") expected s0 s -> ~ race (guarded_of "AssignGlobalIDs") expected s.
Proof. destruct assign_ids_guarded as [_ ->]. exact guarded_race_free. Qed.
(* the metadata pass only writes IDs that are unset: race-free by guarded_race_free *)
Theorem metadata_ids_guarded : guarded_of "AssignMetadataIDs" = true.
Proof. vm_compute. reflexivity. Qed.

(* ---- C12: no loop over a Go map is order sensitive ---- *)
Definition loop_ok (l : map_loop) : bool :=
  match ml_class l with order_sensitive => false | _ => true end.
Theorem loops_ok : forallb loop_ok map_loops = true.
Proof. vm_compute. reflexivity. Qed.
Theorem number_of_map_loops : List.length map_loops = 18.
Proof. vm_compute. reflexivity. Qed.

(* ---- C19: the writer the model of Model/Writer.v describes is the one in the source ----
   each of the three fmtWriter methods is, statement by statement:  if fw.err != nil { return 0, nil };
   n, err = fmt.F(fw.w, ..);  fw.size += int64(n);  fw.err = err;  return n, err  -- one write on the underlying
   writer, counted and latched unconditionally; WriteTo wraps the caller's writer first and returns the
   writer's counters last *)
Definition writer_row_ok (r : writer_row) : bool :=
  Nat.eqb (w_stmts r) 5 && w_guard r && w_on_underlying r && w_counts r && w_latches r && w_returns r &&
  String.eqb (w_call r) ("fmt." ++ w_method r).
Theorem fmtwriter_is_the_model :
  forallb writer_row_ok writer_rows = true /\ map w_method writer_rows = ["Fprint"; "Fprintf"; "Fprintln"] /\
  writeto_first_stmt = "fw := &fmtWriter{w: w}" /\ writeto_last_stmt = "return fw.size, fw.err".
Proof. vm_compute. repeat split. Qed.
