(* Shared part of the per-kind printing lemmas (InstPrintLemmas.v and the files next to it): abstract
   operands, the pieces of the expected text, range-loop lemmas and the tactics that run a body.
   C01, text layer, kind by kind: the regenerated LLString printers of package ir
   (Gen/Printers.v), run by Model/GoEval.v on an instruction or terminator whose
   operands are abstract values with given printed forms, write exactly the line
   that LLVM's grammar has for that kind -- for all operand texts, names and flag
   values (quantified, not sampled).  A change to a printer that drops a flag,
   swaps two operands or alters a separator changes Gen/Printers.v and breaks the
   lemma of that kind. *)
From Coq Require Import List String ZArith NArith Bool Lia.
From Coq Require Import Strings.Byte.
From LLIR Require Import Lib.Bytes Lib.Radix Model.Enc Model.Types Model.TypeString Model.GoEval Gen.Enums Gen.Printers Proofs.PrinterRefinement.
Import ListNotations.
Open Scope string_scope.

Global Arguments call_printer : simpl never.
Global Arguments find_printer : simpl never.
Global Arguments print_Z : simpl never.
Global Arguments print_dec_N : simpl never.
Global Arguments for_loop : simpl never.
Global Arguments truncate : simpl nomatch.
Global Arguments enum_string : simpl never.
Global Arguments quote : simpl never.

(* ---- abstract operands: objects whose niladic results are stored ---- *)
(* a type, known by how it is written *)
Definition atype (t : bytes) : val := VObj "type" [("String()", VStr t)].
(* a value of type t with identifier i: String() is the type, a space, the identifier *)
Definition value (t i : bytes) : val :=
  VObj "value" [("String()", VStr (t ++ lit " " ++ i)%list); ("Ident()", VStr i); ("Type()", atype t)].
(* a metadata attachment, known by how it is written *)
Definition mdatt (s : bytes) : val := VObj "metadata.Attachment" [("String()", VStr s)].

(* ---- pieces of the expected text ---- *)
Fixpoint joinsep (sep : bytes) (l : list bytes) : bytes :=
  match l with
  | [] => []
  | [a] => a
  | a :: r => (a ++ sep ++ joinsep sep r)%list
  end.
Definition tv (t i : bytes) : bytes := (t ++ lit " " ++ i)%list.
Definition flags_text (ty : string) (zs : list Z) : bytes := List.concat (map (fun z => lit " " ++ enum_string ty z)%list zs).
Definition mds_text (mds : list bytes) : bytes := List.concat (map (fun s => lit ", " ++ s)%list mds).
Definition tvs (l : list (bytes * bytes)) : bytes := joinsep (lit ", ") (map (fun x => tv (fst x) (snd x)) l).
Definition opt (b : bool) (s : string) : bytes := if b then lit s else [].
(* , align N -- written by the regenerated Align.String, present unless N is 0 *)
Definition align_text (n : Z) : bytes := if (n =? 0)%Z then [] else (lit ", align " ++ print_Z n)%list.
(* addrspace(N) after a separator -- written by the regenerated AddrSpace.String, present unless N is 0 *)
Definition addrspace_text (sep : string) (n : Z) : bytes := if (n =? 0)%Z then [] else (lit sep ++ lit "addrspace(" ++ print_Z n ++ lit ")")%list.
(* syncscope(...) with the quoted name, present unless the name is empty *)
Definition syncscope_text (s : bytes) : bytes := match s with [] => [] | _ => (lit " syncscope(" ++ quote s ++ lit ")")%list end.
(* an atomic ordering keyword, present unless the ordering is 0 (none) *)
Definition ordering_text (o : Z) : bytes := if (o =? 0)%Z then [] else (lit " " ++ enum_string "enum.AtomicOrdering" o)%list.

(* ---- range loops ---- *)
Lemma for_loop_map {A} body k v (f : A -> val) (txt : A -> bytes) l : forall i en buf,
  (forall a j en buf, body (loop_env k v j (f a) en) buf = Ok (loop_env k v j (f a) en, (buf ++ txt a)%list, Run)) ->
  for_loop body k v (map f l) i en buf = Ok (en, (buf ++ List.concat (map txt l))%list, Run).
Proof.
  intros i en buf Hb. revert i en buf. induction l as [|x r IH]; intros i en buf.
  - unfold for_loop. cbn. rewrite app_nil_r. reflexivity.
  - cbn [map]. unfold for_loop; fold for_loop. rewrite Hb. rewrite truncate_loop_env.
    cbn [stopped is_cont andb negb]. rewrite IH. cbn [map List.concat]. rewrite <- !app_assoc. reflexivity.
Qed.

Lemma for_loop_sep_map {A} body k v sep (f : A -> val) (txt : A -> bytes) l : forall en buf,
  (forall a j en buf, (0 <= j)%Z ->
     body (loop_env k v j (f a) en) buf = Ok (loop_env k v j (f a) en, (buf ++ (if (j =? 0)%Z then [] else sep) ++ txt a)%list, Run)) ->
  for_loop body k v (map f l) 0 en buf = Ok (en, (buf ++ joinsep sep (map txt l))%list, Run).
Proof.
  intros en buf Hb.
  assert (forall i en buf, (0 <= i)%Z ->
    for_loop body k v (map f l) i en buf
    = Ok (en, (buf ++ match l with [] => [] | _ => (if (i =? 0)%Z then [] else sep) ++ joinsep sep (map txt l) end)%list, Run)) as H.
  { clear en buf. induction l as [|x r IH]; intros i en buf Hi.
    - unfold for_loop. cbn. rewrite app_nil_r. reflexivity.
    - cbn [map]. unfold for_loop; fold for_loop. rewrite Hb by exact Hi. rewrite truncate_loop_env.
      cbn [stopped is_cont andb negb]. rewrite IH by lia.
      assert ((i + 1 =? 0)%Z = false) as -> by (apply Z.eqb_neq; lia).
      destruct r as [|y r']; cbn [map joinsep]; rewrite <- ?app_assoc, ?app_nil_r; reflexivity. }
  rewrite H by lia. destruct l; reflexivity.
Qed.

(* a conditional piece: both arms leave the same environment, one of them has written more *)
Lemma if_merge (b : bool) (en : list (string * val)) (buf buf1 d : bytes) : buf1 = (buf ++ d)%list ->
  (if b return res st then Ok (en, buf1, Run) else Ok (en, buf, Run)) = Ok (en, (buf ++ (if b then d else []))%list, Run).
Proof. intros ->. destruct b; rewrite ?app_nil_r; reflexivity. Qed.

(* ---- tactics ---- *)
(* look up the printers named in the goal *)
Ltac fp :=
  repeat match goal with
  | |- context [find_printer ?t ?m] =>
    let r := eval vm_compute in (find_printer t m) in
    lazymatch r with
    | Some _ => replace (find_printer t m) with r by (vm_compute; reflexivity)
    | None => replace (find_printer t m) with r by (vm_compute; reflexivity)
    end
  end.
(* a file may supply equations for helper calls that are to be rewritten rather than run again *)
Ltac hook := fail.
Ltac simp := cbn; repeat first [ progress fp; cbn | rewrite Nat.sub_diag; cbn | hook; cbn | rewrite call_printer_S; unfold run_body; cbn ].
Ltac enter := simp.
Ltac loop_body :=
  let a := fresh "a" in let j := fresh "j" in let en := fresh "en" in let buf := fresh "buf" in
  intros a j en buf; unfold loop_env; simp;
  match goal with |- _ = Ok (_, (buf ++ ?x)%list, _) => let X := fresh "X" in set (X := x); rewrite <- ?app_assoc; subst X end;
  reflexivity.
Ltac loop :=
  lazymatch goal with
  | |- context [for_loop ?b ?k ?v (map ?f ?l) ?i ?en ?buf] => erewrite (for_loop_map b k v f _ l i en buf)
  end; [|loop_body]; simp.
Ltac reassoc := repeat first [ rewrite <- app_assoc | rewrite <- app_comm_cons ].
Ltac loop_sep_body :=
  let a := fresh "a" in let j := fresh "j" in let en := fresh "en" in let buf := fresh "buf" in let Hj := fresh "Hj" in
  intros a j en buf Hj; unfold loop_env; simp; destruct (j =? 0)%Z; simp;
  match goal with
  | |- _ = Ok (_, (buf ++ _ :: _ :: ?x)%list, _) => let X := fresh "X" in set (X := x); reassoc; subst X
  | |- _ = Ok (_, (buf ++ ?x)%list, _) => let X := fresh "X" in set (X := x); reassoc; subst X
  end;
  reflexivity.
Ltac loop_sep :=
  lazymatch goal with
  | |- context [for_loop ?b ?k ?v (map ?f ?l) 0%Z ?en ?buf] => erewrite (for_loop_sep_map b k v (lit ", ") f _ l en buf)
  end; [|loop_sep_body]; simp.
Ltac solve_suffix :=
  match goal with |- _ = (_ ++ ?x)%list => let X := fresh "X" in set (X := x); reassoc; subst X; reflexivity end.
Ltac merge :=
  lazymatch goal with
  | |- context [if ?b then Ok (?e, ?b1, Run) else Ok (?e, ?b0, Run)] => erewrite (if_merge b e b0 b1); [|solve_suffix]
  end; simp.
Ltac done :=
  unfold tv, flags_text, mds_text, opt, tvs, align_text, addrspace_text, syncscope_text, ordering_text, lit;
  cbn; rewrite ?if_negb;
  repeat match goal with |- context [if ?b then _ else _] => destruct b end;
  cbn; rewrite ?map_map; cbn; repeat (rewrite <- app_assoc; cbn); reflexivity.

(* which kinds a family lemma covers *)
Ltac each_kind H := repeat (destruct H as [H|H]; [injection H as <- <-|]); [..|contradiction].

