From Coq Require Import List Bool Arith ZArith Lia.
From LLIR Require Import Model.Concurrency.
Import ListNotations.
Arguments writes : simpl never.
Arguments reads : simpl never.

Lemma nth_error_set_nth {A} (l : list A) : forall t v t',
  nth_error (set_nth t v l) t' =
  if (t' =? t) && (t <? length l) then Some v else nth_error l t'.
Proof.
  induction l as [|x r IH]; intros t v t'.
  - destruct t; cbn; rewrite ?andb_false_r; destruct t'; reflexivity.
  - destruct t as [|t]; destruct t' as [|t']; cbn [set_nth nth_error length]; try reflexivity.
    rewrite IH. reflexivity.
Qed.

Lemma nth_set_nth (l : list Z) : forall i v j,
  nth j (set_nth i v l) 0%Z = if (j =? i) && (i <? length l) then v else nth j l 0%Z.
Proof.
  induction l as [|x r IH]; intros i v j.
  - destruct i; cbn; rewrite ?andb_false_r; destruct j; reflexivity.
  - destruct i as [|i]; destruct j as [|j]; cbn [set_nth nth length]; try reflexivity.
    rewrite IH. reflexivity.
Qed.

Lemma length_set_nth {A} (l : list A) : forall i v, length (set_nth i v l) = length l.
Proof. induction l as [|x r IH]; intros [|i] v; cbn; auto. Qed.

Section Proofs.
  Variable expected : list Z.
  Notation K := (k expected).
  Notation E := (exp expected).

  Record inv (s : state) : Prop := {
    inv_len : length (cells s) = K;
    inv_one : forall t t' i i', nth_error (threads s) t = Some (Inside i) ->
                                nth_error (threads s) t' = Some (Inside i') -> t = t';
    inv_cells : forall i, i < K -> cell s i = 0%Z \/ cell s i = E i;
    inv_done : forall t i, nth_error (threads s) t = Some (Inside i) ->
                           forall j, j < i -> j < K -> cell s j = E j;
    inv_out : forall t, (exists j, nth_error (threads s) t = Some (Outside j)) \/
                        nth_error (threads s) t = Some Done ->
                        forall j, j < K -> cell s j = E j;
  }.

  Lemma lock_free_spec s : lock_free s = true -> forall t i, nth_error (threads s) t <> Some (Inside i).
  Proof.
    unfold lock_free. rewrite forallb_forall. intros H t i Ht.
    apply nth_error_In in Ht. specialize (H _ Ht). discriminate.
  Qed.

  Lemma inv_initial s : initial expected s -> inv s.
  Proof.
    intros (L & Hid & Hc). rewrite Forall_forall in Hid.
    assert (forall t p, nth_error (threads s) t = Some p -> p = Idle) as I.
    { intros t p H. apply Hid. eapply nth_error_In; eassumption. }
    split; try assumption.
    - intros t t' i i' H. apply I in H. discriminate.
    - intros t i H. apply I in H. discriminate.
    - intros t [[j H]|H]; apply I in H; discriminate.
  Qed.

  (* the value of a cell after the (possible) write of an Inside step *)
  Lemma cell_after_write guarded s i j : length (cells s) = K -> i < K ->
    (cell s i = 0%Z \/ cell s i = E i) ->
    nth j (if writes guarded expected s (Inside i) i then set_nth i (E i) (cells s) else cells s) 0%Z =
    if j =? i then E i else cell s j.
  Proof.
    intros L Hi Hc. unfold writes. rewrite Nat.eqb_refl. cbn [andb].
    assert (i <? K = true) as -> by (apply Nat.ltb_lt; exact Hi). cbn [andb].
    destruct (negb guarded || negb (Z.eqb (cell s i) (E i))) eqn:W.
    - rewrite nth_set_nth, L. assert (i <? K = true) as -> by (apply Nat.ltb_lt; exact Hi).
      rewrite andb_true_r. reflexivity.
    - apply orb_false_iff in W as [_ W]. apply negb_false_iff, Z.eqb_eq in W.
      destruct (Nat.eqb_spec j i) as [->|]; [exact W|reflexivity].
  Qed.

  Lemma inv_step guarded s t s' : inv s -> step_thread guarded expected s t = Some s' -> inv s'.
  Proof.
    intros [L One Cs Dn Out]. unfold step_thread.
    destruct (nth_error (threads s) t) as [p|] eqn:Ht; [|discriminate].
    assert (t < length (threads s)) as Tl by (apply nth_error_Some; congruence).
    assert (t <? length (threads s) = true) as Tlb by (apply Nat.ltb_lt; exact Tl).
    destruct p as [|i|j|]; [| | |discriminate].
    - (* Lock *)
      destruct (lock_free s) eqn:LF; [|discriminate]. intros [= <-].
      pose proof (lock_free_spec s LF) as NoIn.
      split; cbn [cells threads]; unfold cell in *; cbn [cells]; try assumption.
      + intros t1 t2 i i'. rewrite !nth_error_set_nth, Tlb, !andb_true_r.
        destruct (Nat.eqb_spec t1 t); destruct (Nat.eqb_spec t2 t); subst; try congruence.
        * intros _ H. exfalso. eapply NoIn; eassumption.
        * intros H. exfalso. eapply NoIn; eassumption.
        * intros H. exfalso. eapply NoIn; eassumption.
      + intros t1 i. rewrite nth_error_set_nth, Tlb, andb_true_r.
        destruct (Nat.eqb_spec t1 t); [intros [= <-] j Hj; lia|]. intros H. exfalso. eapply NoIn; eassumption.
      + intros t1. rewrite nth_error_set_nth, Tlb, andb_true_r.
        destruct (Nat.eqb_spec t1 t); [intros [[j H]|H]; discriminate|]. apply Out.
    - (* inside the critical section *)
      destruct (i <? K) eqn:Ik.
      + apply Nat.ltb_lt in Ik. intros [= <-].
        pose proof (cell_after_write guarded s i) as CW.
        split; cbn [cells threads]; unfold cell in *; cbn [cells].
        * match goal with |- context [if ?c then _ else _] => destruct c end; [rewrite length_set_nth|]; exact L.
        * intros t1 t2 a b. rewrite !nth_error_set_nth, Tlb, !andb_true_r.
          destruct (Nat.eqb_spec t1 t); destruct (Nat.eqb_spec t2 t); subst; try congruence.
          -- intros _ H. symmetry. eapply One; eassumption.
          -- intros H _. eapply One; eassumption.
          -- apply One.
        * intros j Hj. rewrite (CW j L Ik (Cs i Ik)). destruct (Nat.eqb_spec j i) as [->|]; [right; reflexivity|apply Cs; exact Hj].
        * intros t1 a. rewrite nth_error_set_nth, Tlb, andb_true_r.
          destruct (Nat.eqb_spec t1 t).
          -- intros [= <-] j Hj Hk. rewrite (CW j L Ik (Cs i Ik)).
             destruct (Nat.eqb_spec j i) as [->|]; [reflexivity|]. eapply Dn; [exact Ht|lia|exact Hk].
          -- intros H. assert (t1 = t) by (eapply One; eassumption). contradiction.
        * intros t1. rewrite nth_error_set_nth, Tlb, andb_true_r.
          destruct (Nat.eqb_spec t1 t); [intros [[j H]|H]; discriminate|].
          intros H j Hj. rewrite (CW j L Ik (Cs i Ik)).
          destruct (Nat.eqb_spec j i) as [->|]; [reflexivity|]. apply (Out t1 H j Hj).
      + apply Nat.ltb_ge in Ik. intros [= <-].
        assert (forall j, j < K -> cell s j = E j) as All.
        { intros j Hj. eapply Dn; [exact Ht|lia|exact Hj]. }
        split; cbn [cells threads]; unfold cell in *; cbn [cells]; try assumption.
        * intros t1 t2 a b. rewrite !nth_error_set_nth, Tlb, !andb_true_r.
          destruct (Nat.eqb_spec t1 t); destruct (Nat.eqb_spec t2 t); subst; try congruence. apply One.
        * intros t1 a. rewrite nth_error_set_nth, Tlb, andb_true_r.
          destruct (Nat.eqb_spec t1 t); [discriminate|]. apply Dn.
        * intros t1 _. exact All.
    - (* printing outside the critical section: no memory change *)
      assert (forall j', j' < K -> cell s j' = E j') as All.
      { apply (Out t). left. exists j. exact Ht. }
      assert (forall p', p' = Outside (S j) \/ p' = Done ->
                inv {| cells := cells s; threads := set_nth t p' (threads s) |}) as Both.
      { intros p' Hp'. split; cbn [cells threads]; unfold cell in *; cbn [cells]; try assumption.
        - intros t1 t2 a b. rewrite !nth_error_set_nth, Tlb, !andb_true_r.
          destruct (Nat.eqb_spec t1 t); destruct (Nat.eqb_spec t2 t); subst;
            try (destruct Hp' as [-> | ->]; congruence). apply One.
        - intros t1 a. rewrite nth_error_set_nth, Tlb, andb_true_r.
          destruct (Nat.eqb_spec t1 t); [destruct Hp' as [-> | ->]; discriminate|]. apply Dn.
        - intros t1 _. exact All. }
      destruct (j <? K); intros [= <-]; apply Both; auto.
  Qed.

  Lemma inv_reachable guarded s0 s : inv s0 -> reachable guarded expected s0 s -> inv s.
  Proof. intros H0 R. induction R; [exact H0|]. eapply inv_step; eassumption. Qed.

  (* C13, positive half: with guarded writes, no reachable state has a data race,
     for any number of threads and any number of unnamed values *)
  Theorem guarded_race_free s0 s :
    initial expected s0 -> reachable true expected s0 s -> ~ race true expected s.
  Proof.
    intros H0 R (t & t' & p & p' & i & Hne & Hp & Hp' & W & Acc & NL).
    pose proof (inv_reachable true s0 s (inv_initial s0 H0) R) as [L One Cs Dn Out].
    destruct p as [|a| |]; unfold writes in W; try discriminate.
    apply andb_prop in W as [W1 W3]. apply andb_prop in W1 as [W1 W2].
    apply Nat.eqb_eq in W1. subst a. apply Nat.ltb_lt in W2. cbn [negb orb] in W3.
    apply negb_true_iff, Z.eqb_neq in W3.
    cbn [in_lock andb] in NL.
    destruct p' as [|b|j|]; unfold reads, writes in Acc; cbn [in_lock] in *; try discriminate;
      try (destruct Acc as [Acc|Acc]; discriminate).
    apply W3. apply (Out t'); [left; exists j; exact Hp'|exact W2].
  Qed.

  (* and every read performed while printing returns the final, LLVM-assigned ID *)
  Theorem printed_ids_are_final guarded s0 s t j :
    initial expected s0 -> reachable guarded expected s0 s ->
    nth_error (threads s) t = Some (Outside j) -> j < K -> cell s j = E j.
  Proof.
    intros H0 R Ht Hj.
    pose proof (inv_reachable guarded s0 s (inv_initial s0 H0) R) as [L One Cs Dn Out].
    apply (Out t); [left; exists j; exact Ht|exact Hj].
  Qed.
End Proofs.

(* C13, negative half: with the unconditional write of the current source
   (guarded = false) two printers of a function with a single unnamed value race *)
Theorem unguarded_race :
  exists s0 s, initial [0%Z] s0 /\ reachable false [0%Z] s0 s /\ race false [0%Z] s.
Proof.
  exists {| cells := [0%Z]; threads := [Idle; Idle] |}.
  exists {| cells := [0%Z]; threads := [Outside 0; Inside 0] |}.
  split; [|split].
  - split; [reflexivity|]. split; [repeat constructor|]. intros i Hi. left.
    destruct i; [reflexivity|cbn in Hi; lia].
  - apply (reach_step false [0%Z] _ {| cells := [0%Z]; threads := [Outside 0; Idle] |} 1); [|reflexivity].
    apply (reach_step false [0%Z] _ {| cells := [0%Z]; threads := [Inside 1; Idle] |} 0); [|reflexivity].
    apply (reach_step false [0%Z] _ {| cells := [0%Z]; threads := [Inside 0; Idle] |} 0); [|reflexivity].
    apply (reach_step false [0%Z] _ {| cells := [0%Z]; threads := [Idle; Idle] |} 0); [|reflexivity].
    apply reach_refl.
  - exists 1, 0, (Inside 0), (Outside 0), 0. repeat split; try reflexivity; try discriminate.
    left; reflexivity.
Qed.
Print Assumptions guarded_race_free.
