(* C03, constructor side: what each New* function does with its parameters, read
   off the regenerated table Gen/Ctors.v. *)
From Coq Require Import List String Bool Arith.
From LLIR Require Import Gen.Ctors.
Import ListNotations.
Open Scope string_scope.

Fixpoint strip (s : string) : string :=
  match s with "..." => "" | String c r => String c (strip r) | EmptyString => EmptyString end.
Definition mem (x : string) (l : list string) : bool := existsb (String.eqb x) l.
Definition count (x : string) (l : list string) : nat := List.length (filter (String.eqb x) l).

(* plain: one composite literal, at most a call of methods of the new object, the return *)
Definition plain (c : ctor) : bool := match c_other c with [] => true | _ => false end.
(* every parameter is the value of exactly one field, and no field gets anything else *)
Definition stores_params (c : ctor) : bool :=
  let ps := map strip (c_params c) in let srcs := map snd (c_fields c) in
  forallb (fun p => Nat.eqb (count p srcs) 1) ps && forallb (fun s => mem s ps) srcs.
(* the only method a plain constructor calls computes (and caches) the result type: C06 *)
Definition calls_only_type (c : ctor) : bool := forallb (fun m => String.eqb m "Type") (c_calls c).

(* the constructors that do more; each is modelled by hand (Model/Ctors.v) and compared by the harness *)
Definition reviewed : list (string * string) :=
  map (pair "ir") [ "NewAlias"; "NewBlock"; "NewCallBr"; "NewCatchSwitch"; "NewCleanupRet"; "NewFunc"; "NewGlobal"; "NewGlobalDef";
    "NewIFunc"; "NewIndirectBr"; "NewInsertValue"; "NewLocalIdent"; "NewModule"; "NewParam"; "NewStore"; "NewTrunc" ]
  ++ map (pair "ir/constant") [ "NewBool"; "NewCharArray"; "NewCharArrayFromString"; "NewFloat"; "NewFloatFromString"; "NewInt"; "NewIntFromString" ].
Definition is_reviewed (c : ctor) : bool :=
  existsb (fun pn => String.eqb (fst pn) (c_pkg c) && String.eqb (snd pn) (c_name c)) reviewed.

Definition ctor_ok (c : ctor) : bool :=
  is_reviewed c || (plain c && stores_params c && calls_only_type c).

Theorem ctors_store_their_parameters : forallb ctor_ok ctors = true.
Proof. vm_compute. reflexivity. Qed.

Theorem ctor_faithful c : In c ctors -> is_reviewed c = false ->
  c_other c = [] /\ stores_params c = true /\ calls_only_type c = true.
Proof.
  intros Hin Hr. pose proof ctors_store_their_parameters as H. rewrite forallb_forall in H. specialize (H c Hin).
  unfold ctor_ok in H. rewrite Hr in H. cbn [orb] in H. apply andb_prop in H as [H H3]. apply andb_prop in H as [H1 H2].
  unfold plain in H1. destruct (c_other c); [auto|discriminate].
Qed.

(* the reviewed list is not padded: each entry names a constructor that really is irregular *)
Theorem reviewed_is_tight :
  forallb (fun pn => existsb (fun c => String.eqb (c_pkg c) (fst pn) && String.eqb (c_name c) (snd pn) && negb (plain c && stores_params c && calls_only_type c)) ctors) reviewed = true.
Proof. vm_compute. reflexivity. Qed.

Example plain_count : List.length (filter (fun c => negb (is_reviewed c)) ctors) = 112.
Proof. vm_compute. reflexivity. Qed.
Print Assumptions ctor_faithful.
