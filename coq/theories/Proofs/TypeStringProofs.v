(* The printed form of a type determines the type: parse_ty inverts ty_string.
   Consequence: types.Equal as implemented (string comparison for pointers) is
   structural equality. *)
From Coq Require Import List Bool Arith NArith Lia String.
From Coq Require Import Strings.Byte.
From LLIR Require Import Lib.Bytes Lib.Radix Model.Types Model.Enc Model.TypeString Proofs.EncProofs Proofs.ResultTypeProofs.
Import ListNotations.

Local Notation length := List.length.

(* ---- generic string lemmas ---- *)
Lemma strip_app p : forall s, strip p (p ++ s) = Some s.
Proof. induction p as [|a p IH]; intros s; cbn; [reflexivity|]. rewrite byte_eqb_refl. apply IH. Qed.

Definition starts_with (p : byte -> bool) (s : bytes) : bool := match s with b :: _ => p b | [] => false end.

Lemma span_app p a : forall c, forallb p a = true -> starts_with p c = false -> span p (a ++ c) = (a, c).
Proof.
  induction a as [|x a IH]; intros c Ha Hc; cbn [app span].
  - destruct c as [|y c]; [reflexivity|]. cbn [starts_with] in Hc. cbn [span]. rewrite Hc. reflexivity.
  - cbn [forallb] in Ha. apply andb_prop in Ha as [Hx Ha]. rewrite Hx, (IH c Ha Hc). reflexivity.
Qed.

(* ---- decimal numbers ---- *)
Lemma dec_bytes_digits u : forallb isdigit (dec_bytes u) = true.
Proof. induction u; cbn; auto. Qed.

Lemma parse_number_app n c : starts_with isdigit c = false ->
  parse_number (print_dec_N n ++ c) = Some (n, c).
Proof.
  intros Hc. unfold parse_number, print_dec_N.
  rewrite (span_app isdigit _ c (dec_bytes_digits _) Hc).
  fold (print_dec_N n). rewrite parse_print_dec. reflexivity.
Qed.

(* ---- names ---- *)
Lemma esc_no_quote b : forallb (fun c => negb (N.eqb (bN c) 34)) (esc b) = true.
Proof. destruct b; reflexivity. Qed.

Lemma escape_no_quote s : forallb (fun c => negb (N.eqb (bN c) 34)) (escape in_quoted s) = true.
Proof.
  induction s as [|b r IH]; [reflexivity|]. cbn [escape].
  destruct (in_quoted b) eqn:Q.
  - cbn [forallb]. apply in_quoted_not_special in Q as [_ Q]. rewrite Q. exact IH.
  - rewrite forallb_app, esc_no_quote, IH. reflexivity.
Qed.

(* the name of an identified struct: non-empty *)
Lemma parse_name_app n c : n <> [] -> starts_with in_tail c = false ->
  parse_name (escape_ident n ++ c) = Some (n, c).
Proof.
  intros Hn Hc. unfold escape_ident. destruct (forallb in_tail n) eqn:T.
  - destruct n as [|b r]; [congruence|]. cbn [app parse_name].
    assert (in_tail b = true) as Tb by (cbn in T; apply andb_prop in T; tauto).
    apply in_tail_in_quoted, in_quoted_not_special in Tb as [_ Q]. rewrite Q.
    change (b :: r ++ c) with ((b :: r) ++ c). rewrite (span_app in_tail _ c T Hc). reflexivity.
  - cbn [app parse_name]. change (N.eqb (bN x22) 34) with true. cbv iota.
    rewrite <- app_assoc. cbn [app].
    rewrite (span_app (fun c0 => negb (N.eqb (bN c0) 34)) _ (x22 :: c) (escape_no_quote n) eq_refl).
    f_equal. f_equal. apply unescape_escape. intros b H. apply in_quoted_not_special in H. tauto.
Qed.

(* ---- what may follow a type ---- *)
Definition is_cont (c : bytes) : bool :=
  match c with
  | [] => true
  | b :: _ => N.eqb (bN b) 42 || N.eqb (bN b) 32 || N.eqb (bN b) 44 || N.eqb (bN b) 62
              || N.eqb (bN b) 93 || N.eqb (bN b) 41
  end.
(* ... when the type is complete (no further suffix) *)
Definition is_stop (c : bytes) : bool :=
  match c with
  | [] => true
  | b :: r => N.eqb (bN b) 44 || N.eqb (bN b) 62 || N.eqb (bN b) 93 || N.eqb (bN b) 41
              || (N.eqb (bN b) 32 && match r with b2 :: _ => N.eqb (bN b2) 125 | [] => false end)
  end.

Lemma cont_facts c : is_cont c = true ->
  word_end c = true /\ starts_with isdigit c = false /\ starts_with in_tail c = false.
Proof.
  destruct c as [|b r]; [repeat split; reflexivity|]. unfold is_cont, word_end, starts_with.
  destruct b; vm_compute; intros H; try discriminate; repeat split; reflexivity.
Qed.

Lemma stop_cont c : is_stop c = true -> is_cont c = true.
Proof.
  destruct c as [|b r]; [reflexivity|]. unfold is_stop, is_cont.
  destruct b; cbn; try discriminate; try reflexivity.
Qed.

Lemma stop_no_suffix c : is_stop c = true ->
  strip (lit "*") c = None /\ strip (lit " addrspace(") c = None /\ strip (lit " (") c = None.
Proof.
  destruct c as [|b r]; [repeat split; reflexivity|]. unfold is_stop.
  destruct b; cbn; try discriminate; try (intros _; repeat split; reflexivity).
  (* b is a space: the next byte is a closing brace *)
  destruct r as [|b2 r2]; [discriminate|]. destruct b2; cbn; try discriminate; intros _; repeat split; reflexivity.
Qed.

(* ---- keywords ---- *)
Definition kw_of (t : ty) : option bytes :=
  match t with
  | TVoid => Some (lit "void") | TMMX => Some (lit "x86_mmx") | TLabel => Some (lit "label")
  | TToken => Some (lit "token") | TMetadata => Some (lit "metadata")
  | TFloat k => Some (fkind_string k)
  | _ => None
  end.

Lemma parse_keyword_ok t k c : kw_of t = Some k -> word_end c = true ->
  parse_keyword keywords (k ++ c) = Some (t, c).
Proof.
  intros Hk Hc. destruct t; try discriminate; try (destruct k0); injection Hk as <-;
    cbn; rewrite Hc; reflexivity.
Qed.

Lemma parse_keyword_none b s :
  (N.eqb (bN b) 105 || N.eqb (bN b) 37 || N.eqb (bN b) 91 || N.eqb (bN b) 123 || N.eqb (bN b) 60) = true ->
  parse_keyword keywords (b :: s) = None.
Proof. destruct b; cbn; try discriminate; reflexivity. Qed.

(* ---- size, well-formedness, base and suffix string of a type ---- *)
Fixpoint size (t : ty) : nat :=
  match t with
  | TPtr e _ | TVec _ _ e | TArr _ e => S (size e)
  | TStruct _ fs => S ((fix sum (l : list ty) := match l with [] => 0 | x :: r => size x + sum r end) fs)
  | TFunc r ps _ => S (size r + (fix sum (l : list ty) := match l with [] => 0 | x :: r => size x + sum r end) ps)
  | _ => 1
  end.
Fixpoint sizes (l : list ty) : nat := match l with [] => 0 | x :: r => size x + sizes r end.

Fixpoint wf (t : ty) : Prop :=
  match t with
  | TNamed n => n <> []
  | TPtr e _ | TVec _ _ e | TArr _ e => wf e
  | TStruct _ fs => (fix all (l : list ty) := match l with [] => True | x :: r => wf x /\ all r end) fs
  | TFunc r ps _ => wf r /\ (fix all (l : list ty) := match l with [] => True | x :: r => wf x /\ all r end) ps
  | _ => True
  end.
Fixpoint wfs (l : list ty) : Prop := match l with [] => True | x :: r => wf x /\ wfs r end.

Lemma size_struct p fs : size (TStruct p fs) = S (sizes fs).
Proof. reflexivity. Qed.
Lemma size_func r ps v : size (TFunc r ps v) = S (size r + sizes ps).
Proof. reflexivity. Qed.
Lemma wf_struct p fs : wf (TStruct p fs) <-> wfs fs.
Proof. cbn [wf]. induction fs as [|x r IH]; cbn; tauto. Qed.
Lemma wf_func r ps v : wf (TFunc r ps v) <-> wf r /\ wfs ps.
Proof. cbn [wf]. assert ((fix all (l : list ty) := match l with [] => True | x :: r0 => wf x /\ all r0 end) ps <-> wfs ps) as H by (induction ps as [|x l IH]; cbn; tauto). tauto. Qed.
Lemma size_pos t : 1 <= size t.
Proof. destruct t; cbn; lia. Qed.

Definition params_string (ps : list ty) (v : bool) : bytes :=
  lit " (" ++ join (map ty_string ps)
  ++ (if v then (match ps with [] => [] | _ => lit ", " end) ++ lit "..." else []) ++ lit ")".

Fixpoint base (t : ty) : ty :=
  match t with TPtr e _ => base e | TFunc r _ _ => base r | _ => t end.
Fixpoint sfx_string (t : ty) : bytes :=
  match t with
  | TPtr e a => sfx_string e ++ addrspace_string a ++ lit "*"
  | TFunc r ps v => sfx_string r ++ params_string ps v
  | _ => []
  end.
Fixpoint nsfx (t : ty) : nat :=
  match t with TPtr e _ => S (nsfx e) | TFunc r _ _ => S (nsfx r) | _ => 0 end.

Lemma ty_string_split t : ty_string t = ty_string (base t) ++ sfx_string t.
Proof.
  induction t; cbn [base sfx_string]; try (rewrite app_nil_r; reflexivity).
  - cbn [ty_string]. rewrite IHt, <- !app_assoc. reflexivity.
  - cbn [ty_string]. rewrite IHt. unfold params_string. rewrite <- !app_assoc. reflexivity.
Qed.

Lemma base_size t : size (base t) <= size t.
Proof. induction t; cbn [base]; try lia; try (cbn [size]; lia). Qed.
Lemma base_wf t : wf t -> wf (base t).
Proof. induction t; cbn [base]; auto. intros H. apply IHt. apply (proj1 (wf_func _ _ _)) in H. exact (proj1 H). Qed.
Lemma base_is_base t : base (base t) = base t.
Proof. induction t; cbn [base]; auto. Qed.

(* the suffix string, followed by a stop, is something that may follow a base type *)
Lemma sfx_cont t c : is_stop c = true -> is_cont (sfx_string t ++ c) = true.
Proof.
  intros Hc. induction t; cbn [sfx_string app]; try (apply stop_cont; exact Hc).
  - destruct (sfx_string t) as [|b r] eqn:E.
    + cbn [app]. unfold addrspace_string. destruct (N.eqb addrspace 0); reflexivity.
    + cbn [app] in *. exact IHt.
  - destruct (sfx_string t) as [|b r] eqn:E.
    + reflexivity.
    + cbn [app] in *. exact IHt.
Qed.

(* ---- first byte of a printed type ---- *)
Definition not_dot_paren (b : byte) : bool := negb (N.eqb (bN b) 46) && negb (N.eqb (bN b) 41).

Lemma ty_first t : exists b r, ty_string t = b :: r /\ not_dot_paren b = true.
Proof.
  induction t; cbn [ty_string]; try (eexists; eexists; split; [reflexivity|reflexivity]).
  - destruct k; eexists; eexists; split; reflexivity.
  - destruct IHt as (b & r & E & H). rewrite E. eexists; eexists; split; [reflexivity|exact H].
  - destruct fields as [|f fs]; destruct packed; eexists; eexists; split; reflexivity.
  - destruct IHt as (b & r & E & H). rewrite E. eexists; eexists; split; [reflexivity|exact H].
Qed.

Lemma ty_string_nonempty t : 1 <= length (ty_string t).
Proof. destruct (ty_first t) as (b & r & E & _). rewrite E. cbn. lia. Qed.

Lemma strip_mismatch p0 p s0 s : byte_eqb p0 s0 = false -> strip (p0 :: p) (s0 :: s) = None.
Proof. intros H. cbn [strip]. rewrite H. reflexivity. Qed.

Lemma not_dot b : not_dot_paren b = true -> byte_eqb "."%byte b = false /\ byte_eqb ")"%byte b = false.
Proof. destruct b; cbn; intros H; try discriminate; split; reflexivity. Qed.

Lemma strip_dots t z : strip (lit "...") (ty_string t ++ z) = None.
Proof.
  destruct (ty_first t) as (b & r & E & H). rewrite E. cbn [app].
  apply (strip_mismatch "."%byte (lit "..") b (r ++ z)). apply not_dot. exact H.
Qed.
Lemma strip_paren t z : strip (lit ")") (ty_string t ++ z) = None.
Proof.
  destruct (ty_first t) as (b & r & E & H). rewrite E. cbn [app].
  apply (strip_mismatch ")"%byte [] b (r ++ z)). apply not_dot. exact H.
Qed.
Lemma strip_dotsparen t z : strip (lit "...)") (ty_string t ++ z) = None.
Proof.
  destruct (ty_first t) as (b & r & E & H). rewrite E. cbn [app].
  apply (strip_mismatch "."%byte (lit "..)") b (r ++ z)). apply not_dot. exact H.
Qed.

Lemma join_cons2 x y r : join (x :: y :: r) = x ++ lit ", " ++ join (y :: r).
Proof. reflexivity. Qed.

Lemma join_length ts : length ts <= length (join (map ty_string ts)).
Proof.
  induction ts as [|x r IH]; [cbn; lia|]. destruct r as [|y r].
  - cbn [map join length]. pose proof (ty_string_nonempty x). lia.
  - cbn [map]. rewrite join_cons2, !app_length. cbn [map] in IH. pose proof (ty_string_nonempty x). cbn [length] in *. lia.
Qed.

(* ---- the recursive call is correct on smaller types ---- *)
Definition rec_ok (rec : bytes -> option (ty * bytes)) (n : nat) : Prop :=
  forall t, size t <= n -> wf t -> forall c, is_stop c = true -> rec (ty_string t ++ c) = Some (t, c).

Definition list_end (k : bytes) : Prop :=
  is_stop k = true /\ (strip (lit ", ") k = None \/ exists k', k = lit ", ..." ++ k').

Section WithRec.
  Variable rec : bytes -> option (ty * bytes).
  Variable n : nat.
  Hypothesis Hrec : rec_ok rec n.

  Lemma parse_list_ok : forall ts, ts <> [] -> (forall x, In x ts -> size x <= n /\ wf x) ->
    forall k, list_end k -> forall g, length ts <= g ->
    parse_list rec g (join (map ty_string ts) ++ k) = Some (ts, k).
  Proof.
    induction ts as [|x r IH]; [congruence|]. intros _ Hall k [Hstop Hend] g Hg.
    destruct g as [|g]; [cbn in Hg; lia|]. cbn [parse_list].
    destruct (Hall x (or_introl eq_refl)) as [Sx Wx].
    destruct r as [|y r].
    - cbn [map join]. rewrite (Hrec x Sx Wx k Hstop).
      destruct Hend as [Hn|[k' ->]].
      + rewrite Hn. reflexivity.
      + change (lit ", ..." ++ k') with (lit ", " ++ lit "..." ++ k'). rewrite strip_app, strip_app. reflexivity.
    - cbn [map]. rewrite join_cons2, <- !app_assoc.
      rewrite (Hrec x Sx Wx (lit ", " ++ join (ty_string y :: map ty_string r) ++ k) eq_refl).
      rewrite strip_app.
      assert (join (ty_string y :: map ty_string r) ++ k = ty_string y ++ (match r with [] => [] | _ => lit ", " ++ join (map ty_string r) end) ++ k) as E.
      { destruct r; cbn [map join]; [rewrite app_nil_l; reflexivity|]. rewrite <- !app_assoc. reflexivity. }
      rewrite E, strip_dots, <- E.
      change (ty_string y :: map ty_string r) with (map ty_string (y :: r)).
      rewrite IH; [reflexivity|discriminate| |split; [exact Hstop|exact Hend]|cbn [length] in *; lia].
      intros z Hz. apply Hall. right. exact Hz.
  Qed.

  Lemma sizes_in ts x : In x ts -> size x <= sizes ts.
  Proof. induction ts as [|y r IH]; [intros []|]. intros [->|H]; cbn [sizes]; [lia|]. specialize (IH H). lia. Qed.
  Lemma wfs_in ts x : wfs ts -> In x ts -> wf x.
  Proof. induction ts as [|y r IH]; [intros _ []|]. intros [Hy Hr] [->|H]; auto. Qed.

  (* ---- base types ---- *)
  Lemma parse_base_ok t : base t = t -> size t <= S n -> wf t ->
    forall k, is_cont k = true -> parse_base rec (ty_string t ++ k) = Some (t, k).
  Proof.
    intros Hb Hs Hw k Hk. destruct (cont_facts k Hk) as (Kw & Kd & Kt).
    destruct t; cbn [base] in Hb.
    - cbn [ty_string]. unfold parse_base. rewrite (parse_keyword_ok TVoid _ k eq_refl Kw). reflexivity.
    - cbn [ty_string]. unfold parse_base. rewrite (parse_keyword_ok TMMX _ k eq_refl Kw). reflexivity.
    - cbn [ty_string]. unfold parse_base. rewrite (parse_keyword_ok TLabel _ k eq_refl Kw). reflexivity.
    - cbn [ty_string]. unfold parse_base. rewrite (parse_keyword_ok TToken _ k eq_refl Kw). reflexivity.
    - cbn [ty_string]. unfold parse_base. rewrite (parse_keyword_ok TMetadata _ k eq_refl Kw). reflexivity.
    - (* iN *)
      assert (ty_string (TInt bits) ++ k = "i"%byte :: print_dec_N bits ++ k) as -> by reflexivity.
      unfold parse_base. rewrite parse_keyword_none by reflexivity.
      change (N.eqb (bN "i"%byte) 105) with true. cbv iota. rewrite (parse_number_app bits k Kd). reflexivity.
    - cbn [ty_string]. unfold parse_base. rewrite (parse_keyword_ok (TFloat k0) _ k eq_refl Kw). reflexivity.
    - (* pointer: not a base type *) exfalso. clear - Hb. assert (size (base t) <= size t) by apply base_size.
      rewrite Hb in H. cbn [size] in H. lia.
    - (* vector *)
      cbn [wf] in Hw. cbn [size] in Hs.
      assert (ty_string (TVec scalable len t) ++ k =
              "<"%byte :: (if scalable then lit "vscale x " else []) ++ print_dec_N len ++ lit " x " ++ ty_string t ++ lit ">" ++ k) as ->.
      { cbn [ty_string]. rewrite <- !app_assoc. reflexivity. }
      unfold parse_base. rewrite parse_keyword_none by reflexivity.
      change (N.eqb (bN "<"%byte) 105) with false. change (N.eqb (bN "<"%byte) 37) with false.
      change (N.eqb (bN "<"%byte) 91) with false. change (N.eqb (bN "<"%byte) 123) with false.
      change (N.eqb (bN "<"%byte) 60) with true. cbv iota.
      destruct (print_dec_head len) as (d & dr & Ed & Dd).
      assert (forall z, strip (lit "{}>") (print_dec_N len ++ z) = None /\ strip (lit "{ ") (print_dec_N len ++ z) = None
                        /\ strip (lit "vscale x ") (print_dec_N len ++ z) = None) as NoBr.
      { intros z. rewrite Ed. cbn [app]. apply isdigit_range in Dd.
        assert (byte_eqb "{"%byte d = false /\ byte_eqb "v"%byte d = false) as [B1 B2].
        { unfold byte_eqb. change (bN "{"%byte) with 123%N. change (bN "v"%byte) with 118%N.
          split; apply N.eqb_neq; lia. }
        repeat split.
        - apply (strip_mismatch "{"%byte (lit "}>")). exact B1.
        - apply (strip_mismatch "{"%byte (lit " ")). exact B1.
        - apply (strip_mismatch "v"%byte (lit "scale x ")). exact B2. }
      destruct scalable.
      + assert (forall z, strip (lit "{}>") (lit "vscale x " ++ z) = None /\ strip (lit "{ ") (lit "vscale x " ++ z) = None) as NoBr2
          by (intros z; split; reflexivity).
        destruct (NoBr2 (print_dec_N len ++ lit " x " ++ ty_string t ++ lit ">" ++ k)) as [N1 N2]. rewrite N1, N2.
        rewrite strip_app.
        rewrite (parse_number_app len (lit " x " ++ ty_string t ++ lit ">" ++ k) eq_refl).
        rewrite strip_app. rewrite (Hrec t ltac:(lia) Hw (lit ">" ++ k) eq_refl). rewrite strip_app. reflexivity.
      + cbn [app].
        destruct (NoBr (lit " x " ++ ty_string t ++ lit ">" ++ k)) as (N1 & N2 & N3). rewrite N1, N2, N3.
        rewrite (parse_number_app len (lit " x " ++ ty_string t ++ lit ">" ++ k) eq_refl).
        rewrite strip_app. rewrite (Hrec t ltac:(lia) Hw (lit ">" ++ k) eq_refl). rewrite strip_app. reflexivity.
    - (* array *)
      cbn [wf] in Hw. cbn [size] in Hs.
      assert (ty_string (TArr len t) ++ k = "["%byte :: print_dec_N len ++ lit " x " ++ ty_string t ++ lit "]" ++ k) as ->.
      { cbn [ty_string]. rewrite <- !app_assoc. reflexivity. }
      unfold parse_base. rewrite parse_keyword_none by reflexivity.
      change (N.eqb (bN "["%byte) 105) with false. change (N.eqb (bN "["%byte) 37) with false.
      change (N.eqb (bN "["%byte) 91) with true. cbv iota.
      rewrite (parse_number_app len (lit " x " ++ ty_string t ++ lit "]" ++ k) eq_refl).
      rewrite strip_app. rewrite (Hrec t ltac:(lia) Hw (lit "]" ++ k) eq_refl). rewrite strip_app. reflexivity.
    - (* literal struct *)
      rewrite size_struct in Hs. apply wf_struct in Hw.
      assert (forall x, In x fields -> size x <= n /\ wf x) as Hall.
      { intros x Hx. split; [pose proof (sizes_in fields x Hx); lia | eapply wfs_in; eassumption]. }
      destruct fields as [|f0 fs].
      + destruct packed.
        * assert (ty_string (TStruct true []) ++ k = "<"%byte :: lit "{}>" ++ k) as -> by reflexivity.
          unfold parse_base. rewrite parse_keyword_none by reflexivity.
          change (N.eqb (bN "<"%byte) 105) with false. change (N.eqb (bN "<"%byte) 37) with false.
          change (N.eqb (bN "<"%byte) 91) with false. change (N.eqb (bN "<"%byte) 123) with false.
          change (N.eqb (bN "<"%byte) 60) with true. cbv iota. rewrite strip_app. reflexivity.
        * assert (ty_string (TStruct false []) ++ k = "{"%byte :: lit "}" ++ k) as -> by reflexivity.
          unfold parse_base. rewrite parse_keyword_none by reflexivity.
          change (N.eqb (bN "{"%byte) 105) with false. change (N.eqb (bN "{"%byte) 37) with false.
          change (N.eqb (bN "{"%byte) 91) with false. change (N.eqb (bN "{"%byte) 123) with true. cbv iota.
          rewrite strip_app. reflexivity.
      + set (ts := f0 :: fs) in *.
        assert (length ts <= length (join (map ty_string ts))) as JL by apply join_length.
        destruct packed.
        * assert (ty_string (TStruct true ts) ++ k = "<"%byte :: lit "{ " ++ join (map ty_string ts) ++ lit " }>" ++ k) as ->.
          { unfold ts. cbn [ty_string]. rewrite <- !app_assoc. reflexivity. }
          unfold parse_base. rewrite parse_keyword_none by reflexivity.
          change (N.eqb (bN "<"%byte) 105) with false. change (N.eqb (bN "<"%byte) 37) with false.
          change (N.eqb (bN "<"%byte) 91) with false. change (N.eqb (bN "<"%byte) 123) with false.
          change (N.eqb (bN "<"%byte) 60) with true. cbv iota.
          assert (strip (lit "{}>") (lit "{ " ++ join (map ty_string ts) ++ lit " }>" ++ k) = None) as -> by reflexivity.
          rewrite strip_app.
          rewrite (parse_list_ok ts ltac:(discriminate) Hall (lit " }>" ++ k)).
          -- rewrite strip_app. reflexivity.
          -- split; [reflexivity|left; reflexivity].
          -- cbn [length]. rewrite !app_length. lia.
        * assert (ty_string (TStruct false ts) ++ k = "{"%byte :: lit " " ++ join (map ty_string ts) ++ lit " }" ++ k) as ->.
          { unfold ts. cbn [ty_string]. rewrite <- !app_assoc. reflexivity. }
          unfold parse_base. rewrite parse_keyword_none by reflexivity.
          change (N.eqb (bN "{"%byte) 105) with false. change (N.eqb (bN "{"%byte) 37) with false.
          change (N.eqb (bN "{"%byte) 91) with false. change (N.eqb (bN "{"%byte) 123) with true. cbv iota.
          assert (strip (lit "}") (lit " " ++ join (map ty_string ts) ++ lit " }" ++ k) = None) as -> by reflexivity.
          rewrite strip_app.
          rewrite (parse_list_ok ts ltac:(discriminate) Hall (lit " }" ++ k)).
          -- rewrite strip_app. reflexivity.
          -- split; [reflexivity|left; reflexivity].
          -- cbn [length]. rewrite !app_length. lia.
    - (* named struct *)
      cbn [wf] in Hw.
      assert (ty_string (TNamed name) ++ k = "%"%byte :: escape_ident name ++ k) as -> by reflexivity.
      unfold parse_base. rewrite parse_keyword_none by reflexivity.
      change (N.eqb (bN "%"%byte) 105) with false. change (N.eqb (bN "%"%byte) 37) with true. cbv iota.
      rewrite (parse_name_app name k Hw Kt). reflexivity.
    - (* function: not a base type *) exfalso. clear - Hb. assert (size (base t) <= size t) by apply base_size.
      rewrite Hb in H. rewrite size_func in H. lia.
  Qed.
End WithRec.

Section WithRec2.
  Variable rec : bytes -> option (ty * bytes).
  Variable n : nat.
  Hypothesis Hrec : rec_ok rec n.

  Lemma nsfx_le t : nsfx t <= length (sfx_string t).
  Proof.
    induction t; cbn [nsfx sfx_string]; try lia.
    - rewrite !app_length. change (length (lit "*")) with 1. lia.
    - unfold params_string. rewrite !app_length. change (length (lit " (")) with 2. lia.
  Qed.

  (* one iteration of the suffix loop on a parameter list *)
  Lemma params_step acc ps v k g : (forall x, In x ps -> size x <= n /\ wf x) ->
    parse_suffixes rec (S g) acc (params_string ps v ++ k) = parse_suffixes rec g (TFunc acc ps v) k.
  Proof.
    intros Hall. cbn [parse_suffixes]. unfold params_string. rewrite <- !app_assoc.
    assert (forall z, strip (lit "*") (lit " (" ++ z) = None /\ strip (lit " addrspace(") (lit " (" ++ z) = None) as NoS
      by (intros z; split; reflexivity).
    match goal with |- context [strip (lit "*") (lit " (" ++ ?z)] => destruct (NoS z) as [N1 N2]; rewrite N1, N2 end.
    rewrite strip_app.
    destruct ps as [|p0 ps].
    - cbn [map join app]. destruct v; cbn [app].
      + assert (strip (lit ")") (lit "..." ++ lit ")" ++ k) = None) as -> by reflexivity.
        change (lit "..." ++ lit ")" ++ k) with (lit "...)" ++ k). rewrite strip_app. reflexivity.
      + rewrite strip_app. reflexivity.
    - set (ts := p0 :: ps) in *.
      assert (length ts <= length (join (map ty_string ts))) as JL by apply join_length.
      assert (forall z, join (map ty_string ts) ++ z = ty_string p0 ++ (match ps with [] => [] | _ => lit ", " ++ join (map ty_string ps) end) ++ z) as JE.
      { intros z. unfold ts. destruct ps; cbn [map join]; [reflexivity|]. rewrite <- !app_assoc. reflexivity. }
      destruct v.
      + assert (((lit ", " ++ lit "...") ++ lit ")" ++ k) = lit ", ..." ++ lit ")" ++ k) as EV by reflexivity.
        rewrite EV. rewrite JE, strip_paren, strip_dotsparen, <- JE.
        rewrite (parse_list_ok rec n Hrec ts ltac:(discriminate) Hall (lit ", ..." ++ lit ")" ++ k)).
        * assert (strip (lit ")") (lit ", ..." ++ lit ")" ++ k) = None) as -> by reflexivity.
          change (lit ", ..." ++ lit ")" ++ k) with (lit ", ...)" ++ k). rewrite strip_app. reflexivity.
        * split; [reflexivity|right; eexists; reflexivity].
        * cbn [length]. rewrite !app_length. lia.
      + cbn [app]. rewrite JE, strip_paren, strip_dotsparen, <- JE.
        rewrite (parse_list_ok rec n Hrec ts ltac:(discriminate) Hall (lit ")" ++ k)).
        * rewrite strip_app. reflexivity.
        * split; [reflexivity|left; reflexivity].
        * cbn [length]. rewrite !app_length. lia.
  Qed.

  (* consuming a type's own suffixes rebuilds it and leaves the rest *)
  Lemma parse_suffixes_ok : forall t, size t <= S n -> wf t -> forall kk g, nsfx t < g ->
    parse_suffixes rec g (base t) (sfx_string t ++ kk) = parse_suffixes rec (g - nsfx t) t kk.
  Proof.
    induction t; intros Hs Hw kk g Hg; cbn [base sfx_string nsfx app]; try (rewrite Nat.sub_0_r; reflexivity).
    - (* pointer *)
      cbn [size] in Hs. cbn [wf] in Hw. cbn [nsfx] in Hg.
      rewrite <- !app_assoc. rewrite IHt by (try lia; assumption).
      destruct (g - nsfx t) as [|g'] eqn:G; [lia|]. replace (g - S (nsfx t)) with g' by lia.
      cbn [parse_suffixes]. unfold addrspace_string. destruct (N.eqb_spec addrspace 0) as [->|Ha].
      + cbn [app]. rewrite strip_app. reflexivity.
      + rewrite <- !app_assoc.
        assert (strip (lit "*") (lit " addrspace(" ++ print_dec_N addrspace ++ lit ")" ++ lit "*" ++ kk) = None) as -> by reflexivity.
        rewrite strip_app.
        rewrite (parse_number_app addrspace (lit ")" ++ lit "*" ++ kk) eq_refl).
        change (lit ")" ++ lit "*" ++ kk) with (lit ")*" ++ kk). rewrite strip_app. reflexivity.
    - (* function *)
      rewrite size_func in Hs. apply wf_func in Hw as [Hwr Hwp]. cbn [nsfx] in Hg.
      rewrite <- !app_assoc. rewrite IHt by (try lia; assumption).
      destruct (g - nsfx t) as [|g'] eqn:G; [lia|]. replace (g - S (nsfx t)) with g' by lia.
      apply params_step.
      intros x Hx. split; [pose proof (sizes_in params x Hx); lia | eapply wfs_in; eassumption].
  Qed.
End WithRec2.

(* ---- the parser inverts the printer ---- *)
Theorem parse_ty_string : forall n t, size t <= n -> wf t -> forall fuel c, n <= fuel -> is_stop c = true ->
  parse_ty fuel (ty_string t ++ c) = Some (t, c).
Proof.
  induction n as [|n IH]; intros t Hs Hw fuel c Hf Hc; [pose proof (size_pos t); lia|].
  destruct fuel as [|f]; [lia|]. cbn [parse_ty].
  assert (rec_ok (parse_ty f) n) as Hrec.
  { intros t' Hs' Hw' c' Hc'. apply IH; [exact Hs'|exact Hw'|lia|exact Hc']. }
  rewrite (ty_string_split t), <- app_assoc.
  rewrite (parse_base_ok (parse_ty f) n Hrec (base t) (base_is_base t)
             ltac:(pose proof (base_size t); lia) (base_wf t Hw) (sfx_string t ++ c) (sfx_cont t c Hc)).
  rewrite (parse_suffixes_ok (parse_ty f) n Hrec t Hs Hw c).
  - pose proof (nsfx_le t). rewrite app_length.
    destruct (S (length (sfx_string t) + length c) - nsfx t) as [|g] eqn:G; [lia|].
    cbn [parse_suffixes]. destruct (stop_no_suffix c Hc) as (S1 & S2 & S3). rewrite S1, S2, S3. reflexivity.
  - pose proof (nsfx_le t). rewrite app_length. lia.
Qed.

(* injectivity of the printed form *)
Theorem ty_string_inj t u : wf t -> wf u -> ty_string t = ty_string u -> t = u.
Proof.
  intros Ht Hu E.
  pose proof (parse_ty_string (size t) t (le_n _) Ht (size t + size u) [] ltac:(lia) eq_refl) as P1.
  pose proof (parse_ty_string (size u) u (le_n _) Hu (size t + size u) [] ltac:(lia) eq_refl) as P2.
  rewrite E in P1. rewrite P1 in P2. congruence.
Qed.
Print Assumptions ty_string_inj.

(* ---- C16: types.Equal as implemented is structural equality ---- *)
Lemma equal_go_refl : forall t, equal_go t t = true.
Proof.
  fix IH 1. intros t. destruct t; cbn [equal_go]; try reflexivity.
  - apply N.eqb_refl.
  - destruct k; reflexivity.
  - apply bytes_eqb_refl.
  - rewrite Bool.eqb_reflx, N.eqb_refl, IH. reflexivity.
  - rewrite N.eqb_refl, IH. reflexivity.
  - rewrite Bool.eqb_reflx. cbn [andb]. induction fields as [|x r IHr]; [reflexivity|]. rewrite IH. exact IHr.
  - apply bytes_eqb_refl.
  - rewrite IH, Bool.eqb_reflx, andb_true_r. cbn [andb].
    induction params as [|x r IHr]; [reflexivity|]. rewrite IH. exact IHr.
Qed.

Lemma equal_go_eq : forall t u, wf t -> wf u -> equal_go t u = true -> t = u.
Proof.
  fix IH 1. intros t u Ht Hu. destruct t; cbn [equal_go].
  1-5: destruct u; try discriminate; reflexivity.
  - destruct u; try discriminate. intros H. apply N.eqb_eq in H. congruence.
  - destruct u; try discriminate. intros H. apply fkind_eqb_spec in H. congruence.
  - (* pointer: printed strings are compared *)
    intros H. apply bytes_eqb_spec in H. apply ty_string_inj; assumption.
  - destruct u; try discriminate. intros H.
    apply andb_prop in H as [H12 H3]. apply andb_prop in H12 as [H1 H2].
    apply Bool.eqb_prop in H1. apply N.eqb_eq in H2. cbn [wf] in Ht, Hu. apply (IH _ _ Ht Hu) in H3. congruence.
  - destruct u; try discriminate. intros H. apply andb_prop in H as [H1 H2].
    apply N.eqb_eq in H1. cbn [wf] in Ht, Hu. apply (IH _ _ Ht Hu) in H2. congruence.
  - destruct u; try discriminate. intros H. apply andb_prop in H as [H1 H2].
    apply Bool.eqb_prop in H1. subst. f_equal.
    apply wf_struct in Ht. apply wf_struct in Hu.
    revert fields0 Hu H2. induction fields as [|x r IHr]; intros [|y r'] Hu H2; try discriminate; [reflexivity|].
    destruct Ht as [Hx Hr]. destruct Hu as [Hy Hr']. apply andb_prop in H2 as [Exy Er].
    apply (IH _ _ Hx Hy) in Exy. rewrite (IHr Hr r' Hr' Er). congruence.
  - destruct u; try discriminate. intros H. apply bytes_eqb_spec in H. congruence.
  - destruct u; try discriminate. intros H.
    apply andb_prop in H as [H12 H3]. apply andb_prop in H12 as [H1 H2].
    apply wf_func in Ht as [Htr Htp]. apply wf_func in Hu as [Hur Hup].
    apply (IH _ _ Htr Hur) in H1. apply Bool.eqb_prop in H3. subst. f_equal.
    revert params0 Hup H2. induction params as [|x r IHr]; intros [|y r'] Hup H2; try discriminate; [reflexivity|].
    destruct Htp as [Hx Hr]. destruct Hup as [Hy Hr']. apply andb_prop in H2 as [Exy Er].
    apply (IH _ _ Hx Hy) in Exy. rewrite (IHr Hr r' Hr' Er). congruence.
Qed.

Theorem equal_go_spec t u : wf t -> wf u -> (equal_go t u = true <-> t = u).
Proof. intros Ht Hu. split; [apply equal_go_eq; assumption | intros ->; apply equal_go_refl]. Qed.

(* hence an equivalence relation that distinguishes any two different types *)
Corollary equal_go_sym t u : wf t -> wf u -> equal_go t u = equal_go u t.
Proof.
  intros Ht Hu. destruct (equal_go t u) eqn:E1; destruct (equal_go u t) eqn:E2; try reflexivity.
  - apply (equal_go_spec t u Ht Hu) in E1. subst. rewrite equal_go_refl in E2. discriminate.
  - apply (equal_go_spec u t Hu Ht) in E2. subst. rewrite equal_go_refl in E1. discriminate.
Qed.
Corollary equal_go_trans t u v : wf t -> wf u -> wf v ->
  equal_go t u = true -> equal_go u v = true -> equal_go t v = true.
Proof.
  intros Ht Hu Hv H1 H2. apply (equal_go_spec t u Ht Hu) in H1. apply (equal_go_spec u v Hu Hv) in H2.
  subst. apply equal_go_refl.
Qed.
Print Assumptions equal_go_spec.
