From Coq Require Import List String ZArith NArith Bool Lia.
From Coq Require Import Strings.Byte.
From LLIR Require Import Lib.Bytes Lib.Radix Model.Enc Model.Types Model.TypeString Model.GoEval Gen.Enums Gen.Printers Proofs.PrinterRefinement Proofs.InstPrintBase Proofs.CallPrintLemmas.
Import ListNotations.
Open Scope string_scope.

(* C01, text layer: invoke (see CallPrintLemmas.v; a file of its own so that the three long runs build in parallel). *)
Ltac hook ::= rewrite callingconv_call.

(* %r = invoke fastcc T @f(args) attrs [ bundles ]
           to label %normal unwind label %exc, !md *)
Lemma print_invoke fuel id rt sigt variadic tc ic (args : list (bytes * bytes)) cc rattrs addrspace fattrs bundles normal exc mds :
  call_printer impl call_globals (S (S (S fuel))) "ir.TermInvoke" "LLString"
    (VObj "ir.TermInvoke" [("Ident()", VStr id); ("Typ", atype rt); ("Sig()", asig sigt variadic); ("Invokee", value tc ic);
                           ("Args", VList (map (fun x => value (fst x) (snd x)) args));
                           ("NormalRetTarget", value (lit "label") normal); ("ExceptionRetTarget", value (lit "label") exc);
                           ("CallingConv", VEnum "enum.CallingConv" cc);
                           ("ReturnAttrs", VList (map aattr rattrs)); ("AddrSpace", VEnum "types.AddrSpace" addrspace);
                           ("FuncAttrs", VList (map aattr fattrs)); ("OperandBundles", VList (map abundle bundles));
                           ("Metadata", VList (map mdatt mds))])
  = Ok (VStr (result_text rt id ++ lit "invoke" ++ cc_text cc ++ attrs_text rattrs ++ addrspace_text " " addrspace
              ++ lit " " ++ (if variadic then sigt else rt) ++ lit " " ++ ic ++ lit "(" ++ tvs args ++ lit ")"
              ++ attrs_text fattrs ++ bundles_text bundles
              ++ [x0a; x09; x09] ++ lit "to label " ++ normal ++ lit " unwind label " ++ exc ++ mds_text mds)%list).
Proof.
  enter; merge; merge; loop; merge.
  destruct variadic.
  all: simp; loop_sep; loop; loop_sep; merge; loop.
  all: destruct bundles; call_done.
Qed.
