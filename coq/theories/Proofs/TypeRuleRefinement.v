(* C06, package ir: the Type() methods, regenerated from the Go source
   (Gen/Printers.v) and run by Model/GoEval.v on an instruction whose operands
   have the reified types, compute exactly the rule of Model/ResultType.v
   (ir_type) -- including where the rule panics, and including the defect that
   a scalable vector comes back as a fixed one (KF-08). *)
From Coq Require Import List String ZArith NArith Bool.
From Coq Require Import Strings.Byte.
From LLIR Require Import Lib.Bytes Model.Types Model.TypeString Model.ResultType Model.GoEval Gen.Printers Proofs.PrinterRefinement Proofs.ResultTypeProofs.
Import ListNotations.
Open Scope string_scope.

(* package-level variables of package types that the methods mention *)
Definition globals : env :=
  [("types", VObj "pkg" [("I1", reify_ty (TInt 1)); ("Token", reify_ty TToken); ("Void", reify_ty TVoid)])].

(* an operand: all a Type() method asks of it is its type *)
Definition operand (t : ty) : val := VObj "value" [("Type()", reify_ty t)].

Definition expect (o : outcome ty) : res val :=
  match o with ResultType.Ok t => GoEval.Ok (reify_ty t) | Panic => Fail "panic" end.

Definition run_type (kind : string) (fields : list (string * val)) : res val :=
  call_printer impl globals 3 kind "Type" (VObj kind (("Typ", VNil) :: fields)).

Section Rules.
  Variable bodies : ResultType.env.

  Theorem icmp_type_generated x : run_type "ir.InstICmp" [("X", operand x)] = expect (ir_type bodies (ICmp x)).
  Proof. destruct x; reflexivity. Qed.

  Theorem fcmp_type_generated x : run_type "ir.InstFCmp" [("X", operand x)] = expect (ir_type bodies (FCmp x)).
  Proof. destruct x; reflexivity. Qed.

  Theorem add_type_generated x y : run_type "ir.InstAdd" [("X", operand x); ("Y", operand y)] = expect (ir_type bodies (SameAsFirst x)).
  Proof. reflexivity. Qed.

  Theorem extractelement_type_generated x i :
    run_type "ir.InstExtractElement" [("X", operand x); ("Index", operand i)] = expect (ir_type bodies (ExtractElement x)).
  Proof. destruct x; reflexivity. Qed.

  Theorem insertelement_type_generated x e i :
    run_type "ir.InstInsertElement" [("X", operand x); ("Elem", operand e); ("Index", operand i)] = expect (ir_type bodies (InsertElement x)).
  Proof. destruct x; reflexivity. Qed.

  Theorem shufflevector_type_generated x y m :
    run_type "ir.InstShuffleVector" [("X", operand x); ("Y", operand y); ("Mask", operand m)] = expect (ir_type bodies (ShuffleVector x m)).
  Proof. destruct x; try reflexivity; destruct m; reflexivity. Qed.

  Theorem cmpxchg_type_generated p c n :
    run_type "ir.InstCmpXchg" [("Ptr", operand p); ("Cmp", operand c); ("New", operand n)] = expect (ir_type bodies (CmpXchg n)).
  Proof. reflexivity. Qed.

  Theorem atomicrmw_type_generated d x :
    run_type "ir.InstAtomicRMW" [("Dst", operand d); ("X", operand x)] = expect (ir_type bodies (AtomicRMW d)).
  Proof. destruct d; reflexivity. Qed.

  Theorem select_type_generated c a b :
    run_type "ir.InstSelect" [("Cond", operand c); ("ValueTrue", operand a); ("ValueFalse", operand b)] = expect (ir_type bodies (SameAsFirst a)).
  Proof. reflexivity. Qed.

  Theorem trunc_type_generated f t : run_type "ir.InstTrunc" [("From", operand f); ("To", reify_ty t)] = expect (ir_type bodies (Convert f t)).
  Proof. reflexivity. Qed.

  Theorem load_type_generated t s : run_type "ir.InstLoad" [("ElemType", reify_ty t); ("Src", operand s)] = expect (ir_type bodies (Explicit t)).
  Proof. reflexivity. Qed.
End Rules.

(* the scalable flag is dropped by the code itself: the regenerated method says so *)
Theorem icmp_scalable_lost_generated n e :
  run_type "ir.InstICmp" [("X", operand (TVec true n e))] = GoEval.Ok (reify_ty (TVec false n (TInt 1))).
Proof. reflexivity. Qed.

Print Assumptions icmp_type_generated.
Print Assumptions shufflevector_type_generated.

(* ---- package asm: the type the parser computes from the text before translating the body ---- *)
Definition asm_globals : env :=
  [("types", VObj "pkg" [("I1", reify_ty (TInt 1)); ("Token", reify_ty TToken); ("Void", reify_ty TVoid)]);
   ("fgen", VObj "asm.funcGen" [("gen", VObj "asm.generator" [])])].

(* an AST operand: all the constructor asks of it is the type written in the text *)
Definition ast_operand (t : ty) : val := VObj "ast.TypeValue" [("Typ()", reify_ty t)].

(* run asm.newXxxInst(ident, old) and take the Typ field of the object it returns *)
Definition run_new (fn : string) (old : val) : res val :=
  match call_printer impl asm_globals 3 "" fn (VTuple [VObj "ir.LocalIdent" []; old]) with
  | GoEval.Ok (VTuple [VObj _ fs; VNil]) => match lookup "Typ" fs with Some t => GoEval.Ok t | None => Fail "no Typ" end
  | GoEval.Ok _ => Fail "unexpected result"
  | Fail w => Fail w
  end.

Section AsmRules.
  Variable bodies : ResultType.env.

  Theorem asm_icmp_generated x : run_new "asm.newICmpInst" (VObj "ast.ICmpInst" [("X()", ast_operand x)]) = expect (asm_type bodies (ICmp x)).
  Proof. destruct x; reflexivity. Qed.

  Theorem asm_fcmp_generated x : run_new "asm.newFCmpInst" (VObj "ast.FCmpInst" [("X()", ast_operand x)]) = expect (asm_type bodies (FCmp x)).
  Proof. destruct x; reflexivity. Qed.

  Theorem asm_add_generated x : run_new "asm.newAddInst" (VObj "ast.AddInst" [("X()", ast_operand x)]) = expect (asm_type bodies (SameAsFirst x)).
  Proof. reflexivity. Qed.

  Theorem asm_extractelement_generated x :
    run_new "asm.newExtractElementInst" (VObj "ast.ExtractElementInst" [("X()", ast_operand x)]) = expect (asm_type bodies (ExtractElement x)).
  Proof. destruct x; reflexivity. Qed.

  Theorem asm_insertelement_generated x :
    run_new "asm.newInsertElementInst" (VObj "ast.InsertElementInst" [("X()", ast_operand x)]) = expect (asm_type bodies (InsertElement x)).
  Proof. destruct x; reflexivity. Qed.

  Theorem asm_shufflevector_generated x m :
    run_new "asm.newShuffleVectorInst" (VObj "ast.ShuffleVectorInst" [("X()", ast_operand x); ("Mask()", ast_operand m)])
    = expect (asm_type bodies (ShuffleVector x m)).
  Proof. destruct x; try reflexivity; destruct m; reflexivity. Qed.

  Theorem asm_call_generated w c : run_new "asm.newCallInst" (VObj "ast.CallInst" [("Typ()", reify_ty w)]) = expect (asm_type bodies (CallLike w c)).
  Proof. destruct w; reflexivity. Qed.

  (* ---- C06 on the regenerated terms: for an instruction LLVM accepts, the type the parser computes
     from the text and the type the IR computes from the operands are the same object description ---- *)
  Corollary icmp_parser_and_ir_agree_generated x t :
    llvm_type bodies (ICmp x) = Some t -> scalable_rebuilt (ICmp x) = false ->
    run_new "asm.newICmpInst" (VObj "ast.ICmpInst" [("X()", ast_operand x)]) = GoEval.Ok (reify_ty t)
    /\ run_type "ir.InstICmp" [("X", operand x)] = GoEval.Ok (reify_ty t).
  Proof.
    intros H Hs. destruct (result_types_agree bodies (ICmp x) t H Hs) as [Hi Ha].
    rewrite asm_icmp_generated, (icmp_type_generated bodies x), Hi, Ha. split; reflexivity.
  Qed.
End AsmRules.
Print Assumptions asm_shufflevector_generated.
Print Assumptions icmp_parser_and_ir_agree_generated.

(* ---- further kinds, same one-line proofs ---- *)
Definition run_new_f (fn fld : string) (old : val) : res val :=
  match call_printer impl asm_globals 3 "" fn (VTuple [VObj "ir.LocalIdent" []; old]) with
  | GoEval.Ok (VTuple [VObj _ fs; VNil]) => match lookup fld fs with Some t => GoEval.Ok t | None => Fail "no field" end
  | GoEval.Ok _ => Fail "unexpected result"
  | Fail w => Fail w
  end.
Section MoreRules.
  Variable bodies : ResultType.env.
  Theorem alloca_type_generated e a :
    run_type "ir.InstAlloca" [("ElemType", reify_ty e); ("AddrSpace", VEnum "types.AddrSpace" (Z.of_N a)); ("NElems", VNil)] = expect (ir_type bodies (Alloca e a)).
  Proof. (* the body compares the cached address space with the current one (fix 90ed987) *)
    cbv -[Z.eqb Z.of_N reify_ty]. rewrite Z.eqb_refl. reflexivity. Qed.
  (* the same body on an instruction whose type was cached with another address space (NewAlloca, then
     inst.AddrSpace = a): the type returned carries the current address space *)
  Theorem alloca_type_stale_cache_generated e a a0 :
    call_printer impl globals 3 "ir.InstAlloca" "Type"
      (VObj "ir.InstAlloca" [("Typ", reify_ty (TPtr e a0)); ("ElemType", reify_ty e); ("AddrSpace", VEnum "types.AddrSpace" (Z.of_N a)); ("NElems", VNil)])
    = expect (ir_type bodies (Alloca e a)).
  Proof.
    change (reify_ty (TPtr e a0)) with (VObj (tyname (TPtr e a0)) (tfields (TPtr e a0))). cbn [tyname tfields].
    cbv -[Z.eqb Z.of_N reify_ty]. destruct (Z.eqb_spec (Z.of_N a0) (Z.of_N a)) as [E|E].
    - apply N2Z.inj in E. subst a0. reflexivity.
    - reflexivity.
  Qed.
  Theorem phi_type_generated d x :
    run_type "ir.InstPhi" [("Incs", VList [VObj "ir.Incoming" [("X", operand d)]; VObj "ir.Incoming" [("X", operand x)]])] = expect (ir_type bodies (Phi d [d; x])).
  Proof. reflexivity. Qed.
  Theorem catchpad_type_generated : run_type "ir.InstCatchPad" [] = expect (ir_type bodies TokenResult).
  Proof. reflexivity. Qed.
  (* a conversion keeps the target type written in the text in its To field *)
  Theorem asm_trunc_generated f t :
    run_new_f "asm.newTruncInst" "To" (VObj "ast.TruncInst" [("From()", ast_operand f); ("To()", reify_ty t)]) = expect (asm_type bodies (Convert f t)).
  Proof. reflexivity. Qed.
  Theorem asm_cmpxchg_generated n :
    run_new "asm.newCmpXchgInst" (VObj "ast.CmpXchgInst" [("New()", ast_operand n)]) = expect (asm_type bodies (CmpXchg n)).
  Proof. reflexivity. Qed.
End MoreRules.

(* ---- whole families at once: the 18 binary and bitwise kinds, the 13 conversions, both packages ---- *)
Definition binary_kinds : list string :=
  ["Add"; "FAdd"; "Sub"; "FSub"; "Mul"; "FMul"; "UDiv"; "SDiv"; "FDiv"; "URem"; "SRem"; "FRem"; "Shl"; "LShr"; "AShr"; "And"; "Or"; "Xor"].
Definition conversion_kinds : list string :=
  ["Trunc"; "ZExt"; "SExt"; "FPTrunc"; "FPExt"; "FPToUI"; "FPToSI"; "UIToFP"; "SIToFP"; "PtrToInt"; "IntToPtr"; "BitCast"; "AddrSpaceCast"].
Section Bulk.
  Variable bodies : ResultType.env.
  Theorem binary_ir_generated :
    Forall (fun k => forall x y, run_type ("ir.Inst" ++ k) [("X", operand x); ("Y", operand y)] = expect (ir_type bodies (SameAsFirst x))) binary_kinds.
  Proof. repeat constructor; intros; reflexivity. Qed.
  Theorem binary_asm_generated :
    Forall (fun k => forall x, run_new ("asm.new" ++ k ++ "Inst") (VObj "ast.node" [("X()", ast_operand x)]) = expect (asm_type bodies (SameAsFirst x))) binary_kinds.
  Proof. repeat constructor; intros; reflexivity. Qed.
  Theorem conversion_ir_generated :
    Forall (fun k => forall f t, run_type ("ir.Inst" ++ k) [("From", operand f); ("To", reify_ty t)] = expect (ir_type bodies (Convert f t))) conversion_kinds.
  Proof. repeat constructor; intros; reflexivity. Qed.
  Theorem conversion_asm_generated :
    Forall (fun k => forall f t, run_new_f ("asm.new" ++ k ++ "Inst") "To" (VObj "ast.node" [("From()", ast_operand f); ("To()", reify_ty t)]) = expect (asm_type bodies (Convert f t))) conversion_kinds.
  Proof. repeat constructor; intros; reflexivity. Qed.
End Bulk.

Print Assumptions binary_asm_generated.
