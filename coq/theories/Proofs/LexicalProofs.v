From Coq Require Import List Bool NArith ZArith Lia.
From Coq Require Import Strings.Byte.
From LLIR Require Import Lib.Bytes Lib.Radix Model.Enc Model.TypeString Model.Lexical Proofs.EncProofs Proofs.TypeStringProofs.
Import ListNotations.
Local Open Scope N_scope.

Lemma in_tail_split b : in_tail b = true -> in_head b = true \/ isdigit b = true.
Proof. unfold in_tail, is_decimal. intros H. apply orb_prop in H. tauto. Qed.

Lemma head_not_digit_quote b : in_head b = true -> (bN b =? 34) = false /\ isdigit b = false.
Proof. destruct b; vm_compute; intros H; try discriminate; split; reflexivity. Qed.

Lemma quoted_body_llvm q : forallb (fun c => negb (bN c =? 34)) q = true ->
  llvm_var (x22 :: q ++ [x22]) = Some (Name (unescape q)).
Proof.
  intros H. unfold llvm_var. change (bN x22 =? 34) with true. cbv iota.
  rewrite (span_app (fun c => negb (bN c =? 34)) q [x22] H eq_refl). reflexivity.
Qed.

Lemma digits_no_quote n : forallb isdigit n = true -> forallb (fun c => negb (bN c =? 34)) n = true.
Proof.
  induction n as [|b r IH]; [reflexivity|]. cbn [forallb]. intros H. apply andb_prop in H as [D H].
  rewrite (IH H), andb_true_r. apply isdigit_range in D. apply negb_true_iff, N.eqb_neq. lia.
Qed.

(* C11, LLVM side: LLVM reads the printed global/local name as the same bytes,
   except for names printed bare with a leading digit *)
Theorem llvm_reads_name sigil n : n <> [] -> lead_digit_bare n = false ->
  llvm_var (tl (sigil_name sigil n)) = Some (Name n).
Proof.
  intros Hn LD. unfold sigil_name. destruct (parse_uint64 n) as [v|] eqn:U; cbn [tl].
  - rewrite quoted_body_llvm.
    + f_equal. f_equal. unfold unescape. apply unescape_no_backslash_fuel; [reflexivity|].
      apply digits_no_backslash. unfold parse_uint64 in U.
      destruct (parse_dec_N n) eqn:E; [|discriminate]. eapply parse_dec_N_digits. exact E.
    + apply digits_no_quote. unfold parse_uint64 in U.
      destruct (parse_dec_N n) eqn:E; [|discriminate]. eapply parse_dec_N_digits. exact E.
  - unfold escape_ident. destruct (forallb in_tail n) eqn:T.
    + destruct n as [|b r]; [congruence|]. cbn [forallb] in T. apply andb_prop in T as [Tb Tr].
      unfold lead_digit_bare in LD. cbn [forallb] in LD. rewrite Tb, Tr, U in LD. cbn [andb] in LD.
      rewrite andb_true_r in LD.
      destruct (in_tail_split b Tb) as [Hh|Hd]; [|congruence].
      destruct (head_not_digit_quote b Hh) as [Q _]. unfold llvm_var. rewrite Q, Hh, Tr. reflexivity.
    + rewrite quoted_body_llvm by apply escape_no_quote.
      f_equal. f_equal. apply unescape_escape. intros b H. apply in_quoted_not_special in H. tauto.
Qed.

Theorem llvm_lead_digit_refuted :
  llvm_global (global_name [x32; x61; x62; x63]) = None.
Proof. reflexivity. Qed.
Theorem llvm_huge_numeric_refuted :
  llvm_global (global_name (print_dec_N (2 ^ 64))) = Some (ID 0).
Proof. vm_compute. reflexivity. Qed.
Print Assumptions llvm_reads_name.
