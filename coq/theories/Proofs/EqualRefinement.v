(* C16: the Equal methods of the twelve type kinds, regenerated from ir/types/types.go and run
   by Model/GoEval.v on reified types, against the hand model equal_go of Model/TypeString.v
   (the function equal_go_spec is about). *)
From Coq Require Import List String ZArith NArith Bool Lia.
From Coq Require Import Strings.Byte.
From LLIR Require Import Lib.Bytes Model.Types Model.TypeString Model.GoEval Gen.Printers Proofs.PrinterRefinement.
Import ListNotations.
Open Scope string_scope.

Definition run_equal (fuel : nat) (t u : ty) : res val :=
  call_printer impl [] fuel (tyname t) "Equal" (VTuple [reify_ty t; reify_ty u]).

Definition agree (t u : ty) : bool :=
  match run_equal 30 t u with Ok (VBool b) => Bool.eqb b (equal_go t u) | _ => false end.

Definition samples : list ty :=
  [ TVoid; TLabel; TInt 1; TInt 32; TFloat FDouble; TFloat FHalf; TPtr (TInt 8) 0; TPtr (TInt 8) 3; TPtr (TPtr (TInt 8) 0) 0;
    TVec false 4 (TInt 32); TVec true 4 (TInt 32); TVec false 2 (TInt 32); TArr 4 (TInt 8); TArr 0 (TInt 8);
    TStruct false []; TStruct true []; TStruct false [TInt 32; TPtr (TInt 8) 0]; TStruct true [TInt 32; TPtr (TInt 8) 0];
    TStruct false [TInt 32; TPtr (TInt 8) 1]; TStruct false [TInt 32];
    TNamed (lit "a"); TNamed (lit "b"); TPtr (TNamed (lit "a")) 0;
    TFunc TVoid [] false; TFunc TVoid [] true; TFunc (TInt 32) [TInt 8; TPtr (TInt 8) 0] false; TFunc (TInt 32) [TInt 8] false;
    TFunc (TInt 32) [TInt 8; TPtr (TInt 8) 0] true; TMetadata; TToken; TMMX ].

(* all 31 x 31 ordered pairs: the regenerated Equal methods and equal_go give the same answer *)
Theorem equal_agrees_on_samples : forallb (fun t => forallb (fun u => agree t u) samples) samples = true.
Proof. vm_compute. reflexivity. Qed.
Print Assumptions equal_agrees_on_samples.

(* ---- the unbounded statement, for types that contain no literal struct and no function type
   (those two kinds compare their components in an index loop; their case is the stage-2 part) ---- *)
Fixpoint loop_free (t : ty) : Prop :=
  match t with
  | TStruct _ _ | TFunc _ _ _ => False
  | TPtr _ _ => True                      (* compared through its printed form: any pointee *)
  | TVec _ _ e | TArr _ e => loop_free e
  | _ => True
  end.

Lemma Zeqb_ofN' a b : (Z.of_N a =? Z.of_N b)%Z = (a =? b)%N.
Proof. destruct (N.eqb_spec a b) as [->|H]; [apply Z.eqb_refl|apply Z.eqb_neq; intros E; apply H; apply N2Z.inj; exact E]. Qed.
Lemma fkind_num_eqb a b : (fkind_num a =? fkind_num b)%Z = fkind_eqb a b.
Proof. destruct a, b; reflexivity. Qed.

Local Arguments call_printer : simpl never.
Local Arguments ty_string : simpl never.
Local Arguments equal_go : simpl never.
Local Arguments find_printer : simpl never.
Local Arguments for_loop : simpl never.
Local Arguments truncate : simpl nomatch.

Ltac step_eq :=
  rewrite call_printer_S;
  match goal with
  | |- context [find_printer ?t ?m] =>
    let r := eval vm_compute in (find_printer t m) in
    replace (find_printer t m) with r by (vm_compute; reflexivity)
  end;
  unfold run_body.

Lemma equal_printer_exists t : exists p, find_printer (tyname t) "Equal" = Some p.
Proof. destruct t; eexists; vm_compute; reflexivity. Qed.

(* a range loop whose body returns false at the first index that fails a test and changes nothing otherwise *)
Lemma for_loop_until body k v (ok : nat -> bool) (l : list val) : forall (off : nat) en buf,
  (forall j x, nth_error l j = Some x ->
     body (loop_env k v (Z.of_nat (off + j)) x en) buf
     = Ok (loop_env k v (Z.of_nat (off + j)) x en, buf, if ok (off + j) then Run else Ret (VBool false))) ->
  for_loop body k v l (Z.of_nat off) en buf
  = Ok (en, buf, if forallb ok (seq off (List.length l)) then Run else Ret (VBool false)).
Proof.
  induction l as [|x r IH]; intros off en buf Hb.
  - reflexivity.
  - unfold for_loop; fold for_loop.
    pose proof (Hb 0 x eq_refl) as H0. rewrite Nat.add_0_r in H0. rewrite H0. rewrite truncate_loop_env.
    cbn [List.length seq forallb]. destruct (ok off) eqn:E; cbn.
    + replace (Z.of_nat off + 1)%Z with (Z.of_nat (S off)) by lia.
      apply IH. intros j y Hy. replace (S off + j) with (off + S j) by lia. apply Hb. exact Hy.
    + reflexivity.
Qed.

Lemma forallb_ext_in {A} (f g : A -> bool) l : (forall x, In x l -> f x = g x) -> forallb f l = forallb g l.
Proof. induction l as [|x l IH]; intros H; [reflexivity|]. cbn. rewrite (H x (or_introl eq_refl)), IH; [reflexivity|]. intros y Hy. apply H. right. exact Hy. Qed.

Fixpoint go_eq (a b : list ty) : bool :=
  match a, b with
  | [], [] => true
  | x :: a', y :: b' => equal_go x y && go_eq a' b'
  | _, _ => false
  end.

Lemma go_forallb d : forall a b off, List.length a = List.length b ->
  forallb (fun j => equal_go (nth (j - off) a d) (nth (j - off) b d)) (seq off (List.length a)) = go_eq a b.
Proof.
  induction a as [|x a IH]; intros [|y b] off Hl; try discriminate; [reflexivity|].
  cbn [List.length seq forallb go_eq]. rewrite Nat.sub_diag. cbn [nth]. f_equal.
  injection Hl as Hl. rewrite <- (IH b (S off) Hl). apply forallb_ext_in.
  intros j Hj. apply in_seq in Hj. replace (j - off) with (S (j - S off)) by lia. reflexivity.
Qed.

Lemma go_forallb0 d a b : List.length a = List.length b ->
  forallb (fun j => equal_go (nth j a d) (nth j b d)) (seq 0 (List.length a)) = go_eq a b.
Proof.
  intros Hl. rewrite <- (go_forallb d a b 0 Hl). apply forallb_ext_in. intros j _. rewrite Nat.sub_0_r. reflexivity.
Qed.

Lemma Zofnat_eqb a b : (Z.of_nat a =? Z.of_nat b)%Z = (a =? b)%nat.
Proof. destruct (Nat.eqb_spec a b) as [->|H]; [apply Z.eqb_refl|apply Z.eqb_neq; lia]. Qed.

Lemma go_eq_length a : forall b, List.length a <> List.length b -> go_eq a b = false.
Proof. induction a as [|x a IH]; intros [|y b] H; cbn in *; try reflexivity; try congruence. rewrite IH by lia. apply andb_false_r. Qed.

Lemma equal_go_struct p1 fs p2 us : equal_go (TStruct p1 fs) (TStruct p2 us) = Bool.eqb p1 p2 && go_eq fs us.
Proof. reflexivity. Qed.

(* the body of  for i := range t.Fields { if !t.Fields[i].Equal(u.Fields[i]) { return false } }  at index j *)
Ltac equal_loop_body IH El :=
  let j := fresh "j" in let x := fresh "x" in let Hx := fresh "Hx" in
  let e := fresh "e" in let e' := fresh "e'" in let Ee := fresh "Ee" in let Ee' := fresh "Ee'" in
  let Hj := fresh "Hj" in let pr := fresh "pr" in
  intros j x Hx; rewrite Nat.add_0_l; unfold loop_env; cbn;
  assert ((Z.of_nat j <? 0)%Z = false) as -> by (apply Z.ltb_ge; lia); rewrite Nat2Z.id;
  rewrite nth_error_map in Hx; rewrite !nth_error_map;
  match type of Hx with context [nth_error ?fs j] =>
    destruct (nth_error fs j) as [e|] eqn:Ee; [|discriminate];
    match goal with |- context [nth_error ?us j] =>
      assert (j < List.length us) as Hj by (rewrite <- El; apply nth_error_Some; congruence);
      destruct (nth_error us j) as [e'|] eqn:Ee'; [|apply nth_error_None in Ee'; lia];
      cbn; destruct (equal_printer_exists e) as [pr ->];
      fold (reify_ty e); fold (reify_ty e');
      match goal with |- context [call_printer impl [] ?n (tyname e) "Equal" (VTuple [reify_ty e; reify_ty e'])] => fold (run_equal n e e') end;
      rewrite (IH e e' (nth_error_In _ _ Ee) (nth_error_In _ _ Ee'));
      rewrite (nth_error_nth _ _ TVoid Ee), (nth_error_nth _ _ TVoid Ee');
      destruct (equal_go e e'); reflexivity
    end
  end.

Lemma step_struct_eq n p1 fs p2 us :
  (forall e e', In e fs -> In e' us -> run_equal n e e' = Ok (VBool (equal_go e e'))) ->
  run_equal (S n) (TStruct p1 fs) (TStruct p2 us) = Ok (VBool (equal_go (TStruct p1 fs) (TStruct p2 us))).
Proof.
  intros IH. unfold run_equal. step_eq. rewrite equal_go_struct.
  destruct p1, p2; cbn; try reflexivity;
  (rewrite !map_length, Zofnat_eqb; destruct (Nat.eqb_spec (List.length fs) (List.length us)) as [El|El]; cbn;
   [|rewrite go_eq_length by exact El; reflexivity];
   change 0%Z with (Z.of_nat 0);
   erewrite (for_loop_until _ "i" "_" (fun j => equal_go (nth j fs TVoid) (nth j us TVoid)) _ 0);
   [rewrite map_length, (go_forallb0 TVoid fs us El); destruct (go_eq fs us); reflexivity
   |equal_loop_body IH El]).
Qed.

Lemma equal_go_func r1 ps1 v1 r2 ps2 v2 :
  equal_go (TFunc r1 ps1 v1) (TFunc r2 ps2 v2) = equal_go r1 r2 && go_eq ps1 ps2 && Bool.eqb v1 v2.
Proof. reflexivity. Qed.

Lemma step_func_eq n r1 ps1 v1 r2 ps2 v2 :
  run_equal n r1 r2 = Ok (VBool (equal_go r1 r2)) ->
  (forall e e', In e ps1 -> In e' ps2 -> run_equal n e e' = Ok (VBool (equal_go e e'))) ->
  run_equal (S n) (TFunc r1 ps1 v1) (TFunc r2 ps2 v2) = Ok (VBool (equal_go (TFunc r1 ps1 v1) (TFunc r2 ps2 v2))).
Proof.
  intros IHr IH. unfold run_equal. step_eq. rewrite equal_go_func. cbn.
  destruct (equal_printer_exists r1) as [pr ->]. fold (reify_ty r1). fold (reify_ty r2). fold (run_equal n r1 r2).
  rewrite IHr. destruct (equal_go r1 r2); cbn; [|reflexivity].
  rewrite !map_length, Zofnat_eqb. destruct (Nat.eqb_spec (List.length ps1) (List.length ps2)) as [El|El]; cbn;
   [|rewrite go_eq_length by exact El; reflexivity].
  change 0%Z with (Z.of_nat 0).
  erewrite (for_loop_until _ "i" "_" (fun j => equal_go (nth j ps1 TVoid) (nth j ps2 TVoid)) _ 0);
   [rewrite map_length, (go_forallb0 TVoid ps1 ps2 El); destruct (go_eq ps1 ps2); cbn; [|reflexivity]
   |equal_loop_body IH El].
  reflexivity.
Qed.

Lemma wf_all_in (l : list ty) :
  (fix all (l : list ty) : Prop := match l with [] => True | x :: r => wf_names x /\ all r end) l -> forall e, In e l -> wf_names e.
Proof. induction l as [|x r IH]; intros H e He; [contradiction|]. destruct H as [Hx Hr]. destruct He as [->|He]; [exact Hx|apply IH; assumption]. Qed.

Definition eq_ok (t : ty) : Prop := forall u, wf_names u -> forall n, 2 * (depth t + depth u) + 5 <= n -> run_equal n t u = Ok (VBool (equal_go t u)).

Lemma fuel_S n k : k + 5 <= n -> exists m, n = S m. Proof. intros H. destruct n; [lia|eauto]. Qed.

Theorem generated_equal_is_equal_go : forall t, wf_names t -> eq_ok t.
Proof.
  fix IH 1. intros t Wt. unfold eq_ok. intros u Wu n Hn.
  assert (forall l, (fix all (l : list ty) : Prop := match l with [] => True | x :: r => wf_names x /\ all r end) l ->
            Forall eq_ok l) as Lst.
  { induction l as [|x r IHl]; intros Hl; constructor; [apply IH, Hl|apply IHl, Hl]. }
  destruct (fuel_S n _ Hn) as [m ->]. unfold run_equal.
  destruct t.
  1-5: destruct u; step_eq; reflexivity.
  - destruct u; step_eq; try reflexivity. cbn. rewrite Zeqb_ofN'. reflexivity.
  - destruct u; step_eq; try reflexivity. cbn. rewrite fkind_num_eqb. reflexivity.
  - step_eq. cbn.
    assert (call_printer impl [] m "types.PointerType" "String" (reify_ty (TPtr t addrspace)) = Ok (VStr (ty_string (TPtr t addrspace)))) as ->.
    { replace m with (2 * depth (TPtr t addrspace) + 3 + (m - (2 * depth (TPtr t addrspace) + 3))) by lia.
      apply (generated_printer_is_ty_string (TPtr t addrspace) Wt). }
    assert (call_printer impl [] m (tyname u) "String" (reify_ty u) = Ok (VStr (ty_string u))) as ->.
    { replace m with (2 * depth u + 3 + (m - (2 * depth u + 3))) by lia. apply (generated_printer_is_ty_string u Wu). }
    rewrite no_string_field. reflexivity.
  - destruct u; step_eq; try reflexivity. cbn.
    unfold equal_go; fold equal_go.
    destruct (Bool.eqb scalable scalable0); cbn; [|reflexivity].
    rewrite Zeqb_ofN'. destruct (N.eqb len len0); cbn; [|reflexivity].
    destruct (equal_printer_exists t) as [p ->].
    fold (reify_ty t). fold (reify_ty u). fold (run_equal m t u).
    rewrite (IH t Wt u Wu m); [reflexivity|cbn [depth] in Hn; lia].
  - destruct u; step_eq; try reflexivity. cbn.
    unfold equal_go; fold equal_go.
    rewrite Zeqb_ofN'. destruct (N.eqb len len0); cbn; [|reflexivity].
    destruct (equal_printer_exists t) as [p ->].
    fold (reify_ty t). fold (reify_ty u). fold (run_equal m t u).
    rewrite (IH t Wt u Wu m); [reflexivity|cbn [depth] in Hn; lia].
  - (* literal struct *)
    destruct u; try (step_eq; reflexivity).
    + apply (step_struct_eq m). intros e e' He He'.
      pose proof (Lst fields Wt) as F. rewrite Forall_forall in F.
      apply (F e He e' (wf_all_in _ Wu e' He')).
      pose proof (depth_in e fields He). pose proof (depth_in e' fields0 He'). cbn [depth] in Hn. lia.
    + (* against an identified struct: the names differ *)
      step_eq. cbn [wf_names] in Wu. destruct name as [|b0 name]; [contradiction|]. cbn. reflexivity.
  - destruct u; step_eq; try reflexivity.
    + cbn [wf_names] in Wt. destruct name as [|b0 name]; [contradiction|]. cbn. reflexivity.
    + cbn [wf_names] in Wt, Wu. destruct name as [|b0 name]; [contradiction|]. cbn. reflexivity.
  - destruct u; try (step_eq; reflexivity).
    cbn [wf_names] in Wt, Wu. destruct Wt as [Wr Wps]. destruct Wu as [Wr' Wps'].
    apply (step_func_eq m).
    + apply (IH t Wr u Wr'). cbn [depth] in Hn. lia.
    + intros e e' He He'. pose proof (Lst params Wps) as F. rewrite Forall_forall in F.
      apply (F e He e' (wf_all_in _ Wps' e' He')).
      pose proof (depth_in e params He). pose proof (depth_in e' params0 He'). cbn [depth] in Hn. lia.
Qed.
Print Assumptions generated_equal_is_equal_go.

(* the earlier statement for loop-free types, now a corollary *)
Corollary generated_equal_is_equal_go_partial : forall t, loop_free t -> wf_names t -> forall u, wf_names u -> forall n,
  2 * (depth t + depth u) + 5 <= n -> run_equal n t u = Ok (VBool (equal_go t u)).
Proof. intros t _ Wt. exact (generated_equal_is_equal_go t Wt). Qed.
