(* C16: the Equal methods of the twelve type kinds, regenerated from ir/types/types.go and run
   by Model/GoEval.v on reified types, against the hand model equal_go of Model/TypeString.v
   (the function equal_go_spec is about). *)
From Coq Require Import List String ZArith NArith Bool Lia.
From Coq Require Import Strings.Byte.
From LLIR Require Import Lib.Bytes Model.Types Model.TypeString Model.GoEval Gen.Printers Proofs.PrinterRefinement.
Import ListNotations.
Open Scope string_scope.

Definition run_equal (fuel : nat) (t u : ty) : res val :=
  call_printer impl [] fuel (tyname t) "Equal" (VTuple [reify_ty t; reify_ty u]).

Definition agree (t u : ty) : bool :=
  match run_equal 30 t u with Ok (VBool b) => Bool.eqb b (equal_go t u) | _ => false end.

Definition samples : list ty :=
  [ TVoid; TLabel; TInt 1; TInt 32; TFloat FDouble; TFloat FHalf; TPtr (TInt 8) 0; TPtr (TInt 8) 3; TPtr (TPtr (TInt 8) 0) 0;
    TVec false 4 (TInt 32); TVec true 4 (TInt 32); TVec false 2 (TInt 32); TArr 4 (TInt 8); TArr 0 (TInt 8);
    TStruct false []; TStruct true []; TStruct false [TInt 32; TPtr (TInt 8) 0]; TStruct true [TInt 32; TPtr (TInt 8) 0];
    TStruct false [TInt 32; TPtr (TInt 8) 1]; TStruct false [TInt 32];
    TNamed (lit "a"); TNamed (lit "b"); TPtr (TNamed (lit "a")) 0;
    TFunc TVoid [] false; TFunc TVoid [] true; TFunc (TInt 32) [TInt 8; TPtr (TInt 8) 0] false; TFunc (TInt 32) [TInt 8] false;
    TFunc (TInt 32) [TInt 8; TPtr (TInt 8) 0] true; TMetadata; TToken; TMMX ].

(* all 31 x 31 ordered pairs: the regenerated Equal methods and equal_go give the same answer *)
Theorem equal_agrees_on_samples : forallb (fun t => forallb (fun u => agree t u) samples) samples = true.
Proof. vm_compute. reflexivity. Qed.
Print Assumptions equal_agrees_on_samples.

(* ---- the unbounded statement, for types that contain no literal struct and no function type
   (those two kinds compare their components in an index loop; their case is the stage-2 part) ---- *)
Fixpoint loop_free (t : ty) : Prop :=
  match t with
  | TStruct _ _ | TFunc _ _ _ => False
  | TPtr _ _ => True                      (* compared through its printed form: any pointee *)
  | TVec _ _ e | TArr _ e => loop_free e
  | _ => True
  end.

Lemma Zeqb_ofN' a b : (Z.of_N a =? Z.of_N b)%Z = (a =? b)%N.
Proof. destruct (N.eqb_spec a b) as [->|H]; [apply Z.eqb_refl|apply Z.eqb_neq; intros E; apply H; apply N2Z.inj; exact E]. Qed.
Lemma fkind_num_eqb a b : (fkind_num a =? fkind_num b)%Z = fkind_eqb a b.
Proof. destruct a, b; reflexivity. Qed.

Local Arguments call_printer : simpl never.
Local Arguments ty_string : simpl never.
Local Arguments equal_go : simpl never.
Local Arguments find_printer : simpl never.

Ltac step_eq :=
  rewrite call_printer_S;
  match goal with
  | |- context [find_printer ?t ?m] =>
    let r := eval vm_compute in (find_printer t m) in
    replace (find_printer t m) with r by (vm_compute; reflexivity)
  end;
  unfold run_body.

Lemma equal_printer_exists t : exists p, find_printer (tyname t) "Equal" = Some p.
Proof. destruct t; eexists; vm_compute; reflexivity. Qed.

Theorem generated_equal_is_equal_go_partial : forall t, loop_free t -> wf_names t -> forall u, wf_names u -> forall n,
  2 * (depth t + depth u) + 5 <= n -> run_equal n t u = Ok (VBool (equal_go t u)).
Proof.
  induction t; intros LF Wt u Wu n Hn; try contradiction; unfold run_equal;
    (destruct n as [|n]; [exfalso; cbn [depth] in Hn; revert Hn; clear; intros; apply (Nat.nle_succ_0 _ (Nat.le_trans _ _ _ (Nat.le_add_l 5 _) Hn)) |]).
  1-5: destruct u; step_eq; reflexivity.
  - (* integer types *)
    destruct u; step_eq; try reflexivity. cbn. rewrite Zeqb_ofN'. reflexivity.
  - (* floating-point types *)
    destruct u; step_eq; try reflexivity. cbn. rewrite fkind_num_eqb. reflexivity.
  - (* pointer types: compared through their printed forms *)
    step_eq. cbn.
    assert (call_printer impl [] n "types.PointerType" "String" (reify_ty (TPtr t addrspace)) = Ok (VStr (ty_string (TPtr t addrspace)))) as ->.
    { replace n with (2 * depth (TPtr t addrspace) + 3 + (n - (2 * depth (TPtr t addrspace) + 3))) by lia.
      apply (generated_printer_is_ty_string (TPtr t addrspace) Wt). }
    assert (call_printer impl [] n (tyname u) "String" (reify_ty u) = Ok (VStr (ty_string u))) as ->.
    { replace n with (2 * depth u + 3 + (n - (2 * depth u + 3))) by lia. apply (generated_printer_is_ty_string u Wu). }
    rewrite no_string_field. reflexivity.
  - (* vector types *)
    destruct u; step_eq; try reflexivity. cbn.
    unfold equal_go; fold equal_go.
    destruct (Bool.eqb scalable scalable0); cbn; [|reflexivity].
    rewrite Zeqb_ofN'. destruct (N.eqb len len0); cbn; [|reflexivity].
    destruct (equal_printer_exists t) as [p ->].
    fold (reify_ty t). fold (reify_ty u). fold (run_equal n t u).
    rewrite IHt; [reflexivity|exact LF|exact Wt|exact Wu|cbn [depth] in Hn; lia].
  - (* array types *)
    destruct u; step_eq; try reflexivity. cbn.
    unfold equal_go; fold equal_go.
    rewrite Zeqb_ofN'. destruct (N.eqb len len0); cbn; [|reflexivity].
    destruct (equal_printer_exists t) as [p ->].
    fold (reify_ty t). fold (reify_ty u). fold (run_equal n t u).
    rewrite IHt; [reflexivity|exact LF|exact Wt|exact Wu|cbn [depth] in Hn; lia].
  - (* identified struct types: compared by name *)
    destruct u; step_eq; try reflexivity.
    + (* against a literal struct: the literal has no name *)
      cbn [wf_names] in Wt. destruct name as [|b0 name]; [contradiction|]. cbn. reflexivity.
    + cbn [wf_names] in Wt, Wu. destruct name as [|b0 name]; [contradiction|]. cbn. reflexivity.
Qed.
Print Assumptions generated_equal_is_equal_go_partial.
