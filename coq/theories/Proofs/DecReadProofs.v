(* DecReadProofs.v -- correctness of DecRead.read. Standard library only. *)

From Coq Require Import ZArith Lia Bool.
From LLIR Require Import Model.DecRead.
Local Open Scope Z_scope.

(* ------------------------------------------------------------------ *)
(* Part 1: rne                                                         *)
(* ------------------------------------------------------------------ *)

Lemma even_succ_false : forall q, Z.even q = false -> Z.even (q + 1) = true.
Proof.
  intros q H. rewrite Z.even_add, H. reflexivity.
Qed.

Lemma even_not_consecutive : forall r, Z.even r = true -> Z.even (r + 1) = true -> False.
Proof.
  intros r H1 H2. rewrite Z.even_add, H1 in H2. discriminate.
Qed.

Lemma rne_unfold : forall a b, rne a b = rne_qr (a / b) (a mod b) b.
Proof.
  intros a b. unfold rne, Z.div, Z.modulo.
  destruct (Z.div_eucl a b) as [q r]. reflexivity.
Qed.

(* The specification of rne: within half a unit, and even on a tie. *)
Lemma rne_spec : forall a b, 0 < b ->
  (2 * rne a b - 1) * b <= 2 * a <= (2 * rne a b + 1) * b /\
  (2 * a = (2 * rne a b - 1) * b -> Z.even (rne a b) = true) /\
  (2 * a = (2 * rne a b + 1) * b -> Z.even (rne a b) = true).
Proof.
  intros a b Hb. rewrite rne_unfold. unfold rne_qr.
  pose proof (Z.div_mod a b ltac:(lia)) as Hdm.
  pose proof (Z.mod_pos_bound a b Hb) as Hr.
  set (q := a / b) in *. set (r := a mod b) in *.
  assert (Hqb : b * q = q * b) by ring.
  destruct (Z.ltb_spec (2 * r) b) as [H1|H1].
  - replace ((2 * q - 1) * b) with (2 * (q * b) - b) by ring.
    replace ((2 * q + 1) * b) with (2 * (q * b) + b) by ring.
    repeat split; try lia.
  - destruct (Z.ltb_spec b (2 * r)) as [H2|H2].
    + replace ((2 * (q + 1) - 1) * b) with (2 * (q * b) + b) by ring.
      replace ((2 * (q + 1) + 1) * b) with (2 * (q * b) + 3 * b) by ring.
      repeat split; try lia.
    + destruct (Z.even q) eqn:He.
      * replace ((2 * q - 1) * b) with (2 * (q * b) - b) by ring.
        replace ((2 * q + 1) * b) with (2 * (q * b) + b) by ring.
        repeat split; try lia; auto.
      * replace ((2 * (q + 1) - 1) * b) with (2 * (q * b) + b) by ring.
        replace ((2 * (q + 1) + 1) * b) with (2 * (q * b) + 3 * b) by ring.
        pose proof (even_succ_false q He).
        repeat split; try lia; auto.
Qed.

(* Helpers for cancelling a positive factor. *)
Lemma mul_le_cancel_r : forall x y b, 0 < b -> x * b <= y * b -> x <= y.
Proof. intros x y b Hb H. apply (Z.mul_le_mono_pos_r x y b Hb). exact H. Qed.

Lemma mul_lt_cancel_r : forall x y b, 0 < b -> x * b < y * b -> x < y.
Proof. intros x y b Hb H. apply (Z.mul_lt_mono_pos_r b x y Hb). exact H. Qed.

Lemma mul_le_r : forall x y b, 0 <= b -> x <= y -> x * b <= y * b.
Proof. intros. apply Z.mul_le_mono_nonneg_r; assumption. Qed.

Lemma mul_lt_r : forall x y b, 0 < b -> x < y -> x * b < y * b.
Proof. intros. apply Z.mul_lt_mono_pos_r; assumption. Qed.

(* Characterisation of the lower side: k <= rne a b. *)
Lemma rne_ge : forall a b k, 0 < b ->
  ((2 * k - 1) * b < 2 * a \/ ((2 * k - 1) * b = 2 * a /\ Z.even k = true)) ->
  k <= rne a b.
Proof.
  intros a b k Hb H.
  destruct (rne_spec a b Hb) as [[_ Hu] [_ Ht]].
  set (r := rne a b) in *.
  destruct (Z_le_gt_dec k r) as [|Hgt]; [assumption|exfalso].
  assert (Hm : (2 * r + 1) * b <= (2 * k - 1) * b) by (apply mul_le_r; lia).
  destruct H as [H|[H He]].
  - lia.
  - assert (Heq : 2 * a = (2 * r + 1) * b) by lia.
    specialize (Ht Heq).
    assert ((2 * r + 1) * b = (2 * k - 1) * b) by lia.
    assert (2 * r + 1 = 2 * k - 1).
    { apply Z.le_antisymm; apply (mul_le_cancel_r _ _ b Hb); lia. }
    assert (Ek : k = r + 1) by lia. rewrite Ek in He.
    exact (even_not_consecutive r Ht He).
Qed.

Lemma rne_le : forall a b k, 0 < b ->
  (2 * a < (2 * k + 1) * b \/ (2 * a = (2 * k + 1) * b /\ Z.even k = true)) ->
  rne a b <= k.
Proof.
  intros a b k Hb H.
  destruct (rne_spec a b Hb) as [[Hl _] [Ht _]].
  set (r := rne a b) in *.
  destruct (Z_le_gt_dec r k) as [|Hgt]; [assumption|exfalso].
  assert (Hm : (2 * k + 1) * b <= (2 * r - 1) * b) by (apply mul_le_r; lia).
  destruct H as [H|[H He]].
  - lia.
  - assert (Heq : 2 * a = (2 * r - 1) * b) by lia.
    specialize (Ht Heq).
    assert (2 * r - 1 = 2 * k + 1).
    { apply Z.le_antisymm; apply (mul_le_cancel_r _ _ b Hb); lia. }
    assert (Ek : r = k + 1) by lia. rewrite Ek in Ht.
    exact (even_not_consecutive k He Ht).
Qed.

Lemma rne_exact : forall k b, 0 < b -> rne (k * b) b = k.
Proof.
  intros k b Hb. apply Z.le_antisymm.
  - apply rne_le; [assumption|]. left.
    replace ((2 * k + 1) * b) with (2 * (k * b) + b) by ring. lia.
  - apply rne_ge; [assumption|]. left.
    replace ((2 * k - 1) * b) with (2 * (k * b) - b) by ring. lia.
Qed.

(* Monotone in the rational a/b. *)
Lemma rne_mono : forall a1 b1 a2 b2, 0 < b1 -> 0 < b2 ->
  a1 * b2 <= a2 * b1 -> rne a1 b1 <= rne a2 b2.
Proof.
  intros a1 b1 a2 b2 Hb1 Hb2 H.
  destruct (rne_spec a1 b1 Hb1) as [[Hl _] [Ht _]].
  set (k := rne a1 b1) in *.
  apply rne_ge; [assumption|].
  (* (2k-1) b1 b2 <= 2 a1 b2 <= 2 a2 b1 *)
  assert (H1 : (2 * k - 1) * b1 * b2 <= 2 * a1 * b2) by (apply mul_le_r; lia).
  assert (H2 : ((2 * k - 1) * b2) * b1 <= (2 * a2) * b1).
  { replace ((2 * k - 1) * b2 * b1) with ((2 * k - 1) * b1 * b2) by ring.
    replace (2 * a2 * b1) with (2 * (a2 * b1)) by ring.
    replace (2 * a1 * b2) with (2 * (a1 * b2)) in H1 by ring. lia. }
  apply mul_le_cancel_r in H2; [|assumption].
  destruct (Z_le_lt_eq_dec _ _ H2) as [Hlt|Heq]; [left; assumption|right].
  split; [assumption|].
  apply Ht.
  (* equality forces 2 a1 = (2k-1) b1 *)
  assert (E : (2 * k - 1) * b1 * b2 = 2 * a1 * b2).
  { apply Z.le_antisymm; [assumption|].
    replace (2 * a1 * b2) with (2 * (a1 * b2)) by ring.
    replace ((2 * k - 1) * b1 * b2) with (((2 * k - 1) * b2) * b1) by ring.
    rewrite Heq. replace (2 * a2 * b1) with (2 * (a2 * b1)) by ring. lia. }
  apply Z.mul_reg_r in E; lia.
Qed.

(* Nearest among all integers, and even on a tie. *)
Lemma rne_nearest : forall a b k, 0 < b ->
  Z.abs (a - rne a b * b) <= Z.abs (a - k * b).
Proof.
  intros a b k Hb.
  destruct (rne_spec a b Hb) as [[Hl Hu] _].
  set (r := rne a b) in *.
  replace ((2 * r - 1) * b) with (2 * (r * b) - b) in Hl by ring.
  replace ((2 * r + 1) * b) with (2 * (r * b) + b) in Hu by ring.
  destruct (Z.lt_trichotomy k r) as [Hk|[Hk|Hk]].
  - assert (k * b <= (r - 1) * b) by (apply mul_le_r; lia).
    replace ((r - 1) * b) with (r * b - b) in * by ring. lia.
  - subst k. lia.
  - assert ((r + 1) * b <= k * b) by (apply mul_le_r; lia).
    replace ((r + 1) * b) with (r * b + b) in * by ring. lia.
Qed.

Lemma rne_tie_even : forall a b k, 0 < b -> k <> rne a b ->
  Z.abs (a - rne a b * b) = Z.abs (a - k * b) -> Z.even (rne a b) = true.
Proof.
  intros a b k Hb Hne Heq.
  destruct (rne_spec a b Hb) as [[Hl Hu] [Ht1 Ht2]].
  set (r := rne a b) in *.
  replace ((2 * r - 1) * b) with (2 * (r * b) - b) in * by ring.
  replace ((2 * r + 1) * b) with (2 * (r * b) + b) in * by ring.
  destruct (Z.lt_trichotomy k r) as [Hk|[Hk|Hk]].
  - assert (k * b <= (r - 1) * b) by (apply mul_le_r; lia).
    replace ((r - 1) * b) with (r * b - b) in * by ring.
    apply Ht1. lia.
  - contradiction.
  - assert ((r + 1) * b <= k * b) by (apply mul_le_r; lia).
    replace ((r + 1) * b) with (r * b + b) in * by ring.
    apply Ht2. lia.
Qed.

(* ------------------------------------------------------------------ *)
(* Part 2: powers of two and the structure of readX                    *)
(* ------------------------------------------------------------------ *)

Lemma pow2_pos : forall j, 0 <= j -> 0 < 2 ^ j.
Proof. intros. apply Z.pow_pos_nonneg; lia. Qed.

Lemma pow2_le : forall i j, 0 <= i <= j -> 2 ^ i <= 2 ^ j.
Proof. intros. apply Z.pow_le_mono_r; lia. Qed.

Lemma pow2_split : forall i j, 0 <= i <= j -> 2 ^ j = 2 ^ (j - i) * 2 ^ i.
Proof.
  intros i j H. rewrite <- Z.pow_add_r by lia. f_equal. lia.
Qed.

Lemma pow2_succ : forall j, 0 <= j -> 2 ^ (j + 1) = 2 * 2 ^ j.
Proof. intros. rewrite Z.pow_add_r by lia. change (2 ^ 1) with 2. ring. Qed.

Lemma c53 : 2 ^ 53 = 2 * 2 ^ 52.
Proof. reflexivity. Qed.

(* The shift-and-mask rounding of the quotient agrees with rne on the
   scaled divisor: no second division is needed. *)
Lemma rne_shift_correct : forall X d q0 r0 j, 0 < d -> 0 <= r0 < d ->
  X = d * q0 + r0 -> 1 <= j ->
  rne_shift q0 (negb (r0 =? 0)) j = rne X (d * 2 ^ j).
Proof.
  intros X d q0 r0 j Hd Hr HX Hj.
  pose proof (pow2_pos (j - 1) ltac:(lia)) as Hh.
  assert (Ep : 2 ^ j = 2 * 2 ^ (j - 1)).
  { rewrite <- pow2_succ by lia. f_equal. lia. }
  unfold rne_shift.
  rewrite Z.shiftr_div_pow2, Z.land_ones, Z.shiftl_mul_pow2, Z.mul_1_l by lia.
  pose proof (Z.div_mod q0 (2 ^ j) ltac:(lia)) as Hdm.
  pose proof (Z.mod_pos_bound q0 (2 ^ j) ltac:(lia)) as Hlow.
  set (q := q0 / 2 ^ j) in *. set (low := q0 mod 2 ^ j) in *.
  clearbody q low.
  rewrite Ep in *. set (h := 2 ^ (j - 1)) in *.
  assert (HB : 0 < d * (2 * h)) by (apply Z.mul_pos_pos; lia).
  assert (Hrem : 0 <= d * low + r0 < d * (2 * h)).
  { assert (0 <= d * low) by (apply Z.mul_nonneg_nonneg; lia).
    assert (d * low <= d * (2 * h - 1)) by (apply Z.mul_le_mono_nonneg_l; lia).
    replace (d * (2 * h - 1)) with (d * (2 * h) - d) in * by ring. lia. }
  assert (HXq : X = d * (2 * h) * q + (d * low + r0)).
  { rewrite HX, Hdm. ring. }
  rewrite rne_unfold.
  rewrite <- (Z.div_unique_pos X (d * (2 * h)) q (d * low + r0) Hrem HXq).
  rewrite <- (Z.mod_unique_pos X (d * (2 * h)) q (d * low + r0) Hrem HXq).
  unfold rne_qr.
  replace (d * (2 * h)) with (2 * (d * h)) by ring.
  destruct (Z.ltb_spec low h) as [H1|H1].
  - assert (d * low <= d * (h - 1)) by (apply Z.mul_le_mono_nonneg_l; lia).
    replace (d * (h - 1)) with (d * h - d) in * by ring.
    destruct (Z.ltb_spec (2 * (d * low + r0)) (2 * (d * h))); [reflexivity|lia].
  - assert (d * h <= d * low) by (apply Z.mul_le_mono_nonneg_l; lia).
    destruct (Z.ltb_spec (2 * (d * low + r0)) (2 * (d * h))) as [H2|H2]; [lia|].
    destruct (Z.ltb_spec h low) as [H3|H3].
    + assert (d * (h + 1) <= d * low) by (apply Z.mul_le_mono_nonneg_l; lia).
      replace (d * (h + 1)) with (d * h + d) in * by ring.
      cbn [orb].
      destruct (Z.ltb_spec (2 * (d * h)) (2 * (d * low + r0))); [reflexivity|lia].
    + assert (low = h) by lia. subst low. cbn [orb].
      destruct (Z.eqb_spec r0 0) as [Hz|Hz]; cbn [negb].
      * destruct (Z.ltb_spec (2 * (d * h)) (2 * (d * h + r0))); [lia|reflexivity].
      * destruct (Z.ltb_spec (2 * (d * h)) (2 * (d * h + r0))); [reflexivity|lia].
Qed.

Lemma RFinite_inj : forall a b, RFinite a = RFinite b -> a = b.
Proof. intros a b H. congruence. Qed.

Lemma readX_inv : forall X d, 0 <= X -> 0 < d ->
  (X < 2 ^ 53 * d /\ readX X d = RFinite (rne X d)) \/
  (exists j m, 1 <= j /\ 2 ^ 52 * 2 ^ j * d <= X < 2 ^ 53 * 2 ^ j * d /\
     m = rne X (d * 2 ^ j) /\ 2 ^ 52 <= m <= 2 ^ 53 /\
     readX X d =
       if m =? 2 ^ 53
       then (if j + 1 >? 2045 then RInf else RFinite (2 ^ 52 * 2 ^ (j + 1)))
       else (if j >? 2045 then RInf else RFinite (m * 2 ^ j))).
Proof.
  intros X d HX Hd. unfold readX.
  pose proof (Z.div_mod X d ltac:(lia)) as Hdm.
  pose proof (Z.mod_pos_bound X d Hd) as Hr.
  assert (Hq0 : fst (Z.div_eucl X d) = X / d) by reflexivity.
  assert (Hr0 : snd (Z.div_eucl X d) = X mod d) by reflexivity.
  destruct (Z.div_eucl X d) as [q0' r0']. cbn [fst snd] in Hq0, Hr0. subst q0' r0'.
  set (q0 := X / d) in *. set (r0 := X mod d) in *.
  destruct (Z.ltb_spec q0 (2 ^ 53)) as [Hq|Hq].
  - left. split.
    + assert ((q0 + 1) * d <= 2 ^ 53 * d) by (apply mul_le_r; lia).
      replace ((q0 + 1) * d) with (d * q0 + d) in * by ring. lia.
    + rewrite rne_unfold. reflexivity.
  - right. cbv zeta.
    assert (Hq0 : 0 < q0) by (pose proof (pow2_pos 53); lia).
    pose proof (Z.log2_spec q0 Hq0) as HL.
    assert (H53 : 53 <= Z.log2 q0).
    { rewrite <- (Z.log2_pow2 53) by lia. apply Z.log2_le_mono. assumption. }
    set (L := Z.log2 q0) in *.
    set (j := L - 52).
    assert (Hj : 1 <= j) by (unfold j; lia).
    rewrite (rne_shift_correct X d q0 r0 j Hd Hr Hdm Hj).
    assert (E1 : 2 ^ L = 2 ^ 52 * 2 ^ j).
    { rewrite <- Z.pow_add_r by lia. f_equal. unfold j. lia. }
    assert (E2 : 2 ^ Z.succ L = 2 ^ 53 * 2 ^ j).
    { rewrite <- Z.pow_add_r by lia. f_equal. unfold j. lia. }
    rewrite E1, E2 in HL.
    pose proof (pow2_pos j ltac:(lia)) as Hp.
    set (p := 2 ^ j) in *.
    assert (Hlo : 2 ^ 52 * p * d <= X).
    { assert (2 ^ 52 * p * d <= q0 * d) by (apply mul_le_r; lia).
      replace (q0 * d) with (d * q0) in * by ring. lia. }
    assert (Hhi : X < 2 ^ 53 * p * d).
    { assert ((q0 + 1) * d <= 2 ^ 53 * p * d) by (apply mul_le_r; lia).
      replace ((q0 + 1) * d) with (d * q0 + d) in * by ring. lia. }
    assert (HB : 0 < d * p) by (apply Z.mul_pos_pos; assumption).
    exists j, (rne X (d * p)).
    split; [assumption|]. split; [split; assumption|]. split; [reflexivity|].
    split.
    + split.
      * apply rne_ge; [assumption|]. left.
        replace ((2 * 2 ^ 52 - 1) * (d * p)) with (2 * (2 ^ 52 * p * d) - d * p) by ring.
        lia.
      * apply rne_le; [assumption|]. left.
        replace ((2 * 2 ^ 53 + 1) * (d * p)) with (2 * (2 ^ 53 * p * d) + d * p) by ring.
        lia.
    + unfold norm.
      destruct (rne X (d * p) =? 2 ^ 53); reflexivity.
Qed.

Lemma readX_finite_inv : forall X d K, 0 <= X -> 0 < d -> readX X d = RFinite K ->
  (X < 2 ^ 53 * d /\ K = rne X d) \/
  (exists j m, 1 <= j /\ 2 ^ 52 * 2 ^ j * d <= X < 2 ^ 53 * 2 ^ j * d /\
     m = rne X (d * 2 ^ j) /\ 2 ^ 52 <= m <= 2 ^ 53 /\ K = m * 2 ^ j /\
     exists m' j', 2 ^ 52 <= m' < 2 ^ 53 /\ 1 <= j' <= 2045 /\ K = m' * 2 ^ j' /\
                   (Z.even m = true -> Z.even m' = true)).
Proof.
  intros X d K HX Hd HR.
  destruct (readX_inv X d HX Hd) as [[H1 H2]|(j & m & Hj & Hb & Hm & Hmb & H2)].
  - left. rewrite H2 in HR. apply RFinite_inj in HR. auto.
  - right. exists j, m. rewrite H2 in HR.
    repeat (split; [assumption|]).
    destruct (Z.eqb_spec m (2 ^ 53)) as [E|E].
    + destruct (Z.gtb_spec (j + 1) 2045) as [G|G]; [discriminate|].
      apply RFinite_inj in HR. subst K.
      split.
      * rewrite E, pow2_succ, c53 by lia. ring.
      * exists (2 ^ 52), (j + 1). split; [rewrite c53; pose proof (pow2_pos 52); lia|].
        split; [lia|]. split; [reflexivity|]. intros _. reflexivity.
    + destruct (Z.gtb_spec j 2045) as [G|G]; [discriminate|].
      apply RFinite_inj in HR. subst K.
      split; [reflexivity|].
      exists m, j. split; [lia|]. split; [lia|]. split; [reflexivity|]. auto.
Qed.

(* ------------------------------------------------------------------ *)
(* Part 3: the grid R and the main theorems about readX                *)
(* ------------------------------------------------------------------ *)

(* The grid is nested: an element of R is a multiple of 2^j or lies
   below 2^(52+j). *)
Lemma repr_grid : forall K j, representable K -> 0 <= j ->
  (exists k, K = k * 2 ^ j) \/ K < 2 ^ 52 * 2 ^ j.
Proof.
  intros K j (m & i & Hm & Hi & HK) Hj.
  destruct (Z_le_gt_dec j i) as [Hle|Hgt].
  - left. exists (m * 2 ^ (i - j)). rewrite HK, (pow2_split j i) by lia. ring.
  - right. rewrite HK.
    pose proof (pow2_pos i ltac:(lia)) as Hp.
    assert (m * 2 ^ i < 2 ^ 53 * 2 ^ i) by (apply mul_lt_r; lia).
    assert (2 ^ (i + 1) <= 2 ^ j) by (apply pow2_le; lia).
    rewrite pow2_succ in * by lia. rewrite c53 in *.
    pose proof (pow2_pos 52 ltac:(lia)).
    assert (2 ^ 52 * (2 * 2 ^ i) <= 2 ^ 52 * 2 ^ j) by (apply Z.mul_le_mono_nonneg_l; lia).
    lia.
Qed.

Lemma rne_small_bounds : forall X d, 0 <= X -> 0 < d -> X < 2 ^ 53 * d ->
  0 <= rne X d <= 2 ^ 53.
Proof.
  intros X d HX Hd H. split.
  - apply rne_ge; [assumption|]. left. lia.
  - apply rne_le; [assumption|]. left.
    replace ((2 * 2 ^ 53 + 1) * d) with (2 * (2 ^ 53 * d) + d) by ring. lia.
Qed.

Lemma small_canonical : forall K, 0 <= K <= 2 ^ 53 ->
  exists m j, 0 <= m < 2 ^ 53 /\ 0 <= j <= 2045 /\ K = m * 2 ^ j /\
              (2 ^ 52 <= m \/ j = 0) /\ (Z.even K = true -> Z.even m = true).
Proof.
  intros K HK.
  destruct (Z_lt_le_dec K (2 ^ 53)) as [Hlt|Hge].
  - exists K, 0. split; [lia|]. split; [lia|]. split; [change (2 ^ 0) with 1; ring|].
    split; [right; reflexivity|auto].
  - exists (2 ^ 52), 1. split; [rewrite c53; pose proof (pow2_pos 52); lia|].
    split; [lia|]. split; [change (2 ^ 1) with 2; rewrite c53 in *; lia|].
    split; [left; lia|]. intros _. reflexivity.
Qed.

Theorem readX_representable : forall X d K, 0 <= X -> 0 < d ->
  readX X d = RFinite K -> representable K.
Proof.
  intros X d K HX Hd HR.
  destruct (readX_finite_inv X d K HX Hd HR)
    as [[H1 H2]|(j & m & Hj & Hb & Hm & Hmb & HK & m' & j' & Hm' & Hj' & HK' & _)].
  - pose proof (rne_small_bounds X d HX Hd H1) as Hb. rewrite <- H2 in Hb.
    destruct (small_canonical K Hb) as (m & j & A & B & C & _).
    exists m, j. auto.
  - exists m', j'. split; [pose proof (pow2_pos 52); lia|]. split; [lia|assumption].
Qed.

Theorem readX_nearest : forall X d K, 0 <= X -> 0 < d ->
  readX X d = RFinite K ->
  forall K', representable K' -> Z.abs (X - K * d) <= Z.abs (X - K' * d).
Proof.
  intros X d K HX Hd HR K' HK'.
  destruct (readX_finite_inv X d K HX Hd HR)
    as [[H1 H2]|(j & m & Hj & Hb & Hm & Hmb & HK & _)].
  - subst K. apply rne_nearest. assumption.
  - pose proof (pow2_pos j ltac:(lia)) as Hp.
    assert (HB : 0 < d * 2 ^ j) by (apply Z.mul_pos_pos; assumption).
    replace (K * d) with (m * (d * 2 ^ j)) by (rewrite HK; ring).
    destruct (repr_grid K' j HK' ltac:(lia)) as [[k Hk]|Hlt].
    + replace (K' * d) with (k * (d * 2 ^ j)) by (rewrite Hk; ring).
      rewrite Hm. apply rne_nearest. assumption.
    + assert (K' * d < 2 ^ 52 * 2 ^ j * d) by (apply mul_lt_r; assumption).
      pose proof (rne_nearest X (d * 2 ^ j) (2 ^ 52) HB) as Hn.
      rewrite <- Hm in Hn.
      replace (2 ^ 52 * (d * 2 ^ j)) with (2 ^ 52 * 2 ^ j * d) in Hn by ring.
      lia.
Qed.

Theorem readX_ties_even : forall X d K, 0 <= X -> 0 < d ->
  readX X d = RFinite K ->
  forall K', representable K' -> K' <> K ->
  Z.abs (X - K * d) = Z.abs (X - K' * d) ->
  exists m j, 0 <= m < 2 ^ 53 /\ 0 <= j <= 2045 /\ K = m * 2 ^ j /\
              (2 ^ 52 <= m \/ j = 0) /\ Z.even m = true.
Proof.
  intros X d K HX Hd HR K' HK' Hne Heq.
  destruct (readX_finite_inv X d K HX Hd HR)
    as [[H1 H2]|(j & m & Hj & Hb & Hm & Hmb & HK & m' & j' & Hm' & Hj' & HKc & Hev)].
  - pose proof (rne_small_bounds X d HX Hd H1) as Hb. rewrite <- H2 in Hb.
    assert (He : Z.even K = true).
    { rewrite H2. apply (rne_tie_even X d K' Hd); rewrite <- H2; assumption. }
    destruct (small_canonical K Hb) as (m & j & A & B & C & D & E).
    exists m, j. repeat (split; [assumption|]). auto.
  - pose proof (pow2_pos j ltac:(lia)) as Hp.
    assert (HB : 0 < d * 2 ^ j) by (apply Z.mul_pos_pos; assumption).
    replace (K * d) with (m * (d * 2 ^ j)) in Heq by (rewrite HK; ring).
    assert (He : Z.even m = true).
    { destruct (repr_grid K' j HK' ltac:(lia)) as [[k Hk]|Hlt].
      - replace (K' * d) with (k * (d * 2 ^ j)) in Heq by (rewrite Hk; ring).
        rewrite Hm. apply (rne_tie_even X (d * 2 ^ j) k HB).
        + rewrite <- Hm. intros ->. apply Hne. rewrite Hk, HK. reflexivity.
        + rewrite <- Hm. assumption.
      - exfalso.
        assert (K' * d < 2 ^ 52 * 2 ^ j * d) by (apply mul_lt_r; assumption).
        pose proof (rne_nearest X (d * 2 ^ j) (2 ^ 52) HB) as Hn.
        rewrite <- Hm in Hn.
        replace (2 ^ 52 * (d * 2 ^ j)) with (2 ^ 52 * 2 ^ j * d) in Hn by ring.
        lia. }
    exists m', j'. split; [pose proof (pow2_pos 52); lia|]. split; [lia|].
    split; [assumption|]. split; [left; lia|auto].
Qed.

(* ------------------------------------------------------------------ *)
(* Part 4: overflow, exactness, monotonicity for readX                 *)
(* ------------------------------------------------------------------ *)

(* The one big constant is kept behind a name so that lia sees an atom. *)
Definition C44 : Z := 2 ^ 2044.

Lemma C44_pos : 0 < C44.
Proof. unfold C44. apply pow2_pos. lia. Qed.

Lemma c2045 : 2 ^ 2045 = 2 * C44.
Proof. unfold C44. rewrite <- pow2_succ by lia. reflexivity. Qed.

Lemma c2046 : 2 ^ 2046 = 4 * C44.
Proof.
  unfold C44. replace 2046 with (2044 + 1 + 1) by reflexivity.
  rewrite !pow2_succ by lia. ring.
Qed.

Lemma c54 : 2 ^ 54 = 4 * 2 ^ 52.
Proof. reflexivity. Qed.

Lemma pow2_ge_2045 : forall j, 2045 <= j -> 2 * C44 <= 2 ^ j.
Proof. intros. rewrite <- c2045. apply pow2_le. lia. Qed.

Lemma pow2_ge_2046 : forall j, 2046 <= j -> 4 * C44 <= 2 ^ j.
Proof. intros. rewrite <- c2046. apply pow2_le. lia. Qed.

Lemma pow2_le_2044 : forall j, 0 <= j <= 2044 -> 2 ^ j <= C44.
Proof. intros. unfold C44. apply pow2_le. lia. Qed.

Lemma pow2_le_2045 : forall j, 0 <= j <= 2045 -> 2 ^ j <= 2 * C44.
Proof. intros. rewrite <- c2045. apply pow2_le. lia. Qed.

Theorem readX_overflow_C : forall X d, 0 <= X -> 0 < d ->
  (readX X d = RInf <-> (2 ^ 54 - 1) * C44 * d <= X).
Proof.
  intros X d HX Hd.
  pose proof C44_pos as Hc.
  pose proof (pow2_pos 52 ltac:(lia)) as Hc52.
  assert (Hcd : 0 < C44 * d) by (apply Z.mul_pos_pos; assumption).
  destruct (readX_inv X d HX Hd) as [[H1 H2]|(j & m & Hj & Hb & Hm & Hmb & H2)].
  - rewrite H2. split; [discriminate|]. intros H. exfalso.
    assert (2 ^ 53 * d <= (2 ^ 54 - 1) * C44 * d).
    { apply mul_le_r; [lia|]. rewrite c54, c53. lia. }
    lia.
  - rewrite H2. clear H2.
    pose proof (pow2_pos j ltac:(lia)) as Hp.
    assert (HB : 0 < d * 2 ^ j) by (apply Z.mul_pos_pos; assumption).
    split.
    + intros H.
      destruct (Z.eqb_spec m (2 ^ 53)) as [E|E].
      * destruct (Z.gtb_spec (j + 1) 2045) as [G|G]; [|discriminate].
        pose proof (pow2_ge_2045 j ltac:(lia)) as Hpj.
        destruct (rne_spec X (d * 2 ^ j) HB) as [[Hl _] _].
        rewrite <- Hm, E in Hl.
        assert (d * (2 * C44) <= d * 2 ^ j) by (apply Z.mul_le_mono_nonneg_l; lia).
        assert ((2 * 2 ^ 53 - 1) * (d * (2 * C44)) <= (2 * 2 ^ 53 - 1) * (d * 2 ^ j)).
        { apply Z.mul_le_mono_nonneg_l; [rewrite c53; lia|assumption]. }
        replace ((2 * 2 ^ 53 - 1) * (d * (2 * C44)))
          with (2 * ((2 ^ 54 - 1) * C44 * d)) in * by (rewrite c54, c53; ring).
        lia.
      * destruct (Z.gtb_spec j 2045) as [G|G]; [|discriminate].
        pose proof (pow2_ge_2046 j ltac:(lia)) as Hpj.
        assert (2 ^ 52 * (4 * C44) <= 2 ^ 52 * 2 ^ j) by (apply Z.mul_le_mono_nonneg_l; lia).
        assert (2 ^ 52 * (4 * C44) * d <= 2 ^ 52 * 2 ^ j * d) by (apply mul_le_r; lia).
        replace (2 ^ 52 * (4 * C44) * d) with (2 ^ 54 * (C44 * d)) in *
          by (rewrite c54; ring).
        replace ((2 ^ 54 - 1) * C44 * d) with (2 ^ 54 * (C44 * d) - C44 * d) by ring.
        lia.
    + intros H.
      assert (Hj45 : 2045 <= j).
      { destruct (Z_le_gt_dec 2045 j) as [|Hgt]; [assumption|exfalso].
        pose proof (pow2_le_2044 j ltac:(lia)) as Hpj.
        assert (2 ^ 53 * 2 ^ j <= 2 ^ 53 * C44) by (apply Z.mul_le_mono_nonneg_l; lia).
        assert (2 ^ 53 * 2 ^ j * d <= 2 ^ 53 * C44 * d) by (apply mul_le_r; lia).
        replace ((2 ^ 54 - 1) * C44 * d) with (2 ^ 54 * (C44 * d) - C44 * d) in H by ring.
        replace (2 ^ 53 * C44 * d) with (2 ^ 53 * (C44 * d)) in * by ring.
        rewrite c54, c53 in *. lia. }
      destruct (Z.eqb_spec m (2 ^ 53)) as [E|E].
      * destruct (Z.gtb_spec (j + 1) 2045) as [G|G]; [reflexivity|lia].
      * destruct (Z.gtb_spec j 2045) as [G|G]; [reflexivity|exfalso].
        assert (j = 2045) by lia. subst j.
        apply E. apply Z.le_antisymm; [lia|].
        rewrite Hm. apply rne_ge; [assumption|].
        rewrite c2045.
        replace ((2 * 2 ^ 53 - 1) * (d * (2 * C44)))
          with (2 * ((2 ^ 54 - 1) * C44 * d)) by (rewrite c54, c53; ring).
        destruct (Z_le_lt_eq_dec _ _ H) as [Hlt|Heq].
        -- left. lia.
        -- right. split; [lia|reflexivity].
Qed.

Theorem readX_overflow : forall X d, 0 <= X -> 0 < d ->
  (readX X d = RInf <-> (2 ^ 54 - 1) * 2 ^ 2044 * d <= X).
Proof. exact readX_overflow_C. Qed.

Lemma repr_bound_C : forall K, representable K -> 0 <= K <= (2 ^ 53 - 1) * (2 * C44).
Proof.
  intros K (m & j & Hm & Hj & HK). subst K.
  pose proof (pow2_pos j ltac:(lia)) as Hp.
  pose proof (pow2_pos 52 ltac:(lia)) as H52.
  split.
  - apply Z.mul_nonneg_nonneg; lia.
  - assert (m * 2 ^ j <= (2 ^ 53 - 1) * 2 ^ j) by (apply mul_le_r; lia).
    pose proof (pow2_le_2045 j Hj) as Hpj.
    assert ((2 ^ 53 - 1) * 2 ^ j <= (2 ^ 53 - 1) * (2 * C44)).
    { apply Z.mul_le_mono_nonneg_l; [rewrite c53; lia|assumption]. }
    lia.
Qed.

Lemma repr_bound : forall K, representable K -> 0 <= K <= (2 ^ 53 - 1) * 2 ^ 2045.
Proof. intros K HK. rewrite c2045. apply repr_bound_C. assumption. Qed.

Theorem readX_exact : forall X d K, 0 < d -> representable K -> X = K * d ->
  readX X d = RFinite K.
Proof.
  intros X d K Hd HK HX.
  destruct (repr_bound_C K HK) as [HK0 HK1].
  assert (HX0 : 0 <= X) by (subst X; apply Z.mul_nonneg_nonneg; lia).
  destruct (readX X d) as [K0|] eqn:HR.
  - pose proof (readX_nearest X d K0 HX0 Hd HR K HK) as Hn.
    replace (X - K * d) with 0 in Hn by lia.
    assert (K0 * d = K * d) by lia.
    f_equal. apply Z.mul_reg_r with d; lia.
  - exfalso. apply readX_overflow_C in HR; [|assumption|assumption].
    pose proof C44_pos as Hc.
    assert (K * d <= (2 ^ 53 - 1) * (2 * C44) * d) by (apply mul_le_r; lia).
    assert (Hcd : 0 < C44 * d) by (apply Z.mul_pos_pos; assumption).
    replace ((2 ^ 53 - 1) * (2 * C44) * d) with ((2 ^ 54 - 2) * (C44 * d)) in *
      by (rewrite c54, c53; ring).
    replace ((2 ^ 54 - 1) * C44 * d) with ((2 ^ 54 - 2) * (C44 * d) + C44 * d) in HR by ring.
    lia.
Qed.

Lemma exp_order : forall X1 d1 X2 d2 j1 j2, 0 < d1 -> 0 < d2 -> 0 <= j1 -> 0 <= j2 ->
  2 ^ 52 * 2 ^ j1 * d1 <= X1 -> X2 < 2 ^ 53 * 2 ^ j2 * d2 ->
  X1 * d2 <= X2 * d1 -> j1 <= j2.
Proof.
  intros X1 d1 X2 d2 j1 j2 Hd1 Hd2 Hj1 Hj2 H1 H2 H.
  assert (A : 2 ^ 52 * 2 ^ j1 * d1 * d2 <= X1 * d2) by (apply mul_le_r; lia).
  assert (B : X2 * d1 < 2 ^ 53 * 2 ^ j2 * d2 * d1) by (apply mul_lt_r; lia).
  assert (Hdd : 0 < 2 ^ 52 * (d1 * d2)).
  { apply Z.mul_pos_pos; [apply pow2_pos; lia|apply Z.mul_pos_pos; assumption]. }
  assert (C : 2 ^ j1 * (2 ^ 52 * (d1 * d2)) < 2 ^ (j2 + 1) * (2 ^ 52 * (d1 * d2))).
  { rewrite pow2_succ by lia.
    replace (2 ^ j1 * (2 ^ 52 * (d1 * d2))) with (2 ^ 52 * 2 ^ j1 * d1 * d2) by ring.
    replace (2 * 2 ^ j2 * (2 ^ 52 * (d1 * d2))) with (2 ^ 53 * 2 ^ j2 * d2 * d1)
      by (rewrite c53; ring).
    lia. }
  apply mul_lt_cancel_r in C; [|assumption].
  apply Z.pow_lt_mono_r_iff in C; lia.
Qed.

Theorem readX_monotone : forall X1 d1 X2 d2 K1 K2,
  0 <= X1 -> 0 < d1 -> 0 <= X2 -> 0 < d2 -> X1 * d2 <= X2 * d1 ->
  readX X1 d1 = RFinite K1 -> readX X2 d2 = RFinite K2 -> K1 <= K2.
Proof.
  intros X1 d1 X2 d2 K1 K2 HX1 Hd1 HX2 Hd2 Hle HR1 HR2.
  destruct (readX_finite_inv X1 d1 K1 HX1 Hd1 HR1)
    as [[A1 B1]|(j1 & m1 & Hj1 & Hb1 & Hm1 & Hmb1 & HK1 & _)];
  destruct (readX_finite_inv X2 d2 K2 HX2 Hd2 HR2)
    as [[A2 B2]|(j2 & m2 & Hj2 & Hb2 & Hm2 & Hmb2 & HK2 & _)].
  - subst. apply rne_mono; assumption.
  - pose proof (rne_small_bounds X1 d1 HX1 Hd1 A1) as Hs. rewrite <- B1 in Hs.
    assert (2 ^ 1 <= 2 ^ j2) by (apply pow2_le; lia).
    change (2 ^ 1) with 2 in *.
    assert (2 ^ 52 * 2 ^ j2 <= m2 * 2 ^ j2) by (apply mul_le_r; lia).
    assert (2 ^ 52 * 2 <= 2 ^ 52 * 2 ^ j2) by (apply Z.mul_le_mono_nonneg_l; [pose proof (pow2_pos 52)|]; lia).
    rewrite c53 in *. lia.
  - exfalso.
    assert (2 ^ 1 <= 2 ^ j1) by (apply pow2_le; lia).
    change (2 ^ 1) with 2 in *.
    assert (2 ^ 52 * 2 <= 2 ^ 52 * 2 ^ j1) by (apply Z.mul_le_mono_nonneg_l; [pose proof (pow2_pos 52)|]; lia).
    assert (2 ^ 52 * 2 * d1 <= 2 ^ 52 * 2 ^ j1 * d1) by (apply mul_le_r; lia).
    assert (2 ^ 53 * d1 <= X1) by (rewrite c53; lia).
    assert (2 ^ 53 * d1 * d2 <= X1 * d2) by (apply mul_le_r; lia).
    assert (X2 * d1 < 2 ^ 53 * d2 * d1) by (apply mul_lt_r; lia).
    replace (2 ^ 53 * d2 * d1) with (2 ^ 53 * d1 * d2) in * by ring.
    lia.
  - assert (Hjj : j1 <= j2) by (apply (exp_order X1 d1 X2 d2); lia).
    pose proof (pow2_pos j1 ltac:(lia)) as Hp1.
    pose proof (pow2_pos j2 ltac:(lia)) as Hp2.
    destruct (Z_le_lt_eq_dec _ _ Hjj) as [Hlt|Heq].
    + assert (2 ^ (j1 + 1) <= 2 ^ j2) by (apply pow2_le; lia).
      rewrite pow2_succ in * by lia.
      assert (m1 * 2 ^ j1 <= 2 ^ 53 * 2 ^ j1) by (apply mul_le_r; lia).
      assert (2 ^ 52 * 2 ^ j2 <= m2 * 2 ^ j2) by (apply mul_le_r; lia).
      assert (2 ^ 52 * (2 * 2 ^ j1) <= 2 ^ 52 * 2 ^ j2)
        by (apply Z.mul_le_mono_nonneg_l; [pose proof (pow2_pos 52)|]; lia).
      rewrite c53 in *. lia.
    + subst j2. rewrite HK1, HK2. apply mul_le_r; [lia|].
      rewrite Hm1, Hm2. apply rne_mono; try (apply Z.mul_pos_pos; assumption).
      replace (X1 * (d2 * 2 ^ j1)) with (X1 * d2 * 2 ^ j1) by ring.
      replace (X2 * (d1 * 2 ^ j1)) with (X2 * d1 * 2 ^ j1) by ring.
      apply mul_le_r; lia.
Qed.

(* ------------------------------------------------------------------ *)
(* Part 5: the theorems about read, in the integer form of the brief   *)
(* ------------------------------------------------------------------ *)

Lemma P1074_pos : 0 < 2 ^ 1074.
Proof. apply pow2_pos. lia. Qed.

Lemma scaled_nonneg : forall n, 0 <= n -> 0 <= n * 2 ^ 1074.
Proof. intros. apply Z.mul_nonneg_nonneg; [assumption|]. pose proof P1074_pos. lia. Qed.

Lemma read_unfold : forall n d, read n d = readX (n * 2 ^ 1074) d.
Proof. intros. unfold read. rewrite Z.shiftl_mul_pow2 by lia. reflexivity. Qed.

Theorem read_representable : forall n d K, 0 <= n -> 0 < d ->
  read n d = RFinite K -> representable K.
Proof.
  intros n d K Hn Hd H. rewrite read_unfold in H.
  exact (readX_representable _ d K (scaled_nonneg n Hn) Hd H).
Qed.

Theorem read_nearest : forall n d K, 0 <= n -> 0 < d ->
  read n d = RFinite K ->
  forall K', representable K' ->
  Z.abs (n * 2 ^ 1074 - K * d) <= Z.abs (n * 2 ^ 1074 - K' * d).
Proof.
  intros n d K Hn Hd H. rewrite read_unfold in H.
  exact (readX_nearest _ d K (scaled_nonneg n Hn) Hd H).
Qed.

Theorem read_ties_even : forall n d K, 0 <= n -> 0 < d ->
  read n d = RFinite K ->
  forall K', representable K' -> K' <> K ->
  Z.abs (n * 2 ^ 1074 - K * d) = Z.abs (n * 2 ^ 1074 - K' * d) ->
  exists m j, 0 <= m < 2 ^ 53 /\ 0 <= j <= 2045 /\ K = m * 2 ^ j /\
              (2 ^ 52 <= m \/ j = 0) /\ Z.even m = true.
Proof.
  intros n d K Hn Hd H. rewrite read_unfold in H.
  exact (readX_ties_even _ d K (scaled_nonneg n Hn) Hd H).
Qed.

Theorem read_exact : forall n d K, 0 <= n -> 0 < d ->
  representable K -> n * 2 ^ 1074 = K * d -> read n d = RFinite K.
Proof.
  intros n d K Hn Hd HK H. rewrite read_unfold.
  apply readX_exact; assumption.
Qed.

Lemma overflow_const : (2 ^ 54 - 1) * 2 ^ 2044 = (2 ^ 1024 - 2 ^ 970) * 2 ^ 1074.
Proof. vm_compute. reflexivity. Qed.

Theorem read_overflow : forall n d, 0 <= n -> 0 < d ->
  (read n d = RInf <-> (2 ^ 1024 - 2 ^ 970) * d <= n).
Proof.
  intros n d Hn Hd. rewrite read_unfold.
  rewrite (readX_overflow _ d (scaled_nonneg n Hn) Hd).
  rewrite overflow_const.
  replace ((2 ^ 1024 - 2 ^ 970) * 2 ^ 1074 * d)
    with ((2 ^ 1024 - 2 ^ 970) * d * 2 ^ 1074) by ring.
  symmetry. apply Z.mul_le_mono_pos_r. exact P1074_pos.
Qed.

Theorem read_monotone : forall n1 d1 n2 d2 K1 K2,
  0 <= n1 -> 0 < d1 -> 0 <= n2 -> 0 < d2 -> n1 * d2 <= n2 * d1 ->
  read n1 d1 = RFinite K1 -> read n2 d2 = RFinite K2 -> K1 <= K2.
Proof.
  intros n1 d1 n2 d2 K1 K2 Hn1 Hd1 Hn2 Hd2 Hle H1 H2. rewrite read_unfold in *.
  apply (readX_monotone _ d1 _ d2 K1 K2 (scaled_nonneg n1 Hn1) Hd1 (scaled_nonneg n2 Hn2) Hd2);
    try assumption.
  replace (n1 * 2 ^ 1074 * d2) with (n1 * d2 * 2 ^ 1074) by ring.
  replace (n2 * 2 ^ 1074 * d1) with (n2 * d1 * 2 ^ 1074) by ring.
  apply mul_le_r; [pose proof P1074_pos; lia|assumption].
Qed.

(* A corollary: read never fails to answer, and the answer is unique
   (it is a function), so nearest + ties-even determine it. *)
Corollary read_total_cases : forall n d, 0 <= n -> 0 < d ->
  (exists K, read n d = RFinite K /\ representable K) \/
  (read n d = RInf /\ (2 ^ 1024 - 2 ^ 970) * d <= n).
Proof.
  intros n d Hn Hd. destruct (read n d) as [K|] eqn:E.
  - left. exists K. split; [reflexivity|]. exact (read_representable n d K Hn Hd E).
  - right. split; [reflexivity|]. apply read_overflow; assumption.
Qed.

(* read_decimal is read on the evident rational. *)
Theorem read_decimal_nonneg_exp : forall mant e, 0 <= e ->
  read_decimal mant e = read (mant * 10 ^ e) 1.
Proof.
  intros mant e He. unfold read_decimal.
  destruct (Z.leb_spec 0 e); [reflexivity|lia].
Qed.

Theorem read_decimal_neg_exp : forall mant e, e < 0 ->
  read_decimal mant e = read mant (10 ^ (- e)) /\ 0 < 10 ^ (- e).
Proof.
  intros mant e He. unfold read_decimal. split.
  - destruct (Z.leb_spec 0 e); [lia|reflexivity].
  - apply Z.pow_pos_nonneg; lia.
Qed.

(* ------------------------------------------------------------------ *)
(* Part 6: bits_of                                                     *)
(* ------------------------------------------------------------------ *)

Theorem bits_of_normal : forall m j, 2 ^ 52 <= m < 2 ^ 53 -> 0 <= j ->
  bits_of (m * 2 ^ j) = (j + 1) * 2 ^ 52 + (m - 2 ^ 52).
Proof.
  intros m j Hm Hj. unfold bits_of.
  pose proof (pow2_pos j Hj) as Hp.
  pose proof (pow2_pos 52 ltac:(lia)) as H52.
  assert (Hlo : 2 ^ 52 * 2 ^ j <= m * 2 ^ j) by (apply mul_le_r; lia).
  assert (Hhi : m * 2 ^ j < 2 ^ 53 * 2 ^ j) by (apply mul_lt_r; lia).
  assert (2 ^ 52 * 1 <= 2 ^ 52 * 2 ^ j) by (apply Z.mul_le_mono_nonneg_l; lia).
  destruct (Z.ltb_spec (m * 2 ^ j) (2 ^ 52)) as [Hc|Hc]; [lia|].
  assert (HL : Z.log2 (m * 2 ^ j) = 52 + j).
  { apply Z.log2_unique; [lia|].
    replace (Z.succ (52 + j)) with (53 + j) by lia.
    rewrite !Z.pow_add_r by lia. lia. }
  rewrite HL. replace (52 + j - 52) with j by lia.
  rewrite Z.shiftr_div_pow2, Z.div_mul by lia. reflexivity.
Qed.

Theorem bits_of_subnormal : forall m, 0 <= m < 2 ^ 52 -> bits_of m = m.
Proof.
  intros m Hm. unfold bits_of.
  destruct (Z.ltb_spec m (2 ^ 52)); [reflexivity|lia].
Qed.

(* Every element of R is subnormal (below 2^52) or has a canonical
   normal form. *)
Lemma repr_canonical : forall K, representable K ->
  (0 <= K < 2 ^ 52) \/
  (exists m j, 2 ^ 52 <= m < 2 ^ 53 /\ 0 <= j <= 2045 /\ K = m * 2 ^ j).
Proof.
  intros K HK. destruct (repr_bound K HK) as [HK0 _].
  destruct HK as (m & i & Hm & Hi & HK).
  destruct (Z_lt_le_dec K (2 ^ 52)) as [Hlt|Hge]; [left; lia|right].
  pose proof (pow2_pos i ltac:(lia)) as Hp.
  pose proof (pow2_pos 52 ltac:(lia)) as H52.
  assert (Hmpos : 0 < m).
  { destruct (Z_le_gt_dec m 0) as [Hle|]; [|lia].
    assert (m * 2 ^ i <= 0 * 2 ^ i) by (apply mul_le_r; lia). lia. }
  pose proof (Z.log2_spec m Hmpos) as HL.
  assert (He : Z.log2 m < 53) by (apply Z.log2_lt_pow2; lia).
  pose proof (Z.log2_nonneg m) as He0.
  set (e := Z.log2 m) in *.
  replace (Z.succ e) with (e + 1) in HL by lia.
  destruct (Z_le_gt_dec (52 - e) i) as [Hs|Hs].
  - exists (m * 2 ^ (52 - e)), (i - (52 - e)).
    pose proof (pow2_pos (52 - e) ltac:(lia)) as Hps.
    assert (E52 : 2 ^ 52 = 2 ^ e * 2 ^ (52 - e)).
    { rewrite <- Z.pow_add_r by lia. f_equal. lia. }
    assert (E53 : 2 ^ 53 = 2 ^ (e + 1) * 2 ^ (52 - e)).
    { rewrite <- Z.pow_add_r by lia. f_equal. lia. }
    split.
    + split.
      * rewrite E52. apply mul_le_r; lia.
      * rewrite E53. apply mul_lt_r; lia.
    + split; [lia|].
      rewrite HK. rewrite (pow2_split (52 - e) i) by lia. ring.
  - exfalso.
    assert (m * 2 ^ i < 2 ^ (e + 1) * 2 ^ i) by (apply mul_lt_r; lia).
    rewrite <- Z.pow_add_r in * by lia.
    assert (2 ^ (e + 1 + i) <= 2 ^ 52) by (apply pow2_le; lia).
    lia.
Qed.

Lemma bits_of_canonical : forall K, representable K ->
  (0 <= K < 2 ^ 52 /\ bits_of K = K) \/
  (exists m j, 2 ^ 52 <= m < 2 ^ 53 /\ 0 <= j <= 2045 /\ K = m * 2 ^ j /\
               bits_of K = (j + 1) * 2 ^ 52 + (m - 2 ^ 52)).
Proof.
  intros K HK. destruct (repr_canonical K HK) as [H|(m & j & Hm & Hj & E)].
  - left. split; [assumption|]. apply bits_of_subnormal. assumption.
  - right. exists m, j. repeat (split; [assumption|]).
    rewrite E. apply bits_of_normal; lia.
Qed.

Theorem bits_of_inj : forall K1 K2, representable K1 -> representable K2 ->
  bits_of K1 = bits_of K2 -> K1 = K2.
Proof.
  intros K1 K2 H1 H2 Hb.
  destruct (bits_of_canonical K1 H1) as [[A1 B1]|(m1 & j1 & Hm1 & Hj1 & E1 & B1)];
  destruct (bits_of_canonical K2 H2) as [[A2 B2]|(m2 & j2 & Hm2 & Hj2 & E2 & B2)];
  rewrite B1, B2 in Hb.
  - assumption.
  - exfalso. change (2 ^ 52) with 4503599627370496 in *. lia.
  - exfalso. change (2 ^ 52) with 4503599627370496 in *. lia.
  - change (2 ^ 52) with 4503599627370496 in *.
    change (2 ^ 53) with 9007199254740992 in *.
    assert (j1 = j2) by lia. assert (m1 = m2) by lia. subst. reflexivity.
Qed.

(* bits_of stays below the pattern of infinity on R, and is monotone-free
   of collisions with it. *)
Theorem bits_of_lt_inf : forall K, representable K -> 0 <= bits_of K < 0x7FF0000000000000.
Proof.
  intros K HK.
  destruct (bits_of_canonical K HK) as [[A B]|(m & j & Hm & Hj & E & B)]; rewrite B.
  - change (2 ^ 52) with 4503599627370496 in *. lia.
  - change (2 ^ 52) with 4503599627370496 in *.
    change (2 ^ 53) with 9007199254740992 in *. lia.
Qed.

(* ------------------------------------------------------------------ *)
(* Part 7: examples                                                    *)
(* ------------------------------------------------------------------ *)

Example ex_one : bits_of_rd (read_decimal 1 0) = 0x3FF0000000000000.
Proof. vm_compute. reflexivity. Qed.

Example ex_tenth : bits_of_rd (read_decimal 1 (-1)) = 0x3FB999999999999A.
Proof. vm_compute. reflexivity. Qed.

(* 2.4703282292062328e-324: just above half the least subnormal. *)
Example ex_half_min_up : bits_of_rd (read_decimal 24703282292062328 (-340)) = 1.
Proof. vm_compute. reflexivity. Qed.

(* 2.4703282292062327e-324: just below half the least subnormal. *)
Example ex_half_min_down : bits_of_rd (read_decimal 24703282292062327 (-340)) = 0.
Proof. vm_compute. reflexivity. Qed.

Example ex_max : bits_of_rd (read_decimal 17976931348623157 292) = 0x7FEFFFFFFFFFFFFF.
Proof. vm_compute. reflexivity. Qed.

Example ex_inf : read_decimal 17976931348623159 292 = RInf.
Proof. vm_compute. reflexivity. Qed.

Example ex_inf_bits : bits_of_rd (read_decimal 17976931348623159 292) = 0x7FF0000000000000.
Proof. vm_compute. reflexivity. Qed.

(* 4.9406564584124654e-324: the least subnormal. *)
Example ex_min : bits_of_rd (read_decimal 49406564584124654 (-340)) = 1.
Proof. vm_compute. reflexivity. Qed.

(* The exact halfway point between the largest finite double and 2^1024
   overflows; one unit less in the numerator does not. *)
Example ex_boundary_inf : read (2 ^ 1024 - 2 ^ 970) 1 = RInf.
Proof. vm_compute. reflexivity. Qed.

Example ex_boundary_fin :
  bits_of_rd (read ((2 ^ 1024 - 2 ^ 970) * 10 - 1) 10) = 0x7FEFFFFFFFFFFFFF.
Proof. vm_compute. reflexivity. Qed.

(* A tie in the subnormal range: 1.5 units rounds to 2, 2.5 units to 2. *)
Example ex_tie_a : read 3 (2 * 2 ^ 1074) = RFinite 2.
Proof. vm_compute. reflexivity. Qed.
Example ex_tie_b : read 5 (2 * 2 ^ 1074) = RFinite 2.
Proof. vm_compute. reflexivity. Qed.

(* ------------------------------------------------------------------ *)
(* Assumptions                                                         *)
(* ------------------------------------------------------------------ *)

Print Assumptions read_representable.
Print Assumptions read_nearest.
Print Assumptions read_ties_even.
Print Assumptions read_exact.
Print Assumptions read_overflow.
Print Assumptions read_monotone.
Print Assumptions bits_of_inj.
Print Assumptions bits_of_normal.
Print Assumptions bits_of_subnormal.
Print Assumptions bits_of_lt_inf.
Print Assumptions read_decimal_nonneg_exp.
Print Assumptions read_decimal_neg_exp.
Print Assumptions ex_tenth.
Print Assumptions ex_max.
Print Assumptions ex_inf.
