From Coq Require Import List String ZArith NArith Bool Lia.
From Coq Require Import Strings.Byte.
From LLIR Require Import Lib.Bytes Lib.Radix Model.Enc Model.Types Model.TypeString Model.GoEval Gen.Enums Gen.Printers Proofs.PrinterRefinement Proofs.InstPrintBase.
Import ListNotations.
Open Scope string_scope.

(* C01, text layer: memory instructions, getelementptr, select, phi, vector and aggregate operations (see InstPrintBase.v). *)

(* %r = load atomic volatile T, T* %p syncscope("s") seq_cst, align 4 *)
Lemma print_load g fuel id atomic volatile et tp ip scope ordering align mds :
  call_printer impl g (S (S fuel)) "ir.InstLoad" "LLString"
    (VObj "ir.InstLoad" [("Ident()", VStr id); ("ElemType", atype et); ("Src", value tp ip); ("Atomic", VBool atomic); ("Volatile", VBool volatile);
                         ("SyncScope", VStr scope); ("Ordering", VEnum "enum.AtomicOrdering" ordering); ("Align", VEnum "ir.Align" align);
                         ("Metadata", VList (map mdatt mds))])
  = Ok (VStr (id ++ lit " = load" ++ opt atomic " atomic" ++ opt volatile " volatile" ++ lit " " ++ et ++ lit ", " ++ tv tp ip
              ++ syncscope_text scope ++ ordering_text ordering ++ align_text align ++ mds_text mds)%list).
Proof.
  enter. do 5 merge. loop. destruct scope; done.
Qed.

(* store atomic volatile T %v, T* %p syncscope("s") seq_cst, align 4 *)
Lemma print_store g fuel atomic volatile tv_ iv tp ip scope ordering align mds :
  call_printer impl g (S (S fuel)) "ir.InstStore" "LLString"
    (VObj "ir.InstStore" [("Src", value tv_ iv); ("Dst", value tp ip); ("Atomic", VBool atomic); ("Volatile", VBool volatile);
                          ("SyncScope", VStr scope); ("Ordering", VEnum "enum.AtomicOrdering" ordering); ("Align", VEnum "ir.Align" align);
                          ("Metadata", VList (map mdatt mds))])
  = Ok (VStr (lit "store" ++ opt atomic " atomic" ++ opt volatile " volatile" ++ lit " " ++ tv tv_ iv ++ lit ", " ++ tv tp ip
              ++ syncscope_text scope ++ ordering_text ordering ++ align_text align ++ mds_text mds)%list).
Proof. enter. do 5 merge. loop. destruct scope; done. Qed.

(* fence syncscope("s") seq_cst *)
Lemma print_fence g fuel scope ordering mds :
  call_printer impl g (S fuel) "ir.InstFence" "LLString"
    (VObj "ir.InstFence" [("SyncScope", VStr scope); ("Ordering", VEnum "enum.AtomicOrdering" ordering); ("Metadata", VList (map mdatt mds))])
  = Ok (VStr (lit "fence" ++ syncscope_text scope ++ lit " " ++ enum_string "enum.AtomicOrdering" ordering ++ mds_text mds)%list).
Proof. enter. merge. loop. destruct scope; done. Qed.

(* %r = alloca inalloca swifterror T, T2 %n, align 8, addrspace(1) *)
Lemma print_alloca g fuel id inalloca swifterror et nelems align addrspace mds :
  call_printer impl g (S (S fuel)) "ir.InstAlloca" "LLString"
    (VObj "ir.InstAlloca" [("Ident()", VStr id); ("ElemType", atype et);
                           ("NElems", match nelems with Some (tn, i_n) => value tn i_n | None => VNil end);
                           ("InAlloca", VBool inalloca); ("SwiftError", VBool swifterror);
                           ("Align", VEnum "ir.Align" align); ("AddrSpace", VEnum "types.AddrSpace" addrspace);
                           ("Metadata", VList (map mdatt mds))])
  = Ok (VStr (id ++ lit " = alloca" ++ opt inalloca " inalloca" ++ opt swifterror " swifterror" ++ lit " " ++ et
              ++ match nelems with Some (tn, i_n) => lit ", " ++ tv tn i_n | None => [] end
              ++ align_text align ++ addrspace_text ", " addrspace ++ mds_text mds)%list).
Proof. destruct nelems as [[tn i_n]|]; enter; do 4 merge; loop; done. Qed.

(* %r = getelementptr inbounds T, T* %p, T1 %i, T2 %j *)
Lemma print_getelementptr g fuel id inbounds et tp ip (indices : list (bytes * bytes)) mds :
  call_printer impl g (S fuel) "ir.InstGetElementPtr" "LLString"
    (VObj "ir.InstGetElementPtr" [("Ident()", VStr id); ("ElemType", atype et); ("Src", value tp ip);
                                  ("Indices", VList (map (fun x => value (fst x) (snd x)) indices)); ("InBounds", VBool inbounds);
                                  ("Metadata", VList (map mdatt mds))])
  = Ok (VStr (id ++ lit " = getelementptr" ++ opt inbounds " inbounds" ++ lit " " ++ et ++ lit ", " ++ tv tp ip
              ++ List.concat (map (fun x => lit ", " ++ tv (fst x) (snd x))%list indices) ++ mds_text mds)%list).
Proof. enter. merge. loop. loop. done. Qed.

(* %r = select nnan T1 %c, T %a, T %b *)
Lemma print_select g fuel id tc ic tx ix ty iy flags mds :
  call_printer impl g (S fuel) "ir.InstSelect" "LLString"
    (VObj "ir.InstSelect" [("Ident()", VStr id); ("Cond", value tc ic); ("ValueTrue", value tx ix); ("ValueFalse", value ty iy);
                           ("FastMathFlags", VList (map (VEnum "enum.FastMathFlag") flags)); ("Metadata", VList (map mdatt mds))])
  = Ok (VStr (id ++ lit " = select" ++ flags_text "enum.FastMathFlag" flags ++ lit " " ++ tv tc ic ++ lit ", " ++ tv tx ix ++ lit ", " ++ tv ty iy
              ++ mds_text mds)%list).
Proof. enter. loop. loop. done. Qed.

(* %r = phi nnan T [ %a, %l1 ], [ %b, %l2 ] -- each incoming pair is written by the regenerated Incoming.String *)
Definition incoming (t : bytes) (x : bytes * bytes) : val :=
  VObj "ir.Incoming" [("X", value t (fst x)); ("Pred", value (lit "label") (snd x))].
Lemma print_phi g fuel id t (incs : list (bytes * bytes)) flags mds :
  call_printer impl g (S (S fuel)) "ir.InstPhi" "LLString"
    (VObj "ir.InstPhi" [("Ident()", VStr id); ("Typ", atype t); ("Incs", VList (map (incoming t) incs));
                        ("FastMathFlags", VList (map (VEnum "enum.FastMathFlag") flags)); ("Metadata", VList (map mdatt mds))])
  = Ok (VStr (id ++ lit " = phi " ++ List.concat (map (fun z => enum_string "enum.FastMathFlag" z ++ lit " ")%list flags) ++ t ++ lit " "
              ++ joinsep (lit ", ") (map (fun x => lit "[ " ++ fst x ++ lit ", " ++ snd x ++ lit " ]")%list incs) ++ mds_text mds)%list).
Proof. enter. loop. loop_sep. loop. done. Qed.

(* ---- vector operations ---- *)
Lemma print_extractelement g fuel id tx ix ti ii mds :
  call_printer impl g (S fuel) "ir.InstExtractElement" "LLString"
    (VObj "ir.InstExtractElement" [("Ident()", VStr id); ("X", value tx ix); ("Index", value ti ii); ("Metadata", VList (map mdatt mds))])
  = Ok (VStr (id ++ lit " = extractelement " ++ tv tx ix ++ lit ", " ++ tv ti ii ++ mds_text mds)%list).
Proof. enter. loop. done. Qed.

Lemma print_insertelement g fuel id tx ix te ie ti ii mds :
  call_printer impl g (S fuel) "ir.InstInsertElement" "LLString"
    (VObj "ir.InstInsertElement" [("Ident()", VStr id); ("X", value tx ix); ("Elem", value te ie); ("Index", value ti ii);
                                  ("Metadata", VList (map mdatt mds))])
  = Ok (VStr (id ++ lit " = insertelement " ++ tv tx ix ++ lit ", " ++ tv te ie ++ lit ", " ++ tv ti ii ++ mds_text mds)%list).
Proof. enter. loop. done. Qed.

Lemma print_shufflevector g fuel id tx ix ty iy tm im mds :
  call_printer impl g (S fuel) "ir.InstShuffleVector" "LLString"
    (VObj "ir.InstShuffleVector" [("Ident()", VStr id); ("X", value tx ix); ("Y", value ty iy); ("Mask", value tm im);
                                  ("Metadata", VList (map mdatt mds))])
  = Ok (VStr (id ++ lit " = shufflevector " ++ tv tx ix ++ lit ", " ++ tv ty iy ++ lit ", " ++ tv tm im ++ mds_text mds)%list).
Proof. enter. loop. done. Qed.

(* ---- aggregate operations: the indices are numbers ---- *)
Definition indices_text (l : list Z) : bytes := List.concat (map (fun i => lit ", " ++ print_Z i)%list l).
Lemma print_extractvalue g fuel id tx ix indices mds :
  call_printer impl g (S fuel) "ir.InstExtractValue" "LLString"
    (VObj "ir.InstExtractValue" [("Ident()", VStr id); ("X", value tx ix); ("Indices", VList (map VInt indices)); ("Metadata", VList (map mdatt mds))])
  = Ok (VStr (id ++ lit " = extractvalue " ++ tv tx ix ++ indices_text indices ++ mds_text mds)%list).
Proof. enter. loop. loop. unfold indices_text. done. Qed.

Lemma print_insertvalue g fuel id tx ix te ie indices mds :
  call_printer impl g (S fuel) "ir.InstInsertValue" "LLString"
    (VObj "ir.InstInsertValue" [("Ident()", VStr id); ("X", value tx ix); ("Elem", value te ie); ("Indices", VList (map VInt indices));
                                ("Metadata", VList (map mdatt mds))])
  = Ok (VStr (id ++ lit " = insertvalue " ++ tv tx ix ++ lit ", " ++ tv te ie ++ indices_text indices ++ mds_text mds)%list).
Proof. enter. loop. loop. unfold indices_text. done. Qed.

(* %r = va_arg T* %ap, T2 *)
Lemma print_va_arg g fuel id tl il t mds :
  call_printer impl g (S fuel) "ir.InstVAArg" "LLString"
    (VObj "ir.InstVAArg" [("Ident()", VStr id); ("ArgList", value tl il); ("ArgType", atype t); ("Metadata", VList (map mdatt mds))])
  = Ok (VStr (id ++ lit " = va_arg " ++ tv tl il ++ lit ", " ++ t ++ mds_text mds)%list).
Proof. enter. loop. done. Qed.

(* ---- atomic read-modify-write ---- *)
(* %r = cmpxchg weak volatile T* %p, T %c, T %n syncscope("s") acq_rel monotonic *)
Lemma print_cmpxchg g fuel id weak volatile tp ip tc ic tn i_n scope so fo mds :
  call_printer impl g (S fuel) "ir.InstCmpXchg" "LLString"
    (VObj "ir.InstCmpXchg" [("Ident()", VStr id); ("Ptr", value tp ip); ("Cmp", value tc ic); ("New", value tn i_n);
                            ("Weak", VBool weak); ("Volatile", VBool volatile); ("SyncScope", VStr scope);
                            ("SuccessOrdering", VEnum "enum.AtomicOrdering" so); ("FailureOrdering", VEnum "enum.AtomicOrdering" fo);
                            ("Metadata", VList (map mdatt mds))])
  = Ok (VStr (id ++ lit " = cmpxchg" ++ opt weak " weak" ++ opt volatile " volatile" ++ lit " " ++ tv tp ip ++ lit ", " ++ tv tc ic ++ lit ", " ++ tv tn i_n
              ++ syncscope_text scope ++ lit " " ++ enum_string "enum.AtomicOrdering" so ++ lit " " ++ enum_string "enum.AtomicOrdering" fo
              ++ mds_text mds)%list).
Proof. enter. do 3 merge. loop. destruct scope; done. Qed.

(* %r = atomicrmw volatile add T* %p, T %x syncscope("s") seq_cst *)
Lemma print_atomicrmw g fuel id volatile op tp ip tx ix scope ordering mds :
  call_printer impl g (S fuel) "ir.InstAtomicRMW" "LLString"
    (VObj "ir.InstAtomicRMW" [("Ident()", VStr id); ("Op", VEnum "enum.AtomicOp" op); ("Dst", value tp ip); ("X", value tx ix);
                              ("Volatile", VBool volatile); ("SyncScope", VStr scope); ("Ordering", VEnum "enum.AtomicOrdering" ordering);
                              ("Metadata", VList (map mdatt mds))])
  = Ok (VStr (id ++ lit " = atomicrmw" ++ opt volatile " volatile" ++ lit " " ++ enum_string "enum.AtomicOp" op ++ lit " " ++ tv tp ip ++ lit ", " ++ tv tx ix
              ++ syncscope_text scope ++ lit " " ++ enum_string "enum.AtomicOrdering" ordering ++ mds_text mds)%list).
Proof. enter. do 2 merge. loop. destruct scope; done. Qed.

(* ---- exception handling pads ---- *)
(* a clause of a landingpad, known by how it is written *)
Definition aclause (s : bytes) : val := VObj "ir.Clause" [("String()", VStr s)].
Definition nl_tab_tab : bytes := [x0a; x09; x09].
Lemma print_landingpad g fuel id t cleanup clauses mds :
  call_printer impl g (S fuel) "ir.InstLandingPad" "LLString"
    (VObj "ir.InstLandingPad" [("Ident()", VStr id); ("ResultType", atype t); ("Cleanup", VBool cleanup); ("Clauses", VList (map aclause clauses));
                               ("Metadata", VList (map mdatt mds))])
  = Ok (VStr (id ++ lit " = landingpad " ++ t ++ (if cleanup then nl_tab_tab ++ lit "cleanup" else [])
              ++ List.concat (map (fun c => nl_tab_tab ++ c)%list clauses) ++ mds_text mds)%list).
Proof. enter. merge. loop. loop. unfold nl_tab_tab. done. Qed.

Definition pads : list (string * string * string) :=
  [("ir.InstCatchPad", "CatchSwitch", "catchpad"); ("ir.InstCleanupPad", "ParentPad", "cleanuppad")].
Lemma print_pad : forall kind field kw, In (kind, field, kw) pads ->
  forall g fuel id tp ip (args : list (bytes * bytes)) mds,
  call_printer impl g (S fuel) kind "LLString"
    (VObj kind [("Ident()", VStr id); (field, value tp ip); ("Args", VList (map (fun x => value (fst x) (snd x)) args));
                ("Metadata", VList (map mdatt mds))])
  = Ok (VStr (id ++ lit " = " ++ lit kw ++ lit " within " ++ ip ++ lit " [" ++ tvs args ++ lit "]" ++ mds_text mds)%list).
Proof.
  intros kind field kw H g fuel id tp ip args mds.
  repeat (destruct H as [H|H]; [injection H as <- <- <-|]); [..|contradiction].
  all: enter; loop_sep; loop; done.
Qed.
