From Coq Require Import List Bool Sorting.Sorted Sorting.Permutation Lia ZArith.
From LLIR Require Import Lib.Bytes Lib.Lex Model.Assemble Model.Natsort Proofs.NatsortProofs.
Import ListNotations.

Section AssembleProofs.
  Variables K V : Type.
  Variable eqb ltb : K -> K -> bool.
  Hypothesis eqb_spec : forall x y, eqb x y = true <-> x = y.
  Hypothesis lt_irrefl : forall x, ltb x x = false.
  Hypothesis lt_trans : forall x y z, ltb x y = true -> ltb y z = true -> ltb x z = true.
  Hypothesis lt_total : forall x y, x <> y -> ltb x y = true \/ ltb y x = true.

  Let lt (x y : K) : Prop := ltb x y = true.

  (* what package sort promises about its result *)
  Definition sort_ok (sort : list K -> list K) : Prop :=
    forall l, NoDup l -> Permutation l (sort l) /\ StronglySorted lt (sort l).

  Lemma eqb_false x y : x <> y -> eqb x y = false.
  Proof. intros H. destruct (eqb x y) eqn:E; [apply eqb_spec in E; contradiction|reflexivity]. Qed.

  (* lookup does not depend on the iteration order of a duplicate-free map *)
  Lemma lookup_in k v (m : list (K * V)) : NoDup (map fst m) -> In (k, v) m -> lookup eqb k m = Some v.
  Proof.
    induction m as [|[k' v'] r IH]; intros Hnd Hin; [contradiction|]. cbn [lookup map fst] in *.
    inversion Hnd; subst. destruct Hin as [[= -> ->]|Hin].
    - rewrite (proj2 (eqb_spec k k) eq_refl). reflexivity.
    - rewrite eqb_false; [apply IH; assumption|]. intros ->. apply H1. apply in_map_iff. exists (k', v). split; [reflexivity|exact Hin].
  Qed.
  Lemma lookup_none k (m : list (K * V)) : ~ In k (map fst m) -> lookup eqb k m = None.
  Proof.
    induction m as [|[k' v'] r IH]; intros Hn; [reflexivity|]. cbn [lookup map fst] in *.
    rewrite eqb_false; [apply IH; intros H; apply Hn; right; exact H|]. intros ->. apply Hn. left. reflexivity.
  Qed.
  Lemma lookup_perm (m1 m2 : list (K * V)) k : NoDup (map fst m1) -> Permutation m1 m2 ->
    lookup eqb k m1 = lookup eqb k m2.
  Proof.
    intros Hnd Hp.
    assert (NoDup (map fst m2)) as Hnd2 by (eapply Permutation_NoDup; [apply Permutation_map; exact Hp|exact Hnd]).
    destruct (lookup eqb k m1) as [v|] eqn:E.
    - symmetry. apply lookup_in; [exact Hnd2|]. eapply Permutation_in; [exact Hp|].
      clear -E eqb_spec. induction m1 as [|[k' v'] r IH]; [discriminate|]. cbn [lookup] in E.
      destruct (eqb k k') eqn:Ek; [apply eqb_spec in Ek; injection E as ->; subst; left; reflexivity|right; auto].
    - symmetry. apply lookup_none. intros Hin. apply in_map_iff in Hin. destruct Hin as ([k' v] & Hk & Hin). cbn in Hk. subst k'.
      apply Permutation_sym in Hp. pose proof (Permutation_in _ Hp Hin) as Hin1.
      rewrite (lookup_in k v m1 Hnd Hin1) in E. discriminate.
  Qed.

  (* ---- C20/C12: the assembled list does not depend on the iteration order, nor on which correct sort is used ---- *)
  Theorem assemble_order_independent sort1 sort2 (m1 m2 : list (K * V)) :
    sort_ok sort1 -> sort_ok sort2 -> NoDup (map fst m1) -> Permutation m1 m2 ->
    assemble eqb sort1 m1 = assemble eqb sort2 m2.
  Proof.
    intros S1 S2 Hnd Hp. unfold assemble.
    assert (NoDup (map fst m2)) as Hnd2 by (eapply Permutation_NoDup; [apply Permutation_map; exact Hp|exact Hnd]).
    destruct (S1 _ Hnd) as [P1 O1]. destruct (S2 _ Hnd2) as [P2 O2].
    assert (sort1 (map fst m1) = sort2 (map fst m2)) as ->.
    { apply (sorted_perm_unique K lt); [intros x Hx; unfold lt in Hx; rewrite lt_irrefl in Hx; discriminate|exact lt_trans|exact O1|exact O2|].
      eapply Permutation_trans; [apply Permutation_sym; exact P1|]. eapply Permutation_trans; [|exact P2]. apply Permutation_map. exact Hp. }
    apply map_ext. intros k. f_equal. apply lookup_perm; assumption.
  Qed.

  (* the assembled list is ordered by the comparison and holds every definition exactly once *)
  Theorem assemble_sorted sort (m : list (K * V)) : sort_ok sort -> NoDup (map fst m) ->
    StronglySorted lt (map fst (assemble eqb sort m))
    /\ Permutation (map (fun kv => (fst kv, Some (snd kv))) m) (assemble eqb sort m).
  Proof.
    intros S Hnd. destruct (S _ Hnd) as [P O]. unfold assemble. split.
    - rewrite map_map. cbn [fst]. rewrite map_id. exact O.
    - eapply Permutation_trans; [|apply Permutation_map; exact P]. rewrite map_map.
      assert (forall kv, In kv m -> (fst kv, Some (snd kv)) = (fst kv, lookup eqb (fst kv) m)) as E.
      { intros [k v] Hin. cbn. rewrite (lookup_in k v m Hnd Hin). reflexivity. }
      rewrite (map_ext_in _ _ m E). apply Permutation_refl.
  Qed.

  (* the reference sorter meets the promise, so the promise is satisfiable and the model runs *)
  Lemma insert_perm k l : Permutation (k :: l) (ins_sorted ltb k l).
  Proof.
    induction l as [|x r IH]; [apply Permutation_refl|]. cbn [ins_sorted]. destruct (ltb x k); [|apply Permutation_refl].
    eapply Permutation_trans; [apply perm_swap|]. apply perm_skip. exact IH.
  Qed.
  Lemma insert_sorted k l : ~ In k l -> StronglySorted lt l -> StronglySorted lt (ins_sorted ltb k l).
  Proof.
    induction l as [|x r IH]; intros Hn Hs; [repeat constructor|]. cbn [ins_sorted]. inversion Hs; subst.
    destruct (ltb x k) eqn:E.
    - constructor; [apply IH; [intros H; apply Hn; right; exact H|assumption]|].
      rewrite Forall_forall in *. intros y Hy. apply (Permutation_in _ (Permutation_sym (insert_perm k r))) in Hy.
      destruct Hy as [<-|Hy]; [exact E|apply H2; exact Hy].
    - assert (lt k x) as Hkx. { destruct (lt_total k x) as [H|H]; [intros ->; apply Hn; left; reflexivity|exact H|unfold lt; congruence]. }
      constructor; [exact Hs|]. constructor; [exact Hkx|]. rewrite Forall_forall in *. intros y Hy. eapply lt_trans; [exact Hkx|apply H2; exact Hy].
  Qed.
  Theorem isort_ok : sort_ok (isort ltb).
  Proof.
    intros l. induction l as [|x r IH]; intros Hnd; [split; constructor|]. inversion Hnd; subst. destruct (IH H2) as [P O].
    cbn [isort fold_right]. fold (isort ltb r). split.
    - eapply Permutation_trans; [apply perm_skip; exact P|apply insert_perm].
    - apply insert_sorted; [intros H; apply H1; eapply Permutation_in; [apply Permutation_sym; exact P|exact H]|exact O].
  Qed.
End AssembleProofs.

(* ---- instances: type definitions, comdats and named metadata are ordered by natsort.Less ---- *)
Theorem natsort_assemble_order_independent (V : Type) sort1 sort2 (m1 m2 : list (bytes * V)) :
  sort_ok bytes less sort1 -> sort_ok bytes less sort2 -> NoDup (map fst m1) -> Permutation m1 m2 ->
  assemble bytes_eqb sort1 m1 = assemble bytes_eqb sort2 m2.
Proof.
  apply assemble_order_independent; [exact bytes_eqb_spec|exact less_irrefl|exact less_trans].
Qed.

(* attribute groups and metadata definitions are ordered by ascending ID *)
Theorem id_assemble_order_independent (V : Type) sort1 sort2 (m1 m2 : list (Z * V)) :
  sort_ok Z Z.ltb sort1 -> sort_ok Z Z.ltb sort2 -> NoDup (map fst m1) -> Permutation m1 m2 ->
  assemble Z.eqb sort1 m1 = assemble Z.eqb sort2 m2.
Proof.
  apply assemble_order_independent; [intros x y; apply Z.eqb_eq|apply Z.ltb_irrefl|].
  intros x y z. rewrite !Z.ltb_lt. lia.
Qed.

(* ---- globals, aliases, ifuncs and functions keep their textual order ---- *)
Section GlobalsProofs.
  Variable G : Type.
  Variable kind : G -> gkind.
  (* each of the four slices is the input order restricted to that kind; nothing is lost or repeated *)
  Theorem globals_keep_textual_order order k x y :
    (exists a b c, of_kind kind k order = a ++ x :: b ++ y :: c) ->
    exists a b c, order = a ++ x :: b ++ y :: c.
  Proof.
    intros (a & b & c & H). unfold of_kind in H.
    revert a H. induction order as [|g r IH]; intros a H; [destruct a; discriminate|].
    cbn [filter] in H. destruct (gkind_eqb (kind g) k).
    - destruct a as [|a0 a].
      + injection H as -> H. clear IH.
        assert (exists b' c', r = b' ++ y :: c') as (b' & c' & ->).
        { revert b H. induction r as [|g r IH]; intros b H; [destruct b; discriminate|]. cbn [filter] in H.
          destruct (gkind_eqb (kind g) k).
          - destruct b as [|b0 b]; [injection H as -> _; exists [], r; reflexivity|].
            injection H as -> H. destruct (IH _ H) as (b' & c' & ->). exists (b0 :: b'), c'. reflexivity.
          - destruct (IH _ H) as (b' & c' & ->). exists (g :: b'), c'. reflexivity. }
        exists [], b', c'. reflexivity.
      + injection H as -> H. destruct (IH _ H) as (a' & b' & c' & ->). exists (a0 :: a'), b', c'. reflexivity.
    - destruct (IH _ H) as (a' & b' & c' & ->). exists (g :: a'), b', c'. reflexivity.
  Qed.

  Theorem globals_complete order g : In g order <-> In g (of_kind kind (kind g) order).
  Proof. unfold of_kind. rewrite filter_In. split; [intros H; split; [exact H|destruct (kind g); reflexivity]|tauto]. Qed.

  (* a permutation of the input that keeps the relative order inside each kind changes nothing *)
  Theorem globals_permutation_invariant o1 o2 :
    (forall k, of_kind kind k o1 = of_kind kind k o2) -> assemble_globals kind o1 = assemble_globals kind o2.
  Proof. intros H. unfold assemble_globals. rewrite !H. reflexivity. Qed.
End GlobalsProofs.
Print Assumptions natsort_assemble_order_independent.
Print Assumptions id_assemble_order_independent.
Print Assumptions isort_ok.
Print Assumptions globals_keep_textual_order.
