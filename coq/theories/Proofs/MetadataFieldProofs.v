(* C17, the field-by-field handling of the specialised debug-info nodes, read off the regenerated
   translators asm.irDIxxx / irGenericDINode (Gen/Printers.v) and the struct table (Gen/FieldFlow.v):
   every translator is a loop over the AST fields with one type-switch case per field kind. *)
From Coq Require Import List String ZArith Bool.
From LLIR Require Import Gen.Printers Gen.FieldFlow.
Import ListNotations.
Open Scope string_scope.

Definition mem (x : string) (l : list string) : bool := existsb (String.eqb x) l.
Fixpoint dedup (l : list string) : list string := match l with [] => [] | x :: r => if mem x r then dedup r else x :: dedup r end.
Fixpoint nodupb (l : list string) : bool := match l with [] => true | x :: r => negb (mem x r) && nodupb r end.

Definition di_translators : list printer :=
  filter (fun p => String.prefix "asm.irDI" (p_method p) || String.eqb (p_method p) "asm.irGenericDINode") printers.

(* fields of the node md assigned by a statement *)
Fixpoint assigns (s : gstmt) : list string :=
  match s with
  | SSet "md" (f :: _) _ => [f]
  | SSetIndex "md" f _ _ => [f]
  | SIf _ _ t e => flat_map assigns t ++ flat_map assigns e
  | SFor _ _ _ b | SForMap _ _ _ b | SFor3 _ _ _ b => flat_map assigns b
  | STypeSwitch _ _ cs d => flat_map (fun c => flat_map assigns (snd c)) cs ++ flat_map assigns d
  | SSwitch _ cs d => flat_map (fun c => flat_map assigns (snd c)) cs ++ flat_map assigns d
  | _ => []
  end.
(* the cases of the field switch: AST field kinds, node fields assigned *)
Fixpoint field_cases (s : gstmt) : list (list string * list string) :=
  match s with
  | SFor _ _ _ b => flat_map field_cases b
  | STypeSwitch "oldField" _ cs _ => map (fun c => (fst c, dedup (flat_map assigns (snd c)))) cs
  | _ => []
  end.
Definition cases_of (p : printer) : list (list string * list string) := flat_map field_cases (p_body p).
Definition with_cases : list printer := filter (fun p => negb (match cases_of p with [] => true | _ => false end)) di_translators.

Fixpoint drop (n : nat) (s : string) : string := match n, s with S k, String _ r => drop k r | _, _ => s end.
(* asm.irDIFile fills metadata.DIFile *)
Definition node_of (p : printer) : string := drop 6 (p_method p).
Definition struct_fields (n : string) : list string :=
  match find (fun f => String.eqb (f_type f) n) md_flows with
  | Some f => filter (fun x => negb (mem x ["MetadataID"; "Distinct"])) (f_fields f)
  | None => []
  end.

(* 1. each AST field kind sets exactly one field of the node *)
Theorem one_field_per_case : forallb (fun p => forallb (fun c => Nat.eqb (List.length (snd c)) 1) (cases_of p)) with_cases = true.
Proof. vm_compute. reflexivity. Qed.
(* 2. no two field kinds of one node set the same field *)
Theorem no_field_set_twice : forallb (fun p => nodupb (flat_map snd (cases_of p))) with_cases = true.
Proof. vm_compute. reflexivity. Qed.
(* 3. the fields set are exactly the fields of the node's struct: none forgotten, none invented *)
Theorem every_node_field_has_a_case :
  forallb (fun p => let a := flat_map snd (cases_of p) in let f := struct_fields (node_of p) in
                    forallb (fun x => mem x a) f && forallb (fun x => mem x f) a) with_cases = true.
Proof. vm_compute. reflexivity. Qed.

Example counted : List.length with_cases = 27 /\ list_sum (map (fun p => List.length (cases_of p)) with_cases) = 194.
Proof. vm_compute. split; reflexivity. Qed.
Print Assumptions every_node_field_has_a_case.
