(* natsort.Less is a strict total order on all byte strings: it is the
   lexicographic order on the token view of a string, and the token view is
   injective.  Digit runs are compared by numeric value. *)
From Coq Require Import List Bool Arith NArith Lia.
From Coq Require Import Strings.Byte.
From LLIR Require Import Lib.Bytes Lib.Lex Model.Natsort.
Import ListNotations.

Local Arguments Nat.ltb : simpl never.
Local Arguments Nat.eqb : simpl never.
Local Arguments Nat.leb : simpl never.
Local Arguments N.ltb : simpl never.
Local Arguments N.leb : simpl never.
Local Arguments N.eqb : simpl never.

(* ---------- tokens ---------- *)
Inductive tok := C (b : byte) | Num (d : bytes) (z : nat).

Definition tok_eqb (x y : tok) : bool :=
  match x, y with
  | C a, C b => byte_eqb a b
  | Num d1 z1, Num d2 z2 => bytes_eqb d1 d2 && (z1 =? z2)
  | _, _ => false
  end.

Definition tok_ltb (x y : tok) : bool :=
  match x, y with
  | C a, C b => byte_ltb a b
  | Num d1 z1, Num d2 z2 =>
      if negb (length d1 =? length d2) then length d1 <? length d2
      else if negb (bytes_eqb d1 d2) then bytes_ltb d1 d2
      else z1 <? z2
  | Num _ _, C b => N.ltb 57 (bN b)
  | C a, Num _ _ => N.leb (bN a) 57
  end.

Lemma tok_eqb_spec x y : tok_eqb x y = true <-> x = y.
Proof.
  destruct x as [a|d1 z1], y as [b|d2 z2]; cbn; split; try congruence.
  - intros H; apply byte_eqb_spec in H; congruence.
  - intros [= ->]. apply byte_eqb_refl.
  - intros H. apply andb_prop in H as [H1 H2]. apply bytes_eqb_spec in H1. apply Nat.eqb_eq in H2. congruence.
  - intros [= -> ->]. rewrite Nat.eqb_refl, andb_true_r. apply bytes_eqb_refl.
Qed.

Ltac nb :=
  repeat match goal with
  | H : (_ <? _) = true |- _ => apply Nat.ltb_lt in H
  | H : (_ <? _) = false |- _ => apply Nat.ltb_ge in H
  | H : (_ <=? _) = true |- _ => apply Nat.leb_le in H
  | H : (_ <=? _) = false |- _ => apply Nat.leb_gt in H
  | H : (_ =? _) = true |- _ => apply Nat.eqb_eq in H
  | H : (_ =? _) = false |- _ => apply Nat.eqb_neq in H
  | H : N.ltb _ _ = true |- _ => apply N.ltb_lt in H
  | H : N.ltb _ _ = false |- _ => apply N.ltb_ge in H
  | H : N.leb _ _ = true |- _ => apply N.leb_le in H
  | H : N.leb _ _ = false |- _ => apply N.leb_gt in H
  | H : bytes_eqb _ _ = true |- _ => apply bytes_eqb_spec in H
  | H : byte_eqb _ _ = true |- _ => apply byte_eqb_spec in H
  | |- (_ <? _) = true => apply Nat.ltb_lt
  | |- (_ <=? _) = true => apply Nat.leb_le
  | |- N.ltb _ _ = true => apply N.ltb_lt
  | |- N.leb _ _ = true => apply N.leb_le
  end.

Lemma tok_lt_irrefl x : tok_ltb x x = false.
Proof.
  destruct x as [a|d z]; cbn; [apply byte_ltb_irrefl|].
  rewrite Nat.eqb_refl, bytes_eqb_refl. cbn. apply Nat.ltb_irrefl.
Qed.

Lemma tok_lt_trans x y z : tok_ltb x y = true -> tok_ltb y z = true -> tok_ltb x z = true.
Proof.
  destruct x as [a|d1 z1], y as [b|d2 z2], z as [c|d3 z3]; cbn; unfold byte_ltb; intros H1 H2; nb; try lia.
  destruct (length d1 =? length d2) eqn:L12; destruct (length d2 =? length d3) eqn:L23; cbn in *; nb.
  - assert (length d1 =? length d3 = true) as -> by (apply Nat.eqb_eq; lia). cbn.
    destruct (bytes_eqb d1 d2) eqn:E12; destruct (bytes_eqb d2 d3) eqn:E23; cbn in *; nb; subst.
    + rewrite bytes_eqb_refl. cbn. nb. lia.
    + rewrite E23. cbn. exact H2.
    + rewrite E12. cbn. exact H1.
    + destruct (bytes_eqb d1 d3) eqn:E13; cbn.
      * nb; subst. pose proof (bytes_ltb_trans _ _ _ H1 H2) as K. rewrite bytes_ltb_irrefl in K. discriminate.
      * eapply bytes_ltb_trans; eassumption.
  - assert (length d1 =? length d3 = false) as -> by (apply Nat.eqb_neq; lia). cbn. nb. lia.
  - assert (length d1 =? length d3 = false) as -> by (apply Nat.eqb_neq; lia). cbn. nb. lia.
  - assert (length d1 =? length d3 = false) as -> by (apply Nat.eqb_neq; lia). cbn. nb. lia.
Qed.

Lemma tok_lt_total x y : x <> y -> tok_ltb x y = true \/ tok_ltb y x = true.
Proof.
  destruct x as [a|d1 z1], y as [b|d2 z2]; cbn; intros Hne.
  - assert (a <> b) by congruence.
    destruct (byte_ltb a b) eqn:E1; auto. destruct (byte_ltb b a) eqn:E2; auto.
    exfalso. apply H. apply byte_trichotomy; assumption.
  - destruct (N.ltb 57 (bN a)) eqn:E; auto. left. nb. lia.
  - destruct (N.ltb 57 (bN b)) eqn:E; auto. right. nb. lia.
  - destruct (length d1 =? length d2) eqn:L; cbn.
    + rewrite Nat.eqb_sym, L. cbn.
      destruct (bytes_eqb d1 d2) eqn:E; cbn.
      * nb; subst. rewrite bytes_eqb_refl. cbn.
        assert (z1 <> z2) by congruence. destruct (z1 <? z2) eqn:E; auto. right. nb. lia.
      * assert (bytes_eqb d2 d1 = false) as ->.
        { apply bytes_eqb_neq. apply bytes_eqb_neq in E. congruence. }
        cbn. apply bytes_ltb_total. apply bytes_eqb_neq in E. exact E.
    + rewrite Nat.eqb_sym, L. cbn. nb. destruct (length d1 <? length d2) eqn:E; auto. right. nb. lia.
Qed.

(* ---------- the token view of a string ---------- *)
Fixpoint key (fuel : nat) (s : bytes) : list tok :=
  match fuel with
  | 0 => []
  | S f =>
    match s with
    | [] => []
    | c :: s' =>
      if isdigit c then
        let '(z, s1) := eat_zeros s in
        let '(d, s2) := eat_digits s1 in
        Num d z :: key f s2
      else C c :: key f s'
    end
  end.
Definition keyOf (s : bytes) := key (S (length s)) s.
Notation lexk := (lexb tok tok_eqb tok_ltb).

Lemma eat_zeros_len s : length s = fst (eat_zeros s) + length (snd (eat_zeros s)).
Proof.
  induction s as [|c s IH]; cbn; [reflexivity|].
  destruct (byte_eqb c x30); cbn; [|reflexivity].
  destruct (eat_zeros s) as [n r]; cbn in *. lia.
Qed.

Lemma eat_digits_len s : length s = length (fst (eat_digits s)) + length (snd (eat_digits s)).
Proof.
  induction s as [|c s IH]; cbn; [reflexivity|].
  destruct (isdigit c); cbn; [|reflexivity].
  destruct (eat_digits s) as [d r]; cbn in *. lia.
Qed.

Lemma eat_progress c s' z s1 d s2 :
  isdigit c = true -> eat_zeros (c :: s') = (z, s1) -> eat_digits s1 = (d, s2) ->
  length s2 < length (c :: s').
Proof.
  intros Hd Hz Hdg.
  pose proof (eat_zeros_len (c :: s')) as L1. rewrite Hz in L1. cbn [fst snd] in L1.
  pose proof (eat_digits_len s1) as L2. rewrite Hdg in L2. cbn [fst snd] in L2.
  cbn [eat_zeros] in Hz. destruct (byte_eqb c x30) eqn:E.
  - destruct (eat_zeros s') as [n r]. inversion Hz; subst. lia.
  - inversion Hz; subst. cbn [eat_digits] in Hdg. rewrite Hd in Hdg.
    destruct (eat_digits s') as [d' r']. inversion Hdg; subst. cbn [length] in *. lia.
Qed.

Lemma key_fuel : forall f f' s, length s < f -> length s < f' -> key f s = key f' s.
Proof.
  induction f as [|f IH]; intros f' s H1 H2; [lia|].
  destruct f' as [|f']; [lia|]. cbn [key].
  destruct s as [|c s']; [reflexivity|].
  destruct (isdigit c) eqn:Hd.
  - destruct (eat_zeros (c :: s')) as [z s1] eqn:Hz. destruct (eat_digits s1) as [d s2] eqn:Hdg.
    pose proof (eat_progress _ _ _ _ _ _ Hd Hz Hdg). f_equal. apply IH; cbn [length] in *; lia.
  - f_equal. apply IH; cbn [length] in *; lia.
Qed.


Lemma digit_nondigit_lt c1 c2 : isdigit c1 = true -> isdigit c2 = false ->
  byte_ltb c1 c2 = N.ltb 57 (bN c2).
Proof.
  intros H1 H2. apply isdigit_range in H1.
  assert (~ (48 <= bN c2 <= 57)%N) as H2' by (intros K; apply isdigit_range in K; congruence).
  unfold byte_ltb. destruct (N.ltb_spec (bN c1) (bN c2)); destruct (N.ltb_spec 57 (bN c2)); try reflexivity; lia.
Qed.

Lemma nondigit_digit_lt c1 c2 : isdigit c1 = false -> isdigit c2 = true ->
  byte_ltb c1 c2 = N.leb (bN c1) 57.
Proof.
  intros H1 H2. apply isdigit_range in H2.
  assert (~ (48 <= bN c1 <= 57)%N) as H1' by (intros K; apply isdigit_range in K; congruence).
  unfold byte_ltb. destruct (N.ltb_spec (bN c1) (bN c2)); destruct (N.leb_spec (bN c1) 57); try reflexivity; lia.
Qed.

Lemma digit_nondigit_neq c1 c2 : isdigit c1 = true -> isdigit c2 = false -> byte_eqb c1 c2 = false.
Proof. intros H1 H2. apply byte_eqb_neq. intros ->. congruence. Qed.

(* the loop invariant idx1 = idx2 is the hypothesis [n1 = n2 = n] *)
Theorem less_go_key : forall fuel n s t, length s + length t < fuel ->
  less_go fuel n s n t = lexk (keyOf s) (keyOf t).
Proof.
  induction fuel as [|fuel IH]; intros n s t Hf; [lia|].
  unfold keyOf. cbn [less_go].
  destruct s as [|c1 s']; destruct t as [|c2 t'].
  - cbn. apply Nat.ltb_irrefl.
  - cbn [key length]. assert ((n + 0 <? n + S (length t')) = true) as -> by (nb; lia).
    destruct (isdigit c2); [destruct (eat_zeros (c2 :: t')) as [z s1]; destruct (eat_digits s1)|]; reflexivity.
  - cbn [key length]. assert ((n + S (length s') <? n + 0) = false) as -> by (apply Nat.ltb_ge; lia).
    destruct (isdigit c1); [destruct (eat_zeros (c1 :: s')) as [z s1]; destruct (eat_digits s1)|]; reflexivity.
  - cbn [key length]. cbn [length] in Hf.
    destruct (isdigit c1) eqn:D1; destruct (isdigit c2) eqn:D2; cbn [andb].
    + destruct (eat_zeros (c1 :: s')) as [z1 s1] eqn:Z1. destruct (eat_zeros (c2 :: t')) as [z2 t1] eqn:Z2.
      destruct (eat_digits s1) as [d1 s2] eqn:G1. destruct (eat_digits t1) as [d2 t2] eqn:G2.
      pose proof (eat_progress _ _ _ _ _ _ D1 Z1 G1) as P1. pose proof (eat_progress _ _ _ _ _ _ D2 Z2 G2) as P2.
      cbn [length] in P1, P2. cbn [lexb tok_eqb tok_ltb].
      destruct (length d1 =? length d2) eqn:L; cbn [negb].
      * destruct (bytes_eqb d1 d2) eqn:E; cbn [negb andb].
        -- destruct (z1 =? z2) eqn:Z.
           ++ nb. subst z2. rewrite Nat.eqb_refl. cbn [negb]. rewrite L.
              rewrite IH by lia. unfold keyOf.
              rewrite (key_fuel (S (length s2)) (S (length s')) s2) by lia.
              rewrite (key_fuel (S (length t2)) (S (length t')) t2) by lia. reflexivity.
           ++ assert ((n + z1 =? n + z2) = false) as -> by (apply Nat.eqb_neq; nb; lia).
              cbn [negb]. destruct (z1 <? z2) eqn:ZZ; [nb; lia | apply Nat.ltb_ge; nb; lia].
        -- reflexivity.
      * assert (bytes_eqb d1 d2 = false) as ->.
        { apply bytes_eqb_neq. intros ->. nb. lia. }
        reflexivity.
    + destruct (eat_zeros (c1 :: s')) as [z1 s1]. destruct (eat_digits s1) as [d1 s2].
      cbn [lexb tok_eqb tok_ltb]. rewrite (digit_nondigit_neq _ _ D1 D2). cbn [negb].
      apply digit_nondigit_lt; assumption.
    + destruct (eat_zeros (c2 :: t')) as [z2 t1]. destruct (eat_digits t1) as [d2 t2].
      cbn [lexb tok_eqb tok_ltb].
      assert (byte_eqb c1 c2 = false) as -> by (rewrite byte_eqb_sym; apply digit_nondigit_neq; assumption).
      cbn [negb]. apply nondigit_digit_lt; assumption.
    + cbn [lexb tok_eqb tok_ltb]. destruct (byte_eqb c1 c2) eqn:E; cbn [negb]; [|reflexivity].
      rewrite IH by lia. reflexivity.
Qed.

Definition lessk (s t : bytes) := lexk (keyOf s) (keyOf t).
Theorem less_eq_lessk s t : less s t = lessk s t.
Proof. unfold less. apply less_go_key. lia. Qed.

(* ---------- injectivity of the token view ---------- *)
Definition untok (t : tok) : bytes :=
  match t with C b => [b] | Num d z => repeat x30 z ++ d end.

Lemma eat_zeros_spec s : s = repeat x30 (fst (eat_zeros s)) ++ snd (eat_zeros s).
Proof.
  induction s as [|c s IH]; cbn; [reflexivity|].
  destruct (byte_eqb c x30) eqn:E; cbn; [|reflexivity].
  apply byte_eqb_spec in E; subst. destruct (eat_zeros s) as [n r]; cbn in *. congruence.
Qed.

Lemma eat_digits_spec s : s = fst (eat_digits s) ++ snd (eat_digits s).
Proof.
  induction s as [|c s IH]; cbn; [reflexivity|].
  destruct (isdigit c); cbn; [|reflexivity].
  destruct (eat_digits s) as [d r]; cbn in *. congruence.
Qed.

Lemma unkey : forall f s, length s < f -> concat (map untok (key f s)) = s.
Proof.
  induction f as [|f IH]; intros s Hf; [lia|]. cbn [key].
  destruct s as [|c s']; [reflexivity|].
  destruct (isdigit c) eqn:Hd.
  - destruct (eat_zeros (c :: s')) as [z s1] eqn:Hz. destruct (eat_digits s1) as [d s2] eqn:Hdg.
    pose proof (eat_progress _ _ _ _ _ _ Hd Hz Hdg) as P.
    cbn [map concat untok]. rewrite IH by (cbn [length] in *; lia).
    pose proof (eat_zeros_spec (c :: s')) as E1. rewrite Hz in E1. cbn [fst snd] in E1.
    pose proof (eat_digits_spec s1) as E2. rewrite Hdg in E2. cbn [fst snd] in E2.
    rewrite <- app_assoc. rewrite <- E2. symmetry. exact E1.
  - cbn [map concat untok]. rewrite IH by (cbn [length] in *; lia). reflexivity.
Qed.

Lemma keyOf_inj s t : keyOf s = keyOf t -> s = t.
Proof.
  unfold keyOf. intros H.
  rewrite <- (unkey (S (length s)) s) by lia. rewrite <- (unkey (S (length t)) t) by lia.
  rewrite H. reflexivity.
Qed.

(* ---------- the order axioms for the Go function ---------- *)
Theorem less_irrefl s : less s s = false.
Proof. rewrite less_eq_lessk. apply (lexb_irrefl tok tok_eqb tok_ltb tok_eqb_spec). Qed.

Theorem less_trans s t u : less s t = true -> less t u = true -> less s u = true.
Proof.
  rewrite !less_eq_lessk.
  apply (lexb_trans tok tok_eqb tok_ltb tok_eqb_spec tok_lt_irrefl tok_lt_trans).
Qed.

Theorem less_asym s t : less s t = true -> less t s = false.
Proof.
  rewrite !less_eq_lessk.
  apply (lexb_asym tok tok_eqb tok_ltb tok_eqb_spec tok_lt_irrefl tok_lt_trans).
Qed.

Theorem less_total s t : s <> t -> less s t = true \/ less t s = true.
Proof.
  rewrite !less_eq_lessk. intros Hne.
  apply (lexb_total tok tok_eqb tok_ltb tok_eqb_spec tok_lt_total).
  intros E. apply Hne. apply keyOf_inj. exact E.
Qed.

(* ---------- digit runs are compared by numeric value ---------- *)
Local Open Scope N_scope.

Fixpoint dval_acc (acc : N) (d : bytes) : N :=
  match d with [] => acc | b :: r => dval_acc (acc * 10 + (bN b - 48)) r end.
Definition dval (d : bytes) : N := dval_acc 0 d.
Definition all_digits (d : bytes) : Prop := Forall (fun b => isdigit b = true) d.
Definition pow10 (n : nat) : N := 10 ^ N.of_nat n.

Lemma pow10_S n : pow10 (S n) = 10 * pow10 n.
Proof. unfold pow10. rewrite Nat2N.inj_succ, N.pow_succ_r'. reflexivity. Qed.
Lemma pow10_pos n : 0 < pow10 n.
Proof. unfold pow10. assert (10 ^ N.of_nat n <> 0) by (apply N.pow_nonzero; lia). lia. Qed.

Lemma dval_acc_split d : forall acc, dval_acc acc d = acc * pow10 (length d) + dval d.
Proof.
  unfold dval. induction d as [|b r IH]; intros acc; cbn [dval_acc length].
  - unfold pow10. cbn. lia.
  - rewrite IH. rewrite (IH (0 * 10 + (bN b - 48))). rewrite pow10_S. lia.
Qed.

Lemma dval_cons b r : dval (b :: r) = (bN b - 48) * pow10 (length r) + dval r.
Proof. unfold dval at 1. cbn [dval_acc]. rewrite dval_acc_split. lia. Qed.

Lemma dval_upper d : all_digits d -> dval d < pow10 (length d).
Proof.
  induction 1 as [|b r Hb Hr IH]; [unfold dval, pow10; cbn; lia|].
  rewrite dval_cons. cbn [length]. rewrite pow10_S. apply isdigit_range in Hb.
  pose proof (pow10_pos (length r)). nia.
Qed.

Lemma dval_lower b r : isdigit b = true -> bN b <> 48 -> pow10 (length r) <= dval (b :: r).
Proof.
  intros Hb Hnz. rewrite dval_cons. apply isdigit_range in Hb.
  pose proof (pow10_pos (length r)). nia.
Qed.

Lemma pow10_mono a b : (a <= b)%nat -> pow10 a <= pow10 b.
Proof. intros H. unfold pow10. apply N.pow_le_mono_r; lia. Qed.

(* no leading zero: empty, or first byte is not '0' *)
Definition no_lead_zero (d : bytes) : Prop := match d with [] => True | b :: _ => bN b <> 48 end.

Lemma shorter_is_smaller d1 d2 : all_digits d1 -> all_digits d2 -> no_lead_zero d2 ->
  (length d1 < length d2)%nat -> dval d1 < dval d2.
Proof.
  intros H1 H2 Hn Hl. destruct d2 as [|b r]; [cbn in Hl; lia|].
  inversion H2; subst. cbn in Hn.
  pose proof (dval_upper d1 H1). pose proof (dval_lower b r H3 Hn).
  pose proof (pow10_mono (length d1) (length r)). cbn [length] in Hl. lia.
Qed.

Lemma samelen_lex d1 : forall d2, all_digits d1 -> all_digits d2 -> length d1 = length d2 ->
  bytes_ltb d1 d2 = true -> dval d1 < dval d2.
Proof.
  induction d1 as [|a r1 IH]; intros [|b r2] H1 H2 Hl; cbn in Hl; try lia; [cbn; discriminate|].
  inversion H1; subst. inversion H2; subst. cbn [bytes_ltb]. unfold byte_ltb.
  rewrite !dval_cons. injection Hl as Hl. rewrite Hl.
  apply isdigit_range in H3. apply isdigit_range in H5.
  pose proof (dval_upper r1 H4). pose proof (dval_upper r2 H6). rewrite Hl in H.
  destruct (N.ltb_spec (bN a) (bN b)).
  - intros _. nia.
  - destruct (N.ltb_spec (bN b) (bN a)); [discriminate|].
    intros Hlt. assert (bN a = bN b) as -> by lia. specialize (IH r2 H4 H6 Hl Hlt). lia.
Qed.

(* The comparison Less performs on two digit runs (zeros stripped) is the
   comparison of their numeric values, ties broken by the number of leading zeros. *)
Theorem num_tok_numeric d1 z1 d2 z2 :
  all_digits d1 -> all_digits d2 -> no_lead_zero d1 -> no_lead_zero d2 ->
  tok_ltb (Num d1 z1) (Num d2 z2) = true <->
  dval d1 < dval d2 \/ (dval d1 = dval d2 /\ (z1 < z2)%nat).
Proof.
  intros A1 A2 N1 N2. cbn [tok_ltb].
  destruct (Nat.eqb_spec (length d1) (length d2)) as [L|L]; cbn [negb].
  - destruct (bytes_eqb d1 d2) eqn:E; cbn [negb].
    + apply bytes_eqb_spec in E; subst. rewrite Nat.ltb_lt. split; [intros H; right; split; [reflexivity|exact H]|].
      intros [H|[_ H]]; [lia|exact H].
    + apply bytes_eqb_neq in E. split.
      * intros H. left. apply samelen_lex; assumption.
      * intros [H|[H _]].
        -- destruct (bytes_ltb_total d1 d2 E) as [K|K]; [exact K|].
           pose proof (samelen_lex d2 d1 A2 A1 (eq_sym L) K). lia.
        -- destruct (bytes_ltb_total d1 d2 E) as [K|K]; [exact K|].
           pose proof (samelen_lex d2 d1 A2 A1 (eq_sym L) K). lia.
  - rewrite Nat.ltb_lt. split.
    + intros H. left. apply shorter_is_smaller; assumption.
    + intros [H|[H _]].
      * destruct (Nat.lt_trichotomy (length d1) (length d2)) as [K|[K|K]]; [exact K|contradiction|].
        pose proof (shorter_is_smaller d2 d1 A2 A1 N1 K). lia.
      * destruct (Nat.lt_trichotomy (length d1) (length d2)) as [K|[K|K]]; [exact K|contradiction|].
        pose proof (shorter_is_smaller d2 d1 A2 A1 N1 K). lia.
Qed.

(* ---------- the tokens Less actually builds meet the side conditions of num_tok_numeric ---------- *)
Lemma eat_digits_all s : all_digits (fst (eat_digits s)).
Proof.
  induction s as [|c s IH]; cbn; [constructor|]. destruct (isdigit c) eqn:E; [|constructor].
  destruct (eat_digits s) as [d r]; cbn in *. constructor; assumption.
Qed.

Lemma eat_zeros_rest s : match snd (eat_zeros s) with [] => True | b :: _ => b <> x30 end.
Proof.
  induction s as [|c s IH]; cbn; [exact I|]. destruct (byte_eqb c x30) eqn:E.
  - destruct (eat_zeros s) as [n r]; cbn in *. exact IH.
  - cbn. intros ->. cbn in E. discriminate.
Qed.

Lemma bN_x30 b : bN b = 48 -> b = x30.
Proof. destruct b; vm_compute; intros H; try discriminate H; reflexivity. Qed.

Lemma eat_digits_head s : match s with [] => True | b :: _ => b <> x30 end -> no_lead_zero (fst (eat_digits s)).
Proof.
  destruct s as [|c s]; cbn; [trivial|]. intros Hc. destruct (isdigit c); [|exact I].
  destruct (eat_digits s) as [d r]; cbn. intros H. apply Hc, bN_x30, H.
Qed.

Definition tok_wf (t : tok) : Prop := match t with C _ => True | Num d _ => all_digits d /\ no_lead_zero d end.

Theorem key_tokens_wf : forall fuel s, Forall tok_wf (key fuel s).
Proof.
  induction fuel as [|f IH]; intros s; cbn [key]; [constructor|]. destruct s as [|c s']; [constructor|].
  destruct (isdigit c).
  - pose proof (eat_zeros_rest (c :: s')) as Hz. destruct (eat_zeros (c :: s')) as [z s1]. cbn [snd] in Hz.
    pose proof (eat_digits_all s1) as Ha. pose proof (eat_digits_head s1 Hz) as Hn.
    destruct (eat_digits s1) as [d s2]. cbn [fst] in *. constructor; [split; assumption|apply IH].
  - constructor; [exact I|apply IH].
Qed.

(* the value of a whole digit run, leading zeros included, is the value of its stripped part *)
Lemma dval_zeros s : dval s = dval (snd (eat_zeros s)).
Proof.
  induction s as [|c s IH]; [reflexivity|]. cbn [eat_zeros]. destruct (byte_eqb c x30) eqn:E; [|reflexivity].
  apply byte_eqb_spec in E. subst c. destruct (eat_zeros s) as [n r]; cbn [snd] in *. rewrite dval_cons, <- IH.
  change (bN x30) with 48. lia.
Qed.
Print Assumptions key_tokens_wf.
