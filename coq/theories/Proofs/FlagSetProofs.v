From Coq Require Import List Bool NArith ZArith Lia.
From Coq Require Import Strings.Byte.
From LLIR Require Import Gen.Enums Model.EnumModel Proofs.EnumProofs Model.FlagSets.
Import ListNotations.
Local Open Scope N_scope.

Lemma testbit_union l i : N.testbit (union l) i = existsb (fun v => N.testbit v i) l.
Proof.
  induction l as [|v r IH]; cbn [union fold_right existsb]; [apply N.bits_0|].
  fold (union r). rewrite N.lor_spec, IH. reflexivity.
Qed.

Lemma testbit_mask k i : N.testbit (mask_of k) i = N.eqb i (N.of_nat k).
Proof. unfold mask_of. rewrite N.pow2_bits_eqb. apply N.eqb_sym. Qed.

(* the OR of the printed members is exactly the part of [flags] inside the visited masks: nothing is
   lost, nothing invented, whatever the flags and whatever the range *)
Theorem union_members flags ks :
  union (members flags ks) = N.land flags (union (map mask_of ks)).
Proof.
  apply N.bits_inj. intros i. rewrite N.land_spec, !testbit_union. unfold members.
  rewrite !existsb_map with (f := mask_of) || idtac.
  induction ks as [|k r IH]; cbn [filter map existsb]; [rewrite andb_false_r; reflexivity|].
  destruct (N.testbit flags (N.of_nat k)) eqn:B; cbn [map existsb]; rewrite testbit_mask.
  - rewrite IH. destruct (N.eqb_spec i (N.of_nat k)) as [->|Hne]; cbn [orb].
    + rewrite B. reflexivity.
    + reflexivity.
  - rewrite IH. destruct (N.eqb_spec i (N.of_nat k)) as [->|Hne]; cbn [orb]; [|reflexivity].
    rewrite B. cbn [andb]. destruct (existsb _ _); reflexivity.
Qed.

(* hence a flag value made only of visited bits is read back unchanged *)
Corollary union_members_id flags ks : N.land flags (union (map mask_of ks)) = flags ->
  union (members flags ks) = flags.
Proof. intros H. rewrite union_members. exact H. Qed.

(* the printed members are exactly the set bits among the visited masks *)
Theorem members_exact flags ks v : In v (members flags ks) <->
  exists k, In k ks /\ v = mask_of k /\ N.testbit flags (N.of_nat k) = true.
Proof.
  unfold members. rewrite in_map_iff. split.
  - intros (k & <- & Hk). apply filter_In in Hk as [Hin B]. exists k. auto.
  - intros (k & Hin & -> & B). exists k. split; [reflexivity|]. apply filter_In. auto.
Qed.

(* keywords: if every member has a keyword that reads back to it (the finite round trip over the
   regenerated table), printing then reading a member list is the OR of the members *)
Lemma read_print t vs ss :
  (forall v, In v vs -> exists s, keyword t v = Some s /\ value_of t s = Some v) ->
  print_all t vs = Some ss -> read_all t ss = Some (union vs).
Proof.
  revert ss. induction vs as [|v r IH]; intros ss Hk; cbn [print_all read_all union fold_right].
  - intros [= <-]. reflexivity.
  - destruct (Hk v (or_introl eq_refl)) as (s & K & V). rewrite K.
    destruct (print_all t r) as [ss'|] eqn:P; [|discriminate]. intros [= <-]. cbn [read_all].
    rewrite V, (IH ss' (fun x Hx => Hk x (or_intror Hx)) eq_refl). reflexivity.
Qed.

(* a member value that is a declared constant of the type has such a keyword (C18 finite theorem) *)
Lemma declared_has_keyword t v : In t all_enums -> In (Z.of_N v) (e_values t) ->
  exists s, keyword t v = Some s /\ value_of t s = Some v.
Proof.
  intros Ht Hv. destruct (enum_roundtrip t Ht (Z.of_N v) Hv) as (s & K & F).
  exists s. split; [exact K|]. unfold value_of. rewrite F. rewrite N2Z.id. reflexivity.
Qed.

(* ---- the statement for a flag type of the regenerated tables ---- *)
Definition declared (t : enum_tables) (v : N) : bool := existsb (Z.eqb (Z.of_N v)) (e_values t).
Definition named_bits (t : enum_tables) (lo hi : nat) : list nat :=
  filter (fun k => declared t (mask_of k)) (bit_range lo hi).

Lemma declared_In t v : declared t v = true -> In (Z.of_N v) (e_values t).
Proof.
  unfold declared. rewrite existsb_exists. intros (z & Hz & E). apply Z.eqb_eq in E. subst. exact Hz.
Qed.

Lemma print_all_total t vs : (forall v, In v vs -> exists s, keyword t v = Some s /\ value_of t s = Some v) ->
  exists ss, print_all t vs = Some ss.
Proof.
  induction vs as [|v r IH]; intros Hk; cbn [print_all]; [eexists; reflexivity|].
  destruct (Hk v (or_introl eq_refl)) as (s & K & _). rewrite K.
  destruct (IH (fun x Hx => Hk x (or_intror Hx))) as (ss & ->). eexists; reflexivity.
Qed.

(* a flag value without bits outside a sublist of the visited masks has the same members on both *)
Lemma members_restrict flags (P : nat -> bool) ks :
  (forall k, In k ks -> N.testbit flags (N.of_nat k) = true -> P k = true) ->
  members flags ks = members flags (filter P ks).
Proof.
  intros H. unfold members. f_equal. induction ks as [|k r IH]; cbn [filter]; [reflexivity|].
  destruct (N.testbit flags (N.of_nat k)) eqn:B.
  - rewrite (H k (or_introl eq_refl) B). cbn [filter]. rewrite B. f_equal. apply IH. intros x Hx. apply H. right; exact Hx.
  - destruct (P k); cbn [filter]; rewrite ?B; apply IH; intros x Hx; apply H; right; exact Hx.
Qed.

Lemma in_range_bits flags ks : N.land flags (union (map mask_of ks)) = flags ->
  forall k, N.testbit flags (N.of_nat k) = true -> In k ks.
Proof.
  intros H k B. rewrite <- H in B. rewrite N.land_spec, testbit_union in B. apply andb_prop in B as [_ B].
  rewrite existsb_exists in B. destruct B as (v & Hv & T). apply in_map_iff in Hv as (j & <- & Hj).
  rewrite testbit_mask in T. apply N.eqb_eq in T. apply Nat2N.inj in T. subst. exact Hj.
Qed.

(* C18, flag sets, unbounded: for every flag value made of named single-bit members of the visited
   range -- every subset of the members -- the printer emits exactly the keywords of the members
   that are set, and the parser's OR of their values is the flag value again *)
Theorem flagset_round_trip t lo hi flags : In t all_enums ->
  N.land flags (union (map mask_of (named_bits t lo hi))) = flags ->
  exists ss, print_all t (members flags (bit_range lo hi)) = Some ss
             /\ read_all t ss = Some flags
             /\ (forall v, In v (members flags (bit_range lo hi)) <->
                           exists k, In k (named_bits t lo hi) /\ v = mask_of k /\ N.testbit flags (N.of_nat k) = true).
Proof.
  intros Ht Hf.
  assert (members flags (bit_range lo hi) = members flags (named_bits t lo hi)) as E.
  { unfold named_bits. apply members_restrict. intros k Hk B.
    pose proof (in_range_bits flags _ Hf k B) as Hin. unfold named_bits in Hin. apply filter_In in Hin. tauto. }
  assert (forall v, In v (members flags (named_bits t lo hi)) -> exists s, keyword t v = Some s /\ value_of t s = Some v) as K.
  { intros v Hv. apply members_exact in Hv as (k & Hk & -> & _). unfold named_bits in Hk. apply filter_In in Hk as [_ D].
    apply declared_has_keyword; [exact Ht|apply declared_In; exact D]. }
  rewrite E. destruct (print_all_total t _ K) as (ss & P). exists ss. split; [exact P|]. split.
  - rewrite (read_print t _ ss K P). f_equal. apply union_members_id. exact Hf.
  - intros v. apply members_exact.
Qed.

(* DIFlag: the 2-bit accessibility field (bits 0-1) is printed first, as one member with three keywords;
   the single-bit masks are visited from bit lo >= 2 *)
Lemma testbit_3_high k : (2 <= k)%nat -> N.testbit 3 (N.of_nat k) = false.
Proof.
  intros H. change 3 with (N.ones 2). apply N.ones_spec_high. lia.
Qed.

Theorem di_flagset_round_trip lo hi flags : (2 <= lo)%nat ->
  (forall a, 0 < a < 4 -> declared DIFlag_tables a = true) ->
  In DIFlag_tables all_enums ->
  N.land flags (N.lor 3 (union (map mask_of (named_bits DIFlag_tables lo hi)))) = flags ->
  exists ss, print_all DIFlag_tables (di_members flags (bit_range lo hi)) = Some ss /\ read_all DIFlag_tables ss = Some flags.
Proof.
  intros Hlo Hacc Ht Hf.
  set (nb := named_bits DIFlag_tables lo hi) in *.
  (* bits of the visited range that are set are named *)
  assert (members flags (bit_range lo hi) = members flags nb) as E.
  { unfold nb, named_bits. apply members_restrict. intros k Hk B.
    unfold bit_range in Hk. apply in_seq in Hk.
    rewrite <- Hf in B. rewrite N.land_spec, N.lor_spec, testbit_union, (testbit_3_high k) in B by lia.
    apply andb_prop in B as [_ B]. cbn [orb] in B. rewrite existsb_exists in B. destruct B as (v & Hv & T).
    apply in_map_iff in Hv as (j & <- & Hj). rewrite testbit_mask in T. apply N.eqb_eq in T. apply Nat2N.inj in T. subst j.
    fold nb in Hj. unfold nb, named_bits in Hj. apply filter_In in Hj. tauto. }
  assert (forall v, In v (di_members flags nb) -> exists s, keyword DIFlag_tables v = Some s /\ value_of DIFlag_tables s = Some v) as K.
  { intros v Hv. unfold di_members in Hv. apply in_app_or in Hv as [Hv|Hv].
    - destruct (N.eqb_spec (N.land flags 3) 0) as [|Hne]; [contradiction|]. destruct Hv as [<-|[]].
      apply declared_has_keyword; [exact Ht|]. apply declared_In, Hacc.
      assert (N.land flags 3 < 4) by (change 3 with (N.ones 2); rewrite N.land_ones; apply N.mod_lt; discriminate). lia.
    - apply members_exact in Hv as (k & Hk & -> & _). unfold nb, named_bits in Hk. apply filter_In in Hk as [_ D].
      apply declared_has_keyword; [exact Ht|apply declared_In; exact D]. }
  unfold di_members in *. rewrite E. destruct (print_all_total DIFlag_tables _ K) as (ss & P). exists ss. split; [exact P|].
  rewrite (read_print DIFlag_tables _ ss K P). f_equal.
  (* OR of the accessibility member and the single-bit members = flags restricted to 3 | named = flags *)
  assert (union ((if N.land flags 3 =? 0 then [] else [N.land flags 3]) ++ members flags nb)
          = N.lor (N.land flags 3) (union (members flags nb))) as ->.
  { destruct (N.eqb_spec (N.land flags 3) 0) as [Z|Z]; cbn [app union fold_right]; [rewrite Z, N.lor_0_l|]; reflexivity. }
  rewrite union_members, <- N.land_lor_distr_r. exact Hf.
Qed.
Print Assumptions flagset_round_trip.
Print Assumptions di_flagset_round_trip.
