From Coq Require Import List String ZArith NArith Bool Lia.
From Coq Require Import Strings.Byte.
From LLIR Require Import Lib.Bytes Lib.Radix Model.Enc Model.Types Model.TypeString Model.GoEval Gen.Enums Gen.Printers Proofs.PrinterRefinement Proofs.InstPrintBase Proofs.InstPrintLemmas Proofs.InstPrintMemory Proofs.CallPrintLemmas Proofs.InvokePrintLemmas Proofs.CallBrPrintLemmas Proofs.TermPrintLemmas.
Import ListNotations.
Open Scope string_scope.

(* C01, text layer, summary: every instruction and terminator kind of package ir has a printing lemma over its
   regenerated LLString body -- 54 instructions and 12 terminators, the 66 kinds that have such a body in
   Gen/Printers.v.  The statement of each kind is the type of its lemma (InstPrintLemmas.v, InstPrintMemory.v,
   CallPrintLemmas.v, TermPrintLemmas.v). *)

(* each entry: the kind and the statement of its lemma (the type of the proof term named) *)

Definition kind_statements : list (string * Prop) := [
  ("ir.InstAShr", ltac:(let t := type of (print_exact_binop "ir.InstAShr" "ashr" ltac:(cbn; tauto)) in exact t));
  ("ir.InstAdd", ltac:(let t := type of (print_overflow_binop "ir.InstAdd" "add" ltac:(cbn; tauto)) in exact t));
  ("ir.InstAddrSpaceCast", ltac:(let t := type of (print_conversion "ir.InstAddrSpaceCast" "addrspacecast" ltac:(cbn; tauto)) in exact t));
  ("ir.InstAlloca", ltac:(let t := type of @print_alloca in exact t));
  ("ir.InstAnd", ltac:(let t := type of (print_plain_binop "ir.InstAnd" "and" ltac:(cbn; tauto)) in exact t));
  ("ir.InstAtomicRMW", ltac:(let t := type of @print_atomicrmw in exact t));
  ("ir.InstBitCast", ltac:(let t := type of (print_conversion "ir.InstBitCast" "bitcast" ltac:(cbn; tauto)) in exact t));
  ("ir.InstCall", ltac:(let t := type of @print_call in exact t));
  ("ir.InstCatchPad", ltac:(let t := type of (print_pad "ir.InstCatchPad" "CatchSwitch" "catchpad" ltac:(cbn; tauto)) in exact t));
  ("ir.InstCleanupPad", ltac:(let t := type of (print_pad "ir.InstCleanupPad" "ParentPad" "cleanuppad" ltac:(cbn; tauto)) in exact t));
  ("ir.InstCmpXchg", ltac:(let t := type of @print_cmpxchg in exact t));
  ("ir.InstExtractElement", ltac:(let t := type of @print_extractelement in exact t));
  ("ir.InstExtractValue", ltac:(let t := type of @print_extractvalue in exact t));
  ("ir.InstFAdd", ltac:(let t := type of (print_fp_binop "ir.InstFAdd" "fadd" ltac:(cbn; tauto)) in exact t));
  ("ir.InstFCmp", ltac:(let t := type of @print_fcmp in exact t));
  ("ir.InstFDiv", ltac:(let t := type of (print_fp_binop "ir.InstFDiv" "fdiv" ltac:(cbn; tauto)) in exact t));
  ("ir.InstFMul", ltac:(let t := type of (print_fp_binop "ir.InstFMul" "fmul" ltac:(cbn; tauto)) in exact t));
  ("ir.InstFNeg", ltac:(let t := type of @print_fneg in exact t));
  ("ir.InstFPExt", ltac:(let t := type of (print_conversion "ir.InstFPExt" "fpext" ltac:(cbn; tauto)) in exact t));
  ("ir.InstFPToSI", ltac:(let t := type of (print_conversion "ir.InstFPToSI" "fptosi" ltac:(cbn; tauto)) in exact t));
  ("ir.InstFPToUI", ltac:(let t := type of (print_conversion "ir.InstFPToUI" "fptoui" ltac:(cbn; tauto)) in exact t));
  ("ir.InstFPTrunc", ltac:(let t := type of (print_conversion "ir.InstFPTrunc" "fptrunc" ltac:(cbn; tauto)) in exact t));
  ("ir.InstFRem", ltac:(let t := type of (print_fp_binop "ir.InstFRem" "frem" ltac:(cbn; tauto)) in exact t));
  ("ir.InstFSub", ltac:(let t := type of (print_fp_binop "ir.InstFSub" "fsub" ltac:(cbn; tauto)) in exact t));
  ("ir.InstFence", ltac:(let t := type of @print_fence in exact t));
  ("ir.InstFreeze", ltac:(let t := type of @print_freeze in exact t));
  ("ir.InstGetElementPtr", ltac:(let t := type of @print_getelementptr in exact t));
  ("ir.InstICmp", ltac:(let t := type of @print_icmp in exact t));
  ("ir.InstInsertElement", ltac:(let t := type of @print_insertelement in exact t));
  ("ir.InstInsertValue", ltac:(let t := type of @print_insertvalue in exact t));
  ("ir.InstIntToPtr", ltac:(let t := type of (print_conversion "ir.InstIntToPtr" "inttoptr" ltac:(cbn; tauto)) in exact t));
  ("ir.InstLShr", ltac:(let t := type of (print_exact_binop "ir.InstLShr" "lshr" ltac:(cbn; tauto)) in exact t));
  ("ir.InstLandingPad", ltac:(let t := type of @print_landingpad in exact t));
  ("ir.InstLoad", ltac:(let t := type of @print_load in exact t));
  ("ir.InstMul", ltac:(let t := type of (print_overflow_binop "ir.InstMul" "mul" ltac:(cbn; tauto)) in exact t));
  ("ir.InstOr", ltac:(let t := type of (print_plain_binop "ir.InstOr" "or" ltac:(cbn; tauto)) in exact t));
  ("ir.InstPhi", ltac:(let t := type of @print_phi in exact t));
  ("ir.InstPtrToInt", ltac:(let t := type of (print_conversion "ir.InstPtrToInt" "ptrtoint" ltac:(cbn; tauto)) in exact t));
  ("ir.InstSDiv", ltac:(let t := type of (print_exact_binop "ir.InstSDiv" "sdiv" ltac:(cbn; tauto)) in exact t));
  ("ir.InstSExt", ltac:(let t := type of (print_conversion "ir.InstSExt" "sext" ltac:(cbn; tauto)) in exact t));
  ("ir.InstSIToFP", ltac:(let t := type of (print_conversion "ir.InstSIToFP" "sitofp" ltac:(cbn; tauto)) in exact t));
  ("ir.InstSRem", ltac:(let t := type of (print_plain_binop "ir.InstSRem" "srem" ltac:(cbn; tauto)) in exact t));
  ("ir.InstSelect", ltac:(let t := type of @print_select in exact t));
  ("ir.InstShl", ltac:(let t := type of (print_overflow_binop "ir.InstShl" "shl" ltac:(cbn; tauto)) in exact t));
  ("ir.InstShuffleVector", ltac:(let t := type of @print_shufflevector in exact t));
  ("ir.InstStore", ltac:(let t := type of @print_store in exact t));
  ("ir.InstSub", ltac:(let t := type of (print_overflow_binop "ir.InstSub" "sub" ltac:(cbn; tauto)) in exact t));
  ("ir.InstTrunc", ltac:(let t := type of (print_conversion "ir.InstTrunc" "trunc" ltac:(cbn; tauto)) in exact t));
  ("ir.InstUDiv", ltac:(let t := type of (print_exact_binop "ir.InstUDiv" "udiv" ltac:(cbn; tauto)) in exact t));
  ("ir.InstUIToFP", ltac:(let t := type of (print_conversion "ir.InstUIToFP" "uitofp" ltac:(cbn; tauto)) in exact t));
  ("ir.InstURem", ltac:(let t := type of (print_plain_binop "ir.InstURem" "urem" ltac:(cbn; tauto)) in exact t));
  ("ir.InstVAArg", ltac:(let t := type of @print_va_arg in exact t));
  ("ir.InstXor", ltac:(let t := type of (print_plain_binop "ir.InstXor" "xor" ltac:(cbn; tauto)) in exact t));
  ("ir.InstZExt", ltac:(let t := type of (print_conversion "ir.InstZExt" "zext" ltac:(cbn; tauto)) in exact t));
  ("ir.TermBr", ltac:(let t := type of @print_br in exact t));
  ("ir.TermCallBr", ltac:(let t := type of @print_callbr in exact t));
  ("ir.TermCatchRet", ltac:(let t := type of @print_catchret in exact t));
  ("ir.TermCatchSwitch", ltac:(let t := type of @print_catchswitch in exact t));
  ("ir.TermCleanupRet", ltac:(let t := type of @print_cleanupret in exact t));
  ("ir.TermCondBr", ltac:(let t := type of @print_condbr in exact t));
  ("ir.TermIndirectBr", ltac:(let t := type of @print_indirectbr in exact t));
  ("ir.TermInvoke", ltac:(let t := type of @print_invoke in exact t));
  ("ir.TermResume", ltac:(let t := type of @print_resume in exact t));
  ("ir.TermRet", ltac:(let t := type of @print_ret in exact t));
  ("ir.TermSwitch", ltac:(let t := type of @print_switch in exact t));
  ("ir.TermUnreachable", ltac:(let t := type of @print_unreachable in exact t))].

(* every kind prints its line: for all operand texts, names, flag values and attachments *)
Theorem every_kind_prints_its_line : Forall (fun p => snd p) kind_statements.
Proof.
  unfold kind_statements.
  apply Forall_cons; [exact (print_exact_binop "ir.InstAShr" "ashr" ltac:(cbn; tauto))|].
  apply Forall_cons; [exact (print_overflow_binop "ir.InstAdd" "add" ltac:(cbn; tauto))|].
  apply Forall_cons; [exact (print_conversion "ir.InstAddrSpaceCast" "addrspacecast" ltac:(cbn; tauto))|].
  apply Forall_cons; [exact @print_alloca|].
  apply Forall_cons; [exact (print_plain_binop "ir.InstAnd" "and" ltac:(cbn; tauto))|].
  apply Forall_cons; [exact @print_atomicrmw|].
  apply Forall_cons; [exact (print_conversion "ir.InstBitCast" "bitcast" ltac:(cbn; tauto))|].
  apply Forall_cons; [exact @print_call|].
  apply Forall_cons; [exact (print_pad "ir.InstCatchPad" "CatchSwitch" "catchpad" ltac:(cbn; tauto))|].
  apply Forall_cons; [exact (print_pad "ir.InstCleanupPad" "ParentPad" "cleanuppad" ltac:(cbn; tauto))|].
  apply Forall_cons; [exact @print_cmpxchg|].
  apply Forall_cons; [exact @print_extractelement|].
  apply Forall_cons; [exact @print_extractvalue|].
  apply Forall_cons; [exact (print_fp_binop "ir.InstFAdd" "fadd" ltac:(cbn; tauto))|].
  apply Forall_cons; [exact @print_fcmp|].
  apply Forall_cons; [exact (print_fp_binop "ir.InstFDiv" "fdiv" ltac:(cbn; tauto))|].
  apply Forall_cons; [exact (print_fp_binop "ir.InstFMul" "fmul" ltac:(cbn; tauto))|].
  apply Forall_cons; [exact @print_fneg|].
  apply Forall_cons; [exact (print_conversion "ir.InstFPExt" "fpext" ltac:(cbn; tauto))|].
  apply Forall_cons; [exact (print_conversion "ir.InstFPToSI" "fptosi" ltac:(cbn; tauto))|].
  apply Forall_cons; [exact (print_conversion "ir.InstFPToUI" "fptoui" ltac:(cbn; tauto))|].
  apply Forall_cons; [exact (print_conversion "ir.InstFPTrunc" "fptrunc" ltac:(cbn; tauto))|].
  apply Forall_cons; [exact (print_fp_binop "ir.InstFRem" "frem" ltac:(cbn; tauto))|].
  apply Forall_cons; [exact (print_fp_binop "ir.InstFSub" "fsub" ltac:(cbn; tauto))|].
  apply Forall_cons; [exact @print_fence|].
  apply Forall_cons; [exact @print_freeze|].
  apply Forall_cons; [exact @print_getelementptr|].
  apply Forall_cons; [exact @print_icmp|].
  apply Forall_cons; [exact @print_insertelement|].
  apply Forall_cons; [exact @print_insertvalue|].
  apply Forall_cons; [exact (print_conversion "ir.InstIntToPtr" "inttoptr" ltac:(cbn; tauto))|].
  apply Forall_cons; [exact (print_exact_binop "ir.InstLShr" "lshr" ltac:(cbn; tauto))|].
  apply Forall_cons; [exact @print_landingpad|].
  apply Forall_cons; [exact @print_load|].
  apply Forall_cons; [exact (print_overflow_binop "ir.InstMul" "mul" ltac:(cbn; tauto))|].
  apply Forall_cons; [exact (print_plain_binop "ir.InstOr" "or" ltac:(cbn; tauto))|].
  apply Forall_cons; [exact @print_phi|].
  apply Forall_cons; [exact (print_conversion "ir.InstPtrToInt" "ptrtoint" ltac:(cbn; tauto))|].
  apply Forall_cons; [exact (print_exact_binop "ir.InstSDiv" "sdiv" ltac:(cbn; tauto))|].
  apply Forall_cons; [exact (print_conversion "ir.InstSExt" "sext" ltac:(cbn; tauto))|].
  apply Forall_cons; [exact (print_conversion "ir.InstSIToFP" "sitofp" ltac:(cbn; tauto))|].
  apply Forall_cons; [exact (print_plain_binop "ir.InstSRem" "srem" ltac:(cbn; tauto))|].
  apply Forall_cons; [exact @print_select|].
  apply Forall_cons; [exact (print_overflow_binop "ir.InstShl" "shl" ltac:(cbn; tauto))|].
  apply Forall_cons; [exact @print_shufflevector|].
  apply Forall_cons; [exact @print_store|].
  apply Forall_cons; [exact (print_overflow_binop "ir.InstSub" "sub" ltac:(cbn; tauto))|].
  apply Forall_cons; [exact (print_conversion "ir.InstTrunc" "trunc" ltac:(cbn; tauto))|].
  apply Forall_cons; [exact (print_exact_binop "ir.InstUDiv" "udiv" ltac:(cbn; tauto))|].
  apply Forall_cons; [exact (print_conversion "ir.InstUIToFP" "uitofp" ltac:(cbn; tauto))|].
  apply Forall_cons; [exact (print_plain_binop "ir.InstURem" "urem" ltac:(cbn; tauto))|].
  apply Forall_cons; [exact @print_va_arg|].
  apply Forall_cons; [exact (print_plain_binop "ir.InstXor" "xor" ltac:(cbn; tauto))|].
  apply Forall_cons; [exact (print_conversion "ir.InstZExt" "zext" ltac:(cbn; tauto))|].
  apply Forall_cons; [exact @print_br|].
  apply Forall_cons; [exact @print_callbr|].
  apply Forall_cons; [exact @print_catchret|].
  apply Forall_cons; [exact @print_catchswitch|].
  apply Forall_cons; [exact @print_cleanupret|].
  apply Forall_cons; [exact @print_condbr|].
  apply Forall_cons; [exact @print_indirectbr|].
  apply Forall_cons; [exact @print_invoke|].
  apply Forall_cons; [exact @print_resume|].
  apply Forall_cons; [exact @print_ret|].
  apply Forall_cons; [exact @print_switch|].
  apply Forall_cons; [exact @print_unreachable|].
  apply Forall_nil.
Qed.

(* the kinds covered are all the kinds there are: every type of package ir named Inst... or Term... that has a
   regenerated LLString body *)
Definition covered_kinds : list string := [
  "ir.InstAShr";
  "ir.InstAdd";
  "ir.InstAddrSpaceCast";
  "ir.InstAlloca";
  "ir.InstAnd";
  "ir.InstAtomicRMW";
  "ir.InstBitCast";
  "ir.InstCall";
  "ir.InstCatchPad";
  "ir.InstCleanupPad";
  "ir.InstCmpXchg";
  "ir.InstExtractElement";
  "ir.InstExtractValue";
  "ir.InstFAdd";
  "ir.InstFCmp";
  "ir.InstFDiv";
  "ir.InstFMul";
  "ir.InstFNeg";
  "ir.InstFPExt";
  "ir.InstFPToSI";
  "ir.InstFPToUI";
  "ir.InstFPTrunc";
  "ir.InstFRem";
  "ir.InstFSub";
  "ir.InstFence";
  "ir.InstFreeze";
  "ir.InstGetElementPtr";
  "ir.InstICmp";
  "ir.InstInsertElement";
  "ir.InstInsertValue";
  "ir.InstIntToPtr";
  "ir.InstLShr";
  "ir.InstLandingPad";
  "ir.InstLoad";
  "ir.InstMul";
  "ir.InstOr";
  "ir.InstPhi";
  "ir.InstPtrToInt";
  "ir.InstSDiv";
  "ir.InstSExt";
  "ir.InstSIToFP";
  "ir.InstSRem";
  "ir.InstSelect";
  "ir.InstShl";
  "ir.InstShuffleVector";
  "ir.InstStore";
  "ir.InstSub";
  "ir.InstTrunc";
  "ir.InstUDiv";
  "ir.InstUIToFP";
  "ir.InstURem";
  "ir.InstVAArg";
  "ir.InstXor";
  "ir.InstZExt";
  "ir.TermBr";
  "ir.TermCallBr";
  "ir.TermCatchRet";
  "ir.TermCatchSwitch";
  "ir.TermCleanupRet";
  "ir.TermCondBr";
  "ir.TermIndirectBr";
  "ir.TermInvoke";
  "ir.TermResume";
  "ir.TermRet";
  "ir.TermSwitch";
  "ir.TermUnreachable"].

Definition starts_with (p s : string) : bool := String.eqb (substring 0 (String.length p) s) p.
Definition is_kind (p : printer) : bool :=
  String.eqb (p_method p) "LLString" && (starts_with "ir.Inst" (p_type p) || starts_with "ir.Term" (p_type p)).
Lemma statements_are_of_covered_kinds : map fst kind_statements = covered_kinds.
Proof. reflexivity. Qed.
Theorem covered_kinds_are_all_kinds : map p_type (filter is_kind printers) = covered_kinds.
Proof. vm_compute. reflexivity. Qed.

(* the name before the equals sign: an instruction embeds LocalIdent, whose regenerated Ident method writes the
   local name (quoted when needed) or the local number *)
Lemma local_ident_text g fuel name id unnamed :
  call_printer impl g (S fuel) "ir.LocalIdent" "Ident"
    (VObj "ir.LocalIdent" [("LocalName", VStr name); ("LocalID", VInt id); ("IsUnnamed()", VBool unnamed)])
  = Ok (VStr (if unnamed then local_id (Z.to_N id) else local_name name)).
Proof. destruct unnamed; enter; reflexivity. Qed.

(* the keywords behind the flag numbers, from the regenerated stringer tables *)
Lemma flag_keywords :
  map (enum_string "enum.OverflowFlag") [0; 1]%Z = map lit ["nsw"; "nuw"]
  /\ map (enum_string "enum.FastMathFlag") [0; 1; 2; 3; 4; 5; 6; 7]%Z = map lit ["afn"; "arcp"; "contract"; "fast"; "ninf"; "nnan"; "nsz"; "reassoc"]
  /\ map (enum_string "enum.Tail") [1; 2; 3]%Z = map lit ["musttail"; "notail"; "tail"]
  /\ map (enum_string "enum.AtomicOrdering") [1; 2; 4; 5; 6; 7]%Z = map lit ["unordered"; "monotonic"; "acquire"; "release"; "acq_rel"; "seq_cst"].
Proof. vm_compute. repeat split. Qed.

(* the shape on one line each: instances of the lemmas *)
Example add_line fuel :
  call_printer impl [] (S fuel) "ir.InstAdd" "LLString"
    (VObj "ir.InstAdd" [("Ident()", VStr (lit "%r")); ("X", value (lit "i32") (lit "%x")); ("Y", value (lit "i32") (lit "%y"));
                        ("OverflowFlags", VList (map (VEnum "enum.OverflowFlag") [1; 0]%Z)); ("Metadata", VList (map mdatt []))])
  = Ok (VStr (lit "%r = add nuw nsw i32 %x, %y")).
Proof. rewrite (print_overflow_binop "ir.InstAdd" "add") by (cbn; tauto). vm_compute. reflexivity. Qed.
Example load_line fuel :
  call_printer impl [] (S (S fuel)) "ir.InstLoad" "LLString"
    (VObj "ir.InstLoad" [("Ident()", VStr (lit "%v")); ("ElemType", atype (lit "i32")); ("Src", value (lit "i32*") (lit "%p"));
                         ("Atomic", VBool true); ("Volatile", VBool true); ("SyncScope", VStr (lit "agent"));
                         ("Ordering", VEnum "enum.AtomicOrdering" 7); ("Align", VEnum "ir.Align" 4); ("Metadata", VList (map mdatt [lit "!dbg !7"]))])
  = Ok (VStr (lit "%v = load atomic volatile i32, i32* %p syncscope(""agent"") seq_cst, align 4, !dbg !7")).
Proof. rewrite print_load. vm_compute. reflexivity. Qed.

Print Assumptions every_kind_prints_its_line.
Print Assumptions covered_kinds_are_all_kinds.
