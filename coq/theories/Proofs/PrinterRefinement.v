(* The hand-written model of how a type is written (Model/TypeString.v, the
   subject of C16's theorems) is what the code's own printers compute: the
   regenerated printer terms of Gen/Printers.v, run by Model/GoEval.v on the
   reified type, return ty_string.  So the string functions the C16 theorems
   are about are tied to the Go source by regeneration plus this proof. *)
From Coq Require Import List String ZArith NArith Bool Lia.
From Coq Require Import Strings.Byte.
From LLIR Require Import Lib.Bytes Lib.Radix Model.Enc Model.Types Model.TypeString Model.GoEval Gen.Printers.
Import ListNotations.
Open Scope string_scope.

Definition fkind_num (k : fkind) : Z :=
  match k with FHalf => 0 | FFloat => 1 | FDouble => 2 | FFP128 => 3 | FX86_FP80 => 4 | FPPC_FP128 => 5 end.

Definition tyname (t : ty) : string :=
  match t with
  | TVoid => "types.VoidType" | TMMX => "types.MMXType" | TLabel => "types.LabelType"
  | TToken => "types.TokenType" | TMetadata => "types.MetadataType"
  | TInt _ => "types.IntType" | TFloat _ => "types.FloatType" | TPtr _ _ => "types.PointerType"
  | TVec _ _ _ => "types.VectorType" | TArr _ _ => "types.ArrayType"
  | TStruct _ _ | TNamed _ => "types.StructType" | TFunc _ _ _ => "types.FuncType"
  end.

(* the fields of the Go object; an unnamed type has the empty TypeName *)
Fixpoint tfields (t : ty) : list (string * val) :=
  let obj (e : ty) := VObj (tyname e) (tfields e) in
  match t with
  | TVoid | TMMX | TLabel | TToken | TMetadata => [("TypeName", VStr [])]
  | TInt n => [("TypeName", VStr []); ("BitSize", VInt (Z.of_N n))]
  | TFloat k => [("TypeName", VStr []); ("Kind", VEnum "types.FloatKind" (fkind_num k))]
  | TPtr e a => [("TypeName", VStr []); ("ElemType", obj e); ("AddrSpace", VEnum "types.AddrSpace" (Z.of_N a))]
  | TVec s n e => [("TypeName", VStr []); ("Scalable", VBool s); ("Len", VInt (Z.of_N n)); ("ElemType", obj e)]
  | TArr n e => [("TypeName", VStr []); ("Len", VInt (Z.of_N n)); ("ElemType", obj e)]
  | TStruct p fs => [("TypeName", VStr []); ("Opaque", VBool false); ("Packed", VBool p); ("Fields", VList (map obj fs))]
  | TNamed n => [("TypeName", VStr n); ("Opaque", VBool false); ("Packed", VBool false); ("Fields", VNil)]
  | TFunc r ps v => [("TypeName", VStr []); ("RetType", obj r); ("Params", VList (map obj ps)); ("Variadic", VBool v)]
  end.
Definition reify_ty (t : ty) : val := VObj (tyname t) (tfields t).

Definition impl (_ _ : string) : bool := false.
Definition run (fuel : nat) (t : ty) : res val := call_printer impl [] fuel (tyname t) "String" (reify_ty t).

(* sanity: the generated printers on concrete types *)
Example run_examples :
  run 9 (TPtr (TStruct false [TInt 32; TPtr (TInt 8) 3; TVec true 4 (TFloat FDouble)]) 0)
    = Ok (VStr (ty_string (TPtr (TStruct false [TInt 32; TPtr (TInt 8) 3; TVec true 4 (TFloat FDouble)]) 0)))
  /\ run 9 (TFunc TVoid [TInt 1; TNamed (lit "opaque.t")] true) = Ok (VStr (ty_string (TFunc TVoid [TInt 1; TNamed (lit "opaque.t")] true)))
  /\ run 9 (TArr 0 (TStruct true [])) = Ok (VStr (ty_string (TArr 0 (TStruct true [])))).
Proof. vm_compute. repeat split. Qed.

Example run_float_kinds : forallb (fun k => match run 4 (TFloat k) with Ok (VStr b) => bytes_eqb b (ty_string (TFloat k)) | _ => false end)
  [FHalf; FFloat; FDouble; FX86_FP80; FFP128; FPPC_FP128] = true.
Proof. vm_compute. reflexivity. Qed.

(* ---- the general statement ---- *)
Fixpoint depth (t : ty) : nat :=
  match t with
  | TPtr e _ | TVec _ _ e | TArr _ e => S (depth e)
  | TStruct _ fs => S (fold_right (fun e m => Nat.max (depth e) m) 0 fs)
  | TFunc r ps _ => S (Nat.max (depth r) (fold_right (fun e m => Nat.max (depth e) m) 0 ps))
  | _ => 0
  end.

Lemma no_string_field t : lookup "String()" (tfields t) = None.
Proof. destruct t; reflexivity. Qed.
Lemma no_llstring_field t : lookup "LLString()" (tfields t) = None.
Proof. destruct t; reflexivity. Qed.

Lemma print_Z_of_N n : print_Z (Z.of_N n) = print_dec_N n.
Proof. destruct n; reflexivity. Qed.

Local Arguments call_printer : simpl never.
Local Arguments print_Z : simpl never.
Local Arguments print_dec_N : simpl never.
Local Arguments ty_string : simpl never.
Local Arguments type_name : simpl never.
Local Arguments app : simpl nomatch.

Lemma call_printer_S implements globals f ty m recv :
  call_printer implements globals (S f) ty m recv =
  match find_printer ty m with
  | Some p => run_body implements (call_printer implements globals f) globals p recv
  | None => Fail ("no printer " ++ ty ++ "." ++ m)
  end.
Proof. reflexivity. Qed.

Ltac step_call :=
  rewrite call_printer_S;
  match goal with
  | |- context [find_printer ?t ?m] =>
    let r := eval vm_compute in (find_printer t m) in
    replace (find_printer t m) with r by (vm_compute; reflexivity)
  end;
  unfold run_body.

(* ---- range loops that write a separator before every element but the first ---- *)
Local Arguments for_loop : simpl never.
Local Arguments truncate : simpl nomatch.

Lemma truncate_same {A} (l : list A) : truncate (List.length l) l = l.
Proof. unfold truncate. rewrite Nat.sub_diag. reflexivity. Qed.

Lemma truncate_loop_env k v i x (en : env) : truncate (List.length en) (loop_env k v i x en) = en.
Proof.
  unfold truncate, loop_env. rewrite !app_length.
  replace (List.length (if String.eqb v "_" then [] else [(v, x)]) + (List.length (if String.eqb k "_" then [] else [(k, VInt i)]) + List.length en) - List.length en)
    with (List.length ((if String.eqb v "_" then [] else [(v, x)]) ++ (if String.eqb k "_" then [] else [(k, VInt i)]))%list) by (rewrite app_length; lia).
  rewrite app_assoc. rewrite skipn_app, skipn_all, Nat.sub_diag. reflexivity.
Qed.

Fixpoint seps (sep : bytes) (g : val -> bytes) (i : Z) (l : list val) : bytes :=
  match l with
  | [] => []
  | x :: r => ((if (i =? 0)%Z then [] else sep) ++ g x ++ seps sep g (i + 1) r)%list
  end.

Lemma for_loop_sep body k v sep g l : forall i en buf, (0 <= i)%Z ->
  (forall x j en buf, In x l -> (0 <= j)%Z ->
     body (loop_env k v j x en) buf = Ok (loop_env k v j x en, (buf ++ (if (j =? 0)%Z then [] else sep) ++ g x)%list, Run)) ->
  for_loop body k v l i en buf = Ok (en, (buf ++ seps sep g i l)%list, Run).
Proof.
  induction l as [|x r IH]; intros i en buf Hi Hb.
  - unfold for_loop. cbn [seps]. rewrite app_nil_r. reflexivity.
  - unfold for_loop; fold for_loop. rewrite (Hb x i en buf (or_introl eq_refl) Hi). rewrite truncate_loop_env.
    rewrite IH; [|lia|intros y j en' buf' Hy Hj; apply Hb; [right; exact Hy|exact Hj]].
    cbn [seps]. rewrite <- !app_assoc. reflexivity.
Qed.

Lemma seps_pos (g : val -> bytes) (f : ty -> val) (h : ty -> bytes) r : (forall e, In e r -> g (f e) = h e) ->
  forall i, (0 < i)%Z -> seps (lit ", ") g i (map f r) = match r with [] => [] | _ => (lit ", " ++ join (map h r))%list end.
Proof.
  induction r as [|y r0 IH]; intros Hg i Hi; [reflexivity|]. cbn [map seps].
  assert ((i =? 0)%Z = false) as -> by (apply Z.eqb_neq; lia). rewrite (Hg y (or_introl eq_refl)).
  rewrite (IH (fun e He => Hg e (or_intror He)) (i + 1)%Z) by lia.
  destruct r0; cbn [map join]; rewrite ?app_nil_r; reflexivity.
Qed.
Lemma seps_join (g : val -> bytes) (f : ty -> val) (h : ty -> bytes) l :
  (forall e, In e l -> g (f e) = h e) ->
  seps (lit ", ") g 0 (map f l) = join (map h l).
Proof.
  intros Hg. destruct l as [|x r]; [reflexivity|]. cbn [map seps Z.eqb]. rewrite (Hg x (or_introl eq_refl)).
  rewrite (seps_pos g f h r (fun e He => Hg e (or_intror He)) (0 + 1)%Z) by lia.
  cbn [app]. destruct r; cbn [map join]; rewrite ?app_nil_r; reflexivity.
Qed.

Ltac norm := unfold lit; cbn; repeat (rewrite <- app_assoc; cbn); try reflexivity.
Ltac finish := unfold ty_string, addrspace_string; fold ty_string; norm.

Lemma addrspace_call f a :
  call_printer impl [] (S f) "types.AddrSpace" "String" (VEnum "types.AddrSpace" (Z.of_N a))
  = Ok (VStr (lit "addrspace(" ++ print_dec_N a ++ lit ")")%list).
Proof. step_call. cbn. rewrite print_Z_of_N. norm. Qed.

Section Step.
  Variable fuel : nat.
  Let F := S fuel.

  Lemma step_leaf t : match t with TVoid | TMMX | TLabel | TToken | TMetadata => True | _ => False end ->
    call_printer impl [] (S (S F)) (tyname t) "String" (reify_ty t) = Ok (VStr (ty_string t)).
  Proof. destruct t; intros []; vm_compute; reflexivity. Qed.

  Lemma step_int n : call_printer impl [] (S (S F)) "types.IntType" "String" (reify_ty (TInt n)) = Ok (VStr (ty_string (TInt n))).
  Proof. step_call. cbn. step_call. cbn. rewrite print_Z_of_N. finish. Qed.

  Lemma step_float k : call_printer impl [] (S (S F)) "types.FloatType" "String" (reify_ty (TFloat k)) = Ok (VStr (ty_string (TFloat k))).
  Proof. destruct k; vm_compute; reflexivity. Qed.

  Lemma step_named n : n <> [] ->
    call_printer impl [] (S (S F)) "types.StructType" "String" (reify_ty (TNamed n)) = Ok (VStr (ty_string (TNamed n))).
  Proof.
    intros Hn. step_call. destruct n as [|b n]; [contradiction|]. cbn. finish.
  Qed.

  Lemma step_vec s n e :
    call_printer impl [] F (tyname e) "String" (reify_ty e) = Ok (VStr (ty_string e)) ->
    call_printer impl [] (S (S F)) "types.VectorType" "String" (reify_ty (TVec s n e)) = Ok (VStr (ty_string (TVec s n e))).
  Proof.
    intros IH. step_call. cbn. step_call. destruct s; cbn; rewrite no_string_field; fold (reify_ty e); rewrite IH; cbn; rewrite print_Z_of_N; finish.
  Qed.

  Lemma step_arr n e :
    call_printer impl [] F (tyname e) "String" (reify_ty e) = Ok (VStr (ty_string e)) ->
    call_printer impl [] (S (S F)) "types.ArrayType" "String" (reify_ty (TArr n e)) = Ok (VStr (ty_string (TArr n e))).
  Proof.
    intros IH. step_call. cbn. step_call. cbn. rewrite no_string_field. fold (reify_ty e). rewrite IH. cbn. rewrite print_Z_of_N. finish.
  Qed.

  Lemma step_ptr e a :
    call_printer impl [] F (tyname e) "String" (reify_ty e) = Ok (VStr (ty_string e)) ->
    call_printer impl [] (S (S F)) "types.PointerType" "String" (reify_ty (TPtr e a)) = Ok (VStr (ty_string (TPtr e a))).
  Proof.
    intros IH. step_call. cbn. step_call. cbn. rewrite no_string_field. fold (reify_ty e). rewrite IH. cbn.
    unfold F at 1. rewrite addrspace_call.
    destruct (N.eqb_spec a 0) as [->|Ha].
    - cbn. finish.
    - assert ((Z.of_N a =? 0)%Z = false) as -> by (apply Z.eqb_neq; lia). cbn.
      assert (N.eqb a 0 = false) as Hb by (apply N.eqb_neq; exact Ha).
      unfold ty_string; fold ty_string. unfold addrspace_string. rewrite Hb. norm.
  Qed.

  (* the text of one reified component, as the loop body obtains it *)
  Definition text_of (x : val) : bytes :=
    match x with
    | VObj ty _ => match call_printer impl [] F ty "String" x with Ok (VStr b) => b | _ => [] end
    | _ => []
    end.

  Definition obj (e : ty) : val := VObj (tyname e) (tfields e).
  Lemma text_of_obj e : call_printer impl [] F (tyname e) "String" (reify_ty e) = Ok (VStr (ty_string e)) -> text_of (obj e) = ty_string e.
  Proof. intros H. unfold text_of, obj. fold (reify_ty e). rewrite H. reflexivity. Qed.

  (* the body of  for i, x := range xs { if i != 0 { write ", " }; write x.String() }  on a reified component *)
  Ltac elem_body IH :=
    let x := fresh "x" in let j := fresh "j" in let en := fresh "en" in let buf := fresh "buf" in
    let Hx := fresh "Hx" in let Hj := fresh "Hj" in let e := fresh "e" in let He := fresh "He" in
    intros x j en buf Hx Hj; apply in_map_iff in Hx; destruct Hx as (e & <- & He);
    fold (obj e); rewrite (text_of_obj e (IH e He)); rewrite !truncate_same; unfold loop_env, obj; cbn;
    destruct (j =? 0)%Z; cbn; rewrite no_string_field; fold (reify_ty e); rewrite (IH e He); cbn;
    rewrite Nat.sub_diag; cbn [skipn]; rewrite <- ?app_assoc; reflexivity.

  Lemma step_struct p fs :
    Forall (fun e => call_printer impl [] F (tyname e) "String" (reify_ty e) = Ok (VStr (ty_string e))) fs ->
    call_printer impl [] (S (S F)) "types.StructType" "String" (reify_ty (TStruct p fs)) = Ok (VStr (ty_string (TStruct p fs))).
  Proof.
    intros IH. rewrite Forall_forall in IH. step_call. cbn. step_call. destruct fs as [|f0 fs'].
    - destruct p; vm_compute; reflexivity.
    - remember (f0 :: fs') as fs eqn:Efs. cbn.
      assert ((Z.of_nat (List.length (map (fun e : ty => VObj (tyname e) (tfields e)) fs)) =? 0)%Z = false) as ->.
      { subst fs. cbn [map List.length]. apply Z.eqb_neq. lia. }
      destruct p; cbn;
        (erewrite (for_loop_sep _ "i" "field" (lit ", ") text_of); [|lia|elem_body IH]);
        cbn; fold obj; rewrite (seps_join text_of obj ty_string) by (intros e He; apply text_of_obj, IH, He);
        unfold ty_string at 2; fold ty_string; subst fs; norm.
  Qed.

  Lemma step_func r ps v :
    call_printer impl [] F (tyname r) "String" (reify_ty r) = Ok (VStr (ty_string r)) ->
    Forall (fun e => call_printer impl [] F (tyname e) "String" (reify_ty e) = Ok (VStr (ty_string e))) ps ->
    call_printer impl [] (S (S F)) "types.FuncType" "String" (reify_ty (TFunc r ps v)) = Ok (VStr (ty_string (TFunc r ps v))).
  Proof.
    intros IHr IH. rewrite Forall_forall in IH. step_call. cbn. step_call. cbn.
    rewrite no_string_field. fold (reify_ty r). rewrite IHr. cbn.
    erewrite (for_loop_sep _ "i" "param" (lit ", ") text_of); [|lia|elem_body IH].
    cbn. fold obj. rewrite (seps_join text_of obj ty_string) by (intros e He; apply text_of_obj, IH, He).
    unfold ty_string at 4; fold ty_string.
    destruct v; [destruct ps as [|p0 ps']|]; cbn; norm.
  Qed.
End Step.

(* named struct types have a name (a struct type without one is a literal type) *)
Fixpoint wf_names (t : ty) : Prop :=
  match t with
  | TNamed n => n <> []
  | TPtr e _ | TVec _ _ e | TArr _ e => wf_names e
  | TStruct _ fs => (fix all (l : list ty) : Prop := match l with [] => True | x :: r => wf_names x /\ all r end) fs
  | TFunc r ps _ => wf_names r /\ (fix all (l : list ty) : Prop := match l with [] => True | x :: r => wf_names x /\ all r end) ps
  | _ => True
  end.

Lemma depth_in e l : In e l -> depth e <= fold_right (fun e m => Nat.max (depth e) m) 0 l.
Proof. induction l as [|x r IH]; intros H; [contradiction|]. cbn [fold_right]. destruct H as [->|H]; [lia|specialize (IH H); lia]. Qed.

(* ---- the refinement: the code's printers, run on the reified type, return the model's string ---- *)
Theorem generated_printer_is_ty_string : forall t, wf_names t -> forall extra,
  call_printer impl [] (2 * depth t + 3 + extra) (tyname t) "String" (reify_ty t) = Ok (VStr (ty_string t)).
Proof.
  fix IH 1. intros t Hwf extra.
  assert (forall d, 2 * S d + 3 + extra = S (S (S (2 * d + 2 + extra)))) as Shape by (intros; lia).
  assert (forall e d, depth e <= d -> wf_names e ->
            call_printer impl [] (S (2 * d + 2 + extra)) (tyname e) "String" (reify_ty e) = Ok (VStr (ty_string e))) as Sub.
  { intros e d Hd He. replace (S (2 * d + 2 + extra)) with (2 * depth e + 3 + (2 * (d - depth e) + extra)) by lia. apply IH. exact He. }
  destruct t; cbn [depth].
  1-5: replace (2 * 0 + 3 + extra) with (S (S (S extra))) by lia; apply step_leaf; exact I.
  - replace (2 * 0 + 3 + extra) with (S (S (S extra))) by lia. apply step_int.
  - replace (2 * 0 + 3 + extra) with (S (S (S extra))) by lia. apply step_float.
  - rewrite Shape. apply step_ptr. apply Sub; [lia|exact Hwf].
  - rewrite Shape. apply step_vec. apply Sub; [lia|exact Hwf].
  - rewrite Shape. apply step_arr. apply Sub; [lia|exact Hwf].
  - rewrite Shape. apply step_struct. cbn [wf_names] in Hwf.
    set (d := fold_right (fun e m => Nat.max (depth e) m) 0 fields).
    assert (forall e, In e fields -> depth e <= d) as Hd by (intros e He; apply depth_in, He).
    clearbody d. clear Shape. induction fields as [|x r IHr]; constructor.
    + apply Sub; [apply Hd; left; reflexivity|apply Hwf].
    + apply IHr; [apply Hwf|intros e He; apply Hd; right; exact He].
  - replace (2 * 0 + 3 + extra) with (S (S (S extra))) by lia. apply step_named. exact Hwf.
  - rewrite Shape. cbn [wf_names] in Hwf. destruct Hwf as [Hr Hps]. apply step_func.
    + apply Sub; [lia|exact Hr].
    + set (d := Nat.max (depth t) (fold_right (fun e m => Nat.max (depth e) m) 0 params)).
      assert (forall e, In e params -> depth e <= d) as Hd by (intros e He; pose proof (depth_in e params He); lia).
      assert (forall e dd, depth e <= dd -> wf_names e ->
                call_printer impl [] (S (2 * dd + 2 + extra)) (tyname e) "String" (reify_ty e) = Ok (VStr (ty_string e))) as Sub' by exact Sub.
      clearbody d. clear Shape Sub Hr. induction params as [|x r IHr]; constructor.
      * apply Sub'; [apply Hd; left; reflexivity|apply Hps].
      * apply IHr; [apply Hps|intros e He; apply Hd; right; exact He].
Qed.

Corollary generated_printer_run t : wf_names t -> run (2 * depth t + 3) t = Ok (VStr (ty_string t)).
Proof. intros H. unfold run. rewrite <- (Nat.add_0_r (2 * depth t + 3)). apply generated_printer_is_ty_string, H. Qed.
Print Assumptions generated_printer_is_ty_string.
