From Coq Require Import List Bool Arith Lia.
From LLIR Require Import Lib.Bytes Model.Writer.
Import ListNotations.

Section WriterProofs.
  Variable W : Type.
  Variable write : W -> bytes -> W * nat * bool.
  (* the io.Writer contract: 0 <= n <= len(p), and n < len(p) implies err != nil *)
  Hypothesis write_contract : forall w p, let '(_, n, failed) := write w p in
    n <= length p /\ (n < length p -> failed = true).

  Notation fw_print := (fw_print W write).
  Notation run := (run W write).

  (* invariant of the printing loop, relative to the text printed so far *)
  Record inv (printed : bytes) (s : fw W) : Prop := {
    inv_size : fw_size W s = length (fw_delivered W s);
    inv_prefix : exists rest, printed = fw_delivered W s ++ rest;
    inv_noerr : fw_err W s = None -> fw_delivered W s = printed;
  }.

  Lemma inv_step printed s p : inv printed s -> inv (printed ++ p) (fw_print s p).
  Proof.
    intros [Hs [rest Hp] Hn]. unfold Writer.fw_print.
    destruct (fw_err W s) eqn:E.
    - split; [assumption | exists (rest ++ p); rewrite Hp, app_assoc; reflexivity | congruence].
    - specialize (Hn eq_refl). pose proof (write_contract (fw_w W s) p) as C.
      destruct (write (fw_w W s) p) as [[w' n] failed]. destruct C as [C1 C2]. cbn.
      split; cbn.
      + rewrite app_length, firstn_length_le by exact C1. lia.
      + exists (skipn n p). rewrite Hn, <- app_assoc, firstn_skipn. reflexivity.
      + destruct failed; [discriminate|]. intros _.
        assert (n = length p) as -> by (destruct (Nat.lt_ge_cases n (length p)) as [L|L]; [specialize (C2 L); discriminate | lia]).
        rewrite firstn_all, Hn. reflexivity.
  Qed.

  Lemma inv_run chunks : forall s printed, inv printed s ->
    inv (printed ++ concat chunks) (fold_left fw_print chunks s).
  Proof.
    induction chunks as [|p r IH]; intros s printed H; cbn [fold_left concat].
    - rewrite app_nil_r. exact H.
    - rewrite app_assoc. apply IH. apply inv_step. exact H.
  Qed.

  (* after the first error no Write call is issued and nothing changes *)
  Lemma latched s p e : fw_err W s = Some e -> fw_print s p = s.
  Proof. intros H. unfold Writer.fw_print. rewrite H. reflexivity. Qed.

  Lemma latched_run chunks : forall s e, fw_err W s = Some e -> fold_left fw_print chunks s = s.
  Proof. induction chunks as [|p r IH]; intros s e H; cbn; [reflexivity|]. rewrite (latched s p e H). eauto. Qed.

  (* C19: the io.WriterTo contract of Module.WriteTo, for every chunking of the
     text and every writer that obeys io.Writer *)
  Theorem write_to_contract w chunks :
    let s := run w chunks in
    let text := concat chunks in
    fw_size W s = length (fw_delivered W s)
    /\ fw_delivered W s = firstn (fw_size W s) text
    /\ (fw_err W s = None -> fw_delivered W s = text).
  Proof.
    cbn zeta. assert (inv [] (fw_init W w)) as H0.
    { split; cbn; [reflexivity | exists []; reflexivity | reflexivity]. }
    pose proof (inv_run chunks _ _ H0) as [Hs [rest Hp] Hn]. cbn [app] in *.
    fold (run w chunks) in *. repeat split; try assumption.
    rewrite Hs, Hp, firstn_app, Nat.sub_diag, firstn_all. cbn. rewrite app_nil_r. reflexivity.
  Qed.

  (* the error reported is the first one, and the call count stops there *)
  Theorem no_write_after_error w pre p post e :
    fw_err W (run w (pre ++ [p])) = Some e ->
    run w (pre ++ [p] ++ post) = run w (pre ++ [p]).
  Proof.
    intros H. unfold Writer.run in *. rewrite app_assoc, fold_left_app.
    eapply latched_run. exact H.
  Qed.
End WriterProofs.
Print Assumptions write_to_contract.
