From Coq Require Import List Bool Arith Lia.
From LLIR Require Import Lib.Bytes Model.Writer.
Import ListNotations.

Section WriterProofs.
  Variable W : Type.
  Variable write : W -> bytes -> W * nat * bool.
  (* the io.Writer contract: 0 <= n <= len(p), and n < len(p) implies err != nil *)
  Hypothesis write_contract : forall w p, let '(_, n, failed) := write w p in
    n <= length p /\ (n < length p -> failed = true).

  Notation fw_print := (fw_print W write).
  Notation run := (run W write).

  (* invariant of the printing loop, relative to the text printed so far *)
  Record inv (printed : bytes) (s : fw W) : Prop := {
    inv_size : fw_size W s = length (fw_delivered W s);
    inv_prefix : exists rest, printed = fw_delivered W s ++ rest;
    inv_noerr : fw_err W s = None -> fw_delivered W s = printed;
  }.

  Lemma inv_step printed s p : inv printed s -> inv (printed ++ p) (fw_print s p).
  Proof.
    intros [Hs [rest Hp] Hn]. unfold Writer.fw_print.
    destruct (fw_err W s) eqn:E.
    - split; [assumption | exists (rest ++ p); rewrite Hp, app_assoc; reflexivity | congruence].
    - specialize (Hn eq_refl). pose proof (write_contract (fw_w W s) p) as C.
      destruct (write (fw_w W s) p) as [[w' n] failed]. destruct C as [C1 C2]. cbn.
      split; cbn.
      + rewrite app_length, firstn_length_le by exact C1. lia.
      + exists (skipn n p). rewrite Hn, <- app_assoc, firstn_skipn. reflexivity.
      + destruct failed; [discriminate|]. intros _.
        assert (n = length p) as -> by (destruct (Nat.lt_ge_cases n (length p)) as [L|L]; [specialize (C2 L); discriminate | lia]).
        rewrite firstn_all, Hn. reflexivity.
  Qed.

  Lemma inv_run chunks : forall s printed, inv printed s ->
    inv (printed ++ concat chunks) (fold_left fw_print chunks s).
  Proof.
    induction chunks as [|p r IH]; intros s printed H; cbn [fold_left concat].
    - rewrite app_nil_r. exact H.
    - rewrite app_assoc. apply IH. apply inv_step. exact H.
  Qed.

  (* after the first error no Write call is issued and nothing changes *)
  Lemma latched s p e : fw_err W s = Some e -> fw_print s p = s.
  Proof. intros H. unfold Writer.fw_print. rewrite H. reflexivity. Qed.

  Lemma latched_run chunks : forall s e, fw_err W s = Some e -> fold_left fw_print chunks s = s.
  Proof. induction chunks as [|p r IH]; intros s e H; cbn; [reflexivity|]. rewrite (latched s p e H). eauto. Qed.

  (* C19: the io.WriterTo contract of Module.WriteTo, for every chunking of the
     text and every writer that obeys io.Writer *)
  Theorem write_to_contract w chunks :
    let s := run w chunks in
    let text := concat chunks in
    fw_size W s = length (fw_delivered W s)
    /\ fw_delivered W s = firstn (fw_size W s) text
    /\ (fw_err W s = None -> fw_delivered W s = text).
  Proof.
    cbn zeta. assert (inv [] (fw_init W w)) as H0.
    { split; cbn; [reflexivity | exists []; reflexivity | reflexivity]. }
    pose proof (inv_run chunks _ _ H0) as [Hs [rest Hp] Hn]. cbn [app] in *.
    fold (run w chunks) in *. repeat split; try assumption.
    rewrite Hs, Hp, firstn_app, Nat.sub_diag, firstn_all. cbn. rewrite app_nil_r. reflexivity.
  Qed.

  (* the error reported is the first one, and the call count stops there *)
  Theorem no_write_after_error w pre p post e :
    fw_err W (run w (pre ++ [p])) = Some e ->
    run w (pre ++ [p] ++ post) = run w (pre ++ [p]).
  Proof.
    intros H. unfold Writer.run in *. rewrite app_assoc, fold_left_app.
    eapply latched_run. exact H.
  Qed.
End WriterProofs.
Print Assumptions write_to_contract.

(* ---- size-dependent items: the run against any contract-obeying writer delivers a prefix of the
   text the same items give on an all-accepting writer ---- *)
Section WriterItemsProofs.
  Variable W : Type.
  Variable write : W -> bytes -> W * nat * bool.
  Hypothesis write_contract : forall w p, let '(_, n, failed) := write w p in
    n <= length p /\ (n < length p -> failed = true).
  Notation fw_item := (fw_item W write).

  (* while no error is latched the state mirrors the buffer run; once one is latched nothing changes *)
  Lemma items_run items : forall s printed,
    fw_size W s = length (fw_delivered W s) ->
    (fw_err W s = None -> fw_delivered W s = printed) ->
    (exists rest, text_of printed items = fw_delivered W s ++ rest) ->
    let s' := fold_left fw_item items s in
    fw_size W s' = length (fw_delivered W s')
    /\ (exists rest, text_of printed items = fw_delivered W s' ++ rest)
    /\ (fw_err W s' = None -> fw_delivered W s' = text_of printed items).
  Proof.
    induction items as [|i r IH]; intros s printed Hs Hn Hp; cbn [fold_left text_of].
    - cbn zeta. split; [exact Hs|]. split; [exact Hp|]. exact Hn.
    - destruct (fw_err W s) as [e|] eqn:E.
      + (* latched: nothing is written any more *)
        assert (forall l, fold_left fw_item l s = s) as L.
        { induction l as [|j l IHl]; cbn [fold_left]; [reflexivity|].
          assert (fw_item s j = s) as ->; [|exact IHl].
          destruct j; cbn [Writer.fw_item]; [apply (latched W write s p e E)|].
          destruct (Nat.ltb 0 (fw_size W s)); [apply (latched W write s p e E)|reflexivity]. }
        assert (fw_item s i = s) as -> by (apply (L [i])). rewrite L. cbn zeta.
        split; [exact Hs|]. split; [|rewrite E; discriminate].
        (* the delivered bytes are a prefix of printed, hence of the final text *)
        destruct Hp as [rest Hp]. exists rest. exact Hp.
      + specialize (Hn eq_refl).
        assert (forall p, let s1 := fw_print W write s p in
                  fw_size W s1 = length (fw_delivered W s1)
                  /\ (fw_err W s1 = None -> fw_delivered W s1 = printed ++ p)
                  /\ exists q, printed ++ p = fw_delivered W s1 ++ q) as Step.
        { intros p. cbn zeta. unfold Writer.fw_print. rewrite E.
          pose proof (write_contract (fw_w W s) p) as C.
          destruct (write (fw_w W s) p) as [[w' n] failed]. destruct C as [C1 C2]. cbn.
          split; [rewrite app_length, firstn_length_le by exact C1; lia|]. split.
          - destruct failed; [discriminate|]. intros _.
            assert (n = length p) as -> by (destruct (Nat.lt_ge_cases n (length p)) as [L|L]; [specialize (C2 L); discriminate | lia]).
            rewrite firstn_all, Hn. reflexivity.
          - exists (skipn n p). rewrite Hn, <- app_assoc, firstn_skipn. reflexivity. }
        assert (forall l p' q, p' = q -> exists rest, text_of p' l = q ++ rest) as Pref.
        { induction l as [|j l IHl]; intros p' q ->; cbn [text_of]; [exists []; rewrite app_nil_r; reflexivity|].
          destruct j.
          - destruct (IHl (q ++ p) (q ++ p) eq_refl) as [rest R]. exists (p ++ rest). rewrite R, app_assoc. reflexivity.
          - destruct (Nat.ltb 0 (length q)); [|apply IHl; reflexivity].
            destruct (IHl (q ++ p) (q ++ p) eq_refl) as [rest R]. exists (p ++ rest). rewrite R, app_assoc. reflexivity. }
        assert (forall l p' d q, p' = d ++ q -> exists rest, text_of p' l = d ++ rest) as Pref2.
        { intros l p' d q ->. destruct (Pref l (d ++ q) (d ++ q) eq_refl) as [rest R]. exists (q ++ rest). rewrite R, app_assoc. reflexivity. }
        destruct i as [p|p]; cbn [Writer.fw_item].
        * destruct (Step p) as (S1 & S2 & [q S3]). apply IH; [exact S1|exact S2|]. eapply Pref2. exact S3.
        * rewrite Hs, Hn. cbn [text_of] in Hp. destruct (Nat.ltb 0 (length printed)) eqn:L.
          -- destruct (Step p) as (S1 & S2 & [q S3]). apply IH; [exact S1|exact S2|]. eapply Pref2. exact S3.
          -- apply IH; [exact Hs|intros _; exact Hn|exact Hp].
  Qed.

  Theorem write_to_items_contract w items :
    let s := run_items W write w items in
    let text := text_of [] items in
    fw_size W s = length (fw_delivered W s)
    /\ fw_delivered W s = firstn (fw_size W s) text
    /\ (fw_err W s = None -> fw_delivered W s = text).
  Proof.
    cbn zeta. unfold run_items.
    assert (fw_size W (fw_init W w) = length (fw_delivered W (fw_init W w))) as A1 by reflexivity.
    assert (fw_err W (fw_init W w) = None -> fw_delivered W (fw_init W w) = []) as A2 by (intros _; reflexivity).
    assert (exists rest, text_of [] items = fw_delivered W (fw_init W w) ++ rest) as A3 by (exists (text_of [] items); reflexivity).
    destruct (items_run items (fw_init W w) [] A1 A2 A3) as (H1 & [rest H2] & H3).
    split; [exact H1|]. split; [|exact H3].
    rewrite H1, H2, firstn_app, Nat.sub_diag, firstn_all. cbn. rewrite app_nil_r. reflexivity.
  Qed.
End WriterItemsProofs.

(* the failing writers of the correspondence leg obey the io.Writer contract *)
Lemma fail_after_contract k : forall w p, let '(_, n, failed) := fail_after k w p in
  n <= length p /\ (n < length p -> failed = true).
Proof.
  intros w p. unfold fail_after. destruct (Nat.leb_spec (w + length p) k); cbn; split; try lia; reflexivity.
Qed.

(* a writer failing after k bytes receives exactly the first k bytes of the text *)
Theorem fail_after_delivers_prefix k items :
  let s := run_items nat (fail_after k) 0 items in
  let text := text_of [] items in
  fw_delivered nat s = firstn (fw_size nat s) text /\ fw_size nat s <= k
  /\ (fw_err nat s = None -> fw_delivered nat s = text).
Proof.
  cbn zeta. destruct (write_to_items_contract nat (fail_after k) (fail_after_contract k) 0 items) as (H1 & H2 & H3).
  split; [exact H2|]. split; [|exact H3].
  (* the writer state is the number of bytes accepted and never exceeds k *)
  unfold run_items.
  assert (forall l s, fw_w nat s = fw_size nat s -> fw_size nat s <= k ->
            let s' := fold_left (Writer.fw_item nat (fail_after k)) l s in fw_w nat s' = fw_size nat s' /\ fw_size nat s' <= k) as G.
  { induction l as [|i l IHl]; intros s Hw Hk; cbn [fold_left]; [split; assumption|].
    assert (fw_w nat (fw_print nat (fail_after k) s (match i with Always p | IfNonEmpty p => p end)) =
            fw_size nat (fw_print nat (fail_after k) s (match i with Always p | IfNonEmpty p => p end))
            /\ fw_size nat (fw_print nat (fail_after k) s (match i with Always p | IfNonEmpty p => p end)) <= k) as [A B].
    { generalize (match i with Always p | IfNonEmpty p => p end). intros q.
      unfold Writer.fw_print. destruct (fw_err nat s); [split; assumption|]. unfold fail_after. rewrite Hw.
      destruct (Nat.leb_spec (fw_size nat s + length q) k); cbn [fw_w fw_size]; split; lia. }
    destruct i as [p|p]; cbn [Writer.fw_item].
    - apply IHl; assumption.
    - destruct (Nat.ltb 0 (fw_size nat s)); apply IHl; assumption. }
  apply (G items (fw_init nat 0)); cbn; lia.
Qed.
Print Assumptions write_to_items_contract.
Print Assumptions fail_after_delivers_prefix.
