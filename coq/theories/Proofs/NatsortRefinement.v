(* internal/natsort.Less, regenerated from the Go source into Gen/Printers.v (natsort_bodies) and run by
   Model/GoEval.v on two strings, computes the hand-written model Model/Natsort.less -- for every pair of
   strings.  The index loops of the Go code (idx1, idx2 walking over str1, str2) are related to the structural
   recursion of the model over suffixes: index i of string a stands for the suffix skipn i a. *)
From Coq Require Import List String ZArith NArith Bool Arith Lia.
From Coq Require Import Strings.Byte.
From LLIR Require Import Lib.Bytes Model.Natsort Model.GoEval Gen.Printers Proofs.NatsortProofs.
Import ListNotations.
Open Scope string_scope.

(* no interface types are involved *)
Definition no_impl : string -> string -> bool := fun _ _ => false.

(* the rounds every loop of the body may take: each round but the last one of a loop consumes a byte *)
Definition loop_fuel (a b : bytes) : nat := S (List.length a + List.length b).
Definition fuel_env (n : nat) : env := [(loop_fuel_var, VInt (Z.of_nat n))].

(* Less(a, b): the regenerated body, its call of isdigit running the regenerated isdigit *)
Definition run_less (a b : bytes) : res val :=
  call_table natsort_bodies no_impl (fuel_env (loop_fuel a b)) 2 "" "natsort.Less" (VTuple [VStr a; VStr b]).

Definition bs (s : string) : bytes := bytes_of_string s.
Example less_examples :
  Forall (fun p => run_less (bs (fst p)) (bs (snd p)) = GoEval.Ok (VBool (Natsort.less (bs (fst p)) (bs (snd p)))))
    [("", ""); ("", "a"); ("a", ""); ("abc2", "abc12"); ("abc12", "abc2"); ("2", "02"); ("02", "2"); ("a01b", "a1b");
     ("a1b", "a01b"); ("a1", "a1"); ("x9y", "x10"); ("a", "b"); ("b", "a"); ("a0", "a"); ("a00", "a0"); ("a12b3", "a12b03");
     ("10", "9"); ("1a", "1b"); ("007", "07"); ("0", "00"); ("a:", "a0"); ("a/", "a0")].
Proof. repeat (constructor; [vm_compute; reflexivity|]). constructor. Qed.

(* ---- the generated bodies and their parts ---- *)
Definition less_body : list gstmt :=
  Eval vm_compute in match find_in natsort_bodies "" "natsort.Less" with Some p => p_body p | None => [] end.
Definition isdigit_body : list gstmt :=
  Eval vm_compute in match find_in natsort_bodies "" "isdigit" with Some p => p_body p | None => [] end.
Definition outer_cond : gexpr := Eval vm_compute in match nth 1 less_body SStop with SWhile c _ _ => c | _ => ENil end.
Definition outer_body : list gstmt := Eval vm_compute in match nth 1 less_body SStop with SWhile _ _ b => b | _ => [] end.
Definition final_ret : gstmt := Eval vm_compute in nth 2 less_body SStop.
Definition the_switch : gstmt := Eval vm_compute in nth 2 outer_body SStop.
Definition digits_case : list gstmt :=
  Eval vm_compute in match the_switch with SSwitch _ [(_, b)] _ => b | _ => [] end.
Definition other_case : list gstmt :=
  Eval vm_compute in match the_switch with SSwitch _ _ d => d | _ => [] end.
Definition zeros1 : gstmt := Eval vm_compute in nth 0 digits_case SStop.
Definition zeros2 : gstmt := Eval vm_compute in nth 1 digits_case SStop.
Definition let_nz : gstmt := Eval vm_compute in nth 2 digits_case SStop.
Definition digits1 : gstmt := Eval vm_compute in nth 3 digits_case SStop.
Definition digits2 : gstmt := Eval vm_compute in nth 4 digits_case SStop.
Definition compare : list gstmt := Eval vm_compute in skipn 5 digits_case.
Definition wcond (s : gstmt) : gexpr := match s with SWhile c _ _ => c | _ => ENil end.
Definition wpost (s : gstmt) : list gstmt := match s with SWhile _ p _ => p | _ => [] end.

Lemma less_body_parts :
  less_body = [SLet true ["idx1"; "idx2"] (ETuple [EConst "" 0%Z; EConst "" 0%Z]); SWhile outer_cond [] outer_body; final_ret]
  /\ outer_body = [SLet true ["c1"; "c2"] (ETuple [EIndex (EId "str1") (EId "idx1"); EIndex (EId "str2") (EId "idx2")]);
                   SLet true ["dig1"; "dig2"] (ETuple [ECall (EId "isdigit") [EId "c1"]; ECall (EId "isdigit") [EId "c2"]]);
                   SSwitch None [([EBin "&&" (EId "dig1") (EId "dig2")], digits_case)] other_case]
  /\ digits_case = zeros1 :: zeros2 :: let_nz :: digits1 :: digits2 :: compare
  /\ zeros1 = SWhile (wcond zeros1) (wpost zeros1) [] /\ zeros2 = SWhile (wcond zeros2) (wpost zeros2) []
  /\ digits1 = SWhile (wcond digits1) (wpost digits1) [] /\ digits2 = SWhile (wcond digits2) (wpost digits2) [].
Proof. repeat split. Qed.

(* ---- lists: an index into a string is the head of a suffix ---- *)
Lemma skipn_S_tl {A} (l : list A) i : skipn (S i) l = tl (skipn i l).
Proof.
  revert l. induction i as [|i IH]; intros [|x l]; try reflexivity.
  change (skipn (S (S i)) (x :: l)) with (skipn (S i) l). change (skipn (S i) (x :: l)) with (skipn i l). apply IH.
Qed.
Lemma nth_error_skipn {A} (l : list A) : forall i, nth_error l i = hd_error (skipn i l).
Proof. induction l as [|x l IH]; intros [|i]; try reflexivity. cbn [nth_error skipn]. apply IH. Qed.
Lemma skipn_cons_lt {A} (l : list A) i x r : skipn i l = x :: r -> i < List.length l.
Proof.
  intros H. destruct (Nat.lt_ge_cases i (List.length l)) as [L|L]; [exact L|].
  rewrite skipn_all2 in H by exact L. discriminate.
Qed.
Lemma skipn_nil_ge {A} (l : list A) i : skipn i l = [] -> List.length l <= i.
Proof. intros H. pose proof (skipn_length i l) as L. rewrite H in L. cbn in L. lia. Qed.

(* the number of leading bytes that satisfy q *)
Fixpoint span (q : byte -> bool) (s : bytes) : nat :=
  match s with c :: r => if q c then S (span q r) else 0 | [] => 0 end.
Definition is_zero (c : byte) : bool := byte_eqb c x30.
Lemma eat_zeros_span s : eat_zeros s = (span is_zero s, skipn (span is_zero s) s).
Proof.
  induction s as [|c s IH]; [reflexivity|]. cbn [eat_zeros span]. change (is_zero c) with (byte_eqb c x30).
  destruct (byte_eqb c x30); [|reflexivity]. rewrite IH. reflexivity.
Qed.
Lemma eat_digits_span s : eat_digits s = (firstn (span isdigit s) s, skipn (span isdigit s) s).
Proof.
  induction s as [|c s IH]; [reflexivity|]. cbn [eat_digits span].
  destruct (isdigit c); [|reflexivity]. rewrite IH. reflexivity.
Qed.
Lemma span_le q s : span q s <= List.length s.
Proof. induction s as [|c s IH]; cbn; [lia|]. destruct (q c); lia. Qed.

Lemma Zltb_ofnat a b : (Z.of_nat a <? Z.of_nat b)%Z = (a <? b)%nat.
Proof. destruct (Nat.ltb_spec a b); [apply Z.ltb_lt|apply Z.ltb_ge]; lia. Qed.
Lemma Zeqb_ofnat a b : (Z.of_nat a =? Z.of_nat b)%Z = (a =? b)%nat.
Proof. destruct (Nat.eqb_spec a b) as [->|H]; [apply Z.eqb_refl|apply Z.eqb_neq; lia]. Qed.
Lemma Zltb_ofN a b : (Z.of_N a <? Z.of_N b)%Z = (a <? b)%N.
Proof. destruct (N.ltb_spec a b); [apply Z.ltb_lt|apply Z.ltb_ge]; lia. Qed.
Lemma Zleb_ofN a b : (Z.of_N a <=? Z.of_N b)%Z = (a <=? b)%N.
Proof. destruct (N.leb_spec a b); [apply Z.leb_le|apply Z.leb_gt]; lia. Qed.
Lemma Zeqb_ofN a b : (Z.of_N a =? Z.of_N b)%Z = (a =? b)%N.
Proof. destruct (N.eqb_spec a b) as [->|H]; [apply Z.eqb_refl|apply Z.eqb_neq; lia]. Qed.

(* a byte as the evaluator holds it *)
Definition vbyte (c : byte) : val := VInt (Z.of_N (bN c)).
Definition vnat (n : nat) : val := VInt (Z.of_nat n).

(* ---- a loop that walks an index over the bytes satisfying q and changes nothing else ---- *)
Lemma while_span cond body post (E : nat -> env) (q : byte -> bool) (a : bytes) buf :
  (forall i, cond (E i) buf = GoEval.Ok (VBool (match skipn i a with c :: _ => q c | [] => false end))) ->
  (forall i, body (E i) buf = GoEval.Ok (E i, buf, Run)) ->
  (forall i, post (E i) buf = GoEval.Ok (E (S i), buf, Run)) ->
  forall fuel i, List.length (skipn i a) < fuel ->
  while_loop cond body post fuel (E i) buf = GoEval.Ok (E (i + span q (skipn i a)), buf, Run).
Proof.
  intros Hc Hb Hp. induction fuel as [|fuel IH]; intros i Hf; [lia|].
  cbn [while_loop]. rewrite Hc. pose proof (skipn_S_tl a i) as Ht.
  destruct (skipn i a) as [|c r] eqn:Es.
  - cbn [span]. rewrite Nat.add_0_r. reflexivity.
  - cbn [span]. destruct (q c).
    + rewrite Hb. cbn [stopped andb]. rewrite Hp. cbn [tl] in Ht.
      rewrite IH by (rewrite Ht; cbn [List.length] in Hf; lia).
      rewrite Ht. replace (S i + span q r) with (i + S (span q r)) by lia. reflexivity.
    + rewrite Nat.add_0_r. reflexivity.
Qed.

(* ---- symbolic running: arithmetic on indices stays as it is written ---- *)
Local Arguments Z.of_nat : simpl never.
Local Arguments Z.of_N : simpl never.
Local Arguments Z.to_nat : simpl never.
Local Arguments Z.ltb : simpl never.
Local Arguments Z.leb : simpl never.
Local Arguments Z.eqb : simpl never.
Local Arguments Z.sub : simpl never.
Local Arguments Z.add : simpl never.
Local Arguments Nat.ltb : simpl never.
Local Arguments Nat.eqb : simpl never.
Local Arguments N.leb : simpl never.
Local Arguments N.ltb : simpl never.
Local Arguments N.eqb : simpl never.
Local Arguments bN : simpl never.
Local Arguments isdigit : simpl never.
Local Arguments while_loop : simpl never.
Local Arguments truncate : simpl nomatch.

Lemma ltb_skipn (a : bytes) i : (i <? List.length a)%nat = match skipn i a with [] => false | _ :: _ => true end.
Proof.
  destruct (skipn i a) eqn:E.
  - apply Nat.ltb_ge, skipn_nil_ge, E.
  - apply Nat.ltb_lt. eapply skipn_cons_lt, E.
Qed.
(* the regenerated isdigit is the model's *)
Lemma isdigit_generated impl call' g c :
  run_body impl call' g {| p_pkg := "natsort"; p_type := ""; p_method := "isdigit"; p_recv := "b"; p_body := isdigit_body |} (vbyte c)
  = GoEval.Ok (VBool (isdigit c)).
Proof.
  unfold run_body, isdigit_body, vbyte. cbn.
  change 48%Z with (Z.of_N 48). change 57%Z with (Z.of_N 57). rewrite !Zleb_ofN.
  unfold isdigit. destruct (48 <=? bN c)%N; reflexivity.
Qed.

Section Run.
  Variables a b : bytes.
  Variable N : nat.                      (* the bound on the rounds of every loop *)
  Hypothesis HN : List.length a + List.length b < N.
  Variable call : string -> string -> val -> res val.
  Hypothesis Hcall : forall c, call "" "isdigit" (vbyte c) = GoEval.Ok (VBool (isdigit c)).
  Notation ev := (eval no_impl call).
  Notation ex := (exec no_impl call).
  Notation ex1 := (exec1 no_impl call).

  (* the environments of the run: at the head of the outer loop, inside its body, and after nonZero1, nonZero2 are set *)
  Definition E0 (i1 i2 : nat) : env :=
    [("idx2", vnat i2); ("idx1", vnat i1); ("str1", VStr a); ("str2", VStr b); ("$fuel", vnat N)].
  Definition Esw (c1 c2 : byte) (i1 i2 : nat) : env :=
    ("dig2", VBool (isdigit c2)) :: ("dig1", VBool (isdigit c1)) :: ("c2", vbyte c2) :: ("c1", vbyte c1) :: E0 i1 i2.
  Definition Enz (c1 c2 : byte) (nz1 nz2 i1 i2 : nat) : env :=
    ("nonZero2", vnat nz2) :: ("nonZero1", vnat nz1) :: Esw c1 c2 i1 i2.

  (* a statement list in a scope of its own *)
  Definition in_scope (ss : list gstmt) : env -> bytes -> res st :=
    fun en buf => '(en1, buf1, stop) <- ex ss en buf ;; GoEval.Ok (truncate (List.length en) en1, buf1, stop).

  Lemma exec_cons s r en buf :
    ex (s :: r) en buf = ('(en1, buf1, stop) <- ex1 s en buf ;; if stopped stop then GoEval.Ok (en1, buf1, stop) else ex r en1 buf1).
  Proof. reflexivity. Qed.

  Lemma exec1_while c post body en buf :
    ex1 (SWhile c post body) en buf =
    match lookup loop_fuel_var en with
    | Some (VInt n) =>
      '(en1, buf1, stop) <- while_loop (fun en buf => ev (Z.of_nat (List.length buf)) en c) (in_scope body) (ex post) (Z.to_nat n) en buf ;;
      GoEval.Ok (truncate (List.length en) en1, buf1, stop)
    | _ => Fail "no loop fuel"
    end.
  Proof. reflexivity. Qed.

  Lemma exec1_switch c body def en buf x :
    ev (Z.of_nat (List.length buf)) en c = GoEval.Ok (VBool x) ->
    ex1 (SSwitch None [([c], body)] def) en buf =
    ('(en1, buf1, stop) <- in_scope (if x then body else def) en buf ;; GoEval.Ok (truncate (List.length en) en1, buf1, stop)).
  Proof. intros H. unfold exec1; fold exec1. rewrite H. destruct x; reflexivity. Qed.

  (* ---- the conditions ---- *)
  Lemma cond_zero (x s : string) en w i (str : bytes) :
    lookup x en = Some (vnat i) -> lookup s en = Some (VStr str) ->
    ev w en (EBin "&&" (EBin "<" (EId x) (ECall (EId "len") [EId s])) (EBin "==" (EIndex (EId s) (EId x)) (EConst "" 48%Z)))
    = GoEval.Ok (VBool (match skipn i str with c :: _ => is_zero c | [] => false end)).
  Proof.
    intros Hx Hs. cbn. rewrite Hx, Hs. cbn. rewrite Zltb_ofnat, ltb_skipn.
    destruct (skipn i str) as [|c r] eqn:Es; [reflexivity|]. cbn.
    assert ((Z.of_nat i <? 0)%Z = false) as -> by (apply Z.ltb_ge; lia).
    rewrite Nat2Z.id, nth_error_skipn, Es. cbn.
    change 48%Z with (Z.of_N 48). rewrite Zeqb_ofN. reflexivity.
  Qed.

  Lemma cond_digit (x s : string) en w i (str : bytes) :
    lookup x en = Some (vnat i) -> lookup s en = Some (VStr str) ->
    ev w en (EBin "&&" (EBin "<" (EId x) (ECall (EId "len") [EId s])) (ECall (EId "isdigit") [EIndex (EId s) (EId x)]))
    = GoEval.Ok (VBool (match skipn i str with c :: _ => isdigit c | [] => false end)).
  Proof.
    intros Hx Hs. cbn. rewrite Hx, Hs. cbn. rewrite Zltb_ofnat, ltb_skipn.
    destruct (skipn i str) as [|c r] eqn:Es; [reflexivity|]. cbn.
    assert ((Z.of_nat i <? 0)%Z = false) as -> by (apply Z.ltb_ge; lia).
    rewrite Nat2Z.id, nth_error_skipn, Es. cbn. apply Hcall.
  Qed.

  (* ---- an inner loop: for ; x < len(s) && q(s[x]); x++ {} ---- *)
  Lemma inner_loop (q : byte -> bool) (str : bytes) (E : nat -> env) (c : gexpr) (post : list gstmt) i :
    (forall i, lookup loop_fuel_var (E i) = Some (vnat N)) ->
    (forall i w, ev w (E i) c = GoEval.Ok (VBool (match skipn i str with c :: _ => q c | [] => false end))) ->
    (forall i, ex post (E i) [] = GoEval.Ok (E (S i), [], Run)) ->
    (forall i j, truncate (List.length (E i)) (E j) = E j) ->
    List.length str < N ->
    ex1 (SWhile c post []) (E i) [] = GoEval.Ok (E (i + span q (skipn i str)), [], Run).
  Proof.
    intros Hf Hc Hp Ht Hl. rewrite exec1_while, Hf. unfold vnat. rewrite Nat2Z.id.
    rewrite (while_span _ _ _ E q str []).
    - rewrite Ht. reflexivity.
    - intros j. apply Hc.
    - intros j. unfold in_scope. cbn. rewrite Ht. reflexivity.
    - exact Hp.
    - rewrite skipn_length. lia.
  Qed.

  Lemma zeros1_run c1 c2 i1 i2 :
    ex1 zeros1 (Esw c1 c2 i1 i2) [] = GoEval.Ok (Esw c1 c2 (i1 + span is_zero (skipn i1 a)) i2, [], Run).
  Proof.
    refine (inner_loop is_zero a (fun i => Esw c1 c2 i i2) (wcond zeros1) (wpost zeros1) i1 _ _ _ _ _).
    - reflexivity.
    - intros i w. apply (cond_zero "idx1" "str1"); reflexivity.
    - intros i. cbn. unfold Enz, Esw, E0, vnat. rewrite Nat2Z.inj_succ. reflexivity.
    - reflexivity.
    - lia.
  Qed.
  Lemma zeros2_run c1 c2 i1 i2 :
    ex1 zeros2 (Esw c1 c2 i1 i2) [] = GoEval.Ok (Esw c1 c2 i1 (i2 + span is_zero (skipn i2 b)), [], Run).
  Proof.
    refine (inner_loop is_zero b (fun i => Esw c1 c2 i1 i) (wcond zeros2) (wpost zeros2) i2 _ _ _ _ _).
    - reflexivity.
    - intros i w. apply (cond_zero "idx2" "str2"); reflexivity.
    - intros i. cbn. unfold Enz, Esw, E0, vnat. rewrite Nat2Z.inj_succ. reflexivity.
    - reflexivity.
    - lia.
  Qed.
  Lemma digits1_run c1 c2 nz1 nz2 i1 i2 :
    ex1 digits1 (Enz c1 c2 nz1 nz2 i1 i2) [] = GoEval.Ok (Enz c1 c2 nz1 nz2 (i1 + span isdigit (skipn i1 a)) i2, [], Run).
  Proof.
    refine (inner_loop isdigit a (fun i => Enz c1 c2 nz1 nz2 i i2) (wcond digits1) (wpost digits1) i1 _ _ _ _ _).
    - reflexivity.
    - intros i w. apply (cond_digit "idx1" "str1"); reflexivity.
    - intros i. cbn. unfold Enz, Esw, E0, vnat. rewrite Nat2Z.inj_succ. reflexivity.
    - reflexivity.
    - lia.
  Qed.
  Lemma digits2_run c1 c2 nz1 nz2 i1 i2 :
    ex1 digits2 (Enz c1 c2 nz1 nz2 i1 i2) [] = GoEval.Ok (Enz c1 c2 nz1 nz2 i1 (i2 + span isdigit (skipn i2 b)), [], Run).
  Proof.
    refine (inner_loop isdigit b (fun i => Enz c1 c2 nz1 nz2 i1 i) (wcond digits2) (wpost digits2) i2 _ _ _ _ _).
    - reflexivity.
    - intros i w. apply (cond_digit "idx2" "str2"); reflexivity.
    - intros i. cbn. unfold Enz, Esw, E0, vnat. rewrite Nat2Z.inj_succ. reflexivity.
    - reflexivity.
    - lia.
  Qed.

  (* ---- the comparison once both numbers are read ---- *)
  Definition cmp_flow (nz1 nz2 l1 l2 : nat) (d1 d2 : bytes) : flow :=
    if negb (l1 =? l2)%nat then Ret (VBool (l1 <? l2)%nat)
    else if negb (bytes_eqb d1 d2) then Ret (VBool (bytes_ltb d1 d2))
    else if negb (nz1 =? nz2)%nat then Ret (VBool (nz1 <? nz2)%nat)
    else Run.

  Definition if_len : gstmt := Eval vm_compute in nth 0 compare SStop.
  Definition if_digits : gstmt := Eval vm_compute in nth 1 compare SStop.
  Definition if_zeros : gstmt := Eval vm_compute in nth 2 compare SStop.

  Lemma if_len_run c1 c2 nz1 nz2 e1 e2 :
    nz1 <= e1 -> nz2 <= e2 ->
    ex1 if_len (Enz c1 c2 nz1 nz2 e1 e2) [] =
    GoEval.Ok (Enz c1 c2 nz1 nz2 e1 e2, [],
               if negb (e1 - nz1 =? e2 - nz2)%nat then Ret (VBool (e1 - nz1 <? e2 - nz2)%nat) else Run).
  Proof.
    intros H1 H3. cbn. rewrite <- !Nat2Z.inj_sub by lia. rewrite Zeqb_ofnat, Zltb_ofnat.
    destruct (e1 - nz1 =? e2 - nz2)%nat; reflexivity.
  Qed.

  Lemma if_digits_run c1 c2 nz1 nz2 e1 e2 :
    nz1 <= e1 -> e1 <= List.length a -> nz2 <= e2 -> e2 <= List.length b ->
    ex1 if_digits (Enz c1 c2 nz1 nz2 e1 e2) [] =
    GoEval.Ok (Enz c1 c2 nz1 nz2 e1 e2, [],
               let d1 := firstn (e1 - nz1) (skipn nz1 a) in let d2 := firstn (e2 - nz2) (skipn nz2 b) in
               if negb (bytes_eqb d1 d2) then Ret (VBool (bytes_ltb d1 d2)) else Run).
  Proof.
    intros H1 H2 H3 H4. cbn.
    assert ((Z.of_nat nz1 <? 0)%Z = false) as -> by (apply Z.ltb_ge; lia).
    assert ((Z.of_nat nz2 <? 0)%Z = false) as -> by (apply Z.ltb_ge; lia).
    rewrite !Zltb_ofnat.
    assert ((e1 <? nz1)%nat = false) as -> by (apply Nat.ltb_ge; lia).
    assert ((e2 <? nz2)%nat = false) as -> by (apply Nat.ltb_ge; lia).
    assert ((List.length a <? e1)%nat = false) as -> by (apply Nat.ltb_ge; lia).
    assert ((List.length b <? e2)%nat = false) as -> by (apply Nat.ltb_ge; lia).
    cbn. rewrite <- !Nat2Z.inj_sub by lia. rewrite !Nat2Z.id.
    destruct (bytes_eqb (firstn (e1 - nz1) (skipn nz1 a)) (firstn (e2 - nz2) (skipn nz2 b))); reflexivity.
  Qed.

  Lemma if_zeros_run c1 c2 nz1 nz2 e1 e2 :
    ex1 if_zeros (Enz c1 c2 nz1 nz2 e1 e2) [] =
    GoEval.Ok (Enz c1 c2 nz1 nz2 e1 e2, [], if negb (nz1 =? nz2)%nat then Ret (VBool (nz1 <? nz2)%nat) else Run).
  Proof. cbn. rewrite Zeqb_ofnat, Zltb_ofnat. destruct (nz1 =? nz2)%nat; reflexivity. Qed.

  Lemma compare_run c1 c2 nz1 nz2 e1 e2 :
    nz1 <= e1 -> e1 <= List.length a -> nz2 <= e2 -> e2 <= List.length b ->
    ex compare (Enz c1 c2 nz1 nz2 e1 e2) [] =
    GoEval.Ok (Enz c1 c2 nz1 nz2 e1 e2, [],
               cmp_flow nz1 nz2 (e1 - nz1) (e2 - nz2) (firstn (e1 - nz1) (skipn nz1 a)) (firstn (e2 - nz2) (skipn nz2 b))).
  Proof.
    intros H1 H2 H3 H4. unfold cmp_flow.
    change compare with [if_len; if_digits; if_zeros].
    rewrite exec_cons, if_len_run by assumption.
    destruct (e1 - nz1 =? e2 - nz2)%nat; [|reflexivity]. cbn [negb stopped].
    rewrite exec_cons, if_digits_run by assumption. cbv zeta.
    destruct (bytes_eqb (firstn (e1 - nz1) (skipn nz1 a)) (firstn (e2 - nz2) (skipn nz2 b))); [|reflexivity]. cbn [negb stopped].
    rewrite exec_cons, if_zeros_run.
    destruct (nz1 =? nz2)%nat; reflexivity.
  Qed.

  (* ---- the two cases of the switch ---- *)
  Lemma let_nz_run c1 c2 i1 i2 : ex1 let_nz (Esw c1 c2 i1 i2) [] = GoEval.Ok (Enz c1 c2 i1 i2 i1 i2, [], Run).
  Proof. reflexivity. Qed.

  Lemma skipn_add {A} (l : list A) i z : skipn (i + z) l = skipn z (skipn i l).
  Proof.
    revert l. induction i as [|i IH]; intros l; [reflexivity|].
    destruct l as [|x l]; [destruct z; reflexivity|]. cbn [Nat.add skipn]. apply IH.
  Qed.
  Lemma idx_span_le (q : byte -> bool) (str : bytes) i : i <= List.length str -> i + span q (skipn i str) <= List.length str.
  Proof. intros H. pose proof (span_le q (skipn i str)) as L. rewrite skipn_length in L. lia. Qed.

  (* case dig1 && dig2: skip the zeros, read the digits, compare *)
  Lemma digits_run c1 c2 i1 i2 :
    i1 <= List.length a -> i2 <= List.length b ->
    let z1 := span is_zero (skipn i1 a) in let z2 := span is_zero (skipn i2 b) in
    let u1 := skipn z1 (skipn i1 a) in let u2 := skipn z2 (skipn i2 b) in
    let l1 := span isdigit u1 in let l2 := span isdigit u2 in
    ex digits_case (Esw c1 c2 i1 i2) [] =
    GoEval.Ok (Enz c1 c2 (i1 + z1) (i2 + z2) (i1 + z1 + l1) (i2 + z2 + l2), [],
               cmp_flow (i1 + z1) (i2 + z2) l1 l2 (firstn l1 u1) (firstn l2 u2)).
  Proof.
    intros H1 H2 z1 z2 u1 u2 l1 l2.
    change digits_case with (zeros1 :: zeros2 :: let_nz :: digits1 :: digits2 :: compare).
    rewrite exec_cons, zeros1_run. cbn [stopped]. fold z1.
    rewrite exec_cons, zeros2_run. cbn [stopped]. fold z2.
    rewrite exec_cons, let_nz_run. cbn [stopped].
    rewrite exec_cons, digits1_run. cbn [stopped]. rewrite (skipn_add a i1 z1). fold u1. fold l1.
    rewrite exec_cons, digits2_run. cbn [stopped]. rewrite (skipn_add b i2 z2). fold u2. fold l2.
    pose proof (idx_span_le is_zero a i1 H1) as B1. fold z1 in B1.
    pose proof (idx_span_le is_zero b i2 H2) as B2. fold z2 in B2.
    pose proof (idx_span_le isdigit a (i1 + z1) B1) as D1. rewrite (skipn_add a i1 z1) in D1. fold u1 in D1. fold l1 in D1.
    pose proof (idx_span_le isdigit b (i2 + z2) B2) as D2. rewrite (skipn_add b i2 z2) in D2. fold u2 in D2. fold l2 in D2.
    rewrite compare_run by lia.
    replace (i1 + z1 + l1 - (i1 + z1)) with l1 by lia. replace (i2 + z2 + l2 - (i2 + z2)) with l2 by lia.
    rewrite (skipn_add a i1 z1), (skipn_add b i2 z2). reflexivity.
  Qed.

  (* default: two bytes that are not both digits *)
  Lemma other_run c1 c2 i1 i2 :
    ex other_case (Esw c1 c2 i1 i2) [] =
    if negb (byte_eqb c1 c2) then GoEval.Ok (Esw c1 c2 i1 i2, [], Ret (VBool (byte_ltb c1 c2)))
    else GoEval.Ok (Esw c1 c2 (S i1) (S i2), [], Run).
  Proof.
    cbn. rewrite Zeqb_ofN, Zltb_ofN. fold (byte_eqb c1 c2). fold (byte_ltb c1 c2).
    destruct (byte_eqb c1 c2); cbn; [|reflexivity].
    unfold Esw, E0, vnat. rewrite !Nat2Z.inj_succ. reflexivity.
  Qed.

  (* ---- one round of the outer loop, at two indices inside the strings ---- *)
  Definition let_c : gstmt := Eval vm_compute in nth 0 outer_body SStop.
  Definition let_dig : gstmt := Eval vm_compute in nth 1 outer_body SStop.

  Lemma let_c_run i1 i2 c1 r1 c2 r2 :
    skipn i1 a = c1 :: r1 -> skipn i2 b = c2 :: r2 ->
    ex1 let_c (E0 i1 i2) [] = GoEval.Ok (("c2", vbyte c2) :: ("c1", vbyte c1) :: E0 i1 i2, [], Run).
  Proof.
    intros E1 E2. cbn.
    assert ((Z.of_nat i1 <? 0)%Z = false) as -> by (apply Z.ltb_ge; lia).
    assert ((Z.of_nat i2 <? 0)%Z = false) as -> by (apply Z.ltb_ge; lia).
    rewrite !Nat2Z.id, !nth_error_skipn, E1, E2. reflexivity.
  Qed.
  Lemma let_dig_run i1 i2 c1 c2 :
    ex1 let_dig (("c2", vbyte c2) :: ("c1", vbyte c1) :: E0 i1 i2) [] = GoEval.Ok (Esw c1 c2 i1 i2, [], Run).
  Proof. cbn. rewrite !Hcall. reflexivity. Qed.

  Lemma body_run i1 i2 c1 r1 c2 r2 :
    skipn i1 a = c1 :: r1 -> skipn i2 b = c2 :: r2 ->
    let s1 := c1 :: r1 in let s2 := c2 :: r2 in
    let z1 := span is_zero s1 in let z2 := span is_zero s2 in
    let u1 := skipn z1 s1 in let u2 := skipn z2 s2 in
    let l1 := span isdigit u1 in let l2 := span isdigit u2 in
    in_scope outer_body (E0 i1 i2) [] =
    if isdigit c1 && isdigit c2
    then GoEval.Ok (E0 (i1 + z1 + l1) (i2 + z2 + l2), [], cmp_flow (i1 + z1) (i2 + z2) l1 l2 (firstn l1 u1) (firstn l2 u2))
    else if negb (byte_eqb c1 c2) then GoEval.Ok (E0 i1 i2, [], Ret (VBool (byte_ltb c1 c2)))
    else GoEval.Ok (E0 (S i1) (S i2), [], Run).
  Proof.
    intros E1 E2. cbv zeta. unfold in_scope.
    change outer_body with [let_c; let_dig; SSwitch None [([EBin "&&" (EId "dig1") (EId "dig2")], digits_case)] other_case].
    rewrite exec_cons, (let_c_run i1 i2 c1 r1 c2 r2 E1 E2). cbn [stopped].
    rewrite exec_cons, let_dig_run. cbn [stopped].
    rewrite exec_cons, (exec1_switch _ _ _ _ _ (isdigit c1 && isdigit c2)) by (cbn; destruct (isdigit c1); reflexivity).
    unfold in_scope.
    destruct (isdigit c1 && isdigit c2).
    - pose proof (skipn_cons_lt _ _ _ _ E1) as L1. pose proof (skipn_cons_lt _ _ _ _ E2) as L2.
      rewrite digits_run by lia. rewrite E1, E2.
      match goal with |- context [stopped ?f] => destruct f end; reflexivity.
    - rewrite other_run. destruct (byte_eqb c1 c2); reflexivity.
  Qed.

  (* ---- the model, one round at a time ---- *)
  Lemma less_go_S f n1 n2 c1 r1 c2 r2 :
    let s1 := c1 :: r1 in let s2 := c2 :: r2 in
    let z1 := span is_zero s1 in let z2 := span is_zero s2 in
    let u1 := skipn z1 s1 in let u2 := skipn z2 s2 in
    let l1 := span isdigit u1 in let l2 := span isdigit u2 in
    less_go (S f) n1 s1 n2 s2 =
    if isdigit c1 && isdigit c2
    then match cmp_flow (n1 + z1) (n2 + z2) l1 l2 (firstn l1 u1) (firstn l2 u2) with
         | Ret (VBool r) => r
         | _ => less_go f (n1 + z1 + l1) (skipn l1 u1) (n2 + z2 + l2) (skipn l2 u2)
         end
    else if negb (byte_eqb c1 c2) then byte_ltb c1 c2 else less_go f (S n1) r1 (S n2) r2.
  Proof.
    cbv zeta. cbn [less_go]. destruct (isdigit c1 && isdigit c2); [|reflexivity].
    rewrite !eat_zeros_span, !eat_digits_span. unfold cmp_flow.
    rewrite !firstn_length_le by apply span_le.
    repeat match goal with |- context [if negb ?c then _ else _] => destruct c; cbn [negb]; try reflexivity end.
  Qed.

  Lemma span_progress c r : isdigit c = true ->
    1 <= span is_zero (c :: r) + span isdigit (skipn (span is_zero (c :: r)) (c :: r)).
  Proof. intros H. cbn [span]. destruct (is_zero c); [lia|]. cbn [skipn span]. rewrite H. lia. Qed.

  (* ---- the outer loop ---- *)
  Lemma outer_cond_run w i1 i2 :
    ev w (E0 i1 i2) outer_cond = GoEval.Ok (VBool ((i1 <? List.length a)%nat && (i2 <? List.length b)%nat)).
  Proof. cbn. rewrite !Zltb_ofnat. destruct (i1 <? List.length a)%nat; reflexivity. Qed.

  Lemma while_S cond body post n en buf :
    while_loop cond body post (S n) en buf =
    (c <- cond en buf ;;
     match c with
     | VBool false => GoEval.Ok (en, buf, Run)
     | VBool true =>
       '(en1, buf1, stop) <- body en buf ;;
       if stopped stop && negb (is_cont stop) then GoEval.Ok (en1, buf1, stop)
       else '(en2, buf2, _) <- post en1 buf1 ;; while_loop cond body post n en2 buf2
     | _ => Fail "condition is not a boolean"
     end).
  Proof. reflexivity. Qed.

  Lemma outer_loop : forall fuel i1 i2,
    i1 <= List.length a -> i2 <= List.length b ->
    List.length (skipn i1 a) + List.length (skipn i2 b) < fuel ->
    exists j1 j2 fl,
      while_loop (fun en buf => ev (Z.of_nat (List.length buf)) en outer_cond) (in_scope outer_body) (ex []) fuel (E0 i1 i2) []
      = GoEval.Ok (E0 j1 j2, [], fl)
      /\ (fl = Ret (VBool (less_go fuel i1 (skipn i1 a) i2 (skipn i2 b)))
          \/ (fl = Run /\ less_go fuel i1 (skipn i1 a) i2 (skipn i2 b) = (List.length a <? List.length b)%nat)).
  Proof.
    induction fuel as [|f IH]; intros i1 i2 H1 H2 Hf; [lia|].
    rewrite while_S, outer_cond_run, (ltb_skipn a i1), (ltb_skipn b i2).
    assert (i1 + List.length (skipn i1 a) = List.length a) as L1 by (rewrite skipn_length; lia).
    assert (i2 + List.length (skipn i2 b) = List.length b) as L2 by (rewrite skipn_length; lia).
    pose proof (skipn_S_tl a i1) as T1. pose proof (skipn_S_tl b i2) as T2.
    assert (forall z, skipn (i1 + z) a = skipn z (skipn i1 a)) as A1 by (intros z; apply skipn_add).
    assert (forall z, skipn (i2 + z) b = skipn z (skipn i2 b)) as A2 by (intros z; apply skipn_add).
    destruct (skipn i1 a) as [|c1 r1] eqn:E1.
    { exists i1, i2, Run. split; [reflexivity|]. right. split; [reflexivity|]. cbn [less_go]. rewrite L1, L2. reflexivity. }
    destruct (skipn i2 b) as [|c2 r2] eqn:E2.
    { exists i1, i2, Run. split; [reflexivity|]. right. split; [reflexivity|]. cbn [less_go]. rewrite L1, L2. reflexivity. }
    cbn [andb]. rewrite (body_run i1 i2 c1 r1 c2 r2 E1 E2), less_go_S. cbv zeta.
    set (z1 := span is_zero (c1 :: r1)). set (z2 := span is_zero (c2 :: r2)).
    set (u1 := skipn z1 (c1 :: r1)). set (u2 := skipn z2 (c2 :: r2)).
    set (l1 := span isdigit u1). set (l2 := span isdigit u2).
    destruct (isdigit c1 && isdigit c2) eqn:Ed.
    - apply andb_prop in Ed as [Ed1 Ed2].
      pose proof (span_progress c1 r1 Ed1) as P1. fold z1 in P1. fold u1 in P1. fold l1 in P1.
      pose proof (span_progress c2 r2 Ed2) as P2. fold z2 in P2. fold u2 in P2. fold l2 in P2.
      pose proof (span_le is_zero (c1 :: r1)) as Z1. fold z1 in Z1.
      pose proof (span_le is_zero (c2 :: r2)) as Z2. fold z2 in Z2.
      pose proof (span_le isdigit u1) as D1. fold l1 in D1. unfold u1 in D1. rewrite skipn_length in D1.
      pose proof (span_le isdigit u2) as D2. fold l2 in D2. unfold u2 in D2. rewrite skipn_length in D2.
      unfold cmp_flow.
      destruct (negb (l1 =? l2)%nat); [eexists _, _, _; split; [reflexivity|left; reflexivity]|].
      destruct (negb (bytes_eqb (firstn l1 u1) (firstn l2 u2))); [eexists _, _, _; split; [reflexivity|left; reflexivity]|].
      destruct (negb (i1 + z1 =? i2 + z2)%nat); [eexists _, _, _; split; [reflexivity|left; reflexivity]|].
      cbn [stopped is_cont andb negb]. change (ex [] (E0 (i1 + z1 + l1) (i2 + z2 + l2)) []) with (GoEval.Ok (E0 (i1 + z1 + l1) (i2 + z2 + l2), @nil byte, Run)).
      cbv iota beta.
      assert (skipn l1 u1 = skipn (i1 + z1 + l1) a) as -> by (rewrite <- Nat.add_assoc, A1, skipn_add; reflexivity).
      assert (skipn l2 u2 = skipn (i2 + z2 + l2) b) as -> by (rewrite <- Nat.add_assoc, A2, skipn_add; reflexivity).
      apply IH.
      + cbn [List.length] in *. lia.
      + cbn [List.length] in *. lia.
      + rewrite !skipn_length. cbn [List.length] in *. lia.
    - destruct (negb (byte_eqb c1 c2)); [eexists _, _, _; split; [reflexivity|left; reflexivity]|].
      cbn [stopped is_cont andb negb]. change (ex [] (E0 (S i1) (S i2)) []) with (GoEval.Ok (E0 (S i1) (S i2), @nil byte, Run)).
      cbv iota beta. cbn [tl] in T1, T2. rewrite <- T1, <- T2.
      apply IH.
      + cbn [List.length] in *. lia.
      + cbn [List.length] in *. lia.
      + rewrite T1, T2. cbn [List.length] in *. lia.
  Qed.
End Run.

(* ---- the refinement ---- *)
Lemma find_less : find_in natsort_bodies "" "natsort.Less"
  = Some {| p_pkg := "natsort"; p_type := ""; p_method := "natsort.Less"; p_recv := "str1,str2"; p_body := less_body |}.
Proof. reflexivity. Qed.
Lemma find_isdigit : find_in natsort_bodies "" "isdigit"
  = Some {| p_pkg := "natsort"; p_type := ""; p_method := "isdigit"; p_recv := "b"; p_body := isdigit_body |}.
Proof. reflexivity. Qed.

Lemma call_table_S tbl impl g n ty m recv :
  call_table tbl impl g (S n) ty m recv =
  match find_in tbl ty m with
  | Some p => run_body impl (call_table tbl impl g n) g p recv
  | None => Fail ("no body " ++ ty ++ "." ++ m)
  end.
Proof. reflexivity. Qed.

(* the call of isdigit from the body of Less runs the regenerated isdigit *)
Lemma call_isdigit g c : call_table natsort_bodies no_impl g 1 "" "isdigit" (vbyte c) = GoEval.Ok (VBool (isdigit c)).
Proof. rewrite call_table_S, find_isdigit. apply isdigit_generated. Qed.

Theorem generated_less_is_model : forall a b : bytes, run_less a b = GoEval.Ok (VBool (Natsort.less a b)).
Proof.
  intros a b. unfold run_less, Natsort.less.
  set (N := loop_fuel a b). set (call := call_table natsort_bodies no_impl (fuel_env N) 1).
  rewrite call_table_S, find_less. fold call. unfold run_body. cbn [p_recv p_body].
  change (split_commas "str1,str2") with ["str1"; "str2"]. unfold fuel_env. cbn [combine List.app].
  assert (List.length a + List.length b < N) as HN by (unfold N, loop_fuel; lia).
  assert (forall c, call "" "isdigit" (vbyte c) = GoEval.Ok (VBool (isdigit c))) as Hcall by (intros c; apply call_isdigit).
  change less_body with [SLet true ["idx1"; "idx2"] (ETuple [EConst "" 0%Z; EConst "" 0%Z]); SWhile outer_cond [] outer_body; final_ret].
  rewrite exec_cons.
  change (exec1 no_impl call (SLet true ["idx1"; "idx2"] (ETuple [EConst "" 0%Z; EConst "" 0%Z]))
            [("str1", VStr a); ("str2", VStr b); (loop_fuel_var, VInt (Z.of_nat N))] [])
    with (GoEval.Ok (E0 a b N 0 0, @nil byte, Run)).
  cbn [stopped]. rewrite exec_cons, exec1_while.
  change (lookup loop_fuel_var (E0 a b N 0 0)) with (Some (VInt (Z.of_nat N))). cbv iota beta. rewrite Nat2Z.id.
  destruct (outer_loop a b N HN call Hcall N 0 0) as (j1 & j2 & fl & -> & Hfl).
  - lia.
  - lia.
  - cbn [skipn]. lia.
  - cbn [skipn] in Hfl. fold (loop_fuel a b) in Hfl |- *. fold N.
    destruct Hfl as [->|[-> Hr]].
    + reflexivity.
    + rewrite Hr. cbn. rewrite Zltb_ofnat. reflexivity.
Qed.
Print Assumptions generated_less_is_model.
