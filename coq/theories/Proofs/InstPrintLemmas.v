(* C01, text layer: arithmetic, bitwise, conversion and comparison instructions (see InstPrintBase.v). *)
From Coq Require Import List String ZArith NArith Bool Lia.
From Coq Require Import Strings.Byte.
From LLIR Require Import Lib.Bytes Lib.Radix Model.Enc Model.Types Model.TypeString Model.GoEval Gen.Enums Gen.Printers Proofs.PrinterRefinement Proofs.InstPrintBase.
Import ListNotations.
Open Scope string_scope.

(* ---- binary operations with overflow flags: %r = add nuw nsw T %x, %y ---- *)
Definition overflow_binops : list (string * string) :=
  [("ir.InstAdd", "add"); ("ir.InstSub", "sub"); ("ir.InstMul", "mul"); ("ir.InstShl", "shl")].
Lemma print_overflow_binop : forall kind kw, In (kind, kw) overflow_binops ->
  forall g fuel id tx ix ty iy flags mds,
  call_printer impl g (S fuel) kind "LLString"
    (VObj kind [("Ident()", VStr id); ("X", value tx ix); ("Y", value ty iy);
                ("OverflowFlags", VList (map (VEnum "enum.OverflowFlag") flags)); ("Metadata", VList (map mdatt mds))])
  = Ok (VStr (id ++ lit " = " ++ lit kw ++ flags_text "enum.OverflowFlag" flags ++ lit " " ++ tv tx ix ++ lit ", " ++ iy ++ mds_text mds)%list).
Proof.
  intros kind kw H g fuel id tx ix ty iy flags mds. each_kind H.
  all: enter; loop; loop; done.
Qed.

(* ---- binary operations with the exact flag: %r = udiv exact T %x, %y ---- *)
Definition exact_binops : list (string * string) :=
  [("ir.InstUDiv", "udiv"); ("ir.InstSDiv", "sdiv"); ("ir.InstLShr", "lshr"); ("ir.InstAShr", "ashr")].
Lemma print_exact_binop : forall kind kw, In (kind, kw) exact_binops ->
  forall g fuel id tx ix ty iy exact mds,
  call_printer impl g (S fuel) kind "LLString"
    (VObj kind [("Ident()", VStr id); ("X", value tx ix); ("Y", value ty iy); ("Exact", VBool exact); ("Metadata", VList (map mdatt mds))])
  = Ok (VStr (id ++ lit " = " ++ lit kw ++ opt exact " exact" ++ lit " " ++ tv tx ix ++ lit ", " ++ iy ++ mds_text mds)%list).
Proof.
  intros kind kw H g fuel id tx ix ty iy exact mds. each_kind H.
  all: destruct exact; enter; loop; done.
Qed.

(* ---- binary operations without flags: %r = and T %x, %y ---- *)
Definition plain_binops : list (string * string) :=
  [("ir.InstURem", "urem"); ("ir.InstSRem", "srem"); ("ir.InstAnd", "and"); ("ir.InstOr", "or"); ("ir.InstXor", "xor")].
Lemma print_plain_binop : forall kind kw, In (kind, kw) plain_binops ->
  forall g fuel id tx ix ty iy mds,
  call_printer impl g (S fuel) kind "LLString"
    (VObj kind [("Ident()", VStr id); ("X", value tx ix); ("Y", value ty iy); ("Metadata", VList (map mdatt mds))])
  = Ok (VStr (id ++ lit " = " ++ lit kw ++ lit " " ++ tv tx ix ++ lit ", " ++ iy ++ mds_text mds)%list).
Proof.
  intros kind kw H g fuel id tx ix ty iy mds. each_kind H.
  all: enter; loop; done.
Qed.

(* ---- floating-point binary operations with fast-math flags: %r = fadd nnan ninf T %x, %y ---- *)
Definition fp_binops : list (string * string) :=
  [("ir.InstFAdd", "fadd"); ("ir.InstFSub", "fsub"); ("ir.InstFMul", "fmul"); ("ir.InstFDiv", "fdiv"); ("ir.InstFRem", "frem")].
Lemma print_fp_binop : forall kind kw, In (kind, kw) fp_binops ->
  forall g fuel id tx ix ty iy flags mds,
  call_printer impl g (S fuel) kind "LLString"
    (VObj kind [("Ident()", VStr id); ("X", value tx ix); ("Y", value ty iy);
                ("FastMathFlags", VList (map (VEnum "enum.FastMathFlag") flags)); ("Metadata", VList (map mdatt mds))])
  = Ok (VStr (id ++ lit " = " ++ lit kw ++ flags_text "enum.FastMathFlag" flags ++ lit " " ++ tv tx ix ++ lit ", " ++ iy ++ mds_text mds)%list).
Proof.
  intros kind kw H g fuel id tx ix ty iy flags mds. each_kind H.
  all: enter; loop; loop; done.
Qed.

(* ---- unary: %r = fneg nnan T %x ; %r = freeze T %x ---- *)
Lemma print_fneg g fuel id tx ix flags mds :
  call_printer impl g (S fuel) "ir.InstFNeg" "LLString"
    (VObj "ir.InstFNeg" [("Ident()", VStr id); ("X", value tx ix);
                         ("FastMathFlags", VList (map (VEnum "enum.FastMathFlag") flags)); ("Metadata", VList (map mdatt mds))])
  = Ok (VStr (id ++ lit " = fneg" ++ flags_text "enum.FastMathFlag" flags ++ lit " " ++ tv tx ix ++ mds_text mds)%list).
Proof. enter; loop; loop; done. Qed.

Lemma print_freeze g fuel id tx ix mds :
  call_printer impl g (S fuel) "ir.InstFreeze" "LLString"
    (VObj "ir.InstFreeze" [("Ident()", VStr id); ("X", value tx ix); ("Metadata", VList (map mdatt mds))])
  = Ok (VStr (id ++ lit " = freeze " ++ tv tx ix ++ mds_text mds)%list).
Proof. enter; loop; done. Qed.

(* ---- conversions: %r = trunc T %x to T2 ---- *)
Definition conversions : list (string * string) :=
  [("ir.InstTrunc", "trunc"); ("ir.InstZExt", "zext"); ("ir.InstSExt", "sext"); ("ir.InstFPTrunc", "fptrunc"); ("ir.InstFPExt", "fpext");
   ("ir.InstFPToUI", "fptoui"); ("ir.InstFPToSI", "fptosi"); ("ir.InstUIToFP", "uitofp"); ("ir.InstSIToFP", "sitofp");
   ("ir.InstPtrToInt", "ptrtoint"); ("ir.InstIntToPtr", "inttoptr"); ("ir.InstBitCast", "bitcast"); ("ir.InstAddrSpaceCast", "addrspacecast")].
Lemma print_conversion : forall kind kw, In (kind, kw) conversions ->
  forall g fuel id tx ix to mds,
  call_printer impl g (S fuel) kind "LLString"
    (VObj kind [("Ident()", VStr id); ("From", value tx ix); ("To", atype to); ("Metadata", VList (map mdatt mds))])
  = Ok (VStr (id ++ lit " = " ++ lit kw ++ lit " " ++ tv tx ix ++ lit " to " ++ to ++ mds_text mds)%list).
Proof.
  intros kind kw H g fuel id tx ix to mds. each_kind H.
  all: enter; loop; done.
Qed.

(* ---- comparisons: %r = icmp slt T %x, %y ; %r = fcmp nnan olt T %x, %y ---- *)
Lemma print_icmp g fuel id pred tx ix ty iy mds :
  call_printer impl g (S fuel) "ir.InstICmp" "LLString"
    (VObj "ir.InstICmp" [("Ident()", VStr id); ("Pred", VEnum "enum.IPred" pred); ("X", value tx ix); ("Y", value ty iy);
                         ("Metadata", VList (map mdatt mds))])
  = Ok (VStr (id ++ lit " = icmp " ++ enum_string "enum.IPred" pred ++ lit " " ++ tv tx ix ++ lit ", " ++ iy ++ mds_text mds)%list).
Proof. enter; loop; done. Qed.

Lemma print_fcmp g fuel id pred tx ix ty iy flags mds :
  call_printer impl g (S fuel) "ir.InstFCmp" "LLString"
    (VObj "ir.InstFCmp" [("Ident()", VStr id); ("Pred", VEnum "enum.FPred" pred); ("X", value tx ix); ("Y", value ty iy);
                         ("FastMathFlags", VList (map (VEnum "enum.FastMathFlag") flags)); ("Metadata", VList (map mdatt mds))])
  = Ok (VStr (id ++ lit " = fcmp" ++ flags_text "enum.FastMathFlag" flags ++ lit " " ++ enum_string "enum.FPred" pred ++ lit " "
              ++ tv tx ix ++ lit ", " ++ iy ++ mds_text mds)%list).
Proof. enter; loop; loop; done. Qed.
