(* C13 / C14: the Typ caches that the Type methods fill lazily (ObserverProofs.caching_observers) are filled by
   the constructors: every New* function of a type with such a cache calls Type() on the new object before it
   returns it.  Read off the regenerated tables Gen/Ctors.v and Gen/Printers.v. *)
From Coq Require Import List String Ascii Bool Arith.
From LLIR Require Import Gen.Ctors Gen.Printers Proofs.ObserverProofs Proofs.CtorProofs.
Import ListNotations.
Open Scope string_scope.

Definition unstar (s : string) : string :=
  match s with String c r => if Ascii.eqb c "*"%char then r else s | EmptyString => s end.
Definition short_pkg (c : ctor) : string :=
  match c_pkg c with "ir/constant" => "constant" | "ir/types" => "types" | "ir/metadata" => "metadata" | p => p end.
(* the type a constructor returns, named as the observer table names it *)
Definition ctor_target (c : ctor) : string := short_pkg c ++ "." ++ unstar (c_type c).
Definition caches (c : ctor) : bool := existsb (fun tm => String.eqb (fst tm) (ctor_target c)) caching_observers.

Theorem constructors_fill_type_caches :
  forallb (fun c => negb (caches c) || CtorProofs.mem "Type" (c_calls c)) ctors = true.
Proof. vm_compute. reflexivity. Qed.
(* every type with a lazily filled cache has a constructor (so the statement above covers all of them) *)
Theorem caching_types_have_constructors :
  forallb (fun tm => existsb (fun c => String.eqb (fst tm) (ctor_target c)) ctors) caching_observers = true.
Proof. vm_compute. reflexivity. Qed.
Example caching_constructors_counted : List.length (filter caches ctors) = 61 /\ List.length caching_observers = 60.
Proof. vm_compute. split; reflexivity. Qed.
Print Assumptions constructors_fill_type_caches.
