(* Round-trip theorems for internal/enc and the asm-side decoders. *)
From Coq Require Import List Bool NArith ZArith Lia ZifyN ZifyNat ZifyBool.
From Coq Require Import Strings.Byte.

From LLIR Require Import Lib.Bytes Lib.Radix Model.Enc.
Import ListNotations.
Local Open Scope N_scope.

(* ---- 256-case facts about hexadecimal escapes ---- *)
Lemma hex_roundtrip (b : byte) :
  unhex (hexdigit (bN b / 16)) = Some (bN b / 16) /\
  unhex (hexdigit (bN b mod 16)) = Some (bN b mod 16) /\
  Byte.of_N ((bN b / 16) * 16 + bN b mod 16) = Some b /\
  (bN (hexdigit (bN b / 16)) =? 92) = false.
Proof. destruct b; vm_compute; repeat split; reflexivity. Qed.

Lemma in_quoted_not_special b : in_quoted b = true -> (bN b =? 92) = false /\ (bN b =? 34) = false.
Proof. destruct b; vm_compute; intros H; try discriminate; split; reflexivity. Qed.

Lemma in_tail_in_quoted b : in_tail b = true -> in_quoted b = true.
Proof. destruct b; vm_compute; intros H; try discriminate; reflexivity. Qed.

(* ---- Unescape inverts Escape for every validity predicate that rejects backslash ---- *)
Section Escape.
  Variable valid : byte -> bool.
  Hypothesis valid_no_backslash : forall b, valid b = true -> (bN b =? 92) = false.

  Lemma esc_length b : length (esc b) = 3%nat. Proof. reflexivity. Qed.

  Lemma unescape_escape_fuel : forall s fuel, (length (escape valid s) <= fuel)%nat ->
    unescape_fuel fuel (escape valid s) = s.
  Proof.
    induction s as [|b s IH]; intros fuel Hf.
    - destruct fuel; reflexivity.
    - cbn [escape] in *. destruct (valid b) eqn:V.
      + destruct fuel as [|fuel]; [cbn in Hf; lia|]. cbn [unescape_fuel].
        rewrite (valid_no_backslash b V). f_equal. apply IH. cbn [length] in Hf. lia.
      + unfold esc in *. cbn [app] in *.
        destruct fuel as [|fuel]; [cbn in Hf; lia|]. cbn [unescape_fuel].
        change (bN x5c =? 92) with true. cbv iota.
        destruct (hex_roundtrip b) as (H1 & H2 & H3 & H4). rewrite H4, H1, H2, H3.
        f_equal. apply IH. cbn [length] in Hf. lia.
  Qed.

  Theorem unescape_escape s : unescape (escape valid s) = s.
  Proof. apply unescape_escape_fuel. reflexivity. Qed.
End Escape.

Theorem unescape_escape_string s : unescape (escape_string s) = s.
Proof. apply unescape_escape. intros b H. apply in_quoted_not_special in H. tauto. Qed.

Lemma in_tail_no_backslash b : in_tail b = true -> (bN b =? 92) = false.
Proof. intros H. apply in_tail_in_quoted in H. apply in_quoted_not_special in H. tauto. Qed.

Theorem unescape_escape_tail s : unescape (escape in_tail s) = s.
Proof. apply unescape_escape. exact in_tail_no_backslash. Qed.

(* ---- Unquote inverts Quote ---- *)
Lemma rev_snoc_head (A : Type) (l : list A) (x : A) : rev (l ++ [x]) = x :: rev l.
Proof. rewrite rev_app_distr. reflexivity. Qed.

Lemma removelast_snoc (A : Type) (l : list A) (x : A) : removelast (l ++ [x]) = l.
Proof. rewrite removelast_app by discriminate. cbn. apply app_nil_r. Qed.

Lemma is_quoted_wrap s : is_quoted (x22 :: s ++ [x22]) = true.
Proof. unfold is_quoted. rewrite rev_snoc_head. reflexivity. Qed.

Theorem unquote_quote s : unquote (quote s) = s.
Proof.
  unfold unquote, quote. rewrite is_quoted_wrap. cbn [tl].
  rewrite removelast_snoc. apply unescape_escape_string.
Qed.

(* a string of identifier characters is never "quoted" and is its own unescape *)
Lemma tail_not_quoted s : forallb in_tail s = true -> is_quoted s = false.
Proof.
  destruct s as [|b r]; [reflexivity|]. cbn [forallb is_quoted]. intros H.
  apply andb_prop in H as [H _]. apply in_tail_in_quoted, in_quoted_not_special in H.
  destruct H as [_ H]. rewrite H. reflexivity.
Qed.

Lemma unescape_no_backslash_fuel : forall s fuel, (length s <= fuel)%nat ->
  forallb (fun b => negb (bN b =? 92)) s = true -> unescape_fuel fuel s = s.
Proof.
  induction s as [|b s IH]; intros fuel Hf H; [destruct fuel; reflexivity|].
  destruct fuel as [|fuel]; [cbn in Hf; lia|]. cbn [forallb] in H. apply andb_prop in H as [Hb Hs].
  cbn [unescape_fuel]. apply negb_true_iff in Hb. rewrite Hb. f_equal. apply IH; [cbn in Hf; lia|exact Hs].
Qed.

Lemma tail_forall_no_backslash s : forallb in_tail s = true -> forallb (fun b => negb (bN b =? 92)) s = true.
Proof.
  induction s as [|b s IH]; [reflexivity|]. cbn [forallb]. intros H. apply andb_prop in H as [Hb Hs].
  rewrite (in_tail_no_backslash b Hb). cbn. auto.
Qed.

Theorem unquote_escape_ident s : unquote (escape_ident s) = s.
Proof.
  unfold escape_ident. destruct (forallb in_tail s) eqn:T.
  - unfold unquote. rewrite (tail_not_quoted s T). reflexivity.
  - unfold unquote. rewrite is_quoted_wrap. cbn [tl]. rewrite removelast_snoc.
    apply unescape_escape. intros b H. apply in_quoted_not_special in H. tauto.
Qed.
Print Assumptions unquote_escape_ident.

(* ---- names versus IDs: decode (encode name) ---- *)
Definition minus_zero (n : bytes) : bool :=
  match n with
  | b :: r => (bN b =? 45) && negb (match r with [] => true | _ => false end) && forallb (fun c => bN c =? 48) r
  | [] => false
  end.

Lemma isdigit_range' c : isdigit c = true <-> (48 <= bN c <= 57).
Proof. apply isdigit_range. Qed.

(* facts about the decimal reader *)
Lemma dec_cons_digit b u u' : dec_cons b u = Some u' -> isdigit b = true.
Proof. destruct b; cbn; intros H; try discriminate; reflexivity. Qed.

Lemma parse_dec_digits s : forall u, parse_dec s = Some u -> forallb isdigit s = true.
Proof.
  induction s as [|b r IH]; intros u; cbn [parse_dec forallb]; [reflexivity|].
  destruct (parse_dec r) as [u0|]; [|discriminate]. intros H.
  rewrite (dec_cons_digit b u0 u H), (IH u0 eq_refl). reflexivity.
Qed.

Lemma of_uint_zero u : N.of_uint u = 0 -> forallb (fun c => bN c =? 48) (dec_bytes u) = true.
Proof. induction u; cbn; try discriminate; auto. Qed.

Lemma parse_dec_bytes_inv s : forall u, parse_dec s = Some u -> dec_bytes u = s.
Proof.
  induction s as [|b r IH]; intros u; cbn [parse_dec].
  - intros [= <-]. reflexivity.
  - destruct (parse_dec r) as [u0|] eqn:E; [|discriminate]. intros H. specialize (IH u0 eq_refl).
    destruct b; cbn in H; try discriminate; injection H as <-; cbn; congruence.
Qed.

Lemma parse_dec_N_zero r : parse_dec_N r = Some 0 -> forallb (fun c => bN c =? 48) r = true.
Proof.
  unfold parse_dec_N. destruct r as [|b r']; [discriminate|].
  destruct (parse_dec (b :: r')) as [u|] eqn:E; [|discriminate]. cbn [option_map]. intros [= H].
  rewrite <- (parse_dec_bytes_inv _ _ E). apply of_uint_zero. exact H.
Qed.

Lemma parse_dec_N_digits s v : parse_dec_N s = Some v -> forallb isdigit s = true.
Proof.
  unfold parse_dec_N. destruct s as [|b r]; [discriminate|].
  destruct (parse_dec (b :: r)) as [u|] eqn:E; [|discriminate]. intros _. eapply parse_dec_digits. exact E.
Qed.

(* a quoted token never parses as an integer *)
Lemma parse_int64_quote r : parse_int64 (x22 :: r) = None.
Proof.
  unfold parse_int64. change (bN x22 =? 43) with false. change (bN x22 =? 45) with false. cbv iota.
  unfold parse_dec_N. cbn [parse_dec]. destruct (parse_dec r); reflexivity.
Qed.

Lemma in_tail_not_plus b : in_tail b = true -> (bN b =? 43) = false.
Proof. destruct b; vm_compute; intros H; try discriminate; reflexivity. Qed.

Lemma parse_int64_bare n z : forallb in_tail n = true -> parse_int64 n = Some z -> (0 <= z)%Z ->
  parse_uint64 n <> None \/ minus_zero n = true.
Proof.
  destruct n as [|b r]; [discriminate|]. cbn [forallb]. intros T. apply andb_prop in T as [Tb Tr].
  unfold parse_int64. rewrite (in_tail_not_plus b Tb).
  destruct (bN b =? 45) eqn:M.
  - destruct (parse_dec_N r) as [v|] eqn:V; [|discriminate].
    destruct ((- 2 ^ 63 <=? -1 * Z.of_N v)%Z && (-1 * Z.of_N v <=? 2 ^ 63 - 1)%Z); [|discriminate].
    intros [= <-] Hz. assert (v = 0) by (destruct v; [reflexivity | cbn in Hz; lia]). subst.
    right. unfold minus_zero. rewrite M, (parse_dec_N_zero r V).
    destruct r; [discriminate|reflexivity].
  - destruct (parse_dec_N (b :: r)) as [v|] eqn:V; [|discriminate].
    destruct ((- 2 ^ 63 <=? 1 * Z.of_N v)%Z && (1 * Z.of_N v <=? 2 ^ 63 - 1)%Z) eqn:R; [|discriminate].
    intros _ _. left. unfold parse_uint64. rewrite V.
    apply andb_prop in R as [_ R]. apply Z.leb_le in R.
    assert (v <? 2 ^ 64 = true) as -> by (apply N.ltb_lt; lia). discriminate.
Qed.

Theorem ident_of_escape_ident n : parse_uint64 n = None -> minus_zero n = false ->
  ident_of_text (escape_ident n) = Name n.
Proof.
  intros U MZ. unfold ident_of_text.
  pose proof (unquote_escape_ident n) as UQ.
  unfold escape_ident in *. destruct (forallb in_tail n) eqn:T.
  - destruct (parse_int64 n) as [z|] eqn:P; [|rewrite UQ; reflexivity].
    destruct (0 <=? z)%Z eqn:Z0; [|rewrite UQ; reflexivity].
    apply Z.leb_le in Z0. destruct (parse_int64_bare n z T P Z0) as [H|H]; congruence.
  - rewrite parse_int64_quote. rewrite UQ. reflexivity.
Qed.

Lemma digits_no_backslash n : forallb isdigit n = true -> forallb (fun b => negb (bN b =? 92)) n = true.
Proof.
  induction n as [|b r IH]; [reflexivity|]. cbn [forallb]. intros H. apply andb_prop in H as [D H].
  rewrite (IH H), andb_true_r. apply isdigit_range' in D. apply negb_true_iff, N.eqb_neq. lia.
Qed.

Theorem ident_of_quoted_digits n : parse_uint64 n <> None ->
  ident_of_text (x22 :: n ++ [x22]) = Name n.
Proof.
  intros U. unfold ident_of_text. rewrite parse_int64_quote.
  unfold unquote. rewrite is_quoted_wrap. cbn [tl]. rewrite removelast_snoc.
  f_equal. unfold unescape. apply unescape_no_backslash_fuel; [reflexivity|].
  apply digits_no_backslash. unfold parse_uint64 in U.
  destruct (parse_dec_N n) as [v|] eqn:E; [|congruence]. eapply parse_dec_N_digits. exact E.
Qed.

(* The library decodes every global / local name it prints, except the class [minus_zero]. *)
Theorem decode_sigil_name sigil n : minus_zero n = false ->
  decode_sigil sigil (sigil_name sigil n) = Some (Name n).
Proof.
  intros MZ. unfold sigil_name, decode_sigil.
  destruct (parse_uint64 n) eqn:U; rewrite byte_eqb_refl; f_equal.
  - apply ident_of_quoted_digits. congruence.
  - apply ident_of_escape_ident; assumption.
Qed.

Corollary decode_global_name n : minus_zero n = false -> decode_global (global_name n) = Some (Name n).
Proof. apply decode_sigil_name. Qed.
Corollary decode_local_name n : minus_zero n = false -> decode_local (local_name n) = Some (Name n).
Proof. apply decode_sigil_name. Qed.

(* the excluded class is a real failure of the unguarded statement *)
Theorem decode_global_name_refuted : exists n, n <> [] /\ decode_global (global_name n) = Some (ID 0).
Proof. exists [x2d; x30]. split; [discriminate|]. vm_compute. reflexivity. Qed.

(* comdat and metadata names have no ID form: they always decode *)
Theorem decode_comdat_name n : decode_comdat (comdat_name n) = Some n.
Proof. unfold decode_comdat, comdat_name. cbn. f_equal. apply unquote_escape_ident. Qed.

(* one unfolding step of Unescape, as an equation *)
Definition unescape_step (f : nat) (b : byte) (r : bytes) : bytes :=
  if bN b =? 92 then
    match r with
    | b1 :: r1 =>
      if bN b1 =? 92 then x5c :: unescape_fuel f r1
      else match r1 with
           | b2 :: r2 =>
             match unhex b1, unhex b2 with
             | Some h, Some l =>
               match Byte.of_N (h * 16 + l) with
               | Some c => c :: unescape_fuel f r2
               | None => b :: unescape_fuel f r
               end
             | _, _ => b :: unescape_fuel f r
             end
           | [] => b :: unescape_fuel f r
           end
    | [] => [b]
    end
  else b :: unescape_fuel f r.

Lemma unescape_fuel_S f b r : unescape_fuel (S f) (b :: r) = unescape_step f b r.
Proof. reflexivity. Qed.

(* more fuel than the length never changes the result *)
Lemma unescape_fuel_step : forall f s, (length s <= f)%nat -> unescape_fuel (S f) s = unescape_fuel f s.
Proof.
  induction f as [|f IH]; intros s Hl.
  - destruct s; [reflexivity|cbn in Hl; lia].
  - destruct s as [|b r]; [reflexivity|]. cbn [length] in Hl.
    rewrite (unescape_fuel_S (S f)), (unescape_fuel_S f). unfold unescape_step.
    rewrite (IH r) by lia.
    destruct r as [|b1 r1]; [reflexivity|]. cbn [length] in Hl. rewrite (IH r1) by lia.
    destruct r1 as [|b2 r2]; [reflexivity|]. cbn [length] in Hl. rewrite (IH r2) by lia.
    reflexivity.
Qed.

Lemma unescape_fuel_enough s : forall f, (length s <= f)%nat -> unescape_fuel f s = unescape s.
Proof.
  unfold unescape. intros f Hl. induction Hl as [|f Hl IH]; [reflexivity|].
  rewrite unescape_fuel_step by exact Hl. exact IH.
Qed.

Lemma decimal_escape3 b : is_decimal b = true ->
  unhex x33 = Some 3 /\ unhex b = Some (bN b - 48) /\ Byte.of_N (3 * 16 + (bN b - 48)) = Some b.
Proof. destruct b; vm_compute; intros H; try discriminate; repeat split; reflexivity. Qed.

Theorem decode_metadata_name_ok n tok : metadata_name n = Some tok -> decode_metadata_name tok = Some n.
Proof.
  unfold metadata_name. destruct n as [|b r]; [discriminate|].
  destruct (is_decimal b) eqn:D; intros [= <-]; unfold decode_metadata_name;
    change (bN x21 =? 33) with true; cbv iota; f_equal.
  - destruct (decimal_escape3 b D) as (H1 & H2 & H3).
    unfold unescape. cbn [length]. rewrite unescape_fuel_S. unfold unescape_step.
    change (bN x5c =? 92) with true. change (bN x33 =? 92) with false. cbv iota.
    rewrite H1, H2, H3. f_equal.
    rewrite unescape_fuel_enough by lia. apply unescape_escape_tail.
  - exact (unescape_escape_tail (b :: r)).
Qed.
Print Assumptions decode_metadata_name_ok.

(* ---- unnamed IDs ---- *)
Lemma print_dec_first n : exists b r, print_dec_N n = b :: r /\ isdigit b = true.
Proof. apply print_dec_head. Qed.

Lemma parse_int64_print n : (Z.of_N n <= 2 ^ 63 - 1)%Z -> parse_int64 (print_dec_N n) = Some (Z.of_N n).
Proof.
  intros Hn. destruct (print_dec_first n) as (b & r & E & D). unfold parse_int64. rewrite E.
  apply isdigit_range' in D.
  assert ((bN b =? 43) = false) as -> by (apply N.eqb_neq; lia).
  assert ((bN b =? 45) = false) as -> by (apply N.eqb_neq; lia).
  rewrite <- E, parse_print_dec.
  assert ((- 2 ^ 63 <=? 1 * Z.of_N n)%Z && (1 * Z.of_N n <=? 2 ^ 63 - 1)%Z = true) as ->.
  { apply andb_true_intro. split; apply Z.leb_le; lia. }
  f_equal. lia.
Qed.

Theorem decode_global_id n : (Z.of_N n <= 2 ^ 63 - 1)%Z -> decode_global (global_id n) = Some (ID (Z.of_N n)).
Proof.
  intros Hn. unfold decode_global, decode_sigil, global_id, format_uint. rewrite byte_eqb_refl.
  unfold ident_of_text. rewrite (parse_int64_print n Hn).
  assert ((0 <=? Z.of_N n)%Z = true) as -> by (apply Z.leb_le; lia). reflexivity.
Qed.
Theorem decode_local_id n : (Z.of_N n <= 2 ^ 63 - 1)%Z -> decode_local (local_id n) = Some (ID (Z.of_N n)).
Proof.
  intros Hn. unfold decode_local, decode_sigil, local_id, format_uint. rewrite byte_eqb_refl.
  unfold ident_of_text. rewrite (parse_int64_print n Hn).
  assert ((0 <=? Z.of_N n)%Z = true) as -> by (apply Z.leb_le; lia). reflexivity.
Qed.

(* a printed name is never read as an ID, a printed ID never as a name *)
Corollary name_not_id n k : minus_zero n = false -> decode_global (global_name n) <> Some (ID k).
Proof. intros H. rewrite (decode_global_name n H). discriminate. Qed.
Corollary id_not_name n s : (Z.of_N n <= 2 ^ 63 - 1)%Z -> decode_global (global_id n) <> Some (Name s).
Proof. intros H. rewrite (decode_global_id n H). discriminate. Qed.

(* distinct names never print alike (outside the excluded class) *)
Corollary global_name_inj a b : minus_zero a = false -> minus_zero b = false ->
  global_name a = global_name b -> a = b.
Proof.
  intros Ha Hb E. pose proof (decode_global_name a Ha) as D1. pose proof (decode_global_name b Hb) as D2.
  rewrite E in D1. rewrite D1 in D2. congruence.
Qed.

(* ---- labels ---- *)
Lemma decode_label_snoc body : decode_label (body ++ [x3a]) = Some (ident_of_text body).
Proof.
  unfold decode_label. rewrite rev_snoc_head. change (bN x3a =? 58) with true. cbv iota.
  rewrite rev_involutive. reflexivity.
Qed.

Theorem decode_label_name n : minus_zero n = false -> decode_label (label_name n) = Some (Name n).
Proof.
  intros MZ. unfold label_name. destruct (parse_uint64 n) eqn:U.
  - assert (x22 :: n ++ [x22; x3a] = (x22 :: n ++ [x22]) ++ [x3a]) as -> by (cbn [app]; rewrite <- app_assoc; reflexivity).
    rewrite decode_label_snoc. f_equal. apply ident_of_quoted_digits. congruence.
  - rewrite decode_label_snoc. f_equal. apply ident_of_escape_ident; assumption.
Qed.

(* ---- type names ---- *)
Lemma ident_of_escape_ident_nonint n : parse_int64 n = None -> ident_of_text (escape_ident n) = Name n.
Proof.
  intros PI. unfold ident_of_text. pose proof (unquote_escape_ident n) as UQ.
  unfold escape_ident in *. destruct (forallb in_tail n).
  - rewrite PI, UQ. reflexivity.
  - rewrite parse_int64_quote, UQ. reflexivity.
Qed.

(* a type name survives unless it looks like an integer *)
Theorem decode_type_name n : parse_int64 n = None -> decode_type (type_name n) = Some n.
Proof.
  intros PI. unfold decode_type, decode_local, decode_sigil, type_name. rewrite byte_eqb_refl.
  cbn [option_map]. rewrite (ident_of_escape_ident_nonint n PI). cbn [get_type_name ident_Name]. rewrite PI. reflexivity.
Qed.

(* ... and the integer-looking ones do not (KF-04): the name "-5" comes back with quote characters *)
Theorem decode_type_name_refuted : exists n, decode_type (type_name n) <> Some n.
Proof. exists [x2d; x35]. vm_compute. congruence. Qed.
Print Assumptions decode_type_name.
