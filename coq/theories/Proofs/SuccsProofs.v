(* C15: the successor view of a terminator.  Without a write between, Succs() is the list of branch targets
   in order (for a terminator fresh from the parser or a constructor: empty cache); a write through a target
   slot after a first query leaves the cached list behind (KF-17): refuted with a witness. *)
From Coq Require Import List Bool Arith Lia.
From LLIR Require Import Model.Users.
Import ListNotations.

Section SuccsProofs.
  Variable block : Type.
  Notation term := (term block).

  Definition fresh (t : term) : Prop := t_cache block t = None.
  Definition consistent (t : term) : Prop :=
    match t_cache block t with None => True | Some c => c = t_targets block t end.

  Lemma succs_consistent t : consistent t -> fst (succs block t) = t_targets block t /\ consistent (snd (succs block t)).
  Proof.
    unfold consistent, succs. destruct (t_cache block t) as [c|] eqn:E; cbn; intros H.
    - rewrite E. auto.
    - auto.
  Qed.

  (* the targets never change under queries *)
  Lemma succs_targets t : t_targets block (snd (succs block t)) = t_targets block t.
  Proof. unfold succs. destruct (t_cache block t); reflexivity. Qed.

  Definition only_queries (h : list (term_op block)) : Prop := Forall (fun o => o = TSuccs block) h.

  (* any number of queries on a consistent terminator: every one returns exactly the targets, in order *)
  Theorem succs_are_targets : forall h t, consistent t -> only_queries h ->
    Forall (fun o => o = t_targets block t) (fst (trun block h t)) /\ t_targets block (snd (trun block h t)) = t_targets block t.
  Proof.
    induction h as [|o h IH]; intros t Hc Hq; cbn [trun].
    - split; [constructor|reflexivity].
    - inversion Hq as [|? ? Ho Hq']; subst. 
      destruct (succs_consistent t Hc) as [E1 Hc1]. pose proof (succs_targets t) as E2.
      destruct (succs block t) as [out t1]. cbn [fst snd] in *.
      destruct (IH t1 Hc1 Hq') as [F1 F2]. destruct (trun block h t1) as [os t2]. cbn [fst snd] in *.
      split.
      + constructor; [exact E1|]. rewrite <- E2. exact F1.
      + rewrite F2. exact E2.
  Qed.

  (* writes before the first query are seen by it *)
  Theorem write_then_succs : forall t i b, fresh t ->
    fst (succs block (write_target block t i b)) = set_nth block i b (t_targets block t).
  Proof. intros t i b H. unfold succs, write_target, fresh in *. cbn. rewrite H. reflexivity. Qed.
End SuccsProofs.

(* the full statement "Succs() is always the current targets" is false of the model, as of the code (KF-17) *)
Theorem succs_live_refuted : exists (t : term nat) i b,
  fresh nat t /\
  let t1 := snd (succs nat t) in let t2 := write_target nat t1 i b in
  fst (succs nat t2) <> t_targets nat t2.
Proof.
  exists {| t_targets := [1; 2]; t_cache := None |}, 0, 7. split; [reflexivity|]. cbn. discriminate.
Qed.
(* exactly when the written block differs from the one that was there *)
Theorem succs_stale_iff : forall (t : term nat) i b, fresh nat t -> i < length (t_targets nat t) ->
  let t2 := write_target nat (snd (succs nat t)) i b in
  fst (succs nat t2) = t_targets nat t2 <-> nth_error (t_targets nat t) i = Some b.
Proof.
  intros t i b Hf Hi. unfold fresh in Hf. unfold succs, write_target. rewrite Hf. cbn.
  remember (t_targets nat t) as l eqn:El. clear El Hf t. revert i Hi.
  induction l as [|x l IH]; intros i Hi; [cbn in Hi; lia|].
  destruct i as [|i]; cbn.
  - split; [intros [= ->]; reflexivity|intros [= ->]; reflexivity].
  - cbn in Hi. specialize (IH i ltac:(lia)). split.
    + intros [= E]. apply IH. exact E.
    + intros E. f_equal. apply IH. exact E.
Qed.
