From Coq Require Import List ZArith Bool.
From Coq Require Import Strings.Byte.
Import ListNotations.
From LLIR Require Import Gen.Enums Model.EnumModel.
Local Open Scope Z_scope.

Definition roundtrip_ok (t : enum_tables) : bool :=
  forallb (fun v => match to_string t v with
                    | Some s => match from_string t s with Ok v' => v =? v' | Panic => false end
                    | None => false end) (e_values t).

Fixpoint nodupb (l : list (list byte)) : bool :=
  match l with [] => true | s :: r => negb (existsb (bytes_eqb s) r) && nodupb r end.
Definition inj_ok (t : enum_tables) : bool :=
  nodupb (flat_map (fun v => match to_string t v with Some s => [s] | None => [] end) (e_values t)).

Definition failing (t : enum_tables) : list Z :=
  filter (fun v => negb match to_string t v with
                    | Some s => match from_string t s with Ok v' => v =? v' | Panic => false end
                    | None => false end) (e_values t).

Eval vm_compute in map (fun t => (length (e_values t), failing t, inj_ok t)) all_enums.

Theorem all_enums_roundtrip : forallb (fun t => roundtrip_ok t && inj_ok t) all_enums = true.
Proof. vm_compute. reflexivity. Qed.

(* lifted, readable form *)
Theorem enum_roundtrip : forall t, In t all_enums -> forall v, In v (e_values t) ->
  exists s, to_string t v = Some s /\ from_string t s = Ok v.
Proof.
  intros t Ht v Hv.
  pose proof all_enums_roundtrip as H. rewrite forallb_forall in H. specialize (H t Ht).
  apply andb_prop in H as [H _]. unfold roundtrip_ok in H. rewrite forallb_forall in H. specialize (H v Hv).
  destruct (to_string t v) as [s|]; [|discriminate]. exists s. split; [reflexivity|].
  destruct (from_string t s) as [v'|]; [|discriminate]. apply Z.eqb_eq in H. subst. reflexivity.
Qed.
Print Assumptions enum_roundtrip.
