From Coq Require Import List ZArith Bool.
From Coq Require Import Strings.Byte.
Import ListNotations.
From LLIR Require Import Gen.Enums.
Local Open Scope Z_scope.

Fixpoint bytes_eqb (a b : list byte) : bool :=
  match a, b with
  | [], [] => true
  | x :: a', y :: b' => Byte.eqb x y && bytes_eqb a' b'
  | _, _ => false
  end.

Fixpoint assocZ (v : Z) (l : list (Z * list byte)) : option (list byte) :=
  match l with [] => None | (k, s) :: r => if k =? v then Some s else assocZ v r end.
Fixpoint assocS (s : list byte) (l : list (list byte * Z)) : option Z :=
  match l with [] => None | (k, v) :: r => if bytes_eqb k s then Some v else assocS s r end.

Inductive outcome := Ok (v : Z) | Panic.
Definition to_string (t : enum_tables) (v : Z) : option (list byte) := assocZ v (e_string t).  (* None = the T(%d) fallback *)
Definition from_string (t : enum_tables) (s : list byte) : outcome :=
  match s with
  | [] => if e_empty0 t then Ok 0 else match assocS s (e_from t) with Some v => Ok v | None => Panic end
  | _ => match assocS s (e_from t) with Some v => Ok v | None => Panic end
  end.

Definition roundtrip_ok (t : enum_tables) : bool :=
  forallb (fun v => match to_string t v with
                    | Some s => match from_string t s with Ok v' => v =? v' | Panic => false end
                    | None => false end) (e_values t).

Fixpoint nodupb (l : list (list byte)) : bool :=
  match l with [] => true | s :: r => negb (existsb (bytes_eqb s) r) && nodupb r end.
Definition inj_ok (t : enum_tables) : bool :=
  nodupb (flat_map (fun v => match to_string t v with Some s => [s] | None => [] end) (e_values t)).

Definition failing (t : enum_tables) : list Z :=
  filter (fun v => negb match to_string t v with
                    | Some s => match from_string t s with Ok v' => v =? v' | Panic => false end
                    | None => false end) (e_values t).

Eval vm_compute in map (fun t => (length (e_values t), failing t, inj_ok t)) all_enums.

Theorem all_enums_roundtrip : forallb (fun t => roundtrip_ok t && inj_ok t) all_enums = true.
Proof. vm_compute. reflexivity. Qed.

(* lifted, readable form *)
Theorem enum_roundtrip : forall t, In t all_enums -> forall v, In v (e_values t) ->
  exists s, to_string t v = Some s /\ from_string t s = Ok v.
Proof.
  intros t Ht v Hv.
  pose proof all_enums_roundtrip as H. rewrite forallb_forall in H. specialize (H t Ht).
  apply andb_prop in H as [H _]. unfold roundtrip_ok in H. rewrite forallb_forall in H. specialize (H v Hv).
  destruct (to_string t v) as [s|]; [|discriminate]. exists s. split; [reflexivity|].
  destruct (from_string t s) as [v'|]; [|discriminate]. apply Z.eqb_eq in H. subst. reflexivity.
Qed.
Print Assumptions enum_roundtrip.
