From Coq Require Import List Bool NArith ZArith Lia.
From LLIR Require Import Lib.Bytes Model.Types Model.Gep.
Import ListNotations.

(* ---------- the classifiers disagree: witnesses (C07 refuted on the current source) ---------- *)
Theorem zeroinit_vector_index_refuted :
  exists c, classify_ir_inst (IConst c) <> classify_ir_expr c.
Proof. exists (CZero (Vector false 4)). vm_compute. congruence. Qed.

Theorem constexpr_index_refuted :
  exists c, classify_asm_inst (IConst c) = Panic /\ classify_ir_inst (IConst c) <> Panic.
Proof. exists (CExpr Scalar). split; vm_compute; congruence. Qed.

Theorem undef_vector_index_refuted :
  exists c, classify_ir_inst (IConst c) <> classify_ir_expr c.
Proof. exists (CUndef (Vector false 4)). vm_compute. congruence. Qed.

Theorem scalable_base_refuted :
  exists elem src, result_type (fun _ => None) elem src [new_index 0] = Ok (TVec false 4 (TPtr elem 0))
                   /\ src = TVec true 4 (TPtr elem 0).
Proof. exists (TInt 32), (TVec true 4 (TPtr (TInt 32) 0)). split; reflexivity. Qed.

(* ---------- where they agree ---------- *)
Definition all_int (els : list celem) : bool := forallb (fun e => match e with EInt _ => true | EOther => false end) els.

(* index forms on which the three copies of getIndex are in sync *)
Definition synced (c : cform) : bool :=
  match c with
  | CInt _ | CBoolLit _ => true
  | CZero Scalar | CUndef Scalar | CPoison Scalar | CPtrToInt Scalar => true
  | CVec els => all_int els
  | _ => false
  end.

Lemma splat_some_len els : forall v n ix, splat_value els (Some v) n = Ok ix -> vector_len ix = n.
Proof.
  induction els as [|x l IH]; intros v n ix; cbn [splat_value].
  - intros [= <-]. reflexivity.
  - destruct x as [w|]; [|discriminate]. destruct (int64_of w =? v)%Z; [apply IH|].
    intros [= <-]. reflexivity.
Qed.

Lemma vec_index_len els ix : vec_index els = Ok ix -> els <> [] ->
  vector_len ix = N.of_nat (length els).
Proof.
  unfold vec_index. destruct els as [|e r]; [congruence|]. intros H _.
  cbn [splat_value] in H. destruct e as [w|]; [|discriminate].
  eapply splat_some_len. exact H.
Qed.

Theorem classifiers_agree_partial c : synced c = true ->
  classify_asm_inst (IConst c) = classify_ir_inst (IConst c) /\
  classify_asm_alias c = classify_asm_inst (IConst c).
Proof.
  destruct c as [v|b|s|els|s|s|s|s|]; cbn [synced]; try discriminate; intros H;
    try (destruct s; try discriminate); split; reflexivity.
Qed.

(* the expression constructor differs from the others only by overriding the vector
   length with the operand type's length; for vector constants that is the same number *)
Theorem classifier_expr_agrees_on_vec els ix : els <> [] -> all_int els = true ->
  classify_ir_inst (IConst (CVec els)) = Ok ix -> classify_ir_expr (CVec els) = Ok ix.
Proof.
  intros Hne Hall H. unfold classify_ir_expr. cbn [cform_shape]. cbn [classify_ir_inst get_index_ir] in *.
  rewrite H. cbn [with_len]. pose proof (vec_index_len els ix H Hne) as L. destruct ix; cbn in *. subst. reflexivity.
Qed.

(* ---------- the walker against LLVM's rule ---------- *)
Section Walk.
  Variable bodies : env.
  Definition step_of (ix : index) : option Z := if has_val ix then Some (val ix) else None.

  Lemma step_type_llvm e ix e' : step_type bodies e ix = Ok e' ->
    forall r, llvm_elem bodies e (step_of ix :: r) = llvm_elem bodies e' r.
  Proof.
    unfold step_type, struct_field, step_of. intros H r.
    destruct e; try discriminate; cbn [llvm_elem].
    - injection H as <-. reflexivity.
    - injection H as <-. reflexivity.
    - destruct (has_val ix); cbn [negb] in H; [|discriminate].
      destruct (val ix <? 0)%Z; [discriminate|].
      destruct (nth_error fields (Z.to_nat (val ix))); [injection H as <-; reflexivity|discriminate].
    - destruct (bodies name) as [fs|]; [|discriminate].
      destruct (has_val ix); cbn [negb] in H; [|discriminate].
      destruct (val ix <? 0)%Z; [discriminate|].
      destruct (nth_error fs (Z.to_nat (val ix))); [injection H as <-; reflexivity|discriminate].
  Qed.

  (* soundness: whatever element type the walker reaches is the one LLVM reaches *)
  Theorem walk_sound : forall idxs first e rvl e' rvl',
    walk bodies first e idxs rvl = Ok (e', rvl') ->
    llvm_elem bodies e (map step_of (if first then tl idxs else idxs)) = Some e'.
  Proof.
    induction idxs as [|ix r IH]; intros first e rvl e' rvl'; cbn [walk].
    - intros [= <- <-]. destruct first; reflexivity.
    - destruct (merge_len rvl ix) as [rv|]; [|discriminate].
      destruct first; cbn [tl map].
      + intros H. apply (IH false) in H. exact H.
      + destruct (step_type bodies e ix) as [e1|] eqn:S; [|discriminate].
        intros H. apply (IH false) in H. cbn [map]. rewrite (step_type_llvm e ix e1 S). exact H.
  Qed.

  (* completeness on well-formed index lists: struct steps are constants in range *)
  Theorem walk_complete : forall idxs e rvl e',
    llvm_elem bodies e (map step_of idxs) = Some e' ->
    (forall ix, In ix idxs -> merge_len rvl ix = Ok rvl) ->
    walk bodies false e idxs rvl = Ok (e', rvl).
  Proof.
    induction idxs as [|ix r IH]; intros e rvl e'; cbn [walk map llvm_elem].
    - intros [= <-] _. reflexivity.
    - intros H Hm. rewrite (Hm ix (or_introl eq_refl)).
      assert (exists e1, step_type bodies e ix = Ok e1 /\ llvm_elem bodies e1 (map step_of r) = Some e') as (e1 & S & H1).
      { unfold step_type, struct_field, step_of in *. destruct e; try discriminate.
        - eexists; split; [reflexivity|exact H].
        - eexists; split; [reflexivity|exact H].
        - destruct (has_val ix); [|discriminate]. cbn [negb]. destruct (val ix <? 0)%Z; [discriminate|].
          destruct (nth_error fields (Z.to_nat (val ix))) as [f|]; [|discriminate]. eexists; split; [reflexivity|exact H].
        - destruct (bodies name) as [fs|]; [|discriminate].
          destruct (has_val ix); [|discriminate]. cbn [negb]. destruct (val ix <? 0)%Z; [discriminate|].
          destruct (nth_error fs (Z.to_nat (val ix))) as [f|]; [|discriminate]. eexists; split; [reflexivity|exact H]. }
      rewrite S. apply IH; [exact H1|]. intros ix' Hin. apply Hm. right; exact Hin.
  Qed.
End Walk.

Local Open Scope N_scope.
(* ---------- one statement: on well-formed operand shapes the walker computes LLVM's result type ---------- *)
Section ResultTypeLlvm.
  Variable bodies : env.
  Variable n : N.                       (* the common length of all vector operands *)
  Hypothesis n_pos : 0 < n.

  Definition uniform (s : ishape) : Prop := s = Scalar \/ s = Vector false n.
  Definition len_ok (ix : index) : Prop := vector_len ix = 0 \/ vector_len ix = n.
  Definition any_vec (idxs : list index) : bool := existsb (fun ix => negb (vector_len ix =? 0)) idxs.

  Lemma n_neq0 : (n =? 0) = false. Proof. apply N.eqb_neq. lia. Qed.

  Lemma merge_len_uniform rvl ix : (rvl = 0 \/ rvl = n) -> len_ok ix ->
    merge_len rvl ix = Ok (if (rvl =? 0) && negb (vector_len ix =? 0) then n else rvl).
  Proof.
    intros Hr Hl. unfold merge_len. destruct Hr as [->| ->], Hl as [E|E]; rewrite E;
      rewrite ?N.eqb_refl, ?n_neq0; cbn [negb andb]; rewrite ?N.eqb_refl, ?n_neq0; reflexivity.
  Qed.

  Lemma walk_uniform : forall (idxs : list index) (first : bool) e rvl e', (rvl = 0 \/ rvl = n) -> Forall len_ok idxs ->
    llvm_elem bodies e (map (step_of) (if first then tl idxs else idxs)) = Some e' ->
    walk bodies first e idxs rvl = Ok (e', if (rvl =? 0) then (if any_vec idxs then n else 0) else rvl).
  Proof.
    induction idxs as [|ix r IH]; intros first e rvl e' Hr Hl H; cbn [walk].
    - assert (e' = e) as -> by (destruct first; cbn in H; congruence). cbn [any_vec existsb]. destruct (rvl =? 0) eqn:E; [apply N.eqb_eq in E; subst|]; reflexivity.
    - inversion Hl as [|? ? Hix Hrest]; subst.
      rewrite (merge_len_uniform rvl ix Hr Hix).
      set (rvl' := if (rvl =? 0) && negb (vector_len ix =? 0) then n else rvl).
      assert (rvl' = 0 \/ rvl' = n) as Hr'.
      { unfold rvl'. destruct ((rvl =? 0) && negb (vector_len ix =? 0)); [right; reflexivity|exact Hr]. }
      assert ((if rvl' =? 0 then if any_vec r then n else 0 else rvl') =
              (if rvl =? 0 then if any_vec (ix :: r) then n else 0 else rvl)) as Efin.
      { unfold rvl'. cbn [any_vec existsb]. fold (any_vec r).
        destruct (rvl =? 0) eqn:E0; cbn [andb].
        - destruct (vector_len ix =? 0); cbn [negb orb]; [rewrite E0; reflexivity|rewrite n_neq0; reflexivity].
        - rewrite E0. reflexivity. }
      destruct first; cbn [tl] in H.
      + rewrite (IH false e rvl' e' Hr' Hrest H). f_equal. f_equal. exact Efin.
      + cbn [map llvm_elem] in H.
        assert (exists e1, step_type bodies e ix = Ok e1 /\ llvm_elem bodies e1 (map step_of r) = Some e') as (e1 & S & H1).
        { unfold step_type, struct_field, step_of in *. destruct e; try discriminate.
          - eexists; split; [reflexivity|exact H].
          - eexists; split; [reflexivity|exact H].
          - destruct (has_val ix); [|discriminate]. cbn [negb]. destruct (val ix <? 0)%Z; [discriminate|].
            destruct (nth_error fields (Z.to_nat (val ix))) as [f|]; [|discriminate]. eexists; split; [reflexivity|exact H].
          - destruct (bodies name) as [fs|]; [|discriminate].
            destruct (has_val ix); [|discriminate]. cbn [negb]. destruct (val ix <? 0)%Z; [discriminate|].
            destruct (nth_error fs (Z.to_nat (val ix))) as [f|]; [|discriminate]. eexists; split; [reflexivity|exact H]. }
        rewrite S. rewrite (IH false e1 rvl' e' Hr' Hrest H1). f_equal. f_equal. exact Efin.
  Qed.

  (* the base operand: a pointer, or a fixed-length vector of pointers of the common length *)
  Inductive base_ok : ty -> N -> ishape -> Prop :=
  | base_scalar e a : base_ok (TPtr e a) a Scalar
  | base_vector e a : base_ok (TVec false n (TPtr e a)) a (Vector false n).

  Definition shape_of_len (ix : index) (s : ishape) : Prop := uniform s /\ vector_len ix = shape_len s.

  Lemma any_vec_first idxs shapes : Forall2 shape_of_len idxs shapes ->
    first_vector shapes = if any_vec idxs then Vector false n else Scalar.
  Proof.
    induction 1 as [|ix s idxs shapes [Hu Hl] _ IH]; [reflexivity|].
    unfold first_vector in *. cbn [filter any_vec existsb]. fold (any_vec idxs).
    destruct Hu as [-> | ->]; cbn [shape_len] in Hl; rewrite Hl.
    - cbn. exact IH.
    - rewrite n_neq0. reflexivity.
  Qed.

  Theorem result_type_llvm : forall elem src a bshape idxs shapes t,
    base_ok src a bshape -> Forall2 shape_of_len idxs shapes ->
    llvm_gep bodies elem a bshape shapes (map step_of (tl idxs)) = Some t ->
    result_type bodies elem src idxs = Ok t.
  Proof.
    intros elem src a bshape idxs shapes t Hb Hs H. unfold llvm_gep in H.
    destruct (llvm_elem bodies elem (map step_of (tl idxs))) as [e'|] eqn:E; [|discriminate]. injection H as <-.
    assert (Forall len_ok idxs) as Hl.
    { clear - Hs. induction Hs as [|ix s ? ? [Hu Hl] _ IH]; constructor; [|exact IH].
      unfold len_ok. rewrite Hl. destruct Hu as [-> | ->]; [left|right]; reflexivity. }
    pose proof (any_vec_first idxs shapes Hs) as Fv.
    unfold result_type. destruct Hb as [e0 a|e0 a].
    - rewrite (walk_uniform idxs true elem 0 e' (or_introl eq_refl) Hl E). cbn [N.eqb].
      unfold first_vector in *. cbn [filter]. rewrite Fv.
      destruct (any_vec idxs); [rewrite n_neq0; reflexivity|reflexivity].
    - rewrite (walk_uniform idxs true elem n e' (or_intror eq_refl) Hl E).
      rewrite n_neq0. cbv beta iota. rewrite n_neq0. unfold first_vector. cbn [filter]. reflexivity.
  Qed.

  (* and nothing else: whatever the walker returns on such operands is LLVM's type *)
  Theorem result_type_llvm_iff : forall elem src a bshape idxs shapes t,
    base_ok src a bshape -> Forall2 shape_of_len idxs shapes ->
    (result_type bodies elem src idxs = Ok t <-> llvm_gep bodies elem a bshape shapes (map step_of (tl idxs)) = Some t).
  Proof.
    intros elem src a bshape idxs shapes t Hb Hs. split; [|apply result_type_llvm; assumption].
    intros H.
    assert (exists e' rvl0 rvl', walk bodies true elem idxs rvl0 = Ok (e', rvl')) as (e' & rvl0 & rvl' & W).
    { unfold result_type in H. destruct Hb.
      - destruct (walk bodies true elem idxs 0) as [[e' r']|] eqn:W; [|discriminate]. eauto.
      - destruct (walk bodies true elem idxs n) as [[e' r']|] eqn:W; [|discriminate]. eauto. }
    pose proof (walk_sound bodies idxs true elem rvl0 e' rvl' W) as S. cbn [tl] in S.
    assert (exists t', llvm_gep bodies elem a bshape shapes (map step_of (tl idxs)) = Some t') as [t' L].
    { unfold llvm_gep. rewrite S. eauto. }
    pose proof (result_type_llvm elem src a bshape idxs shapes t' Hb Hs L) as R. rewrite H in R. injection R as ->. exact L.
  Qed.
End ResultTypeLlvm.
Print Assumptions result_type_llvm_iff.

(* non-vacuity: getelementptr {i32, [4 x i8]}, {i32, [4 x i8]}* %p, <2 x i64> %v, i32 1, i64 3  ->  <2 x i8*> *)
Example result_type_llvm_example :
  let st := TStruct false [TInt 32; TArr 4 (TInt 8)] in
  let idxs := [no_val 2; new_index 1; new_index 3] in
  let shapes := [Vector false 2; Scalar; Scalar] in
  base_ok 2 (TPtr st 0) 0 Scalar /\ Forall2 (shape_of_len 2) idxs shapes /\
  llvm_gep (fun _ => None) st 0 Scalar shapes (map step_of (tl idxs)) = Some (TVec false 2 (TPtr (TInt 8) 0)) /\
  result_type (fun _ => None) st (TPtr st 0) idxs = Ok (TVec false 2 (TPtr (TInt 8) 0)).
Proof.
  cbv zeta. split; [constructor|]. split.
  - constructor; [split; [right; reflexivity|reflexivity]|].
    constructor; [split; [left; reflexivity|reflexivity]|].
    constructor; [split; [left; reflexivity|reflexivity]|constructor].
  - split; reflexivity.
Qed.
