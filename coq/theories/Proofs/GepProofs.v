From Coq Require Import List Bool NArith ZArith Lia.
From LLIR Require Import Lib.Bytes Model.Types Model.Gep.
Import ListNotations.

(* ---------- the classifiers disagree: witnesses (C07 refuted on the current source) ---------- *)
Theorem zeroinit_vector_index_refuted :
  exists c, classify_ir_inst (IConst c) <> classify_ir_expr c.
Proof. exists (CZero (Vector false 4)). vm_compute. congruence. Qed.

Theorem constexpr_index_refuted :
  exists c, classify_asm_inst (IConst c) = Panic /\ classify_ir_inst (IConst c) <> Panic.
Proof. exists (CExpr Scalar). split; vm_compute; congruence. Qed.

Theorem undef_vector_index_refuted :
  exists c, classify_ir_inst (IConst c) <> classify_ir_expr c.
Proof. exists (CUndef (Vector false 4)). vm_compute. congruence. Qed.

Theorem scalable_base_refuted :
  exists elem src, result_type (fun _ => None) elem src [new_index 0] = Ok (TVec false 4 (TPtr elem 0))
                   /\ src = TVec true 4 (TPtr elem 0).
Proof. exists (TInt 32), (TVec true 4 (TPtr (TInt 32) 0)). split; reflexivity. Qed.

(* ---------- where they agree ---------- *)
Definition all_int (els : list celem) : bool := forallb (fun e => match e with EInt _ => true | EOther => false end) els.

(* index forms on which the three copies of getIndex are in sync *)
Definition synced (c : cform) : bool :=
  match c with
  | CInt _ | CBoolLit _ => true
  | CZero Scalar | CUndef Scalar | CPoison Scalar | CPtrToInt Scalar => true
  | CVec els => all_int els
  | _ => false
  end.

Lemma splat_some_len els : forall v n ix, splat_value els (Some v) n = Ok ix -> vector_len ix = n.
Proof.
  induction els as [|x l IH]; intros v n ix; cbn [splat_value].
  - intros [= <-]. reflexivity.
  - destruct x as [w|]; [|discriminate]. destruct (int64_of w =? v)%Z; [apply IH|].
    intros [= <-]. reflexivity.
Qed.

Lemma vec_index_len els ix : vec_index els = Ok ix -> els <> [] ->
  vector_len ix = N.of_nat (length els).
Proof.
  unfold vec_index. destruct els as [|e r]; [congruence|]. intros H _.
  cbn [splat_value] in H. destruct e as [w|]; [|discriminate].
  eapply splat_some_len. exact H.
Qed.

Theorem classifiers_agree_partial c : synced c = true ->
  classify_asm_inst (IConst c) = classify_ir_inst (IConst c) /\
  classify_asm_alias c = classify_asm_inst (IConst c).
Proof.
  destruct c as [v|b|s|els|s|s|s|s|]; cbn [synced]; try discriminate; intros H;
    try (destruct s; try discriminate); split; reflexivity.
Qed.

(* the expression constructor differs from the others only by overriding the vector
   length with the operand type's length; for vector constants that is the same number *)
Theorem classifier_expr_agrees_on_vec els ix : els <> [] -> all_int els = true ->
  classify_ir_inst (IConst (CVec els)) = Ok ix -> classify_ir_expr (CVec els) = Ok ix.
Proof.
  intros Hne Hall H. unfold classify_ir_expr. cbn [cform_shape]. cbn [classify_ir_inst get_index_ir] in *.
  rewrite H. cbn [with_len]. pose proof (vec_index_len els ix H Hne) as L. destruct ix; cbn in *. subst. reflexivity.
Qed.

(* ---------- the walker against LLVM's rule ---------- *)
Section Walk.
  Variable bodies : env.
  Definition step_of (ix : index) : option Z := if has_val ix then Some (val ix) else None.

  Lemma step_type_llvm e ix e' : step_type bodies e ix = Ok e' ->
    forall r, llvm_elem bodies e (step_of ix :: r) = llvm_elem bodies e' r.
  Proof.
    unfold step_type, struct_field, step_of. intros H r.
    destruct e; try discriminate; cbn [llvm_elem].
    - injection H as <-. reflexivity.
    - injection H as <-. reflexivity.
    - destruct (has_val ix); cbn [negb] in H; [|discriminate].
      destruct (val ix <? 0)%Z; [discriminate|].
      destruct (nth_error fields (Z.to_nat (val ix))); [injection H as <-; reflexivity|discriminate].
    - destruct (bodies name) as [fs|]; [|discriminate].
      destruct (has_val ix); cbn [negb] in H; [|discriminate].
      destruct (val ix <? 0)%Z; [discriminate|].
      destruct (nth_error fs (Z.to_nat (val ix))); [injection H as <-; reflexivity|discriminate].
  Qed.

  (* soundness: whatever element type the walker reaches is the one LLVM reaches *)
  Theorem walk_sound : forall idxs first e rvl e' rvl',
    walk bodies first e idxs rvl = Ok (e', rvl') ->
    llvm_elem bodies e (map step_of (if first then tl idxs else idxs)) = Some e'.
  Proof.
    induction idxs as [|ix r IH]; intros first e rvl e' rvl'; cbn [walk].
    - intros [= <- <-]. destruct first; reflexivity.
    - destruct (merge_len rvl ix) as [rv|]; [|discriminate].
      destruct first; cbn [tl map].
      + intros H. apply (IH false) in H. exact H.
      + destruct (step_type bodies e ix) as [e1|] eqn:S; [|discriminate].
        intros H. apply (IH false) in H. cbn [map]. rewrite (step_type_llvm e ix e1 S). exact H.
  Qed.

  (* completeness on well-formed index lists: struct steps are constants in range *)
  Theorem walk_complete : forall idxs e rvl e',
    llvm_elem bodies e (map step_of idxs) = Some e' ->
    (forall ix, In ix idxs -> merge_len rvl ix = Ok rvl) ->
    walk bodies false e idxs rvl = Ok (e', rvl).
  Proof.
    induction idxs as [|ix r IH]; intros e rvl e'; cbn [walk map llvm_elem].
    - intros [= <-] _. reflexivity.
    - intros H Hm. rewrite (Hm ix (or_introl eq_refl)).
      assert (exists e1, step_type bodies e ix = Ok e1 /\ llvm_elem bodies e1 (map step_of r) = Some e') as (e1 & S & H1).
      { unfold step_type, struct_field, step_of in *. destruct e; try discriminate.
        - eexists; split; [reflexivity|exact H].
        - eexists; split; [reflexivity|exact H].
        - destruct (has_val ix); [|discriminate]. cbn [negb]. destruct (val ix <? 0)%Z; [discriminate|].
          destruct (nth_error fields (Z.to_nat (val ix))) as [f|]; [|discriminate]. eexists; split; [reflexivity|exact H].
        - destruct (bodies name) as [fs|]; [|discriminate].
          destruct (has_val ix); [|discriminate]. cbn [negb]. destruct (val ix <? 0)%Z; [discriminate|].
          destruct (nth_error fs (Z.to_nat (val ix))) as [f|]; [|discriminate]. eexists; split; [reflexivity|exact H]. }
      rewrite S. apply IH; [exact H1|]. intros ix' Hin. apply Hm. right; exact Hin.
  Qed.
End Walk.
