(* C01 -- Parse then print preserves the meaning of every accepted module (partial: proved on the
   uIR fragment; for every kind the regenerated pieces carry table theorems). *)
From Coq Require Import List Bool ZArith String.
From LLIR Require Import Gen.Printers Gen.FieldFlow Reviewed.Printers.
From LLIR Require Import Pipeline.MicroIR Pipeline.MicroIRProofs Pipeline.MicroIRSpelling Pipeline.MicroIRNoCrash.
From LLIR Require Import Proofs.TranslatorDataflow Proofs.FieldFlowProofs Proofs.PrinterTableProofs.
Import ListNotations.

(* R2 on uIR (whole modules: globals, functions, parameters, blocks, instructions and terminators of
   uniform shape, both scopes, LLVM numbering, integer literals as text): if the translation of an AST
   succeeds, the printed module IS the input in canonical spelling -- erase rewrites an AST into
   canonical spelling without resolving anything (omitted identifiers become the LLVM counter, integer
   literals are re-spelled, unnamed globals get their number; every opcode, flag, type, operand, label
   and name stays in place): nothing the input said is dropped, altered or invented *)
Theorem C01_printed_module_is_input_in_canonical_spelling : forall choose_hex a m,
  translate a = MicroIR.Ok m -> erase choose_hex a = MicroIR.Ok (embed choose_hex m).
Proof. exact erase_translate. Qed.

(* and never crashes: every AST of the fragment, well-formed or not (undefined and duplicate names, numbers out
   of sequence, malformed integer literals, labels that are not blocks), is translated or rejected with an
   error *)
Theorem C01_translate_never_panics : forall a, translate a <> MicroIR.Panic.
Proof. exact translate_never_panics. Qed.

(* every kind, over the regenerated bodies of the 66 asm.ir*Inst / ir*Term translators run with
   uninterpreted callees: each assigned field is computed from the part of the AST node of the same
   name -- no operand dropped for another, none swapped (four translators named in not_run excepted) *)
Theorem C01_translators_keep_positions :
  forallb (fun p => TranslatorDataflow.mem (p_method p) not_run || translator_ok p) translators = true.
Proof. exact translators_keep_positions. Qed.
Theorem C01_cexpr_translators_keep_positions :
  forallb (fun p => TranslatorDataflow.mem (p_method p) cexpr_not_run || cexpr_ok p) cexpr_translators = true.
Proof. exact cexpr_translators_keep_positions. Qed.

(* every kind, over the regenerated field tables (74 structs of package ir with a printer): every
   stored field is read by the printer, and is assigned by the parser except InstFreeze.Metadata (KF-25) *)
Theorem C01_every_field_is_printed : forallb all_printed flows = true.
Proof. exact every_field_is_printed. Qed.
Theorem C01_every_field_is_translated_partial :
  forallb (fun f => forallb (fun x => known_gap f x || FieldFlowProofs.mem x (f_assigned f)) (stored f)) flows = true.
Proof. exact every_field_is_translated_partial. Qed.
Theorem C01_every_field_is_translated_refuted :
  exists f x, In f flows /\ In x (stored f) /\ FieldFlowProofs.mem x (f_assigned f) = false.
Proof. exact every_field_is_translated_refuted. Qed.

(* the regenerated table of all 837 bodies (printers, Type() methods, constructors, parser-side
   constructors and translators) is what was reviewed: a change to any of them makes this fail *)
Theorem C01_printers_match : printers = reviewed_printers.
Proof. exact printers_match. Qed.

(* ---- the text layer, kind by kind (closes: R2 for the instruction kinds outside the uniform uIR shape) ----
   For each of the 66 instruction and terminator kinds, the regenerated LLString body (Gen/Printers.v) run by
   Model/GoEval.v on an object of that kind whose operands are abstract values with given printed forms returns
   exactly the line LLVM's grammar has for the kind -- for all operand texts, names, flag values, alignments,
   orderings and attachments (quantified, not sampled).  kind_statements pairs each kind with the statement of its
   lemma (Proofs/InstPrintLemmas.v, InstPrintMemory.v, CallPrintLemmas.v, TermPrintLemmas.v). *)
From Coq Require Import Strings.Byte.
From LLIR Require Import Lib.Bytes Model.Types Model.TypeString Model.GoEval Proofs.PrinterRefinement.
From LLIR Require Import Proofs.InstPrintBase Proofs.InstPrintLemmas Proofs.InstPrintMemory Proofs.CallPrintLemmas Proofs.InvokePrintLemmas Proofs.CallBrPrintLemmas Proofs.TermPrintLemmas Proofs.InstPrintSummary Proofs.ValueStringLemmas Proofs.ConstExprPrintLemmas.
Open Scope string_scope.

Theorem C01_every_kind_prints_its_line : Forall (fun p => snd p) kind_statements.
Proof. exact every_kind_prints_its_line. Qed.
(* and the kinds with a statement are all the kinds that have a regenerated LLString body *)
Theorem C01_printing_lemmas_cover_every_kind : map fst kind_statements = map p_type (filter is_kind printers).
Proof. rewrite covered_kinds_are_all_kinds. exact statements_are_of_covered_kinds. Qed.

(* some of the statements, written out.  %r = add nuw nsw T %x, %y (and sub, mul, shl) *)
Theorem C01_overflow_binops_print : forall kind kw, In (kind, kw) overflow_binops ->
  forall g fuel id tx ix ty iy flags mds,
  call_printer impl g (S fuel) kind "LLString"
    (VObj kind [("Ident()", VStr id); ("X", value tx ix); ("Y", value ty iy);
                ("OverflowFlags", VList (map (VEnum "enum.OverflowFlag") flags)); ("Metadata", VList (map mdatt mds))])
  = GoEval.Ok (VStr (id ++ lit " = " ++ lit kw ++ flags_text "enum.OverflowFlag" flags ++ lit " " ++ tv tx ix ++ lit ", " ++ iy ++ mds_text mds)%list).
Proof. exact print_overflow_binop. Qed.

(* %r = trunc T %x to T2 (and the other twelve conversions) *)
Theorem C01_conversions_print : forall kind kw, In (kind, kw) conversions ->
  forall g fuel id tx ix to mds,
  call_printer impl g (S fuel) kind "LLString"
    (VObj kind [("Ident()", VStr id); ("From", value tx ix); ("To", atype to); ("Metadata", VList (map mdatt mds))])
  = GoEval.Ok (VStr (id ++ lit " = " ++ lit kw ++ lit " " ++ tv tx ix ++ lit " to " ++ to ++ mds_text mds)%list).
Proof. exact print_conversion. Qed.

(* %r = load atomic volatile T, T* %p syncscope("s") seq_cst, align N, !md *)
Theorem C01_load_prints : forall g fuel id atomic volatile et tp ip scope ordering align mds,
  call_printer impl g (S (S fuel)) "ir.InstLoad" "LLString"
    (VObj "ir.InstLoad" [("Ident()", VStr id); ("ElemType", atype et); ("Src", value tp ip); ("Atomic", VBool atomic); ("Volatile", VBool volatile);
                         ("SyncScope", VStr scope); ("Ordering", VEnum "enum.AtomicOrdering" ordering); ("Align", VEnum "ir.Align" align);
                         ("Metadata", VList (map mdatt mds))])
  = GoEval.Ok (VStr (id ++ lit " = load" ++ opt atomic " atomic" ++ opt volatile " volatile" ++ lit " " ++ et ++ lit ", " ++ tv tp ip
              ++ syncscope_text scope ++ ordering_text ordering ++ align_text align ++ mds_text mds)%list).
Proof. exact print_load. Qed.

(* %r = tail call fast fastcc retattrs addrspace(N) T @f(T1 %a, T2 %b) fnattrs [ bundles ], !md -- the result name is
   written unless the result type is void; a variadic callee is written with its whole signature *)
Theorem C01_call_prints : forall fuel id rt sigt variadic tc ic (args : list (bytes * bytes)) tail cc flags rattrs addrspace fattrs bundles mds,
  call_printer impl call_globals (S (S (S fuel))) "ir.InstCall" "LLString"
    (VObj "ir.InstCall" [("Ident()", VStr id); ("Typ", atype rt); ("Sig()", asig sigt variadic); ("Callee", value tc ic);
                         ("Args", VList (map (fun x => value (fst x) (snd x)) args));
                         ("Tail", VEnum "enum.Tail" tail); ("CallingConv", VEnum "enum.CallingConv" cc);
                         ("FastMathFlags", VList (map (VEnum "enum.FastMathFlag") flags));
                         ("ReturnAttrs", VList (map aattr rattrs)); ("AddrSpace", VEnum "types.AddrSpace" addrspace);
                         ("FuncAttrs", VList (map aattr fattrs)); ("OperandBundles", VList (map abundle bundles));
                         ("Metadata", VList (map mdatt mds))])
  = GoEval.Ok (VStr (result_text rt id ++ (if (tail =? 0)%Z then [] else enum_string "enum.Tail" tail ++ lit " ") ++ lit "call"
              ++ flags_text "enum.FastMathFlag" flags ++ cc_text cc ++ attrs_text rattrs ++ addrspace_text " " addrspace
              ++ lit " " ++ (if variadic then sigt else rt) ++ lit " " ++ ic ++ lit "(" ++ tvs args ++ lit ")"
              ++ attrs_text fattrs ++ bundles_text bundles ++ mds_text mds)%list).
Proof. exact print_call. Qed.

(* br i1 %c, label %t, label %f *)
Theorem C01_condbr_prints : forall g fuel tc ic t f mds,
  call_printer impl g (S fuel) "ir.TermCondBr" "LLString"
    (VObj "ir.TermCondBr" [("Cond", value tc ic); ("TargetTrue", value (lit "label") t); ("TargetFalse", value (lit "label") f);
                           ("Metadata", VList (map mdatt mds))])
  = GoEval.Ok (VStr (lit "br " ++ tv tc ic ++ lit ", label " ++ t ++ lit ", label " ++ f ++ mds_text mds)%list).
Proof. exact print_condbr. Qed.

(* what the statements assume of an operand -- String() is the type, a space, the identifier -- is what the
   regenerated String method of every one of the 104 kinds of value does *)
Theorem C01_value_string_is_type_space_ident : forall kind, In kind value_kinds -> forall g fuel t i,
  call_printer impl g (S fuel) kind "String" (VObj kind [("Type()", atype t); ("Ident()", VStr i)]) = GoEval.Ok (VStr (tv t i)).
Proof. exact value_string_is_type_space_ident. Qed.

(* constant expressions as operands: getelementptr inbounds (T, T* p, T1 i, ...), and all 30 kinds have such a lemma *)
Theorem C01_cexpr_getelementptr_prints : forall g fuel inbounds et tp ip (indices : list (bytes * bytes)),
  call_printer impl g (S fuel) "constant.ExprGetElementPtr" "Ident"
    (VObj "constant.ExprGetElementPtr" [("ElemType", atype et); ("Src", value tp ip);
                                        ("Indices", VList (map (fun x => value (fst x) (snd x)) indices)); ("InBounds", VBool inbounds)])
  = GoEval.Ok (VStr (lit "getelementptr" ++ opt inbounds " inbounds" ++ lit " (" ++ et ++ lit ", " ++ tv tp ip
              ++ List.concat (map (fun x => lit ", " ++ fst x ++ lit " " ++ snd x)%list indices) ++ lit ")")%list).
Proof. exact print_cexpr_getelementptr. Qed.
Theorem C01_cexpr_kinds_are_covered :
  forallb (fun p => existsb (String.eqb (p_type p)) cexpr_covered) (filter is_cexpr printers) = true
  /\ List.length (filter is_cexpr printers) = 30.
Proof. exact cexpr_kinds_are_covered. Qed.

Print Assumptions C01_every_kind_prints_its_line.
Print Assumptions C01_printing_lemmas_cover_every_kind.
Print Assumptions C01_call_prints.
Print Assumptions C01_value_string_is_type_space_ident.
Print Assumptions C01_cexpr_getelementptr_prints.
