(* C01 -- Parse then print preserves the meaning of every accepted module (partial: proved on the
   uIR fragment; for every kind the regenerated pieces carry table theorems). *)
From Coq Require Import List Bool ZArith String.
From LLIR Require Import Gen.Printers Gen.FieldFlow Reviewed.Printers.
From LLIR Require Import Pipeline.MicroIR Pipeline.MicroIRProofs Pipeline.MicroIRSpelling Pipeline.MicroIRNoCrash.
From LLIR Require Import Proofs.TranslatorDataflow Proofs.FieldFlowProofs Proofs.PrinterTableProofs.
Import ListNotations.

(* R2 on uIR (whole modules: globals, functions, parameters, blocks, instructions and terminators of
   uniform shape, both scopes, LLVM numbering, integer literals as text): if the translation of an AST
   succeeds, the printed module IS the input in canonical spelling -- erase rewrites an AST into
   canonical spelling without resolving anything (omitted identifiers become the LLVM counter, integer
   literals are re-spelled, unnamed globals get their number; every opcode, flag, type, operand, label
   and name stays in place): nothing the input said is dropped, altered or invented *)
Theorem C01_printed_module_is_input_in_canonical_spelling : forall choose_hex a m,
  translate a = MicroIR.Ok m -> erase choose_hex a = MicroIR.Ok (embed choose_hex m).
Proof. exact erase_translate. Qed.

(* and never crashes: every AST of the fragment, well-formed or not (undefined and duplicate names, numbers out
   of sequence, malformed integer literals, labels that are not blocks), is translated or rejected with an
   error *)
Theorem C01_translate_never_panics : forall a, translate a <> MicroIR.Panic.
Proof. exact translate_never_panics. Qed.

(* every kind, over the regenerated bodies of the 66 asm.ir*Inst / ir*Term translators run with
   uninterpreted callees: each assigned field is computed from the part of the AST node of the same
   name -- no operand dropped for another, none swapped (four translators named in not_run excepted) *)
Theorem C01_translators_keep_positions :
  forallb (fun p => TranslatorDataflow.mem (p_method p) not_run || translator_ok p) translators = true.
Proof. exact translators_keep_positions. Qed.
Theorem C01_cexpr_translators_keep_positions :
  forallb (fun p => TranslatorDataflow.mem (p_method p) cexpr_not_run || cexpr_ok p) cexpr_translators = true.
Proof. exact cexpr_translators_keep_positions. Qed.

(* every kind, over the regenerated field tables (74 structs of package ir with a printer): every
   stored field is read by the printer, and is assigned by the parser except InstFreeze.Metadata (KF-25) *)
Theorem C01_every_field_is_printed : forallb all_printed flows = true.
Proof. exact every_field_is_printed. Qed.
Theorem C01_every_field_is_translated_partial :
  forallb (fun f => forallb (fun x => known_gap f x || FieldFlowProofs.mem x (f_assigned f)) (stored f)) flows = true.
Proof. exact every_field_is_translated_partial. Qed.
Theorem C01_every_field_is_translated_refuted :
  exists f x, In f flows /\ In x (stored f) /\ FieldFlowProofs.mem x (f_assigned f) = false.
Proof. exact every_field_is_translated_refuted. Qed.

(* the regenerated table of all 837 bodies (printers, Type() methods, constructors, parser-side
   constructors and translators) is what was reviewed: a change to any of them makes this fail *)
Theorem C01_printers_match : printers = reviewed_printers.
Proof. exact printers_match. Qed.
