(* C15 -- Operand and successor views are complete and live. *)
From Coq Require Import List Bool Arith String.
From LLIR Require Import Model.Users Gen.Operands Gen.Formats.
From LLIR Require Import Proofs.UsersProofs Proofs.SuccsProofs Proofs.GenTables Proofs.FormatProofs.
Import ListNotations.
Local Open Scope string_scope.

(* generic part, for users with any number of operand cells: a write through a live slot changes
   exactly that operand of the printed text ... *)
Theorem C15_write_through_slot : forall (value text : Type) (render_value : value -> text) (template : list text -> text)
  (u : user value) (s : slot) (v : value), s_live s = true ->
  print value text render_value template (write value u s v) =
  template (Users.set_nth text (s_cell s) (render_value v) (map render_value (cells value u))).
Proof. exact write_through_slot. Qed.
(* ... leaves every other cell alone ... *)
Theorem C15_write_other_cells : forall (value : Type) (u : user value) (s : slot) (v : value) j, j <> s_cell s ->
  nth_error (cells value (write value u s v)) j = nth_error (cells value u) j.
Proof. exact write_other_cells. Qed.
(* ... a write through a slot that addresses a copy changes nothing (what liveness rules out) ... *)
Theorem C15_write_through_copy : forall (value : Type) (u : user value) (s : slot) (v : value), s_live s = false -> write value u s v = u.
Proof. exact write_through_copy. Qed.
(* ... and replacing a value through a complete, live slot list leaves no use behind *)
Theorem C15_replace_all_uses_leaves_none : forall (value : Type) (value_eqb : value -> value -> bool),
  (forall a b, value_eqb a b = true <-> a = b) -> forall (u : user value) slots old new,
  operands_complete value u slots -> operands_live slots -> new <> old ->
  ~ In old (cells value (replace_uses value value_eqb u slots old new)).
Proof. exact replace_all_uses_leaves_none. Qed.

(* regenerated tables (Gen/Operands.v, all 66 instruction and terminator types as they are in the
   source now): every slot Operands() returns addresses the receiver's own storage *)
Theorem C15_operands_live_all : forallb row_live user_rows = true.
Proof. exact operands_live_all. Qed.
(* the slot paths are exactly the value-typed paths of the struct, for all types but three ... *)
Theorem C15_operands_complete_partial :
  forallb (fun r => row_complete r || mem (u_type r) ["InstCall"; "TermCallBr"; "TermInvoke"]) user_rows = true.
Proof. exact operands_complete_partial. Qed.
(* ... where completeness is refuted: the operand-bundle inputs are missing (KF-16), and nothing else *)
Theorem C15_operands_complete_refuted : incomplete_rows = ["InstCall"; "TermCallBr"; "TermInvoke"].
Proof. exact operands_complete_refuted. Qed.
Theorem C15_missing_is_bundle_inputs :
  forallb (fun r => forallb (fun f => mem f (map fst (u_slots r)) || String.eqb f "OperandBundles[i].Inputs[i]") (u_fields r))
          user_rows = true.
Proof. exact missing_is_bundle_inputs. Qed.
(* every operand slot is mentioned by the printer of its type *)
Theorem C15_operands_are_printed :
  forallb (fun r => forallb (fun sl => field_shown (u_type r) (head_field (fst sl))) (u_slots r)) user_rows = true.
Proof. exact operands_are_printed. Qed.
Theorem C15_number_of_user_types : List.length user_rows = 66.
Proof. exact number_of_user_types. Qed.
(* Succs() of the nine terminators with targets reads exactly the target fields, in the order of the label
   operands of the assembly syntax (regenerated table against the reviewed order) *)
Theorem C15_succs_in_target_order : succ_rows = succ_order_reviewed.
Proof. exact succs_in_target_order. Qed.
(* the nine terminators with targets cache Succs() (KF-17: not invalidated by a later write) *)
Theorem C15_succs_cached : List.length caching_rows = 9.
Proof. exact succs_cached. Qed.

(* the successor view as a cache (Model/Users.v: Succs() returns the Successors field once it is filled):
   any number of queries of a terminator whose cache is empty or agrees with its targets return exactly the
   targets, in order, and leave them alone; a write before the first query is seen by it ... *)
Theorem C15_succs_are_targets : forall (block : Type) h (t : term block), consistent block t -> only_queries block h ->
  Forall (fun o => o = t_targets block t) (fst (trun block h t)) /\ t_targets block (snd (trun block h t)) = t_targets block t.
Proof. exact succs_are_targets. Qed.
Theorem C15_write_then_succs : forall (block : Type) (t : term block) i b, fresh block t ->
  fst (succs block (write_target block t i b)) = Users.set_nth block i b (t_targets block t).
Proof. exact write_then_succs. Qed.
(* ... but "Succs() is always the current targets" is false of the model, as it is of the code (KF-17): a target
   written through its slot after a first query is not seen, exactly when it differs from the old one *)
Theorem C15_succs_live_refuted : exists (t : term nat) i b,
  fresh nat t /\
  let t1 := snd (succs nat t) in let t2 := write_target nat t1 i b in
  fst (succs nat t2) <> t_targets nat t2.
Proof. exact succs_live_refuted. Qed.
Theorem C15_succs_stale_iff : forall (t : term nat) i b, fresh nat t -> i < List.length (t_targets nat t) ->
  let t2 := write_target nat (snd (succs nat t)) i b in
  fst (succs nat t2) = t_targets nat t2 <-> nth_error (t_targets nat t) i = Some b.
Proof. exact succs_stale_iff. Qed.
