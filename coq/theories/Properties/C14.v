(* C14 -- Observing the IR never changes it. *)
From Coq Require Import List Bool ZArith.
From Coq Require Import String.
From LLIR Require Gen.Ctors Proofs.CtorProofs Gen.Locks Proofs.GenTables.
From LLIR Require Import Model.Numbering Model.History Gen.Printers Proofs.NumberingProofs Proofs.HistoryProofs Proofs.ObserverProofs Proofs.CacheProofs.
Import ListNotations.
Local Open Scope Z_scope.

(* A history is any list of operations on the walk order of a function: insert (append or insert a
   parameter, block, instruction or terminator at any position), remove, rename (SetName: sets the
   name and resets the stored ID), print (String / WriteTo / LLString: runs the ID pass, panics when
   it reports an error) and the other observers (Type, Ident, Operands, Succs: they fill caches the
   printer does not read). *)

(* interleaving any number of Type / Ident / Operands / Succs queries anywhere changes nothing *)
Theorem C14_nonprint_observers_noop : forall h s, fold_left step h s = fold_left step (drop_queries h) s.
Proof. exact nonprint_observers_noop. Qed.
(* printing twice in a row yields identical state (hence identical text) *)
Theorem C14_print_twice_same : forall l, run [Print; Print] l = run [Print] l.
Proof. exact print_twice_same. Qed.
(* print, then edit, then print: if the earlier print succeeded and neither later print panics, the
   later print shows exactly what it would have shown without the earlier one *)
Theorem C14_print_then_edit_partial : forall o l l1 l2,
  assign_ids l = Ok l1 -> assign_ids (edit o l1) = Ok l2 -> assign_ids (edit o l) <> Err ->
  assign_ids (edit o l) = Ok l2.
Proof. exact print_then_edit. Qed.
(* ... but the later print can panic although it would not have without the earlier one (KF-15):
   print, insert an unnamed instruction at the front, print *)
Theorem C14_print_then_edit_refuted : exists l o, run [Print; o; Print] l = None /\ run [o; Print] l <> None.
Proof. exact print_then_edit_refuted. Qed.

(* the whole property on the model, for every history: construction and editing steps with print and query
   calls interleaved at any points -- if the run with the observer calls does not panic, its final print is
   exactly the final print of the steps alone ... *)
Theorem C14_observers_noop_unless_panic : forall h l r, final_print h l = Some r -> final_print (drop_observers h) l = Some r.
Proof. exact observers_noop_unless_panic. Qed.
(* ... whether it panics is decided by running it ... *)
Theorem C14_safe_history_observers_noop : forall h l, safe_history h l = true -> final_print (drop_observers h) l = final_print h l.
Proof. exact safe_history_observers_noop. Qed.
(* ... and the unguarded statement is false (KF-15): the steps alone print, with a print in between they panic *)
Theorem C14_observers_noop_refuted : exists h l, final_print (drop_observers h) l <> None /\ final_print h l = None.
Proof. exact observers_noop_refuted. Qed.
Example C14_safe_history_example :
  let x := {| it_named := false; it_id := 0; it_value := true |} in
  safe_history [Insert 0 x; Print; Query; Insert 1 x; Rename 0 true; Print] [x] = true.
Proof. reflexivity. Qed.

(* what the history model takes for granted about the observers, read off the regenerated bodies of all
   491 observer methods (String / LLString / Ident / Type / WriteTo) as they are in the source now: none
   writes to an object that existed before the call, except that a Type method fills its own cache under
   the test that it is empty (so what it returns later does not depend on whether it was called before:
   the cached value is what it would compute, as long as the fields it is computed from are assigned through
   the constructors -- the boundary the module-wide histories of the harness probe) ... *)
Theorem C14_observers_write_only_empty_type_caches : forallb write_ok observers = true.
Proof. exact observers_write_only_the_type_cache. Qed.
(* ... and the only effectful methods they call are the three ID passes, reached from the printers of a
   function and of a module only (the Print operation of the model) *)
Theorem C14_observers_call_only_id_passes :
  forallb (fun p => forallb (fun m => ObserverProofs.mem m pure_calls || ObserverProofs.mem m id_passes) (flat_map scalls (p_body p))) observers = true.
Proof. exact observers_call_only_id_passes. Qed.
Theorem C14_id_passes_called_from :
  map (fun p => (p_type p, p_method p)) (filter (fun p => existsb (fun m => ObserverProofs.mem m id_passes) (flat_map scalls (p_body p))) observers)
  = [("ir.Func", "LLString"); ("ir.Module", "WriteTo")]%string.
Proof. exact id_passes_called_from. Qed.

(* the caches are filled before any observer runs: every New* constructor of a type with a lazily filled Typ
   cache (60 types, 61 constructors, regenerated tables) calls Type() on the new object; the parser's own
   constructions (the asm.newXInst functions) either set Typ from the text or call Type() -- observed by the race runs and the
   object-dump leg, not part of this statement *)
Theorem C14_constructors_fill_type_caches :
  forallb (fun c => negb (caches c) || CtorProofs.mem "Type" (Ctors.c_calls c)) Ctors.ctors = true.
Proof. exact constructors_fill_type_caches. Qed.
Theorem C14_caching_types_have_constructors :
  forallb (fun tm => existsb (fun c => String.eqb (fst tm) (ctor_target c)) Ctors.ctors) caching_observers = true.
Proof. exact caching_types_have_constructors. Qed.

(* a print that fails leaves the function usable: each of the three ID passes takes its mutex as its first
   statement and releases it by a deferred unlock as its second, so also on every error return and on a panic
   (regenerated Gen/Locks.v) *)
Theorem C14_id_passes_release_their_lock :
  forallb (fun r => Locks.l_locked r && Locks.l_unlock_deferred r) Locks.lock_rows = true.
Proof. exact GenTables.passes_locked. Qed.
