(* C16 -- Type equality is a structural equivalence matching LLVM type identity. *)
From Coq Require Import Strings.String.
From Coq Require Import List Bool NArith Arith.
From LLIR Require Import Lib.Bytes Model.Types Model.TypeString Model.GoEval Gen.Printers.
From LLIR Require Import Proofs.TypeStringProofs Proofs.PrinterRefinement Proofs.EqualRefinement.
Import ListNotations.
Local Open Scope list_scope.

(* Types are trees; an identified struct is the leaf TNamed name (names are unique and only structs
   are named, the property's universe), so recursion goes through names only and Equal / String are
   structurally recursive: termination on recursive types is Coq's guard condition.
   wf: struct names are non-empty. *)

(* types.Equal as implemented (pointer case: comparison of the printed strings) holds exactly of
   structurally identical types: kind, width, float kind, length, scalability, element / field /
   parameter / return types, address space, packedness, variadicity, struct name *)
Theorem C16_equal_is_structural_identity : forall t u, wf t -> wf u -> (equal_go t u = true <-> t = u).
Proof. exact equal_go_spec. Qed.
Theorem C16_equal_reflexive : forall t, equal_go t t = true.
Proof. exact equal_go_refl. Qed.
Theorem C16_equal_symmetric : forall t u, wf t -> wf u -> equal_go t u = equal_go u t.
Proof. exact equal_go_sym. Qed.
Theorem C16_equal_transitive : forall t u v, wf t -> wf u -> wf v ->
  equal_go t u = true -> equal_go u v = true -> equal_go t v = true.
Proof. exact equal_go_trans. Qed.

(* printing is injective, and parsing a printed type gives the type back: equality is preserved by
   print and parse *)
Theorem C16_type_string_injective : forall t u, wf t -> wf u -> ty_string t = ty_string u -> t = u.
Proof. exact ty_string_inj. Qed.
Theorem C16_parse_after_print : forall n t, size t <= n -> wf t -> forall fuel c, n <= fuel -> is_stop c = true ->
  parse_ty fuel (ty_string t ++ c) = Some (t, c).
Proof. exact parse_ty_string. Qed.

(* regenerated tie (i): the String / LLString methods of the twelve kinds, as they are in the source
   now, compute ty_string -- for every type *)
Theorem C16_generated_printer_is_ty_string : forall t, wf_names t -> forall extra,
  call_printer impl [] (2 * depth t + 3 + extra) (tyname t) "String" (reify_ty t) = Ok (VStr (ty_string t)).
Proof. exact generated_printer_is_ty_string. Qed.

(* regenerated tie (ii): the twelve Equal methods as they are in the source now (the index loops of literal
   struct and function types included) compute equal_go, for every t against every u, at any sufficient fuel *)
Theorem C16_generated_equal_is_equal_go : forall t, wf_names t -> forall u, wf_names u -> forall n,
  2 * (depth t + depth u) + 5 <= n -> run_equal n t u = Ok (VBool (equal_go t u)).
Proof. exact generated_equal_is_equal_go. Qed.
(* ... and agree with it on all 961 ordered pairs of 31 sample types covering every kind (a finite
   test inside Coq, labelled as such) *)
Theorem C16_generated_equal_agrees_on_samples : forallb (fun t => forallb (fun u => agree t u) samples) samples = true.
Proof. exact equal_agrees_on_samples. Qed.
